/-
  TJ.Proofs.HmacK — the HMAC entry points with a short key (at most 64 bytes, the only case HKDF uses), with the stronger frame the HKDF state
  needs: outside the state object no label rises (except inside the window absorbed by an update), so the public `counter` and `posn` bytes that
  share a block with the key and the data stay public.
-/
import TJ.Proofs.Update1
import TJ.Proofs.HkdfExtract
namespace TJ.MiniC.Hoare
open TJ TJ.MiniC TJ.MiniC.PermC TJ.Gen.MiniC

theorem ole_refl (x : Option Block) : ORel BlockLe x x := by
  cases x with
  | none => trivial
  | some b => exact BlockLe.refl b

theorem keepB_le {W : Nat → Prop} {b b0 : Block} (k : KeepB W b b0) (hw : ∀ q, ¬ W q) : BlockLe b b0 := ⟨k.1, fun q => k.2.2 q (hw q)⟩

theorem le_block {m : Array Block} {j : Nat} {Y : Array LByte} {base : Nat} (h : ORel BlockLe m[j]? (some ⟨Y, base⟩)) :
    ∃ Z, m[j]? = some ⟨Z, base⟩ ∧ Z.size = Y.size ∧ BytesLe Z Y := by
  cases hb : m[j]? with
  | none => rw [hb] at h; exact h.elim
  | some blk =>
    rw [hb] at h
    have h1 : blk.base = base := h.1
    exact ⟨blk.bytes, by rw [← h1], ARel.size_eq h.2, h.2⟩

/-- as `SK1`, with the labels of the other blocks not risen -/
structure SK1K (bs baseS n Xsz : Nat) (st0 : St) (kb : Bytes) (mask : UInt8) (env : Env) (s : St) : Prop where
  esz : env.size = 9
  e0 : env[0]? = some (mkPtr bs baseS, .pub)
  e2 : env[2]? = some (kb.length, .pub)
  e3 : EnvHas env 3 mask.toNat
  e4 : env[4]? = some (mkPtr n 0, .pub)
  pad : ∃ Pd, s.mem[n]? = some ⟨Pd, 0⟩ ∧ Pd.size = 64 ∧ BytesV Pd 0 kb
  obj : ∃ X', s.mem[bs]? = some ⟨X', baseS⟩ ∧ X'.size = Xsz
  oth : ∀ j, j ≠ bs → j ≠ n → ORel BlockLe s.mem[j]? st0.mem[j]?
  msz : s.mem.size = n + 1
  ent : s.ent = st0.ent

/-- the branch of `tinyjambu_hmac_set_key` on the key length -/
theorem sk_branchK (st0 : St) (bs bk : Nat) (X XK : Array LByte) (baseS basek koff : Nat) (h : HState) (key : Bytes) (mask : UInt8) (lm : Lab)
    (hS : st0.mem[bs]? = some ⟨X, baseS⟩) (hK : st0.mem[bk]? = some ⟨XK, basek⟩) (hne : bk ≠ bs) (hXs : 52 ≤ X.size) (halS : baseS % 4 = 0)
    (hltS : baseS + X.size < ptrBase) (hltK : basek + XK.size < ptrBase) (hkd : BytesV XK koff key) (hle : key.length ≤ 64) (hsz : st0.mem.size + 3 < 2 ^ 30)
    (env : Env) (hes : env.size = 9) (h0 : env[0]? = some (mkPtr bs baseS, .pub)) (h1 : env[1]? = some (mkPtr bk (basek + koff), .pub))
    (h2 : env[2]? = some (key.length, .pub)) (h3 : env[3]? = some (mask.toNat, lm)) (hlm : lm ≠ Lab.undef) (h4 : env[4]? = some (mkPtr st0.mem.size 0, .pub))
    (st : St) (hmem : st.mem = st0.mem.push ⟨Array.replicate 64 (0, .undef), 0⟩) (hent : st.ent = st0.ent) :
    RunsTo prog skBranch env st (fun sig e' s' => sig = .normal ∧
      SK1K bs baseS st0.mem.size X.size st0 key mask e' s') := by
  have hbsN := mem_lt hS; have hbkN := mem_lt hK
  have hm1lt : ∀ j, j < st0.mem.size → st.mem[j]? = st0.mem[j]? := by
    intro j hj; rw [hmem, Array.getElem?_push]; simp only [show ¬ j = st0.mem.size from by omega, if_false]
  have hm1n : st.mem[st0.mem.size]? = some ⟨Array.replicate 64 (0, .undef), 0⟩ := by rw [hmem, Array.getElem?_push]; simp
  have hm1sz : st.mem.size = st0.mem.size + 1 := by rw [hmem, Array.size_push]
  have hklen : key.length < 18446744073709551616 := by have := hkd.1; simp only [ptrBase] at hltK; omega
  unfold skBranch
  · refine runs_ite_true 1 ?_ (by decide) ?_
    · simp only [evalE, h2, reduceCtorEq, if_false, castVal_u64_i32_lit 64 (by decide), BinOp.needsPub2, BinOp.needsPub1, Bool.false_and, Bool.or_self,
        Bool.false_eq_true, binVal, Ty.signed, hle, decide_true, b2n, if_true, Lab.join_pub_pub]
    simp only [seqs]
    refine runs_seq (Q := fun e s => e = env ∧ s.ent = st0.ent ∧ s.mem.size = st0.mem.size + 1 ∧ (∀ j, j < st0.mem.size → s.mem[j]? = st0.mem[j]?) ∧
        ∃ Pd, s.mem[st0.mem.size]? = some ⟨Pd, 0⟩ ∧ Pd.size = 64 ∧ BytesV Pd 0 key) ?_ ?_
    · by_cases hk0 : key.length = 0
      · refine runs_memcpy_zero (mkPtr st0.mem.size 0) (mkPtr bk (basek + koff)) (by simp only [evalE, h4, reduceCtorEq, if_false]) (by simp only [evalE, h1, reduceCtorEq, if_false])
          (by simp only [evalE, h2, hk0, reduceCtorEq, if_false]) ?_
        have hnil : key = [] := List.length_eq_zero_iff.mp hk0
        exact ⟨rfl, rfl, hent, hm1sz, hm1lt, _, hm1n, by simp, ⟨by rw [hnil]; simp, fun k b hk => by rw [hnil] at hk; simp at hk⟩⟩
      · have hKs : st.mem[bk]? = some ⟨XK, basek⟩ := by rw [hm1lt bk hbkN]; exact hK
        refine runs_memcpy (mkPtr st0.mem.size 0) (mkPtr bk (basek + koff)) key.length bk koff st0.mem.size 0 (by simp only [evalE, h4, reduceCtorEq, if_false])
          (by simp only [evalE, h1, reduceCtorEq, if_false]) (by simp only [evalE, h2, reduceCtorEq, if_false]) hk0
          (resolve_byte hKs koff (by have := hkd.1; omega) (by have := hkd.1; omega)) (by rw [blockBytes_of hKs]; exact hkd.1)
          (by have := resolve_byte hm1n 0 (by simp) (by simp [ptrBase]); simpa using this) (by rw [blockBytes_of hm1n]; simp; omega) ?_
        rw [blockBytes_of hm1n, blockBytes_of hKs]
        obtain ⟨gl, ge⟩ := sliceBytes_getV XK key koff hkd.2
        refine ⟨rfl, rfl, hent, by show (setBlock st.mem _ _).size = _; rw [size_setBlock']; exact hm1sz,
          fun j hj => by show (setBlock st.mem _ _)[j]? = _; rw [getElem?_setBlock', if_neg (by omega)]; exact hm1lt j hj,
          _, by show (setBlock st.mem _ _)[st0.mem.size]? = _; rw [getElem?_setBlock', if_pos rfl, hm1n]; rfl, by rw [size_writeBytes]; simp,
          bytesV_writeBytes _ 0 _ key gl (by simp; omega) ge⟩
    · intro e s ⟨he, hent', hsz', hlt', hpad⟩
      rw [he]
      refine runs_assign (mkPtr st0.mem.size 0, Lab.pub) (by simp only [evalE, h4, reduceCtorEq, if_false]) ?_
      have fr : ∀ y, y ≠ 5 → (setVar env 5 (mkPtr st0.mem.size 0, Lab.pub))[y]? = env[y]? := fun y hy => get_set_ne _ _ _ _ (fun e => hy e.symm)
      exact ⟨rfl, by rw [size_setVar]; exact hes, by rw [fr 0 (by decide)]; exact h0, by rw [fr 2 (by decide)]; exact h2, ⟨lm, by rw [fr 3 (by decide)]; exact h3, hlm⟩,
        by rw [fr 4 (by decide)]; exact h4, hpad, ⟨X, by rw [hlt' bs hbsN]; exact hS, rfl⟩,
        fun j _ hjn => by
          by_cases hj : j < st0.mem.size
          · rw [hlt' j hj]; exact ole_refl _
          · rw [Array.getElem?_eq_none (by omega), Array.getElem?_eq_none (by omega)]; trivial,
        hsz', hent'⟩

/-- the rest of `tinyjambu_hmac_set_key`: fill, xor, absorb the block, wipe the pad -/
theorem sk_restK (st0 : St) (bs : Nat) (baseS Xsz : Nat) (h : HState) (kb : Bytes) (hkb : kb.length ≤ 64) (mask : UInt8)
    (hbs : bs < st0.mem.size) (hXs : 52 ≤ Xsz) (halS : baseS % 4 = 0) (hltS : baseS + Xsz < ptrBase) (hsz : st0.mem.size + 3 < 2 ^ 30)
    (env : Env) (st : St) (sk : SK1K bs baseS st0.mem.size Xsz st0 kb mask env st) :
    RunsTo prog skRest env st (fun sig e' s' => sig = .normal ∧ s'.ent = st0.ent ∧ s'.mem.size = st0.mem.size + 1 ∧
      (∃ X', s'.mem[bs]? = some ⟨X', baseS⟩ ∧ X'.size = Xsz ∧ HObjV X' ((HState.init h).update (hmacBlock kb mask))) ∧
      (∀ j, j ≠ bs → j ≠ st0.mem.size → ORel BlockLe s'.mem[j]? st0.mem[j]?)) := by
  obtain ⟨Pd, hP, hPs, hPd⟩ := sk.pad
  obtain ⟨lm, h3, hlm⟩ := sk.e3
  obtain ⟨X1, hX1, hX1s⟩ := sk.obj
  have hes := sk.esz
  have hptr : (mkPtr st0.mem.size 0 + kb.length) % 18446744073709551616 = mkPtr st0.mem.size (0 + kb.length) := ptr_off _ 0 kb.length (by omega) (by simp [ptrBase]; omega)
  have hdst : evalE env (.bin .add .u64 (.var 4) (.var 2)) = .ok (mkPtr st0.mem.size (0 + kb.length), .pub) := by
    simp only [evalE, sk.e4, sk.e2, reduceCtorEq, if_false, BinOp.needsPub2, BinOp.needsPub1, Bool.false_and, Bool.or_self, Bool.false_eq_true, binVal, Ty.modulus, Lab.join_pub_pub, hptr]
  have hval : evalE env (.cast .i32 .u8 (.var 3)) = .ok (mask.toNat, lm) := by
    simp only [evalE, h3, hlm, if_false, TJ.MiniC.CheckTagC.castVal_i32_u8]
  have hcnt : evalE env (.bin .sub .u64 (.cast .u64 .i32 (.lit 64)) (.var 2)) = .ok (64 - kb.length, .pub) := by
    simp only [evalE, sk.e2, reduceCtorEq, if_false, castVal_u64_i32_lit 64 (by decide), BinOp.needsPub2, BinOp.needsPub1, Bool.false_and, Bool.or_self, Bool.false_eq_true, binVal,
      Ty.modulus, Lab.join_pub_pub, sub64 64 kb.length hkb (by decide) (by omega)]
  unfold skRest
  simp only [seqs]
  -- memset(pad + len, mask, 64 - len)
  refine runs_seq (Q := fun e s => e = setVar env 6 (mkPtr st0.mem.size (0 + kb.length), .pub) ∧ s.ent = st0.ent ∧ s.mem.size = st0.mem.size + 1 ∧
      (∀ j, j ≠ st0.mem.size → s.mem[j]? = st.mem[j]?) ∧
      ∃ Pm, s.mem[st0.mem.size]? = some ⟨Pm, 0⟩ ∧ Pm.size = 64 ∧ ∀ k, k < 64 → BV Pm k (padByte kb mask kb.length k)) ?_ ?_
  · refine runs_seq (Q := fun e s => e = env ∧ s.ent = st0.ent ∧ s.mem.size = st0.mem.size + 1 ∧ (∀ j, j ≠ st0.mem.size → s.mem[j]? = st.mem[j]?) ∧
        ∃ Pm, s.mem[st0.mem.size]? = some ⟨Pm, 0⟩ ∧ Pm.size = 64 ∧ ∀ k, k < 64 → BV Pm k (padByte kb mask kb.length k)) ?_ ?_
    · by_cases h64 : 64 - kb.length = 0
      · refine runs_memset_zero _ mask.toNat lm hdst hval (by rw [hcnt, h64]) ?_
        refine ⟨rfl, rfl, sk.ent, sk.msz, fun _ _ => rfl, Pd, hP, hPs, fun k hk => ?_⟩
        have := hPd.2 k (kb[k]'(by omega)) (List.getElem?_eq_getElem (by omega))
        simp only [padByte, show k < kb.length from by omega, if_true, Nat.zero_add] at this ⊢
        rw [List.getD_eq_getElem?_getD, List.getElem?_eq_getElem (by omega)]; exact this
      · refine runs_memset _ mask.toNat (64 - kb.length) st0.mem.size kb.length lm hdst hval hcnt h64
          (by have := resolve_byte hP kb.length (by omega) (by simp [ptrBase]; omega); exact this) (by rw [blockBytes_of hP, hPs]; omega) ?_
        rw [blockBytes_of hP]
        refine ⟨rfl, rfl, sk.ent, by show (setBlock st.mem _ _).size = _; rw [size_setBlock']; exact sk.msz,
          fun j hj => by show (setBlock st.mem _ _)[j]? = _; rw [getElem?_setBlock', if_neg hj],
          _, by show (setBlock st.mem _ _)[st0.mem.size]? = _; rw [getElem?_setBlock', if_pos rfl, hP]; rfl, by rw [size_writeBytes]; exact hPs, fun k hk => ?_⟩
        rw [show (mask.toNat % 256).toUInt8 = mask from by
          apply UInt8.toNat_inj.mp; simp [Nat.toUInt8, Nat.mod_eq_of_lt (UInt8.toNat_lt mask)]]
        simp only [padByte, Nat.lt_irrefl, if_false]
        by_cases hk1 : k < kb.length
        · have := hPd.2 k (kb[k]'hk1) (List.getElem?_eq_getElem hk1)
          obtain ⟨l, hx, hl⟩ := this
          simp only [hk1, if_true]
          refine ⟨l, ?_, hl⟩
          rw [getElem?_writeBytes, if_neg (by omega), List.getD_eq_getElem?_getD, List.getElem?_eq_getElem hk1]
          simpa using hx
        · simp only [hk1, if_false]
          refine ⟨lm, ?_, hlm⟩
          rw [getElem?_writeBytes, if_pos ⟨by omega, by simp; omega, by omega⟩, List.getElem?_replicate]
          simp; omega
    · intro e s ⟨he, g⟩
      rw [he]
      exact runs_assign _ hdst ⟨rfl, rfl, g⟩
  intro e1 s1 ⟨he1, hent1, hsz1, hoth1, Pm, hPm, hPms, hPmd⟩
  rw [he1]
  have fr1 : ∀ y, y ≠ 6 → (setVar env 6 (mkPtr st0.mem.size (0 + kb.length), Lab.pub))[y]? = env[y]? := fun y hy => get_set_ne _ _ _ _ (fun e => hy e.symm)
  -- the xor loop
  have xi0 : XI st0.mem.size kb mask lm s1.mem st0.ent kb.length (setVar env 6 (mkPtr st0.mem.size (0 + kb.length), Lab.pub)) s1 :=
    ⟨by rw [size_setVar]; exact hes, by rw [fr1 2 (by decide)]; exact sk.e2, by rw [fr1 3 (by decide)]; exact h3, by rw [fr1 4 (by decide)]; exact sk.e4, Or.inr trivial,
     ⟨Pm, hPm, hPms, hPmd⟩, fun _ _ => rfl, rfl, hent1⟩
  refine runs_seq (Q := fun e s => XI st0.mem.size kb mask lm s1.mem st0.ent 0 e s ∧ ∀ y, y ≠ 2 → y ≠ 7 → y ≠ 8 → e[y]? = (setVar env 6 (mkPtr st0.mem.size (0 + kb.length), Lab.pub))[y]?)
    (xor_loop st0.mem.size (by omega) kb hkb mask lm hlm s1.mem st0.ent _ kb.length (Nat.le_refl _) _ s1 xi0 (fun _ _ _ _ => rfl)) ?_
  intro e2 s2 ⟨xi, hfr2⟩
  obtain ⟨Px, hPx, hPxs, hPxd⟩ := xi.pad
  have e2_0 : e2[0]? = some (mkPtr bs baseS, .pub) := by rw [hfr2 0 (by decide) (by decide) (by decide), fr1 0 (by decide)]; exact sk.e0
  have hX2 : s2.mem[bs]? = some ⟨X1, baseS⟩ := by rw [xi.oth bs (by omega), hoth1 bs (by omega)]; exact hX1
  -- init; update with the block
  refine runs_seq (Q := fun e s => e = e2 ∧ s.ent = st0.ent ∧ s.mem.size = st0.mem.size + 1 ∧ (∀ j, j ≠ bs → s.mem[j]? = s2.mem[j]?) ∧
      ∃ X', s.mem[bs]? = some ⟨X', baseS⟩ ∧ X'.size = Xsz ∧ HObjV X' (HState.init h)) ?_ ?_
  · refine (init_call prog idx_tinyjambu_hash_init prog_init e2 s2 (.var 0) bs baseS X1 (by simp only [evalE, e2_0, reduceCtorEq, if_false]) hX2 (by rw [hX1s]; exact hXs) halS
      (by rw [hX1s]; exact hltS) (by omega) h).weaken ?_
    intro sig e s ⟨g1, g2, g3, g4, g5, X', g6, g7, g8⟩
    exact ⟨g1, g2, by rw [g3]; exact xi.ent, by rw [g4, xi.msz]; exact hsz1, g5, X', g6, by rw [g7]; exact hX1s, g8⟩
  intro e3 s3 ⟨he3, hent3, hsz3, hoth3, X3, hX3, hX3s, ho3⟩
  rw [he3]
  have hP3 : s3.mem[st0.mem.size]? = some ⟨Px, 0⟩ := by rw [hoth3 _ (by omega)]; exact hPx
  refine runs_seq (Q := fun e s => EnvLe e e2 ∧ s.ent = st0.ent ∧ s.mem.size = st0.mem.size + 1 ∧ OthV bs s.mem s3.mem ∧
      (∃ X', s.mem[bs]? = some ⟨X', baseS⟩ ∧ X'.size = Xsz ∧ HObjV X' ((HState.init h).update (hmacBlock kb mask))) ∧
      (∀ j, j ≠ bs → ORel (KeepB (fun q => j = st0.mem.size ∧ 0 ≤ q ∧ q < 0 + (hmacBlock kb mask).length)) s.mem[j]? s3.mem[j]?)) ?_ ?_
  · have hdat : ∀ k b, (hmacBlock kb mask)[k]? = some b → ∃ l, Px[0 + k]? = some (b, l) ∧ l ≠ Lab.undef := by
      intro k b hk
      have hk64 : k < 64 := by
        by_cases hh : k < 64
        · exact hh
        · rw [List.getElem?_eq_none (by rw [hmacBlock_length kb mask hkb]; omega)] at hk; cases hk
      rw [hmacBlock_get kb mask hkb k hk64] at hk
      obtain ⟨l, hx, hl⟩ := hPxd k hk64
      exact ⟨l, by rw [Nat.zero_add, ← Option.some.inj hk]; exact hx, hl⟩
    refine ((update_callV prog idx_tinyjambu_hash_update prog_update prog_compress prog_p256 e2 s3 (.var 0) (.var 4) (.lit 64) bs st0.mem.size X3 Px baseS 0 0 (HState.init h) (hmacBlock kb mask)
      (by simp only [evalE, e2_0, reduceCtorEq, if_false]) (by simp only [evalE, xi.e4, reduceCtorEq, if_false, Nat.add_zero]) (by simp only [evalE, hmacBlock_length kb mask hkb])
      hX3 hP3 (by omega) ho3 halS (by rw [hX3s]; exact hltS) (by rw [hPxs]; simp [ptrBase]) (by omega) (by omega) (by omega) hdat (by rw [hmacBlock_length kb mask hkb, hPxs]; decide)).and
      (update_keep prog idx_tinyjambu_hash_update prog_update prog_compress prog_p256 e2 s3 (.var 0) (.var 4) (.lit 64) bs st0.mem.size X3 Px baseS 0 0 (HState.init h) (hmacBlock kb mask)
      (by simp only [evalE, e2_0, reduceCtorEq, if_false]) (by simp only [evalE, xi.e4, reduceCtorEq, if_false, Nat.add_zero]) (by simp only [evalE, hmacBlock_length kb mask hkb])
      hX3 hP3 (by omega) ho3 halS (by rw [hX3s]; exact hltS) (by rw [hPxs]; simp [ptrBase]) (by omega) (by omega) (by omega) hdat (by rw [hmacBlock_length kb mask hkb, hPxs]; decide))).weaken ?_
    intro sig e s ⟨⟨g1, g2, g3, g4, g5, blk', g6, g7, g8, g9⟩, gk⟩
    exact ⟨g1, g2, by rw [g3]; exact hent3, by rw [g4]; exact hsz3, g5, ⟨blk'.bytes, by rw [g6, ← g7], by rw [g8]; exact hX3s, g9⟩, gk⟩
  intro e4 s4 ⟨hle4, hent4, hsz4, hoth4, ⟨X4, hX4, hX4s, ho4⟩, hkeep4⟩
  -- wipe the pad
  have e4_4 := envLe_pub hle4 4 _ xi.e4
  obtain ⟨P4, hP4, hP4s, _⟩ := eqv_block (by have := hoth4 st0.mem.size (by omega); rw [hP3] at this; exact this)
  have hc := exec_call_clean 0 e4 s4 (.var 4) (.lit 64) (mkPtr st0.mem.size 0) 64 st0.mem.size 0 (by simp only [evalE, e4_4, reduceCtorEq, if_false]) (by simp only [evalE])
    (by decide) (by decide) (by have := resolve_byte hP4 0 (by omega) (by simp [ptrBase]); simpa using this) (by rw [blockBytes_of hP4, hP4s, hPxs]; decide)
  refine ⟨0 + 2, _, _, _, hc, rfl, hent4, by show (setBlock s4.mem _ _).size = _; rw [size_setBlock']; exact hsz4,
    ⟨X4, by show (setBlock s4.mem _ _)[bs]? = _; rw [getElem?_setBlock', if_neg (by omega)]; exact hX4, hX4s, ho4⟩, fun j hjs hjn => ?_⟩
  show ORel BlockLe (setBlock s4.mem _ _)[j]? st0.mem[j]?
  rw [getElem?_setBlock', if_neg hjn]
  have a : ORel BlockLe s4.mem[j]? s3.mem[j]? := orel_map (R := KeepB _) (S := BlockLe) (fun _ _ k => keepB_le k (fun q hq => hjn hq.1)) (hkeep4 j hjs)
  rw [hoth3 j hjs, xi.oth j hjn, hoth1 j hjn] at a
  exact orel_trans (R := BlockLe) (fun _ _ _ p q => blockLe_trans p q) a (sk.oth j hjs hjn)

/-- **`tinyjambu_hmac_set_key(state, key, keylen, mask)` as a call**: the state object (any content, undefined included) afterwards represents
    `hmacSetKey h key mask`; every other block keeps its values; the local pad is wiped and released. -/
theorem set_key_callK (env : Env) (st : St) (es ek el em : Expr) (bs bk : Nat) (X XK : Array LByte) (baseS basek koff : Nat) (h : HState) (key : Bytes) (mask : UInt8) (lm : Lab)
    (hlm : lm ≠ Lab.undef) (hes : evalE env es = .ok (mkPtr bs baseS, .pub)) (hek : evalE env ek = .ok (mkPtr bk (basek + koff), .pub))
    (hel : evalE env el = .ok (key.length, .pub)) (hem : evalE env em = .ok (mask.toNat, lm))
    (hS : st.mem[bs]? = some ⟨X, baseS⟩) (hK : st.mem[bk]? = some ⟨XK, basek⟩) (hne : bk ≠ bs) (hXs : 52 ≤ X.size) (halS : baseS % 4 = 0)
    (hltS : baseS + X.size < ptrBase) (hltK : basek + XK.size < ptrBase) (hkd : BytesV XK koff key) (hle : key.length ≤ 64) (hsz : st.mem.size + 3 < 2 ^ 30) :
    RunsTo prog (.call none idx_tinyjambu_hmac_set_key [es, ek, el, em]) env st (fun sig e s => sig = .normal ∧ e = env ∧ s.ent = st.ent ∧ s.mem.size = st.mem.size ∧
      (∃ X', s.mem[bs]? = some ⟨X', baseS⟩ ∧ X'.size = X.size ∧ HObjV X' (hmacSetKey h key mask)) ∧ OthLe bs s.mem st.mem) := by
  have hbsN := mem_lt hS
  let vs : List LVal := [(mkPtr bs baseS, .pub), (mkPtr bk (basek + koff), .pub), (key.length, .pub), (mask.toNat, lm)]
  refine runs_call_none f_tinyjambu_hmac_set_key vs prog_setkey (by simp only [evalArgs, hes, hek, hel, hem]; rfl) rfl ?_
  have hent : enterFun f_tinyjambu_hmac_set_key vs st.mem = (#[(mkPtr bs baseS, .pub), (mkPtr bk (basek + koff), .pub), (key.length, .pub), (mask.toNat, lm),
      (mkPtr st.mem.size 0, .pub), (0, .undef), (0, .undef), (0, .undef), (0, .undef)], st.mem.push ⟨Array.replicate 64 (0, .undef), 0⟩) := rfl
  rw [hent, setKey_body_eq]
  show RunsTo prog (.seq skBranch skRest) _ _ _
  refine runs_seq (sk_branchK st bs bk X XK baseS basek koff h key mask lm hS hK hne hXs halS hltS hltK hkd hle hsz _ rfl rfl rfl rfl rfl hlm rfl
    { st with mem := st.mem.push ⟨Array.replicate 64 (0, .undef), 0⟩ } rfl rfl) ?_
  intro e1 s1 sk
  refine (sk_restK st bs baseS X.size h _ hle mask hbsN hXs halS hltS hsz e1 s1 sk).weaken ?_
  intro sig e2 s2 ⟨_, hent2, hsz2, ⟨X', hX', hX's, ho⟩, hoth⟩
  have hlk : ∀ j, j < st.mem.size → (s2.mem.extract 0 st.mem.size)[j]? = s2.mem[j]? := by
    intro j hj
    rw [Array.getElem?_extract, hsz2]
    have : j < min st.mem.size (st.mem.size + 1) - 0 := by omega
    simp only [this, if_true, Nat.zero_add]
  have hexs : (s2.mem.extract 0 st.mem.size).size = st.mem.size := by rw [Array.size_extract, hsz2]; omega
  refine ⟨rfl, rfl, hent2, hexs, ⟨X', by show (s2.mem.extract 0 st.mem.size)[bs]? = _; rw [hlk bs hbsN]; exact hX', hX's, by rw [hmacSetKey_eq, if_pos hle]; exact ho⟩, fun j hj => ?_⟩
  show ORel BlockLe (s2.mem.extract 0 st.mem.size)[j]? st.mem[j]?
  by_cases hjn : j < st.mem.size
  · rw [hlk j hjn]; exact hoth j hj (by omega)
  · rw [Array.getElem?_eq_none (by rw [hexs]; omega), Array.getElem?_eq_none (by omega)]; trivial



/-- **`tinyjambu_hmac_finalize(state, key, keylen, out)` as a call** -/
theorem hmac_finalize_callK (env : Env) (st : St) (es ek el eo : Expr) (bs bk bo : Nat) (X XK XO : Array LByte) (baseS basek koff baseo oo : Nat) (h : HState) (key : Bytes)
    (hes : evalE env es = .ok (mkPtr bs baseS, .pub)) (hek : evalE env ek = .ok (mkPtr bk (basek + koff), .pub))
    (hel : evalE env el = .ok (key.length, .pub)) (heo : evalE env eo = .ok (mkPtr bo (baseo + oo), .pub))
    (hS : st.mem[bs]? = some ⟨X, baseS⟩) (hK : st.mem[bk]? = some ⟨XK, basek⟩) (hO : st.mem[bo]? = some ⟨XO, baseo⟩) (hnk : bk ≠ bs) (hno : bo ≠ bs)
    (hrep : HObjV X h) (halS : baseS % 4 = 0) (hltS : baseS + X.size < ptrBase) (hltK : basek + XK.size < ptrBase) (hltO : baseo + XO.size < ptrBase)
    (hkd : BytesV XK koff key) (hle : key.length ≤ 64) (hin : oo + 32 ≤ XO.size) (hsz : st.mem.size + 5 < 2 ^ 30) :
    RunsTo prog (.call none idx_tinyjambu_hmac_finalize [es, ek, el, eo]) env st (fun sig e s => sig = .normal ∧ e = env ∧ s.ent = st.ent ∧ s.mem.size = st.mem.size ∧
      (∃ X', s.mem[bs]? = some ⟨X', baseS⟩ ∧ X'.size = X.size ∧ HObjV X' (hmacFinalize h key).2) ∧
      (∃ XO', s.mem[bo]? = some ⟨XO', baseo⟩ ∧ XO'.size = XO.size ∧ BytesV XO' oo (hmacFinalize h key).1 ∧
        (∀ q, (q < oo ∨ oo + 32 ≤ q) → ORel VLe XO'[q]? XO[q]?)) ∧
      (∀ j, j ≠ bs → j ≠ bo → ORel BlockLe s.mem[j]? st.mem[j]?)) := by
  have hbsN := mem_lt hS; have hbkN := mem_lt hK; have hboN := mem_lt hO
  have hXs : 52 ≤ X.size := hrep.sz
  let vs : List LVal := [(mkPtr bs baseS, .pub), (mkPtr bk (basek + koff), .pub), (key.length, .pub), (mkPtr bo (baseo + oo), .pub)]
  refine runs_call_none f_tinyjambu_hmac_finalize vs prog_hmac_finalize (by simp only [evalArgs, hes, hek, hel, heo]; rfl) rfl ?_
  have hent : enterFun f_tinyjambu_hmac_finalize vs st.mem = (#[(mkPtr bs baseS, .pub), (mkPtr bk (basek + koff), .pub), (key.length, .pub), (mkPtr bo (baseo + oo), .pub),
      (mkPtr st.mem.size 0, .pub)], st.mem.push ⟨Array.replicate 32 (0, .undef), 0⟩) := rfl
  rw [hent]
  generalize hE : (#[(mkPtr bs baseS, Lab.pub), (mkPtr bk (basek + koff), Lab.pub), (key.length, Lab.pub), (mkPtr bo (baseo + oo), Lab.pub), (mkPtr st.mem.size 0, Lab.pub)] : Env) = E
  have e_0 : E[0]? = some (mkPtr bs baseS, .pub) := by rw [← hE]; rfl
  have e_1 : E[1]? = some (mkPtr bk (basek + koff), .pub) := by rw [← hE]; rfl
  have e_2 : E[2]? = some (key.length, .pub) := by rw [← hE]; rfl
  have e_3 : E[3]? = some (mkPtr bo (baseo + oo), .pub) := by rw [← hE]; rfl
  have e_4 : E[4]? = some (mkPtr st.mem.size 0, .pub) := by rw [← hE]; rfl
  generalize hm1 : st.mem.push ⟨Array.replicate 32 (0, .undef), 0⟩ = mem1
  have hm1lt : ∀ j, j < st.mem.size → mem1[j]? = st.mem[j]? := by
    intro j hj; rw [← hm1, Array.getElem?_push]; simp only [show ¬ j = st.mem.size from by omega, if_false]
  have hm1n : mem1[st.mem.size]? = some ⟨Array.replicate 32 (0, .undef), 0⟩ := by rw [← hm1, Array.getElem?_push]; simp
  have hm1sz : mem1.size = st.mem.size + 1 := by rw [← hm1, Array.size_push]
  have hbody : f_tinyjambu_hmac_finalize.body = seqs [.call none idx_tinyjambu_hash_finalize [.var 0, .var 4],
      .call none idx_tinyjambu_hmac_set_key [.var 0, .var 1, .var 2, .cast .u8 .i32 (.lit 92)],
      .call none idx_tinyjambu_hash_update [.var 0, .var 4, .lit 32], .call none idx_tinyjambu_hash_finalize [.var 0, .var 3],
      .call none idx_tinyjambu_clean [.var 4, .lit 32]] := rfl
  rw [hbody]
  simp only [seqs]
  -- inner digest into the temporary
  refine runs_seq (Q := fun e s => e = E ∧ s.ent = st.ent ∧ s.mem.size = st.mem.size + 1 ∧
      (∃ X1, s.mem[bs]? = some ⟨X1, baseS⟩ ∧ X1.size = X.size ∧ HObjV X1 h.finalize.2) ∧
      (∃ T1, s.mem[st.mem.size]? = some ⟨T1, 0⟩ ∧ T1.size = 32 ∧ BytesV T1 0 h.finalize.1) ∧
      (∀ j, j ≠ bs → j ≠ st.mem.size → ORel BlockLe s.mem[j]? mem1[j]?)) ?_ ?_
  · refine (finalize_call prog idx_tinyjambu_hash_finalize prog_finalize prog_compress prog_p256 E { st with mem := mem1 } (.var 0) (.var 4) bs st.mem.size X
      (Array.replicate 32 (0, .undef)) baseS 0 0 h (by simp only [evalE, e_0, reduceCtorEq, if_false]) (by simp only [evalE, e_4, reduceCtorEq, if_false, Nat.add_zero])
      (by show mem1[bs]? = _; rw [hm1lt bs hbsN]; exact hS) hm1n (by omega) hrep halS hltS (by simp [ptrBase]) (by simp) (by omega) (by omega)
      (by show mem1.size + 2 < _; omega)).weaken ?_
    intro sig e s ⟨g1, g2, g3, g4, ⟨blkS, g5, g6, g7, g8⟩, ⟨blkO, g9, g10, g11, g12, _⟩, g14⟩
    refine ⟨g1, g2, g3, by rw [g4]; exact hm1sz, ⟨blkS.bytes, by rw [g5, ← g6], g7, g8⟩,
      ⟨blkO.bytes, by rw [g9, ← g10], by rw [g11]; simp, ⟨by rw [g11, finalize_length]; simp, fun k b hk => ?_⟩⟩, g14⟩
    obtain ⟨l, hx, hl⟩ := g12 k b hk
    exact ⟨l, hx, hl⟩
  intro e1 s1 ⟨he1, hent1, hsz1, ⟨X1, hX1, hX1s, ho1⟩, ⟨T1, hT1, hT1s, hT1d⟩, hoth1⟩
  rw [he1]
  have hle1 : ∀ j, j ≠ bs → j < st.mem.size → ORel BlockLe s1.mem[j]? st.mem[j]? := fun j hj hjn => by
    have := hoth1 j hj (by omega); rw [hm1lt j hjn] at this; exact this
  obtain ⟨XK1, hK1, hK1s, hK1d⟩ := le_block_data (by have := hle1 bk hnk hbkN; rw [hK] at this; exact this) hkd
  -- outer key block
  refine runs_seq (Q := fun e s => e = E ∧ s.ent = st.ent ∧ s.mem.size = st.mem.size + 1 ∧
      (∃ X2, s.mem[bs]? = some ⟨X2, baseS⟩ ∧ X2.size = X.size ∧ HObjV X2 (hmacSetKey h.finalize.2 key 0x5C)) ∧ OthLe bs s.mem s1.mem) ?_ ?_
  · refine (set_key_callK E s1 (.var 0) (.var 1) (.var 2) (.cast .u8 .i32 (.lit 92)) bs bk X1 XK1 baseS basek koff h.finalize.2 key 0x5C .pub (by decide)
      (by simp only [evalE, e_0, reduceCtorEq, if_false]) (by simp only [evalE, e_1, reduceCtorEq, if_false]) (by simp only [evalE, e_2, reduceCtorEq, if_false])
      (by simp only [evalE, castVal_u8_i32_small 92 (by decide)]; rfl) hX1 hK1 hnk (by rw [hX1s]; exact hXs) halS (by rw [hX1s]; exact hltS) (by rw [hK1s]; exact hltK) hK1d hle
      (by omega)).weaken ?_
    intro sig e s ⟨g1, g2, g3, g4, ⟨X2, g5, g6, g7⟩, g8⟩
    exact ⟨g1, g2, by rw [g3]; exact hent1, by rw [g4]; exact hsz1, ⟨X2, g5, by rw [g6]; exact hX1s, g7⟩, g8⟩
  intro e2 s2 ⟨he2, hent2, hsz2, ⟨X2, hX2, hX2s, ho2⟩, hoth2⟩
  rw [he2]
  obtain ⟨T2, hT2, hT2s, hT2d⟩ := le_block_data (by have := hoth2 st.mem.size (by omega); rw [hT1] at this; exact this) hT1d
  -- absorb the inner digest
  refine runs_seq (Q := fun e s => EnvLe e E ∧ s.ent = st.ent ∧ s.mem.size = st.mem.size + 1 ∧ OthV bs s.mem s2.mem ∧
      (∃ X3, s.mem[bs]? = some ⟨X3, baseS⟩ ∧ X3.size = X.size ∧ HObjV X3 ((hmacSetKey h.finalize.2 key 0x5C).update h.finalize.1)) ∧
      (∀ j, j ≠ bs → ORel (KeepB (fun q => j = st.mem.size ∧ 0 ≤ q ∧ q < 0 + h.finalize.1.length)) s.mem[j]? s2.mem[j]?)) ?_ ?_
  · refine ((update_callV prog idx_tinyjambu_hash_update prog_update prog_compress prog_p256 E s2 (.var 0) (.var 4) (.lit 32) bs st.mem.size X2 T2 baseS 0 0
      (hmacSetKey h.finalize.2 key 0x5C) h.finalize.1 (by simp only [evalE, e_0, reduceCtorEq, if_false]) (by simp only [evalE, e_4, reduceCtorEq, if_false, Nat.add_zero])
      (by simp only [evalE, finalize_length]) hX2 hT2 (by omega) ho2 halS (by rw [hX2s]; exact hltS) (by rw [hT2s, hT1s]; simp [ptrBase]) (by omega) (by omega) (by omega)
      (fun k b hk => by obtain ⟨l, hx, hl⟩ := hT2d.2 k b hk; exact ⟨l, hx, hl⟩) hT2d.1).and
      (update_keep prog idx_tinyjambu_hash_update prog_update prog_compress prog_p256 E s2 (.var 0) (.var 4) (.lit 32) bs st.mem.size X2 T2 baseS 0 0
      (hmacSetKey h.finalize.2 key 0x5C) h.finalize.1 (by simp only [evalE, e_0, reduceCtorEq, if_false]) (by simp only [evalE, e_4, reduceCtorEq, if_false, Nat.add_zero])
      (by simp only [evalE, finalize_length]) hX2 hT2 (by omega) ho2 halS (by rw [hX2s]; exact hltS) (by rw [hT2s, hT1s]; simp [ptrBase]) (by omega) (by omega) (by omega)
      (fun k b hk => by obtain ⟨l, hx, hl⟩ := hT2d.2 k b hk; exact ⟨l, hx, hl⟩) hT2d.1)).weaken ?_
    intro sig e s ⟨⟨g1, g2, g3, g4, g5, blk', g6, g7, g8, g9⟩, gk⟩
    exact ⟨g1, g2, by rw [g3]; exact hent2, by rw [g4]; exact hsz2, g5, ⟨blk'.bytes, by rw [g6, ← g7], by rw [g8]; exact hX2s, g9⟩, gk⟩
  intro e3 s3 ⟨hle3, hent3, hsz3, hoth3, ⟨X3, hX3, hX3s, ho3⟩, hkeep3⟩
  have hle32 : ∀ j, j ≠ bs → j ≠ st.mem.size → ORel BlockLe s3.mem[j]? s2.mem[j]? := fun j hj hjn =>
    orel_map (R := KeepB _) (S := BlockLe) (fun _ _ k => keepB_le k (fun q hq => hjn hq.1)) (hkeep3 j hj)
  have e3_0 := envLe_pub hle3 0 _ e_0
  have e3_3 := envLe_pub hle3 3 _ e_3
  have e3_4 := envLe_pub hle3 4 _ e_4
  have hbo3 : ORel BlockLe s3.mem[bo]? (some ⟨XO, baseo⟩) := by
    have a := hle32 bo hno (by omega)
    have b := hoth2 bo hno
    have c : ORel BlockLe s1.mem[bo]? (some ⟨XO, baseo⟩) := by
      have := hle1 bo hno hboN; rw [hO] at this; exact this
    exact orel_trans (R := BlockLe) (fun _ _ _ p q => blockLe_trans p q) (orel_trans (R := BlockLe) (fun _ _ _ p q => blockLe_trans p q) a b) c
  obtain ⟨Z3, hZ3, hZ3s, hZ3v⟩ := le_block hbo3
  obtain ⟨T3, hT3, hT3s, _⟩ := eqv_block (by have := hoth3 st.mem.size (by omega); rw [hT2] at this; exact this)
  -- the MAC into `out`
  refine runs_seq (Q := fun e s => e = e3 ∧ s.ent = st.ent ∧ s.mem.size = st.mem.size + 1 ∧
      (∃ X4, s.mem[bs]? = some ⟨X4, baseS⟩ ∧ X4.size = X.size ∧ HObjV X4 (hmacFinalize h key).2) ∧
      (∃ O4, s.mem[bo]? = some ⟨O4, baseo⟩ ∧ O4.size = XO.size ∧ BytesV O4 oo (hmacFinalize h key).1 ∧ (∀ q, (q < oo ∨ oo + 32 ≤ q) → ORel VLe O4[q]? Z3[q]?)) ∧
      (∀ j, j ≠ bs → j ≠ bo → ORel BlockLe s.mem[j]? s3.mem[j]?)) ?_ ?_
  · refine (finalize_call prog idx_tinyjambu_hash_finalize prog_finalize prog_compress prog_p256 e3 s3 (.var 0) (.var 3) bs bo X3 Z3 baseS baseo oo
      ((hmacSetKey h.finalize.2 key 0x5C).update h.finalize.1) (by simp only [evalE, e3_0, reduceCtorEq, if_false]) (by simp only [evalE, e3_3, reduceCtorEq, if_false])
      hX3 hZ3 hno ho3 halS (by rw [hX3s]; exact hltS) (by rw [hZ3s]; exact hltO) (by rw [hZ3s]; exact hin) (by omega) (by omega) (by omega)).weaken ?_
    intro sig e s ⟨g1, g2, g3, g4, ⟨blkS, g5, g6, g7, g8⟩, ⟨blkO, g9, g10, g11, g12, g13⟩, g14⟩
    rw [hmacFinalize_eq]
    refine ⟨g1, g2, by rw [g3]; exact hent3, by rw [g4]; exact hsz3, ⟨blkS.bytes, by rw [g5, ← g6], by rw [g7]; exact hX3s, g8⟩,
      ⟨blkO.bytes, by rw [g9, ← g10], by rw [g11]; exact hZ3s, ⟨by rw [g11, hZ3s, finalize_length]; exact hin, fun k b hk => ?_⟩, g13⟩, g14⟩
    obtain ⟨l, hx, hl⟩ := g12 k b hk
    exact ⟨l, hx, hl⟩
  intro e4 s4 ⟨he4, hent4, hsz4, ⟨X4, hX4, hX4s, ho4⟩, ⟨O4, hO4, hO4s, hO4d, hO4o⟩, hoth4⟩
  rw [he4]
  -- wipe the temporary
  obtain ⟨T4, hT4, hT4s, _⟩ := le_block_data (off := 0) (data := []) (by have := hoth4 st.mem.size (by omega) (by omega); rw [hT3] at this; exact this) ⟨by simp, fun k b hk => by simp at hk⟩
  have hc := exec_call_clean 0 e3 s4 (.var 4) (.lit 32) (mkPtr st.mem.size 0) 32 st.mem.size 0 (by simp only [evalE, e3_4, reduceCtorEq, if_false]) (by simp only [evalE])
    (by decide) (by decide) (by have := resolve_byte hT4 0 (by omega) (by simp [ptrBase]); simpa using this) (by rw [blockBytes_of hT4, hT4s, hT3s, hT2s, hT1s]; decide)
  refine ⟨0 + 2, _, _, _, hc, ?_⟩
  have hlk : ∀ j, j < st.mem.size → ((setBlock s4.mem st.mem.size (writeBytes (blockBytes s4.mem st.mem.size) 0 (List.replicate 32 (0, Lab.pub)))).extract 0 st.mem.size)[j]? = s4.mem[j]? := by
    intro j hj
    rw [Array.getElem?_extract, size_setBlock', hsz4]
    have : j < min st.mem.size (st.mem.size + 1) - 0 := by omega
    simp only [this, if_true, Nat.zero_add]
    rw [getElem?_setBlock', if_neg (by omega)]
  have hexs : ((setBlock s4.mem st.mem.size (writeBytes (blockBytes s4.mem st.mem.size) 0 (List.replicate 32 (0, Lab.pub)))).extract 0 st.mem.size).size = st.mem.size := by
    rw [Array.size_extract, size_setBlock', hsz4]; omega
  refine ⟨trivial, trivial, hent4, hexs, ⟨X4, by rw [hlk bs hbsN]; exact hX4, hX4s, ho4⟩, ⟨O4, by rw [hlk bo hboN]; exact hO4, hO4s, hO4d, fun q hq => ?_⟩, fun j hjs hjo => ?_⟩
  · exact orel_trans (R := VLe) (fun _ _ _ p q => vle_trans p q) (hO4o q hq) (hZ3v q)
  · by_cases hjn : j < st.mem.size
    · rw [hlk j hjn]
      have a : ORel BlockLe s4.mem[j]? s3.mem[j]? := hoth4 j hjs hjo
      have b := hle32 j hjs (by omega)
      have c := hoth2 j hjs
      have d : ORel BlockLe s1.mem[j]? st.mem[j]? := hle1 j hjs hjn
      exact orel_trans (R := BlockLe) (fun _ _ _ p q => blockLe_trans p q) (orel_trans (R := BlockLe) (fun _ _ _ p q => blockLe_trans p q)
        (orel_trans (R := BlockLe) (fun _ _ _ p q => blockLe_trans p q) a b) c) d
    · rw [Array.getElem?_eq_none (by rw [hexs]; omega), Array.getElem?_eq_none (by omega)]; trivial


/-- **`tinyjambu_hmac_init(state, key, keylen)`** with a key of at most 64 bytes: outside the state object no label rises -/
theorem hmac_init_callK (env : Env) (st : St) (es ek el : Expr) (bs bk : Nat) (X XK : Array LByte) (baseS basek koff : Nat) (h : HState) (key : Bytes)
    (hes : evalE env es = .ok (mkPtr bs baseS, .pub)) (hek : evalE env ek = .ok (mkPtr bk (basek + koff), .pub)) (hel : evalE env el = .ok (key.length, .pub))
    (hS : st.mem[bs]? = some ⟨X, baseS⟩) (hK : st.mem[bk]? = some ⟨XK, basek⟩) (hne : bk ≠ bs) (hXs : 52 ≤ X.size) (halS : baseS % 4 = 0)
    (hltS : baseS + X.size < ptrBase) (hltK : basek + XK.size < ptrBase) (hkd : BytesV XK koff key) (hle : key.length ≤ 64) (hsz : st.mem.size + 3 < 2 ^ 30) :
    RunsTo prog (.call none idx_tinyjambu_hmac_init [es, ek, el]) env st (fun sig e s => sig = .normal ∧ e = env ∧ s.ent = st.ent ∧ s.mem.size = st.mem.size ∧
      (∃ X', s.mem[bs]? = some ⟨X', baseS⟩ ∧ X'.size = X.size ∧ HObjV X' (hmacInit h key)) ∧ OthLe bs s.mem st.mem) := by
  refine runs_call_none f_tinyjambu_hmac_init [(mkPtr bs baseS, .pub), (mkPtr bk (basek + koff), .pub), (key.length, .pub)] prog_hmac_init
    (by simp only [evalArgs, hes, hek, hel]) rfl ?_
  have hent : enterFun f_tinyjambu_hmac_init [(mkPtr bs baseS, .pub), (mkPtr bk (basek + koff), .pub), (key.length, .pub)] st.mem =
      (#[(mkPtr bs baseS, .pub), (mkPtr bk (basek + koff), .pub), (key.length, .pub)], st.mem) := rfl
  rw [hent]
  have hbody : f_tinyjambu_hmac_init.body = .call none idx_tinyjambu_hmac_set_key [.var 0, .var 1, .var 2, .cast .u8 .i32 (.lit 54)] := rfl
  rw [hbody]
  refine (set_key_callK _ { st with mem := st.mem } (.var 0) (.var 1) (.var 2) (.cast .u8 .i32 (.lit 54)) bs bk X XK baseS basek koff h key 0x36 .pub (by decide)
    rfl rfl rfl (by simp only [evalE, castVal_u8_i32_small 54 (by decide)]; rfl) hS hK hne hXs halS hltS hltK hkd hle hsz).weaken ?_
  intro sig e s ⟨_, _, g3, g4, g5, g6⟩
  have : s.mem.extract 0 st.mem.size = s.mem := extract_same _ _ g4
  simp only [this]
  exact ⟨trivial, trivial, g3, g4, g5, g6⟩

/-- **`tinyjambu_hmac_update(state, in, inlen)`** with the frame: outside the state object no label rises except inside the absorbed window -/
theorem hmac_update_callK (env : Env) (st : St) (es ei el : Expr) (bs bi : Nat) (X XI : Array LByte) (baseS basei off : Nat) (h : HState) (data : Bytes)
    (hes : evalE env es = .ok (mkPtr bs baseS, .pub)) (hei : evalE env ei = .ok (mkPtr bi (basei + off), .pub)) (hel : evalE env el = .ok (data.length, .pub))
    (hS : st.mem[bs]? = some ⟨X, baseS⟩) (hI : st.mem[bi]? = some ⟨XI, basei⟩) (hne : bi ≠ bs)
    (hrep : HObjV X h) (halS : baseS % 4 = 0) (hltS : baseS + X.size < ptrBase) (hltI : basei + XI.size < ptrBase)
    (hbs30 : bs < 2 ^ 30) (hbi30 : bi < 2 ^ 30) (hsz : st.mem.size + 2 < 2 ^ 30) (hd : BytesV XI off data) :
    RunsTo prog (.call none idx_tinyjambu_hmac_update [es, ei, el]) env st (fun sig e s => sig = .normal ∧ e = env ∧ s.ent = st.ent ∧ s.mem.size = st.mem.size ∧
      (∀ j, j ≠ bs → ORel (KeepB (fun q => j = bi ∧ off ≤ q ∧ q < off + data.length)) s.mem[j]? st.mem[j]?) ∧
      OthV bs s.mem st.mem ∧ ∃ X', s.mem[bs]? = some ⟨X', baseS⟩ ∧ X'.size = X.size ∧ HObjV X' (hmacUpdate h data)) := by
  refine runs_call_none f_tinyjambu_hmac_update [(mkPtr bs baseS, .pub), (mkPtr bi (basei + off), .pub), (data.length, .pub)] prog_hmac_update
    (by simp only [evalArgs, hes, hei, hel]) rfl ?_
  have hent : enterFun f_tinyjambu_hmac_update [(mkPtr bs baseS, .pub), (mkPtr bi (basei + off), .pub), (data.length, .pub)] st.mem =
      (#[(mkPtr bs baseS, .pub), (mkPtr bi (basei + off), .pub), (data.length, .pub)], st.mem) := rfl
  rw [hent]
  have hbody : f_tinyjambu_hmac_update.body = .call none idx_tinyjambu_hash_update [.var 0, .var 1, .var 2] := rfl
  rw [hbody]
  refine ((update_callV prog idx_tinyjambu_hash_update prog_update prog_compress prog_p256 _ { st with mem := st.mem } (.var 0) (.var 1) (.var 2) bs bi X XI baseS basei off h data
    rfl rfl rfl hS hI hne hrep halS hltS hltI hbs30 hbi30 hsz (fun k b hk => by obtain ⟨l, hx, hl⟩ := hd.2 k b hk; exact ⟨l, hx, hl⟩) hd.1).and
    (update_keep prog idx_tinyjambu_hash_update prog_update prog_compress prog_p256 _ { st with mem := st.mem } (.var 0) (.var 1) (.var 2) bs bi X XI baseS basei off h data
    rfl rfl rfl hS hI hne hrep halS hltS hltI hbs30 hbi30 hsz (fun k b hk => by obtain ⟨l, hx, hl⟩ := hd.2 k b hk; exact ⟨l, hx, hl⟩) hd.1)).weaken ?_
  intro sig e s ⟨⟨_, _, g3, g4, g5, blk', g6, g7, g8, g9⟩, gk⟩
  have : s.mem.extract 0 st.mem.size = s.mem := extract_same _ _ g4
  simp only [this]
  exact ⟨trivial, trivial, g3, g4, gk, g5, blk'.bytes, by rw [g6, ← g7], g8, g9⟩

/-- **`tinyjambu_hmac_update(state, p, 1)`**: the byte at `p` keeps its label -/
theorem hmac_update1_call (env : Env) (st : St) (es ei el : Expr) (bs bi : Nat) (X XI : Array LByte) (baseS basei off : Nat) (h : HState) (v : UInt8) (l : Lab)
    (hes : evalE env es = .ok (mkPtr bs baseS, .pub)) (hei : evalE env ei = .ok (mkPtr bi (basei + off), .pub)) (hel : evalE env el = .ok (1, .pub))
    (hS : st.mem[bs]? = some ⟨X, baseS⟩) (hI : st.mem[bi]? = some ⟨XI, basei⟩) (hne : bi ≠ bs)
    (hrep : HObjV X h) (halS : baseS % 4 = 0) (hltS : baseS + X.size < ptrBase) (hltI : basei + XI.size < ptrBase)
    (hbs30 : bs < 2 ^ 30) (hsz : st.mem.size + 2 < 2 ^ 30) (hx : XI[off]? = some (v, l)) (hl : l ≠ Lab.undef) :
    RunsTo prog (.call none idx_tinyjambu_hmac_update [es, ei, el]) env st (fun sig e s => sig = .normal ∧ e = env ∧ s.ent = st.ent ∧ s.mem.size = st.mem.size ∧
      OthLe bs s.mem st.mem ∧ ∃ X', s.mem[bs]? = some ⟨X', baseS⟩ ∧ X'.size = X.size ∧ HObjV X' (hmacUpdate h [v])) := by
  refine runs_call_none f_tinyjambu_hmac_update [(mkPtr bs baseS, .pub), (mkPtr bi (basei + off), .pub), (1, .pub)] prog_hmac_update
    (by simp only [evalArgs, hes, hei, hel]) rfl ?_
  have hent : enterFun f_tinyjambu_hmac_update [(mkPtr bs baseS, .pub), (mkPtr bi (basei + off), .pub), (1, .pub)] st.mem =
      (#[(mkPtr bs baseS, .pub), (mkPtr bi (basei + off), .pub), (1, .pub)], st.mem) := rfl
  rw [hent]
  have hbody : f_tinyjambu_hmac_update.body = .call none idx_tinyjambu_hash_update [.var 0, .var 1, .var 2] := rfl
  rw [hbody]
  refine (update1_call prog idx_tinyjambu_hash_update prog_update prog_compress prog_p256 _ { st with mem := st.mem } (.var 0) (.var 1) (.var 2) bs bi X XI baseS basei off h v l
    rfl rfl rfl hS hI hne hrep halS hltS hltI hbs30 hsz hx hl).weaken ?_
  intro sig e s ⟨_, _, g3, g4, g5, g6⟩
  have : s.mem.extract 0 st.mem.size = s.mem := extract_same _ _ g4
  simp only [this]
  exact ⟨trivial, trivial, g3, g4, g5, g6⟩


end TJ.MiniC.Hoare
