/-
  The regenerated `tinyjambu_permutation_128` and `tinyjambu_permutation_256` (TJ.Gen.MiniC.Prog, translated from
  src/backend/tinyjambu-{128,256}-c32.c by tools/c2lean.py), whole functions: prologue (four loads), the round loop
  (TJ.Proofs.PermC.loopG_spec), epilogue (four stores), the call itself, and the bridge from the natural-number
  arithmetic of the MiniC semantics to the word-level models `TJ.perm128` / `TJ.perm256`.  The two bodies are the
  same statement up to the offset `o` of the second round's key words (`bodyG o`).
-/
import TJ.Proofs.PermC
namespace TJ.MiniC.PermC
open TJ TJ.MiniC TJ.Gen.MiniC

/-- the function body, parameterised by the offset of the second round's key words -/
def bodyG (o : Nat) : Stmt :=
    seqs [seqs [.load 7 .u32 (.var 0), .assign 6 (.var 7)], seqs [.load 9 .u32 (.bin .add .u64 (.var 0) (.lit 4)), .assign 8 (.var 9)],
      seqs [.load 11 .u32 (.bin .add .u64 (.var 0) (.lit 8)), .assign 10 (.var 11)], seqs [.load 13 .u32 (.bin .add .u64 (.var 0) (.lit 12)), .assign 12 (.var 13)],
      loopG o,
      seqs [.assign 22 (.var 0), .store .u32 (.var 22) (.var 6)], seqs [.assign 23 (.bin .add .u64 (.var 0) (.lit 4)), .store .u32 (.var 23) (.var 8)],
      seqs [.assign 24 (.bin .add .u64 (.var 0) (.lit 8)), .store .u32 (.var 24) (.var 10)], seqs [.assign 25 (.bin .add .u64 (.var 0) (.lit 12)), .store .u32 (.var 25) (.var 12)]]

theorem body128_eq : f_tinyjambu_permutation_128.body = bodyG 16 := rfl
theorem body256_eq : f_tinyjambu_permutation_256.body = bodyG 32 := rfl

/-- the environment at function entry: state pointer, round count, 24 undefined locals -/
def env0 (ptr r : Nat) : Env := #[(ptr, .pub), (r, .pub), (0, .undef), (0, .undef), (0, .undef), (0, .undef), (0, .undef), (0, .undef),
  (0, .undef), (0, .undef), (0, .undef), (0, .undef), (0, .undef), (0, .undef), (0, .undef), (0, .undef), (0, .undef), (0, .undef),
  (0, .undef), (0, .undef), (0, .undef), (0, .undef), (0, .undef), (0, .undef), (0, .undef), (0, .undef)]

def envPre (ptr r a b c d : Nat) : Env := #[(ptr, .pub), (r, .pub), (0, .undef), (0, .undef), (0, .undef), (0, .undef),
  (a, .sec), (a, .sec), (b, .sec), (b, .sec), (c, .sec), (c, .sec), (d, .sec), (d, .sec),
  (0, .undef), (0, .undef), (0, .undef), (0, .undef), (0, .undef), (0, .undef), (0, .undef),
  (0, .undef), (0, .undef), (0, .undef), (0, .undef), (0, .undef)]

theorem ptr_off (bs base off : Nat) (hbb : bs < 2 ^ 30) (h : base + off < ptrBase) :
    (mkPtr bs base + off) % 18446744073709551616 = mkPtr bs (base + off) := by
  have : mkPtr bs base + off = mkPtr bs (base + off) := by unfold mkPtr; omega
  rw [this, Nat.mod_eq_of_lt (mkPtr_lt bs _ hbb h)]

/-- the four initial loads -/
theorem pre128 (prog : Program) (f : Nat → Nat) (hf : ∀ i, f (i + 1) = Fu (f i)) (m o : Nat) (st : St) (r a b c d k0 k1 k2 k3 k4 k5 k6 k7 bs : Nat) (blk : Block)
    (km : KM st bs blk o k0 k1 k2 k3 k4 k5 k6 k7) (rest : Stmt)
    (w0 : readLE blk.bytes 0 4 = some (a, .sec)) (w1 : readLE blk.bytes 4 4 = some (b, .sec))
    (w2 : readLE blk.bytes 8 4 = some (c, .sec)) (w3 : readLE blk.bytes 12 4 = some (d, .sec)) :
    ∃ env' leak', exec prog (f (m + 7))
        (.seq (seqs [.load 7 .u32 (.var 0), .assign 6 (.var 7)]) (.seq (seqs [.load 9 .u32 (.bin .add .u64 (.var 0) (.lit 4)), .assign 8 (.var 9)])
          (.seq (seqs [.load 11 .u32 (.bin .add .u64 (.var 0) (.lit 8)), .assign 10 (.var 11)])
            (.seq (seqs [.load 13 .u32 (.bin .add .u64 (.var 0) (.lit 12)), .assign 12 (.var 13)]) rest))))
        (env0 (mkPtr bs blk.base) r) st =
      exec prog (f (m + 3)) rest env' { st with leak := leak' } ∧ Inv 26 env' (mkPtr bs blk.base) r a b c d := by
  have hbk : blockBytes st.mem bs = blk.bytes := by simp [blockBytes, km.hb]
  have hlt := km.lt
  have hsz := km.sz
  have hal := km.al
  have r0 : resolve st.mem (mkPtr bs (blk.base)) 4 = .ok (bs, 0) := by simpa using resolve_mkPtr st.mem bs 0 4 blk km.hb (by omega) (by omega) (fun _ => by omega)
  have r4 : resolve st.mem (mkPtr bs (blk.base + 4)) 4 = .ok (bs, 4) := resolve_mkPtr st.mem bs 4 4 blk km.hb (by omega) (by omega) (fun _ => by omega)
  have r8 : resolve st.mem (mkPtr bs (blk.base + 8)) 4 = .ok (bs, 8) := resolve_mkPtr st.mem bs 8 4 blk km.hb (by omega) (by omega) (fun _ => by omega)
  have r12 : resolve st.mem (mkPtr bs (blk.base + 12)) 4 = .ok (bs, 12) := resolve_mkPtr st.mem bs 12 4 blk km.hb (by omega) (by omega) (fun _ => by omega)
  have p4 := ptr_off bs blk.base 4 km.bb (by omega)
  have p8 := ptr_off bs blk.base 8 km.bb (by omega)
  have p12 := ptr_off bs blk.base 12 km.bb (by omega)
  refine ⟨envPre (mkPtr bs blk.base) r a b c d, Ev.rd (mkPtr bs (blk.base + 12)) 4 :: Ev.rd (mkPtr bs (blk.base + 8)) 4 :: Ev.rd (mkPtr bs (blk.base + 4)) 4 :: Ev.rd (mkPtr bs (blk.base)) 4 :: st.leak, ?_, ?_⟩
  · simp only [seqs, env0, envPre]
    rw [exec_seq' prog (hf (m + 6)), exec_seq' prog (hf (m + 5))]
    rw [exec_load_ok' prog (hf (m + 4)) 7 .u32 _ _ st (mkPtr bs (blk.base)) bs 0 4 (a, .sec) rfl (by ev) r0 (by rw [hbk]; exact w0)]
    ev
    rw [exec_assign' prog (hf (m + 4))]; ev
    rw [exec_seq' prog (hf (m + 5)), exec_seq' prog (hf (m + 4))]
    rw [exec_load_ok' prog (hf (m + 3)) 9 .u32 _ _ { st with leak := Ev.rd (mkPtr bs (blk.base)) 4 :: st.leak } (mkPtr bs (blk.base + 4)) bs 4 4 (b, .sec) rfl (by ev; simp only [p4]) r4 (by rw [hbk]; exact w1)]
    ev
    rw [exec_assign' prog (hf (m + 3))]; ev
    rw [exec_seq' prog (hf (m + 4)), exec_seq' prog (hf (m + 3))]
    rw [exec_load_ok' prog (hf (m + 2)) 11 .u32 _ _ { st with leak := Ev.rd (mkPtr bs (blk.base + 4)) 4 :: Ev.rd (mkPtr bs (blk.base)) 4 :: st.leak } (mkPtr bs (blk.base + 8)) bs 8 4 (c, .sec) rfl (by ev; simp only [p8]) r8 (by rw [hbk]; exact w2)]
    ev
    rw [exec_assign' prog (hf (m + 2))]; ev
    rw [exec_seq' prog (hf (m + 3)), exec_seq' prog (hf (m + 2))]
    rw [exec_load_ok' prog (hf (m + 1)) 13 .u32 _ _ { st with leak := Ev.rd (mkPtr bs (blk.base + 8)) 4 :: Ev.rd (mkPtr bs (blk.base + 4)) 4 :: Ev.rd (mkPtr bs (blk.base)) 4 :: st.leak } (mkPtr bs (blk.base + 12)) bs 12 4 (d, .sec) rfl (by ev; simp only [p12]) r12 (by rw [hbk]; exact w3)]
    ev
    rw [exec_assign' prog (hf (m + 1))]; ev
  · exact ⟨by simp [envPre], by decide, by simp [envPre], by simp [envPre], by simp [envPre], by simp [envPre], by simp [envPre], by simp [envPre]⟩


theorem size_writeLE (l : Lab) : ∀ (n : Nat) (bs : Array LByte) (off v : Nat), (writeLE bs off v l n).size = bs.size
  | 0, _, _, _ => rfl
  | n + 1, bs, off, v => by rw [writeLE, size_writeLE l n]; simp

/-- one `p = s + off; *p = x` pair of the epilogue -/
theorem exec_putWord (prog : Program) {f2 f1 f0 : Nat} (h2 : f2 = Fu f1) (h1 : f1 = Fu f0) (env : Env) (st : St)
    (t x off v bs : Nat) (blk : Block) (ae : Expr)
    (ht : t < env.size) (ntx : ¬ t = x)
    (hae : evalE env ae = .ok (mkPtr bs (blk.base + off), .pub)) (ex : env[x]? = some (v, .sec))
    (hb : st.mem[bs]? = some blk) (hbase : blk.base + off < ptrBase) (hal : (blk.base + off) % 4 = 0)
    (hko : off + 4 ≤ blk.bytes.size) :
    exec prog f2 (seqs [.assign t ae, .store .u32 (.var t) (.var x)]) env st =
      .ok .normal (setVar env t (mkPtr bs (blk.base + off), .pub))
        { st with leak := Ev.wr (mkPtr bs (blk.base + off)) 4 :: st.leak, mem := setBlock st.mem bs (writeLE blk.bytes off v .sec 4) } := by
  have hr : resolve st.mem (mkPtr bs (blk.base + off)) 4 = .ok (bs, off) :=
    resolve_mkPtr st.mem bs off 4 blk hb hko hbase (fun _ => hal)
  have hbk : blockBytes st.mem bs = blk.bytes := by simp [blockBytes, hb]
  simp only [seqs]
  rw [exec_seq' prog h2, exec_assign' prog h1, hae]
  simp only []
  rw [exec_store_ok' prog h1 .u32 _ _ _ st (mkPtr bs (blk.base + off)) v bs off 4 .sec (writeLE blk.bytes off v .sec 4) rfl
    (by simp only [evalE, get_set_eq _ _ _ ht, reduceCtorEq, if_false]) (by simp only [evalE, get_set_ne _ _ _ _ ntx, ex, reduceCtorEq, if_false]) hr (by rw [hbk])]


/-- the words the epilogue leaves in the state object -/
def bytesAfter (bytes : Array LByte) (a b c d : Nat) : Array LByte :=
  writeLE (writeLE (writeLE (writeLE bytes 0 a .sec 4) 4 b .sec 4) 8 c .sec 4) 12 d .sec 4

theorem post128 (prog : Program) (f : Nat → Nat) (hf : ∀ i, f (i + 1) = Fu (f i)) (m : Nat) (env : Env) (st : St)
    (r a b c d bs : Nat) (blk : Block) (inv : Inv 26 env (mkPtr bs blk.base) r a b c d)
    (hb : st.mem[bs]? = some blk) (hal : blk.base % 4 = 0) (hlt : blk.base + 32 < ptrBase) (hbb : bs < 2 ^ 30) (hsz : 32 ≤ blk.bytes.size) :
    ∃ env' leak', exec prog (f (m + 5))
        (seqs [seqs [.assign 22 (.var 0), .store .u32 (.var 22) (.var 6)], seqs [.assign 23 (.bin .add .u64 (.var 0) (.lit 4)), .store .u32 (.var 23) (.var 8)],
          seqs [.assign 24 (.bin .add .u64 (.var 0) (.lit 8)), .store .u32 (.var 24) (.var 10)], seqs [.assign 25 (.bin .add .u64 (.var 0) (.lit 12)), .store .u32 (.var 25) (.var 12)]])
        env st = .ok .normal env' { st with leak := leak', mem := setBlock st.mem bs (bytesAfter blk.bytes a b c d) } := by
  have p4 := ptr_off bs blk.base 4 hbb (by omega)
  have p8 := ptr_off bs blk.base 8 hbb (by omega)
  have p12 := ptr_off bs blk.base 12 hbb (by omega)
  have hs := inv.size
  have e0 := inv.e0
  let W1 := writeLE blk.bytes 0 a .sec 4
  let W2 := writeLE W1 4 b .sec 4
  let W3 := writeLE W2 8 c .sec 4
  have z1 : W1.size = blk.bytes.size := size_writeLE _ _ _ _ _
  have z2 : W2.size = blk.bytes.size := by rw [size_writeLE]; exact z1
  have z3 : W3.size = blk.bytes.size := by rw [size_writeLE]; exact z2
  refine ⟨setVar (setVar (setVar (setVar env 22 (mkPtr bs (blk.base + 0), .pub)) 23 (mkPtr bs (blk.base + 4), .pub)) 24 (mkPtr bs (blk.base + 8), .pub)) 25 (mkPtr bs (blk.base + 12), .pub),
    Ev.wr (mkPtr bs (blk.base + 12)) 4 :: Ev.wr (mkPtr bs (blk.base + 8)) 4 :: Ev.wr (mkPtr bs (blk.base + 4)) 4 :: Ev.wr (mkPtr bs (blk.base + 0)) 4 :: st.leak, ?_⟩
  rw [show seqs [seqs [Stmt.assign 22 (.var 0), .store .u32 (.var 22) (.var 6)], seqs [.assign 23 (.bin .add .u64 (.var 0) (.lit 4)), .store .u32 (.var 23) (.var 8)],
          seqs [.assign 24 (.bin .add .u64 (.var 0) (.lit 8)), .store .u32 (.var 24) (.var 10)], seqs [.assign 25 (.bin .add .u64 (.var 0) (.lit 12)), .store .u32 (.var 25) (.var 12)]]
      = .seq (seqs [.assign 22 (.var 0), .store .u32 (.var 22) (.var 6)]) (.seq (seqs [.assign 23 (.bin .add .u64 (.var 0) (.lit 4)), .store .u32 (.var 23) (.var 8)])
          (.seq (seqs [.assign 24 (.bin .add .u64 (.var 0) (.lit 8)), .store .u32 (.var 24) (.var 10)]) (seqs [.assign 25 (.bin .add .u64 (.var 0) (.lit 12)), .store .u32 (.var 25) (.var 12)]))) from rfl]
  have n22 : ∀ j, ¬ 22 = j → (setVar env 22 (mkPtr bs (blk.base + 0), Lab.pub))[j]? = env[j]? := fun j h => get_set_ne _ _ _ _ h
  -- word 0
  rw [exec_seq' prog (hf (m + 4))]
  rw [exec_putWord prog (hf (m + 3)) (hf (m + 2)) env st 22 6 0 a bs blk (.var 0) (by omega) (by decide)
    (by simp only [evalE, e0, reduceCtorEq, if_false, Nat.add_zero]) inv.e6 hb (by omega) (by omega) (by omega)]
  simp only []
  -- word 1
  have hb1 : (setBlock st.mem bs W1)[bs]? = some { blk with bytes := W1 } := by rw [getElem?_setBlock st.mem bs _ blk hb]; simp
  rw [exec_seq' prog (hf (m + 3))]
  rw [exec_putWord prog (hf (m + 2)) (hf (m + 1)) _ { st with leak := Ev.wr (mkPtr bs (blk.base + 0)) 4 :: st.leak, mem := setBlock st.mem bs W1 }
    23 8 4 b bs { blk with bytes := W1 } (.bin .add .u64 (.var 0) (.lit 4)) (by rw [size_setVar]; omega) (by decide)
    (by simp only [evalE, get_set_ne _ _ _ _ (by decide : ¬ 22 = 0), e0, reduceCtorEq, if_false, BinOp.needsPub2, BinOp.needsPub1, Bool.false_and, Bool.or_self, Bool.false_eq_true, binVal, Ty.modulus, Lab.join_pub_pub, p4])
    (by rw [get_set_ne _ _ _ _ (by decide : ¬ 22 = 8)]; exact inv.e8) hb1 (by simp only []; omega) (by simp only []; omega) (by simp only [z1]; omega)]
  simp only [setBlock_setBlock st.mem bs _ _ blk hb]
  -- word 2
  have hb2 : (setBlock st.mem bs W2)[bs]? = some { blk with bytes := W2 } := by rw [getElem?_setBlock st.mem bs _ blk hb]; simp
  rw [exec_seq' prog (hf (m + 2))]
  rw [exec_putWord prog (hf (m + 1)) (hf m) _ { st with leak := Ev.wr (mkPtr bs (blk.base + 4)) 4 :: Ev.wr (mkPtr bs (blk.base + 0)) 4 :: st.leak, mem := setBlock st.mem bs W2 }
    24 10 8 c bs { blk with bytes := W2 } (.bin .add .u64 (.var 0) (.lit 8)) (by simp only [size_setVar]; omega) (by decide)
    (by simp only [evalE, get_set_ne _ _ _ _ (by decide : ¬ 22 = 0), get_set_ne _ _ _ _ (by decide : ¬ 23 = 0), e0, reduceCtorEq, if_false, BinOp.needsPub2, BinOp.needsPub1, Bool.false_and, Bool.or_self, Bool.false_eq_true, binVal, Ty.modulus, Lab.join_pub_pub, p8])
    (by rw [get_set_ne _ _ _ _ (by decide : ¬ 23 = 10), get_set_ne _ _ _ _ (by decide : ¬ 22 = 10)]; exact inv.e10) hb2 (by simp only []; omega) (by simp only []; omega) (by simp only [z2]; omega)]
  simp only [setBlock_setBlock st.mem bs _ _ blk hb]
  -- word 3
  have hb3 : (setBlock st.mem bs W3)[bs]? = some { blk with bytes := W3 } := by rw [getElem?_setBlock st.mem bs _ blk hb]; simp
  rw [exec_putWord prog (hf (m + 1)) (hf m) _ { st with leak := Ev.wr (mkPtr bs (blk.base + 8)) 4 :: Ev.wr (mkPtr bs (blk.base + 4)) 4 :: Ev.wr (mkPtr bs (blk.base + 0)) 4 :: st.leak, mem := setBlock st.mem bs W3 }
    25 12 12 d bs { blk with bytes := W3 } (.bin .add .u64 (.var 0) (.lit 12)) (by simp only [size_setVar]; omega) (by decide)
    (by simp only [evalE, get_set_ne _ _ _ _ (by decide : ¬ 22 = 0), get_set_ne _ _ _ _ (by decide : ¬ 23 = 0), get_set_ne _ _ _ _ (by decide : ¬ 24 = 0), e0, reduceCtorEq, if_false, BinOp.needsPub2, BinOp.needsPub1, Bool.false_and, Bool.or_self, Bool.false_eq_true, binVal, Ty.modulus, Lab.join_pub_pub, p12])
    (by rw [get_set_ne _ _ _ _ (by decide : ¬ 24 = 12), get_set_ne _ _ _ _ (by decide : ¬ 23 = 12), get_set_ne _ _ _ _ (by decide : ¬ 22 = 12)]; exact inv.e12) hb3 (by simp only []; omega) (by simp only []; omega) (by simp only [z3]; omega)]
  simp only [setBlock_setBlock st.mem bs _ _ blk hb]
  rfl

/-- **the regenerated `tinyjambu_permutation_128`, whole body.**  Started on a state object (block `bs`, four state
words at offsets 0..12, four key words at 16..28, all secret, 4-aligned) with any round count below 2^32, the function
body completes normally, leaves `permNG` of the state words in the object and changes nothing else in memory. -/
theorem permG_body (prog : Program) (f : Nat → Nat) (hf : ∀ i, f (i + 1) = Fu (f i)) (m o : Nat) (st : St)
    (r a b c d k0 k1 k2 k3 k4 k5 k6 k7 bs : Nat) (blk : Block) (hr : r < 4294967296) (km : KM st bs blk o k0 k1 k2 k3 k4 k5 k6 k7)
    (w0 : readLE blk.bytes 0 4 = some (a, .sec)) (w1 : readLE blk.bytes 4 4 = some (b, .sec))
    (w2 : readLE blk.bytes 8 4 = some (c, .sec)) (w3 : readLE blk.bytes 12 4 = some (d, .sec)) :
    ∃ env' leak', exec prog (f (m + r + 23)) (bodyG o) (env0 (mkPtr bs blk.base) r) st =
      .ok .normal env' { st with leak := leak', mem := (setBlock st.mem bs
        (bytesAfter blk.bytes (permNG k0 k1 k2 k3 k4 k5 k6 k7 r (a, b, c, d)).1 (permNG k0 k1 k2 k3 k4 k5 k6 k7 r (a, b, c, d)).2.1
          (permNG k0 k1 k2 k3 k4 k5 k6 k7 r (a, b, c, d)).2.2.1 (permNG k0 k1 k2 k3 k4 k5 k6 k7 r (a, b, c, d)).2.2.2)) } := by
  unfold bodyG
  obtain ⟨env1, leak1, h1, inv1⟩ := pre128 prog f hf (m + r + 16) o st r a b c d k0 k1 k2 k3 k4 k5 k6 k7 bs blk km
    (seqs [loopG o, seqs [.assign 22 (.var 0), .store .u32 (.var 22) (.var 6)], seqs [.assign 23 (.bin .add .u64 (.var 0) (.lit 4)), .store .u32 (.var 23) (.var 8)],
      seqs [.assign 24 (.bin .add .u64 (.var 0) (.lit 8)), .store .u32 (.var 24) (.var 10)], seqs [.assign 25 (.bin .add .u64 (.var 0) (.lit 12)), .store .u32 (.var 25) (.var 12)]]) w0 w1 w2 w3
  have km1 : KM { st with leak := leak1 } bs blk o k0 k1 k2 k3 k4 k5 k6 k7 := km.leak leak1
  obtain ⟨env2, leak2, h2, inv2⟩ := loopG_spec prog f hf o 26 k0 k1 k2 k3 k4 k5 k6 k7 bs blk r m env1 { st with leak := leak1 } a b c d hr inv1 km1
  obtain ⟨env3, leak3, h3⟩ := post128 prog f hf (m + r + 13) env2 { st with leak := leak2 } 0 _ _ _ _ bs blk inv2 km.hb km.al (by have := km.lt; have := km.sz; omega) km.bb km.sz
  refine ⟨env3, leak3, ?_⟩
  rw [show m + r + 23 = m + r + 16 + 7 from by omega]
  refine Eq.trans h1 ?_
  rw [show seqs [loopG o, seqs [Stmt.assign 22 (.var 0), .store .u32 (.var 22) (.var 6)], seqs [.assign 23 (.bin .add .u64 (.var 0) (.lit 4)), .store .u32 (.var 23) (.var 8)],
      seqs [.assign 24 (.bin .add .u64 (.var 0) (.lit 8)), .store .u32 (.var 24) (.var 10)], seqs [.assign 25 (.bin .add .u64 (.var 0) (.lit 12)), .store .u32 (.var 25) (.var 12)]]
     = .seq (loopG o) (seqs [seqs [.assign 22 (.var 0), .store .u32 (.var 22) (.var 6)], seqs [.assign 23 (.bin .add .u64 (.var 0) (.lit 4)), .store .u32 (.var 23) (.var 8)],
      seqs [.assign 24 (.bin .add .u64 (.var 0) (.lit 8)), .store .u32 (.var 24) (.var 10)], seqs [.assign 25 (.bin .add .u64 (.var 0) (.lit 12)), .store .u32 (.var 25) (.var 12)]]) from rfl]
  rw [show m + r + 16 + 3 = (m + r + 18) + 1 from by omega, exec_seq' prog (hf (m + r + 18)), h2]
  simp only []
  rw [show m + r + 18 = m + r + 13 + 5 from by omega]
  exact h3


/-- a word-level state as four naturals -/
def toN (s : W4) : Nat × Nat × Nat × Nat := (s.a.toNat, s.b.toNat, s.c.toNat, s.d.toNat)

theorem roundN_eq (s : W4) (k0 k1 k2 k3 : UInt32) :
    roundN s.a.toNat s.b.toNat s.c.toNat s.d.toNat k0.toNat k1.toNat k2.toNat k3.toNat = toN (round128 s k0 k1 k2 k3) := by
  simp only [roundN, round128, toN, st32N_eq]

theorem roundN_toN (s : W4) (k0 k1 k2 k3 : UInt32) :
    roundN (toN s).1 (toN s).2.1 (toN s).2.2.1 (toN s).2.2.2 k0.toNat k1.toNat k2.toNat k3.toNat = toN (round128 s k0 k1 k2 k3) :=
  roundN_eq s k0 k1 k2 k3

/-- the natural-number permutation the regenerated C terms compute is the word-level model `perm128` / `perm256` -/
theorem permNG_eq128 (k : Key) : ∀ (r : Nat) (s : W4),
    permNG (kw k 0).toNat (kw k 1).toNat (kw k 2).toNat (kw k 3).toNat (kw k 0).toNat (kw k 1).toNat (kw k 2).toNat (kw k 3).toNat r (toN s) =
      toN (perm128 k r s)
  | 0, s => rfl
  | 1, s => by rw [permNG, perm128, roundN_toN]
  | n + 2, s => by
    rw [permNG, perm128]
    simp only [roundN_toN]
    exact permNG_eq128 k n _

theorem permNG_eq256 (k : Key) : ∀ (r : Nat) (s : W4),
    permNG (kw k 0).toNat (kw k 1).toNat (kw k 2).toNat (kw k 3).toNat (kw k 4).toNat (kw k 5).toNat (kw k 6).toNat (kw k 7).toNat r (toN s) =
      toN (perm256 k r s)
  | 0, s => rfl
  | 1, s => by rw [permNG, perm256, roundN_toN]
  | n + 2, s => by
    rw [permNG, perm256]
    simp only [roundN_toN]
    exact permNG_eq256 k n _

theorem getElem?_writeLE_out (l : Lab) : ∀ (n : Nat) (bs : Array LByte) (off v j : Nat), (j < off ∨ off + n ≤ j) →
    (writeLE bs off v l n)[j]? = bs[j]?
  | 0, _, _, _, _, _ => rfl
  | n + 1, bs, off, v, j, h => by
    rw [writeLE, getElem?_writeLE_out l n _ _ _ j (by omega), Array.getElem?_setIfInBounds]
    rw [if_neg (by omega)]

theorem readLE_congr (b1 b2 : Array LByte) : ∀ (n off : Nat), (∀ j, off ≤ j → j < off + n → b1[j]? = b2[j]?) →
    readLE b1 off n = readLE b2 off n
  | 0, _, _ => rfl
  | n + 1, off, h => by
    rw [readLE, readLE, h off (Nat.le_refl _) (by omega), readLE_congr b1 b2 n (off + 1) (fun j h1 h2 => h j (by omega) (by omega))]

/-- the label of an `n`-byte read of bytes all labelled `l` -/
def labN (l : Lab) : Nat → Lab
  | 0 => .pub
  | n + 1 => l.join (labN l n)

theorem readLE_writeLE (l : Lab) (hl : l ≠ .undef) : ∀ (n : Nat) (bs : Array LByte) (off v : Nat), off + n ≤ bs.size →
    readLE (writeLE bs off v l n) off n = some (v % 256 ^ n, labN l n)
  | 0, _, _, _, _ => by simp [readLE, labN, Nat.mod_one]
  | n + 1, bs, off, v, h => by
    rw [writeLE, readLE, getElem?_writeLE_out l n _ _ _ off (by omega), Array.getElem?_setIfInBounds]
    rw [if_pos rfl, if_pos (by omega)]
    simp only [hl, if_false]
    rw [readLE_writeLE l hl n _ (off + 1) (v / 256) (by simp only [Array.size_setIfInBounds]; omega)]
    simp only [labN]
    congr 2
    have : (v % 256).toUInt8.toNat = v % 256 := by
      simp [Nat.toUInt8, UInt8.toNat_ofNat']
    rw [this, Nat.pow_succ', Nat.mod_mul]


/-! ### reading the result back -/

theorem labN_sec_four : labN .sec 4 = .sec := rfl

theorem readLE_word (bytes : Array LByte) (off v : Nat) (hv : v < 4294967296) (h : off + 4 ≤ bytes.size) :
    readLE (writeLE bytes off v .sec 4) off 4 = some (v, .sec) := by
  rw [readLE_writeLE .sec (by decide) 4 bytes off v h, labN_sec_four, Nat.mod_eq_of_lt (by omega)]

theorem size_bytesAfter (bytes : Array LByte) (a b c d : Nat) : (bytesAfter bytes a b c d).size = bytes.size := by
  simp only [bytesAfter, size_writeLE]

theorem bytesAfter_out (bytes : Array LByte) (a b c d j : Nat) (h : 16 ≤ j) : (bytesAfter bytes a b c d)[j]? = bytes[j]? := by
  simp only [bytesAfter]
  rw [getElem?_writeLE_out _ _ _ _ _ _ (by omega), getElem?_writeLE_out _ _ _ _ _ _ (by omega),
    getElem?_writeLE_out _ _ _ _ _ _ (by omega), getElem?_writeLE_out _ _ _ _ _ _ (by omega)]

theorem bytesAfter_w0 (bytes : Array LByte) (a b c d : Nat) (ha : a < 4294967296) (h : 16 ≤ bytes.size) :
    readLE (bytesAfter bytes a b c d) 0 4 = some (a, .sec) := by
  rw [← readLE_word bytes 0 a ha (by omega)]
  apply readLE_congr
  intro j h1 h2
  simp only [bytesAfter]
  rw [getElem?_writeLE_out _ _ _ _ _ _ (by omega), getElem?_writeLE_out _ _ _ _ _ _ (by omega), getElem?_writeLE_out _ _ _ _ _ _ (by omega)]

theorem bytesAfter_w1 (bytes : Array LByte) (a b c d : Nat) (hb : b < 4294967296) (h : 16 ≤ bytes.size) :
    readLE (bytesAfter bytes a b c d) 4 4 = some (b, .sec) := by
  rw [← readLE_word (writeLE bytes 0 a .sec 4) 4 b hb (by rw [size_writeLE]; omega)]
  apply readLE_congr
  intro j h1 h2
  simp only [bytesAfter]
  rw [getElem?_writeLE_out _ _ _ _ _ _ (by omega), getElem?_writeLE_out _ _ _ _ _ _ (by omega)]

theorem bytesAfter_w2 (bytes : Array LByte) (a b c d : Nat) (hc : c < 4294967296) (h : 16 ≤ bytes.size) :
    readLE (bytesAfter bytes a b c d) 8 4 = some (c, .sec) := by
  rw [← readLE_word (writeLE (writeLE bytes 0 a .sec 4) 4 b .sec 4) 8 c hc (by simp only [size_writeLE]; omega)]
  apply readLE_congr
  intro j h1 h2
  simp only [bytesAfter]
  rw [getElem?_writeLE_out _ _ _ _ _ _ (by omega)]

theorem bytesAfter_w3 (bytes : Array LByte) (a b c d : Nat) (hd : d < 4294967296) (h : 16 ≤ bytes.size) :
    readLE (bytesAfter bytes a b c d) 12 4 = some (d, .sec) := by
  simp only [bytesAfter]
  exact readLE_word _ 12 d hd (by simp only [size_writeLE]; omega)

/-! ### the call -/

theorem exec_call' (prog : Program) {fuel f' : Nat} (hf : fuel = Fu f') (dst : Option Nat) (fn : Nat) (args : List Expr) (env : Env) (st : St) :
    exec prog fuel (.call dst fn args) env st =
      match evalArgs env args with
      | .error k => .fault k st.leak
      | .ok vs =>
        match prog[fn]? with
        | none => .fault .badcall st.leak
        | some fd =>
          if vs.length ≠ fd.nparams then .fault .badcall st.leak else
          leaveFun dst env st.mem.size
            (exec prog f' fd.body (enterFun fd vs st.mem).1 { st with mem := (enterFun fd vs st.mem).2 }) := by
  subst hf; rfl

theorem enterG (fd : FunDecl) (hp : fd.nparams = 2) (hv : fd.nvars = 26) (ha : fd.allocs = []) (p r : Nat) (mem : Array Block) :
    enterFun fd [(p, .pub), (r, .pub)] mem = (env0 p r, mem) := by
  simp only [enterFun, hp, hv, ha, allocLocals]
  rfl

/-- **`tinyjambu_permutation_128/256(state, rounds)` as a call**, in any program that has at index `fn` a function whose body is
`bodyG o` (two parameters, 26 variables, no local arrays): it returns normally to an unchanged caller environment; memory differs
from the old one only in block `bs`. -/
theorem permG_call (prog : Program) (fn : Nat) (fd : FunDecl) (o : Nat) (hprog : prog[fn]? = some fd) (hbody : fd.body = bodyG o)
    (hp : fd.nparams = 2) (hv : fd.nvars = 26) (ha : fd.allocs = [])
    (f : Nat → Nat) (hf : ∀ i, f (i + 1) = Fu (f i)) (m : Nat) (env : Env) (st : St) (ep er : Expr)
    (r a b c d k0 k1 k2 k3 k4 k5 k6 k7 bs : Nat) (blk : Block) (hr : r < 4294967296) (km : KM st bs blk o k0 k1 k2 k3 k4 k5 k6 k7)
    (hep : evalE env ep = .ok (mkPtr bs blk.base, .pub)) (her : evalE env er = .ok (r, .pub))
    (w0 : readLE blk.bytes 0 4 = some (a, .sec)) (w1 : readLE blk.bytes 4 4 = some (b, .sec))
    (w2 : readLE blk.bytes 8 4 = some (c, .sec)) (w3 : readLE blk.bytes 12 4 = some (d, .sec)) :
    ∃ leak', exec prog (f (m + r + 24)) (.call none fn [ep, er]) env st =
      .ok .normal env { st with leak := leak', mem := (setBlock st.mem bs
        (bytesAfter blk.bytes (permNG k0 k1 k2 k3 k4 k5 k6 k7 r (a, b, c, d)).1 (permNG k0 k1 k2 k3 k4 k5 k6 k7 r (a, b, c, d)).2.1
          (permNG k0 k1 k2 k3 k4 k5 k6 k7 r (a, b, c, d)).2.2.1 (permNG k0 k1 k2 k3 k4 k5 k6 k7 r (a, b, c, d)).2.2.2)) } := by
  obtain ⟨env', leak', h⟩ := permG_body prog f hf m o st r a b c d k0 k1 k2 k3 k4 k5 k6 k7 bs blk hr km w0 w1 w2 w3
  refine ⟨leak', ?_⟩
  rw [exec_call' prog (hf (m + r + 23))]
  simp only [evalArgs, hep, her, hprog, enterG fd hp hv ha, List.length_cons, List.length_nil, hp, hbody,
    ne_eq, not_true_eq_false, if_false]
  rw [show ({ mem := st.mem, ent := st.ent, leak := st.leak } : St) = st from rfl, h]
  simp only [leaveFun, assignDst, extract_setBlock]

end TJ.MiniC.PermC
