/-
  TJ.Proofs.SivDecLoop — the keystream pass of tinyjambu_*_siv_decrypt on the regenerated term: word loop and masked tails
  (the masks are invisible after the byte truncation: mask8 … mask24_2, by bv_decide).
-/
import TJ.Proofs.SivDecStmt
import Std.Tactic.BVDecide
namespace TJ.MiniC.Hoare
open TJ TJ.MiniC TJ.MiniC.PermC TJ.Gen.MiniC

/-- the kept public variables of the SIV decrypt body: below the data word (variable 12), none of the variables the message phase assigns -/
def KeepOk12 (kp : List (Nat × Nat)) : Prop := ∀ xv ∈ kp, xv.1 < 12 ∧ xv.1 ≠ 0 ∧ xv.1 ≠ 2 ∧ xv.1 ≠ 3

/-- one iteration of the keystream word loop of `tinyjambu_*_siv_decrypt` -/
theorem sivdec_iter {g : AGeo} (eg : EGeo g) {M : Array Block} {v : Nat} (hv : 17 ≤ v) (pk : Nat) (hpk : pk < 256) {kp : List (Nat × Nat)} (hkp : KeepOk12 kp)
    {env : Env} {st : St} {s : W4} {kws : List UInt32} {pt tag2 : Bytes}
    (b0 b1 b2 b3 : UInt8) (rest : Bytes) (di : DI g eg M (v + 34) kp env st s kws pt (b0 :: b1 :: b2 :: b3 :: rest) tag2) :
    RunsTo g.prog (sivDecLoopBody g.pidx pk v) env st (fun sig e' s' => sig = .normal ∧ ∃ M',
      DI g eg M' (v + 34) kp e' s' (g.P kws pk (addDomain s 0xD0)) kws
        (pt ++ store32 (load32 b0 b1 b2 b3 ^^^ (g.P kws pk (addDomain s 0xD0)).c)) rest tag2) := by
  obtain ⟨XM, hMm, hXMs, hdm⟩ := di.hm
  obtain ⟨XO, hMo, hXOs, hdo, hout⟩ := di.ho
  have room := di.room
  have hltm := eg.hltm; have hlto := eg.hlto
  have hdmb : BytesV XM (eg.moff + pt.length) (b0 :: b1 :: b2 :: b3 :: rest) := bytesV_prefix hdm
  have hlen : (b0 :: b1 :: b2 :: b3 :: rest).length < 18446744073709551616 := by have := hdmb.1; simp only [ptrBase] at *; omega
  let dg : DGeo g M := ⟨eg.bm, eg.basem, XM, eg.hbm, eg.hbm30, by rw [hXMs]; exact eg.hltm, hMm⟩
  let vs : List (Nat × Nat) := [(0, mkPtr eg.bo (eg.baseo + (eg.oo + pt.length))), (2, mkPtr eg.bm (eg.basem + (eg.moff + pt.length))), (3, (b0 :: b1 :: b2 :: b3 :: rest).length)]
  have vs3 : ∀ xv ∈ vs, xv.1 ≤ 3 := pv3_le
  have vsn : ∀ t, 12 ≤ t → ∀ xv ∈ vs ++ kp, xv.1 ≠ t := fun t ht xv hxv => by
    rcases List.mem_append.mp hxv with h | h
    · have := vs3 xv h; omega
    · have := hkp xv h; omega
  have pv0 : PubVars (vs ++ kp) env := pubVars_append.mpr ⟨pv3_mk di.e0 di.e2 di.e3, di.keep⟩
  have p3 : ∀ {e : Env}, PubVars (vs ++ kp) e → PubVars vs e := fun h => (pubVars_append.mp h).1
  generalize hs1 : g.P kws pk (addDomain s 0xD0) = s1
  generalize hdata : load32 b0 b1 b2 b3 = cw
  unfold sivDecLoopBody
  refine runs_ite_true 1 ?_ (by decide) ?_
  · simp only [evalE, di.e3, reduceCtorEq, if_false, castVal_u64_i32_lit 4 (by decide), BinOp.needsPub2, BinOp.needsPub1, Bool.false_and, Bool.or_self,
      Bool.false_eq_true, binVal, Ty.signed, ge_iff_le, List.length_cons, show 4 ≤ rest.length + 1 + 1 + 1 + 1 from by omega, decide_true, b2n, if_true, Lab.join_pub_pub]
  simp only [seqs]
  refine xp_step (di.ai.frame (s' := { st with leak := Ev.br true :: st.leak }) di.ai.esz rfl rfl rfl) (vs ++ kp) pv0 v (v + 1) _ (rc pk) 0xD0 pk ⟨by omega, by omega⟩ ⟨by omega, by omega⟩ (by omega)
    (fun xv hxv => ⟨vsn _ (by omega) xv hxv, vsn _ (by omega) xv hxv⟩) (fun e' _ => evalD_small e' 208 (by decide)) (fun e' => evalE_rc e' pk (by omega)) (by omega) _ ?_
  intro e1 st1 ai1 pv1
  rw [hs1] at ai1
  -- data = le_load_word32(c) ^ s[2]
  refine runs_seq (Q := fun e' s' => AI g M (v + 34) e' s' s1 kws 9 ∧ PubVars (vs ++ kp) e' ∧ EnvHas e' 12 (cw ^^^ s1.c).toNat) ?_ ?_
  · refine load_data_sq dg ai1 (eg.moff + pt.length) _ hdmb (pv3 (p3 pv1)).2.1 (v + 6) 12 [(v + 2, 3), (v + 3, 2), (v + 4, 1), (v + 5, 0)] _ (cw ^^^ s1.c)
      ⟨by omega, by omega, by omega, by simp only [List.map_cons, List.map_nil, List.mem_cons, List.mem_nil_iff, or_false]; omega⟩ ⟨by omega, by omega⟩ (by simp) ?_ ?_ ?_ ?_
    · intro yo hyo
      simp only [List.mem_cons, List.mem_nil_iff, or_false] at hyo
      rcases hyo with h | h | h | h <;> rw [h] <;> simp only [List.length_cons] <;> omega
    · simp only [List.map_cons, List.map_nil, List.nodup_cons, List.mem_cons, List.mem_nil_iff, or_false, not_false_eq_true, List.nodup_nil, and_true]; omega
    · intro e' hh hx
      have hc := evalD_e32 (b0 := b0) (b1 := b1) (b2 := b2) (b3 := b3) (hh (v + 2, 3) (by simp)) (hh (v + 3, 2) (by simp)) (hh (v + 4, 1) (by simp)) (hh (v + 5, 0) (by simp))
      rw [hdata] at hc
      exact hc.bitop (EvalD.var hx) .bxor .u32 (cw ^^^ s1.c).toNat ⟨rfl, rfl⟩ (binVal_bxor_u32 cw s1.c)
    · intro e' s' _ hfr h11 ai'
      refine ⟨rfl, ai', pv1.frame (fun xv hxv => hfr xv.1 (vsn _ (by omega) xv hxv) (vsn 12 (by omega) xv hxv) ?_), h11⟩
      intro hmem
      obtain ⟨yo, hyo, hy0⟩ := List.mem_map.mp hmem
      simp only [List.mem_cons, List.mem_nil_iff, or_false] at hyo
      rcases hyo with h | h | h | h <;> rw [h] at hy0 <;> exact vsn _ (by omega) xv hxv hy0.symm
  intro e4 st4 ⟨ai4, pv4, h114⟩
  generalize hpw : cw ^^^ s1.c = pw at h114
  -- le_store_word32(m, data)
  have hsz4 := ai4.esz
  refine runs_seq (Q := fun e' s' => e'.size = v + 34 ∧ PubVars (vs ++ kp) e' ∧ ∃ XO', AI g (setBlock M eg.bo XO') (v + 34) e' s' s1 kws 9 ∧ XO'.size = XO.size ∧
      (∀ j, j < 4 → BV XO' (eg.oo + pt.length + 0 + j) (byteOf pw.toNat j)) ∧
      (∀ p, (p < eg.oo + pt.length + 0 ∨ eg.oo + pt.length + 0 + 4 ≤ p) → XO'[p]? = XO[p]?)) ?_ ?_
  · obtain ⟨l9, h9v, hl9⟩ := h114
    refine runs_seq (Q := fun e' s' => e' = setVar e4 (v + 7) (pw.toNat, l9) ∧ s' = st4)
      (runs_assign _ (by simp only [evalE, h9v, hl9, if_false]) ⟨rfl, rfl, rfl⟩) ?_
    intro e5 st5 ⟨he5, hst5⟩; rw [he5, hst5]
    have fr5 : ∀ y, y ≠ v + 7 → (setVar e4 (v + 7) (pw.toNat, l9))[y]? = e4[y]? := fun y hy => get_set_ne _ _ _ _ (fun e => hy e.symm)
    have ai5 : AI g M (v + 34) (setVar e4 (v + 7) (pw.toNat, l9)) st4 s1 kws 9 :=
      ai4.frame (by rw [size_setVar]; exact hsz4) (fr5 9 (by omega)) rfl rfl
    have pv5 : PubVars (vs ++ kp) (setVar e4 (v + 7) (pw.toNat, l9)) := pv4.frame (fun xv hxv => fr5 xv.1 (vsn _ (by omega) xv hxv))
    refine (out_word ai5 eg.bo eg.baseo (eg.oo + pt.length) 0 XO eg.hbo eg.hbo30 hMo (by rw [hXOs]; exact hlto) (by rw [hXOs]; simp only [List.length_cons] at room; omega)
      (pv3 (p3 pv5)).1 (v + 8) (v + 9) (v + 10) (v + 11) (v + 7) pw ⟨⟨by omega, by omega, by omega⟩, ⟨by omega, by omega, by omega⟩, ⟨by omega, by omega, by omega⟩, ⟨by omega, by omega, by omega⟩⟩
      ⟨by omega, by omega, by omega, by omega⟩ ⟨l9, get_set_eq _ _ _ (by omega), hl9⟩).weaken ?_
    intro sig e' s' ⟨h1, h2, h3, h4⟩
    exact ⟨h1, h2, pv5.frame (fun xv hxv => h3 xv.1 (vsn _ (by omega) xv hxv) (vsn _ (by omega) xv hxv) (vsn _ (by omega) xv hxv) (vsn _ (by omega) xv hxv)), h4⟩
  intro e6 st6 ⟨hsz6, pv6, XO', ai6, hXO's, hbv, hkeep⟩
  -- c += 4; m += 4; clen -= 4
  have hl4 : (pt ++ store32 pw).length = pt.length + 4 := by simp [store32]
  refine bump3 2 0 3 eg.bm _ eg.bo _ _ 4 4 4 (pv3 (p3 pv6)).2.1 (pv3 (p3 pv6)).1 (pv3 (p3 pv6)).2.2 (by decide) (by decide) (by decide) (by omega) eg.hbm30 eg.hbo30
    (by have := hdmb.1; simp only [List.length_cons] at this; omega) (by simp only [List.length_cons] at room; omega) (by simp) hlen (by decide) ?_
  intro e7 hsz7 hfr7 h72 h70 h73
  refine ⟨rfl, setBlock M eg.bo XO', ai6.frame (by rw [hsz7]; exact hsz6) (hfr7 9 (by decide) (by decide) (by decide)) rfl rfl, ?_, ?_, ?_, ?_, ?_, ?_, ?_, ?_⟩
  · rw [h70, hl4, Nat.add_assoc, Nat.add_assoc]
  · rw [h72, hl4, Nat.add_assoc, Nat.add_assoc]
  · rw [h73]; simp
  · exact (pubVars_append.mp pv6).2.frame (fun xv hxv => by have := hkp xv hxv; exact hfr7 xv.1 (by omega) (by omega) (by omega))
  · obtain ⟨XM', h1, h2, h3⟩ := msg_after eg (q := pt.length) (n := 4) hMm hMo hXO's hdm (by simp) (fun p hp => hkeep p (Or.inr (by omega)))
    exact ⟨XM', h1, by rw [h2]; exact hXMs, by rw [hl4]; exact h3⟩
  · refine ⟨XO', by rw [getElem?_setBlock', if_pos rfl, hMo]; rfl, by rw [hXO's]; exact hXOs, ?_, fun p hp => ?_⟩
    · refine bytesV_snoc hdo hXO's (by simp only [List.length_cons] at room; simp [store32]; omega) (fun p hp => hkeep p (Or.inl (by omega))) ?_
      exact store32_bv (fun j hj => by have := hbv j hj; rw [Nat.add_zero] at this; exact this)
    · rw [hl4] at hp
      rw [hkeep p (by omega), hout p (by omega)]
  · intro j hj
    rw [getElem?_setBlock', if_neg hj]; exact di.oth0 j hj
  · rw [hl4]; simp only [List.length_cons] at room; omega



theorem mask8 (x k : UInt32) : ((x ^^^ k) &&& 0xFF).toUInt8 = (k ^^^ x).toUInt8 := by bv_decide
theorem mask16_0 (x k : UInt32) : ((x ^^^ k) &&& 0xFFFF).toUInt8 = (x ^^^ k).toUInt8 := by bv_decide
theorem mask16_1 (x k : UInt32) : (((x ^^^ k) &&& 0xFFFF) >>> 8).toUInt8 = ((x ^^^ k) >>> 8).toUInt8 := by bv_decide
theorem mask24_0 (x k : UInt32) : ((x ^^^ k) &&& 0xFFFFFF).toUInt8 = (x ^^^ k).toUInt8 := by bv_decide
theorem mask24_1 (x k : UInt32) : (((x ^^^ k) &&& 0xFFFFFF) >>> 8).toUInt8 = ((x ^^^ k) >>> 8).toUInt8 := by bv_decide
theorem mask24_2 (x k : UInt32) : (((x ^^^ k) &&& 0xFFFFFF) >>> 16).toUInt8 = ((x ^^^ k) >>> 16).toUInt8 := by bv_decide

theorem sivdec_exit {g : AGeo} (eg : EGeo g) {M : Array Block} {v : Nat} (pk : Nat) {kp : List (Nat × Nat)} {env : Env} {st : St} {s : W4} {kws : List UInt32} {pt rest tag2 : Bytes}
    (di : DI g eg M (v + 34) kp env st s kws pt rest tag2) (hl : rest.length < 4) :
    RunsTo g.prog (sivDecLoopBody g.pidx pk v) env st (fun sig e' s' => sig = .brk ∧ DI g eg M (v + 34) kp e' s' s kws pt rest tag2) := by
  unfold sivDecLoopBody
  refine runs_ite_false ?_ (runs_brk ⟨rfl, di.ai.frame di.ai.esz rfl rfl rfl, di.e0, di.e2, di.e3, di.keep, di.hm, di.ho, di.oth0, di.room⟩)
  have : ¬ 4 ≤ rest.length := by omega
  simp only [evalE, di.e3, reduceCtorEq, if_false, castVal_u64_i32_lit 4 (by decide), BinOp.needsPub2, BinOp.needsPub1, Bool.false_and, Bool.or_self,
    Bool.false_eq_true, binVal, Ty.signed, ge_iff_le, this, decide_false, b2n, Lab.join_pub_pub]

/-- **the keystream word loop of `tinyjambu_*_siv_decrypt`** -/
theorem sivdec_loop {g : AGeo} (eg : EGeo g) {v : Nat} (hv : 17 ≤ v) (pk : Nat) (hpk : pk < 256) {kp : List (Nat × Nat)} (hkp : KeepOk12 kp) {kws : List UInt32} {tag2 : Bytes} :
    ∀ (l : Bytes) (M : Array Block) (env : Env) (st : St) (s : W4) (pt : Bytes), DI g eg M (v + 34) kp env st s kws pt l tag2 →
    RunsTo g.prog (.loop (sivDecLoopBody g.pidx pk v)) env st (fun sig e' s' => sig = .normal ∧
      ∃ M', DI g eg M' (v + 34) kp e' s' (sivWordsS (g.P kws) pk s l) kws (pt ++ sivWordsC (g.P kws) pk s l) (absRest l) tag2)
  | b0 :: b1 :: b2 :: b3 :: rest, M, env, st, s, pt, di => by
    refine runs_loop_continue (Q := fun e' s' => ∃ M', DI g eg M' (v + 34) kp e' s' (g.P kws pk (addDomain s 0xD0)) kws
        (pt ++ store32 (load32 b0 b1 b2 b3 ^^^ (g.P kws pk (addDomain s 0xD0)).c)) rest tag2) (sivdec_iter eg hv pk hpk hkp b0 b1 b2 b3 rest di) ?_
    intro e s' ⟨M', di'⟩
    rw [sivWordsS, sivWordsC, absRest, ← List.append_assoc]
    exact sivdec_loop eg hv pk hpk hkp rest M' e s' _ _ di'
  | [], M, env, st, s, pt, di => runs_loop_break ((sivdec_exit eg pk di (by simp)).weaken fun _ _ _ ⟨h, a⟩ => ⟨h, rfl, M, by simpa [sivWordsS, sivWordsC, absRest] using a⟩)
  | [_], M, env, st, s, pt, di => runs_loop_break ((sivdec_exit eg pk di (by simp)).weaken fun _ _ _ ⟨h, a⟩ => ⟨h, rfl, M, by simpa [sivWordsS, sivWordsC, absRest] using a⟩)
  | [_, _], M, env, st, s, pt, di => runs_loop_break ((sivdec_exit eg pk di (by simp)).weaken fun _ _ _ ⟨h, a⟩ => ⟨h, rfl, M, by simpa [sivWordsS, sivWordsC, absRest] using a⟩)
  | [_, _, _], M, env, st, s, pt, di => runs_loop_break ((sivdec_exit eg pk di (by simp)).weaken fun _ _ _ ⟨h, a⟩ => ⟨h, rfl, M, by simpa [sivWordsS, sivWordsC, absRest] using a⟩)

/-- the second half of a SIV tail branch: `<out bytes>; c += k`, from the state after the permutation with the plaintext word `pw` in variable 12 -/
theorem sivdec_tail_finish {g : AGeo} (eg : EGeo g) {M : Array Block} {v : Nat} (hv : 17 ≤ v) {kp : List (Nat × Nat)} (hkp : KeepOk12 kp)
    {env : Env} {st : St} {s : W4} {kws : List UInt32} {pt rest tag2 : Bytes}
    (di : DI g eg M (v + 34) kp env st s kws pt rest tag2) (hrl : 0 < rest.length ∧ rest.length < 4)
    (pw : UInt32) (k : Nat) (hk : k = rest.length) (ts : List Nat) (tb : Bytes)
    (hts : ∀ t ∈ ts, v ≤ t ∧ t < v + 34) (htsl : ts.length = k)
    (htb : tb.length = k ∧ ∀ i c, tb[i]? = some c → c = byteOf pw.toNat i)
    (s1 : W4) (e2 : Env) (st2 : St) (ai2 : AI g M (v + 34) e2 st2 s1 kws 9)
    (pv2 : PubVars ([(0, mkPtr eg.bo (eg.baseo + (eg.oo + pt.length))), (2, mkPtr eg.bm (eg.basem + (eg.moff + pt.length))), (3, rest.length)] ++ kp) e2)
    (h112 : EnvHas e2 12 pw.toNat) :
    RunsTo g.prog (seqs (outBytes 0 12 0 ts ++ [.assign 2 (.bin .add .u64 (.var 2) (.lit k))])) e2 st2
      (fun sig e' s' => sig = .normal ∧ ∃ M', DF g eg M' (v + 34) kp e' s' s1 kws (pt ++ tb) tag2) := by
  obtain ⟨XM, hMm, hXMs, hdm⟩ := di.hm
  obtain ⟨XO, hMo, hXOs, hdo, hout⟩ := di.ho
  have room := di.room; have hlto := eg.hlto; have hltm := eg.hltm
  generalize hvs : [(0, mkPtr eg.bo (eg.baseo + (eg.oo + pt.length))), (2, mkPtr eg.bm (eg.basem + (eg.moff + pt.length))), (3, rest.length)] = vs at pv2
  have vs3 : ∀ xv ∈ vs, xv.1 ≤ 3 := by rw [← hvs]; exact pv3_le
  have vsk : ∀ xv ∈ vs ++ kp, xv.1 < 12 := fun xv hxv => by
    rcases List.mem_append.mp hxv with h | h
    · have := vs3 xv h; omega
    · have := hkp xv h; omega
  have vsn : ∀ t, 12 ≤ t → ∀ xv ∈ vs ++ kp, xv.1 ≠ t := fun t ht xv hxv => by have := vsk xv hxv; omega
  have p3 : ∀ {e : Env}, PubVars (vs ++ kp) e → e[0]? = some (mkPtr eg.bo (eg.baseo + (eg.oo + pt.length)), .pub) ∧
      e[2]? = some (mkPtr eg.bm (eg.basem + (eg.moff + pt.length)), .pub) := fun h => by
    have := (pubVars_append.mp h).1; rw [← hvs] at this; exact ⟨(pv3 this).1, (pv3 this).2.1⟩
  have ai4 := ai2; have pv4 := pv2; have h114 := h112
  generalize hsF : s1 = sF at ai4
  have hts0 : ts ≠ [] := by intro h; rw [h] at htsl; simp at htsl; omega
  refine runs_seqs_append (Q := fun e' s' => e'.size = v + 34 ∧ PubVars (vs ++ kp) e' ∧ ∃ XO', AI g (setBlock M eg.bo XO') (v + 34) e' s' sF kws 9 ∧ XO'.size = XO.size ∧
      (∀ i, i < ts.length → BV XO' (eg.oo + pt.length + 0 + i) (byteOf pw.toNat (0 + i))) ∧
      (∀ p, (p < eg.oo + pt.length + 0 ∨ eg.oo + pt.length + 0 + ts.length ≤ p) → XO'[p]? = XO[p]?)) _ (by simp) _
      (by cases ts with | nil => exact absurd rfl hts0 | cons a b => simp [outBytes]) _ _ ?_ ?_
  · refine (out_bytes eg.bo eg.baseo (eg.oo + pt.length) eg.hbo eg.hbo30 pw ts 0 M XO e2 st2 ai4 hMo (by rw [hXOs]; exact hlto)
      (by rw [hXOs, htsl, hk]; omega) (by rw [htsl, hk]; omega) (p3 pv4).1 h114
      (fun t ht => by have := hts t ht; exact ⟨by omega, by omega, by omega, by omega⟩) hts0).weaken ?_
    intro sig e' s' ⟨g1, g2, g3, g4⟩
    refine ⟨g1, g2, pv4.frame (fun xv hxv => g3 xv.1 (fun hm => ?_)), g4⟩
    have := hts xv.1 hm; have := vsk xv hxv; omega
  intro e5 st5 ⟨hsz5, pv5, XO', ai5, hXO's, hbv, hkeep⟩
  have h52 := (p3 pv5).2
  show RunsTo g.prog (.assign 2 (.bin .add .u64 (.var 2) (.lit k))) e5 st5 _
  have hmb : eg.moff + pt.length + rest.length ≤ XM.size := by have := hdm.1; rw [List.length_append] at this; omega
  refine runs_assign (mkPtr eg.bm (eg.basem + (eg.moff + pt.length) + k), .pub) (by
    simp only [evalE, h52, reduceCtorEq, if_false, BinOp.needsPub2, BinOp.needsPub1, Bool.false_and, Bool.or_self, Bool.false_eq_true, binVal, Ty.modulus,
      Lab.join_pub_pub, ptr_off eg.bm (eg.basem + (eg.moff + pt.length)) k eg.hbm30 (by rw [hk]; omega)]) ?_
  have fr6 : ∀ y, y ≠ 2 → (setVar e5 2 (mkPtr eg.bm (eg.basem + (eg.moff + pt.length) + k), Lab.pub))[y]? = e5[y]? := fun y hy => get_set_ne _ _ _ _ (fun e => hy e.symm)
  have hlen : (pt ++ tb).length = pt.length + k := by rw [List.length_append, htb.1]
  refine ⟨rfl, setBlock M eg.bo XO', ai5.frame (by rw [size_setVar]; exact hsz5) (fr6 9 (by decide)) rfl rfl, ?_, ?_, ?_, ?_, ?_, ?_⟩
  · rw [get_set_eq _ _ _ (by omega), hlen, Nat.add_assoc, Nat.add_assoc]
  · exact (pubVars_append.mp pv5).2.frame (fun xv hxv => fr6 xv.1 (by have := hkp xv hxv; omega))
  · obtain ⟨XM', g1, g2, g3⟩ := msg_after eg (q := pt.length) (n := k) hMm hMo hXO's hdm (by rw [List.length_append]; omega)
      (fun p hp => hkeep p (Or.inr (by rw [htsl]; omega)))
    refine ⟨XM', g1, by rw [g2]; exact hXMs, ?_⟩
    rw [hlen]
    have e : (rest ++ tag2).drop k = tag2 := by rw [hk]; simp
    rw [e] at g3; exact g3
  · refine ⟨XO', by rw [getElem?_setBlock', if_pos rfl, hMo]; rfl, by rw [hXO's]; exact hXOs, ?_, fun p hp => ?_⟩
    · refine bytesV_snoc hdo hXO's (by rw [htb.1, hXOs, hk]; omega) (fun p hp => hkeep p (Or.inl (by omega))) (fun i c hc => ?_)
      have hi : i < ts.length := by
        by_cases h : i < tb.length
        · rw [htsl, ← htb.1]; exact h
        · rw [List.getElem?_eq_none (by omega)] at hc; cases hc
      have := hbv i hi
      rw [Nat.add_zero, Nat.zero_add, ← htb.2 i c hc] at this
      exact this
    · rw [hlen] at hp
      rw [hkeep p (by rw [htsl]; omega), hout p (by omega)]
  · intro j hj
    rw [getElem?_setBlock', if_neg hj]; exact di.oth0 j hj
  · rw [hlen, hk]; omega



/-- **the 0–3 byte tail of the keystream pass of `tinyjambu_*_siv_decrypt`** -/
theorem sivdec_tail {g : AGeo} (eg : EGeo g) {M : Array Block} {v : Nat} (hv : 17 ≤ v) (pk : Nat) (hpk : pk < 256) {kp : List (Nat × Nat)} (hkp : KeepOk12 kp)
    {env : Env} {st : St} {s : W4} {kws : List UInt32} {pt rest tag2 : Bytes}
    (di : DI g eg M (v + 34) kp env st s kws pt rest tag2) (hl : rest.length < 4) :
    RunsTo g.prog (sivDecTail g.pidx pk v) env st (fun sig e' s' => sig = .normal ∧ ∃ M' sF,
      DF g eg M' (v + 34) kp e' s' sF kws (pt ++ sivBody (g.P kws) pk s rest) tag2) := by
  have cond : ∀ c, c < 256 → evalE env (.bin .eq .u64 (.var 3) (.cast .u64 .i32 (.lit c))) = .ok (b2n (rest.length = c), .pub) := by
    intro c hc
    simp only [evalE, di.e3, reduceCtorEq, if_false, castVal_u64_i32_lit c hc, BinOp.needsPub2, BinOp.needsPub1, Bool.false_and, Bool.or_self,
      Bool.false_eq_true, binVal, Lab.join_pub_pub]
  have dil : ∀ l, DI g eg M (v + 34) kp env { st with leak := l } s kws pt rest tag2 := fun l =>
    ⟨di.ai.frame di.ai.esz rfl rfl rfl, di.e0, di.e2, di.e3, di.keep, di.hm, di.ho, di.oth0, di.room⟩
  obtain ⟨XM, hMm, hXMs, hdm⟩ := di.hm
  let dg : DGeo g M := ⟨eg.bm, eg.basem, XM, eg.hbm, eg.hbm30, by rw [hXMs]; exact eg.hltm, hMm⟩
  have hdmb : BytesV XM (eg.moff + pt.length) rest := bytesV_prefix hdm
  have vs3 : ∀ xv ∈ dvs eg pt rest.length, xv.1 ≤ 3 := pv3_le
  have vsk : ∀ xv ∈ dvs eg pt rest.length ++ kp, xv.1 < 12 := fun xv hxv => by
    rcases List.mem_append.mp hxv with h | h
    · have := vs3 xv h; omega
    · have := hkp xv h; omega
  have vsn : ∀ t, 12 ≤ t → ∀ xv ∈ dvs eg pt rest.length ++ kp, xv.1 ≠ t :=
    fun t ht xv hxv => by have := vsk xv hxv; omega
  have pv0 : PubVars (dvs eg pt rest.length ++ kp) env :=
    pubVars_append.mpr ⟨pv3_mk di.e0 di.e2 di.e3, di.keep⟩
  have p2 : ∀ (e : Env), PubVars (dvs eg pt rest.length ++ kp) e →
      e[2]? = some (mkPtr eg.bm (eg.basem + (eg.moff + pt.length)), .pub) := fun _ h => (pv3 (pubVars_append.mp h).1).2.1
  have nl : ∀ (loads : List (Nat × Nat)), (∀ yo ∈ loads, 12 ≤ yo.1) → ∀ xv ∈ dvs eg pt rest.length ++ kp,
      xv.1 ∉ loads.map Prod.fst := by
    intro loads hl xv hxv hmem
    obtain ⟨yo, hyo, hy0⟩ := List.mem_map.mp hmem
    have := hl yo hyo; have := vsk xv hxv; omega
  generalize hs1 : g.P kws pk (addDomain s 0xD0) = s1
  unfold sivDecTail
  match rest, hl, di, cond, dil, hdm, hdmb, vs3, vsk, vsn, pv0, p2, nl with
  | [], _, di, cond, dil, hdm, hdmb, vs3, vsk, vsn, pv0, p2, nl =>
    obtain ⟨XO, hMo, hXOs, hdo, hout⟩ := di.ho
    refine runs_ite_false (by rw [cond 1 (by decide)]; rfl) (runs_ite_false (by rw [cond 2 (by decide)]; rfl) (runs_ite_false (by rw [cond 3 (by decide)]; rfl)
      (runs_skip ⟨rfl, M, s, (dil _).ai, by simpa [sivBody] using di.e2, di.keep, ⟨XM, hMm, hXMs, by simpa [sivBody] using hdm⟩,
        ⟨XO, hMo, hXOs, by simpa [sivBody] using hdo, by simpa [sivBody] using hout⟩, di.oth0, by simpa [sivBody] using di.room⟩)))
  | [b0], _, di, cond, dil, hdm, hdmb, vs3, vsk, vsn, pv0, p2, nl =>
    refine runs_ite_true 1 (by rw [cond 1 (by decide)]; rfl) (by decide) ?_
    simp only [seqs]
    refine xp_step (dil _).ai _ pv0 (v + 12) (v + 13) _ (rc pk) 0xD0 pk ⟨by omega, by omega⟩ ⟨by omega, by omega⟩ (by omega)
      (fun xv hxv => ⟨vsn _ (by omega) xv hxv, vsn _ (by omega) xv hxv⟩) (fun e' _ => evalD_small e' 208 (by decide)) (fun e' => evalE_rc e' pk (by omega)) (by omega) _ ?_
    intro e1 st1 ai1 pv1
    rw [hs1] at ai1
    refine runs_seq (Q := fun e' s' => AI g M (v + 34) e' s' s1 kws 9 ∧ PubVars (dvs eg pt 1 ++ kp) e' ∧ EnvHas e' 12 ((b0.toUInt32 ^^^ s1.c) &&& 0xFF).toNat) ?_ ?_
    · refine load_data_sq dg ai1 (eg.moff + pt.length) _ hdmb (p2 _ pv1) (v + 15) 12 [(v + 14, 0)] _ ((b0.toUInt32 ^^^ s1.c) &&& 0xFF)
        ⟨by omega, by omega, by omega, by simp only [List.map_cons, List.map_nil, List.mem_cons, List.mem_nil_iff, or_false]; omega⟩ ⟨by omega, by omega⟩ (by simp)
        (by intro yo hyo; simp only [List.mem_singleton] at hyo; rw [hyo]; simp <;> omega) (by simp) ?_ ?_
      · intro e' hh hx
        have hc := evalD_e8 (b0 := b0) (hh (v + 14, 0) (by simp))
        exact (hc.bitop (EvalD.var hx) .bxor .u32 (b0.toUInt32 ^^^ s1.c).toNat ⟨rfl, rfl⟩ (binVal_bxor_u32 _ s1.c)).bitop (EvalD.lit _ 255) .band .u32 _ ⟨rfl, rfl⟩
          (binVal_band_u32 _ 0xFF)
      · intro e' s' _ hfr h11 ai'
        exact ⟨rfl, ai', pv1.frame (fun xv hxv => hfr xv.1 (vsn _ (by omega) xv hxv) (vsn 12 (by omega) xv hxv)
          (nl _ (by intro yo hyo; simp only [List.mem_singleton] at hyo; rw [hyo]; simp <;> omega) xv hxv)), h11⟩
    intro e2 st2 ⟨ai2, pv2, h11⟩
    refine (sivdec_tail_finish eg hv hkp (dil st.leak) (by simp) ((b0.toUInt32 ^^^ s1.c) &&& 0xFF) 1 rfl [v + 16]
      [((b0.toUInt32 ^^^ s1.c) &&& 0xFF).toUInt8]
      (by intro t ht; simp only [List.mem_singleton] at ht; omega) rfl
      ⟨rfl, fun i c hc => by
        cases i with
        | zero => rw [List.getElem?_cons_zero] at hc; rw [← Option.some.inj hc]; exact (byteOf_store _).1.symm
        | succ i => simp at hc⟩ s1 e2 st2 ai2 pv2 h11).weaken ?_
    intro sig e' s' ⟨h1, M', df⟩
    refine ⟨h1, M', s1, ?_⟩
    have e : sivBody (g.P kws) pk s [b0] = [((b0.toUInt32 ^^^ s1.c) &&& 0xFF).toUInt8] := by
      rw [← hs1, mask8]; rfl
    rw [e]; exact df
  | [b0, b1], _, di, cond, dil, hdm, hdmb, vs3, vsk, vsn, pv0, p2, nl =>
    refine runs_ite_false (by rw [cond 1 (by decide)]; rfl) (runs_ite_true 1 (by rw [cond 2 (by decide)]; rfl) (by decide) ?_)
    simp only [seqs]
    refine xp_step (dil _).ai _ pv0 (v + 17) (v + 18) _ (rc pk) 0xD0 pk ⟨by omega, by omega⟩ ⟨by omega, by omega⟩ (by omega)
      (fun xv hxv => ⟨vsn _ (by omega) xv hxv, vsn _ (by omega) xv hxv⟩) (fun e' _ => evalD_small e' 208 (by decide)) (fun e' => evalE_rc e' pk (by omega)) (by omega) _ ?_
    intro e1 st1 ai1 pv1
    rw [hs1] at ai1
    refine runs_seq (Q := fun e' s' => AI g M (v + 34) e' s' s1 kws 9 ∧ PubVars (dvs eg pt 2 ++ kp) e' ∧ EnvHas e' 12 ((load16 b0 b1 ^^^ s1.c) &&& 0xFFFF).toNat) ?_ ?_
    · refine load_data_sq dg ai1 (eg.moff + pt.length) _ hdmb (p2 _ pv1) (v + 21) 12 [(v + 19, 1), (v + 20, 0)] _ ((load16 b0 b1 ^^^ s1.c) &&& 0xFFFF)
        ⟨by omega, by omega, by omega, by simp only [List.map_cons, List.map_nil, List.mem_cons, List.mem_nil_iff, or_false]; omega⟩ ⟨by omega, by omega⟩ (by simp)
        (by intro yo hyo; simp only [List.mem_cons, List.mem_nil_iff, or_false] at hyo; rcases hyo with h | h <;> rw [h] <;> simp <;> omega)
        (by simp only [List.map_cons, List.map_nil, List.nodup_cons, List.mem_cons, List.mem_nil_iff, or_false, not_false_eq_true, List.nodup_nil, and_true]; omega) ?_ ?_
      · intro e' hh hx
        have hc := evalD_e16 (b0 := b0) (b1 := b1) (hh (v + 19, 1) (by simp)) (hh (v + 20, 0) (by simp))
        exact (hc.bitop (EvalD.var hx) .bxor .u32 (load16 b0 b1 ^^^ s1.c).toNat ⟨rfl, rfl⟩ (binVal_bxor_u32 _ s1.c)).bitop (EvalD.lit _ 65535) .band .u32 _ ⟨rfl, rfl⟩
          (binVal_band_u32 _ 0xFFFF)
      · intro e' s' _ hfr h11 ai'
        exact ⟨rfl, ai', pv1.frame (fun xv hxv => hfr xv.1 (vsn _ (by omega) xv hxv) (vsn 12 (by omega) xv hxv)
          (nl _ (by intro yo hyo; simp only [List.mem_cons, List.mem_nil_iff, or_false] at hyo; rcases hyo with h | h <;> rw [h] <;> simp <;> omega) xv hxv)), h11⟩
    intro e2 st2 ⟨ai2, pv2, h11⟩
    refine (sivdec_tail_finish eg hv hkp (dil st.leak) (by simp) ((load16 b0 b1 ^^^ s1.c) &&& 0xFFFF) 2 rfl [v + 22, v + 23]
      [((load16 b0 b1 ^^^ s1.c) &&& 0xFFFF).toUInt8, (((load16 b0 b1 ^^^ s1.c) &&& 0xFFFF) >>> 8).toUInt8]
      (by intro t ht; simp only [List.mem_cons, List.mem_nil_iff, or_false] at ht; omega) rfl
      ⟨rfl, fun i c hc => by
        match i, hc with
        | 0, hc => rw [List.getElem?_cons_zero] at hc; rw [← Option.some.inj hc]; exact (byteOf_store _).1.symm
        | 1, hc => rw [List.getElem?_cons_succ, List.getElem?_cons_zero] at hc; rw [← Option.some.inj hc]; exact (byteOf_store _).2.1.symm
        | i + 2, hc => simp at hc⟩ s1 e2 st2 ai2 pv2 h11).weaken ?_
    intro sig e' s' ⟨h1, M', df⟩
    refine ⟨h1, M', s1, ?_⟩
    have e : sivBody (g.P kws) pk s [b0, b1] = [((load16 b0 b1 ^^^ s1.c) &&& 0xFFFF).toUInt8, (((load16 b0 b1 ^^^ s1.c) &&& 0xFFFF) >>> 8).toUInt8] := by
      rw [← hs1, mask16_0, mask16_1]; rfl
    rw [e]; exact df
  | [b0, b1, b2], _, di, cond, dil, hdm, hdmb, vs3, vsk, vsn, pv0, p2, nl =>
    refine runs_ite_false (by rw [cond 1 (by decide)]; rfl) (runs_ite_false (by rw [cond 2 (by decide)]; rfl) (runs_ite_true 1 (by rw [cond 3 (by decide)]; rfl) (by decide) ?_))
    simp only [seqs]
    refine xp_step (dil _).ai _ pv0 (v + 24) (v + 25) _ (rc pk) 0xD0 pk ⟨by omega, by omega⟩ ⟨by omega, by omega⟩ (by omega)
      (fun xv hxv => ⟨vsn _ (by omega) xv hxv, vsn _ (by omega) xv hxv⟩) (fun e' _ => evalD_small e' 208 (by decide)) (fun e' => evalE_rc e' pk (by omega)) (by omega) _ ?_
    intro e1 st1 ai1 pv1
    rw [hs1] at ai1
    refine runs_seq (Q := fun e' s' => AI g M (v + 34) e' s' s1 kws 9 ∧ PubVars (dvs eg pt 3 ++ kp) e' ∧ EnvHas e' 12 (load24 b0 b1 b2).toNat) ?_ ?_
    · refine load_data dg ai1 (eg.moff + pt.length) _ hdmb (p2 _ pv1) 12 [(v + 26, 1), (v + 27, 0), (v + 28, 2)] _ (load24 b0 b1 b2) ⟨by omega, by omega⟩ (by simp)
        (by intro yo hyo; simp only [List.mem_cons, List.mem_nil_iff, or_false] at hyo; rcases hyo with h | h | h <;> rw [h] <;> simp <;> omega)
        (by simp only [List.map_cons, List.map_nil, List.nodup_cons, List.mem_cons, List.mem_nil_iff, or_false, not_false_eq_true, List.nodup_nil, and_true]; omega)
        (fun e' hh => evalD_e24 (b0 := b0) (b1 := b1) (b2 := b2) (hh (v + 26, 1) (by simp)) (hh (v + 27, 0) (by simp)) (hh (v + 28, 2) (by simp))) ?_
      intro e' s' _ hfr h11 ai'
      exact ⟨rfl, ai', pv1.frame (fun xv hxv => hfr xv.1 (vsn 12 (by omega) xv hxv)
        (nl _ (by intro yo hyo; simp only [List.mem_cons, List.mem_nil_iff, or_false] at hyo; rcases hyo with h | h | h <;> rw [h] <;> simp <;> omega) xv hxv)), h11⟩
    intro e2 st2 ⟨ai2, pv2, h11⟩
    refine runs_seq (Q := fun e' s' => AI g M (v + 34) e' s' s1 kws 9 ∧ PubVars (dvs eg pt 3 ++ kp) e' ∧ EnvHas e' 12 ((load24 b0 b1 b2 ^^^ s1.c) &&& 0xFFFFFF).toNat) ?_ ?_
    · refine squeeze_xor_mask ai2 (v + 29) 12 (load24 b0 b1 b2) 0xFFFFFF ⟨by omega, by omega⟩ ⟨by omega, by omega⟩ (by omega) h11 ?_
      intro e' s' _ hfr h11' ai'
      exact ⟨rfl, ai', pv2.frame (fun xv hxv => hfr xv.1 (vsn _ (by omega) xv hxv) (vsn 12 (by omega) xv hxv)), h11'⟩
    intro e3 st3 ⟨ai3, pv3', h113⟩
    refine (sivdec_tail_finish eg hv hkp (dil st.leak) (by simp) ((load24 b0 b1 b2 ^^^ s1.c) &&& 0xFFFFFF) 3 rfl [v + 30, v + 31, v + 32]
      [((load24 b0 b1 b2 ^^^ s1.c) &&& 0xFFFFFF).toUInt8, (((load24 b0 b1 b2 ^^^ s1.c) &&& 0xFFFFFF) >>> 8).toUInt8, (((load24 b0 b1 b2 ^^^ s1.c) &&& 0xFFFFFF) >>> 16).toUInt8]
      (by intro t ht; simp only [List.mem_cons, List.mem_nil_iff, or_false] at ht; omega) rfl
      ⟨rfl, fun i c hc => by
        match i, hc with
        | 0, hc => rw [List.getElem?_cons_zero] at hc; rw [← Option.some.inj hc]; exact (byteOf_store _).1.symm
        | 1, hc => rw [List.getElem?_cons_succ, List.getElem?_cons_zero] at hc; rw [← Option.some.inj hc]; exact (byteOf_store _).2.1.symm
        | 2, hc => rw [List.getElem?_cons_succ, List.getElem?_cons_succ, List.getElem?_cons_zero] at hc; rw [← Option.some.inj hc]; exact (byteOf_store _).2.2.1.symm
        | i + 3, hc => simp at hc⟩ s1 e3 st3 ai3 pv3' h113).weaken ?_
    intro sig e' s' ⟨h1, M', df⟩
    refine ⟨h1, M', s1, ?_⟩
    have e : sivBody (g.P kws) pk s [b0, b1, b2] = [((load24 b0 b1 b2 ^^^ s1.c) &&& 0xFFFFFF).toUInt8, (((load24 b0 b1 b2 ^^^ s1.c) &&& 0xFFFFFF) >>> 8).toUInt8,
         (((load24 b0 b1 b2 ^^^ s1.c) &&& 0xFFFFFF) >>> 16).toUInt8] := by
      rw [← hs1, mask24_0, mask24_1, mask24_2]; rfl
    rw [e]; exact df


end TJ.MiniC.Hoare
