/-
  TJ.Proofs.HmacOneShot — tinyjambu_hmac_init, tinyjambu_hmac_update and the one-shot tinyjambu_hmac as calls on the regenerated program.
-/
import TJ.Proofs.HmacFinal
namespace TJ.MiniC.Hoare
open TJ TJ.MiniC TJ.MiniC.PermC TJ.Gen.MiniC

theorem prog_hmac_init : prog[idx_tinyjambu_hmac_init]? = some f_tinyjambu_hmac_init := by
  simp only [prog, idx_tinyjambu_hmac_init, List.getElem?_cons_succ, List.getElem?_cons_zero]
theorem prog_hmac_update : prog[idx_tinyjambu_hmac_update]? = some f_tinyjambu_hmac_update := by
  simp only [prog, idx_tinyjambu_hmac_update, List.getElem?_cons_succ, List.getElem?_cons_zero]
theorem prog_hmac : prog[idx_tinyjambu_hmac]? = some f_tinyjambu_hmac := by
  simp only [prog, idx_tinyjambu_hmac, List.getElem?_cons_succ, List.getElem?_cons_zero]

theorem extract_same {α} (m : Array α) (n : Nat) (h : m.size = n) : m.extract 0 n = m := by rw [← h]; exact extract_self m

/-- **`tinyjambu_hmac_init(state, key, keylen)` as a call** -/
theorem hmac_init_call (env : Env) (st : St) (es ek el : Expr) (bs bk : Nat) (X XK : Array LByte) (baseS basek koff : Nat) (h : HState) (key : Bytes)
    (hes : evalE env es = .ok (mkPtr bs baseS, .pub)) (hek : evalE env ek = .ok (mkPtr bk (basek + koff), .pub)) (hel : evalE env el = .ok (key.length, .pub))
    (hS : st.mem[bs]? = some ⟨X, baseS⟩) (hK : st.mem[bk]? = some ⟨XK, basek⟩) (hne : bk ≠ bs) (hXs : 52 ≤ X.size) (halS : baseS % 4 = 0)
    (hltS : baseS + X.size < ptrBase) (hltK : basek + XK.size < ptrBase) (hkd : BytesV XK koff key) (hsz : st.mem.size + 3 < 2 ^ 30) :
    RunsTo prog (.call none idx_tinyjambu_hmac_init [es, ek, el]) env st (fun sig e s => sig = .normal ∧ e = env ∧ s.ent = st.ent ∧ s.mem.size = st.mem.size ∧
      (∃ X', s.mem[bs]? = some ⟨X', baseS⟩ ∧ X'.size = X.size ∧ HObjV X' (hmacInit h key)) ∧ OthV bs s.mem st.mem) := by
  refine runs_call_none f_tinyjambu_hmac_init [(mkPtr bs baseS, .pub), (mkPtr bk (basek + koff), .pub), (key.length, .pub)] prog_hmac_init
    (by simp only [evalArgs, hes, hek, hel]) rfl ?_
  have hent : enterFun f_tinyjambu_hmac_init [(mkPtr bs baseS, .pub), (mkPtr bk (basek + koff), .pub), (key.length, .pub)] st.mem =
      (#[(mkPtr bs baseS, .pub), (mkPtr bk (basek + koff), .pub), (key.length, .pub)], st.mem) := rfl
  rw [hent]
  have hbody : f_tinyjambu_hmac_init.body = .call none idx_tinyjambu_hmac_set_key [.var 0, .var 1, .var 2, .cast .u8 .i32 (.lit 54)] := rfl
  rw [hbody]
  refine (set_key_call _ { st with mem := st.mem } (.var 0) (.var 1) (.var 2) (.cast .u8 .i32 (.lit 54)) bs bk X XK baseS basek koff h key 0x36 .pub (by decide)
    rfl rfl rfl (by simp only [evalE, castVal_u8_i32_small 54 (by decide)]; rfl) hS hK hne hXs halS hltS hltK hkd hsz).weaken ?_
  intro sig e s ⟨_, _, g3, g4, g5, g6⟩
  have : s.mem.extract 0 st.mem.size = s.mem := extract_same _ _ g4
  simp only [this]
  exact ⟨trivial, trivial, g3, g4, g5, g6⟩

/-- **`tinyjambu_hmac_update(state, in, inlen)` as a call** -/
theorem hmac_update_call (env : Env) (st : St) (es ei el : Expr) (bs bi : Nat) (X XI : Array LByte) (baseS basei off : Nat) (h : HState) (data : Bytes)
    (hes : evalE env es = .ok (mkPtr bs baseS, .pub)) (hei : evalE env ei = .ok (mkPtr bi (basei + off), .pub)) (hel : evalE env el = .ok (data.length, .pub))
    (hS : st.mem[bs]? = some ⟨X, baseS⟩) (hI : st.mem[bi]? = some ⟨XI, basei⟩) (hne : bi ≠ bs)
    (hrep : HObjV X h) (halS : baseS % 4 = 0) (hltS : baseS + X.size < ptrBase) (hltI : basei + XI.size < ptrBase)
    (hbs30 : bs < 2 ^ 30) (hbi30 : bi < 2 ^ 30) (hsz : st.mem.size + 2 < 2 ^ 30) (hd : BytesV XI off data) :
    RunsTo prog (.call none idx_tinyjambu_hmac_update [es, ei, el]) env st (fun sig e s => sig = .normal ∧ e = env ∧ s.ent = st.ent ∧ s.mem.size = st.mem.size ∧
      OthV bs s.mem st.mem ∧ ∃ X', s.mem[bs]? = some ⟨X', baseS⟩ ∧ X'.size = X.size ∧ HObjV X' (hmacUpdate h data)) := by
  refine runs_call_none f_tinyjambu_hmac_update [(mkPtr bs baseS, .pub), (mkPtr bi (basei + off), .pub), (data.length, .pub)] prog_hmac_update
    (by simp only [evalArgs, hes, hei, hel]) rfl ?_
  have hent : enterFun f_tinyjambu_hmac_update [(mkPtr bs baseS, .pub), (mkPtr bi (basei + off), .pub), (data.length, .pub)] st.mem =
      (#[(mkPtr bs baseS, .pub), (mkPtr bi (basei + off), .pub), (data.length, .pub)], st.mem) := rfl
  rw [hent]
  have hbody : f_tinyjambu_hmac_update.body = .call none idx_tinyjambu_hash_update [.var 0, .var 1, .var 2] := rfl
  rw [hbody]
  refine (update_callV prog idx_tinyjambu_hash_update prog_update prog_compress prog_p256 _ { st with mem := st.mem } (.var 0) (.var 1) (.var 2) bs bi X XI baseS basei off h data
    rfl rfl rfl hS hI hne hrep halS hltS hltI hbs30 hbi30 hsz (fun k b hk => by obtain ⟨l, hx, hl⟩ := hd.2 k b hk; exact ⟨l, hx, hl⟩) hd.1).weaken ?_
  intro sig e s ⟨_, _, g3, g4, g5, blk', g6, g7, g8, g9⟩
  have : s.mem.extract 0 st.mem.size = s.mem := extract_same _ _ g4
  simp only [this]
  exact ⟨trivial, trivial, g3, g4, g5, blk'.bytes, by rw [g6, ← g7], g8, g9⟩


/-- **the regenerated one-shot `tinyjambu_hmac(out, key, keylen, in, inlen)`**: the 32 bytes at `out` are the model's `hmac key data`; every other byte of
    memory keeps its value; the local state object is wiped and released. -/
theorem hmac_call (env : Env) (st : St) (eo ek ekl ei eil : Expr) (bo bk bi : Nat) (XO XK XI : Array LByte) (baseo oo basek koff basei ioff : Nat) (key data : Bytes)
    (heo : evalE env eo = .ok (mkPtr bo (baseo + oo), .pub)) (hek : evalE env ek = .ok (mkPtr bk (basek + koff), .pub)) (hekl : evalE env ekl = .ok (key.length, .pub))
    (hei : evalE env ei = .ok (mkPtr bi (basei + ioff), .pub)) (heil : evalE env eil = .ok (data.length, .pub))
    (hO : st.mem[bo]? = some ⟨XO, baseo⟩) (hK : st.mem[bk]? = some ⟨XK, basek⟩) (hI : st.mem[bi]? = some ⟨XI, basei⟩)
    (hltO : baseo + XO.size < ptrBase) (hltK : basek + XK.size < ptrBase) (hltI : basei + XI.size < ptrBase)
    (hkd : BytesV XK koff key) (hid : BytesV XI ioff data) (hin : oo + 32 ≤ XO.size) (hsz : st.mem.size + 8 < 2 ^ 30) :
    RunsTo prog (.call none idx_tinyjambu_hmac [eo, ek, ekl, ei, eil]) env st (fun sig e s => sig = .normal ∧ e = env ∧ s.ent = st.ent ∧ s.mem.size = st.mem.size ∧
      (∃ XO', s.mem[bo]? = some ⟨XO', baseo⟩ ∧ XO'.size = XO.size ∧ BytesV XO' oo (hmac key data) ∧ (∀ q, (q < oo ∨ oo + 32 ≤ q) → ORel VEq XO'[q]? XO[q]?)) ∧
      (∀ j, j ≠ bo → ORel BlockEqV s.mem[j]? st.mem[j]?)) := by
  have hboN := mem_lt hO; have hbkN := mem_lt hK; have hbiN := mem_lt hI
  let vs : List LVal := [(mkPtr bo (baseo + oo), .pub), (mkPtr bk (basek + koff), .pub), (key.length, .pub), (mkPtr bi (basei + ioff), .pub), (data.length, .pub)]
  refine runs_call_none f_tinyjambu_hmac vs prog_hmac (by simp only [evalArgs, heo, hek, hekl, hei, heil]; rfl) rfl ?_
  have hent : enterFun f_tinyjambu_hmac vs st.mem = (#[(mkPtr bo (baseo + oo), .pub), (mkPtr bk (basek + koff), .pub), (key.length, .pub), (mkPtr bi (basei + ioff), .pub),
      (data.length, .pub), (mkPtr st.mem.size 0, .pub)], st.mem.push ⟨Array.replicate 56 (0, .undef), 0⟩) := rfl
  rw [hent]
  generalize hE : (#[(mkPtr bo (baseo + oo), Lab.pub), (mkPtr bk (basek + koff), Lab.pub), (key.length, Lab.pub), (mkPtr bi (basei + ioff), Lab.pub), (data.length, Lab.pub),
    (mkPtr st.mem.size 0, Lab.pub)] : Env) = E
  have e_0 : E[0]? = some (mkPtr bo (baseo + oo), .pub) := by rw [← hE]; rfl
  have e_1 : E[1]? = some (mkPtr bk (basek + koff), .pub) := by rw [← hE]; rfl
  have e_2 : E[2]? = some (key.length, .pub) := by rw [← hE]; rfl
  have e_3 : E[3]? = some (mkPtr bi (basei + ioff), .pub) := by rw [← hE]; rfl
  have e_4 : E[4]? = some (data.length, .pub) := by rw [← hE]; rfl
  have e_5 : E[5]? = some (mkPtr st.mem.size (0 + 0), .pub) := by rw [← hE]; rfl
  generalize hm1 : st.mem.push ⟨Array.replicate 56 (0, .undef), 0⟩ = mem1
  have hm1lt : ∀ j, j < st.mem.size → mem1[j]? = st.mem[j]? := by
    intro j hj; rw [← hm1, Array.getElem?_push]; simp only [show ¬ j = st.mem.size from by omega, if_false]
  have hm1n : mem1[st.mem.size]? = some ⟨Array.replicate 56 (0, .undef), 0⟩ := by rw [← hm1, Array.getElem?_push]; simp
  have hm1sz : mem1.size = st.mem.size + 1 := by rw [← hm1, Array.size_push]
  have hbody : f_tinyjambu_hmac.body = seqs [.call none idx_tinyjambu_hmac_init [.var 5, .var 1, .var 2], .call none idx_tinyjambu_hmac_update [.var 5, .var 3, .var 4],
      .call none idx_tinyjambu_hmac_finalize [.var 5, .var 1, .var 2, .var 0], .call none idx_tinyjambu_clean [.var 5, .lit 56]] := rfl
  rw [hbody]
  simp only [seqs]
  have ev5 : evalE E (.var 5) = .ok (mkPtr st.mem.size 0, .pub) := by simp only [evalE, e_5, reduceCtorEq, if_false, Nat.add_zero]
  -- init
  refine runs_seq (Q := fun e s => e = E ∧ s.ent = st.ent ∧ s.mem.size = st.mem.size + 1 ∧
      (∃ X1, s.mem[st.mem.size]? = some ⟨X1, 0⟩ ∧ X1.size = 56 ∧ HObjV X1 (hmacInit HState.fresh key)) ∧ OthV st.mem.size s.mem mem1) ?_ ?_
  · refine (hmac_init_call E { st with mem := mem1 } (.var 5) (.var 1) (.var 2) st.mem.size bk (Array.replicate 56 (0, .undef)) XK 0 basek koff HState.fresh key
      ev5 (by simp only [evalE, e_1, reduceCtorEq, if_false]) (by simp only [evalE, e_2, reduceCtorEq, if_false]) hm1n (by show mem1[bk]? = _; rw [hm1lt bk hbkN]; exact hK)
      (by omega) (by simp) (by decide) (by simp [ptrBase]) hltK hkd (by show mem1.size + 3 < _; omega)).weaken ?_
    intro sig e s ⟨g1, g2, g3, g4, ⟨X1, g5, g6, g7⟩, g8⟩
    exact ⟨g1, g2, g3, by rw [g4]; exact hm1sz, ⟨X1, g5, by rw [g6]; simp, g7⟩, g8⟩
  intro e1 s1 ⟨he1, hent1, hsz1, ⟨X1, hX1, hX1s, ho1⟩, hoth1⟩
  rw [he1]
  have heq1 : ∀ j, j < st.mem.size → ORel BlockEqV s1.mem[j]? st.mem[j]? := fun j hj => by have := hoth1 j (by omega); rw [hm1lt j hj] at this; exact this
  obtain ⟨XI1, hI1, hI1s, hI1v⟩ := eqv_block (by have := heq1 bi hbiN; rw [hI] at this; exact this)
  -- update
  refine runs_seq (Q := fun e s => e = E ∧ s.ent = st.ent ∧ s.mem.size = st.mem.size + 1 ∧ OthV st.mem.size s.mem s1.mem ∧
      ∃ X2, s.mem[st.mem.size]? = some ⟨X2, 0⟩ ∧ X2.size = 56 ∧ HObjV X2 (hmacUpdate (hmacInit HState.fresh key) data)) ?_ ?_
  · refine (hmac_update_call E s1 (.var 5) (.var 3) (.var 4) st.mem.size bi X1 XI1 0 basei ioff (hmacInit HState.fresh key) data ev5
      (by simp only [evalE, e_3, reduceCtorEq, if_false]) (by simp only [evalE, e_4, reduceCtorEq, if_false]) hX1 hI1 (by omega) ho1 (by decide) (by rw [hX1s]; simp [ptrBase])
      (by rw [hI1s]; exact hltI) (by omega) (by omega) (by omega) (bytesV_of_veq hI1v hid)).weaken ?_
    intro sig e s ⟨g1, g2, g3, g4, g5, X2, g6, g7, g8⟩
    exact ⟨g1, g2, by rw [g3]; exact hent1, by rw [g4]; exact hsz1, g5, X2, g6, by rw [g7]; exact hX1s, g8⟩
  intro e2 s2 ⟨he2, hent2, hsz2, hoth2, X2, hX2, hX2s, ho2⟩
  rw [he2]
  have heq2 : ∀ j, j < st.mem.size → ORel BlockEqV s2.mem[j]? st.mem[j]? := fun j hj =>
    orel_trans (R := BlockEqV) (fun _ _ _ p q => BlockEqV.trans p q) (hoth2 j (by omega)) (heq1 j hj)
  obtain ⟨XK2, hK2, hK2s, hK2v⟩ := eqv_block (by have := heq2 bk hbkN; rw [hK] at this; exact this)
  obtain ⟨XO2, hO2, hO2s, hO2v⟩ := eqv_block (by have := heq2 bo hboN; rw [hO] at this; exact this)
  -- finalize
  refine runs_seq (Q := fun e s => e = E ∧ s.ent = st.ent ∧ s.mem.size = st.mem.size + 1 ∧
      (∃ X3, s.mem[st.mem.size]? = some ⟨X3, 0⟩ ∧ X3.size = 56) ∧
      (∃ XO3, s.mem[bo]? = some ⟨XO3, baseo⟩ ∧ XO3.size = XO.size ∧ BytesV XO3 oo (hmac key data) ∧ (∀ q, (q < oo ∨ oo + 32 ≤ q) → ORel VEq XO3[q]? XO2[q]?)) ∧
      (∀ j, j ≠ st.mem.size → j ≠ bo → ORel BlockEqV s.mem[j]? s2.mem[j]?)) ?_ ?_
  · refine (hmac_finalize_call E s2 (.var 5) (.var 1) (.var 2) (.var 0) st.mem.size bk bo X2 XK2 XO2 0 basek koff baseo oo (hmacUpdate (hmacInit HState.fresh key) data) key
      ev5 (by simp only [evalE, e_1, reduceCtorEq, if_false]) (by simp only [evalE, e_2, reduceCtorEq, if_false]) (by simp only [evalE, e_0, reduceCtorEq, if_false])
      hX2 hK2 hO2 (by omega) (by omega) ho2 (by decide) (by rw [hX2s]; simp [ptrBase]) (by rw [hK2s]; exact hltK) (by rw [hO2s]; exact hltO) (bytesV_of_veq hK2v hkd)
      (by rw [hO2s]; exact hin) (by omega)).weaken ?_
    intro sig e s ⟨g1, g2, g3, g4, ⟨X3, g5, g6, _⟩, ⟨XO3, g7, g8, g9, g10⟩, g11⟩
    exact ⟨g1, g2, by rw [g3]; exact hent2, by rw [g4]; exact hsz2, ⟨X3, g5, by rw [g6]; exact hX2s⟩, ⟨XO3, g7, by rw [g8]; exact hO2s, g9, g10⟩, g11⟩
  intro e3 s3 ⟨he3, hent3, hsz3, ⟨X3, hX3, hX3s⟩, ⟨XO3, hO3, hO3s, hO3d, hO3o⟩, hoth3⟩
  rw [he3]
  -- wipe the local state
  have hc := exec_call_clean 0 E s3 (.var 5) (.lit 56) (mkPtr st.mem.size 0) 56 st.mem.size 0 ev5 (by simp only [evalE])
    (by decide) (by decide) (by have := resolve_byte hX3 0 (by omega) (by simp [ptrBase]); simpa using this) (by rw [blockBytes_of hX3, hX3s]; decide)
  refine ⟨0 + 2, _, _, _, hc, ?_⟩
  have hlk : ∀ j, j < st.mem.size → ((setBlock s3.mem st.mem.size (writeBytes (blockBytes s3.mem st.mem.size) 0 (List.replicate 56 (0, Lab.pub)))).extract 0 st.mem.size)[j]? = s3.mem[j]? := by
    intro j hj
    rw [Array.getElem?_extract, size_setBlock', hsz3]
    have : j < min st.mem.size (st.mem.size + 1) - 0 := by omega
    simp only [this, if_true, Nat.zero_add]
    rw [getElem?_setBlock', if_neg (by omega)]
  have hexs : ((setBlock s3.mem st.mem.size (writeBytes (blockBytes s3.mem st.mem.size) 0 (List.replicate 56 (0, Lab.pub)))).extract 0 st.mem.size).size = st.mem.size := by
    rw [Array.size_extract, size_setBlock', hsz3]; omega
  refine ⟨trivial, trivial, hent3, hexs, ⟨XO3, by rw [hlk bo hboN]; exact hO3, hO3s, hO3d, fun q hq => ?_⟩, fun j hjo => ?_⟩
  · exact orel_trans (R := VEq) (fun _ _ _ p q => VEq.trans p q) (hO3o q hq) (hO2v q)
  · by_cases hjn : j < st.mem.size
    · rw [hlk j hjn]
      exact orel_trans (R := BlockEqV) (fun _ _ _ p q => BlockEqV.trans p q) (hoth3 j (by omega) hjo) (heq2 j hjn)
    · rw [Array.getElem?_eq_none (by rw [hexs]; omega), Array.getElem?_eq_none (by omega)]; trivial

end TJ.MiniC.Hoare
