/-
  TJ.Proofs.AeadDecCall — tinyjambu_{128,192,256}_aead_decrypt as a call, generic in the variant: the accepting/rejecting path for clen ≥ 8
  and the short-input path.
-/
import TJ.Proofs.AeadCheckTagV
namespace TJ.MiniC.Hoare
open TJ TJ.MiniC TJ.MiniC.PermC TJ.Gen.MiniC

theorem enter_env2 (vs : List LVal) (m : Nat) (x9 x10 : LVal) (hvs : vs.length = 8) (hm : 2 < m) :
    (setVar (setVar (vs ++ List.replicate m (0, Lab.undef)).toArray 9 x9) 10 x10).size = 8 + m ∧
    (∀ (i : Nat) (v : LVal), vs[i]? = some v → (setVar (setVar (vs ++ List.replicate m (0, Lab.undef)).toArray 9 x9) 10 x10)[i]? = some v) ∧
    (setVar (setVar (vs ++ List.replicate m (0, Lab.undef)).toArray 9 x9) 10 x10)[9]? = some x9 ∧
    (setVar (setVar (vs ++ List.replicate m (0, Lab.undef)).toArray 9 x9) 10 x10)[10]? = some x10 := by
  refine ⟨by simp [size_setVar, hvs], fun i v hv => ?_, ?_, ?_⟩
  · have hi : i < 8 := by
      by_cases h : i < 8
      · exact h
      · rw [List.getElem?_eq_none (by omega)] at hv; cases hv
    rw [get_set_ne _ _ _ _ (by omega), get_set_ne _ _ _ _ (by omega), List.getElem?_toArray, List.getElem?_append_left (by omega)]; exact hv
  · rw [get_set_ne _ _ _ _ (by decide)]; exact get_set_eq _ _ _ (by simp [hvs]; omega)
  · exact get_set_eq _ _ _ (by simp [size_setVar, hvs]; omega)

/-- `*mlen = clen - 8` -/
theorem mlen_store {prog : Program} {env : Env} {st : St} (bl basel ol : Nat) (XL : Array LByte) (n : Nat)
    (h1 : env[1]? = some (mkPtr bl (basel + ol), .pub)) (h3 : env[3]? = some (n, .pub)) (hm : st.mem[bl]? = some ⟨XL, basel⟩)
    (hin : ol + 8 ≤ XL.size) (hal : (basel + ol) % 8 = 0) (hlt : basel + XL.size < ptrBase) (hn8 : 8 ≤ n) (hn : n < 18446744073709551616) (hsz : 12 < env.size)
    {Q : Sig → Env → St → Prop}
    (hQ : Q .normal (setVar env 12 (mkPtr bl (basel + ol), .pub))
      { st with leak := .wr (mkPtr bl (basel + ol)) 8 :: st.leak, mem := setBlock st.mem bl (writeLE XL ol (n - 8) .pub 8) }) :
    RunsTo prog mlenStmt env st Q := by
  unfold mlenStmt
  simp only [seqs]
  refine runs_seq (Q := fun e s' => e = setVar env 12 (mkPtr bl (basel + ol), .pub) ∧ s' = st)
    (runs_assign _ (by simp only [evalE, h1, reduceCtorEq, if_false]) ⟨rfl, rfl, rfl⟩) ?_
  intro e1 s1 ⟨he1, hs1⟩; rw [he1, hs1]
  refine runs_store (mkPtr bl (basel + ol)) (n - 8) bl ol 8 .pub rfl (by simp only [evalE, get_set_eq _ _ _ hsz, reduceCtorEq, if_false])
    (by simp only [evalE, get_set_ne _ _ _ _ (show ¬ 12 = 3 from by decide), h3, reduceCtorEq, if_false, castVal_u64_i32_lit 8 (by decide), BinOp.needsPub2,
      BinOp.needsPub1, Bool.false_and, Bool.or_self, Bool.false_eq_true, binVal, Ty.modulus, Lab.join_pub_pub, sub64 n 8 hn8 hn (by decide)])
    (resolve_mkPtr st.mem bl ol 8 ⟨XL, basel⟩ hm hin (show basel + ol < ptrBase from by omega) (fun _ => hal)) ?_
  rw [blockBytes_of hm]
  exact hQ

/-- reading back the 64-bit length stored earlier, through a memory whose labels may have been lowered -/
theorem read_back64 {Y XL : Array LByte} (ol n : Nat) (hin : ol + 8 ≤ XL.size) (hn : n < 18446744073709551616) (hle : BytesLe Y (writeLE XL ol n .pub 8)) :
    readLE Y ol 8 = some (n, .pub) := by
  have h1 := readLE_writeLE .pub (by decide) 8 XL ol n hin
  obtain ⟨W, hW⟩ : ∃ W, W = writeLE XL ol n .pub 8 := ⟨_, rfl⟩
  rw [← hW] at hle h1
  have h2 := readLE_le hle ol 8
  rw [h1] at h2
  obtain ⟨v1, hv1, hle1⟩ := h2
  rw [hv1]
  obtain ⟨a, l⟩ := v1
  have e1 : a = n % 256 ^ 8 := hle1.1
  have e2 : Lab.le l (labN .pub 8) := hle1.2
  have e3 : labN Lab.pub 8 = Lab.pub := by decide
  rw [e3] at e2
  rw [e1, Lab.le_pub e2, Nat.mod_eq_of_lt (by omega)]


/-- **`r = tinyjambu_{128,192,256}_aead_decrypt(m, mlen, c, clen, ad, adlen, npub, k)` as a call**, for `clen ≥ 8`: `*mlen = clen - 8`; with
    `tag` the model's tag over the candidate plaintext, `r` is 0 when `tag` equals the received tag and -1 otherwise, and the `clen - 8`
    bytes at `m` are the plaintext in the first case and zero in the second; every other byte of memory keeps its value; both local
    objects are released.  The ciphertext may lie in the output buffer at the same address (in-place use). -/
theorem decrypt_call {prog : Program} {nk pidx pk sidx aidx gidx cidx : Nat} {P : List UInt32 → Nat → W4 → W4} (ep : EncProg prog nk pidx pk sidx aidx gidx P)
    (hct : prog[cidx]? = some f_tinyjambu_aead_check_tag)
    (fn : Nat) (fd : FunDecl) (hprog : prog[fn]? = some fd) (hbody : fd.body = decStmt nk pidx pk sidx aidx gidx cidx) (hp : fd.nparams = 8)
    (hv : fd.nvars = 13 + 5 * nk + 49) (ha : fd.allocs = [(9, 16 + 4 * nk), (10, 8)])
    (env : Env) (st : St) (x : Nat) (hx : x < env.size) (em el ec ecl ea eal en ek : Expr)
    (bo baseo oo : Nat) (XO : Array LByte) (bl basel ol : Nat) (XL : Array LByte) (bc basec coff : Nat) (XC : Array LByte) (ba basea aoff : Nat) (XA : Array LByte)
    (bn basen noff : Nat) (XN : Array LByte) (bk basek koff : Nat) (XK : Array LByte) (body tag2 ad nonce key : Bytes)
    (hem : evalE env em = .ok (mkPtr bo (baseo + oo), .pub)) (hel : evalE env el = .ok (mkPtr bl (basel + ol), .pub))
    (hec : evalE env ec = .ok (mkPtr bc (basec + coff), .pub)) (hecl : evalE env ecl = .ok (body.length + 8, .pub))
    (hea : evalE env ea = .ok (mkPtr ba (basea + aoff), .pub)) (heal : evalE env eal = .ok (ad.length, .pub))
    (hen : evalE env en = .ok (mkPtr bn (basen + noff), .pub)) (hek : evalE env ek = .ok (mkPtr bk (basek + koff), .pub))
    (hO : st.mem[bo]? = some ⟨XO, baseo⟩) (hltO : baseo + XO.size < ptrBase) (hroom : oo + body.length ≤ XO.size)
    (hL : st.mem[bl]? = some ⟨XL, basel⟩) (hltL : basel + XL.size < ptrBase) (hinL : ol + 8 ≤ XL.size) (halL : (basel + ol) % 8 = 0)
    (bC : Buf st.mem bc basec coff XC (body ++ tag2)) (bA : Buf st.mem ba basea aoff XA ad) (bN : Buf st.mem bn basen noff XN nonce) (bK : Buf st.mem bk basek koff XK key)
    (htl : tag2.length = 8) (hnl : nonce.length = 12) (hkl : key.length = 4 * nk)
    (hsep : bl ≠ bo ∧ bl ≠ bc ∧ bl ≠ ba ∧ bl ≠ bn ∧ bl ≠ bk) (hdisj : bc ≠ bo ∨ (bc = bo ∧ coff = oo)) (hsz : st.mem.size + 2 < 2 ^ 30) (hnk : nk ≤ 64) :
    RunsTo prog (.call (some x) fn [em, el, ec, ecl, ea, eal, en, ek]) env st (fun sig e s' => sig = .normal ∧
      (∃ l, l ≠ Lab.undef ∧ e = setVar env x
        (if genTag (P (keyWords nk key)) pk (decBody (P (keyWords nk key)) pk (absorbData (P (keyWords nk key)) 0x30 5 (setup (P (keyWords nk key)) pk nonce 0x10) ad) body).1 = tag2
          then 0 else 4294967295, l)) ∧
      s'.ent = st.ent ∧ s'.mem.size = st.mem.size ∧
      (∃ blkO, s'.mem[bo]? = some blkO ∧ blkO.base = baseo ∧ blkO.bytes.size = XO.size ∧
        BytesV blkO.bytes oo ((decBody (P (keyWords nk key)) pk (absorbData (P (keyWords nk key)) 0x30 5 (setup (P (keyWords nk key)) pk nonce 0x10) ad) body).2.map fun p =>
          if genTag (P (keyWords nk key)) pk (decBody (P (keyWords nk key)) pk (absorbData (P (keyWords nk key)) 0x30 5 (setup (P (keyWords nk key)) pk nonce 0x10) ad) body).1 = tag2
            then p else 0) ∧
        (∀ p, (p < oo ∨ oo + body.length ≤ p) → ORel VEq blkO.bytes[p]? XO[p]?)) ∧
      ORel BlockEqV s'.mem[bl]? (some ⟨writeLE XL ol body.length .pub 8, basel⟩) ∧
      (∀ j, j ≠ bo → j ≠ bl → ORel BlockEqV s'.mem[j]? st.mem[j]?)) := by
  obtain ⟨fdS, hS1, hS2, hS3, hS4, hS5⟩ := ep.setup
  obtain ⟨fdA, hA1, hA2, hA3, hA4, hA5⟩ := ep.absorb
  obtain ⟨fdG, hG1, hG2, hG3, hG4, hG5⟩ := ep.gentag
  have hpk := ep.hpk
  have hboN := mem_lt hO; have hblN := mem_lt hL
  have hbcN := bC.lt; have hbaN := bA.lt; have hbnN := bN.lt; have hbkN := bK.lt
  have hclen : body.length + 8 < 18446744073709551616 := by have := bC.hd.1; have := bC.hlt; simp only [ptrBase, List.length_append] at *; omega
  generalize hkws : keyWords nk key = kws
  have hklen : kws.length = nk := by rw [← hkws]; exact keyWords_length nk key
  have hk : ∀ i, i < nk → kws[i]? = some (~~~ loadAt key (4 * i)) := fun i hi => by rw [← hkws]; exact keyWords_get nk key i hi
  let vs : List LVal := [(mkPtr bo (baseo + oo), .pub), (mkPtr bl (basel + ol), .pub), (mkPtr bc (basec + coff), .pub), (body.length + 8, .pub),
    (mkPtr ba (basea + aoff), .pub), (ad.length, .pub), (mkPtr bn (basen + noff), .pub), (mkPtr bk (basek + koff), .pub)]
  refine runs_call_some fd vs hprog (by simp only [evalArgs, hem, hel, hec, hecl, hea, heal, hen, hek]; rfl) (by rw [hp]; rfl) ?_
  have hent : enterFun fd vs st.mem = (setVar (setVar (vs ++ List.replicate (13 + 5 * nk + 49 - 8) (0, Lab.undef)).toArray 9 (mkPtr st.mem.size 0, .pub)) 10
        (mkPtr (st.mem.size + 1) 0, .pub),
      (st.mem.push { bytes := Array.replicate (16 + 4 * nk) (0, .undef), base := 0 }).push { bytes := Array.replicate 8 (0, .undef), base := 0 }) := by
    simp only [enterFun, ha, allocLocals, hp, hv, Array.size_push]
  rw [hbody, hent]
  obtain ⟨hE0s, hE0v, hE09, hE010⟩ := enter_env2 vs (13 + 5 * nk + 49 - 8) (mkPtr st.mem.size 0, .pub) (mkPtr (st.mem.size + 1) 0, .pub) rfl (by omega)
  generalize hE0 : setVar (setVar (vs ++ List.replicate (13 + 5 * nk + 49 - 8) (0, Lab.undef)).toArray 9 (mkPtr st.mem.size 0, .pub)) 10
    (mkPtr (st.mem.size + 1) 0, .pub) = E0 at hE0s hE0v hE09 hE010
  have e0_0 : E0[0]? = some (mkPtr bo (baseo + oo), .pub) := hE0v 0 _ rfl
  have e0_1 : E0[1]? = some (mkPtr bl (basel + ol), .pub) := hE0v 1 _ rfl
  have e0_2 : E0[2]? = some (mkPtr bc (basec + coff), .pub) := hE0v 2 _ rfl
  have e0_3 : E0[3]? = some (body.length + 8, .pub) := hE0v 3 _ rfl
  have e0_4 : E0[4]? = some (mkPtr ba (basea + aoff), .pub) := hE0v 4 _ rfl
  have e0_5 : E0[5]? = some (ad.length, .pub) := hE0v 5 _ rfl
  have e0_6 : E0[6]? = some (mkPtr bn (basen + noff), .pub) := hE0v 6 _ rfl
  have e0_7 : E0[7]? = some (mkPtr bk (basek + koff), .pub) := hE0v 7 _ rfl
  have hE0sz : E0.size = 13 + 5 * nk + 49 := by rw [hE0s]; omega
  generalize hmem1 : (st.mem.push { bytes := Array.replicate (16 + 4 * nk) (0, .undef), base := 0 }).push { bytes := Array.replicate 8 (0, .undef), base := 0 } = mem1
  have hm1lt : ∀ j, j < st.mem.size → mem1[j]? = st.mem[j]? := by
    intro j hj; rw [← hmem1, Array.getElem?_push, Array.getElem?_push]; simp only [Array.size_push, show ¬ j = st.mem.size + 1 from by omega, show ¬ j = st.mem.size from by omega, if_false]
  have hm1n : mem1[st.mem.size]? = some ⟨Array.replicate (16 + 4 * nk) (0, .undef), 0⟩ := by
    rw [← hmem1, Array.getElem?_push, Array.getElem?_push]; simp
  have hm1t : mem1[st.mem.size + 1]? = some ⟨Array.replicate 8 (0, .undef), 0⟩ := by
    rw [← hmem1, Array.getElem?_push]; simp
  have hm1sz : mem1.size = st.mem.size + 2 := by rw [← hmem1]; simp
  unfold decStmt
  -- saved = m; clen ≥ 8; *mlen = clen - 8
  rw [seqs_cons_ne _ _ (by simp)]
  generalize hEa : setVar E0 8 (mkPtr bo (baseo + oo), Lab.pub) = Ea
  refine runs_seq (Q := fun e s => e = Ea ∧ s = { st with mem := mem1 }) (runs_assign _ (by simp only [evalE, e0_0, reduceCtorEq, if_false]) ⟨rfl, hEa, rfl⟩) ?_
  intro ea sa ⟨hea', hsa⟩; rw [hea', hsa]
  have eafr : ∀ y, y ≠ 8 → Ea[y]? = E0[y]? := fun y hy => by rw [← hEa]; exact get_set_ne _ _ _ _ (fun e => hy e.symm)
  have ea_8 : Ea[8]? = some (mkPtr bo (baseo + oo), .pub) := by rw [← hEa]; exact get_set_eq _ _ _ (by omega)
  have hEasz : Ea.size = 13 + 5 * nk + 49 := by rw [← hEa, size_setVar]; exact hE0sz
  rw [seqs_cons_ne _ _ (by simp)]
  refine runs_seq (Q := fun e s => e = Ea ∧ s = { st with mem := mem1, leak := Ev.br false :: st.leak }) ?_ ?_
  · refine runs_ite_false ?_ (runs_skip ⟨rfl, rfl, rfl⟩)
    have : ¬ body.length + 8 < 8 := by omega
    simp only [evalE, eafr 3 (by decide), e0_3, reduceCtorEq, if_false, castVal_u64_i32_lit 8 (by decide), BinOp.needsPub2, BinOp.needsPub1, Bool.false_and, Bool.or_self,
      Bool.false_eq_true, binVal, Ty.signed, this, decide_false, b2n, Lab.join_pub_pub]
  intro eb sb ⟨heb, hsb⟩; rw [heb, hsb]
  rw [seqs_cons_ne _ _ (by simp)]
  generalize hE1 : setVar Ea 12 (mkPtr bl (basel + ol), Lab.pub) = E1
  generalize hM0 : setBlock mem1 bl (writeLE XL ol (body.length + 8 - 8) .pub 8) = M0
  refine runs_seq (Q := fun e s => e = E1 ∧ s.mem = M0 ∧ s.ent = st.ent) (mlen_store bl basel ol XL (body.length + 8) (by rw [eafr 1 (by decide)]; exact e0_1)
    (by rw [eafr 3 (by decide)]; exact e0_3) (by show mem1[bl]? = _; rw [hm1lt bl hblN]; exact hL) hinL halL hltL (by omega) hclen (by omega) ⟨rfl, hE1, hM0, rfl⟩) ?_
  intro e1 st1 ⟨he1, hst1m, hst1e⟩
  rw [he1]
  have hM0lt : ∀ j, j ≠ bl → j < st.mem.size → M0[j]? = st.mem[j]? := by
    intro j hj hjn; rw [← hM0, getElem?_setBlock', if_neg hj]; exact hm1lt j hjn
  have hM0n : M0[st.mem.size]? = some ⟨Array.replicate (16 + 4 * nk) (0, .undef), 0⟩ := by rw [← hM0, getElem?_setBlock', if_neg (by omega)]; exact hm1n
  have hM0t : M0[st.mem.size + 1]? = some ⟨Array.replicate 8 (0, .undef), 0⟩ := by rw [← hM0, getElem?_setBlock', if_neg (by omega)]; exact hm1t
  have hM0l : M0[bl]? = some ⟨writeLE XL ol body.length .pub 8, basel⟩ := by
    rw [← hM0, getElem?_setBlock', if_pos rfl, hm1lt bl hblN, hL]; simp
  have hM0sz : M0.size = st.mem.size + 2 := by rw [← hM0, size_setBlock']; exact hm1sz
  have e1fr : ∀ y, y ≠ 12 → y ≠ 8 → E1[y]? = E0[y]? := fun y hy hy8 => by rw [← hE1, get_set_ne _ _ _ _ (fun e => hy e.symm)]; exact eafr y hy8
  have e1_8 : E1[8]? = some (mkPtr bo (baseo + oo), .pub) := by rw [← hE1, get_set_ne _ _ _ _ (by decide)]; exact ea_8
  have hE1sz : E1.size = 13 + 5 * nk + 49 := by rw [← hE1, size_setVar]; exact hEasz
  let g : AGeo := ⟨prog, pidx, nk, P, ep.hspec, st.mem.size, 0, st.ent, rfl, by simp only [ptrBase]; omega, by omega⟩
  have ki0 : KI g M0 (13 + 5 * nk + 49) kws E1 13 0 E1 st1 :=
    ⟨hE1sz, fun _ _ => rfl, ⟨_, by rw [hst1m]; exact hM0n, by show (Array.replicate (16 + 4 * nk) ((0 : UInt8), Lab.undef)).size = 16 + 4 * nk; simp,
      fun i v hi _ => absurd hi (by omega)⟩, by rw [hst1m]; exact OthLe.refl _ _, by rw [hst1m], hst1e⟩
  let dgK : DGeo g M0 := ⟨bk, basek, XK, by show bk ≠ st.mem.size; omega, by omega, bK.hlt, by rw [hM0lt bk (fun e => hsep.2.2.2.2 e.symm) hbkN]; exact bK.hm⟩
  let dgN : DGeo g M0 := ⟨bn, basen, XN, by show bn ≠ st.mem.size; omega, by omega, bN.hlt, by rw [hM0lt bn (fun e => hsep.2.2.2.1 e.symm) hbnN]; exact bN.hm⟩
  let dgA : DGeo g M0 := ⟨ba, basea, XA, by show ba ≠ st.mem.size; omega, by omega, bA.hlt, by rw [hM0lt ba (fun e => hsep.2.2.1 e.symm) hbaN]; exact bA.hm⟩
  refine key_words (g := g) dgK koff key bK.hd hkl hk (sv := 9) (t0 := 13) (by decide) (by decide) (by rw [e1fr 9 (by decide) (by decide)]; exact hE09)
    (by rw [e1fr 7 (by decide) (by decide)]; exact e0_7) (by show 13 + 5 * nk ≤ _; omega) _ (by simp) nk 0 (by show 0 + nk = nk; omega) E1 st1 ki0 ?_
  intro e2 st2 ki
  have hE2sz := ki.esz
  have e2fr : ∀ y, y < 12 → y ≠ 8 → e2[y]? = E0[y]? := fun y hy hy8 => by rw [ki.fr y (by omega), e1fr y (by omega) hy8]
  have e2_8 : e2[8]? = some (mkPtr bo (baseo + oo), .pub) := by rw [ki.fr 8 (by decide)]; exact e1_8
  have e2_9 : e2[9]? = some (mkPtr st.mem.size 0, .pub) := by rw [e2fr 9 (by decide) (by decide)]; exact hE09
  have e2_10 : e2[10]? = some (mkPtr (st.mem.size + 1) 0, .pub) := by rw [e2fr 10 (by decide) (by decide)]; exact hE010
  have mk : MK g M0 st2 kws := by
    obtain ⟨X, h1, h2, h3⟩ := ki.obj
    refine ⟨hklen, ⟨X, h1, h2, fun i v hv => h3 i v ?_ hv⟩, ki.oth, ki.msz, ki.ent⟩
    by_cases hi : i < nk
    · exact hi
    · rw [List.getElem?_eq_none (by omega)] at hv; cases hv
  simp only [seqs]
  have hes9 : evalE e2 (.var 9) = .ok (mkPtr g.bs g.baseS, .pub) := by
    show _ = Except.ok (mkPtr st.mem.size 0, Lab.pub); simp only [evalE, e2_9, reduceCtorEq, if_false]
  -- setup and associated data
  refine runs_seq (Q := fun e s => e = e2 ∧ MI g M0 s (setup (P kws) pk nonce 0x10) kws) ?_ ?_
  · refine (setup_call g dgN pk hpk sidx fdS hS1 hS2 hS3 hS4 hS5 e2 st2 (.var 9) (.var 6) (.cast .u8 .i32 (.lit 16)) kws noff nonce 0x10 mk
      hes9 (by show _ = Except.ok (mkPtr bn (basen + noff), Lab.pub); simp only [evalE, e2fr 6 (by decide) (by decide), e0_6, reduceCtorEq, if_false]) rfl bN.hd hnl).weaken ?_
    intro sig e s ⟨h1, h2, h3⟩
    exact ⟨h1, h2, h3⟩
  intro e3 st3 ⟨he3, mi3⟩
  rw [he3]
  refine runs_seq (Q := fun e s => e = e2 ∧ MI g M0 s (absorbData (P kws) 0x30 5 (setup (P kws) pk nonce 0x10) ad) kws) ?_ ?_
  · refine (absorb_call g dgA aidx fdA hA1 hA2 hA3 hA4 hA5 e2 st3 (.var 9) (.var 4) (.var 5) (.cast .u8 .i32 (.lit 48)) (.cast .u32 .i32 (.lit 5)) _ kws aoff ad 0x30 5 mi3
      hes9 (by show _ = Except.ok (mkPtr ba (basea + aoff), Lab.pub); simp only [evalE, e2fr 4 (by decide) (by decide), e0_4, reduceCtorEq, if_false])
      (by simp only [evalE, e2fr 5 (by decide) (by decide), e0_5, reduceCtorEq, if_false]) rfl rfl bA.hd (by decide)).weaken ?_
    intro sig e s ⟨h1, h2, h3⟩
    exact ⟨h1, h2, h3⟩
  intro e4 st4 ⟨he4, mi4⟩
  rw [he4]
  generalize hs0 : absorbData (P kws) 0x30 5 (setup (P kws) pk nonce 0x10) ad = s0 at mi4
  -- clen -= 8
  generalize hE5 : setVar e2 3 (body.length, Lab.pub) = E5
  refine runs_seq (Q := fun e s => e = E5 ∧ s = st4) (runs_assign (body.length, .pub) (by
    simp only [evalE, e2fr 3 (by decide) (by decide), e0_3, reduceCtorEq, if_false, castVal_u64_i32_lit 8 (by decide), BinOp.needsPub2,
      BinOp.needsPub1, Bool.false_and, Bool.or_self, Bool.false_eq_true, binVal, Ty.modulus, Lab.join_pub_pub, sub64 (body.length + 8) 8 (by omega) hclen (by decide)]
    simp) ⟨rfl, hE5, rfl⟩) ?_
  intro e5 st5 ⟨he5, hst5⟩; rw [he5, hst5]
  have e5fr : ∀ y, y ≠ 3 → E5[y]? = e2[y]? := fun y hy => by rw [← hE5]; exact get_set_ne _ _ _ _ (fun e => hy e.symm)
  have e5_3 : E5[3]? = some (body.length, .pub) := by rw [← hE5]; exact get_set_eq _ _ _ (by omega)
  have hE5sz : E5.size = 13 + 5 * nk + 49 := by rw [← hE5, size_setVar]; exact hE2sz
  -- the ciphertext body
  let eg : EGeo g := ⟨bo, baseo, oo, XO.size, bc, basec, coff, XC.size, by show bo ≠ st.mem.size; omega, by show bc ≠ st.mem.size; omega, by omega, by omega, hltO, bC.hlt, hdisj, XO, M0⟩
  have hM0o : M0[bo]? = some ⟨XO, baseo⟩ := by rw [hM0lt bo (fun e => hsep.1 e.symm) hboN]; exact hO
  have hM0c : M0[bc]? = some ⟨XC, basec⟩ := by rw [hM0lt bc (fun e => hsep.2.1 e.symm) hbcN]; exact bC.hm
  let kp : List (Nat × Nat) := [(1, mkPtr bl (basel + ol)), (8, mkPtr bo (baseo + oo)), (10, mkPtr (st.mem.size + 1) 0)]
  have hkp : KeepOk kp := by
    intro xv hxv
    simp only [kp, List.mem_cons, List.mem_nil_iff, or_false] at hxv
    rcases hxv with h | h | h <;> rw [h] <;> simp
  have kp5 : PubVars kp E5 := by
    intro xv hxv
    simp only [kp, List.mem_cons, List.mem_nil_iff, or_false] at hxv
    rcases hxv with h | h | h <;> rw [h]
    · rw [e5fr 1 (by decide), e2fr 1 (by decide) (by decide)]; exact e0_1
    · rw [e5fr 8 (by decide)]; exact e2_8
    · rw [e5fr 10 (by decide)]; exact e2_10
  have kpget : ∀ {e : Env}, PubVars kp e → e[1]? = some (mkPtr bl (basel + ol), .pub) ∧ e[8]? = some (mkPtr bo (baseo + oo), .pub) ∧
      e[10]? = some (mkPtr (st.mem.size + 1) 0, .pub) := fun h =>
    ⟨h (1, _) List.mem_cons_self, h (8, _) (List.mem_cons_of_mem _ List.mem_cons_self), h (10, _) (List.mem_cons_of_mem _ (List.mem_cons_of_mem _ List.mem_cons_self))⟩
  have di0 : DI g eg M0 (13 + 5 * nk + 49) kp E5 st4 s0 kws [] body tag2 :=
    ⟨⟨hE5sz, by rw [e5fr 9 (by decide)]; exact e2_9, mi4.klen, mi4.obj, mi4.oth, mi4.msz, mi4.ent⟩, by rw [e5fr 0 (by decide), e2fr 0 (by decide) (by decide)]; exact e0_0,
     by rw [e5fr 2 (by decide), e2fr 2 (by decide) (by decide)]; exact e0_2, e5_3, kp5, ⟨XC, hM0c, rfl, by simpa using bC.hd⟩,
     ⟨XO, hM0o, rfl, ⟨by show oo + 0 ≤ XO.size; omega, fun k b hk => by simp at hk⟩, fun _ _ => rfl⟩, fun _ _ => rfl, by show oo + 0 + body.length ≤ XO.size; omega⟩
  refine runs_seq (Q := fun e s => ∃ M1, DI g eg M1 (13 + 5 * nk + 49) kp e s (decWordsS (P kws) pk s0 body) kws ([] ++ decWordsC (P kws) pk s0 body) (absRest body) tag2)
    (dec_loop eg (by omega) pk hpk hkp body M0 E5 st4 s0 [] di0) ?_
  intro e6 st6 ⟨M1, di6⟩
  rw [List.nil_append] at di6
  refine runs_seq (Q := fun e s => ∃ M2, DF g eg M2 (13 + 5 * nk + 49) kp e s (decBody (P kws) pk (decWordsS (P kws) pk s0 body) (absRest body)).1 kws
      (decWordsC (P kws) pk s0 body ++ (decBody (P kws) pk (decWordsS (P kws) pk s0 body) (absRest body)).2) tag2) (dec_tail eg (by omega) pk hpk hkp di6 (absRest_lt body)) ?_
  intro e7 st7 ⟨M2, df⟩
  have hsplit := decBody_split (P kws) pk s0 body
  generalize hsF : (decBody (P kws) pk (decWordsS (P kws) pk s0 body) (absRest body)).1 = sF at df hsplit
  generalize hpt : decWordsC (P kws) pk s0 body ++ (decBody (P kws) pk (decWordsS (P kws) pk s0 body) (absRest body)).2 = pt at df hsplit
  have hptl : pt.length = body.length := by
    have h1 := decBody_length (P kws) pk s0 body
    rw [hsplit] at h1; exact h1
  obtain ⟨XO2, hM2o, hXO2s, hdo2, hout2⟩ := df.ho
  obtain ⟨XC2, hM2c, hXC2s, hdc2⟩ := df.hm
  have hoth2 : ∀ j, j ≠ bo → M2[j]? = M0[j]? := df.oth0
  have hM2t : M2[st.mem.size + 1]? = some ⟨Array.replicate 8 (0, .undef), 0⟩ := by rw [hoth2 _ (by omega)]; exact hM0t
  have hkp7 := kpget df.keep
  have h79 : e7[9]? = some (mkPtr st.mem.size 0, .pub) := df.ai.e0
  have h72 : e7[2]? = some (mkPtr bc (basec + (coff + pt.length)), .pub) := df.e2
  -- the tag
  refine runs_seq (Q := fun e s => e = e7 ∧ ∃ XT, MI g (setBlock M2 (st.mem.size + 1) XT) s
      (P kws 5 (addDomain (P kws pk (addDomain sF 0x70)) 0x70)) kws ∧ XT.size = 8 ∧ BytesV XT 0 (genTag (P kws) pk sF)) ?_ ?_
  · refine (gentag_call g pk hpk gidx fdG hG1 hG2 hG3 hG4 hG5 e7 st7 (.var 9) (.var 10) sF kws (st.mem.size + 1) 0 0 (Array.replicate 8 (0, .undef))
      (by show st.mem.size + 1 ≠ st.mem.size; omega) (by omega) hM2t (by simp [ptrBase]) (by simp) ⟨df.ai.klen, df.ai.obj, df.ai.oth, df.ai.msz, df.ai.ent⟩
      (by show _ = Except.ok (mkPtr st.mem.size 0, Lab.pub); simp only [evalE, h79, reduceCtorEq, if_false])
      (by simp only [evalE, hkp7.2.2, reduceCtorEq, if_false])).weaken ?_
    intro sig e s ⟨h1, h2, XT, h3, h4, h5, _⟩
    exact ⟨h1, h2, XT, h3, by rw [h4]; simp, h5⟩
  intro e8 st8 ⟨he8, XT, mi8, hXTs, htag⟩
  rw [he8]
  generalize htagv : genTag (P kws) pk sF = tag at htag
  have htagl : tag.length = 8 := by rw [← htagv]; simp [genTag, store32]
  -- mlen back, the comparison, the result
  have hoth8 : ∀ j, j ≠ st.mem.size → ORel BlockLe st8.mem[j]? (setBlock M2 (st.mem.size + 1) XT)[j]? := mi8.oth
  have hM3 : ∀ j, j ≠ st.mem.size + 1 → (setBlock M2 (st.mem.size + 1) XT)[j]? = M2[j]? := fun j hj => by rw [getElem?_setBlock', if_neg hj]
  have hM3t : (setBlock M2 (st.mem.size + 1) XT)[st.mem.size + 1]? = some ⟨XT, 0⟩ := by rw [getElem?_setBlock', if_pos rfl, hM2t]; rfl
  obtain ⟨W, hW⟩ : ∃ W, W = writeLE XL ol body.length .pub 8 := ⟨_, rfl⟩
  have hWs : W.size = XL.size := by rw [hW, size_writeLE]
  have hM0l' : M0[bl]? = some ⟨W, basel⟩ := by rw [hW]; exact hM0l
  obtain ⟨XLa, hLa, hLas, _⟩ := oth_data (bs := st.mem.size) (mem := st8.mem) (M := setBlock M2 (st.mem.size + 1) XT) hoth8 bl (by omega)
    W basel 0 [] (by rw [hM3 bl (by omega), hoth2 bl hsep.1]; exact hM0l') ⟨by simp, fun k b hk => by simp at hk⟩
  have hLale : BytesLe XLa W := by
    have := hoth8 bl (by omega)
    rw [hLa, hM3 bl (by omega), hoth2 bl hsep.1, hM0l'] at this
    exact this.2
  refine runs_seq (Q := fun e s => e = setVar e7 (13 + 5 * nk + 47) (body.length, .pub) ∧ s.mem = st8.mem ∧ s.ent = st8.ent) ?_ ?_
  · refine runs_load (mkPtr bl (basel + ol)) bl ol 8 (body.length, .pub) rfl (by simp only [evalE, hkp7.1, reduceCtorEq, if_false])
      (resolve_mkPtr st8.mem bl ol 8 ⟨XLa, basel⟩ hLa (by show ol + 8 ≤ XLa.size; rw [hLas, hWs]; exact hinL) (show basel + ol < ptrBase from by omega) (fun _ => halL))
      (by rw [blockBytes_of hLa]; exact read_back64 ol body.length hinL (by omega) (hW ▸ hLale)) ⟨rfl, rfl, rfl, rfl⟩
  intro e9 st9 ⟨he9, hm9, hent9⟩
  rw [he9]
  have fr9 : ∀ y, y ≠ 13 + 5 * nk + 47 → (setVar e7 (13 + 5 * nk + 47) (body.length, Lab.pub))[y]? = e7[y]? := fun y hy => get_set_ne _ _ _ _ (fun e => hy e.symm)
  have hsz9 : (setVar e7 (13 + 5 * nk + 47) (body.length, Lab.pub)).size = 13 + 5 * nk + 49 := by rw [size_setVar]; exact df.ai.esz
  obtain ⟨XPa, hPa, hPas, hPad⟩ := oth_data (bs := st.mem.size) (mem := st8.mem) (M := setBlock M2 (st.mem.size + 1) XT) hoth8 bo (by omega) XO2 baseo oo pt
    (by rw [hM3 bo (by omega)]; exact hM2o) hdo2
  obtain ⟨XTa, hTa, hTas, hTad⟩ := oth_data (bs := st.mem.size) (mem := st8.mem) (M := setBlock M2 (st.mem.size + 1) XT) hoth8 (st.mem.size + 1) (by omega) XT 0 0 tag hM3t htag
  obtain ⟨XCa, hCa, hCas, hCad⟩ := oth_data (bs := st.mem.size) (mem := st8.mem) (M := setBlock M2 (st.mem.size + 1) XT) hoth8 bc (by omega) XC2 basec (coff + pt.length) tag2
    (by rw [hM3 bc (by omega)]; exact hM2c) hdc2
  have hmsz8 : st8.mem.size = st.mem.size + 2 := by
    rw [mi8.msz, size_setBlock']
    have h1 := hoth2 (st.mem.size + 1) (by omega)
    have h2 := hoth2 (st.mem.size + 2) (by omega)
    rw [hM0t] at h1
    rw [Array.getElem?_eq_none (show M0.size ≤ st.mem.size + 2 by omega)] at h2
    have a : st.mem.size + 1 < M2.size := mem_lt h1
    have b : M2.size ≤ st.mem.size + 2 := by
      by_cases h : M2.size ≤ st.mem.size + 2
      · exact h
      · rw [Array.getElem?_eq_getElem (show st.mem.size + 2 < M2.size by omega)] at h2; cases h2
    omega
  refine runs_seq (Q := fun e s => ∃ l, l ≠ Lab.undef ∧ e[13 + 5 * nk + 48]? = some (if tag = tag2 then 0 else 4294967295, l) ∧ s.ent = st.ent ∧ s.mem.size = st.mem.size + 2 ∧
      (∃ blk', s.mem[bo]? = some blk' ∧ blk'.base = baseo ∧ blk'.bytes.size = XPa.size ∧ BytesV blk'.bytes oo (pt.map fun p => if tag = tag2 then p else 0) ∧
        (∀ q, (q < oo ∨ oo + pt.length ≤ q) → ORel VEq blk'.bytes[q]? XPa[q]?)) ∧
      (∀ j, j ≠ bo → ORel BlockEqV s.mem[j]? st8.mem[j]?)) ?_ ?_
  · refine (check_tag_callV prog cidx hct _ st9 (13 + 5 * nk + 48) (by rw [hsz9]; omega) (.var 8) (.var (13 + 5 * nk + 47)) (.var 10) (.var 2) (.cast .u64 .i32 (.lit 8))
      pt tag tag2 (by rw [htagl, htl]) bo oo (st.mem.size + 1) 0 bc (coff + pt.length) XPa XTa XCa baseo 0 basec (by rw [hm9]; exact hPa) (by rw [hm9]; exact hTa) (by rw [hm9]; exact hCa)
      hPad hTad hCad (by rw [hPas, hXO2s]; exact hltO) (by rw [hTas, hXTs]; simp [ptrBase]) (by rw [hCas, hXC2s]; exact bC.hlt) (by rw [hm9, hmsz8]; omega)
      (by simp only [evalE, fr9 8 (by omega), hkp7.2.1, reduceCtorEq, if_false])
      (by simp only [evalE, get_set_eq _ _ _ (show 13 + 5 * nk + 47 < e7.size from by rw [df.ai.esz]; omega), reduceCtorEq, if_false, hptl])
      (by simp only [evalE, fr9 10 (by omega), hkp7.2.2, reduceCtorEq, if_false, Nat.add_zero])
      (by show _ = Except.ok (mkPtr bc (basec + (coff + pt.length)), Lab.pub); simp only [evalE, fr9 2 (by omega), h72, reduceCtorEq, if_false])
      (by simp only [evalE, castVal_u64_i32_lit 8 (by decide), htagl])).weaken ?_
    intro sig e s ⟨h1, ⟨l, hl, he⟩, h3, h4, h5, h6⟩
    refine ⟨h1, l, hl, by rw [he]; exact get_set_eq _ _ _ (by rw [hsz9]; omega), by rw [h3, hent9, mi8.ent], by rw [h4, hm9, hmsz8], h5, fun j hj => by rw [← hm9]; exact h6 j hj⟩
  intro e10 st10 ⟨l, hl, he10, hent10, hmsz10, ⟨blkO, hbO, hbOb, hbOs, hbOd, hbOo⟩, hoth10⟩
  refine runs_ret_some (if tag = tag2 then 0 else 4294967295, l) (by simp only [evalE, he10, hl, if_false]) ?_
  -- back in the caller
  have hlk : ∀ j, j < st.mem.size → (st10.mem.extract 0 st.mem.size)[j]? = st10.mem[j]? := by
    intro j hj
    rw [Array.getElem?_extract, hmsz10]
    have : j < min st.mem.size (st.mem.size + 2) - 0 := by omega
    simp only [this, if_true, Nat.zero_add]
  have hexs : (st10.mem.extract 0 st.mem.size).size = st.mem.size := by rw [Array.size_extract, hmsz10]; omega
  have hout2' : ∀ p, p < oo ∨ oo + pt.length ≤ p → XO2[p]? = XO[p]? := hout2
  have hPale : BytesLe XPa XO2 := by
    have := hoth8 bo (by omega)
    rw [hPa, hM3 bo (by omega), hM2o] at this
    exact this.2
  have hdec : decBody (P kws) pk s0 body = (sF, pt) := hsplit
  refine ⟨_, rfl, trivial, ⟨l, hl, ?_⟩, hent10, hexs, ⟨blkO, by show (st10.mem.extract 0 st.mem.size)[bo]? = _; rw [hlk bo hboN]; exact hbO, hbOb, by rw [hbOs, hPas, hXO2s], ?_, fun q hq => ?_⟩, ?_, fun j hjo hjl => ?_⟩
  · rw [hdec, htagv]
  · rw [hdec, htagv]; exact hbOd
  · rw [← hptl] at hq
    have h1 := hbOo q hq
    have h2 : ORel VEq XPa[q]? XO2[q]? := orel_map (R := VLe) (S := VEq) (fun _ _ h => VLe.toVEq h) (hPale q)
    rw [hout2' q hq] at h2
    exact orel_trans (R := VEq) (fun _ _ _ p q => VEq.trans p q) h1 h2
  · show ORel BlockEqV (st10.mem.extract 0 st.mem.size)[bl]? _
    rw [hlk bl hblN]
    have h1 := hoth10 bl (fun e => hsep.1 e)
    rw [← hW]
    have h2 : ORel BlockLe st8.mem[bl]? (some ⟨W, basel⟩) := by
      have := hoth8 bl (by omega)
      rw [hM3 bl (by omega), hoth2 bl hsep.1, hM0l'] at this; exact this
    exact orel_trans (R := BlockEqV) (fun _ _ _ p q => BlockEqV.trans p q) h1 (orel_map (R := BlockLe) (S := BlockEqV) (fun _ _ h => BlockLe.toEqV h) h2)
  · show ORel BlockEqV (st10.mem.extract 0 st.mem.size)[j]? st.mem[j]?
    by_cases hjn : j < st.mem.size
    · rw [hlk j hjn]
      have h1 := hoth10 j hjo
      have h2 : ORel BlockLe st8.mem[j]? st.mem[j]? := by
        have := hoth8 j (by omega)
        rw [hM3 j (by omega), hoth2 j hjo, hM0lt j hjl hjn] at this; exact this
      exact orel_trans (R := BlockEqV) (fun _ _ _ p q => BlockEqV.trans p q) h1 (orel_map (R := BlockLe) (S := BlockEqV) (fun _ _ h => BlockLe.toEqV h) h2)
    · rw [Array.getElem?_eq_none (by rw [hexs]; omega), Array.getElem?_eq_none (by omega)]
      trivial


theorem extract_push2 {α} (m : Array α) (a b : α) : ((m.push a).push b).extract 0 m.size = m := by
  apply Array.ext_getElem?
  intro i
  rw [Array.getElem?_extract]
  by_cases hi : i < m.size
  · have : i < min m.size ((m.push a).push b).size - 0 := by simp; omega
    simp only [this, if_true, Nat.zero_add]
    rw [Array.getElem?_push, Array.getElem?_push]
    simp only [Array.size_push, show ¬ i = m.size + 1 from by omega, show ¬ i = m.size from by omega, if_false]
  · have : ¬ i < min m.size ((m.push a).push b).size - 0 := by simp; omega
    simp only [this, if_false]
    rw [Array.getElem?_eq_none (by omega)]

/-- **`tinyjambu_*_aead_decrypt` with `clen < 8`**: the result is -1 and memory is untouched (nothing is written, not even `*mlen`). -/
theorem decrypt_call_short {prog : Program} {nk pidx pk sidx aidx gidx cidx : Nat}
    (fn : Nat) (fd : FunDecl) (hprog : prog[fn]? = some fd) (hbody : fd.body = decStmt nk pidx pk sidx aidx gidx cidx) (hp : fd.nparams = 8)
    (hv : fd.nvars = 13 + 5 * nk + 49) (ha : fd.allocs = [(9, 16 + 4 * nk), (10, 8)])
    (env : Env) (st : St) (x : Nat) (args : List Expr) (vs : List LVal) (hargs : evalArgs env args = .ok vs) (hlen : vs.length = 8)
    (p0 : Nat) (l0 : Lab) (hl0 : l0 ≠ Lab.undef) (h0 : vs[0]? = some (p0, l0)) (clen : Nat) (h3 : vs[3]? = some (clen, .pub)) (hclen : clen < 8) :
    RunsTo prog (.call (some x) fn args) env st (fun sig e s' => sig = .normal ∧ e = setVar env x (4294967295, .pub) ∧ s'.mem = st.mem ∧ s'.ent = st.ent) := by
  refine runs_call_some fd vs hprog hargs (by rw [hp]; exact hlen) ?_
  have hent : enterFun fd vs st.mem = (setVar (setVar (vs ++ List.replicate (13 + 5 * nk + 49 - 8) (0, Lab.undef)).toArray 9 (mkPtr st.mem.size 0, .pub)) 10
        (mkPtr (st.mem.size + 1) 0, .pub),
      (st.mem.push { bytes := Array.replicate (16 + 4 * nk) (0, .undef), base := 0 }).push { bytes := Array.replicate 8 (0, .undef), base := 0 }) := by
    simp only [enterFun, ha, allocLocals, hp, hv, Array.size_push]
  rw [hbody, hent]
  obtain ⟨hE0s, hE0v, _, _⟩ := enter_env2 vs (13 + 5 * nk + 49 - 8) (mkPtr st.mem.size 0, .pub) (mkPtr (st.mem.size + 1) 0, .pub) hlen (by omega)
  generalize setVar (setVar (vs ++ List.replicate (13 + 5 * nk + 49 - 8) (0, Lab.undef)).toArray 9 (mkPtr st.mem.size 0, .pub)) 10
    (mkPtr (st.mem.size + 1) 0, .pub) = E0 at hE0s hE0v
  generalize hmem1 : (st.mem.push { bytes := Array.replicate (16 + 4 * nk) (0, .undef), base := 0 }).push { bytes := Array.replicate 8 (0, .undef), base := 0 } = mem1
  unfold decStmt
  rw [seqs_cons_ne _ _ (by simp)]
  refine runs_seq (Q := fun e s => e = setVar E0 8 (p0, l0) ∧ s = { st with mem := mem1 }) (runs_assign _ (by simp only [evalE, hE0v 0 _ h0, hl0, if_false]) ⟨rfl, rfl, rfl⟩) ?_
  intro ea sa ⟨hea, hsa⟩; rw [hea, hsa]
  rw [seqs_cons_ne _ _ (by simp)]
  refine runs_seq_abort ?_
  refine runs_ite_true 1 ?_ (by decide) (runs_ret_some (4294967295, .pub) rfl ⟨by simp, _, rfl, rfl, rfl, ?_, rfl⟩)
  · simp only [evalE, get_set_ne _ _ _ _ (show ¬ 8 = 3 from by decide), hE0v 3 _ h3, reduceCtorEq, if_false, castVal_u64_i32_lit 8 (by decide), BinOp.needsPub2, BinOp.needsPub1,
      Bool.false_and, Bool.or_self, Bool.false_eq_true, binVal, Ty.signed, hclen, decide_true, b2n, if_true, Lab.join_pub_pub]
  · show mem1.extract 0 st.mem.size = st.mem; rw [← hmem1]; exact extract_push2 _ _ _

end TJ.MiniC.Hoare
