import TJ.Proofs.AeadSetup
namespace TJ.MiniC.Hoare
open TJ TJ.MiniC TJ.MiniC.PermC TJ.Gen.MiniC

theorem gentagBody_unfold (pidx pk : Nat) : gentagBody pidx pk =
    .seq (xorPub 1 2 3 (rc 112)) (.seq (.call none pidx [.var 0, rc pk]) (.seq (tagWord 4 5 0 6 7 8 9)
      (.seq (xorPub 1 10 11 (rc 112)) (.seq (.call none pidx [.var 0, rc 5]) (tagWord 12 13 4 14 15 16 17))))) := rfl

theorem bytesV_of_words (X : Array LByte) (off : Nat) (a b : UInt32) (hs : off + 8 ≤ X.size)
    (h1 : ∀ j, j < 4 → BV X (off + 0 + j) (byteOf a.toNat j)) (h2 : ∀ j, j < 4 → BV X (off + 4 + j) (byteOf b.toNat j)) :
    BytesV X off (store32 a ++ store32 b) := by
  refine ⟨by simp [store32]; omega, fun k c hk => ?_⟩
  rw [store32_bytes, store32_bytes] at hk
  have hk8 : k < 8 := by
    by_cases h : k < 8
    · exact h
    · rw [List.getElem?_eq_none (by simp; omega)] at hk; cases hk
  match k, hk8, hk with
  | 0, _, hk => have e : c = byteOf a.toNat 0 := by simpa using hk.symm
                rw [e]; simpa using h1 0 (by decide)
  | 1, _, hk => have e : c = byteOf a.toNat 1 := by simpa using hk.symm
                rw [e]; simpa using h1 1 (by decide)
  | 2, _, hk => have e : c = byteOf a.toNat 2 := by simpa using hk.symm
                rw [e]; simpa using h1 2 (by decide)
  | 3, _, hk => have e : c = byteOf a.toNat 3 := by simpa using hk.symm
                rw [e]; simpa using h1 3 (by decide)
  | 4, _, hk => have e : c = byteOf b.toNat 0 := by simpa using hk.symm
                rw [e]; simpa using h2 0 (by decide)
  | 5, _, hk => have e : c = byteOf b.toNat 1 := by simpa using hk.symm
                rw [e]; have := h2 1 (by decide); rw [show off + 4 + 1 = off + 5 from rfl] at this; exact this
  | 6, _, hk => have e : c = byteOf b.toNat 2 := by simpa using hk.symm
                rw [e]; have := h2 2 (by decide); rw [show off + 4 + 2 = off + 6 from rfl] at this; exact this
  | 7, _, hk => have e : c = byteOf b.toNat 3 := by simpa using hk.symm
                rw [e]; have := h2 3 (by decide); rw [show off + 4 + 3 = off + 7 from rfl] at this; exact this

/-- **the body of `tinyjambu_generate_tag_*`** -/
theorem gentag_body (g : AGeo) {M : Array Block} (pk : Nat) (hpk : pk < 256) (env : Env) (st : St) (s : W4) (kws : List UInt32)
    (bo baseo oo : Nat) (XO : Array LByte) (hne : bo ≠ g.bs) (hbo30 : bo < 2 ^ 30) (hMo : M[bo]? = some ⟨XO, baseo⟩) (hlt : baseo + XO.size < ptrBase)
    (hq : oo + 8 ≤ XO.size) (ai : AI g M 18 env st s kws) (he1 : env[1]? = some (mkPtr bo (baseo + oo), .pub)) :
    RunsTo g.prog (gentagBody g.pidx pk) env st (fun sig e' s' => sig = .normal ∧
      ∃ XO', AI g (setBlock M bo XO') 18 e' s' (g.P kws 5 (addDomain (g.P kws pk (addDomain s 0x70)) 0x70)) kws ∧ XO'.size = XO.size ∧
        BytesV XO' oo (genTag (g.P kws) pk s) ∧ (∀ p, (p < oo ∨ oo + 8 ≤ p) → XO'[p]? = XO[p]?)) := by
  rw [gentagBody_unfold]
  let vs : List (Nat × Nat) := [(1, mkPtr bo (baseo + oo))]
  have pv0 : PubVars vs env := fun xv hxv => by simp only [vs, List.mem_singleton] at hxv; rw [hxv]; exact he1
  have h112 : ∀ e' : Env, PubVars vs e' → EvalD e' (rc 112) (0x70 : UInt32).toNat := fun e' _ => by
    have := evalD_small e' 112 (by decide)
    exact this
  refine xp_step ai vs pv0 2 3 _ (rc pk) 0x70 pk (by decide) (by decide) (by decide) (by intro xv hxv; simp only [vs, List.mem_singleton] at hxv; rw [hxv]; simp)
    h112 (fun e' => evalE_rc e' pk (by omega)) (by omega) _ ?_
  intro e1 s1 ai1 pv1
  refine runs_seq (Q := fun e' s' => e'.size = 18 ∧ e'[1]? = some (mkPtr bo (baseo + oo), .pub) ∧
      ∃ XO1, AI g (setBlock M bo XO1) 18 e' s' (g.P kws pk (addDomain s 0x70)) kws ∧ XO1.size = XO.size ∧
        (∀ j, j < 4 → BV XO1 (oo + 0 + j) (byteOf (g.P kws pk (addDomain s 0x70)).c.toNat j)) ∧ (∀ p, (p < oo + 0 ∨ oo + 0 + 4 ≤ p) → XO1[p]? = XO[p]?)) ?_ ?_
  · refine (tag_word ai1 bo baseo oo 0 XO hne hbo30 hMo hlt (by omega) (pv1 (1, mkPtr bo (baseo + oo)) (List.mem_singleton.mpr rfl)) 4 5 6 7 8 9 (by decide) (by decide)).weaken ?_
    intro sig e' s' ⟨h1, h2, h3, h4⟩
    exact ⟨h1, h2, by rw [h3]; exact pv1 (1, mkPtr bo (baseo + oo)) (List.mem_singleton.mpr rfl), h4⟩
  · intro e2 s2 ⟨hs2, he2, XO1, ai2, z1, hb1, hout1⟩
    have hM1 : (setBlock M bo XO1)[bo]? = some ⟨XO1, baseo⟩ := by rw [getElem?_setBlock', if_pos rfl, hMo]; rfl
    have pv2 : PubVars vs e2 := fun xv hxv => by simp only [vs, List.mem_singleton] at hxv; rw [hxv]; exact he2
    refine xp_step ai2 vs pv2 10 11 _ (rc 5) 0x70 5 (by decide) (by decide) (by decide) (by intro xv hxv; simp only [vs, List.mem_singleton] at hxv; rw [hxv]; simp)
      h112 (fun e' => evalE_rc e' 5 (by decide)) (by decide) _ ?_
    intro e3 s3 ai3 pv3
    refine (tag_word ai3 bo baseo oo 4 XO1 hne hbo30 hM1 (by rw [z1]; exact hlt) (by rw [z1]; omega) (pv3 (1, mkPtr bo (baseo + oo)) (List.mem_singleton.mpr rfl)) 12 13 14 15 16 17 (by decide) (by decide)).weaken ?_
    intro sig e' s' ⟨h1, _, _, XO2, ai4, z2, hb2, hout2⟩
    rw [setBlock_setBlock M bo _ _ ⟨XO, baseo⟩ hMo] at ai4
    refine ⟨h1, XO2, ai4, by rw [z2, z1], ?_, fun p hp => ?_⟩
    · unfold genTag squeeze
      refine bytesV_of_words XO2 oo _ _ (by rw [z2, z1]; exact hq) (fun j hj => ?_) hb2
      obtain ⟨l, hx, hl⟩ := hb1 j hj
      exact ⟨l, by rw [hout2 _ (by omega)]; exact hx, hl⟩
    · rw [hout2 p (by omega), hout1 p (by omega)]

/-- **`tinyjambu_generate_tag_*(state, tag)` as a call** -/
theorem gentag_call (g : AGeo) {M : Array Block} (pk : Nat) (hpk : pk < 256) (fn : Nat) (fd : FunDecl) (hprog : g.prog[fn]? = some fd)
    (hbody : fd.body = gentagBody g.pidx pk) (hp : fd.nparams = 2) (hv : fd.nvars = 18) (ha : fd.allocs = [])
    (env : Env) (st : St) (es et : Expr) (s : W4) (kws : List UInt32) (bo baseo oo : Nat) (XO : Array LByte)
    (hne : bo ≠ g.bs) (hbo30 : bo < 2 ^ 30) (hMo : M[bo]? = some ⟨XO, baseo⟩) (hlt : baseo + XO.size < ptrBase) (hq : oo + 8 ≤ XO.size)
    (mi : MI g M st s kws) (hes : evalE env es = .ok (mkPtr g.bs g.baseS, .pub)) (het : evalE env et = .ok (mkPtr bo (baseo + oo), .pub)) :
    RunsTo g.prog (.call none fn [es, et]) env st (fun sig e s' => sig = .normal ∧ e = env ∧
      ∃ XO', MI g (setBlock M bo XO') s' (g.P kws 5 (addDomain (g.P kws pk (addDomain s 0x70)) 0x70)) kws ∧ XO'.size = XO.size ∧
        BytesV XO' oo (genTag (g.P kws) pk s) ∧ (∀ p, (p < oo ∨ oo + 8 ≤ p) → XO'[p]? = XO[p]?)) := by
  let vs : List LVal := [(mkPtr g.bs g.baseS, .pub), (mkPtr bo (baseo + oo), .pub)]
  have hent : (enterFun fd vs st.mem).2 = st.mem := by simp only [enterFun, ha, allocLocals]
  have henv : (enterFun fd vs st.mem).1 = (vs ++ List.replicate 16 (0, Lab.undef)).toArray := by simp only [enterFun, ha, allocLocals, hp, hv]
  refine runs_call_none fd vs hprog (by simp only [evalArgs, hes, het]; rfl) (by rw [hp]; rfl) ?_
  rw [hbody, hent, henv]
  refine (gentag_body g pk hpk _ { st with mem := st.mem } s kws bo baseo oo XO hne hbo30 hMo hlt hq (mi.toAI rfl rfl) rfl).weaken ?_
  intro sig e2 s2 ⟨_, XO', ai2, h2, h3, h4⟩
  exact ⟨rfl, rfl, XO', ai2.toMI.extract _ (by rw [ai2.msz, size_setBlock']; exact mi.msz), h2, h3, h4⟩

end TJ.MiniC.Hoare
