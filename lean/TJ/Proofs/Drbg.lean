/-
  TJ.Proofs.Drbg — the PRNG model refines Spec.Drbg: the byte-wise carry loop is addition mod 2^256.
-/
import TJ.Proofs.Prng
import TJ.Proofs.Kdf
import TJ.Spec.Drbg
namespace TJ

/-- little-endian value -/
def leVal : Bytes → Nat
  | [] => 0
  | x :: xs => x.toNat + 256 * leVal xs

theorem beVal_foldl (b : Bytes) (acc : Nat) :
    b.foldl (fun acc x => acc * 256 + x.toNat) acc = acc * 256 ^ b.length + Spec.beVal b := by
  induction b generalizing acc with
  | nil => simp [Spec.beVal]
  | cons x xs ih =>
    simp only [List.foldl_cons, List.length_cons, Spec.beVal]
    rw [ih, ih (0 * 256 + x.toNat)]
    rw [Nat.pow_succ]; simp only [Nat.zero_mul, Nat.zero_add]
    rw [Nat.add_mul, Nat.mul_assoc, Nat.mul_comm 256, Nat.add_assoc]

theorem beVal_append_single (b : Bytes) (x : UInt8) : Spec.beVal (b ++ [x]) = Spec.beVal b * 256 + x.toNat := by
  simp [Spec.beVal, List.foldl_append]

theorem beVal_reverse (b : Bytes) : Spec.beVal b.reverse = leVal b := by
  induction b with
  | nil => rfl
  | cons x xs ih => rw [List.reverse_cons, beVal_append_single, ih, leVal]; omega

theorem toLE_mod (n len : Nat) : Spec.toLE (n % 256 ^ len) len = Spec.toLE n len := by
  induction len generalizing n with
  | zero => rfl
  | succ len ih =>
    simp only [Spec.toLE]
    have h1 : n % 256 ^ (len + 1) % 256 = n % 256 := by
      rw [Nat.pow_succ, Nat.mul_comm]; exact Nat.mod_mul_right_mod _ _ _
    have h2 : n % 256 ^ (len + 1) / 256 = (n / 256) % 256 ^ len := by
      rw [Nat.pow_succ, Nat.mul_comm]; exact Nat.mod_mul_right_div_self _ _ _
    rw [h1, h2, ih]

/-- the carry loop computes the little-endian digits of the sum -/
theorem addCarry_spec (vs hs cs : Bytes) (carry : UInt32) (hl1 : hs.length = vs.length) (hl2 : cs.length = vs.length)
    (hc : carry.toNat ≤ 16777216) :
    addCarry vs hs cs carry = Spec.toLE (leVal vs + leVal hs + leVal cs + carry.toNat) vs.length := by
  induction vs generalizing hs cs carry with
  | nil => simp [addCarry, Spec.toLE]
  | cons v vs ih =>
    cases hs with
    | nil => simp at hl1
    | cons h hs =>
      cases cs with
      | nil => simp at hl2
      | cons c cs =>
        simp only [List.length_cons, Nat.add_right_cancel_iff] at hl1 hl2
        simp only [addCarry, List.length_cons, Spec.toLE, leVal]
        have hv := UInt8.toNat_lt v; have hh := UInt8.toNat_lt h; have hcc := UInt8.toNat_lt c
        have ht : (carry + v.toUInt32 + h.toUInt32 + c.toUInt32).toNat = carry.toNat + v.toNat + h.toNat + c.toNat := by
          simp [UInt32.toNat_add]; omega
        have ht8 : (carry + v.toUInt32 + h.toUInt32 + c.toUInt32).toUInt8
            = ((v.toNat + 256 * leVal vs + (h.toNat + 256 * leVal hs) + (c.toNat + 256 * leVal cs) + carry.toNat) % 256).toUInt8 := by
          apply UInt8.toNat_inj.mp
          simp [ht]; omega
        have hs8 : ((carry + v.toUInt32 + h.toUInt32 + c.toUInt32) >>> 8).toNat = (carry.toNat + v.toNat + h.toNat + c.toNat) / 256 := by
          simp [ht, Nat.shiftRight_eq_div_pow]
        rw [ht8, ih hs cs _ hl1 hl2 (by rw [hs8]; omega), hs8]
        congr 2
        omega

theorem toLE_length (n len : Nat) : (Spec.toLE n len).length = len := by
  induction len generalizing n with
  | zero => rfl
  | succ len ih => simp [Spec.toLE, ih]

/-- `V = V + H + C + reseed_counter` as the C computes it = big-endian addition mod 2^256 -/
theorem vAdvance_spec (V H C : Bytes) (rc : UInt32) (hv : V.length = 32) (hh : H.length = 32) (hc : C.length = 32)
    (hrc : rc.toNat ≤ 16777216) :
    vAdvance V H C rc = Spec.toBE ((Spec.beVal V + Spec.beVal H + Spec.beVal C + rc.toNat) % 2^256) 32 := by
  unfold vAdvance Spec.toBE
  rw [addCarry_spec _ _ _ _ (by simp [hv, hh]) (by simp [hv, hc]) hrc]
  simp only [List.length_reverse, hv]
  rw [← beVal_reverse, ← beVal_reverse, ← beVal_reverse, List.reverse_reverse, List.reverse_reverse, List.reverse_reverse]
  have : (2:Nat)^256 = 256^32 := by decide
  rw [this, toLE_mod]

/-- abstraction of the private state to the standard's (V, C, reseed_counter) -/
def Prng.abs (p : Prng) : Spec.Drbg := ⟨p.V, p.C, p.rc.toNat⟩

theorem hashDf_ff (V inp : Bytes) : hashDf 0xFF V inp = Spec.hashDf hash (V ++ inp) := by
  simp [hashDf, Spec.hashDf]

theorem hashDf_marker (m : UInt8) (hm : m ≠ 0xFF) (V inp : Bytes) :
    hashDf m V inp = Spec.hashDf hash (m :: V ++ inp) := by
  simp [hashDf, Spec.hashDf, hm]

theorem block_refines (p : Prng) (hv : p.V.length = 32) (hc : p.C.length = 32) (hrc : p.rc.toNat ≤ 16777216) :
    p.block.1 = (Spec.block hash p.abs).1 ∧ p.block.2.abs = (Spec.block hash p.abs).2 := by
  refine ⟨rfl, ?_⟩
  simp only [Prng.block, Prng.abs, Spec.block, hashPrefixed]
  rw [vAdvance_spec _ _ _ _ hv (hash_length _) hc hrc]
  congr 1
  rw [u32_succ_toNat _ (by omega)]

end TJ
