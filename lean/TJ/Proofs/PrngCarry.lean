import TJ.Proofs.PrngHash
namespace TJ.MiniC.Hoare
open TJ TJ.MiniC TJ.MiniC.PermC TJ.Gen.MiniC

/-- carry and the bytes produced (least significant first) after `k` rounds of the carry loop of `tinyjambu_prng_generate`; round `k` works on index `31 - k` -/
def cstate (V H C : Bytes) (rc : UInt32) : Nat → UInt32 × Bytes
  | 0 => (rc, [])
  | k + 1 =>
    let p := cstate V H C rc k
    let t := p.1 + (V.getD (31 - k) 0).toUInt32 + (H.getD (31 - k) 0).toUInt32 + (C.getD (31 - k) 0).toUInt32
    (t >>> 8, p.2 ++ [t.toUInt8])

theorem cstate_length (V H C : Bytes) (rc : UInt32) : ∀ k, (cstate V H C rc k).2.length = k
  | 0 => rfl
  | k + 1 => by simp only [cstate, List.length_append, List.length_cons, List.length_nil, cstate_length V H C rc k]

theorem addCarry_drop (Vr Hr Cr : Bytes) (rc : UInt32) (f : Nat → UInt32 × Bytes) (n : Nat)
    (h0 : f 0 = (rc, []))
    (hs : ∀ k, k < n → f (k + 1) = (((f k).1 + (Vr.getD k 0).toUInt32 + (Hr.getD k 0).toUInt32 + (Cr.getD k 0).toUInt32) >>> 8,
      (f k).2 ++ [((f k).1 + (Vr.getD k 0).toUInt32 + (Hr.getD k 0).toUInt32 + (Cr.getD k 0).toUInt32).toUInt8])) :
    ∀ k, k ≤ n → k ≤ Vr.length → k ≤ Hr.length → k ≤ Cr.length → addCarry Vr Hr Cr rc = (f k).2 ++ addCarry (Vr.drop k) (Hr.drop k) (Cr.drop k) (f k).1
  | 0, _, _, _, _ => by rw [h0]; simp
  | k + 1, hn, h1, h2, h3 => by
    rw [addCarry_drop Vr Hr Cr rc f n h0 hs k (by omega) (by omega) (by omega) (by omega), hs k (by omega)]
    rw [List.drop_eq_getElem_cons (show k < Vr.length from by omega), List.drop_eq_getElem_cons (show k < Hr.length from by omega),
      List.drop_eq_getElem_cons (show k < Cr.length from by omega)]
    simp only [addCarry, List.append_assoc, List.cons_append, List.nil_append]
    rw [List.getD_eq_getElem?_getD, List.getD_eq_getElem?_getD, List.getD_eq_getElem?_getD, List.getElem?_eq_getElem (show k < Vr.length from by omega),
      List.getElem?_eq_getElem (show k < Hr.length from by omega), List.getElem?_eq_getElem (show k < Cr.length from by omega)]
    rfl

/-- the carry loop computes the model's `vAdvance` -/
theorem vAdvance_cstate (V H C : Bytes) (rc : UInt32) (hV : V.length = 32) (hH : H.length = 32) (hC : C.length = 32) :
    vAdvance V H C rc = (cstate V H C rc 32).2.reverse := by
  unfold vAdvance
  have hrev : ∀ (L : Bytes), L.length = 32 → ∀ k, k < 32 → L.reverse.getD k 0 = L.getD (31 - k) 0 := by
    intro L hL k hk
    rw [List.getD_eq_getElem?_getD, List.getD_eq_getElem?_getD, List.getElem?_reverse (by omega), hL]
  have key := addCarry_drop V.reverse H.reverse C.reverse rc (cstate V H C rc) 32 rfl (fun k hk => by
    rw [hrev V hV k hk, hrev H hH k hk, hrev C hC k hk]; rfl) 32 (Nat.le_refl _) (by simp [hV]) (by simp [hH]) (by simp [hC])
  rw [key, List.drop_of_length_le (by simp [hV]), addCarry]
  · simp
  · intro v vs _ _ _ _ h; cases h

theorem join_ne_undef {a b : Lab} (ha : a ≠ .undef) (hb : b ≠ .undef) : a.join b ≠ .undef := by cases a <;> cases b <;> simp [Lab.join] at *

/-- `y = *addr; carry += y` -/
theorem load_add_step {env : Env} {st : St} (y : Nat) (ea : Expr) (b base q : Nat) (X : Array LByte) (byte : UInt8) (c : UInt32) (l6 : Lab)
    (hy : y ≠ 6) (hys : y < env.size) (h6s : 6 < env.size)
    (hea : evalE env ea = .ok (mkPtr b (base + q), .pub)) (hm : st.mem[b]? = some ⟨X, base⟩) (hb : BV X q byte) (hq : q < X.size) (hlt : base + X.size < ptrBase)
    (h6 : env[6]? = some (c.toNat, l6)) (hl6 : l6 ≠ .undef)
    {Q : Sig → Env → St → Prop}
    (hQ : ∀ ly l' L, l' ≠ Lab.undef → Q .normal (setVar (setVar env y (byte.toNat, ly)) 6 ((c + byte.toUInt32).toNat, l')) { st with leak := L }) :
    RunsTo prog (seqs [.load y .u8 ea, .assign 6 (.bin .add .u32 (.var 6) (.cast .u32 .u8 (.var y)))]) env st Q := by
  obtain ⟨ly, hrd, hly⟩ := hb.read
  simp only [seqs]
  refine runs_seq (Q := fun e s => e = setVar env y (byte.toNat, ly) ∧ s = { st with leak := .rd (mkPtr b (base + q)) 1 :: st.leak })
    (runs_load (mkPtr b (base + q)) b q 1 (byte.toNat, ly) rfl hea (resolve_byte hm q (by omega) (by omega)) (by rw [blockBytes_of hm]; exact hrd) ⟨rfl, rfl, rfl⟩) ?_
  intro e s ⟨he, hs⟩; rw [he, hs]
  have hadd : (c.toNat + byte.toNat) % 4294967296 = (c + byte.toUInt32).toNat := by
    rw [UInt32.toNat_add]; simp
  refine runs_assign ((c + byte.toUInt32).toNat, l6.join ly) ?_ (hQ ly _ _ (join_ne_undef hl6 hly))
  simp only [evalE, get_set_ne _ _ _ _ hy, h6, get_set_eq _ _ _ hys, hl6, hly, reduceCtorEq, if_false, castVal_u32_u8', BinOp.needsPub2, BinOp.needsPub1, Bool.false_and, Bool.or_self,
    Bool.false_eq_true, binVal, Ty.modulus, hadd]

end TJ.MiniC.Hoare
