import TJ.Proofs.HashObj
namespace TJ.MiniC.Hoare
open TJ TJ.MiniC TJ.MiniC.PermC TJ.Gen.MiniC

/-- all full 16-byte blocks of `inp` compressed, in order -/
def fullBlocks (h : HState) (inp : Bytes) : HState :=
  if 16 ≤ inp.length then fullBlocks ({ h with block := inp.take 16 }.compress 0) (inp.drop 16) else h
termination_by inp.length
decreasing_by simp; omega

/-- what is left after the full blocks -/
def restOf (inp : Bytes) : Bytes :=
  if 16 ≤ inp.length then restOf (inp.drop 16) else inp
termination_by inp.length
decreasing_by simp; omega

theorem restOf_lt (inp : Bytes) : (restOf inp).length < 16 := by
  induction h : inp.length using Nat.strongRecOn generalizing inp with
  | ind n ih =>
    rw [restOf]
    split
    · exact ih (inp.drop 16).length (by simp; omega) _ rfl
    · omega

/-- the model's `blocks` is: all full blocks, then stash the rest -/
theorem blocks_eq (h : HState) (inp : Bytes) :
    h.blocks inp = if 0 < (restOf inp).length
      then { fullBlocks h inp with block := writeAt (fullBlocks h inp).block 0 (restOf inp), posn := (restOf inp).length }
      else fullBlocks h inp := by
  induction hn : inp.length using Nat.strongRecOn generalizing h inp with
  | ind n ih =>
    rw [HState.blocks, fullBlocks, restOf]
    split
    · exact ih (inp.drop 16).length (by simp; omega) _ _ rfl
    · rfl

theorem writeAt_getElem? (dst : Bytes) (off : Nat) (src : Bytes) (i : Nat) (h : off + src.length ≤ dst.length) :
    (writeAt dst off src)[i]? = if off ≤ i ∧ i < off + src.length then src[i - off]? else dst[i]? := by
  unfold writeAt
  by_cases h1 : i < off
  · have : ¬ (off ≤ i ∧ i < off + src.length) := by omega
    simp only [this, if_false]
    rw [List.append_assoc, List.getElem?_append_left (by simp; omega), List.getElem?_take_of_lt h1]
  · by_cases h2 : i < off + src.length
    · have : off ≤ i ∧ i < off + src.length := by omega
      simp only [this, and_self, if_true]
      rw [List.getElem?_append_left (by simp; omega), List.getElem?_append_right (by simp; omega)]
      simp only [List.length_take]
      rw [show min off dst.length = off from by omega]
    · have : ¬ (off ≤ i ∧ i < off + src.length) := by omega
      simp only [this, if_false]
      rw [List.getElem?_append_right (by simp; omega)]
      simp only [List.length_append, List.length_take, List.getElem?_drop]
      rw [show min off dst.length = off from by omega]
      congr 1; omega

theorem writeAt_length (dst : Bytes) (off : Nat) (src : Bytes) (h : off + src.length ≤ dst.length) : (writeAt dst off src).length = dst.length := by
  unfold writeAt; simp; omega

/-- copying `chunk` into the block buffer at position `p` -/
theorem HObj.memcpy {X : Array LByte} {h : HState} (o : HObj X h) (p : Nat) (chunk : Bytes) (hp : p + chunk.length ≤ 16) :
    HObj (writeBytes X (32 + p) (chunk.map fun b => (b, Lab.sec))) { h with block := writeAt h.block p chunk } := by
  have hsz := o.sz
  have hbl := o.blen
  refine ⟨by rw [size_writeBytes]; exact o.sz, fun i v hv j hj => ?_, by simp only; rw [writeAt_length _ _ _ (by omega)]; exact o.blen,
    fun i b hb => ?_, ?_, o.p16⟩
  · have hi : i < 8 := by
      by_cases hi : i < 8
      · exact hi
      · rw [List.getElem?_eq_none (by simp; omega)] at hv; cases hv
    rw [getElem?_writeBytes]
    have : ¬ (32 + p ≤ 4 * i + j ∧ 4 * i + j < 32 + p + (chunk.map fun b => (b, Lab.sec)).length ∧ 4 * i + j < X.size) := by omega
    simp only [this, if_false]
    exact o.words i v hv j hj
  · simp only at hb
    rw [writeAt_getElem? _ _ _ _ (by omega)] at hb
    rw [getElem?_writeBytes]
    by_cases hin : p ≤ i ∧ i < p + chunk.length
    · simp only [hin, and_self, if_true] at hb
      have : 32 + p ≤ 32 + i ∧ 32 + i < 32 + p + (chunk.map fun b => (b, Lab.sec)).length ∧ 32 + i < X.size := by
        simp only [List.length_map]; omega
      simp only [this, and_self, if_true, List.getElem?_map]
      rw [show 32 + i - (32 + p) = i - p from by omega, hb]; rfl
    · simp only [hin, if_false] at hb
      have : ¬ (32 + p ≤ 32 + i ∧ 32 + i < 32 + p + (chunk.map fun b => (b, Lab.sec)).length ∧ 32 + i < X.size) := by
        simp only [List.length_map]; omega
      simp only [this, if_false]
      exact o.blk i b hb
  · rw [← o.posn]
    apply readLE_congr
    intro j h1 h2
    rw [getElem?_writeBytes]
    have : ¬ (32 + p ≤ j ∧ j < 32 + p + (chunk.map fun b => (b, Lab.sec)).length ∧ j < X.size) := by
      simp only [List.length_map]; omega
    simp only [this, if_false]

/-- the bytes `memcpy` reads from the input block -/
theorem sliceBytes_data (XI : Array LByte) (off : Nat) : ∀ (n : Nat) (rest : Bytes), n ≤ rest.length →
    (∀ k b, rest[k]? = some b → XI[off + k]? = some (b, Lab.sec)) →
    sliceBytes XI off n = (rest.take n).map fun b => (b, Lab.sec)
  | 0, _, _, _ => by simp [sliceBytes]
  | n + 1, rest, hn, hd => by
    cases rest with
    | nil => simp at hn
    | cons b rs =>
      have h0 := hd 0 b rfl
      simp only [Nat.add_zero] at h0
      rw [sliceBytes, h0]
      simp only [List.take_succ_cons, List.map_cons]
      congr 1
      exact sliceBytes_data XI (off + 1) n rs (by simpa using hn) (fun k c hc => by
        have := hd (k + 1) c (by simpa using hc)
        rw [show off + (k + 1) = off + 1 + k from by omega] at this; exact this)

/-! ### `tinyjambu_hash_update`: geometry and invariant -/

structure UGeo where
  prog : Program
  mem0 : Array Block
  bs : Nat
  baseS : Nat
  szS : Nat
  bi : Nat
  basei : Nat
  XI : Array LByte
  ent0 : List Delivery
  hcomp : prog[idx_tinyjambu_hash_compress]? = some f_tinyjambu_hash_compress
  hperm : prog[idx_tinyjambu_permutation_256]? = some f_tinyjambu_permutation_256
  hne : bi ≠ bs
  hbs30 : bs < 2 ^ 30
  hbi30 : bi < 2 ^ 30
  hsz30 : mem0.size + 2 < 2 ^ 30
  halS : baseS % 4 = 0
  hszS : 52 ≤ szS
  hltS : baseS + szS < ptrBase
  hltI : basei + XI.size < ptrBase
  hI : mem0[bi]? = some ⟨XI, basei⟩

structure UI (g : UGeo) (env : Env) (st : St) (h : HState) (off : Nat) (rest : Bytes) : Prop where
  esz : env.size = 18
  e1 : env[1]? = some (mkPtr g.bi (g.basei + off), .pub)
  e2 : env[2]? = some (rest.length, .pub)
  e3 : env[3]? = some (mkPtr g.bs g.baseS, .pub)
  e4 : env[4]? = some (mkPtr g.bs (g.baseS + 32), .pub)
  obj : ∃ X, st.mem[g.bs]? = some ⟨X, g.baseS⟩ ∧ HObj X h ∧ X.size = g.szS
  oth : ∀ j, j ≠ g.bs → st.mem[j]? = g.mem0[j]?
  msz : st.mem.size = g.mem0.size
  ent : st.ent = g.ent0
  data : ∀ k b, rest[k]? = some b → g.XI[off + k]? = some (b, .sec)
  inb : off + rest.length ≤ g.XI.size

theorem resolve_byte {mem : Array Block} {b : Nat} {X : Array LByte} {base : Nat} (h : mem[b]? = some ⟨X, base⟩) (off : Nat)
    (hin : off + 1 ≤ X.size) (hlt : base + off < ptrBase) : resolve mem (mkPtr b (base + off)) 1 = .ok (b, off) :=
  resolve_mkPtr mem b off 1 ⟨X, base⟩ h hin hlt (fun h => absurd h (by decide))

def loopBody : Stmt :=
  .ite (.bin .ge .u64 (.var 2) (.cast .u64 .i32 (.lit 16)))
    (seqs [seqs [.memcpy (.var 4) (.var 1) (.cast .u64 .i32 (.lit 16)), .assign 15 (.var 4)],
           .call none 21 [.var 3, .cast .u8 .i32 (.lit 0)],
           .assign 1 (.bin .add .u64 (.var 1) (.lit 16)),
           .assign 2 (.bin .sub .u64 (.var 2) (.cast .u64 .i32 (.lit 16)))])
    .brk

theorem sub64 (n k : Nat) (h1 : k ≤ n) (h2 : n < 18446744073709551616) (hk : k < 18446744073709551616) :
    (n + 18446744073709551616 - k % 18446744073709551616) % 18446744073709551616 = n - k := by
  rw [Nat.mod_eq_of_lt hk]
  have : n + 18446744073709551616 - k = (n - k) + 18446744073709551616 := by omega
  rw [this, Nat.add_mod_right, Nat.mod_eq_of_lt (by omega)]

theorem castVal_u64_i32_16 : castVal .u64 .i32 16 = 16 := by decide
theorem castVal_u8_i32_0 : castVal .u8 .i32 0 = 0 := by decide

/-- one iteration with at least 16 bytes left -/
theorem loop_iter (g : UGeo) (env : Env) (st : St) (h : HState) (off : Nat) (rest : Bytes) (ui : UI g env st h off rest) (h16 : 16 ≤ rest.length) :
    RunsTo g.prog loopBody env st (fun sig e s => sig = .normal ∧
      UI g e s ({ h with block := rest.take 16 }.compress 0) (off + 16) (rest.drop 16)) := by
  obtain ⟨X, hmX, ho, hXs⟩ := ui.obj
  have hI : st.mem[g.bi]? = some ⟨g.XI, g.basei⟩ := by rw [ui.oth g.bi g.hne]; exact g.hI
  have hlen : rest.length < 18446744073709551616 := by
    have := ui.inb; have := g.hltI; simp only [ptrBase] at *; omega
  have hszS := g.hszS; have hltS := g.hltS; have hltI := g.hltI; have hinb := ui.inb
  unfold loopBody
  refine runs_ite_true 1 ?_ (by decide) ?_
  · simp only [evalE, ui.e2, reduceCtorEq, if_false, castVal_u64_i32_16, BinOp.needsPub2, BinOp.needsPub1, Bool.false_and, Bool.or_self,
      Bool.false_eq_true, binVal, Ty.signed, ge_iff_le, h16, decide_true, b2n, if_true, Lab.join_pub_pub]
  simp only [seqs]
  -- memcpy(block, in, 16); the assignment of its result
  have hsl : sliceBytes g.XI off 16 = (rest.take 16).map fun b => (b, Lab.sec) := sliceBytes_data g.XI off 16 rest h16 ui.data
  have ho1 : HObj (writeBytes X 32 ((rest.take 16).map fun b => (b, Lab.sec))) { h with block := rest.take 16 } := by
    have := ho.memcpy 0 (rest.take 16) (by simp only [List.length_take]; omega)
    have e : writeAt h.block 0 (rest.take 16) = rest.take 16 := by
      unfold writeAt
      simp only [List.take_zero, List.nil_append, Nat.zero_add, List.length_take, show min 16 rest.length = 16 from by omega]
      rw [List.drop_eq_nil_of_le (by rw [ho.blen]; exact Nat.le_refl _), List.append_nil]
    rw [e] at this
    exact this
  let st1 : St := { st with leak := Ev.cp (mkPtr g.bs (g.baseS + 32)) (mkPtr g.bi (g.basei + off)) 16 :: Ev.br true :: st.leak, mem := (setBlock st.mem g.bs (writeBytes X 32 ((rest.take 16).map fun b => (b, Lab.sec)))) }
  have hm1 : st1.mem[g.bs]? = some ⟨writeBytes X 32 ((rest.take 16).map fun b => (b, Lab.sec)), g.baseS⟩ := by
    show (setBlock st.mem g.bs _)[g.bs]? = _
    rw [getElem?_setBlock', if_pos rfl, hmX]; rfl
  apply runs_seq (Q := fun e s => e = setVar env 15 (mkPtr g.bs (g.baseS + 32), .pub) ∧ s = st1)
  · apply runs_seq (Q := fun e s => e = env ∧ s = st1)
    · refine runs_memcpy (st := { st with leak := Ev.br true :: st.leak }) (mkPtr g.bs (g.baseS + 32)) (mkPtr g.bi (g.basei + off)) 16 g.bi off g.bs 32
        (by simp only [evalE, ui.e4, reduceCtorEq, if_false]) (by simp only [evalE, ui.e1, reduceCtorEq, if_false])
        (by simp only [evalE, castVal_u64_i32_16]) (by decide)
        (resolve_byte hI off (by omega) (by omega)) (by rw [blockBytes_of hI]; omega)
        (resolve_byte hmX 32 (by omega) (by omega)) (by rw [blockBytes_of hmX]; omega) ?_
      rw [blockBytes_of hI, blockBytes_of hmX, hsl]
      exact ⟨rfl, rfl, rfl⟩
    · intro e s ⟨he, hs⟩
      rw [he, hs]
      exact runs_assign _ (by simp only [evalE, ui.e4, reduceCtorEq, if_false]) ⟨rfl, rfl, rfl⟩
  · intro e s ⟨he, hs⟩
    rw [he, hs]
    have e3' : (setVar env 15 (mkPtr g.bs (g.baseS + 32), Lab.pub))[3]? = some (mkPtr g.bs g.baseS, .pub) := by
      rw [get_set_ne _ _ _ _ (by decide)]; exact ui.e3
    -- the call of the compression function
    refine runs_seq (Q := fun e s => e = setVar env 15 (mkPtr g.bs (g.baseS + 32), .pub) ∧ s.ent = st.ent ∧
        ∃ bytes', s.mem = setBlock st1.mem g.bs bytes' ∧ HObj bytes' ({ h with block := rest.take 16 }.compress 0) ∧ bytes'.size = g.szS) ?_ ?_
    · refine (compress_obj g.prog 21 g.hcomp g.hperm _ st1 (.var 3) (.cast .u8 .i32 (.lit 0)) g.bs ⟨_, g.baseS⟩ 0 (by decide)
        (by simp only [evalE, e3', reduceCtorEq, if_false]) (by simp only [evalE, castVal_u8_i32_0]; rfl) hm1 g.halS
        (by show g.baseS + (writeBytes X 32 _).size < ptrBase; rw [size_writeBytes, hXs]; exact g.hltS)
        (by show (setBlock st.mem g.bs _).size + 2 < 2 ^ 30; rw [size_setBlock', ui.msz]; exact g.hsz30) _ ho1).weaken ?_
      intro sig e s ⟨h1, h2, h3, bytes', hm, hob, hbs, _⟩
      exact ⟨h1, h2, h3, bytes', hm, hob, by rw [hbs]; show (writeBytes X 32 _).size = _; rw [size_writeBytes, hXs]⟩
    · intro e s ⟨he, hent, bytes', hm, hob, hbsz⟩
      rw [he]
      -- in += 16; inlen -= 16
      have hp : (mkPtr g.bi (g.basei + off) + 16) % 18446744073709551616 = mkPtr g.bi (g.basei + off + 16) :=
        ptr_off g.bi (g.basei + off) 16 g.hbi30 (by omega)
      refine runs_seq (Q := fun e' s' => e' = setVar (setVar env 15 (mkPtr g.bs (g.baseS + 32), .pub)) 1 (mkPtr g.bi (g.basei + off + 16), .pub) ∧ s' = s) ?_ ?_
      · exact runs_assign _ (by
          simp only [evalE, get_set_ne _ _ _ _ (show ¬ 15 = 1 from by decide), ui.e1, reduceCtorEq, if_false, BinOp.needsPub2, BinOp.needsPub1,
            Bool.false_and, Bool.or_self, Bool.false_eq_true, binVal, Ty.modulus, Lab.join_pub_pub, hp]) ⟨rfl, rfl, rfl⟩
      · intro e' s' ⟨he', hs'⟩
        rw [he', hs']
        refine runs_assign (rest.length - 16, .pub) (by
          simp only [evalE, get_set_ne _ _ _ _ (show ¬ 1 = 2 from by decide), get_set_ne _ _ _ _ (show ¬ 15 = 2 from by decide), ui.e2, reduceCtorEq,
            if_false, castVal_u64_i32_16, BinOp.needsPub2, BinOp.needsPub1, Bool.false_and, Bool.or_self, Bool.false_eq_true, binVal, Ty.modulus,
            Lab.join_pub_pub, sub64 rest.length 16 h16 hlen (by decide)]) ?_
        refine ⟨rfl, by simp only [size_setVar]; exact ui.esz, ?_, ?_, ?_, ?_, ⟨bytes', ?_, hob, hbsz⟩, ?_, ?_, by rw [hent]; exact ui.ent, ?_, ?_⟩
        · rw [get_set_ne _ _ _ _ (by decide), get_set_eq _ _ _ (by simp only [size_setVar, ui.esz]; decide)]
          rw [show g.basei + off + 16 = g.basei + (off + 16) from by omega]
        · rw [get_set_eq _ _ _ (by simp only [size_setVar, ui.esz]; decide)]; simp only [List.length_drop]
        · rw [get_set_ne _ _ _ _ (by decide), get_set_ne _ _ _ _ (by decide), get_set_ne _ _ _ _ (by decide)]; exact ui.e3
        · rw [get_set_ne _ _ _ _ (by decide), get_set_ne _ _ _ _ (by decide), get_set_ne _ _ _ _ (by decide)]; exact ui.e4
        · rw [hm, getElem?_setBlock', if_pos rfl, hm1]; rfl
        · intro j hj
          rw [hm, getElem?_setBlock', if_neg hj]
          show (setBlock st.mem g.bs _)[j]? = _
          rw [getElem?_setBlock', if_neg hj]; exact ui.oth j hj
        · rw [hm, size_setBlock']; show (setBlock st.mem g.bs _).size = _; rw [size_setBlock']; exact ui.msz
        · intro k b hb
          rw [List.getElem?_drop] at hb
          have := ui.data (16 + k) b hb
          rw [show off + 16 + k = off + (16 + k) from by omega]; exact this
        · simp only [List.length_drop]; omega

theorem UI.leak {g : UGeo} {env : Env} {st : St} {h : HState} {off : Nat} {rest : Bytes} (ui : UI g env st h off rest) (l : List Ev) :
    UI g env { st with leak := l } h off rest :=
  ⟨ui.esz, ui.e1, ui.e2, ui.e3, ui.e4, ui.obj, ui.oth, ui.msz, ui.ent, ui.data, ui.inb⟩

/-- fewer than 16 bytes left: the loop exits -/
theorem loop_exit (g : UGeo) (env : Env) (st : St) (h : HState) (off : Nat) (rest : Bytes) (ui : UI g env st h off rest) (h16 : rest.length < 16) :
    RunsTo g.prog loopBody env st (fun sig e s => sig = .brk ∧ UI g e s h off rest) := by
  unfold loopBody
  refine runs_ite_false ?_ (runs_brk ⟨rfl, ui.leak _⟩)
  have : ¬ 16 ≤ rest.length := by omega
  simp only [evalE, ui.e2, reduceCtorEq, if_false, castVal_u64_i32_16, BinOp.needsPub2, BinOp.needsPub1, Bool.false_and, Bool.or_self,
    Bool.false_eq_true, binVal, Ty.signed, ge_iff_le, this, decide_false, b2n, Lab.join_pub_pub]

/-- **the block loop of `tinyjambu_hash_update`**: every full 16-byte block is compressed, in order -/
theorem loop_spec (g : UGeo) : ∀ (n : Nat) (rest : Bytes), rest.length = n → ∀ (env : Env) (st : St) (h : HState) (off : Nat), UI g env st h off rest →
    RunsTo g.prog (.loop loopBody) env st (fun sig e s => sig = .normal ∧ ∃ off', UI g e s (fullBlocks h rest) off' (restOf rest)) := by
  intro n
  induction n using Nat.strongRecOn with
  | ind n ih =>
    intro rest hn env st h off ui
    by_cases h16 : 16 ≤ rest.length
    · refine runs_loop_continue (loop_iter g env st h off rest ui h16) ?_
      intro e s ui'
      rw [fullBlocks, restOf, if_pos h16, if_pos h16]
      exact ih (rest.drop 16).length (by simp only [List.length_drop]; omega) (rest.drop 16) rfl e s _ _ ui'
    · refine runs_loop_break ((loop_exit g env st h off rest ui (by omega)).weaken ?_)
      intro sig e s ⟨hs, ui'⟩
      rw [fullBlocks, restOf, if_neg h16, if_neg h16]
      exact ⟨hs, rfl, off, ui'⟩

theorem HObj.setPosn {X : Array LByte} {h : HState} (o : HObj X h) (p : Nat) (hp : p < 16) :
    HObj (writeLE X 48 p .pub 4) { h with posn := p } := by
  have hsz := o.sz
  refine ⟨by rw [size_writeLE]; exact o.sz, fun i v hv j hj => ?_, o.blen, fun i b hb => ?_, ?_, hp⟩
  · have hi : i < 8 := by
      by_cases hi : i < 8
      · exact hi
      · rw [List.getElem?_eq_none (by simp; omega)] at hv; cases hv
    rw [getElem?_writeLE_out _ _ _ _ _ _ (by omega)]
    exact o.words i v hv j hj
  · have hi : i < 16 := by
      by_cases hi : i < 16
      · exact hi
      · rw [List.getElem?_eq_none (by rw [o.blen]; omega)] at hb; cases hb
    rw [getElem?_writeLE_out _ _ _ _ _ _ (by omega)]
    exact o.blk i b hb
  · rw [readLE_writeLE .pub (by decide) 4 X 48 p (by omega)]
    congr 2
    exact Nat.mod_eq_of_lt (by omega)

def tailStmt : Stmt :=
  .ite (.bin .gt .u64 (.var 2) (.cast .u64 .i32 (.lit 0)))
    (seqs [.assign 5 (.cast .u32 .u64 (.var 2)),
           seqs [.memcpy (.var 4) (.var 1) (.cast .u64 .u32 (.var 5)), .assign 16 (.var 4)],
           seqs [.assign 17 (.bin .add .u64 (.var 3) (.lit 48)), .store .u32 (.var 17) (.var 5)]])
    .skip

theorem castVal_u64_i32_0 : castVal .u64 .i32 0 = 0 := by decide

/-- the remainder (fewer than 16 bytes) is stashed in the block buffer -/
theorem tail_spec (g : UGeo) (env : Env) (st : St) (h : HState) (off : Nat) (r : Bytes) (ui : UI g env st h off r) (h16 : r.length < 16) :
    RunsTo g.prog tailStmt env st (fun sig e s => sig = .normal ∧ s.ent = g.ent0 ∧ s.mem.size = g.mem0.size ∧
      (∀ j, j ≠ g.bs → s.mem[j]? = g.mem0[j]?) ∧
      ∃ X, s.mem[g.bs]? = some ⟨X, g.baseS⟩ ∧ X.size = g.szS ∧
        HObj X (if 0 < r.length then { h with block := writeAt h.block 0 r, posn := r.length } else h)) := by
  obtain ⟨X, hmX, ho, hXs⟩ := ui.obj
  have hI : st.mem[g.bi]? = some ⟨g.XI, g.basei⟩ := by rw [ui.oth g.bi g.hne]; exact g.hI
  have hszS := g.hszS; have hltS := g.hltS; have hltI := g.hltI; have hinb := ui.inb
  unfold tailStmt
  by_cases h0 : 0 < r.length
  · simp only [h0, if_true]
    refine runs_ite_true 1 ?_ (by decide) ?_
    · simp only [evalE, ui.e2, reduceCtorEq, if_false, castVal_u64_i32_0, BinOp.needsPub2, BinOp.needsPub1, Bool.false_and, Bool.or_self,
        Bool.false_eq_true, binVal, Ty.signed, gt_iff_lt, h0, decide_true, b2n, if_true, Lab.join_pub_pub]
    simp only [seqs]
    have hc5 : castVal .u32 .u64 r.length = r.length := by
      simp only [castVal, Ty.signed, Bool.false_eq_true, if_false, Ty.modulus]; omega
    have hc5' : castVal .u64 .u32 r.length = r.length := by
      simp only [castVal, Ty.signed, Bool.false_eq_true, if_false, Ty.modulus]; omega
    let E1 := setVar env 5 (r.length, Lab.pub)
    have e1_5 : E1[5]? = some (r.length, Lab.pub) := get_set_eq _ _ _ (by rw [ui.esz]; decide)
    have e1_1 : E1[1]? = some (mkPtr g.bi (g.basei + off), .pub) := by show (setVar env 5 _)[1]? = _; rw [get_set_ne _ _ _ _ (by decide)]; exact ui.e1
    have e1_3 : E1[3]? = some (mkPtr g.bs g.baseS, .pub) := by show (setVar env 5 _)[3]? = _; rw [get_set_ne _ _ _ _ (by decide)]; exact ui.e3
    have e1_4 : E1[4]? = some (mkPtr g.bs (g.baseS + 32), .pub) := by show (setVar env 5 _)[4]? = _; rw [get_set_ne _ _ _ _ (by decide)]; exact ui.e4
    refine runs_seq (Q := fun e s => e = E1 ∧ s = { st with leak := Ev.br true :: st.leak }) ?_ ?_
    · exact runs_assign _ (by simp only [evalE, ui.e2, reduceCtorEq, if_false, hc5]) ⟨rfl, rfl, rfl⟩
    · intro e s ⟨he, hs⟩
      rw [he, hs]
      have hsl : sliceBytes g.XI off r.length = (r.take r.length).map fun b => (b, Lab.sec) := sliceBytes_data g.XI off r.length r (Nat.le_refl _) ui.data
      rw [List.take_length] at hsl
      have ho1 := ho.memcpy 0 r (by omega)
      let st1 : St := { st with leak := Ev.cp (mkPtr g.bs (g.baseS + 32)) (mkPtr g.bi (g.basei + off)) r.length :: Ev.br true :: st.leak, mem := (setBlock st.mem g.bs (writeBytes X (32 + 0) (r.map fun b => (b, Lab.sec)))) }
      have hm1 : st1.mem[g.bs]? = some ⟨writeBytes X (32 + 0) (r.map fun b => (b, Lab.sec)), g.baseS⟩ := by
        show (setBlock st.mem g.bs _)[g.bs]? = _
        rw [getElem?_setBlock', if_pos rfl, hmX]; rfl
      refine runs_seq (Q := fun e s => e = setVar E1 16 (mkPtr g.bs (g.baseS + 32), .pub) ∧ s = st1) ?_ ?_
      · apply runs_seq (Q := fun e s => e = E1 ∧ s = st1)
        · refine runs_memcpy (st := { st with leak := Ev.br true :: st.leak }) (mkPtr g.bs (g.baseS + 32)) (mkPtr g.bi (g.basei + off)) r.length g.bi off g.bs 32
            (by simp only [evalE, e1_4, reduceCtorEq, if_false]) (by simp only [evalE, e1_1, reduceCtorEq, if_false])
            (by simp only [evalE, e1_5, reduceCtorEq, if_false, hc5']) (by omega)
            (resolve_byte hI off (by omega) (by omega)) (by rw [blockBytes_of hI]; omega)
            (resolve_byte hmX 32 (by omega) (by omega)) (by rw [blockBytes_of hmX]; omega) ?_
          rw [blockBytes_of hI, blockBytes_of hmX, hsl]
          exact ⟨rfl, rfl, rfl⟩
        · intro e s ⟨he, hs⟩
          rw [he, hs]
          exact runs_assign _ (by simp only [evalE, e1_4, reduceCtorEq, if_false]) ⟨rfl, rfl, rfl⟩
      · intro e s ⟨he, hs⟩
        rw [he, hs]
        have hp48 : (mkPtr g.bs g.baseS + 48) % 18446744073709551616 = mkPtr g.bs (g.baseS + 48) := ptr_off g.bs g.baseS 48 g.hbs30 (by omega)
        let E2 := setVar (setVar E1 16 (mkPtr g.bs (g.baseS + 32), Lab.pub)) 17 (mkPtr g.bs (g.baseS + 48), Lab.pub)
        refine runs_seq (Q := fun e s => e = E2 ∧ s = st1) ?_ ?_
        · exact runs_assign _ (by
            simp only [evalE, get_set_ne _ _ _ _ (show ¬ 16 = 3 from by decide), e1_3, reduceCtorEq, if_false, BinOp.needsPub2, BinOp.needsPub1,
              Bool.false_and, Bool.or_self, Bool.false_eq_true, binVal, Ty.modulus, Lab.join_pub_pub, hp48]) ⟨rfl, rfl, rfl⟩
        · intro e s ⟨he, hs⟩
          rw [he, hs]
          have e2_17 : E2[17]? = some (mkPtr g.bs (g.baseS + 48), Lab.pub) :=
            get_set_eq _ _ _ (by simp only [size_setVar, E1, ui.esz]; decide)
          have e2_5 : E2[5]? = some (r.length, Lab.pub) := by
            show (setVar (setVar E1 16 _) 17 _)[5]? = _
            rw [get_set_ne _ _ _ _ (by decide), get_set_ne _ _ _ _ (by decide)]; exact e1_5
          refine runs_store (mkPtr g.bs (g.baseS + 48)) r.length g.bs 48 4 .pub rfl (by simp only [evalE, e2_17, reduceCtorEq, if_false])
            (by simp only [evalE, e2_5, reduceCtorEq, if_false])
            (resolve_word hm1 48 (by have := g.halS; omega) (by rw [size_writeBytes]; omega) (by omega)) ?_
          rw [blockBytes_of hm1]
          refine ⟨rfl, ui.ent, by show (setBlock (setBlock st.mem g.bs _) g.bs _).size = _; rw [size_setBlock', size_setBlock']; exact ui.msz, ?_, _, ?_, ?_, ho1.setPosn r.length h16⟩
          · intro j hj
            show (setBlock (setBlock st.mem g.bs _) g.bs _)[j]? = _
            rw [getElem?_setBlock', if_neg hj, getElem?_setBlock', if_neg hj]; exact ui.oth j hj
          · show (setBlock st1.mem g.bs _)[g.bs]? = _
            rw [getElem?_setBlock', if_pos rfl, hm1]; rfl
          · rw [size_writeLE, size_writeBytes]; exact hXs
  · have hr0 : r.length = 0 := by omega
    simp only [h0, if_false]
    refine runs_ite_false ?_ (runs_skip ⟨rfl, ui.ent, ui.msz, ui.oth, X, hmX, hXs, ho⟩)
    simp only [evalE, ui.e2, reduceCtorEq, if_false, castVal_u64_i32_0, BinOp.needsPub2, BinOp.needsPub1, Bool.false_and, Bool.or_self,
      Bool.false_eq_true, binVal, Ty.signed, gt_iff_lt, hr0, Nat.lt_irrefl, decide_false, b2n, Lab.join_pub_pub]

theorem runs_seq_cases {prog : Program} {a b : Stmt} {env : Env} {st : St} {Q : Env → St → Prop} {P : Sig → Env → St → Prop}
    (ha : RunsTo prog a env st (fun sig e s => (sig ≠ .normal ∧ P sig e s) ∨ (sig = .normal ∧ Q e s)))
    (hb : ∀ e s, Q e s → RunsTo prog b e s P) : RunsTo prog (.seq a b) env st P := by
  obtain ⟨n, sig, e, s, hx, hc⟩ := ha
  rcases hc with ⟨hs, hp⟩ | ⟨hs, hq⟩
  · exact runs_seq_abort ⟨n, sig, e, s, hx, hs, hp⟩
  · exact runs_seq (Q := Q) ⟨n, sig, e, s, hx, hs, hq⟩ hb

theorem get_set (env : Env) (i j : Nat) (v : LVal) : (setVar env i v)[j]? = if i = j ∧ i < env.size then some v else env[j]? := by
  by_cases h : i = j
  · subst h
    by_cases h2 : i < env.size
    · simp only [h2, and_self, if_true]; exact get_set_eq env i v h2
    · simp only [h2, and_false, if_false]
      unfold setVar
      rw [Array.getElem?_setIfInBounds]; simp [h2]
  · simp only [h, false_and, if_false]; exact get_set_ne env i j v h

/-- what `tinyjambu_hash_update` leaves in memory -/
def Final (g : UGeo) (s : St) (h : HState) : Prop :=
  s.ent = g.ent0 ∧ s.mem.size = g.mem0.size ∧ (∀ j, j ≠ g.bs → s.mem[j]? = g.mem0[j]?) ∧
    ∃ X, s.mem[g.bs]? = some ⟨X, g.baseS⟩ ∧ X.size = g.szS ∧ HObj X h

theorem UI.setVar {g : UGeo} {env : Env} {st : St} {h : HState} {off : Nat} {rest : Bytes} (ui : UI g env st h off rest) (x : Nat) (hx : 5 ≤ x) (v : LVal) :
    UI g (setVar env x v) st h off rest :=
  ⟨by rw [size_setVar]; exact ui.esz, by rw [get_set_ne _ _ _ _ (by omega)]; exact ui.e1, by rw [get_set_ne _ _ _ _ (by omega)]; exact ui.e2,
   by rw [get_set_ne _ _ _ _ (by omega)]; exact ui.e3, by rw [get_set_ne _ _ _ _ (by omega)]; exact ui.e4,
   ui.obj, ui.oth, ui.msz, ui.ent, ui.data, ui.inb⟩

/-- `x = pstate->posn` -/
theorem load_posn (g : UGeo) (env : Env) (st : St) (h : HState) (off : Nat) (rest : Bytes) (ui : UI g env st h off rest) (x : Nat) (hx : 5 ≤ x ∧ x < 18)
    {P : Sig → Env → St → Prop}
    (hP : ∀ l, P .normal (setVar env x (h.posn, .pub)) { st with leak := l }) :
    RunsTo g.prog (.load x .u32 (.bin .add .u64 (.var 3) (.lit 48))) env st P := by
  obtain ⟨X, hmX, ho, hXs⟩ := ui.obj
  have hszS := g.hszS; have hltS := g.hltS
  have hp48 : (mkPtr g.bs g.baseS + 48) % 18446744073709551616 = mkPtr g.bs (g.baseS + 48) := ptr_off g.bs g.baseS 48 g.hbs30 (by omega)
  refine runs_load (mkPtr g.bs (g.baseS + 48)) g.bs 48 4 (h.posn, .pub) rfl
    (by simp only [evalE, ui.e3, reduceCtorEq, if_false, BinOp.needsPub2, BinOp.needsPub1, Bool.false_and, Bool.or_self, Bool.false_eq_true, binVal,
      Ty.modulus, Lab.join_pub_pub, hp48])
    (resolve_word hmX 48 (by have := g.halS; omega) (by omega) (by omega)) (by rw [blockBytes_of hmX]; exact ho.posn) (hP _)

theorem castVal_u32_i32_16 : castVal .u32 .i32 16 = 16 := by decide
theorem castVal_u32_i32_0' : castVal .u32 .i32 0 = 0 := by decide

/-- a `memcpy(block + posn, in, n)` with `posn + n ≤ 16`, `n ≤ rest.length`, where variable `xp` holds `posn` and variable 5 holds `n` -/
theorem fill_block (g : UGeo) (env : Env) (st : St) (h : HState) (off : Nat) (rest : Bytes) (ui : UI g env st h off rest) (xp n : Nat)
    (hxp : env[xp]? = some (h.posn, .pub)) (h5 : env[5]? = some (n, .pub)) (hn : h.posn + n ≤ 16) (hnr : n ≤ rest.length)
    {P : Sig → Env → St → Prop}
    (hP : ∀ l X, st.mem[g.bs]? = some ⟨X, g.baseS⟩ → X.size = g.szS →
      P .normal env { st with leak := l, mem := (setBlock st.mem g.bs (writeBytes X (32 + h.posn) ((rest.take n).map fun b => (b, Lab.sec)))) }) :
    RunsTo g.prog (.memcpy (.bin .add .u64 (.var 4) (.cast .u64 .u32 (.var xp))) (.var 1) (.cast .u64 .u32 (.var 5))) env st P := by
  obtain ⟨X, hmX, ho, hXs⟩ := ui.obj
  have hI : st.mem[g.bi]? = some ⟨g.XI, g.basei⟩ := by rw [ui.oth g.bi g.hne]; exact g.hI
  have hszS := g.hszS; have hltS := g.hltS; have hltI := g.hltI; have hinb := ui.inb; have hp16 := ho.p16
  have hc : ∀ k, k ≤ 16 → castVal .u64 .u32 k = k := by
    intro k hk; simp only [castVal, Ty.signed, Bool.false_eq_true, if_false, Ty.modulus]; omega
  have hp : (mkPtr g.bs (g.baseS + 32) + h.posn) % 18446744073709551616 = mkPtr g.bs (g.baseS + 32 + h.posn) :=
    ptr_off g.bs (g.baseS + 32) h.posn g.hbs30 (by omega)
  have hsl : sliceBytes g.XI off n = (rest.take n).map fun b => (b, Lab.sec) := sliceBytes_data g.XI off n rest hnr ui.data
  by_cases hn0 : n = 0
  · subst hn0
    refine runs_memcpy_zero (mkPtr g.bs (g.baseS + (32 + h.posn))) (mkPtr g.bi (g.basei + off))
      (by simp only [evalE, ui.e4, hxp, reduceCtorEq, if_false, hc h.posn (by omega), BinOp.needsPub2, BinOp.needsPub1, Bool.false_and, Bool.or_self,
        Bool.false_eq_true, binVal, Ty.modulus, Lab.join_pub_pub, hp, Nat.add_assoc])
      (by simp only [evalE, ui.e1, reduceCtorEq, if_false])
      (by simp only [evalE, h5, reduceCtorEq, if_false, hc 0 (by omega)]) ?_
    have := hP (Ev.cp (mkPtr g.bs (g.baseS + (32 + h.posn))) (mkPtr g.bi (g.basei + off)) 0 :: st.leak) X hmX hXs
    simp only [List.take_zero, List.map_nil, writeBytes] at this
    rw [setBlock_self st.mem g.bs ⟨X, g.baseS⟩ hmX] at this
    exact this
  · refine runs_memcpy (mkPtr g.bs (g.baseS + (32 + h.posn))) (mkPtr g.bi (g.basei + off)) n g.bi off g.bs (32 + h.posn)
      (by simp only [evalE, ui.e4, hxp, reduceCtorEq, if_false, hc h.posn (by omega), BinOp.needsPub2, BinOp.needsPub1, Bool.false_and, Bool.or_self,
        Bool.false_eq_true, binVal, Ty.modulus, Lab.join_pub_pub, hp, Nat.add_assoc])
      (by simp only [evalE, ui.e1, reduceCtorEq, if_false])
      (by simp only [evalE, h5, reduceCtorEq, if_false, hc n (by omega)]) hn0
      (resolve_byte hI off (by omega) (by omega)) (by rw [blockBytes_of hI]; omega)
      (resolve_byte hmX (32 + h.posn) (by omega) (by omega)) (by rw [blockBytes_of hmX]; omega) ?_
    rw [blockBytes_of hI, blockBytes_of hmX, hsl]
    exact hP _ X hmX hXs

def posnAddr : Expr := .bin .add .u64 (.var 3) (.lit 48)

def earlyStmt : Stmt :=
  seqs [.assign 5 (.cast .u32 .u64 (.var 2)),
        seqs [.load 8 .u32 posnAddr, .memcpy (.bin .add .u64 (.var 4) (.cast .u64 .u32 (.var 8))) (.var 1) (.cast .u64 .u32 (.var 5)),
              .assign 9 (.bin .add .u64 (.var 4) (.cast .u64 .u32 (.var 8)))],
        seqs [.assign 10 posnAddr, .load 11 .u32 (.var 10), .store .u32 (.var 10) (.bin .add .u32 (.var 11) (.var 5))],
        .ret none]

theorem evalE_posnAddr (g : UGeo) (env : Env) (h3 : env[3]? = some (mkPtr g.bs g.baseS, .pub)) :
    evalE env posnAddr = .ok (mkPtr g.bs (g.baseS + 48), .pub) := by
  have hszS := g.hszS; have hltS := g.hltS
  have hp48 : (mkPtr g.bs g.baseS + 48) % 18446744073709551616 = mkPtr g.bs (g.baseS + 48) := ptr_off g.bs g.baseS 48 g.hbs30 (by omega)
  simp only [posnAddr, evalE, h3, reduceCtorEq, if_false, BinOp.needsPub2, BinOp.needsPub1, Bool.false_and, Bool.or_self, Bool.false_eq_true, binVal,
    Ty.modulus, Lab.join_pub_pub, hp48]

/-- the input does not fill the buffered block: copy it, advance `posn`, return -/
theorem early_branch (g : UGeo) (env : Env) (st : St) (h : HState) (off : Nat) (data : Bytes) (ui : UI g env st h off data)
    (hlt : h.posn + data.length < 16) :
    RunsTo g.prog earlyStmt env st (fun sig e s => sig = .ret none ∧
      Final g s { h with block := writeAt h.block h.posn data, posn := h.posn + data.length }) := by
  obtain ⟨X, hmX, ho, hXs⟩ := ui.obj
  have hszS := g.hszS; have hltS := g.hltS; have hp16 := ho.p16
  have hc5 : castVal .u32 .u64 data.length = data.length := by
    simp only [castVal, Ty.signed, Bool.false_eq_true, if_false, Ty.modulus]; omega
  unfold earlyStmt
  simp only [seqs]
  have ui1 := ui.setVar 5 (by decide) (data.length, .pub)
  refine runs_seq (Q := fun e s => e = setVar env 5 (data.length, .pub) ∧ s = st) (runs_assign _ (by simp only [evalE, ui.e2, reduceCtorEq, if_false, hc5]) ⟨rfl, rfl, rfl⟩) ?_
  intro e s ⟨he, hs⟩
  rw [he, hs]
  -- load posn, memcpy, assign
  have ui2 := ui1.setVar 8 (by decide) (h.posn, .pub)
  let E2 := setVar (setVar env 5 (data.length, Lab.pub)) 8 (h.posn, Lab.pub)
  have e2_8 : E2[8]? = some (h.posn, Lab.pub) := get_set_eq _ _ _ (by simp only [size_setVar, ui.esz]; decide)
  have e2_5 : E2[5]? = some (data.length, Lab.pub) := by
    show (setVar (setVar env 5 _) 8 _)[5]? = _
    rw [get_set_ne _ _ _ _ (by decide)]; exact get_set_eq _ _ _ (by rw [ui.esz]; decide)
  have e2_4 : E2[4]? = some (mkPtr g.bs (g.baseS + 32), Lab.pub) := ui2.e4
  have ho1 := ho.memcpy h.posn data (by omega)
  refine runs_seq (Q := fun e s => ∃ l, e = setVar E2 9 (mkPtr g.bs (g.baseS + 32 + h.posn), .pub) ∧
      s = { st with leak := l, mem := (setBlock st.mem g.bs (writeBytes X (32 + h.posn) (data.map fun b => (b, Lab.sec)))) }) ?_ ?_
  · refine runs_seq (Q := fun e s => ∃ l, e = E2 ∧ s = { st with leak := l }) (load_posn g _ st h off data ui1 8 (by decide) (fun l => ⟨rfl, l, rfl, rfl⟩)) ?_
    intro e s ⟨l, he, hs⟩
    rw [he, hs]
    refine runs_seq (Q := fun e s => ∃ l, e = E2 ∧
        s = { st with leak := l, mem := (setBlock st.mem g.bs (writeBytes X (32 + h.posn) (data.map fun b => (b, Lab.sec)))) }) ?_ ?_
    · refine fill_block g E2 { st with leak := l } h off data (ui2.leak l) 8 data.length e2_8 e2_5 (by omega) (Nat.le_refl _) ?_
      intro l' X' hmX' _
      have : X' = X := by
        have h1 : (some (⟨X', g.baseS⟩ : Block)) = some ⟨X, g.baseS⟩ := by rw [← hmX', ← hmX]
        injection h1 with h2; injection h2
      subst this
      rw [List.take_length]
      exact ⟨rfl, l', rfl, rfl⟩
    · intro e s ⟨l', he, hs⟩
      rw [he, hs]
      have hc : castVal .u64 .u32 h.posn = h.posn := by
        simp only [castVal, Ty.signed, Bool.false_eq_true, if_false, Ty.modulus]; omega
      have hp : (mkPtr g.bs (g.baseS + 32) + h.posn) % 18446744073709551616 = mkPtr g.bs (g.baseS + 32 + h.posn) :=
        ptr_off g.bs (g.baseS + 32) h.posn g.hbs30 (by omega)
      exact runs_assign _ (by
        simp only [evalE, e2_4, e2_8, reduceCtorEq, if_false, hc, BinOp.needsPub2, BinOp.needsPub1, Bool.false_and, Bool.or_self,
          Bool.false_eq_true, binVal, Ty.modulus, Lab.join_pub_pub, hp]) ⟨rfl, l', rfl, rfl⟩
  · intro e s ⟨l, he, hs⟩
    rw [he, hs]
    -- posn += temp; return
    let E3 := setVar E2 9 (mkPtr g.bs (g.baseS + 32 + h.posn), Lab.pub)
    have ui3 : UI g E3 st h off data := ui2.setVar 9 (by decide) _
    let X1 := writeBytes X (32 + h.posn) (data.map fun b => (b, Lab.sec))
    let st1 : St := { st with leak := l, mem := (setBlock st.mem g.bs X1) }
    have hm1 : st1.mem[g.bs]? = some ⟨X1, g.baseS⟩ := by
      show (setBlock st.mem g.bs _)[g.bs]? = _
      rw [getElem?_setBlock', if_pos rfl, hmX]; rfl
    have hX1s : X1.size = g.szS := by show (writeBytes X _ _).size = _; rw [size_writeBytes]; exact hXs
    let E4 := setVar E3 10 (mkPtr g.bs (g.baseS + 48), Lab.pub)
    let E5 := setVar E4 11 (h.posn, Lab.pub)
    have e5_10 : E5[10]? = some (mkPtr g.bs (g.baseS + 48), Lab.pub) := by
      show (setVar (setVar E3 10 _) 11 _)[10]? = _
      rw [get_set_ne _ _ _ _ (by decide)]; exact get_set_eq _ _ _ (by rw [ui3.esz]; decide)
    have e5_11 : E5[11]? = some (h.posn, Lab.pub) := get_set_eq _ _ _ (by simp only [E4, size_setVar, ui3.esz]; decide)
    have e5_5 : E5[5]? = some (data.length, Lab.pub) := by
      show (setVar (setVar (setVar (setVar (setVar env 5 _) 8 _) 9 _) 10 _) 11 _)[5]? = _
      rw [get_set_ne _ _ _ _ (by decide), get_set_ne _ _ _ _ (by decide), get_set_ne _ _ _ _ (by decide), get_set_ne _ _ _ _ (by decide)]
      exact get_set_eq _ _ _ (by rw [ui.esz]; decide)
    refine runs_seq (Q := fun e s => ∃ l', e = E5 ∧ s = { st1 with leak := l', mem := (setBlock st1.mem g.bs (writeLE X1 48 (h.posn + data.length) .pub 4)) }) ?_ ?_
    · refine runs_seq (Q := fun e s => e = E4 ∧ s = st1) (runs_assign _ (evalE_posnAddr g E3 ui3.e3) ⟨rfl, rfl, rfl⟩) ?_
      intro e s ⟨he, hs⟩
      rw [he, hs]
      have e4_10 : E4[10]? = some (mkPtr g.bs (g.baseS + 48), Lab.pub) := get_set_eq _ _ _ (by rw [ui3.esz]; decide)
      refine runs_seq (Q := fun e s => e = E5 ∧ s = { st1 with leak := Ev.rd (mkPtr g.bs (g.baseS + 48)) 4 :: st1.leak }) ?_ ?_
      · exact runs_load (mkPtr g.bs (g.baseS + 48)) g.bs 48 4 (h.posn, .pub) rfl (by simp only [evalE, e4_10, reduceCtorEq, if_false])
          (resolve_word hm1 48 (by have := g.halS; omega) (by omega) (by omega)) (by rw [blockBytes_of hm1]; exact ho1.posn) ⟨rfl, rfl, rfl⟩
      · intro e s ⟨he, hs⟩
        rw [he, hs]
        refine runs_store (mkPtr g.bs (g.baseS + 48)) (h.posn + data.length) g.bs 48 4 .pub rfl (by simp only [evalE, e5_10, reduceCtorEq, if_false])
          (by simp only [evalE, e5_11, e5_5, reduceCtorEq, if_false, BinOp.needsPub2, BinOp.needsPub1, Bool.false_and, Bool.or_self, Bool.false_eq_true,
            binVal, Ty.modulus, Lab.join_pub_pub, Nat.mod_eq_of_lt (show h.posn + data.length < 4294967296 from by omega)])
          (resolve_word hm1 48 (by have := g.halS; omega) (by omega) (by omega)) ?_
        rw [blockBytes_of hm1]
        exact ⟨rfl, _, rfl, rfl⟩
    · intro e s ⟨l', he, hs⟩
      rw [he, hs]
      refine runs_ret_none ⟨rfl, ui.ent, ?_, ?_, _, ?_, ?_, ho1.setPosn _ (by omega)⟩
      · show (setBlock (setBlock st.mem g.bs _) g.bs _).size = _; rw [size_setBlock', size_setBlock']; exact ui.msz
      · intro j hj
        show (setBlock (setBlock st.mem g.bs _) g.bs _)[j]? = _
        rw [getElem?_setBlock', if_neg hj, getElem?_setBlock', if_neg hj]; exact ui.oth j hj
      · show (setBlock st1.mem g.bs _)[g.bs]? = _
        rw [getElem?_setBlock', if_pos rfl, hm1]; rfl
      · rw [size_writeLE]; exact hX1s

def fillStmt : Stmt :=
  seqs [seqs [.load 12 .u32 posnAddr, .memcpy (.bin .add .u64 (.var 4) (.cast .u64 .u32 (.var 12))) (.var 1) (.cast .u64 .u32 (.var 5)),
              .assign 13 (.bin .add .u64 (.var 4) (.cast .u64 .u32 (.var 12)))],
        .call none 21 [.var 3, .cast .u8 .i32 (.lit 0)],
        .assign 1 (.bin .add .u64 (.var 1) (.cast .u64 .u32 (.var 5))),
        .assign 2 (.bin .sub .u64 (.var 2) (.cast .u64 .u32 (.var 5))),
        seqs [.assign 14 posnAddr, .store .u32 (.var 14) (.cast .u32 .i32 (.lit 0))]]

/-- the input fills the buffered block: copy, compress, advance, reset `posn` -/
theorem fill_branch (g : UGeo) (env : Env) (st : St) (h : HState) (off : Nat) (data : Bytes) (ui : UI g env st h off data)
    (hp0 : 0 < h.posn) (hle : 16 - h.posn ≤ data.length) (h5 : env[5]? = some (16 - h.posn, .pub)) :
    RunsTo g.prog fillStmt env st (fun sig e s => sig = .normal ∧
      UI g e s { ({ h with block := writeAt h.block h.posn (data.take (16 - h.posn)) }.compress 0) with posn := 0 }
        (off + (16 - h.posn)) (data.drop (16 - h.posn))) := by
  obtain ⟨X, hmX, ho, hXs⟩ := ui.obj
  have hszS := g.hszS; have hltS := g.hltS; have hp16 := ho.p16; have hltI := g.hltI; have hinb := ui.inb
  have hlen : data.length < 18446744073709551616 := by simp only [ptrBase] at hltI; omega
  have hct : castVal .u64 .u32 (16 - h.posn) = 16 - h.posn := by
    simp only [castVal, Ty.signed, Bool.false_eq_true, if_false, Ty.modulus]; omega
  unfold fillStmt
  simp only [seqs]
  let E1 := setVar env 12 (h.posn, Lab.pub)
  have ui1 : UI g E1 st h off data := ui.setVar 12 (by decide) _
  have e1_12 : E1[12]? = some (h.posn, Lab.pub) := get_set_eq _ _ _ (by rw [ui.esz]; decide)
  have e1_5 : E1[5]? = some (16 - h.posn, Lab.pub) := by show (setVar env 12 _)[5]? = _; rw [get_set_ne _ _ _ _ (by decide)]; exact h5
  have e1_4 : E1[4]? = some (mkPtr g.bs (g.baseS + 32), Lab.pub) := ui1.e4
  let X1 := writeBytes X (32 + h.posn) ((data.take (16 - h.posn)).map fun b => (b, Lab.sec))
  have ho1 : HObj X1 { h with block := writeAt h.block h.posn (data.take (16 - h.posn)) } :=
    ho.memcpy h.posn (data.take (16 - h.posn)) (by simp only [List.length_take]; omega)
  have hX1s : X1.size = g.szS := by show (writeBytes X _ _).size = _; rw [size_writeBytes]; exact hXs
  let E2 := setVar E1 13 (mkPtr g.bs (g.baseS + 32 + h.posn), Lab.pub)
  have ui2 : UI g E2 st h off data := ui1.setVar 13 (by decide) _
  -- load, memcpy, assign
  refine runs_seq (Q := fun e s => ∃ l, e = E2 ∧ s = { st with leak := l, mem := (setBlock st.mem g.bs X1) }) ?_ ?_
  · refine runs_seq (Q := fun e s => ∃ l, e = E1 ∧ s = { st with leak := l }) (load_posn g _ st h off data ui 12 (by decide) (fun l => ⟨rfl, l, rfl, rfl⟩)) ?_
    intro e s ⟨l, he, hs⟩
    rw [he, hs]
    refine runs_seq (Q := fun e s => ∃ l, e = E1 ∧ s = { st with leak := l, mem := (setBlock st.mem g.bs X1) }) ?_ ?_
    · refine fill_block g E1 { st with leak := l } h off data (ui1.leak l) 12 (16 - h.posn) e1_12 e1_5 (by omega) hle ?_
      intro l' X' hmX' _
      have : X' = X := by
        have h1 : (some (⟨X', g.baseS⟩ : Block)) = some ⟨X, g.baseS⟩ := by rw [← hmX', ← hmX]
        injection h1 with h2; injection h2
      subst this
      exact ⟨rfl, l', rfl, rfl⟩
    · intro e s ⟨l', he, hs⟩
      rw [he, hs]
      have hc : castVal .u64 .u32 h.posn = h.posn := by
        simp only [castVal, Ty.signed, Bool.false_eq_true, if_false, Ty.modulus]; omega
      have hp : (mkPtr g.bs (g.baseS + 32) + h.posn) % 18446744073709551616 = mkPtr g.bs (g.baseS + 32 + h.posn) :=
        ptr_off g.bs (g.baseS + 32) h.posn g.hbs30 (by omega)
      exact runs_assign _ (by
        simp only [evalE, e1_4, e1_12, reduceCtorEq, if_false, hc, BinOp.needsPub2, BinOp.needsPub1, Bool.false_and, Bool.or_self,
          Bool.false_eq_true, binVal, Ty.modulus, Lab.join_pub_pub, hp]) ⟨rfl, l', rfl, rfl⟩
  · intro e s ⟨l, he, hs⟩
    rw [he, hs]
    let st1 : St := { st with leak := l, mem := (setBlock st.mem g.bs X1) }
    have hm1 : st1.mem[g.bs]? = some ⟨X1, g.baseS⟩ := by
      show (setBlock st.mem g.bs _)[g.bs]? = _
      rw [getElem?_setBlock', if_pos rfl, hmX]; rfl
    -- the call of the compression function
    refine runs_seq (Q := fun e s => e = E2 ∧ s.ent = st.ent ∧
        ∃ bytes', s.mem = setBlock st1.mem g.bs bytes' ∧ HObj bytes' ({ h with block := writeAt h.block h.posn (data.take (16 - h.posn)) }.compress 0) ∧
          bytes'.size = g.szS) ?_ ?_
    · refine (compress_obj g.prog 21 g.hcomp g.hperm E2 st1 (.var 3) (.cast .u8 .i32 (.lit 0)) g.bs ⟨X1, g.baseS⟩ 0 (by decide)
        (by simp only [evalE, ui2.e3, reduceCtorEq, if_false]) (by simp only [evalE, castVal_u8_i32_0]; rfl) hm1 g.halS
        (by show g.baseS + X1.size < ptrBase; rw [hX1s]; exact g.hltS)
        (by show (setBlock st.mem g.bs _).size + 2 < 2 ^ 30; rw [size_setBlock', ui.msz]; exact g.hsz30) _ ho1).weaken ?_
      intro sig e s ⟨h1, h2, h3, bytes', hm, hob, hbs, _⟩
      exact ⟨h1, h2, h3, bytes', hm, hob, by rw [hbs]; exact hX1s⟩
    · intro e s ⟨he, hent, bytes', hm, hob, hbsz⟩
      rw [he]
      have e2_5 : E2[5]? = some (16 - h.posn, Lab.pub) := by show (setVar E1 13 _)[5]? = _; rw [get_set_ne _ _ _ _ (by decide)]; exact e1_5
      have hp : (mkPtr g.bi (g.basei + off) + (16 - h.posn)) % 18446744073709551616 = mkPtr g.bi (g.basei + off + (16 - h.posn)) :=
        ptr_off g.bi (g.basei + off) (16 - h.posn) g.hbi30 (by omega)
      let E3 := setVar E2 1 (mkPtr g.bi (g.basei + off + (16 - h.posn)), Lab.pub)
      let E4 := setVar E3 2 (data.length - (16 - h.posn), Lab.pub)
      refine runs_seq (Q := fun e' s' => e' = E3 ∧ s' = s) ?_ ?_
      · exact runs_assign _ (by
          simp only [evalE, ui2.e1, e2_5, reduceCtorEq, if_false, hct, BinOp.needsPub2, BinOp.needsPub1, Bool.false_and, Bool.or_self,
            Bool.false_eq_true, binVal, Ty.modulus, Lab.join_pub_pub, hp]) ⟨rfl, rfl, rfl⟩
      · intro e' s' ⟨he', hs'⟩
        rw [he', hs']
        have e3_5 : E3[5]? = some (16 - h.posn, Lab.pub) := by show (setVar E2 1 _)[5]? = _; rw [get_set_ne _ _ _ _ (by decide)]; exact e2_5
        have e3_2 : E3[2]? = some (data.length, Lab.pub) := by show (setVar E2 1 _)[2]? = _; rw [get_set_ne _ _ _ _ (by decide)]; exact ui2.e2
        refine runs_seq (Q := fun e' s' => e' = E4 ∧ s' = s) ?_ ?_
        · exact runs_assign _ (by
            simp only [evalE, e3_2, e3_5, reduceCtorEq, if_false, hct, BinOp.needsPub2, BinOp.needsPub1, Bool.false_and, Bool.or_self,
              Bool.false_eq_true, binVal, Ty.modulus, Lab.join_pub_pub, sub64 data.length (16 - h.posn) hle hlen (by omega)]) ⟨rfl, rfl, rfl⟩
        · intro e' s' ⟨he', hs'⟩
          rw [he', hs']
          -- posn = 0
          have hms : s.mem[g.bs]? = some ⟨bytes', g.baseS⟩ := by rw [hm, getElem?_setBlock', if_pos rfl, hm1]; rfl
          have e4_3 : E4[3]? = some (mkPtr g.bs g.baseS, Lab.pub) := by
            show (setVar (setVar E2 1 _) 2 _)[3]? = _
            rw [get_set_ne _ _ _ _ (by decide), get_set_ne _ _ _ _ (by decide)]; exact ui2.e3
          let E5 := setVar E4 14 (mkPtr g.bs (g.baseS + 48), Lab.pub)
          have e4s : E4.size = 18 := by simp only [E4, E3, E2, E1, size_setVar]; exact ui.esz
          refine runs_seq (Q := fun e' s' => e' = E5 ∧ s' = s) (runs_assign _ (evalE_posnAddr g E4 e4_3) ⟨rfl, rfl, rfl⟩) ?_
          intro e' s' ⟨he', hs'⟩
          rw [he', hs']
          have e5_14 : E5[14]? = some (mkPtr g.bs (g.baseS + 48), Lab.pub) := get_set_eq _ _ _ (by rw [e4s]; decide)
          refine runs_store (mkPtr g.bs (g.baseS + 48)) 0 g.bs 48 4 .pub rfl (by simp only [evalE, e5_14, reduceCtorEq, if_false])
            (by simp only [evalE, castVal_u32_i32_0']) (resolve_word hms 48 (by have := g.halS; omega) (by omega) (by omega)) ?_
          rw [blockBytes_of hms]
          refine ⟨rfl, by simp only [E5, size_setVar]; exact e4s, ?_, ?_, ?_, ?_, ⟨_, ?_, hob.setPosn 0 (by decide), by rw [size_writeLE]; exact hbsz⟩, ?_, ?_,
            by show s.ent = _; rw [hent]; exact ui.ent, ?_, ?_⟩
          · show (setVar (setVar (setVar E2 1 _) 2 _) 14 _)[1]? = _
            rw [get_set_ne _ _ _ _ (by decide), get_set_ne _ _ _ _ (by decide), get_set_eq _ _ _ (by rw [ui2.esz]; decide)]
            rw [Nat.add_assoc]
          · show (setVar (setVar E3 2 _) 14 _)[2]? = _
            rw [get_set_ne _ _ _ _ (by decide), get_set_eq _ _ _ (by simp only [E3, size_setVar, ui2.esz]; decide)]
            simp only [List.length_drop]
          · show (setVar E4 14 _)[3]? = _
            rw [get_set_ne _ _ _ _ (by decide)]; exact e4_3
          · show (setVar (setVar (setVar E2 1 _) 2 _) 14 _)[4]? = _
            rw [get_set_ne _ _ _ _ (by decide), get_set_ne _ _ _ _ (by decide), get_set_ne _ _ _ _ (by decide)]; exact ui2.e4
          · show (setBlock s.mem g.bs _)[g.bs]? = _
            rw [getElem?_setBlock', if_pos rfl, hms]; rfl
          · intro j hj
            show (setBlock s.mem g.bs _)[j]? = _
            rw [getElem?_setBlock', if_neg hj, hm, getElem?_setBlock', if_neg hj]
            show (setBlock st.mem g.bs _)[j]? = _
            rw [getElem?_setBlock', if_neg hj]; exact ui.oth j hj
          · show (setBlock s.mem g.bs _).size = _
            rw [size_setBlock', hm, size_setBlock']
            show (setBlock st.mem g.bs _).size = _
            rw [size_setBlock']; exact ui.msz
          · intro k b hb
            rw [List.getElem?_drop] at hb
            have := ui.data (16 - h.posn + k) b hb
            rw [show off + (16 - h.posn) + k = off + (16 - h.posn + k) from by omega]; exact this
          · simp only [List.length_drop]; omega

def part1Stmt : Stmt :=
  seqs [.load 6 .u32 posnAddr,
        .ite (.bin .gt .u32 (.var 6) (.cast .u32 .i32 (.lit 0)))
          (seqs [seqs [.load 7 .u32 posnAddr, .assign 5 (.bin .sub .u32 (.cast .u32 .i32 (.lit 16)) (.var 7))],
                 .ite (.bin .gt .u64 (.cast .u64 .u32 (.var 5)) (.var 2)) earlyStmt .skip,
                 seqs [.load 12 .u32 posnAddr, .memcpy (.bin .add .u64 (.var 4) (.cast .u64 .u32 (.var 12))) (.var 1) (.cast .u64 .u32 (.var 5)),
                       .assign 13 (.bin .add .u64 (.var 4) (.cast .u64 .u32 (.var 12)))],
                 .call none 21 [.var 3, .cast .u8 .i32 (.lit 0)],
                 .assign 1 (.bin .add .u64 (.var 1) (.cast .u64 .u32 (.var 5))),
                 .assign 2 (.bin .sub .u64 (.var 2) (.cast .u64 .u32 (.var 5))),
                 seqs [.assign 14 posnAddr, .store .u32 (.var 14) (.cast .u32 .i32 (.lit 0))]])
          .skip]

def updateBody : Stmt :=
  seqs [.assign 3 (.var 0), .assign 4 (.bin .add .u64 (.var 3) (.lit 32)), part1Stmt, .loop loopBody, tailStmt]

theorem update_body_eq : f_tinyjambu_hash_update.body = updateBody := rfl

theorem sub32_16 (p : Nat) (hp : p < 16) : (16 + 4294967296 - p % 4294967296) % 4294967296 = 16 - p := by omega

/-- the first phase: deal with a partially filled block buffer -/
theorem part1_spec (g : UGeo) (env : Env) (st : St) (h : HState) (off : Nat) (data : Bytes) (ui : UI g env st h off data) :
    RunsTo g.prog part1Stmt env st (fun sig e s => (sig ≠ .normal ∧ Final g s (h.update data)) ∨
      (sig = .normal ∧ ∃ off' h1 rest1, UI g e s h1 off' rest1 ∧ h.update data = h1.blocks rest1)) := by
  obtain ⟨X, hmX, ho, hXs⟩ := ui.obj
  have hp16 := ho.p16
  have hltI := g.hltI; have hinb := ui.inb
  have hlen : data.length < 18446744073709551616 := by simp only [ptrBase] at hltI; omega
  unfold part1Stmt
  simp only [seqs]
  let E1 := setVar env 6 (h.posn, Lab.pub)
  have ui1 : UI g E1 st h off data := ui.setVar 6 (by decide) _
  have e1_6 : E1[6]? = some (h.posn, Lab.pub) := get_set_eq _ _ _ (by rw [ui.esz]; decide)
  refine runs_seq (Q := fun e s => ∃ l, e = E1 ∧ s = { st with leak := l }) (load_posn g _ st h off data ui 6 (by decide) (fun l => ⟨rfl, l, rfl, rfl⟩)) ?_
  intro e s ⟨l, he, hs⟩
  rw [he, hs]
  by_cases hp0 : 0 < h.posn
  · refine runs_ite_true 1 ?_ (by decide) ?_
    · simp only [evalE, e1_6, reduceCtorEq, if_false, castVal_u32_i32_0', BinOp.needsPub2, BinOp.needsPub1, Bool.false_and, Bool.or_self,
        Bool.false_eq_true, binVal, Ty.signed, gt_iff_lt, hp0, decide_true, b2n, if_true, Lab.join_pub_pub]
    -- temp = 16 - posn
    let E2 := setVar E1 7 (h.posn, Lab.pub)
    have ui2 : UI g E2 st h off data := ui1.setVar 7 (by decide) _
    have e2_7 : E2[7]? = some (h.posn, Lab.pub) := get_set_eq _ _ _ (by rw [ui1.esz]; decide)
    let E3 := setVar E2 5 (16 - h.posn, Lab.pub)
    have ui3 : UI g E3 st h off data := ui2.setVar 5 (by decide) _
    have e3_5 : E3[5]? = some (16 - h.posn, Lab.pub) := get_set_eq _ _ _ (by rw [ui2.esz]; decide)
    refine runs_seq (Q := fun e s => ∃ l, e = E3 ∧ s = { st with leak := l }) ?_ ?_
    · refine runs_seq (Q := fun e s => ∃ l, e = E2 ∧ s = { st with leak := l })
        (load_posn g _ _ h off data (ui1.leak _) 7 (by decide) (fun l => ⟨rfl, l, rfl, rfl⟩)) ?_
      intro e s ⟨l', he, hs⟩
      rw [he, hs]
      exact runs_assign _ (by
        simp only [evalE, e2_7, reduceCtorEq, if_false, castVal_u32_i32_16, BinOp.needsPub2, BinOp.needsPub1, Bool.false_and, Bool.or_self,
          Bool.false_eq_true, binVal, Ty.modulus, Lab.join_pub_pub, sub32_16 h.posn hp16]) ⟨rfl, l', rfl, rfl⟩
    · intro e s ⟨l', he, hs⟩
      rw [he, hs]
      have hct : castVal .u64 .u32 (16 - h.posn) = 16 - h.posn := by
        simp only [castVal, Ty.signed, Bool.false_eq_true, if_false, Ty.modulus]; omega
      by_cases hgt : 16 - h.posn > data.length
      · -- early return
        apply runs_seq_abort
        refine runs_ite_true 1 ?_ (by decide) ?_
        · simp only [evalE, e3_5, ui3.e2, reduceCtorEq, if_false, hct, BinOp.needsPub2, BinOp.needsPub1, Bool.false_and, Bool.or_self,
            Bool.false_eq_true, binVal, Ty.signed, gt_iff_lt, show data.length < 16 - h.posn from hgt, decide_true, b2n, if_true, Lab.join_pub_pub]
        refine (early_branch g E3 _ h off data (ui3.leak _) (by omega)).weaken ?_
        intro sig e s ⟨hs, hf⟩
        have hne : sig ≠ .normal := by rw [hs]; intro hh; cases hh
        refine ⟨hne, Or.inl ⟨hne, ?_⟩⟩
        have : h.update data = { h with block := writeAt h.block h.posn data, posn := h.posn + data.length } := by
          rw [HState.update]; simp only [hp0, if_true, hgt]
        rw [this]; exact hf
      · -- fill, compress, continue
        refine runs_seq (Q := fun e s => ∃ l, e = E3 ∧ s = { st with leak := l }) ?_ ?_
        · refine runs_ite_false ?_ (runs_skip ⟨rfl, _, rfl, rfl⟩)
          have : ¬ data.length < 16 - h.posn := by omega
          simp only [evalE, e3_5, ui3.e2, reduceCtorEq, if_false, hct, BinOp.needsPub2, BinOp.needsPub1, Bool.false_and, Bool.or_self,
            Bool.false_eq_true, binVal, Ty.signed, gt_iff_lt, this, decide_false, b2n, Lab.join_pub_pub]
        · intro e s ⟨l'', he, hs⟩
          rw [he, hs]
          refine (fill_branch g E3 _ h off data (ui3.leak _) hp0 (by omega) e3_5).weaken ?_
          intro sig e s ⟨hs, hu⟩
          refine Or.inr ⟨hs, _, _, _, hu, ?_⟩
          rw [HState.update]; simp only [hp0, if_true, hgt, if_false]
  · have hz : h.posn = 0 := by omega
    refine runs_ite_false ?_ (runs_skip (Or.inr ⟨rfl, off, h, data, ui1.leak _, ?_⟩))
    · simp only [evalE, e1_6, reduceCtorEq, if_false, castVal_u32_i32_0', BinOp.needsPub2, BinOp.needsPub1, Bool.false_and, Bool.or_self,
        Bool.false_eq_true, binVal, Ty.signed, gt_iff_lt, hz, Nat.lt_irrefl, decide_false, b2n, Lab.join_pub_pub]
    · rw [HState.update]; simp only [hp0, if_false]

/-- **the body of the regenerated `tinyjambu_hash_update`** -/
theorem update_body (g : UGeo) (env : Env) (st : St) (h : HState) (off : Nat) (data : Bytes)
    (esz : env.size = 18) (e0 : env[0]? = some (mkPtr g.bs g.baseS, .pub)) (e1 : env[1]? = some (mkPtr g.bi (g.basei + off), .pub))
    (e2 : env[2]? = some (data.length, .pub))
    (obj : ∃ X, st.mem[g.bs]? = some ⟨X, g.baseS⟩ ∧ HObj X h ∧ X.size = g.szS)
    (oth : ∀ j, j ≠ g.bs → st.mem[j]? = g.mem0[j]?) (msz : st.mem.size = g.mem0.size) (ent : st.ent = g.ent0)
    (hdata : ∀ k b, data[k]? = some b → g.XI[off + k]? = some (b, .sec)) (inb : off + data.length ≤ g.XI.size) :
    RunsTo g.prog updateBody env st (fun _ _ s => Final g s (h.update data)) := by
  have hszS := g.hszS; have hltS := g.hltS
  unfold updateBody
  simp only [seqs]
  let E1 := setVar env 3 (mkPtr g.bs g.baseS, Lab.pub)
  let E2 := setVar E1 4 (mkPtr g.bs (g.baseS + 32), Lab.pub)
  have hp32 : (mkPtr g.bs g.baseS + 32) % 18446744073709551616 = mkPtr g.bs (g.baseS + 32) := ptr_off g.bs g.baseS 32 g.hbs30 (by omega)
  have e1_3 : E1[3]? = some (mkPtr g.bs g.baseS, Lab.pub) := get_set_eq _ _ _ (by rw [esz]; decide)
  have ui : UI g E2 st h off data :=
    ⟨by simp only [E2, E1, size_setVar]; exact esz,
     by show (setVar (setVar env 3 _) 4 _)[1]? = _; rw [get_set_ne _ _ _ _ (by decide), get_set_ne _ _ _ _ (by decide)]; exact e1,
     by show (setVar (setVar env 3 _) 4 _)[2]? = _; rw [get_set_ne _ _ _ _ (by decide), get_set_ne _ _ _ _ (by decide)]; exact e2,
     by show (setVar E1 4 _)[3]? = _; rw [get_set_ne _ _ _ _ (by decide)]; exact e1_3,
     get_set_eq _ _ _ (by simp only [E1, size_setVar, esz]; decide), obj, oth, msz, ent, hdata, inb⟩
  refine runs_seq (Q := fun e s => e = E1 ∧ s = st) (runs_assign _ (by simp only [evalE, e0, reduceCtorEq, if_false]) ⟨rfl, rfl, rfl⟩) ?_
  intro e s ⟨he, hs⟩
  rw [he, hs]
  refine runs_seq (Q := fun e s => e = E2 ∧ s = st) (runs_assign _ (by
    simp only [evalE, e1_3, reduceCtorEq, if_false, BinOp.needsPub2, BinOp.needsPub1, Bool.false_and, Bool.or_self, Bool.false_eq_true, binVal,
      Ty.modulus, Lab.join_pub_pub, hp32]) ⟨rfl, rfl, rfl⟩) ?_
  intro e s ⟨he, hs⟩
  rw [he, hs]
  refine runs_seq_cases (Q := fun e s => ∃ off' h1 rest1, UI g e s h1 off' rest1 ∧ h.update data = h1.blocks rest1) (part1_spec g E2 st h off data ui) ?_
  intro e s ⟨off', h1, rest1, ui', hup⟩
  refine runs_seq (Q := fun e s => ∃ off'', UI g e s (fullBlocks h1 rest1) off'' (restOf rest1)) (loop_spec g rest1.length rest1 rfl e s h1 off' ui') ?_
  intro e s ⟨off'', ui''⟩
  refine (tail_spec g e s _ off'' (restOf rest1) ui'' (restOf_lt rest1)).weaken ?_
  intro sig e s ⟨_, h1', h2', h3', X, hm, hs', ho⟩
  refine ⟨h1', h2', h3', X, hm, hs', ?_⟩
  rw [hup, blocks_eq]
  exact ho

theorem enter_update (ps pi n : Nat) (mem : Array Block) :
    (enterFun f_tinyjambu_hash_update [(ps, .pub), (pi, .pub), (n, .pub)] mem).2 = mem ∧
    (enterFun f_tinyjambu_hash_update [(ps, .pub), (pi, .pub), (n, .pub)] mem).1.size = 18 ∧
    (enterFun f_tinyjambu_hash_update [(ps, .pub), (pi, .pub), (n, .pub)] mem).1[0]? = some (ps, .pub) ∧
    (enterFun f_tinyjambu_hash_update [(ps, .pub), (pi, .pub), (n, .pub)] mem).1[1]? = some (pi, .pub) ∧
    (enterFun f_tinyjambu_hash_update [(ps, .pub), (pi, .pub), (n, .pub)] mem).1[2]? = some (n, .pub) := ⟨rfl, rfl, rfl, rfl, rfl⟩

/-- **`tinyjambu_hash_update(state, in, inlen)` as a call**: the state object represents `h.update data` afterwards; nothing else in memory
    changes; the entropy script is untouched. -/
theorem update_call (g : UGeo) (fn : Nat) (hprog : g.prog[fn]? = some f_tinyjambu_hash_update)
    (env : Env) (st : St) (es ei el : Expr) (h : HState) (off : Nat) (data : Bytes)
    (hes : evalE env es = .ok (mkPtr g.bs g.baseS, .pub)) (hei : evalE env ei = .ok (mkPtr g.bi (g.basei + off), .pub))
    (hel : evalE env el = .ok (data.length, .pub))
    (obj : ∃ X, st.mem[g.bs]? = some ⟨X, g.baseS⟩ ∧ HObj X h ∧ X.size = g.szS)
    (oth : ∀ j, j ≠ g.bs → st.mem[j]? = g.mem0[j]?) (msz : st.mem.size = g.mem0.size) (ent : st.ent = g.ent0)
    (hdata : ∀ k b, data[k]? = some b → g.XI[off + k]? = some (b, .sec)) (inb : off + data.length ≤ g.XI.size) :
    RunsTo g.prog (.call none fn [es, ei, el]) env st (fun sig e s => sig = .normal ∧ e = env ∧ Final g s (h.update data)) := by
  obtain ⟨em, e18, e0, e1, e2⟩ := enter_update (mkPtr g.bs g.baseS) (mkPtr g.bi (g.basei + off)) data.length st.mem
  refine runs_call_none f_tinyjambu_hash_update [(mkPtr g.bs g.baseS, .pub), (mkPtr g.bi (g.basei + off), .pub), (data.length, .pub)] hprog
    (by simp only [evalArgs, hes, hei, hel]) rfl ?_
  rw [update_body_eq]
  refine (update_body g _ { st with mem := (enterFun f_tinyjambu_hash_update _ st.mem).2 } h off data e18 e0 e1 e2
    (by rw [em]; exact obj) (by rw [em]; exact oth) (by rw [em]; exact msz) ent hdata inb).weaken ?_
  intro sig e s ⟨h1, h2, h3, X, hm, hs, ho⟩
  refine ⟨rfl, rfl, h1, ?_, ?_, X, ?_, hs, ho⟩
  · simp only [Array.size_extract]; omega
  · intro j hj
    simp only [Array.getElem?_extract, Nat.zero_add, Nat.sub_zero]
    by_cases hjs : j < min st.mem.size s.mem.size
    · simp only [hjs, if_true]; exact h3 j hj
    · simp only [hjs, if_false]
      rw [← h3 j hj, Array.getElem?_eq_none (by omega)]
  · simp only [Array.getElem?_extract, Nat.zero_add, Nat.sub_zero]
    have : g.bs < s.mem.size := by
      by_cases hb : g.bs < s.mem.size
      · exact hb
      · rw [Array.getElem?_eq_none (by omega)] at hm; cases hm
    have hjs : g.bs < min st.mem.size s.mem.size := by omega
    simp only [hjs, if_true]; exact hm

end TJ.MiniC.Hoare
