/-
  TJ.Proofs.Aead — lemmas about the AEAD/SIV message loops for an arbitrary keyed
  permutation `P`.
-/
import TJ.Proofs.Bytes
namespace TJ

@[simp] theorem squeeze_addDomain (s : W4) (d : UInt32) : squeeze (addDomain s d) = squeeze s := rfl
@[simp] theorem squeeze_absorbW (s : W4) (w : UInt32) : squeeze (absorbW s w) = squeeze s := rfl

theorem encBody_length (P : Perm) (pk : Nat) (s : W4) (m : Bytes) :
    (encBody P pk s m).2.length = m.length := by
  fun_induction encBody P pk s m with
  | case1 s b0 b1 b2 b3 rest s1 data s2 data' r ih => simp [store32, r, ih]
  | case2 => simp
  | case3 => simp
  | case4 => simp
  | case5 => simp

theorem decBody_length (P : Perm) (pk : Nat) (s : W4) (c : Bytes) :
    (decBody P pk s c).2.length = c.length := by
  fun_induction decBody P pk s c with
  | case1 s b0 b1 b2 b3 rest s1 data s2 r ih => simp [store32, r, ih]
  | case2 => simp
  | case3 => simp
  | case4 => simp
  | case5 => simp

/-- decrypting the body that encrypt produced, from the same state, returns the
    plaintext and reaches the same state (so the same tag) -/
theorem decBody_encBody (P : Perm) (pk : Nat) (s : W4) (m : Bytes) :
    decBody P pk s (encBody P pk s m).2 = ((encBody P pk s m).1, m) := by
  fun_induction encBody P pk s m with
  | case1 s b0 b1 b2 b3 rest s1 data s2 data' r ih =>
    simp only [store32, List.cons_append, List.nil_append, decBody]
    have hd : load32 data'.toUInt8 (data' >>> 8).toUInt8 (data' >>> 16).toUInt8 (data' >>> 24).toUInt8 ^^^ squeeze s1 = data := by
      rw [load32_bytes]; simp only [data', s2, squeeze_absorbW]; exact xor_xor_cancel _ _
    rw [hd]
    simp only [data] at ih ⊢
    rw [show absorbW s1 (load32 b0 b1 b2 b3) = s2 from rfl, ih]
    simp [r, load32_b0, load32_b1, load32_b2, load32_b3]
  | case2 s b0 b1 b2 s1 data s2 data' =>
    simp only [decBody]
    have hk : squeeze s2 = squeeze s1 := rfl
    have hd : (load24 data'.toUInt8 (data' >>> 8).toUInt8 (data' >>> 16).toUInt8 ^^^ squeeze s1) &&& 0xFFFFFF = data := by
      simp only [data', hk, data]; exact tail3_dec _ _ _ _
    rw [hd]; simp [data, s2, s1, load24_b0, load24_b1, load24_b2]
  | case3 s b0 b1 s1 data s2 data' =>
    simp only [decBody]
    have hk : squeeze s2 = squeeze s1 := rfl
    have hd : (load16 data'.toUInt8 (data' >>> 8).toUInt8 ^^^ squeeze s1) &&& 0xFFFF = data := by
      simp only [data', hk, data]; exact tail2_dec _ _ _
    rw [hd]; simp [data, s2, s1, load16_b0, load16_b1]
  | case4 s b0 s1 data s2 =>
    simp only [decBody]
    have hk : squeeze s2 = squeeze s1 := rfl
    have hd : ((squeeze s2 ^^^ data).toUInt8.toUInt32 ^^^ squeeze s1) &&& 0xFF = data := by
      simp only [hk, data]; exact tail1_dec _ _
    rw [hd]; simp [data, s2, s1]
  | case5 s => simp [decBody]

end TJ

namespace TJ
/-- the converse: re-encrypting the candidate plaintext from the same state reproduces
    the ciphertext body and reaches the same state -/
theorem encBody_decBody (P : Perm) (pk : Nat) (s : W4) (c : Bytes) :
    encBody P pk s (decBody P pk s c).2 = ((decBody P pk s c).1, c) := by
  fun_induction decBody P pk s c with
  | case1 s b0 b1 b2 b3 rest s1 data s2 r ih =>
    simp only [store32, List.cons_append, List.nil_append, encBody]
    rw [load32_bytes]
    rw [show absorbW s1 data = s2 from rfl, ih]
    have : data ^^^ squeeze s2 = load32 b0 b1 b2 b3 := by
      simp only [data, s2, squeeze_absorbW]; exact xor_xor_cancel _ _
    rw [this]
    simp [r, load32_b0, load32_b1, load32_b2, load32_b3]
  | case2 s b0 b1 b2 s1 data s2 =>
    simp only [encBody]
    rw [show load24 data.toUInt8 (data >>> 8).toUInt8 (data >>> 16).toUInt8 = data from load24_idem _]
    simp only [s2, data, s1, squeeze_addDomain, squeeze_absorbW, tail3_enc0, tail3_enc1, tail3_enc2]
  | case3 s b0 b1 s1 data s2 =>
    simp only [encBody]
    rw [show load16 data.toUInt8 (data >>> 8).toUInt8 = data from load16_idem _]
    simp only [s2, data, s1, squeeze_addDomain, squeeze_absorbW, tail2_enc0, tail2_enc1]
  | case4 s b0 s1 data s2 =>
    simp only [encBody]
    rw [show data.toUInt8.toUInt32 = data from tail1_idem _ _]
    simp only [s2, data, s1, squeeze_addDomain, squeeze_absorbW, tail1_enc']
  | case5 s => simp [encBody]
end TJ
