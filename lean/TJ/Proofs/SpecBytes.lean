/-
  TJ.Proofs.SpecBytes — the dictionary between the C-level words/bytes (UInt32/UInt8, le_load/le_store)
  and the specification's bit vectors.
-/
import TJ.Proofs.Perm
import TJ.Spec.Hash
import TJ.Impl.Aead
namespace TJ
open Spec

theorem pack_addDomain (s : W4) (d : UInt32) :
    pack (addDomain s d) = pack s ^^^ (d.toBitVec.zeroExtend 128 <<< 32) := by
  obtain ⟨a, b, c, e⟩ := s
  simp only [pack, addDomain, UInt32.toBitVec_xor]
  bv_decide

theorem pack_absorbW (s : W4) (w : UInt32) : pack (absorbW s w) = xorData (pack s) w.toBitVec := by
  obtain ⟨a, b, c, e⟩ := s
  simp only [pack, absorbW, xorData, UInt32.toBitVec_xor]
  bv_decide

theorem squeeze_ks (s : W4) : (squeeze s).toBitVec = ks (pack s) := by
  obtain ⟨a, b, c, e⟩ := s
  simp only [pack, squeeze, ks]
  bv_decide

theorem pack_zero : pack W4.zero = 0 := by
  simp only [pack, W4.zero]; decide

theorem pack_inj (s t : W4) (h : pack s = pack t) : s = t := by
  obtain ⟨a, b, c, e⟩ := s
  obtain ⟨a', b', c', e'⟩ := t
  simp only [pack] at h
  have h1 : a.toBitVec = a'.toBitVec := by bv_decide
  have h2 : b.toBitVec = b'.toBitVec := by bv_decide
  have h3 : c.toBitVec = c'.toBitVec := by bv_decide
  have h4 : e.toBitVec = e'.toBitVec := by bv_decide
  rw [UInt32.toBitVec_inj] at h1 h2 h3 h4
  subst h1 h2 h3 h4; rfl

/-- domain separators as used by the C code (UInt32 constants XORed into word 1) -/
theorem pack_addDomain_frame (s : W4) (d : UInt32) (d8 : BitVec 8) (h : d.toBitVec = d8.zeroExtend 32) :
    pack (addDomain s d) = frame (pack s) d8 := by
  rw [pack_addDomain, h]; unfold frame
  congr 2

theorem pack_addDomain_len (s : W4) (l : Nat) (hl : l < 4) :
    pack (addDomain s l.toUInt32) = xorLen (pack s) l := by
  rw [pack_addDomain]; unfold xorLen
  match l, hl with
  | 0, _ => rfl
  | 1, _ => rfl
  | 2, _ => rfl
  | 3, _ => rfl

/-! ### bytes and words -/

theorem load32_leWord (b0 b1 b2 b3 : UInt8) : (load32 b0 b1 b2 b3).toBitVec = leWord [b0, b1, b2, b3] := by
  simp only [load32, leWord, UInt32.toBitVec_or, UInt32.toBitVec_shiftLeft, UInt8.toBitVec_toUInt32]
  bv_decide

theorem load24_leWord (b0 b1 b2 : UInt8) : (load24 b0 b1 b2).toBitVec = leWord [b0, b1, b2] := by
  simp only [load24, load16, leWord, UInt32.toBitVec_or, UInt32.toBitVec_shiftLeft, UInt8.toBitVec_toUInt32]
  bv_decide

theorem load16_leWord (b0 b1 : UInt8) : (load16 b0 b1).toBitVec = leWord [b0, b1] := by
  simp only [load16, leWord, UInt32.toBitVec_or, UInt32.toBitVec_shiftLeft, UInt8.toBitVec_toUInt32]
  bv_decide

theorem load8_leWord (b0 : UInt8) : b0.toUInt32.toBitVec = leWord [b0] := by
  simp only [leWord, UInt8.toBitVec_toUInt32]
  bv_decide

theorem toUInt8_ofBitVec (w : UInt32) : w.toUInt8 = UInt8.ofBitVec (w.toBitVec.extractLsb' 0 8) := by
  apply UInt8.toBitVec_inj.mp
  simp only [UInt32.toBitVec_toUInt8]
  bv_decide

theorem store32_wordBytes (w : UInt32) : store32 w = wordBytes w.toBitVec 4 := by
  simp only [store32, wordBytes, toUInt8_ofBitVec, UInt32.toBitVec_shiftRight]
  have e1 : w.toBitVec >>> (UInt32.toBitVec 8 % 32) = w.toBitVec >>> 8 := by bv_decide
  have e2 : w.toBitVec >>> (UInt32.toBitVec 16 % 32) = w.toBitVec >>> 8 >>> 8 := by bv_decide
  have e3 : w.toBitVec >>> (UInt32.toBitVec 24 % 32) = w.toBitVec >>> 8 >>> 8 >>> 8 := by bv_decide
  rw [e1, e2, e3]

end TJ

namespace TJ
open Spec

theorem bytes3_wordBytes (w : UInt32) : [w.toUInt8, (w >>> 8).toUInt8, (w >>> 16).toUInt8] = wordBytes w.toBitVec 3 := by
  simp only [wordBytes, toUInt8_ofBitVec, UInt32.toBitVec_shiftRight]
  have e1 : w.toBitVec >>> (UInt32.toBitVec 8 % 32) = w.toBitVec >>> 8 := by bv_decide
  have e2 : w.toBitVec >>> (UInt32.toBitVec 16 % 32) = w.toBitVec >>> 8 >>> 8 := by bv_decide
  rw [e1, e2]

theorem bytes2_wordBytes (w : UInt32) : [w.toUInt8, (w >>> 8).toUInt8] = wordBytes w.toBitVec 2 := by
  simp only [wordBytes, toUInt8_ofBitVec, UInt32.toBitVec_shiftRight]
  have e1 : w.toBitVec >>> (UInt32.toBitVec 8 % 32) = w.toBitVec >>> 8 := by bv_decide
  rw [e1]

theorem bytes1_wordBytes (w : UInt32) : [w.toUInt8] = wordBytes w.toBitVec 1 := by
  simp only [wordBytes, toUInt8_ofBitVec]

theorem leWord_wordBytes3 (x : BitVec 32) : leWord (wordBytes x 3) = x &&& 0xFFFFFF#32 := by
  simp only [leWord, wordBytes]; bv_decide
theorem leWord_wordBytes2 (x : BitVec 32) : leWord (wordBytes x 2) = x &&& 0xFFFF#32 := by
  simp only [leWord, wordBytes]; bv_decide
theorem leWord_wordBytes1 (x : BitVec 32) : leWord (wordBytes x 1) = x &&& 0xFF#32 := by
  simp only [leWord, wordBytes]; bv_decide

end TJ
