/-
  TJ.Proofs.AeadDecStmt — the bodies of tinyjambu_{128,192,256}_aead_decrypt as regenerated, written as one statement function of the
  number of key words and the indices of the functions called; the three `rfl` checks tie it to the regenerated terms.
-/
import TJ.Proofs.AeadEncCall
namespace TJ.MiniC.Hoare
open TJ TJ.MiniC TJ.MiniC.PermC TJ.Gen.MiniC

def mlenStmt : Stmt := seqs [.assign 12 (.var 1), .store .u64 (.var 12) (.bin .sub .u64 (.var 3) (.cast .u64 .i32 (.lit 8)))]

def decLoopBody (pidx pk v : Nat) : Stmt :=
  .ite (.bin .ge .u64 (.var 3) (.cast .u64 .i32 (.lit 4)))
    (seqs [xorPub 1 v (v + 1) (rc 80) 9, .call none pidx [.var 9, rc pk],
           seqs (loadsOf [(v + 2, 3), (v + 3, 2), (v + 4, 1), (v + 5, 0)] 2 ++
             [.load (v + 6) .u32 (addrS 2 9), .assign 11 (.bin .bxor .u32 (e32 (v + 2) (v + 3) (v + 4) (v + 5)) (.var (v + 6)))]),
           xorPub 3 (v + 7) (v + 8) (.var 11) 9,
           seqs [.assign (v + 9) (.var 11), byteStmtV 0 (v + 10) 0 (v + 9) 0, byteStmtV 0 (v + 11) 1 (v + 9) 1, byteStmtV 0 (v + 12) 2 (v + 9) 2,
                 byteStmtV 0 (v + 13) 3 (v + 9) 3],
           .assign 2 (.bin .add .u64 (.var 2) (.lit 4)), .assign 0 (.bin .add .u64 (.var 0) (.lit 4)),
           .assign 3 (.bin .sub .u64 (.var 3) (.cast .u64 .i32 (.lit 4)))])
    .brk

def decTail (pidx pk v : Nat) : Stmt :=
  .ite (.bin .eq .u64 (.var 3) (.cast .u64 .i32 (.lit 1)))
    (seqs [xorPub 1 (v + 14) (v + 15) (rc 80) 9, .call none pidx [.var 9, rc pk],
           seqs (loadsOf [(v + 16, 0)] 2 ++
             [.load (v + 17) .u32 (addrS 2 9), .assign 11 (.bin .band .u32 (.bin .bxor .u32 (e8 (v + 16)) (.var (v + 17))) (.lit 255))]),
           xorPub 3 (v + 18) (v + 19) (.var 11) 9, xorPub 1 (v + 20) (v + 21) (rc 1) 9,
           byteStmtV 0 (v + 22) 0 11 0, .assign 2 (.bin .add .u64 (.var 2) (.lit 1))])
    (.ite (.bin .eq .u64 (.var 3) (.cast .u64 .i32 (.lit 2)))
      (seqs [xorPub 1 (v + 23) (v + 24) (rc 80) 9, .call none pidx [.var 9, rc pk],
             seqs (loadsOf [(v + 25, 1), (v + 26, 0)] 2 ++
               [.load (v + 27) .u32 (addrS 2 9), .assign 11 (.bin .band .u32 (.bin .bxor .u32 (e16 (v + 25) (v + 26)) (.var (v + 27))) (.lit 65535))]),
             xorPub 3 (v + 28) (v + 29) (.var 11) 9, xorPub 1 (v + 30) (v + 31) (rc 2) 9,
             byteStmtV 0 (v + 32) 0 11 0, byteStmtV 0 (v + 33) 1 11 1, .assign 2 (.bin .add .u64 (.var 2) (.lit 2))])
      (.ite (.bin .eq .u64 (.var 3) (.cast .u64 .i32 (.lit 3)))
        (seqs [xorPub 1 (v + 34) (v + 35) (rc 80) 9, .call none pidx [.var 9, rc pk],
               seqs (loadsOf [(v + 36, 1), (v + 37, 0), (v + 38, 2)] 2 ++ [.assign 11 (e24 (v + 36) (v + 37) (v + 38))]),
               seqs [.load (v + 39) .u32 (addrS 2 9), .assign 11 (.bin .band .u32 (.bin .bxor .u32 (.var 11) (.var (v + 39))) (.lit 16777215))],
               xorPub 3 (v + 40) (v + 41) (.var 11) 9, xorPub 1 (v + 42) (v + 43) (rc 3) 9,
               byteStmtV 0 (v + 44) 0 11 0, byteStmtV 0 (v + 45) 1 11 1, byteStmtV 0 (v + 46) 2 11 2, .assign 2 (.bin .add .u64 (.var 2) (.lit 3))])
        .skip))

def decStmt (nk pidx pk sidx aidx gidx cidx : Nat) : Stmt :=
  seqs (.assign 8 (.var 0) :: .ite (.bin .lt .u64 (.var 3) (.cast .u64 .i32 (.lit 8))) (.ret (some (.un .neg .i32 (.lit 1)))) .skip :: mlenStmt ::
    ((List.range' 0 nk).map (keyWordStmt 9 13) ++
    [.call none sidx [.var 9, .var 6, .cast .u8 .i32 (.lit 16)],
     .call none aidx [.var 9, .var 4, .var 5, .cast .u8 .i32 (.lit 48), .cast .u32 .i32 (.lit 5)],
     .assign 3 (.bin .sub .u64 (.var 3) (.cast .u64 .i32 (.lit 8))),
     .loop (decLoopBody pidx pk (13 + 5 * nk)), decTail pidx pk (13 + 5 * nk),
     .call none gidx [.var 9, .var 10],
     seqs [.load (13 + 5 * nk + 47) .u64 (.var 1),
           .call (some (13 + 5 * nk + 48)) cidx [.var 8, .var (13 + 5 * nk + 47), .var 10, .var 2, .cast .u64 .i32 (.lit 8)],
           .ret (some (.var (13 + 5 * nk + 48)))]]))

theorem dec128_eq : f_tinyjambu_128_aead_decrypt.body = decStmt 4 42 8 53 12 17 15 := rfl
theorem dec192_eq : f_tinyjambu_192_aead_decrypt.body = decStmt 6 43 9 54 13 18 15 := rfl
theorem dec256_eq : f_tinyjambu_256_aead_decrypt.body = decStmt 8 44 10 55 14 19 15 := rfl

end TJ.MiniC.Hoare
