/-
  TJ.Proofs.Update1 — `tinyjambu_hash_update(state, p, 1)` executed directly on a state object with arbitrary defined labels: the single data
  byte keeps its own label (it is only read), so a public byte that shares a block with other data (the HKDF block counter) stays public.
-/
import TJ.Proofs.HashEmpty
namespace TJ.MiniC.Hoare
open TJ TJ.MiniC TJ.MiniC.PermC TJ.Gen.MiniC

def u1Rest : Stmt :=
  .seq (.seq (.load 12 .u32 posnAddr) (.seq (.memcpy (.bin .add .u64 (.var 4) (.cast .u64 .u32 (.var 12))) (.var 1) (.cast .u64 .u32 (.var 5)))
          (.assign 13 (.bin .add .u64 (.var 4) (.cast .u64 .u32 (.var 12))))))
    (.seq (.call none 21 [.var 3, .cast .u8 .i32 (.lit 0)])
      (.seq (.assign 1 (.bin .add .u64 (.var 1) (.cast .u64 .u32 (.var 5))))
        (.seq (.assign 2 (.bin .sub .u64 (.var 2) (.cast .u64 .u32 (.var 5))))
          (.seq (.assign 14 posnAddr) (.store .u32 (.var 14) (.cast .u32 .i32 (.lit 0)))))))

theorem sliceBytes_one {X : Array LByte} {off : Nat} {x : LByte} (h : X[off]? = some x) : sliceBytes X off 1 = [x] := by
  simp only [sliceBytes, h]

theorem update_one_model (h : HState) (v : UInt8) (hp : h.posn < 16) :
    h.update [v] = if h.posn = 0 then { h with block := writeAt h.block 0 [v], posn := 1 }
      else if h.posn < 15 then { h with block := writeAt h.block h.posn [v], posn := h.posn + 1 }
      else { ({ h with block := writeAt h.block h.posn [v] }.compress 0) with posn := 0 } := by
  unfold HState.update
  by_cases h0 : h.posn = 0
  · simp only [h0, Nat.lt_irrefl, if_false, if_true]
    unfold HState.blocks
    simp
  · have hpos : 0 < h.posn := Nat.pos_of_ne_zero h0
    simp only [hpos, if_true, h0, if_false, List.length_cons, List.length_nil, Nat.zero_add]
    by_cases h15 : h.posn < 15
    · simp only [h15, if_true, show 16 - h.posn > 1 from by omega]
    · have e : h.posn = 15 := by omega
      simp only [h15, if_false, show ¬ 16 - h.posn > 1 from by omega]
      unfold HState.blocks
      simp [e]

/-- **`tinyjambu_hash_update(state, p, 1)`** with the byte at `p` carrying any defined label -/
theorem update1_call (prog : Program) (fn : Nat) (hprog : prog[fn]? = some f_tinyjambu_hash_update)
    (hcomp : prog[idx_tinyjambu_hash_compress]? = some f_tinyjambu_hash_compress)
    (hperm : prog[idx_tinyjambu_permutation_256]? = some f_tinyjambu_permutation_256)
    (env : Env) (st : St) (es ei el : Expr) (bs bi : Nat) (X XI : Array LByte) (baseS basei off : Nat) (h : HState) (v : UInt8) (l : Lab)
    (hes : evalE env es = .ok (mkPtr bs baseS, .pub)) (hei : evalE env ei = .ok (mkPtr bi (basei + off), .pub)) (hel : evalE env el = .ok (1, .pub))
    (hS : st.mem[bs]? = some ⟨X, baseS⟩) (hI : st.mem[bi]? = some ⟨XI, basei⟩) (hne : bi ≠ bs)
    (hrep : HObjV X h) (halS : baseS % 4 = 0) (hltS : baseS + X.size < ptrBase) (hltI : basei + XI.size < ptrBase) (hbs30 : bs < 2 ^ 30)
    (hsz30 : st.mem.size + 2 < 2 ^ 30) (hx : XI[off]? = some (v, l)) (hl : l ≠ Lab.undef) :
    RunsTo prog (.call none fn [es, ei, el]) env st (fun sig e s => sig = .normal ∧ e = env ∧ s.ent = st.ent ∧ s.mem.size = st.mem.size ∧
      (∀ j, j ≠ bs → ORel BlockLe s.mem[j]? st.mem[j]?) ∧ ∃ X', s.mem[bs]? = some ⟨X', baseS⟩ ∧ X'.size = X.size ∧ HObjV X' (h.update [v])) := by
  obtain ⟨em, e18, e0, e1, e2⟩ := enter_update (mkPtr bs baseS) (mkPtr bi (basei + off)) 1 st.mem
  refine runs_call_none f_tinyjambu_hash_update [(mkPtr bs baseS, .pub), (mkPtr bi (basei + off), .pub), (1, .pub)] hprog (by simp only [evalArgs, hes, hei, hel]) rfl ?_
  rw [update_body_eq, em]
  generalize (enterFun f_tinyjambu_hash_update [(mkPtr bs baseS, Lab.pub), (mkPtr bi (basei + off), Lab.pub), (1, Lab.pub)] st.mem).1 = E0 at e18 e0 e1 e2
  have hsz := hrep.sz
  have hp16 := hrep.p16
  have hoffI : off < XI.size := by
    by_cases hh : off < XI.size
    · exact hh
    · rw [Array.getElem?_eq_none (by omega)] at hx; cases hx
  have hp48 : (mkPtr bs baseS + 48) % 18446744073709551616 = mkPtr bs (baseS + 48) := ptr_off bs baseS 48 hbs30 (by omega)
  have hp32 : (mkPtr bs baseS + 32) % 18446744073709551616 = mkPtr bs (baseS + 32) := ptr_off bs baseS 32 hbs30 (by omega)
  have hpP : (mkPtr bs (baseS + 32) + h.posn) % 18446744073709551616 = mkPtr bs (baseS + (32 + h.posn)) := by
    rw [ptr_off bs (baseS + 32) h.posn hbs30 (by omega), Nat.add_assoc]
  rw [update_one_model h v hp16]
  -- the common end
  have hfin : ∀ (s : St) (h' : HState), s.ent = st.ent → s.mem.size = st.mem.size → (∀ j, j ≠ bs → ORel BlockLe s.mem[j]? st.mem[j]?) →
      (∃ X', s.mem[bs]? = some ⟨X', baseS⟩ ∧ X'.size = X.size ∧ HObjV X' h') →
      (s.ent = st.ent ∧ (s.mem.extract 0 st.mem.size).size = st.mem.size ∧ (∀ j, j ≠ bs → ORel BlockLe (s.mem.extract 0 st.mem.size)[j]? st.mem[j]?) ∧
        ∃ X', (s.mem.extract 0 st.mem.size)[bs]? = some ⟨X', baseS⟩ ∧ X'.size = X.size ∧ HObjV X' h') := by
    intro s h' hent hms hoth hobj
    have hext : s.mem.extract 0 st.mem.size = s.mem := by rw [← hms]; exact extract_self _
    rw [hext]
    exact ⟨hent, hms, hoth, hobj⟩
  have hle_refl : ∀ (x : Option Block), ORel BlockLe x x := fun x => by
    cases x with
    | none => trivial
    | some b => exact BlockLe.refl b
  -- memory after writing the byte into the block buffer at `p` and setting `posn := q`
  have hstash : ∀ (p q : Nat), p < 16 → q < 16 → ∀ (s : St), s.ent = st.ent →
      s.mem = setBlock (setBlock st.mem bs (writeBytes X (32 + p) [(v, l)])) bs (writeLE (writeBytes X (32 + p) [(v, l)]) 48 q .pub 4) →
      (s.ent = st.ent ∧ (s.mem.extract 0 st.mem.size).size = st.mem.size ∧ (∀ j, j ≠ bs → ORel BlockLe (s.mem.extract 0 st.mem.size)[j]? st.mem[j]?) ∧
        ∃ X', (s.mem.extract 0 st.mem.size)[bs]? = some ⟨X', baseS⟩ ∧ X'.size = X.size ∧ HObjV X' { h with block := writeAt h.block p [v], posn := q }) := by
    intro p q hp hq s hent hm
    refine hfin s _ hent (by rw [hm, size_setBlock', size_setBlock']) (fun j hj => by rw [hm, getElem?_setBlock', if_neg hj, getElem?_setBlock', if_neg hj]; exact hle_refl _) ?_
    refine ⟨_, by rw [hm, getElem?_setBlock', if_pos rfl, getElem?_setBlock', if_pos rfl, hS]; rfl, by rw [size_writeLE, size_writeBytes], ?_⟩
    have o1 := hrep.writeBytes p [(v, l)] (by simp; omega) (by intro x hx'; simp at hx'; rw [hx']; exact hl)
    exact o1.setPosn q hq
  unfold updateBody
  simp only [seqs]
  refine runs_seq (Q := fun e s => e = setVar E0 3 (mkPtr bs baseS, .pub) ∧ s = { st with mem := st.mem })
    (runs_assign _ (by simp only [evalE, e0, reduceCtorEq, if_false]) ⟨rfl, rfl, rfl⟩) ?_
  intro e s ⟨he, hs⟩; rw [he, hs]
  refine runs_seq (Q := fun e s => e = setVar (setVar E0 3 (mkPtr bs baseS, .pub)) 4 (mkPtr bs (baseS + 32), .pub) ∧ s = { st with mem := st.mem })
    (runs_assign _ (by simp only [evalE, get_set, e18, show (3 : Nat) < 18 from by decide, and_self, if_true, reduceCtorEq, if_false, BinOp.needsPub2, BinOp.needsPub1,
      Bool.false_and, Bool.or_self, Bool.false_eq_true, binVal, Ty.modulus, Lab.join_pub_pub, hp32]) ⟨rfl, rfl, rfl⟩) ?_
  intro e s ⟨he, hs⟩; rw [he, hs]
  generalize hE2 : setVar (setVar E0 3 (mkPtr bs baseS, .pub)) 4 (mkPtr bs (baseS + 32), .pub) = E2
  have e2s : E2.size = 18 := by rw [← hE2]; simp only [size_setVar]; exact e18
  have e2_3 : E2[3]? = some (mkPtr bs baseS, .pub) := by rw [← hE2, get_set_ne _ _ _ _ (by decide)]; exact get_set_eq _ _ _ (by rw [e18]; decide)
  have e2_4 : E2[4]? = some (mkPtr bs (baseS + 32), .pub) := by rw [← hE2]; exact get_set_eq _ _ _ (by rw [size_setVar, e18]; decide)
  have e2_1 : E2[1]? = some (mkPtr bi (basei + off), .pub) := by rw [← hE2, get_set_ne _ _ _ _ (by decide), get_set_ne _ _ _ _ (by decide)]; exact e1
  have e2_2 : E2[2]? = some (1, .pub) := by rw [← hE2, get_set_ne _ _ _ _ (by decide), get_set_ne _ _ _ _ (by decide)]; exact e2
  have evPosn : ∀ (E : Env), E[3]? = some (mkPtr bs baseS, .pub) → evalE E posnAddr = .ok (mkPtr bs (baseS + 48), .pub) := fun E h3 => by
    simp only [posnAddr, evalE, h3, reduceCtorEq, if_false, BinOp.needsPub2, BinOp.needsPub1, Bool.false_and, Bool.or_self, Bool.false_eq_true, binVal,
      Ty.modulus, Lab.join_pub_pub, hp48]
  -- loading `posn` from any memory whose state block represents a state with the same `posn`
  have ldPosn : ∀ (x : Nat) (E : Env) (s : St) (Y : Array LByte) (P : Sig → Env → St → Prop), E[3]? = some (mkPtr bs baseS, .pub) →
      s.mem[bs]? = some ⟨Y, baseS⟩ → Y.size = X.size → readLE Y 48 4 = some (h.posn, .pub) →
      P .normal (setVar E x (h.posn, .pub)) { s with leak := .rd (mkPtr bs (baseS + 48)) 4 :: s.leak } → RunsTo prog (.load x .u32 posnAddr) E s P := fun x E s Y P h3 hm hY hr hP =>
    runs_load (mkPtr bs (baseS + 48)) bs 48 4 (h.posn, .pub) rfl (evPosn E h3) (resolve_word hm 48 (by omega) (by omega) (by omega))
      (by rw [blockBytes_of hm]; exact hr) hP
  let UE : Env → Prop := fun E => E.size = 18 ∧ E[1]? = some (mkPtr bi (basei + off), .pub) ∧ E[2]? = some (1, .pub) ∧ E[3]? = some (mkPtr bs baseS, .pub) ∧ E[4]? = some (mkPtr bs (baseS + 32), .pub)
  have ue2 : UE E2 := ⟨e2s, e2_1, e2_2, e2_3, e2_4⟩
  have ueSet : ∀ (E : Env) (x : Nat) (w : LVal), 5 ≤ x → UE E → UE (setVar E x w) := fun E x w hx u =>
    ⟨by rw [size_setVar]; exact u.1, by rw [get_set_ne _ _ _ _ (by omega)]; exact u.2.1, by rw [get_set_ne _ _ _ _ (by omega)]; exact u.2.2.1,
     by rw [get_set_ne _ _ _ _ (by omega)]; exact u.2.2.2.1, by rw [get_set_ne _ _ _ _ (by omega)]; exact u.2.2.2.2⟩
  let UE' : Env → Prop := fun E => E.size = 18 ∧ E[3]? = some (mkPtr bs baseS, .pub)
  have hc1 : castVal .u32 .u64 1 = 1 := by decide
  have hc11 : castVal .u64 .u32 1 = 1 := by decide
  have hcp : castVal .u64 .u32 h.posn = h.posn := by simp only [castVal, Ty.signed, Ty.modulus]; exact Nat.mod_eq_of_lt (by omega)
  have hresI : ∀ (m : Array Block), m[bi]? = some ⟨XI, basei⟩ → resolve m (mkPtr bi (basei + off)) 1 = .ok (bi, off) := fun m hm =>
    resolve_byte hm off (by omega) (by omega)
  -- copying the byte into the block buffer at `p` (variable `xp` holds `posn = p`... or the destination is `block` itself)
  unfold part1Stmt
  simp only [seqs]
  by_cases hp0 : h.posn = 0
  · simp only [hp0, if_true]
    have hm1 : ∀ (p : Nat), (setBlock st.mem bs (writeBytes X (32 + p) [(v, l)]))[bs]? = some ⟨writeBytes X (32 + p) [(v, l)], baseS⟩ := fun p => by
      rw [getElem?_setBlock', if_pos rfl, hS]; rfl
    refine runs_seq (Q := fun e s => UE e ∧ s.ent = st.ent ∧ s.mem = st.mem) ?_ ?_
    · refine runs_seq (Q := fun e s => e = setVar E2 6 (h.posn, .pub) ∧ s.ent = st.ent ∧ s.mem = st.mem) (ldPosn 6 E2 _ X _ e2_3 hS rfl hrep.posn ⟨rfl, rfl, rfl, rfl⟩) ?_
      intro e s ⟨he, hent, hm⟩; rw [he]
      refine runs_ite_false ?_ (runs_skip ⟨rfl, ueSet _ _ _ (by decide) ue2, hent, hm⟩)
      simp only [evalE, get_set_eq _ _ _ (show 6 < E2.size from by omega), reduceCtorEq, if_false, castVal_u32_i32_0', BinOp.needsPub2, BinOp.needsPub1, Bool.false_and, Bool.or_self,
        Bool.false_eq_true, binVal, Ty.signed, gt_iff_lt, hp0, Nat.lt_irrefl, decide_false, b2n, Lab.join_pub_pub]
    intro e s ⟨ue, hent, hm⟩
    refine runs_seq (Q := fun e' s' => UE e' ∧ s'.ent = st.ent ∧ s'.mem = st.mem) ?_ ?_
    · refine runs_loop_break (runs_ite_false ?_ (runs_brk ⟨rfl, rfl, ue, hent, hm⟩))
      simp only [evalE, ue.2.2.1, reduceCtorEq, if_false, castVal_u64_i32_16, BinOp.needsPub2, BinOp.needsPub1, Bool.false_and, Bool.or_self,
        Bool.false_eq_true, binVal, Ty.signed, ge_iff_le, show ¬ 16 ≤ 1 from by decide, decide_false, b2n, Lab.join_pub_pub]
    intro e' s' ⟨ue', hent', hm'⟩
    unfold tailStmt
    refine runs_ite_true 1 ?_ (by decide) ?_
    · simp only [evalE, ue'.2.2.1, reduceCtorEq, if_false, castVal_u64_i32_0, BinOp.needsPub2, BinOp.needsPub1, Bool.false_and, Bool.or_self,
        Bool.false_eq_true, binVal, Ty.signed, gt_iff_lt, show 0 < 1 from by decide, decide_true, b2n, if_true, Lab.join_pub_pub]
    simp only [seqs]
    refine runs_seq (Q := fun e s => UE e ∧ e[5]? = some (1, .pub) ∧ s.ent = st.ent ∧ s.mem = st.mem)
      (runs_assign (1, .pub) (by simp only [evalE, ue'.2.2.1, reduceCtorEq, if_false, hc1]) ⟨rfl, ueSet _ _ _ (by decide) ue', get_set_eq _ _ _ (by rw [ue'.1]; decide), hent', hm'⟩) ?_
    intro e3 s3 ⟨ue3, e5, hent3, hm3⟩
    refine runs_seq (Q := fun e s => UE e ∧ e[5]? = some (1, .pub) ∧ s.ent = st.ent ∧ s.mem = setBlock st.mem bs (writeBytes X (32 + 0) [(v, l)])) ?_ ?_
    · refine runs_seq (Q := fun e s => e = e3 ∧ s.ent = st.ent ∧ s.mem = setBlock st.mem bs (writeBytes X (32 + 0) [(v, l)])) ?_ ?_
      · refine runs_memcpy (mkPtr bs (baseS + 32)) (mkPtr bi (basei + off)) 1 bi off bs 32 (by simp only [evalE, ue3.2.2.2.2, reduceCtorEq, if_false])
          (by simp only [evalE, ue3.2.1, reduceCtorEq, if_false]) (by simp only [evalE, e5, reduceCtorEq, if_false, hc11]) (by decide)
          (by rw [hm3]; exact hresI _ hI) (by rw [hm3, blockBytes_of hI]; omega) (by rw [hm3]; exact resolve_byte hS 32 (by omega) (by omega))
          (by rw [hm3, blockBytes_of hS]; omega) ?_
        rw [hm3, blockBytes_of hS, blockBytes_of hI, sliceBytes_one hx]
        exact ⟨rfl, rfl, hent3, rfl⟩
      · intro e4 s4 ⟨he4, hent4, hm4⟩; rw [he4]
        exact runs_assign (mkPtr bs (baseS + 32), .pub) (by simp only [evalE, ue3.2.2.2.2, reduceCtorEq, if_false]) ⟨rfl, ueSet _ _ _ (by decide) ue3, by rw [get_set_ne _ _ _ _ (by decide)]; exact e5, hent4, hm4⟩
    intro e5' s5 ⟨ue5, e5_5, hent5, hm5⟩
    refine runs_seq (Q := fun e s => e[5]? = some (1, .pub) ∧ e[17]? = some (mkPtr bs (baseS + 48), .pub) ∧ s.ent = st.ent ∧ s.mem = setBlock st.mem bs (writeBytes X (32 + 0) [(v, l)]))
      (runs_assign _ (evPosn e5' ue5.2.2.2.1) ⟨rfl, by rw [get_set_ne _ _ _ _ (by decide)]; exact e5_5, get_set_eq _ _ _ (by rw [ue5.1]; decide), hent5, hm5⟩) ?_
    intro e6 s6 ⟨e5_6, e17, hent6, hm6⟩
    have hm6b : s6.mem[bs]? = some ⟨writeBytes X (32 + 0) [(v, l)], baseS⟩ := by rw [hm6]; exact hm1 0
    refine runs_store (mkPtr bs (baseS + 48)) 1 bs 48 4 .pub rfl (by simp only [evalE, e17, reduceCtorEq, if_false]) (by simp only [evalE, e5_6, reduceCtorEq, if_false])
      (resolve_word hm6b 48 (by omega) (by rw [size_writeBytes]; omega) (by omega)) ?_
    let sF : St := { s6 with leak := Ev.wr (mkPtr bs (baseS + 48)) 4 :: s6.leak, mem := setBlock s6.mem bs (writeLE (blockBytes s6.mem bs) 48 1 .pub 4) }
    obtain ⟨a, b, c, d⟩ := hstash 0 1 (by decide) (by decide) sF hent6 (by show setBlock s6.mem bs _ = _; rw [blockBytes_of hm6b, hm6])
    exact ⟨trivial, trivial, a, b, c, d⟩
  · simp only [hp0, if_false]
    have hpos : 0 < h.posn := Nat.pos_of_ne_zero hp0
    have o1 := hrep.writeBytes h.posn [(v, l)] (by simp; omega) (by intro x hx'; simp at hx'; rw [hx']; exact hl)
    have hm1 : (setBlock st.mem bs (writeBytes X (32 + h.posn) [(v, l)]))[bs]? = some ⟨writeBytes X (32 + h.posn) [(v, l)], baseS⟩ := by
      rw [getElem?_setBlock', if_pos rfl, hS]; rfl
    have hm1I : (setBlock st.mem bs (writeBytes X (32 + h.posn) [(v, l)]))[bi]? = some ⟨XI, basei⟩ := by
      rw [getElem?_setBlock', if_neg hne]; exact hI
    -- the common prefix: posn > 0, temp = 16 - posn
    have hpre : ∀ (P : Sig → Env → St → Prop), (∀ e s, UE e → e[5]? = some (16 - h.posn, .pub) → s.ent = st.ent → s.mem = st.mem →
        RunsTo prog (.seq (.ite (.bin .gt .u64 (.cast .u64 .u32 (.var 5)) (.var 2)) earlyStmt .skip) u1Rest) e s P) →
        RunsTo prog (.seq (.load 6 .u32 posnAddr) (.ite (.bin .gt .u32 (.var 6) (.cast .u32 .i32 (.lit 0)))
          (.seq (.seq (.load 7 .u32 posnAddr) (.assign 5 (.bin .sub .u32 (.cast .u32 .i32 (.lit 16)) (.var 7))))
            (.seq (.ite (.bin .gt .u64 (.cast .u64 .u32 (.var 5)) (.var 2)) earlyStmt .skip) u1Rest)) .skip)) E2 { st with mem := st.mem } P := by
      intro P hk
      refine runs_seq (Q := fun e s => UE e ∧ e[6]? = some (h.posn, .pub) ∧ s.ent = st.ent ∧ s.mem = st.mem)
        (ldPosn 6 E2 _ X _ e2_3 hS rfl hrep.posn ⟨rfl, ueSet _ _ _ (by decide) ue2, get_set_eq _ _ _ (by rw [e2s]; decide), rfl, rfl⟩) ?_
      intro e s ⟨ue, e6, hent, hm⟩
      refine runs_ite_true 1 ?_ (by decide) ?_
      · simp only [evalE, e6, reduceCtorEq, if_false, castVal_u32_i32_0', BinOp.needsPub2, BinOp.needsPub1, Bool.false_and, Bool.or_self,
          Bool.false_eq_true, binVal, Ty.signed, gt_iff_lt, hpos, decide_true, b2n, if_true, Lab.join_pub_pub]
      refine runs_seq (Q := fun e' s' => UE e' ∧ e'[5]? = some (16 - h.posn, .pub) ∧ s'.ent = st.ent ∧ s'.mem = st.mem) ?_ ?_
      · refine runs_seq (Q := fun e' s' => UE e' ∧ e'[7]? = some (h.posn, .pub) ∧ s'.ent = st.ent ∧ s'.mem = st.mem)
          (ldPosn 7 e _ X _ ue.2.2.2.1 (by show s.mem[bs]? = _; rw [hm]; exact hS) rfl hrep.posn ⟨rfl, ueSet _ _ _ (by decide) ue, get_set_eq _ _ _ (by rw [ue.1]; decide), hent, hm⟩) ?_
        intro e' s' ⟨ue', e7, hent', hm'⟩
        refine runs_assign (16 - h.posn, .pub) ?_ ⟨rfl, ueSet _ _ _ (by decide) ue', get_set_eq _ _ _ (by rw [ue'.1]; decide), hent', hm'⟩
        simp only [evalE, e7, reduceCtorEq, if_false, castVal_u32_i32_16, BinOp.needsPub2, BinOp.needsPub1, Bool.false_and, Bool.or_self, Bool.false_eq_true, binVal, Ty.modulus,
          Lab.join_pub_pub, sub32_16 h.posn hp16]
      intro e1' s1 ⟨ue1, e5, hent1, hm1'⟩
      exact hk e1' s1 ue1 e5 hent1 hm1'
    have hct : castVal .u64 .u32 (16 - h.posn) = 16 - h.posn := by simp only [castVal, Ty.signed, Ty.modulus]; exact Nat.mod_eq_of_lt (by omega)
    -- the copy of the byte to `block + posn` (the position is in variable `xp`)
    have hcopy : ∀ (xp xq : Nat) (e : Env) (s : St) (n5 : Nat), n5 = 1 → 5 ≤ xp → 5 < xq → xp ≠ 5 → xq ≠ xp → xp < 18 → xq < 18 → UE e → e[5]? = some (n5, .pub) → s.ent = st.ent → s.mem = st.mem →
        RunsTo prog (.seq (.load xp .u32 posnAddr) (.seq (.memcpy (.bin .add .u64 (.var 4) (.cast .u64 .u32 (.var xp))) (.var 1) (.cast .u64 .u32 (.var 5)))
          (.assign xq (.bin .add .u64 (.var 4) (.cast .u64 .u32 (.var xp)))))) e s
          (fun sig e' s' => sig = .normal ∧ UE e' ∧ e'[5]? = some (n5, .pub) ∧ s'.ent = st.ent ∧ s'.mem = setBlock st.mem bs (writeBytes X (32 + h.posn) [(v, l)])) := by
      intro xp xq e s n5 hn5 hxp hxq hx5 hxqp hxp18 hxq18 ue e5 hent hm
      subst hn5
      refine runs_seq (Q := fun e' s' => UE e' ∧ e'[5]? = some (1, .pub) ∧ e'[xp]? = some (h.posn, .pub) ∧ s'.ent = st.ent ∧ s'.mem = st.mem)
        (ldPosn xp e _ X _ ue.2.2.2.1 (by rw [hm]; exact hS) rfl hrep.posn ⟨rfl, ueSet _ _ _ hxp ue, by rw [get_set_ne _ _ _ _ hx5]; exact e5, get_set_eq _ _ _ (by rw [ue.1]; omega), hent, hm⟩) ?_
      intro e3 s3 ⟨ue3, e5_3, e8, hent3, hm3⟩
      have hdst : evalE e3 (.bin .add .u64 (.var 4) (.cast .u64 .u32 (.var xp))) = .ok (mkPtr bs (baseS + (32 + h.posn)), .pub) := by
        simp only [evalE, ue3.2.2.2.2, e8, reduceCtorEq, if_false, hcp, BinOp.needsPub2, BinOp.needsPub1, Bool.false_and, Bool.or_self, Bool.false_eq_true, binVal, Ty.modulus,
          Lab.join_pub_pub, hpP]
      refine runs_seq (Q := fun e' s' => e' = e3 ∧ s'.ent = st.ent ∧ s'.mem = setBlock st.mem bs (writeBytes X (32 + h.posn) [(v, l)])) ?_ ?_
      · refine runs_memcpy (mkPtr bs (baseS + (32 + h.posn))) (mkPtr bi (basei + off)) 1 bi off bs (32 + h.posn) hdst
          (by simp only [evalE, ue3.2.1, reduceCtorEq, if_false]) (by simp only [evalE, e5_3, reduceCtorEq, if_false, hc11]) (by decide)
          (by rw [hm3]; exact hresI _ hI) (by rw [hm3, blockBytes_of hI]; omega) (by rw [hm3]; exact resolve_byte hS (32 + h.posn) (by omega) (by omega))
          (by rw [hm3, blockBytes_of hS]; omega) ?_
        rw [hm3, blockBytes_of hS, blockBytes_of hI, sliceBytes_one hx]
        exact ⟨rfl, rfl, hent3, rfl⟩
      · intro e4 s4 ⟨he4, hent4, hm4⟩; rw [he4]
        exact runs_assign _ hdst ⟨rfl, ueSet _ _ _ (by omega) ue3, by rw [get_set_ne _ _ _ _ (by omega)]; exact e5_3, hent4, hm4⟩
    by_cases h15 : h.posn < 15
    · simp only [h15, if_true]
      refine runs_seq_abort ?_
      show RunsTo prog (.seq (.load 6 .u32 posnAddr) (.ite (.bin .gt .u32 (.var 6) (.cast .u32 .i32 (.lit 0)))
          (.seq (.seq (.load 7 .u32 posnAddr) (.assign 5 (.bin .sub .u32 (.cast .u32 .i32 (.lit 16)) (.var 7))))
            (.seq (.ite (.bin .gt .u64 (.cast .u64 .u32 (.var 5)) (.var 2)) earlyStmt .skip) u1Rest)) .skip)) E2 { st with mem := st.mem } _
      refine hpre _ ?_
      intro e1' s1 ue1 e5 hent1 hm1'
      refine runs_seq_abort (runs_ite_true 1 ?_ (by decide) ?_)
      · simp only [evalE, e5, ue1.2.2.1, reduceCtorEq, if_false, hct, BinOp.needsPub2, BinOp.needsPub1, Bool.false_and, Bool.or_self,
          Bool.false_eq_true, binVal, Ty.signed, gt_iff_lt, show 1 < 16 - h.posn from by omega, decide_true, b2n, if_true, Lab.join_pub_pub]
      unfold earlyStmt
      simp only [seqs]
      refine runs_seq (Q := fun e' s' => UE e' ∧ e'[5]? = some (1, .pub) ∧ s'.ent = st.ent ∧ s'.mem = st.mem)
        (runs_assign (1, .pub) (by simp only [evalE, ue1.2.2.1, reduceCtorEq, if_false, hc1]) ⟨rfl, ueSet _ _ _ (by decide) ue1, get_set_eq _ _ _ (by rw [ue1.1]; decide), hent1, hm1'⟩) ?_
      intro e2' s2 ⟨ue2', e5', hent2, hm2⟩
      refine runs_seq (Q := fun e' s' => UE e' ∧ e'[5]? = some (1, .pub) ∧ s'.ent = st.ent ∧ s'.mem = setBlock st.mem bs (writeBytes X (32 + h.posn) [(v, l)]))
        (hcopy 8 9 e2' s2 1 rfl (by decide) (by decide) (by decide) (by decide) (by decide) (by decide) ue2' e5' hent2 hm2) ?_
      intro e5' s5 ⟨ue5, e5_5, hent5, hm5⟩
      refine runs_seq (Q := fun e' s' => s'.ent = st.ent ∧ s'.mem = setBlock (setBlock st.mem bs (writeBytes X (32 + h.posn) [(v, l)])) bs
          (writeLE (writeBytes X (32 + h.posn) [(v, l)]) 48 (h.posn + 1) .pub 4)) ?_ ?_
      · refine runs_seq (Q := fun e' s' => UE e' ∧ e'[5]? = some (1, .pub) ∧ e'[10]? = some (mkPtr bs (baseS + 48), .pub) ∧ s'.ent = st.ent ∧ s'.mem = setBlock st.mem bs (writeBytes X (32 + h.posn) [(v, l)]))
          (runs_assign _ (evPosn e5' ue5.2.2.2.1) ⟨rfl, ueSet _ _ _ (by decide) ue5, by rw [get_set_ne _ _ _ _ (by decide)]; exact e5_5, get_set_eq _ _ _ (by rw [ue5.1]; decide), hent5, hm5⟩) ?_
        intro e6' s6 ⟨ue6, e5_6, e10, hent6, hm6⟩
        have hm6b : s6.mem[bs]? = some ⟨writeBytes X (32 + h.posn) [(v, l)], baseS⟩ := by rw [hm6]; exact hm1
        have hres : resolve s6.mem (mkPtr bs (baseS + 48)) 4 = .ok (bs, 48) := resolve_word hm6b 48 (by omega) (by rw [size_writeBytes]; omega) (by omega)
        refine runs_seq (Q := fun e' s' => e'[5]? = some (1, .pub) ∧ e'[10]? = some (mkPtr bs (baseS + 48), .pub) ∧ e'[11]? = some (h.posn, .pub) ∧ s'.ent = st.ent ∧
            s'.mem = setBlock st.mem bs (writeBytes X (32 + h.posn) [(v, l)]))
          (runs_load (mkPtr bs (baseS + 48)) bs 48 4 (h.posn, .pub) rfl (by simp only [evalE, e10, reduceCtorEq, if_false]) hres
            (by rw [blockBytes_of hm6b]; exact o1.posn)
            ⟨rfl, by rw [get_set_ne _ _ _ _ (by decide)]; exact e5_6, by rw [get_set_ne _ _ _ _ (by decide)]; exact e10, get_set_eq _ _ _ (by rw [ue6.1]; decide), hent6, hm6⟩) ?_
        intro e7' s7 ⟨e5_7, e10_7, e11, hent7, hm7⟩
        have hm7b : s7.mem[bs]? = some ⟨writeBytes X (32 + h.posn) [(v, l)], baseS⟩ := by rw [hm7]; exact hm1
        refine runs_store (mkPtr bs (baseS + 48)) (h.posn + 1) bs 48 4 .pub rfl (by simp only [evalE, e10_7, reduceCtorEq, if_false])
          (by simp only [evalE, e11, e5_7, reduceCtorEq, if_false, BinOp.needsPub2, BinOp.needsPub1, Bool.false_and, Bool.or_self, Bool.false_eq_true, binVal, Ty.modulus,
            Lab.join_pub_pub, Nat.mod_eq_of_lt (show h.posn + 1 < 4294967296 from by omega)])
          (resolve_word hm7b 48 (by omega) (by rw [size_writeBytes]; omega) (by omega)) ⟨rfl, hent7, by rw [blockBytes_of hm7b, hm7]⟩
      intro e8' s8 ⟨hent8, hm8⟩
      refine runs_ret_none ?_
      obtain ⟨a, b, c, d⟩ := hstash h.posn (h.posn + 1) hp16 (by omega) s8 hent8 hm8
      exact ⟨Sig.noConfusion, Sig.noConfusion, trivial, trivial, a, b, c, d⟩
    · simp only [h15, if_false]
      have e15 : 16 - h.posn = 1 := by omega
      -- the first phase completes normally: the byte fills the block, which is compressed
      refine runs_seq (Q := fun e s => e[2]? = some (0, .pub) ∧ s.ent = st.ent ∧ s.mem.size = st.mem.size ∧ (∀ j, j ≠ bs → ORel BlockLe s.mem[j]? st.mem[j]?) ∧
          ∃ X', s.mem[bs]? = some ⟨X', baseS⟩ ∧ X'.size = X.size ∧ HObjV X' { ({ h with block := writeAt h.block h.posn [v] }.compress 0) with posn := 0 }) ?_ ?_
      · show RunsTo prog (.seq (.load 6 .u32 posnAddr) (.ite (.bin .gt .u32 (.var 6) (.cast .u32 .i32 (.lit 0)))
            (.seq (.seq (.load 7 .u32 posnAddr) (.assign 5 (.bin .sub .u32 (.cast .u32 .i32 (.lit 16)) (.var 7))))
              (.seq (.ite (.bin .gt .u64 (.cast .u64 .u32 (.var 5)) (.var 2)) earlyStmt .skip) u1Rest)) .skip)) E2 { st with mem := st.mem } _
        refine hpre _ ?_
        intro e1' s1 ue1 e5 hent1 hm1'
        rw [e15] at e5
        refine runs_seq (Q := fun e s => UE e ∧ e[5]? = some (1, .pub) ∧ s.ent = st.ent ∧ s.mem = st.mem) (runs_ite_false ?_ (runs_skip ⟨rfl, ue1, e5, hent1, hm1'⟩)) ?_
        · simp only [evalE, e5, ue1.2.2.1, reduceCtorEq, if_false, hc11, BinOp.needsPub2, BinOp.needsPub1, Bool.false_and, Bool.or_self,
            Bool.false_eq_true, binVal, Ty.signed, gt_iff_lt, Nat.lt_irrefl, decide_false, b2n, Lab.join_pub_pub]
        intro e2' s2 ⟨ue2', e5', hent2, hm2⟩
        unfold u1Rest
        refine runs_seq (Q := fun e' s' => UE e' ∧ e'[5]? = some (1, .pub) ∧ s'.ent = st.ent ∧ s'.mem = setBlock st.mem bs (writeBytes X (32 + h.posn) [(v, l)]))
          (hcopy 12 13 e2' s2 1 rfl (by decide) (by decide) (by decide) (by decide) (by decide) (by decide) ue2' e5' hent2 hm2) ?_
        intro e3 s3 ⟨ue3, e5_3, hent3, hm3⟩
        have hm3b : s3.mem[bs]? = some ⟨writeBytes X (32 + h.posn) [(v, l)], baseS⟩ := by rw [hm3]; exact hm1
        refine runs_seq (Q := fun e s => UE e ∧ e[5]? = some (1, .pub) ∧ s.ent = st.ent ∧ s.mem.size = st.mem.size ∧ (∀ j, j ≠ bs → ORel BlockLe s.mem[j]? st.mem[j]?) ∧
            ∃ blk', s.mem[bs]? = some blk' ∧ blk'.base = baseS ∧ blk'.bytes.size = X.size ∧ HObjV blk'.bytes ({ h with block := writeAt h.block h.posn [v] }.compress 0)) ?_ ?_
        · refine (compress_objV prog 21 hcomp hperm e3 s3 (.var 3) (.cast .u8 .i32 (.lit 0)) bs (writeBytes X (32 + h.posn) [(v, l)]) baseS 0 (by decide)
            (by simp only [evalE, ue3.2.2.2.1, reduceCtorEq, if_false]) (by simp only [evalE, castVal_u8_i32_0]; rfl) hm3b halS (by rw [size_writeBytes]; exact hltS)
            (by rw [hm3, size_setBlock']; exact hsz30) _ o1).weaken ?_
          intro sig e s4 ⟨hsig, hee, hent4, hsz4, hoth4, blk', hb4, hbase4, hsz4', ho4⟩
          refine ⟨hsig, ⟨by rw [hee.size_eq]; exact ue3.1, envLe_pub hee 1 _ ue3.2.1, envLe_pub hee 2 _ ue3.2.2.1, envLe_pub hee 3 _ ue3.2.2.2.1, envLe_pub hee 4 _ ue3.2.2.2.2⟩,
            envLe_pub hee 5 _ e5_3, by rw [hent4, hent3], by rw [hsz4, hm3, size_setBlock'], ?_, blk', hb4, hbase4, by rw [hsz4', size_writeBytes], ho4⟩
          intro j hj
          have := hoth4 j hj
          rw [hm3, getElem?_setBlock', if_neg hj] at this
          exact this
        intro e4 s4 ⟨ue4, e5_4, hent4, hsz4, hoth4, blk', hb4, hbase4, hbsz4, ho4⟩
        -- in += temp; inlen -= temp
        refine runs_seq (Q := fun e s => UE' e ∧ e[2]? = some (1, .pub) ∧ e[5]? = some (1, .pub) ∧ s = s4)
          (runs_assign ((mkPtr bi (basei + off) + 1) % 18446744073709551616, .pub) (by simp only [evalE, ue4.2.1, e5_4, reduceCtorEq, if_false, hc11, BinOp.needsPub2, BinOp.needsPub1,
            Bool.false_and, Bool.or_self, Bool.false_eq_true, binVal, Ty.modulus, Lab.join_pub_pub])
            ⟨rfl, ⟨by rw [size_setVar]; exact ue4.1, by rw [get_set_ne _ _ _ _ (by decide)]; exact ue4.2.2.2.1⟩, by rw [get_set_ne _ _ _ _ (by decide)]; exact ue4.2.2.1,
              by rw [get_set_ne _ _ _ _ (by decide)]; exact e5_4, rfl⟩) ?_
        intro e5a s5 ⟨ue5, e2_5, e5_5, hs5⟩; rw [hs5]
        refine runs_seq (Q := fun e s => UE' e ∧ e[2]? = some (0, .pub) ∧ s = s4)
          (runs_assign (1 - 1, .pub) (by simp only [evalE, e2_5, e5_5, reduceCtorEq, if_false, hc11, BinOp.needsPub2, BinOp.needsPub1,
            Bool.false_and, Bool.or_self, Bool.false_eq_true, binVal, Ty.modulus, Lab.join_pub_pub, sub64 1 1 (by decide) (by decide) (by decide)])
            ⟨rfl, ⟨by rw [size_setVar]; exact ue5.1, by rw [get_set_ne _ _ _ _ (by decide)]; exact ue5.2⟩, get_set_eq _ _ _ (by rw [ue5.1]; decide), rfl⟩) ?_
        intro e6 s6 ⟨ue6, e2_6, hs6⟩; rw [hs6]
        refine runs_seq (Q := fun e s => e[2]? = some (0, .pub) ∧ e[14]? = some (mkPtr bs (baseS + 48), .pub) ∧ s = s4)
          (runs_assign _ (evPosn e6 ue6.2) ⟨rfl, by rw [get_set_ne _ _ _ _ (by decide)]; exact e2_6, get_set_eq _ _ _ (by rw [ue6.1]; decide), rfl⟩) ?_
        intro e7 s7 ⟨e2_7, e14, hs7⟩; rw [hs7]
        have hb4' : s4.mem[bs]? = some ⟨blk'.bytes, baseS⟩ := by rw [hb4, ← hbase4]
        refine runs_store (mkPtr bs (baseS + 48)) 0 bs 48 4 .pub rfl (by simp only [evalE, e14, reduceCtorEq, if_false]) (by simp only [evalE, castVal_u32_i32_0'])
          (resolve_word hb4' 48 (by omega) (by omega) (by omega)) ?_
        refine ⟨rfl, e2_7, hent4, by show (setBlock s4.mem _ _).size = _; rw [size_setBlock']; exact hsz4,
          fun j hj => by show ORel BlockLe (setBlock s4.mem _ _)[j]? _; rw [getElem?_setBlock', if_neg hj]; exact hoth4 j hj,
          _, by show (setBlock s4.mem _ _)[bs]? = _; rw [getElem?_setBlock', if_pos rfl, hb4']; rfl, by rw [blockBytes_of hb4', size_writeLE]; exact hbsz4, ?_⟩
        rw [blockBytes_of hb4']
        exact ho4.setPosn 0 (by decide)
      intro e s ⟨h2, hent, hmsz, hoth, hobj⟩
      refine runs_seq (Q := fun e' s' => e'[2]? = some (0, .pub) ∧ s' = { s with leak := Ev.br false :: s.leak }) ?_ ?_
      · refine runs_loop_break (runs_ite_false ?_ (runs_brk ⟨rfl, rfl, h2, rfl⟩))
        simp only [evalE, h2, reduceCtorEq, if_false, castVal_u64_i32_16, BinOp.needsPub2, BinOp.needsPub1, Bool.false_and, Bool.or_self,
          Bool.false_eq_true, binVal, Ty.signed, ge_iff_le, show ¬ 16 ≤ 0 from by decide, decide_false, b2n, Lab.join_pub_pub]
      intro e' s' ⟨h2', hs'⟩; rw [hs']
      unfold tailStmt
      refine runs_ite_false ?_ (runs_skip ?_)
      · simp only [evalE, h2', reduceCtorEq, if_false, castVal_u64_i32_0, BinOp.needsPub2, BinOp.needsPub1, Bool.false_and, Bool.or_self,
          Bool.false_eq_true, binVal, Ty.signed, gt_iff_lt, Nat.lt_irrefl, decide_false, b2n, Lab.join_pub_pub]
      obtain ⟨a, b, c, d⟩ := hfin s _ hent hmsz hoth hobj
      exact ⟨trivial, trivial, a, b, c, d⟩

end TJ.MiniC.Hoare
