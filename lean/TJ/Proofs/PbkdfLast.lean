import TJ.Proofs.PbkdfOuter
namespace TJ.MiniC.Hoare
open TJ TJ.MiniC TJ.MiniC.PermC TJ.Gen.MiniC

/-- what `tinyjambu_pbkdf2` has established once its loop ends: `total` lies in `out` -/
structure POF (G : POG) (mem0 : Array Block) (total : Bytes) (env : Env) (s : St) : Prop where
  e8 : env[8]? = some (mkPtr (G.n0 + 1) 0, .pub)
  ent : s.ent = G.ent
  msz : s.mem.size = G.n0 + 3
  hU : ∃ X, s.mem[G.n0 + 1]? = some ⟨X, 0⟩ ∧ X.size = 32
  hO : ∃ XO, s.mem[G.bo]? = some ⟨XO, G.baseo⟩ ∧ XO.size = G.XO0.size ∧ BytesV XO G.oo total ∧ ∀ q, (q < G.oo ∨ G.oo + total.length ≤ q) → ORel VEq XO[q]? G.XO0[q]?
  oth : ∀ j, j < G.n0 → j ≠ G.bo → ORel BlockEqV s.mem[j]? mem0[j]?

theorem pbLast_eq : pbLast = .seq (.call none idx_tinyjambu_pbkdf2_f [.var 7, .var 10, .var 8, .var 2, .var 3, .var 4, .var 5, .var 6, .var 9])
    (.seq (.seq (.memcpy (.var 0) (.var 10) (.var 1)) (.assign 11 (.var 0))) (.seq (.call none idx_tinyjambu_clean [.var 10, .lit 32]) .brk)) := rfl

/-- the last, partial block: computed into the local `T`, `r` bytes copied out, `T` wiped -/
theorem pb_last (G : POG) (mem0 : Array Block) (acc : Bytes) (r bk : Nat) (hr0 : 0 < r) (hr : r < 32) {env : Env} {s : St} (x : PO G mem0 acc r bk bk env s) :
    RunsTo prog pbLast env s (fun sig e' s' => sig = .brk ∧ POF G mem0 (acc ++ (pbkdf2F G.pw G.salt G.count bk.toUInt32).take r) e' s') := by
  obtain ⟨XS, hSm, hSs⟩ := x.hS
  obtain ⟨XU, hUm, hUs⟩ := x.hU
  obtain ⟨XT, hTm, hTs⟩ := x.hT
  obtain ⟨XO, hOm, hOs, hOd, hOo⟩ := x.hO
  have hG := G.hsz; have hbo := G.hbo; have hbp := G.hbp; have hbsl := G.hbsl; have hin := G.hin; have hlt := G.hltO; have hn := x.hn
  rw [pbLast_eq]
  refine runs_seq (pbkdf2_f_call env s (.var 7) (.var 10) (.var 8) (.var 2) (.var 3) (.var 4) (.var 5) (.var 6) (.var 9)
    G.n0 (G.n0 + 2) (G.n0 + 1) G.bp G.bsl XS XT XU 0 0 0 0 G.basep G.poff G.psz G.basesl G.sloff G.slsz G.pw G.salt G.count bk
    (by simp only [evalE, x.e7, reduceCtorEq, if_false]) (by simp only [evalE, x.e10, reduceCtorEq, if_false, Nat.add_zero]) (by simp only [evalE, x.e8, reduceCtorEq, if_false, Nat.add_zero])
    (by simp only [evalE, x.e2, reduceCtorEq, if_false]) (by simp only [evalE, x.e3, reduceCtorEq, if_false]) (by simp only [evalE, x.e4, reduceCtorEq, if_false])
    (by simp only [evalE, x.e5, reduceCtorEq, if_false]) (by simp only [evalE, x.e6, reduceCtorEq, if_false]) (by simp only [evalE, x.e9, reduceCtorEq, if_false])
    hSm hSs hTm hUm x.hP x.hSl (by omega) (by omega) (by omega) (by omega) (by omega) (by omega) (by omega)
    (by rw [hTs]; simp [ptrBase]) (by rw [hUs]; simp [ptrBase]) G.hltP G.hltSl (by rw [hTs]; omega) (by rw [hUs]; omega) G.hc64 (by rw [x.msz]; omega)) ?_
  intro e1 s1 ⟨he1, hent1, hsz1, hS1, ⟨XT1, hT1m, hT1s, hT1d, _⟩, ⟨XU1, hU1m, hU1s⟩, hoth1⟩
  rw [he1]
  have hFl := pbkdf2F_length G.pw G.salt G.count bk.toUInt32
  generalize hF : pbkdf2F G.pw G.salt G.count bk.toUInt32 = F at hT1d hFl
  obtain ⟨XO1, hO1m, hO1s, hO1v⟩ := eqv_block (by have := hoth1 G.bo (by omega) (by omega) (by omega); rw [hOm] at this; exact this)
  have hdl : (F.take r).length = r := by rw [List.length_take, hFl]; omega
  refine runs_seq (Q := fun e s' => e = setVar env 11 (mkPtr G.bo (G.baseo + (G.oo + acc.length)), .pub) ∧ s'.ent = s.ent ∧ s'.mem.size = s.mem.size ∧
      (∀ j, j ≠ G.bo → s'.mem[j]? = s1.mem[j]?) ∧
      ∃ XD', s'.mem[G.bo]? = some ⟨XD', G.baseo⟩ ∧ XD'.size = XO1.size ∧ BytesV XD' (G.oo + acc.length) (F.take r) ∧
        (∀ p, (p < G.oo + acc.length ∨ G.oo + acc.length + (F.take r).length ≤ p) → XD'[p]? = XO1[p]?)) ?_ ?_
  · refine runs_seq (Q := fun e s' => e = env ∧ s'.ent = s.ent ∧ s'.mem.size = s.mem.size ∧ (∀ j, j ≠ G.bo → s'.mem[j]? = s1.mem[j]?) ∧
      ∃ XD', s'.mem[G.bo]? = some ⟨XD', G.baseo⟩ ∧ XD'.size = XO1.size ∧ BytesV XD' (G.oo + acc.length) (F.take r) ∧
        (∀ p, (p < G.oo + acc.length ∨ G.oo + acc.length + (F.take r).length ≤ p) → XD'[p]? = XO1[p]?)) ?_ ?_
    · refine memcpy_blocks (.var 0) (.var 10) (.var 1) G.bo G.baseo (G.oo + acc.length) XO1 (G.n0 + 2) 0 0 XT1 (F.take r) hO1m hT1m (bytesV_take hT1d r)
        (by rw [hdl, hO1s, hOs]; omega) (by rw [hO1s, hOs]; exact G.hltO) (by rw [hT1s, hTs]; simp [ptrBase])
        (by simp only [evalE, x.e0, reduceCtorEq, if_false]) (by simp only [evalE, x.e10, reduceCtorEq, if_false, Nat.add_zero]) (by simp only [evalE, x.e1, reduceCtorEq, if_false, hdl]) ?_
      intro s' g1 g2 g3 g4
      exact ⟨rfl, rfl, by rw [g1]; exact hent1, by rw [g2]; exact hsz1, g3, g4⟩
    · intro e2 s2 ⟨he2, g1, g2, g3, g4⟩
      rw [he2]
      exact runs_assign _ (by simp only [evalE, x.e0, reduceCtorEq, if_false]) ⟨rfl, rfl, g1, g2, g3, g4⟩
  intro e3 s3 ⟨he3, hent3, hsz3, hoth3, XD, hDm, hDs, hDd, hDo⟩
  rw [he3]
  have hT3 : s3.mem[G.n0 + 2]? = some ⟨XT1, 0⟩ := by rw [hoth3 _ (by omega)]; exact hT1m
  refine runs_seq (clean_full_call _ s3 (.var 10) (.lit 32) 32 (G.n0 + 2) ⟨XT1, 0⟩ hT3 rfl (by rw [hT1s]; exact hTs)
    (by simp only [evalE, get_set_ne _ _ _ _ (show ¬ 11 = 10 from by decide), x.e10, reduceCtorEq, if_false]) (by simp only [evalE]) (by decide) (by decide)) ?_
  intro e4 s4 ⟨he4, hent4, hm4⟩
  rw [he4]
  have hne : ∀ j, j ≠ G.n0 + 2 → s4.mem[j]? = s3.mem[j]? := fun j hj => by rw [hm4, getElem?_setBlock', if_neg hj]
  refine runs_brk ⟨rfl, ?_, by rw [hent4, hent3]; exact x.ent, by rw [hm4, size_setBlock', hsz3]; exact x.msz, ?_, ?_, ?_⟩
  · rw [get_set_ne _ _ _ _ (by decide)]; exact x.e8
  · exact ⟨XU1, by rw [hne _ (by omega), hoth3 _ (by omega)]; exact hU1m, by rw [hU1s]; exact hUs⟩
  · refine ⟨XD, by rw [hne _ (by omega)]; exact hDm, by rw [hDs, hO1s]; exact hOs, ?_, fun q hq => ?_⟩
    · refine bytesV_append_veq hOd hDd (fun q hq => ?_)
      rw [hDo q (Or.inl hq)]; exact hO1v q
    · rw [List.length_append] at hq
      rw [hDo q (by omega)]
      exact orel_trans (R := VEq) (fun _ _ _ p q => VEq.trans p q) (hO1v q) (hOo q (by omega))
  · intro j hj hjo
    rw [hne j (by omega), hoth3 j hjo]
    exact orel_trans (R := BlockEqV) (fun _ _ _ p q => BlockEqV.trans p q) (hoth1 j (by omega) (by omega) (by omega)) (x.oth j hj hjo)

end TJ.MiniC.Hoare
