/-
  TJ.Proofs.HmacFinal — tinyjambu_hmac_set_key and tinyjambu_hmac_finalize as calls on the regenerated program.
-/
import TJ.Proofs.HmacSetKey
namespace TJ.MiniC.Hoare
open TJ TJ.MiniC TJ.MiniC.PermC TJ.Gen.MiniC

theorem prog_setkey : prog[idx_tinyjambu_hmac_set_key]? = some f_tinyjambu_hmac_set_key := by
  simp only [prog, idx_tinyjambu_hmac_set_key, List.getElem?_cons_succ, List.getElem?_cons_zero]

theorem hmacSetKey_eq (h : HState) (key : Bytes) (mask : UInt8) :
    hmacSetKey h key mask = (HState.init h).update (hmacBlock (if key.length ≤ 64 then key else ((h.init.update key).finalize).1) mask) := rfl

/-- **`tinyjambu_hmac_set_key(state, key, keylen, mask)` as a call**: the state object (any content, undefined included) afterwards represents
    `hmacSetKey h key mask`; every other block keeps its values; the local pad is wiped and released. -/
theorem set_key_call (env : Env) (st : St) (es ek el em : Expr) (bs bk : Nat) (X XK : Array LByte) (baseS basek koff : Nat) (h : HState) (key : Bytes) (mask : UInt8) (lm : Lab)
    (hlm : lm ≠ Lab.undef) (hes : evalE env es = .ok (mkPtr bs baseS, .pub)) (hek : evalE env ek = .ok (mkPtr bk (basek + koff), .pub))
    (hel : evalE env el = .ok (key.length, .pub)) (hem : evalE env em = .ok (mask.toNat, lm))
    (hS : st.mem[bs]? = some ⟨X, baseS⟩) (hK : st.mem[bk]? = some ⟨XK, basek⟩) (hne : bk ≠ bs) (hXs : 52 ≤ X.size) (halS : baseS % 4 = 0)
    (hltS : baseS + X.size < ptrBase) (hltK : basek + XK.size < ptrBase) (hkd : BytesV XK koff key) (hsz : st.mem.size + 3 < 2 ^ 30) :
    RunsTo prog (.call none idx_tinyjambu_hmac_set_key [es, ek, el, em]) env st (fun sig e s => sig = .normal ∧ e = env ∧ s.ent = st.ent ∧ s.mem.size = st.mem.size ∧
      (∃ X', s.mem[bs]? = some ⟨X', baseS⟩ ∧ X'.size = X.size ∧ HObjV X' (hmacSetKey h key mask)) ∧ OthV bs s.mem st.mem) := by
  have hbsN := mem_lt hS
  let vs : List LVal := [(mkPtr bs baseS, .pub), (mkPtr bk (basek + koff), .pub), (key.length, .pub), (mask.toNat, lm)]
  refine runs_call_none f_tinyjambu_hmac_set_key vs prog_setkey (by simp only [evalArgs, hes, hek, hel, hem]; rfl) rfl ?_
  have hent : enterFun f_tinyjambu_hmac_set_key vs st.mem = (#[(mkPtr bs baseS, .pub), (mkPtr bk (basek + koff), .pub), (key.length, .pub), (mask.toNat, lm),
      (mkPtr st.mem.size 0, .pub), (0, .undef), (0, .undef), (0, .undef), (0, .undef)], st.mem.push ⟨Array.replicate 64 (0, .undef), 0⟩) := rfl
  rw [hent, setKey_body_eq]
  show RunsTo prog (.seq skBranch skRest) _ _ _
  have hkb : (if key.length ≤ 64 then key else ((h.init.update key).finalize).1).length ≤ 64 := by
    by_cases hh : key.length ≤ 64
    · simp only [hh, if_true]
    · simp only [hh, if_false]; rw [finalize_length]; decide
  refine runs_seq (sk_branch st bs bk X XK baseS basek koff h key mask lm hS hK hne hXs halS hltS hltK hkd hsz _ rfl rfl rfl rfl rfl hlm rfl
    { st with mem := st.mem.push ⟨Array.replicate 64 (0, .undef), 0⟩ } rfl rfl) ?_
  intro e1 s1 sk
  refine (sk_rest st bs baseS X.size h _ hkb mask hbsN hXs halS hltS hsz e1 s1 sk).weaken ?_
  intro sig e2 s2 ⟨_, hent2, hsz2, ⟨X', hX', hX's, ho⟩, hoth⟩
  have hlk : ∀ j, j < st.mem.size → (s2.mem.extract 0 st.mem.size)[j]? = s2.mem[j]? := by
    intro j hj
    rw [Array.getElem?_extract, hsz2]
    have : j < min st.mem.size (st.mem.size + 1) - 0 := by omega
    simp only [this, if_true, Nat.zero_add]
  have hexs : (s2.mem.extract 0 st.mem.size).size = st.mem.size := by rw [Array.size_extract, hsz2]; omega
  refine ⟨rfl, rfl, hent2, hexs, ⟨X', by show (s2.mem.extract 0 st.mem.size)[bs]? = _; rw [hlk bs hbsN]; exact hX', hX's, by rw [hmacSetKey_eq]; exact ho⟩, fun j hj => ?_⟩
  show ORel BlockEqV (s2.mem.extract 0 st.mem.size)[j]? st.mem[j]?
  by_cases hjn : j < st.mem.size
  · rw [hlk j hjn]; exact hoth j hj (by omega)
  · rw [Array.getElem?_eq_none (by rw [hexs]; omega), Array.getElem?_eq_none (by omega)]; trivial


theorem prog_hmac_finalize : prog[idx_tinyjambu_hmac_finalize]? = some f_tinyjambu_hmac_finalize := by
  simp only [prog, idx_tinyjambu_hmac_finalize, List.getElem?_cons_succ, List.getElem?_cons_zero]

theorem hmacFinalize_eq (h : HState) (key : Bytes) :
    hmacFinalize h key = ((hmacSetKey h.finalize.2 key 0x5C).update h.finalize.1).finalize := rfl

theorem veq_of_le {Z Y : Array LByte} (h : BytesLe Z Y) : ARel VEq Z Y := ARel.map (R := VLe) (S := VEq) (fun _ _ h => VLe.toVEq h) h

theorem arel_veq_trans {A B C : Array LByte} (h1 : ARel VEq A B) (h2 : ARel VEq B C) : ARel VEq A C :=
  ARel.trans' (R := VEq) (fun _ _ _ p q => VEq.trans p q) h1 h2

theorem le_block_data {m : Array Block} {bd : Nat} {XD : Array LByte} {based off : Nat} {data : Bytes} (h : ORel BlockLe m[bd]? (some ⟨XD, based⟩)) (hd : BytesV XD off data) :
    ∃ XD', m[bd]? = some ⟨XD', based⟩ ∧ XD'.size = XD.size ∧ BytesV XD' off data := by
  cases hb : m[bd]? with
  | none => rw [hb] at h; exact h.elim
  | some blk =>
    rw [hb] at h
    have hbase : blk.base = based := h.1
    have hle : BytesLe blk.bytes XD := h.2
    exact ⟨blk.bytes, by rw [← hbase], hle.size_eq, ⟨by rw [hle.size_eq]; exact hd.1, fun k b hk => (hd.2 k b hk).lower hle⟩⟩

/-- **`tinyjambu_hmac_finalize(state, key, keylen, out)` as a call** -/
theorem hmac_finalize_call (env : Env) (st : St) (es ek el eo : Expr) (bs bk bo : Nat) (X XK XO : Array LByte) (baseS basek koff baseo oo : Nat) (h : HState) (key : Bytes)
    (hes : evalE env es = .ok (mkPtr bs baseS, .pub)) (hek : evalE env ek = .ok (mkPtr bk (basek + koff), .pub))
    (hel : evalE env el = .ok (key.length, .pub)) (heo : evalE env eo = .ok (mkPtr bo (baseo + oo), .pub))
    (hS : st.mem[bs]? = some ⟨X, baseS⟩) (hK : st.mem[bk]? = some ⟨XK, basek⟩) (hO : st.mem[bo]? = some ⟨XO, baseo⟩) (hnk : bk ≠ bs) (hno : bo ≠ bs)
    (hrep : HObjV X h) (halS : baseS % 4 = 0) (hltS : baseS + X.size < ptrBase) (hltK : basek + XK.size < ptrBase) (hltO : baseo + XO.size < ptrBase)
    (hkd : BytesV XK koff key) (hin : oo + 32 ≤ XO.size) (hsz : st.mem.size + 5 < 2 ^ 30) :
    RunsTo prog (.call none idx_tinyjambu_hmac_finalize [es, ek, el, eo]) env st (fun sig e s => sig = .normal ∧ e = env ∧ s.ent = st.ent ∧ s.mem.size = st.mem.size ∧
      (∃ X', s.mem[bs]? = some ⟨X', baseS⟩ ∧ X'.size = X.size ∧ HObjV X' (hmacFinalize h key).2) ∧
      (∃ XO', s.mem[bo]? = some ⟨XO', baseo⟩ ∧ XO'.size = XO.size ∧ BytesV XO' oo (hmacFinalize h key).1 ∧
        (∀ q, (q < oo ∨ oo + 32 ≤ q) → ORel VEq XO'[q]? XO[q]?)) ∧
      (∀ j, j ≠ bs → j ≠ bo → ORel BlockEqV s.mem[j]? st.mem[j]?)) := by
  have hbsN := mem_lt hS; have hbkN := mem_lt hK; have hboN := mem_lt hO
  have hXs : 52 ≤ X.size := hrep.sz
  let vs : List LVal := [(mkPtr bs baseS, .pub), (mkPtr bk (basek + koff), .pub), (key.length, .pub), (mkPtr bo (baseo + oo), .pub)]
  refine runs_call_none f_tinyjambu_hmac_finalize vs prog_hmac_finalize (by simp only [evalArgs, hes, hek, hel, heo]; rfl) rfl ?_
  have hent : enterFun f_tinyjambu_hmac_finalize vs st.mem = (#[(mkPtr bs baseS, .pub), (mkPtr bk (basek + koff), .pub), (key.length, .pub), (mkPtr bo (baseo + oo), .pub),
      (mkPtr st.mem.size 0, .pub)], st.mem.push ⟨Array.replicate 32 (0, .undef), 0⟩) := rfl
  rw [hent]
  generalize hE : (#[(mkPtr bs baseS, Lab.pub), (mkPtr bk (basek + koff), Lab.pub), (key.length, Lab.pub), (mkPtr bo (baseo + oo), Lab.pub), (mkPtr st.mem.size 0, Lab.pub)] : Env) = E
  have e_0 : E[0]? = some (mkPtr bs baseS, .pub) := by rw [← hE]; rfl
  have e_1 : E[1]? = some (mkPtr bk (basek + koff), .pub) := by rw [← hE]; rfl
  have e_2 : E[2]? = some (key.length, .pub) := by rw [← hE]; rfl
  have e_3 : E[3]? = some (mkPtr bo (baseo + oo), .pub) := by rw [← hE]; rfl
  have e_4 : E[4]? = some (mkPtr st.mem.size 0, .pub) := by rw [← hE]; rfl
  generalize hm1 : st.mem.push ⟨Array.replicate 32 (0, .undef), 0⟩ = mem1
  have hm1lt : ∀ j, j < st.mem.size → mem1[j]? = st.mem[j]? := by
    intro j hj; rw [← hm1, Array.getElem?_push]; simp only [show ¬ j = st.mem.size from by omega, if_false]
  have hm1n : mem1[st.mem.size]? = some ⟨Array.replicate 32 (0, .undef), 0⟩ := by rw [← hm1, Array.getElem?_push]; simp
  have hm1sz : mem1.size = st.mem.size + 1 := by rw [← hm1, Array.size_push]
  have hbody : f_tinyjambu_hmac_finalize.body = seqs [.call none idx_tinyjambu_hash_finalize [.var 0, .var 4],
      .call none idx_tinyjambu_hmac_set_key [.var 0, .var 1, .var 2, .cast .u8 .i32 (.lit 92)],
      .call none idx_tinyjambu_hash_update [.var 0, .var 4, .lit 32], .call none idx_tinyjambu_hash_finalize [.var 0, .var 3],
      .call none idx_tinyjambu_clean [.var 4, .lit 32]] := rfl
  rw [hbody]
  simp only [seqs]
  -- inner digest into the temporary
  refine runs_seq (Q := fun e s => e = E ∧ s.ent = st.ent ∧ s.mem.size = st.mem.size + 1 ∧
      (∃ X1, s.mem[bs]? = some ⟨X1, baseS⟩ ∧ X1.size = X.size ∧ HObjV X1 h.finalize.2) ∧
      (∃ T1, s.mem[st.mem.size]? = some ⟨T1, 0⟩ ∧ T1.size = 32 ∧ BytesV T1 0 h.finalize.1) ∧
      (∀ j, j ≠ bs → j ≠ st.mem.size → ORel BlockLe s.mem[j]? mem1[j]?)) ?_ ?_
  · refine (finalize_call prog idx_tinyjambu_hash_finalize prog_finalize prog_compress prog_p256 E { st with mem := mem1 } (.var 0) (.var 4) bs st.mem.size X
      (Array.replicate 32 (0, .undef)) baseS 0 0 h (by simp only [evalE, e_0, reduceCtorEq, if_false]) (by simp only [evalE, e_4, reduceCtorEq, if_false, Nat.add_zero])
      (by show mem1[bs]? = _; rw [hm1lt bs hbsN]; exact hS) hm1n (by omega) hrep halS hltS (by simp [ptrBase]) (by simp) (by omega) (by omega)
      (by show mem1.size + 2 < _; omega)).weaken ?_
    intro sig e s ⟨g1, g2, g3, g4, ⟨blkS, g5, g6, g7, g8⟩, ⟨blkO, g9, g10, g11, g12, _⟩, g14⟩
    refine ⟨g1, g2, g3, by rw [g4]; exact hm1sz, ⟨blkS.bytes, by rw [g5, ← g6], g7, g8⟩,
      ⟨blkO.bytes, by rw [g9, ← g10], by rw [g11]; simp, ⟨by rw [g11, finalize_length]; simp, fun k b hk => ?_⟩⟩, g14⟩
    obtain ⟨l, hx, hl⟩ := g12 k b hk
    exact ⟨l, hx, hl⟩
  intro e1 s1 ⟨he1, hent1, hsz1, ⟨X1, hX1, hX1s, ho1⟩, ⟨T1, hT1, hT1s, hT1d⟩, hoth1⟩
  rw [he1]
  have hle1 : ∀ j, j ≠ bs → j < st.mem.size → ORel BlockLe s1.mem[j]? st.mem[j]? := fun j hj hjn => by
    have := hoth1 j hj (by omega); rw [hm1lt j hjn] at this; exact this
  obtain ⟨XK1, hK1, hK1s, hK1d⟩ := le_block_data (by have := hle1 bk hnk hbkN; rw [hK] at this; exact this) hkd
  -- outer key block
  refine runs_seq (Q := fun e s => e = E ∧ s.ent = st.ent ∧ s.mem.size = st.mem.size + 1 ∧
      (∃ X2, s.mem[bs]? = some ⟨X2, baseS⟩ ∧ X2.size = X.size ∧ HObjV X2 (hmacSetKey h.finalize.2 key 0x5C)) ∧ OthV bs s.mem s1.mem) ?_ ?_
  · refine (set_key_call E s1 (.var 0) (.var 1) (.var 2) (.cast .u8 .i32 (.lit 92)) bs bk X1 XK1 baseS basek koff h.finalize.2 key 0x5C .pub (by decide)
      (by simp only [evalE, e_0, reduceCtorEq, if_false]) (by simp only [evalE, e_1, reduceCtorEq, if_false]) (by simp only [evalE, e_2, reduceCtorEq, if_false])
      (by simp only [evalE, castVal_u8_i32_small 92 (by decide)]; rfl) hX1 hK1 hnk (by rw [hX1s]; exact hXs) halS (by rw [hX1s]; exact hltS) (by rw [hK1s]; exact hltK) hK1d
      (by omega)).weaken ?_
    intro sig e s ⟨g1, g2, g3, g4, ⟨X2, g5, g6, g7⟩, g8⟩
    exact ⟨g1, g2, by rw [g3]; exact hent1, by rw [g4]; exact hsz1, ⟨X2, g5, by rw [g6]; exact hX1s, g7⟩, g8⟩
  intro e2 s2 ⟨he2, hent2, hsz2, ⟨X2, hX2, hX2s, ho2⟩, hoth2⟩
  rw [he2]
  obtain ⟨T2, hT2, hT2s, hT2v⟩ := eqv_block (by have := hoth2 st.mem.size (by omega); rw [hT1] at this; exact this)
  have hT2d : BytesV T2 0 h.finalize.1 := bytesV_of_veq hT2v hT1d
  -- absorb the inner digest
  refine runs_seq (Q := fun e s => EnvLe e E ∧ s.ent = st.ent ∧ s.mem.size = st.mem.size + 1 ∧ OthV bs s.mem s2.mem ∧
      ∃ X3, s.mem[bs]? = some ⟨X3, baseS⟩ ∧ X3.size = X.size ∧ HObjV X3 ((hmacSetKey h.finalize.2 key 0x5C).update h.finalize.1)) ?_ ?_
  · refine (update_callV prog idx_tinyjambu_hash_update prog_update prog_compress prog_p256 E s2 (.var 0) (.var 4) (.lit 32) bs st.mem.size X2 T2 baseS 0 0
      (hmacSetKey h.finalize.2 key 0x5C) h.finalize.1 (by simp only [evalE, e_0, reduceCtorEq, if_false]) (by simp only [evalE, e_4, reduceCtorEq, if_false, Nat.add_zero])
      (by simp only [evalE, finalize_length]) hX2 hT2 (by omega) ho2 halS (by rw [hX2s]; exact hltS) (by rw [hT2s, hT1s]; simp [ptrBase]) (by omega) (by omega) (by omega)
      (fun k b hk => by obtain ⟨l, hx, hl⟩ := hT2d.2 k b hk; exact ⟨l, hx, hl⟩) hT2d.1).weaken ?_
    intro sig e s ⟨g1, g2, g3, g4, g5, blk', g6, g7, g8, g9⟩
    exact ⟨g1, g2, by rw [g3]; exact hent2, by rw [g4]; exact hsz2, g5, blk'.bytes, by rw [g6, ← g7], by rw [g8]; exact hX2s, g9⟩
  intro e3 s3 ⟨hle3, hent3, hsz3, hoth3, X3, hX3, hX3s, ho3⟩
  have e3_0 := envLe_pub hle3 0 _ e_0
  have e3_3 := envLe_pub hle3 3 _ e_3
  have e3_4 := envLe_pub hle3 4 _ e_4
  have hbo3 : ORel BlockEqV s3.mem[bo]? (some ⟨XO, baseo⟩) := by
    have a := hoth3 bo hno
    have b := hoth2 bo hno
    have c : ORel BlockEqV s1.mem[bo]? (some ⟨XO, baseo⟩) := by
      have := hle1 bo hno hboN; rw [hO] at this
      exact orel_map (R := BlockLe) (S := BlockEqV) (fun _ _ h => BlockLe.toEqV h) this
    exact orel_trans (R := BlockEqV) (fun _ _ _ p q => BlockEqV.trans p q) (orel_trans (R := BlockEqV) (fun _ _ _ p q => BlockEqV.trans p q) a b) c
  obtain ⟨Z3, hZ3, hZ3s, hZ3v⟩ := eqv_block hbo3
  obtain ⟨T3, hT3, hT3s, _⟩ := eqv_block (by have := hoth3 st.mem.size (by omega); rw [hT2] at this; exact this)
  -- the MAC into `out`
  refine runs_seq (Q := fun e s => e = e3 ∧ s.ent = st.ent ∧ s.mem.size = st.mem.size + 1 ∧
      (∃ X4, s.mem[bs]? = some ⟨X4, baseS⟩ ∧ X4.size = X.size ∧ HObjV X4 (hmacFinalize h key).2) ∧
      (∃ O4, s.mem[bo]? = some ⟨O4, baseo⟩ ∧ O4.size = XO.size ∧ BytesV O4 oo (hmacFinalize h key).1 ∧ (∀ q, (q < oo ∨ oo + 32 ≤ q) → ORel VLe O4[q]? Z3[q]?)) ∧
      (∀ j, j ≠ bs → j ≠ bo → ORel BlockLe s.mem[j]? s3.mem[j]?)) ?_ ?_
  · refine (finalize_call prog idx_tinyjambu_hash_finalize prog_finalize prog_compress prog_p256 e3 s3 (.var 0) (.var 3) bs bo X3 Z3 baseS baseo oo
      ((hmacSetKey h.finalize.2 key 0x5C).update h.finalize.1) (by simp only [evalE, e3_0, reduceCtorEq, if_false]) (by simp only [evalE, e3_3, reduceCtorEq, if_false])
      hX3 hZ3 hno ho3 halS (by rw [hX3s]; exact hltS) (by rw [hZ3s]; exact hltO) (by rw [hZ3s]; exact hin) (by omega) (by omega) (by omega)).weaken ?_
    intro sig e s ⟨g1, g2, g3, g4, ⟨blkS, g5, g6, g7, g8⟩, ⟨blkO, g9, g10, g11, g12, g13⟩, g14⟩
    rw [hmacFinalize_eq]
    refine ⟨g1, g2, by rw [g3]; exact hent3, by rw [g4]; exact hsz3, ⟨blkS.bytes, by rw [g5, ← g6], by rw [g7]; exact hX3s, g8⟩,
      ⟨blkO.bytes, by rw [g9, ← g10], by rw [g11]; exact hZ3s, ⟨by rw [g11, hZ3s, finalize_length]; exact hin, fun k b hk => ?_⟩, g13⟩, g14⟩
    obtain ⟨l, hx, hl⟩ := g12 k b hk
    exact ⟨l, hx, hl⟩
  intro e4 s4 ⟨he4, hent4, hsz4, ⟨X4, hX4, hX4s, ho4⟩, ⟨O4, hO4, hO4s, hO4d, hO4o⟩, hoth4⟩
  rw [he4]
  -- wipe the temporary
  obtain ⟨T4, hT4, hT4s, _⟩ := le_block_data (off := 0) (data := []) (by have := hoth4 st.mem.size (by omega) (by omega); rw [hT3] at this; exact this) ⟨by simp, fun k b hk => by simp at hk⟩
  have hc := exec_call_clean 0 e3 s4 (.var 4) (.lit 32) (mkPtr st.mem.size 0) 32 st.mem.size 0 (by simp only [evalE, e3_4, reduceCtorEq, if_false]) (by simp only [evalE])
    (by decide) (by decide) (by have := resolve_byte hT4 0 (by omega) (by simp [ptrBase]); simpa using this) (by rw [blockBytes_of hT4, hT4s, hT3s, hT2s, hT1s]; decide)
  refine ⟨0 + 2, _, _, _, hc, ?_⟩
  have hlk : ∀ j, j < st.mem.size → ((setBlock s4.mem st.mem.size (writeBytes (blockBytes s4.mem st.mem.size) 0 (List.replicate 32 (0, Lab.pub)))).extract 0 st.mem.size)[j]? = s4.mem[j]? := by
    intro j hj
    rw [Array.getElem?_extract, size_setBlock', hsz4]
    have : j < min st.mem.size (st.mem.size + 1) - 0 := by omega
    simp only [this, if_true, Nat.zero_add]
    rw [getElem?_setBlock', if_neg (by omega)]
  have hexs : ((setBlock s4.mem st.mem.size (writeBytes (blockBytes s4.mem st.mem.size) 0 (List.replicate 32 (0, Lab.pub)))).extract 0 st.mem.size).size = st.mem.size := by
    rw [Array.size_extract, size_setBlock', hsz4]; omega
  refine ⟨trivial, trivial, hent4, hexs, ⟨X4, by rw [hlk bs hbsN]; exact hX4, hX4s, ho4⟩, ⟨O4, by rw [hlk bo hboN]; exact hO4, hO4s, hO4d, fun q hq => ?_⟩, fun j hjs hjo => ?_⟩
  · exact orel_trans (R := VEq) (fun _ _ _ p q => VEq.trans p q) (orel_map (R := VLe) (S := VEq) (fun _ _ h => VLe.toVEq h) (hO4o q hq)) (hZ3v q)
  · by_cases hjn : j < st.mem.size
    · rw [hlk j hjn]
      have a : ORel BlockEqV s4.mem[j]? s3.mem[j]? := orel_map (R := BlockLe) (S := BlockEqV) (fun _ _ h => BlockLe.toEqV h) (hoth4 j hjs hjo)
      have b := hoth3 j hjs
      have c := hoth2 j hjs
      have d : ORel BlockEqV s1.mem[j]? st.mem[j]? := orel_map (R := BlockLe) (S := BlockEqV) (fun _ _ h => BlockLe.toEqV h) (hle1 j hjs hjn)
      exact orel_trans (R := BlockEqV) (fun _ _ _ p q => BlockEqV.trans p q) (orel_trans (R := BlockEqV) (fun _ _ _ p q => BlockEqV.trans p q)
        (orel_trans (R := BlockEqV) (fun _ _ _ p q => BlockEqV.trans p q) a b) c) d
    · rw [Array.getElem?_eq_none (by rw [hexs]; omega), Array.getElem?_eq_none (by omega)]; trivial

end TJ.MiniC.Hoare
