import TJ.Proofs.PrngFeed
namespace TJ.MiniC.Hoare
open TJ TJ.MiniC TJ.MiniC.PermC TJ.Gen.MiniC

theorem prog_prng_set_limit : prog[idx_tinyjambu_prng_set_reseed_limit]? = some f_tinyjambu_prng_set_reseed_limit := by
  simp only [prog, idx_tinyjambu_prng_set_reseed_limit, List.getElem?_cons_succ, List.getElem?_cons_zero]

/-- the limit in blocks that `tinyjambu_prng_set_reseed_limit` stores: clamp to 1 MiB, round up to 32-byte blocks, at least one -/
def limitBlocks (limit : Nat) : Nat :=
  let l := if limit > 1048576 then 1048576 else limit
  let l := (l + 31) / 32
  if l = 0 then 1 else l

theorem limitBlocks_bounds (limit : Nat) : 1 ≤ limitBlocks limit ∧ limitBlocks limit ≤ 32768 := by
  unfold limitBlocks
  by_cases h : limit > 1048576
  · simp only [h, if_true]; decide
  · simp only [h, if_false]
    have : (limit + 31) / 32 ≤ 32768 := by omega
    by_cases h0 : (limit + 31) / 32 = 0
    · simp only [h0, if_true]; omega
    · simp only [h0, if_false]; omega

def limBody : Stmt := seqs [.assign 2 (.var 0),
  .ite (.bin .gt .u64 (.var 1) (.lit 1048576)) (.assign 1 (.lit 1048576)) .skip,
  .assign 1 (.bin .div .u64 (.bin .sub .u64 (.bin .add .u64 (.var 1) (.cast .u64 .i32 (.lit 32))) (.cast .u64 .i32 (.lit 1))) (.cast .u64 .i32 (.lit 32))),
  .ite (.un .lnot .u64 (.var 1)) (.assign 1 (.cast .u64 .i32 (.lit 1))) .skip,
  seqs [.assign 3 (.bin .add .u64 (.var 2) (.lit 68)), .store .u32 (.var 3) (.cast .u32 .u64 (.var 1))]]

theorem lim_body_eq : f_tinyjambu_prng_set_reseed_limit.body = limBody := rfl

/-- **`tinyjambu_prng_set_reseed_limit(state, limit)`** on the regenerated term: only the 4 bytes of `reseed_limit` change; they hold `limitBlocks limit` -/
theorem prng_set_limit_call (env : Env) (st : St) (es el : Expr) (bp : Nat) (X : Array LByte) (baseP limit : Nat) (V C : Bytes) (rc rl : Nat)
    (hes : evalE env es = .ok (mkPtr bp baseP, .pub)) (hel : evalE env el = .ok (limit, .pub)) (hlim : limit < 18446744073709551616)
    (hP : st.mem[bp]? = some ⟨X, baseP⟩) (ho : PObjV X V C rc rl) (hal : baseP % 4 = 0) (hltP : baseP + X.size < ptrBase) (hbp30 : bp < 2 ^ 30) :
    RunsTo prog (.call none idx_tinyjambu_prng_set_reseed_limit [es, el]) env st (fun sig e s => sig = .normal ∧ e = env ∧ s.ent = st.ent ∧
      s.mem = setBlock st.mem bp (writeLE X 68 (limitBlocks limit) .pub 4) ∧ PObjV (writeLE X 68 (limitBlocks limit) .pub 4) V C rc (limitBlocks limit)) := by
  have hXs := ho.sz
  have hlb := limitBlocks_bounds limit
  let vs : List LVal := [(mkPtr bp baseP, .pub), (limit, .pub)]
  refine runs_call_none f_tinyjambu_prng_set_reseed_limit vs prog_prng_set_limit (by simp only [evalArgs, hes, hel]; rfl) rfl ?_
  have hent : enterFun f_tinyjambu_prng_set_reseed_limit vs st.mem = (#[(mkPtr bp baseP, .pub), (limit, .pub), (0, .undef), (0, .undef)], st.mem) := rfl
  rw [lim_body_eq, hent]
  unfold limBody
  simp only [seqs]
  have hp68 : (mkPtr bp baseP + 68) % 18446744073709551616 = mkPtr bp (baseP + 68) := ptr_off bp baseP 68 hbp30 (by omega)
  generalize hE0 : (#[(mkPtr bp baseP, Lab.pub), (limit, Lab.pub), (0, Lab.undef), (0, Lab.undef)] : Env) = E0
  have e0s : E0.size = 4 := by rw [← hE0]; rfl
  refine runs_seq (Q := fun e s => e = setVar E0 2 (mkPtr bp baseP, .pub) ∧ s = { st with mem := st.mem }) (runs_assign _ (by rw [← hE0]; rfl) ⟨rfl, rfl, rfl⟩) ?_
  intro e s ⟨he, hs⟩; rw [he, hs]
  generalize hE1 : setVar E0 2 (mkPtr bp baseP, .pub) = E1
  have e1s : E1.size = 4 := by rw [← hE1, size_setVar]; exact e0s
  have e1_1 : E1[1]? = some (limit, .pub) := by rw [← hE1, get_set_ne _ _ _ _ (by decide), ← hE0]; rfl
  have e1_2 : E1[2]? = some (mkPtr bp baseP, .pub) := by rw [← hE1]; exact get_set_eq _ _ _ (by rw [e0s]; decide)
  -- clamp
  let l1 := if limit > 1048576 then 1048576 else limit
  have hl1 : l1 ≤ 1048576 := by show (if limit > 1048576 then 1048576 else limit) ≤ _; split <;> omega
  refine runs_seq (Q := fun e s => e.size = 4 ∧ e[1]? = some (l1, .pub) ∧ e[2]? = some (mkPtr bp baseP, .pub) ∧ s.ent = st.ent ∧ s.mem = st.mem) ?_ ?_
  · by_cases hc : limit > 1048576
    · refine runs_ite_true 1 ?_ (by decide) (runs_assign (1048576, .pub) (by simp only [evalE]) ⟨rfl, by rw [size_setVar]; exact e1s, ?_, by rw [get_set_ne _ _ _ _ (by decide)]; exact e1_2, rfl, rfl⟩)
      · simp only [evalE, e1_1, reduceCtorEq, if_false, BinOp.needsPub2, BinOp.needsPub1, Bool.false_and, Bool.or_self, Bool.false_eq_true, binVal, Ty.signed, gt_iff_lt,
          show 1048576 < limit from hc, decide_true, b2n, if_true, Lab.join_pub_pub]
      · rw [get_set_eq _ _ _ (by rw [e1s]; decide)]; show some (1048576, Lab.pub) = some ((if limit > 1048576 then 1048576 else limit), Lab.pub); rw [if_pos hc]
    · refine runs_ite_false ?_ (runs_skip ⟨rfl, e1s, ?_, e1_2, rfl, rfl⟩)
      · simp only [evalE, e1_1, reduceCtorEq, if_false, BinOp.needsPub2, BinOp.needsPub1, Bool.false_and, Bool.or_self, Bool.false_eq_true, binVal, Ty.signed, gt_iff_lt,
          show ¬ 1048576 < limit from hc, decide_false, b2n, Lab.join_pub_pub]
      · rw [e1_1]; show some (limit, Lab.pub) = some ((if limit > 1048576 then 1048576 else limit), Lab.pub); rw [if_neg hc]
  intro e2 s2 ⟨e2s, e2_1, e2_2, hent2, hm2⟩
  -- round up to blocks
  have ha : (l1 + 32) % 18446744073709551616 = l1 + 32 := Nat.mod_eq_of_lt (by omega)
  have hb : (l1 + 32 + 18446744073709551616 - 1 % 18446744073709551616) % 18446744073709551616 = l1 + 31 := by
    rw [sub64 (l1 + 32) 1 (by omega) (by omega) (by decide)]; omega
  refine runs_seq (Q := fun e s => e.size = 4 ∧ e[1]? = some ((l1 + 31) / 32, .pub) ∧ e[2]? = some (mkPtr bp baseP, .pub) ∧ s.ent = st.ent ∧ s.mem = st.mem)
    (runs_assign ((l1 + 31) / 32, .pub) (by
      simp only [evalE, e2_1, reduceCtorEq, if_false, castVal_u64_i32_lit 32 (by decide), castVal_u64_i32_lit 1 (by decide), BinOp.needsPub2, BinOp.needsPub1, Bool.false_and,
        Bool.or_self, Bool.false_eq_true, Bool.true_and, bne_self_eq_false, binVal, Ty.modulus, Lab.join_pub_pub, ha, hb,
        show (32 : Nat) ≠ 0 from by decide, ne_eq, not_true_eq_false, decide_false])
      ⟨rfl, by rw [size_setVar]; exact e2s, get_set_eq _ _ _ (by rw [e2s]; decide), by rw [get_set_ne _ _ _ _ (by decide)]; exact e2_2, hent2, hm2⟩) ?_
  intro e3 s3 ⟨e3s, e3_1, e3_2, hent3, hm3⟩
  -- at least one block
  have hLB : limitBlocks limit = if (l1 + 31) / 32 = 0 then 1 else (l1 + 31) / 32 := rfl
  refine runs_seq (Q := fun e s => e.size = 4 ∧ e[1]? = some (limitBlocks limit, .pub) ∧ e[2]? = some (mkPtr bp baseP, .pub) ∧ s.ent = st.ent ∧ s.mem = st.mem) ?_ ?_
  · by_cases hz : (l1 + 31) / 32 = 0
    · refine runs_ite_true 1 ?_ (by decide) (runs_assign (1, .pub) (by simp only [evalE, castVal_u64_i32_lit 1 (by decide)])
        ⟨rfl, by rw [size_setVar]; exact e3s, by rw [get_set_eq _ _ _ (by rw [e3s]; decide), hLB, if_pos hz], by rw [get_set_ne _ _ _ _ (by decide)]; exact e3_2, hent3, hm3⟩)
      simp only [evalE, e3_1, reduceCtorEq, if_false, unVal, hz, decide_true, b2n, if_true]
    · refine runs_ite_false ?_ (runs_skip ⟨rfl, e3s, by rw [e3_1, hLB, if_neg hz], e3_2, hent3, hm3⟩)
      simp only [evalE, e3_1, reduceCtorEq, if_false, unVal, hz, decide_false, b2n]
  intro e4 s4 ⟨e4s, e4_1, e4_2, hent4, hm4⟩
  refine runs_seq (Q := fun e s => e = setVar e4 3 (mkPtr bp (baseP + 68), .pub) ∧ s.ent = st.ent ∧ s.mem = st.mem) (runs_assign _ (by
    simp only [evalE, e4_2, reduceCtorEq, if_false, BinOp.needsPub2, BinOp.needsPub1, Bool.false_and, Bool.or_self, Bool.false_eq_true, binVal, Ty.modulus, Lab.join_pub_pub, hp68])
    ⟨rfl, rfl, hent4, hm4⟩) ?_
  intro e5 s5 ⟨he5, hent5, hm5⟩; rw [he5]
  have hcast : castVal .u32 .u64 (limitBlocks limit) = limitBlocks limit := by simp only [castVal, Ty.signed, Ty.modulus]; exact Nat.mod_eq_of_lt (by omega)
  refine runs_store (mkPtr bp (baseP + 68)) (limitBlocks limit) bp 68 4 .pub rfl (by simp only [evalE, get_set_eq _ _ _ (show 3 < e4.size from by omega), reduceCtorEq, if_false])
    (by simp only [evalE, get_set_ne _ _ _ _ (show ¬ 3 = 1 from by decide), e4_1, reduceCtorEq, if_false, hcast])
    (by rw [hm5]; exact resolve_word hP 68 (by omega) (by omega) (by omega)) ?_
  have hext : ∀ (m : Array Block), m.size = st.mem.size → m.extract 0 st.mem.size = m := fun m h => by rw [← h]; exact extract_self _
  refine ⟨trivial, trivial, hent5, ?_, ?_⟩
  · show (setBlock s5.mem bp _).extract 0 st.mem.size = _
    rw [hm5, blockBytes_of hP, hext _ (size_setBlock' _ _ _)]
  · refine ⟨by rw [size_writeLE]; exact ho.sz, ⟨by rw [size_writeLE]; exact ho.v.1, fun k b hk => ?_⟩, ho.vl, ⟨by rw [size_writeLE]; exact ho.c.1, fun k b hk => ?_⟩, ho.cl, ?_, ho.rcb, ?_⟩
    · have hk32 : k < 32 := by
        by_cases h : k < 32
        · exact h
        · rw [List.getElem?_eq_none (by rw [ho.vl]; omega)] at hk; cases hk
      exact (ho.v.2 k b hk).writeLE_other 68 _ 4 .pub (Or.inl (by omega))
    · have hk32 : k < 32 := by
        by_cases h : k < 32
        · exact h
        · rw [List.getElem?_eq_none (by rw [ho.cl]; omega)] at hk; cases hk
      exact (ho.c.2 k b hk).writeLE_other 68 _ 4 .pub (Or.inl (by omega))
    · rw [readLE_writeLE_ne X 68 64 _ 4 4 .pub (Or.inl (by omega))]; exact ho.hrc
    · rw [readLE_writeLE .pub (by decide) 4 X 68 _ (by omega)]
      congr 2

theorem prog_prng_free : prog[idx_tinyjambu_prng_free]? = some f_tinyjambu_prng_free := by
  simp only [prog, idx_tinyjambu_prng_free, List.getElem?_cons_succ, List.getElem?_cons_zero]

/-- **`tinyjambu_prng_free(state)`** on the regenerated term: all 96 bytes of the state object become public zeros, nothing else changes -/
theorem prng_free_call (env : Env) (st : St) (es : Expr) (bp : Nat) (blk : Block) (hes : evalE env es = .ok (mkPtr bp 0, .pub))
    (hP : st.mem[bp]? = some blk) (hbase : blk.base = 0) (hsz : blk.bytes.size = 96) :
    RunsTo prog (.call none idx_tinyjambu_prng_free [es]) env st (fun sig e s => sig = .normal ∧ e = env ∧ s.ent = st.ent ∧
      s.mem = setBlock st.mem bp (Array.replicate 96 (0, .pub))) := by
  refine runs_call_none f_tinyjambu_prng_free [(mkPtr bp 0, .pub)] prog_prng_free (by simp only [evalArgs, hes]) rfl ?_
  have hc := exec_call_clean_full 0 (enterFun f_tinyjambu_prng_free [(mkPtr bp 0, .pub)] st.mem).1 { st with mem := (enterFun f_tinyjambu_prng_free [(mkPtr bp 0, .pub)] st.mem).2 }
    (.var 0) (.lit 96) 96 bp blk hP hbase hsz rfl rfl (by decide) (by decide)
  refine ⟨0 + 2, _, _, _, hc, rfl, rfl, rfl, ?_⟩
  show (setBlock st.mem bp _).extract 0 st.mem.size = _
  exact extract_setBlock st.mem bp _

end TJ.MiniC.Hoare
