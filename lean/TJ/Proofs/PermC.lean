/-
  TJ.Proofs.PermC — the portable C permutation as REGENERATED from src/backend/tinyjambu-128-c32.c:
  symbolic execution of the `tinyjambu_steps_32` macro expansion (one generic block lemma, instantiated for every
  rotation of the state variables), of a 128-step round, and of the loop; the result is tied to `TJ.perm128`
  (hence, by TJ.Props.C02, to the bit-serial specification).
-/
import TJ.Proofs.MiniCKernels
import TJ.Impl.Basic
namespace TJ.MiniC.PermC
open TJ.MiniC TJ.Gen.MiniC

/-! ### the macro expansion as a statement schema -/

def sh (x k : Nat) (l : Bool) : Expr := .bin (if l then .shl else .shr) .u32 (.var x) (.lit k)
def t1e (x1 x2 : Nat) : Expr := .bin .bor .u32 (.bin .shr .u32 (.var x1) (.lit 15)) (.bin .shl .u32 (.var x2) (.lit 17))
def t2e (x2 x3 : Nat) : Expr := .bin .bor .u32 (.bin .shr .u32 (.var x2) (.lit 6)) (.bin .shl .u32 (.var x3) (.lit 26))
def t3e (x2 x3 : Nat) : Expr := .bin .bor .u32 (.bin .shr .u32 (.var x2) (.lit 21)) (.bin .shl .u32 (.var x3) (.lit 11))
def t4e (x2 x3 : Nat) : Expr := .bin .bor .u32 (.bin .shr .u32 (.var x2) (.lit 27)) (.bin .shl .u32 (.var x3) (.lit 5))

/-- `tinyjambu_steps_32(s[x0], s[x1], s[x2], s[x3], state->k[koff/4 - 4])` with the key word loaded into temporary `kv` -/
def stepsBlk (x0 x1 x2 x3 kv koff : Nat) : Stmt :=
  seqs [.assign 2 (t1e x1 x2), .assign 3 (t2e x2 x3), .assign 4 (t3e x2 x3), .assign 5 (t4e x2 x3),
    seqs [.load kv .u32 (.bin .add .u64 (.var 0) (.lit koff)),
      .assign x0 (.bin .bxor .u32 (.var x0) (.bin .bxor .u32 (.bin .bxor .u32 (.bin .bxor .u32 (.var 2) (.bin .band .u32 (.var 3) (.var 4))) (.var 5)) (.var kv)))]]

/-! ### its value on naturals below 2^32, and the bridge to the model's `steps32` -/

def T (x y : Nat) (r l : Nat) : Nat := (x >>> r) ||| ((y <<< l) % 4294967296)
def st32N (a b c d k : Nat) : Nat :=
  a ^^^ ((((T b c 15 17) ^^^ ((T c d 6 26) &&& (T c d 21 11))) ^^^ (T c d 27 5)) ^^^ k)

theorem st32N_eq (a b c d k : UInt32) :
    st32N a.toNat b.toNat c.toNat d.toNat k.toNat = (steps32 a b c d k).toNat := by
  simp only [st32N, T, steps32, UInt32.toNat_xor, UInt32.toNat_or, UInt32.toNat_and, UInt32.toNat_shiftRight, UInt32.toNat_shiftLeft,
    show UInt32.toNat 15 % 32 = 15 from rfl, show UInt32.toNat 17 % 32 = 17 from rfl, show UInt32.toNat 6 % 32 = 6 from rfl,
    show UInt32.toNat 26 % 32 = 26 from rfl, show UInt32.toNat 21 % 32 = 21 from rfl, show UInt32.toNat 11 % 32 = 11 from rfl,
    show UInt32.toNat 27 % 32 = 27 from rfl, show UInt32.toNat 5 % 32 = 5 from rfl, show (2 : Nat) ^ 32 = 4294967296 from rfl,
    Nat.xor_assoc]


theorem T_lt (x y r l : Nat) (hx : x < 4294967296) : T x y r l < 4294967296 := by
  unfold T
  exact Nat.or_lt_two_pow (n := 32) (Nat.lt_of_le_of_lt (Nat.shiftRight_le _ _) hx) (Nat.mod_lt _ (by decide))

theorem st32N_lt (a b c d k : Nat) (ha : a < 4294967296) (hb : b < 4294967296) (hc : c < 4294967296) (hk : k < 4294967296) :
    st32N a b c d k < 4294967296 := by
  unfold st32N
  have h1 := T_lt b c 15 17 hb
  have h2 := T_lt c d 6 26 hc
  have h3 := T_lt c d 21 11 hc
  have h4 := T_lt c d 27 5 hc
  have hand : (T c d 6 26 &&& T c d 21 11) < 4294967296 := Nat.lt_of_le_of_lt Nat.and_le_left h2
  exact Nat.xor_lt_two_pow (n := 32) ha (Nat.xor_lt_two_pow (n := 32) (Nat.xor_lt_two_pow (n := 32) (Nat.xor_lt_two_pow (n := 32) h1 hand) h4) hk)

/-! ### one `steps_32` block on an arbitrary environment -/

/-- lookups through an update at a different index -/
theorem get_set_ne (env : Env) (i j : Nat) (v : LVal) (h : ¬ i = j) : (setVar env i v)[j]? = env[j]? := by
  unfold setVar; rw [Array.getElem?_setIfInBounds]; simp [h]
theorem get_set_eq (env : Env) (i : Nat) (v : LVal) (h : i < env.size) : (setVar env i v)[i]? = some v := by
  unfold setVar; rw [Array.getElem?_setIfInBounds]; simp [h]
theorem size_setVar (env : Env) (i : Nat) (v : LVal) : (setVar env i v).size = env.size := by
  unfold setVar; simp

/-- the environment after one block -/
def envAfter (env : Env) (x0 kv : Nat) (a b c d k : Nat) : Env :=
  setVar (setVar (setVar (setVar (setVar (setVar env 2 (T b c 15 17, .sec)) 3 (T c d 6 26, .sec)) 4 (T c d 21 11, .sec)) 5 (T c d 27 5, .sec))
    kv (k, .sec)) x0 (st32N a b c d k, .sec)

theorem exec_stepsBlk (prog : Program) (f6 f5 f4 f3 f2 f1 f0 : Nat)
    (h6 : f6 = Fu f5) (h5 : f5 = Fu f4) (h4 : f4 = Fu f3) (h3 : f3 = Fu f2) (h2 : f2 = Fu f1) (h1 : f1 = Fu f0)
    (env : Env) (st : St) (x0 x1 x2 x3 kv koff : Nat) (a b c d k : Nat) (bs : Nat) (blk : Block)
    (hsz : 6 ≤ env.size) (hx0 : x0 < env.size) (hkv : kv < env.size)
    (n12 : ¬ 2 = x2) (n13 : ¬ 2 = x3) (n22 : ¬ 3 = x2) (n23 : ¬ 3 = x3) (n32 : ¬ 4 = x2) (n33 : ¬ 4 = x3)
    (m0 : ¬ 2 = 0 ∧ ¬ 3 = 0 ∧ ¬ 4 = 0 ∧ ¬ 5 = 0)
    (nk : ¬ 2 = kv ∧ ¬ 3 = kv ∧ ¬ 4 = kv ∧ ¬ 5 = kv ∧ ¬ kv = 2 ∧ ¬ kv = 3 ∧ ¬ kv = 4 ∧ ¬ kv = 5)
    (nx : ¬ 2 = x0 ∧ ¬ 3 = x0 ∧ ¬ 4 = x0 ∧ ¬ 5 = x0 ∧ ¬ kv = x0)
    (e0 : env[0]? = some (mkPtr bs blk.base, .pub)) (ea : env[x0]? = some (a, .sec)) (eb : env[x1]? = some (b, .sec))
    (ec : env[x2]? = some (c, .sec)) (ed : env[x3]? = some (d, .sec))
    (hb : st.mem[bs]? = some blk) (hbase : blk.base + koff + 4 < ptrBase) (hbb : bs < 2 ^ 30) (hal : (blk.base + koff) % 4 = 0)
    (hko : koff + 4 ≤ blk.bytes.size) (hk : readLE blk.bytes koff 4 = some (k, .sec)) :
    exec prog f6 (stepsBlk x0 x1 x2 x3 kv koff) env st =
      .ok .normal (envAfter env x0 kv a b c d k) { st with leak := Ev.rd (mkPtr bs (blk.base + koff)) 4 :: st.leak } := by
  have hr : resolve st.mem (mkPtr bs (blk.base + koff)) 4 = .ok (bs, koff) :=
    resolve_mkPtr st.mem bs koff 4 blk hb hko (by omega) (fun _ => hal)
  have hbk : blockBytes st.mem bs = blk.bytes := by simp [blockBytes, hb]
  have hp : (mkPtr bs blk.base + koff) % 18446744073709551616 = mkPtr bs (blk.base + koff) := by
    have : mkPtr bs blk.base + koff = mkPtr bs (blk.base + koff) := by unfold mkPtr; omega
    rw [this, Nat.mod_eq_of_lt (mkPtr_lt bs _ hbb (by omega))]
  obtain ⟨m20, m30, m40, m50⟩ := m0
  obtain ⟨k2, k3, k4, k5, k2', k3', k4', k5'⟩ := nk
  obtain ⟨y2, y3, y4, y5, yk⟩ := nx
  have s2 : 2 < env.size := by omega
  have s3 : 3 < env.size := by omega
  have s4 : 4 < env.size := by omega
  have s5 : 5 < env.size := by omega
  have hsh : ¬ (15 ≥ 32) ∧ ¬ (17 ≥ 32) ∧ ¬ (6 ≥ 32) ∧ ¬ (26 ≥ 32) ∧ ¬ (21 ≥ 32) ∧ ¬ (11 ≥ 32) ∧ ¬ (27 ≥ 32) ∧ ¬ (5 ≥ 32) := by decide
  obtain ⟨g1, g2, g3, g4, g5, g6, g7, g8⟩ := hsh
  unfold stepsBlk
  simp only [seqs, t1e, t2e, t3e, t4e]
  -- t1 .. t4
  rw [exec_seq' prog h6, exec_assign' prog h5]
  simp only [evalE, eb, ec, ed, reduceCtorEq, if_false, BinOp.needsPub2, BinOp.needsPub1, Bool.true_and, Bool.false_and, Bool.or_false, Bool.or_self,
    bne_self_eq_false, Bool.false_eq_true, binVal, Ty.bits, Ty.signed, Ty.modulus, Lab.join_sec_left, Lab.join_sec_right, Lab.join_pub_pub,
    g1, g2, g3, g4, g5, g6, g7, g8, ne_eq, not_true_eq_false, not_false_eq_true, decide_true, decide_false, Bool.not_true, Bool.not_false]
  rw [exec_seq' prog h5, exec_assign' prog h4]
  simp only [evalE, get_set_ne _ _ _ _ n12, get_set_ne _ _ _ _ n13, eb, ec, ed, reduceCtorEq, if_false, BinOp.needsPub2, BinOp.needsPub1, Bool.true_and, Bool.false_and, Bool.or_false, Bool.or_self,
    bne_self_eq_false, Bool.false_eq_true, binVal, Ty.bits, Ty.signed, Ty.modulus, Lab.join_sec_left, Lab.join_sec_right, Lab.join_pub_pub,
    g1, g2, g3, g4, g5, g6, g7, g8, ne_eq, not_true_eq_false, not_false_eq_true, decide_true, decide_false, Bool.not_true, Bool.not_false]
  rw [exec_seq' prog h4, exec_assign' prog h3]
  simp only [evalE, get_set_ne _ _ _ _ n12, get_set_ne _ _ _ _ n13, get_set_ne _ _ _ _ n22, get_set_ne _ _ _ _ n23, eb, ec, ed, reduceCtorEq, if_false, BinOp.needsPub2, BinOp.needsPub1, Bool.true_and, Bool.false_and, Bool.or_false, Bool.or_self,
    bne_self_eq_false, Bool.false_eq_true, binVal, Ty.bits, Ty.signed, Ty.modulus, Lab.join_sec_left, Lab.join_sec_right, Lab.join_pub_pub,
    g1, g2, g3, g4, g5, g6, g7, g8, ne_eq, not_true_eq_false, not_false_eq_true, decide_true, decide_false, Bool.not_true, Bool.not_false]
  rw [exec_seq' prog h3, exec_assign' prog h2]
  simp only [evalE, get_set_ne _ _ _ _ n12, get_set_ne _ _ _ _ n13, get_set_ne _ _ _ _ n22, get_set_ne _ _ _ _ n23, get_set_ne _ _ _ _ n32, get_set_ne _ _ _ _ n33,
    eb, ec, ed, reduceCtorEq, if_false, BinOp.needsPub2, BinOp.needsPub1, Bool.true_and, Bool.false_and, Bool.or_false, Bool.or_self,
    bne_self_eq_false, Bool.false_eq_true, binVal, Ty.bits, Ty.signed, Ty.modulus, Lab.join_sec_left, Lab.join_sec_right, Lab.join_pub_pub,
    g1, g2, g3, g4, g5, g6, g7, g8, ne_eq, not_true_eq_false, not_false_eq_true, decide_true, decide_false, Bool.not_true, Bool.not_false]
  -- the key word
  rw [exec_seq' prog h2]
  have hptr : evalE (setVar (setVar (setVar (setVar env 2 (T b c 15 17, .sec)) 3 (T c d 6 26, .sec)) 4 (T c d 21 11, .sec)) 5 (T c d 27 5, .sec))
      (.bin .add .u64 (.var 0) (.lit koff)) = .ok (mkPtr bs (blk.base + koff), .pub) := by
    simp only [evalE, get_set_ne _ _ _ _ m20, get_set_ne _ _ _ _ m30, get_set_ne _ _ _ _ m40, get_set_ne _ _ _ _ m50, e0, reduceCtorEq, if_false,
      BinOp.needsPub2, BinOp.needsPub1, Bool.false_and, Bool.or_self, Bool.false_eq_true, binVal, Ty.modulus, Lab.join_pub_pub, hp]
  simp only [T] at hptr
  rw [exec_load_ok' prog h1 kv .u32 _ _ st (mkPtr bs (blk.base + koff)) bs koff 4 (k, .sec) rfl hptr hr (by rw [hbk]; exact hk)]
  simp only []
  rw [exec_assign' prog h1]
  have q52 : ¬ 5 = 2 := by decide
  have q53 : ¬ 5 = 3 := by decide
  have q54 : ¬ 5 = 4 := by decide
  have q42 : ¬ 4 = 2 := by decide
  have q43 : ¬ 4 = 3 := by decide
  have q32 : ¬ 3 = 2 := by decide
  have z2 : 2 < (setVar env 2 (b >>> 15 ||| c <<< 17 % 4294967296, Lab.sec)).size := by rw [size_setVar]; exact s2
  simp only [evalE, get_set_ne _ _ _ _ yk, get_set_ne _ _ _ _ y5, get_set_ne _ _ _ _ y4, get_set_ne _ _ _ _ y3, get_set_ne _ _ _ _ y2, ea,
    get_set_ne _ _ _ _ k2', get_set_ne _ _ _ _ k3', get_set_ne _ _ _ _ k4', get_set_ne _ _ _ _ k5',
    get_set_ne _ _ _ _ q52, get_set_ne _ _ _ _ q53, get_set_ne _ _ _ _ q54, get_set_ne _ _ _ _ q42, get_set_ne _ _ _ _ q43, get_set_ne _ _ _ _ q32,
    get_set_eq, size_setVar, s2, s3, s4, s5, hkv, hx0,
    reduceCtorEq, if_false, BinOp.needsPub2, BinOp.needsPub1, Bool.false_and, Bool.or_self, Bool.false_eq_true, binVal,
    Lab.join_sec_left, Lab.join_sec_right, Lab.join_pub_pub]
  rfl


/-! ### rounds: environments are described by lookups (`Inv`), memory by `KeyMem`; fuel levels by a function `f` with `f (i+1) = Fu (f i)` -/

theorem size_envAfter (env : Env) (x0 kv a b c d k : Nat) : (envAfter env x0 kv a b c d k).size = env.size := by
  simp only [envAfter, size_setVar]

theorem envAfter_get (env : Env) (x0 kv a b c d k j : Nat) (h2 : ¬ 2 = j) (h3 : ¬ 3 = j) (h4 : ¬ 4 = j) (h5 : ¬ 5 = j)
    (hk : ¬ kv = j) (hx : ¬ x0 = j) : (envAfter env x0 kv a b c d k)[j]? = env[j]? := by
  simp only [envAfter, get_set_ne _ _ _ _ h2, get_set_ne _ _ _ _ h3, get_set_ne _ _ _ _ h4, get_set_ne _ _ _ _ h5,
    get_set_ne _ _ _ _ hk, get_set_ne _ _ _ _ hx]

theorem envAfter_get_x0 (env : Env) (x0 kv a b c d k : Nat) (h : x0 < env.size) :
    (envAfter env x0 kv a b c d k)[x0]? = some (st32N a b c d k, Lab.sec) := by
  unfold envAfter
  rw [get_set_eq]
  simp only [size_setVar]; exact h

/-- what the loop needs to know about the environment: the state pointer, the round counter and the four state words -/
structure Inv (nv : Nat) (env : Env) (ptr r a b c d : Nat) : Prop where
  size : env.size = nv
  big : 26 ≤ nv
  e0 : env[0]? = some (ptr, Lab.pub)
  e1 : env[1]? = some (r, Lab.pub)
  e6 : env[6]? = some (a, Lab.sec)
  e8 : env[8]? = some (b, Lab.sec)
  e10 : env[10]? = some (c, Lab.sec)
  e12 : env[12]? = some (d, Lab.sec)

/-- what it needs to know about memory: the state object with its four key words -/
structure KeyMem (st : St) (bs : Nat) (blk : Block) (k0 k1 k2 k3 : Nat) : Prop where
  hb : st.mem[bs]? = some blk
  al : blk.base % 4 = 0
  lt : blk.base + 32 < ptrBase
  bb : bs < 2 ^ 30
  sz : 32 ≤ blk.bytes.size
  r0 : readLE blk.bytes 16 4 = some (k0, Lab.sec)
  r1 : readLE blk.bytes 20 4 = some (k1, Lab.sec)
  r2 : readLE blk.bytes 24 4 = some (k2, Lab.sec)
  r3 : readLE blk.bytes 28 4 = some (k3, Lab.sec)

theorem KeyMem.leak {st : St} {bs : Nat} {blk : Block} {k0 k1 k2 k3 : Nat} (h : KeyMem st bs blk k0 k1 k2 k3) (l : List Ev) :
    KeyMem { st with leak := l } bs blk k0 k1 k2 k3 := ⟨h.hb, h.al, h.lt, h.bb, h.sz, h.r0, h.r1, h.r2, h.r3⟩

/-- one block at the head of a statement sequence -/
theorem exec_seq_blk (prog : Program) (f : Nat → Nat) (hf : ∀ i, f (i + 1) = Fu (f i)) (m : Nat)
    (env : Env) (st : St) (x0 x1 x2 x3 kv koff : Nat) (a b c d k : Nat) (bs : Nat) (blk : Block) (rest : Stmt)
    (hsz : 26 ≤ env.size) (hx0 : x0 < 26) (hkv : 14 ≤ kv ∧ kv < 26)
    (hx : (x0 = 6 ∨ x0 = 8 ∨ x0 = 10 ∨ x0 = 12) ∧ (x2 = 6 ∨ x2 = 8 ∨ x2 = 10 ∨ x2 = 12) ∧ (x3 = 6 ∨ x3 = 8 ∨ x3 = 10 ∨ x3 = 12))
    (e0 : env[0]? = some (mkPtr bs blk.base, .pub)) (ea : env[x0]? = some (a, .sec)) (eb : env[x1]? = some (b, .sec))
    (ec : env[x2]? = some (c, .sec)) (ed : env[x3]? = some (d, .sec))
    (hb : st.mem[bs]? = some blk) (hbase : blk.base + koff + 4 < ptrBase) (hbb : bs < 2 ^ 30) (hal : (blk.base + koff) % 4 = 0)
    (hko : koff + 4 ≤ blk.bytes.size) (hk : readLE blk.bytes koff 4 = some (k, .sec)) :
    exec prog (f (m + 7)) (.seq (stepsBlk x0 x1 x2 x3 kv koff) rest) env st =
      exec prog (f (m + 6)) rest (envAfter env x0 kv a b c d k) { st with leak := Ev.rd (mkPtr bs (blk.base + koff)) 4 :: st.leak } := by
  rw [exec_seq' prog (hf (m + 6))]
  rw [exec_stepsBlk prog (f (m + 6)) (f (m + 5)) (f (m + 4)) (f (m + 3)) (f (m + 2)) (f (m + 1)) (f m)
    (hf _) (hf _) (hf _) (hf _) (hf _) (hf _) env st x0 x1 x2 x3 kv koff a b c d k bs blk
    (by omega) (by omega) (by omega) (by omega) (by omega) (by omega) (by omega) (by omega) (by omega)
    (by decide) (by omega) (by omega) e0 ea eb ec ed hb hbase hbb hal hko hk]


theorem Inv.after6 {nv : Nat} {env : Env} {ptr r a b c d : Nat} (h : Inv nv env ptr r a b c d) (kv : Nat) (hkv : 14 ≤ kv ∧ kv < 26) (x y z w k : Nat) :
    Inv nv (envAfter env 6 kv x y z w k) ptr r (st32N x y z w k) b c d :=
  ⟨by rw [size_envAfter]; exact h.size, h.big,
   by rw [envAfter_get _ _ _ _ _ _ _ _ _ (by omega) (by omega) (by omega) (by omega) (by omega) (by omega)]; exact h.e0,
   by rw [envAfter_get _ _ _ _ _ _ _ _ _ (by omega) (by omega) (by omega) (by omega) (by omega) (by omega)]; exact h.e1,
   by rw [envAfter_get_x0 _ _ _ _ _ _ _ _ (by have := h.size; have := h.big; omega)],
   by rw [envAfter_get _ _ _ _ _ _ _ _ _ (by omega) (by omega) (by omega) (by omega) (by omega) (by omega)]; exact h.e8,
   by rw [envAfter_get _ _ _ _ _ _ _ _ _ (by omega) (by omega) (by omega) (by omega) (by omega) (by omega)]; exact h.e10,
   by rw [envAfter_get _ _ _ _ _ _ _ _ _ (by omega) (by omega) (by omega) (by omega) (by omega) (by omega)]; exact h.e12⟩

theorem Inv.after8 {nv : Nat} {env : Env} {ptr r a b c d : Nat} (h : Inv nv env ptr r a b c d) (kv : Nat) (hkv : 14 ≤ kv ∧ kv < 26) (x y z w k : Nat) :
    Inv nv (envAfter env 8 kv x y z w k) ptr r a (st32N x y z w k) c d :=
  ⟨by rw [size_envAfter]; exact h.size, h.big,
   by rw [envAfter_get _ _ _ _ _ _ _ _ _ (by omega) (by omega) (by omega) (by omega) (by omega) (by omega)]; exact h.e0,
   by rw [envAfter_get _ _ _ _ _ _ _ _ _ (by omega) (by omega) (by omega) (by omega) (by omega) (by omega)]; exact h.e1,
   by rw [envAfter_get _ _ _ _ _ _ _ _ _ (by omega) (by omega) (by omega) (by omega) (by omega) (by omega)]; exact h.e6,
   by rw [envAfter_get_x0 _ _ _ _ _ _ _ _ (by have := h.size; have := h.big; omega)],
   by rw [envAfter_get _ _ _ _ _ _ _ _ _ (by omega) (by omega) (by omega) (by omega) (by omega) (by omega)]; exact h.e10,
   by rw [envAfter_get _ _ _ _ _ _ _ _ _ (by omega) (by omega) (by omega) (by omega) (by omega) (by omega)]; exact h.e12⟩

theorem Inv.after10 {nv : Nat} {env : Env} {ptr r a b c d : Nat} (h : Inv nv env ptr r a b c d) (kv : Nat) (hkv : 14 ≤ kv ∧ kv < 26) (x y z w k : Nat) :
    Inv nv (envAfter env 10 kv x y z w k) ptr r a b (st32N x y z w k) d :=
  ⟨by rw [size_envAfter]; exact h.size, h.big,
   by rw [envAfter_get _ _ _ _ _ _ _ _ _ (by omega) (by omega) (by omega) (by omega) (by omega) (by omega)]; exact h.e0,
   by rw [envAfter_get _ _ _ _ _ _ _ _ _ (by omega) (by omega) (by omega) (by omega) (by omega) (by omega)]; exact h.e1,
   by rw [envAfter_get _ _ _ _ _ _ _ _ _ (by omega) (by omega) (by omega) (by omega) (by omega) (by omega)]; exact h.e6,
   by rw [envAfter_get _ _ _ _ _ _ _ _ _ (by omega) (by omega) (by omega) (by omega) (by omega) (by omega)]; exact h.e8,
   by rw [envAfter_get_x0 _ _ _ _ _ _ _ _ (by have := h.size; have := h.big; omega)],
   by rw [envAfter_get _ _ _ _ _ _ _ _ _ (by omega) (by omega) (by omega) (by omega) (by omega) (by omega)]; exact h.e12⟩

theorem Inv.after12 {nv : Nat} {env : Env} {ptr r a b c d : Nat} (h : Inv nv env ptr r a b c d) (kv : Nat) (hkv : 14 ≤ kv ∧ kv < 26) (x y z w k : Nat) :
    Inv nv (envAfter env 12 kv x y z w k) ptr r a b c (st32N x y z w k) :=
  ⟨by rw [size_envAfter]; exact h.size, h.big,
   by rw [envAfter_get _ _ _ _ _ _ _ _ _ (by omega) (by omega) (by omega) (by omega) (by omega) (by omega)]; exact h.e0,
   by rw [envAfter_get _ _ _ _ _ _ _ _ _ (by omega) (by omega) (by omega) (by omega) (by omega) (by omega)]; exact h.e1,
   by rw [envAfter_get _ _ _ _ _ _ _ _ _ (by omega) (by omega) (by omega) (by omega) (by omega) (by omega)]; exact h.e6,
   by rw [envAfter_get _ _ _ _ _ _ _ _ _ (by omega) (by omega) (by omega) (by omega) (by omega) (by omega)]; exact h.e8,
   by rw [envAfter_get _ _ _ _ _ _ _ _ _ (by omega) (by omega) (by omega) (by omega) (by omega) (by omega)]; exact h.e10,
   by rw [envAfter_get_x0 _ _ _ _ _ _ _ _ (by have := h.size; have := h.big; omega)]⟩

/-- one 128-step round of the C code on naturals -/
def roundN (a b c d k0 k1 k2 k3 : Nat) : Nat × Nat × Nat × Nat :=
  let a' := st32N a b c d k0
  let b' := st32N b c d a' k1
  let c' := st32N c d a' b' k2
  let d' := st32N d a' b' c' k3
  (a', b', c', d')

/-- four blocks (one round, key words at offsets o0, o1, o2, o3 of the state object) at the head of a statement sequence -/
theorem exec_round (prog : Program) (f : Nat → Nat) (hf : ∀ i, f (i + 1) = Fu (f i)) (m : Nat) (nv : Nat)
    (env : Env) (st : St) (ptr r a b c d : Nat) (kva kvb kvc kvd : Nat) (o0 o1 o2 o3 : Nat) (k0 k1 k2 k3 : Nat) (bs : Nat) (blk : Block) (rest : Stmt)
    (inv : Inv nv env ptr r a b c d) (hptr : ptr = mkPtr bs blk.base)
    (ha : 14 ≤ kva ∧ kva < 26) (hb' : 14 ≤ kvb ∧ kvb < 26) (hc : 14 ≤ kvc ∧ kvc < 26) (hd : 14 ≤ kvd ∧ kvd < 26)
    (hb : st.mem[bs]? = some blk) (hal : blk.base % 4 = 0) (ho : o0 % 4 = 0 ∧ o1 % 4 = 0 ∧ o2 % 4 = 0 ∧ o3 % 4 = 0)
    (hlt : blk.base + blk.bytes.size < ptrBase) (hbb : bs < 2 ^ 30)
    (hsz : o0 + 4 ≤ blk.bytes.size ∧ o1 + 4 ≤ blk.bytes.size ∧ o2 + 4 ≤ blk.bytes.size ∧ o3 + 4 ≤ blk.bytes.size)
    (r0 : readLE blk.bytes o0 4 = some (k0, .sec)) (r1 : readLE blk.bytes o1 4 = some (k1, .sec))
    (r2 : readLE blk.bytes o2 4 = some (k2, .sec)) (r3 : readLE blk.bytes o3 4 = some (k3, .sec)) :
    ∃ env' leak', exec prog (f (m + 10))
        (.seq (stepsBlk 6 8 10 12 kva o0) (.seq (stepsBlk 8 10 12 6 kvb o1) (.seq (stepsBlk 10 12 6 8 kvc o2) (.seq (stepsBlk 12 6 8 10 kvd o3) rest)))) env st =
      exec prog (f (m + 6)) rest env' { st with leak := leak' } ∧
      Inv nv env' ptr r (roundN a b c d k0 k1 k2 k3).1 (roundN a b c d k0 k1 k2 k3).2.1 (roundN a b c d k0 k1 k2 k3).2.2.1 (roundN a b c d k0 k1 k2 k3).2.2.2 := by
  subst hptr
  have i1 := inv.after6 kva ha a b c d k0
  have i2 := i1.after8 kvb hb' b c d (st32N a b c d k0) k1
  have i3 := i2.after10 kvc hc c d (st32N a b c d k0) (st32N b c d (st32N a b c d k0) k1) k2
  have i4 := i3.after12 kvd hd d (st32N a b c d k0) (st32N b c d (st32N a b c d k0) k1) (st32N c d (st32N a b c d k0) (st32N b c d (st32N a b c d k0) k1) k2) k3
  have z0 : 26 ≤ env.size := by have := inv.size; have := inv.big; omega
  have z1 := i1.size; have z1' := i1.big
  have z2 := i2.size; have z2' := i2.big
  have z3 := i3.size; have z3' := i3.big
  obtain ⟨ho0, ho1, ho2, ho3⟩ := ho
  obtain ⟨hs0, hs1, hs2, hs3⟩ := hsz
  refine ⟨_, Ev.rd (mkPtr bs (blk.base + o3)) 4 :: Ev.rd (mkPtr bs (blk.base + o2)) 4 :: Ev.rd (mkPtr bs (blk.base + o1)) 4 ::
    Ev.rd (mkPtr bs (blk.base + o0)) 4 :: st.leak, ?_, i4⟩
  rw [show m + 10 = m + 3 + 7 from by omega]
  rw [exec_seq_blk prog f hf (m + 3) env st 6 8 10 12 kva o0 a b c d k0 bs blk _ z0 (by omega) ha (by omega)
    inv.e0 inv.e6 inv.e8 inv.e10 inv.e12 hb (by omega) hbb (by omega) (by omega) r0]
  rw [show m + 3 + 6 = m + 2 + 7 from by omega]
  rw [exec_seq_blk prog f hf (m + 2) _ { st with leak := Ev.rd (mkPtr bs (blk.base + o0)) 4 :: st.leak } 8 10 12 6 kvb o1 b c d (st32N a b c d k0) k1 bs blk _ (by omega) (by omega) hb' (by omega)
    i1.e0 i1.e8 i1.e10 i1.e12 i1.e6 hb (by omega) hbb (by omega) (by omega) r1]
  rw [show m + 2 + 6 = m + 1 + 7 from by omega]
  rw [exec_seq_blk prog f hf (m + 1) _ { st with leak := Ev.rd (mkPtr bs (blk.base + o1)) 4 :: Ev.rd (mkPtr bs (blk.base + o0)) 4 :: st.leak } 10 12 6 8 kvc o2 c d (st32N a b c d k0) (st32N b c d (st32N a b c d k0) k1) k2 bs blk _ (by omega) (by omega) hc (by omega)
    i2.e0 i2.e10 i2.e12 i2.e6 i2.e8 hb (by omega) hbb (by omega) (by omega) r2]
  rw [show m + 1 + 6 = m + 7 from by omega]
  rw [exec_seq_blk prog f hf m _ { st with leak := Ev.rd (mkPtr bs (blk.base + o2)) 4 :: Ev.rd (mkPtr bs (blk.base + o1)) 4 :: Ev.rd (mkPtr bs (blk.base + o0)) 4 :: st.leak } 12 6 8 10 kvd o3 d (st32N a b c d k0) (st32N b c d (st32N a b c d k0) k1)
    (st32N c d (st32N a b c d k0) (st32N b c d (st32N a b c d k0) k1) k2) k3 bs blk _ (by omega) (by omega) hd (by omega)
    i3.e0 i3.e12 i3.e6 i3.e8 i3.e10 hb (by omega) hbb (by omega) (by omega) r3]

/-- three blocks followed by a final block that ends its statement sequence -/
theorem exec_round_last (prog : Program) (f : Nat → Nat) (hf : ∀ i, f (i + 1) = Fu (f i)) (m : Nat) (nv : Nat)
    (env : Env) (st : St) (ptr r a b c d : Nat) (kva kvb kvc kvd : Nat) (o0 o1 o2 o3 : Nat) (k0 k1 k2 k3 : Nat) (bs : Nat) (blk : Block)
    (inv : Inv nv env ptr r a b c d) (hptr : ptr = mkPtr bs blk.base)
    (ha : 14 ≤ kva ∧ kva < 26) (hb' : 14 ≤ kvb ∧ kvb < 26) (hc : 14 ≤ kvc ∧ kvc < 26) (hd : 14 ≤ kvd ∧ kvd < 26)
    (hb : st.mem[bs]? = some blk) (hal : blk.base % 4 = 0) (ho : o0 % 4 = 0 ∧ o1 % 4 = 0 ∧ o2 % 4 = 0 ∧ o3 % 4 = 0)
    (hlt : blk.base + blk.bytes.size < ptrBase) (hbb : bs < 2 ^ 30)
    (hsz : o0 + 4 ≤ blk.bytes.size ∧ o1 + 4 ≤ blk.bytes.size ∧ o2 + 4 ≤ blk.bytes.size ∧ o3 + 4 ≤ blk.bytes.size)
    (r0 : readLE blk.bytes o0 4 = some (k0, .sec)) (r1 : readLE blk.bytes o1 4 = some (k1, .sec))
    (r2 : readLE blk.bytes o2 4 = some (k2, .sec)) (r3 : readLE blk.bytes o3 4 = some (k3, .sec)) :
    ∃ env' leak', exec prog (f (m + 9))
        (.seq (stepsBlk 6 8 10 12 kva o0) (.seq (stepsBlk 8 10 12 6 kvb o1) (.seq (stepsBlk 10 12 6 8 kvc o2) (stepsBlk 12 6 8 10 kvd o3)))) env st =
      .ok .normal env' { st with leak := leak' } ∧
      Inv nv env' ptr r (roundN a b c d k0 k1 k2 k3).1 (roundN a b c d k0 k1 k2 k3).2.1 (roundN a b c d k0 k1 k2 k3).2.2.1 (roundN a b c d k0 k1 k2 k3).2.2.2 := by
  subst hptr
  have i1 := inv.after6 kva ha a b c d k0
  have i2 := i1.after8 kvb hb' b c d (st32N a b c d k0) k1
  have i3 := i2.after10 kvc hc c d (st32N a b c d k0) (st32N b c d (st32N a b c d k0) k1) k2
  have i4 := i3.after12 kvd hd d (st32N a b c d k0) (st32N b c d (st32N a b c d k0) k1) (st32N c d (st32N a b c d k0) (st32N b c d (st32N a b c d k0) k1) k2) k3
  have z0 : 26 ≤ env.size := by have := inv.size; have := inv.big; omega
  have z1 := i1.size; have z1' := i1.big
  have z2 := i2.size; have z2' := i2.big
  have z3 := i3.size; have z3' := i3.big
  obtain ⟨ho0, ho1, ho2, ho3⟩ := ho
  obtain ⟨hs0, hs1, hs2, hs3⟩ := hsz
  refine ⟨_, Ev.rd (mkPtr bs (blk.base + o3)) 4 :: Ev.rd (mkPtr bs (blk.base + o2)) 4 :: Ev.rd (mkPtr bs (blk.base + o1)) 4 ::
    Ev.rd (mkPtr bs (blk.base + o0)) 4 :: st.leak, ?_, i4⟩
  rw [show m + 9 = m + 2 + 7 from by omega]
  rw [exec_seq_blk prog f hf (m + 2) env st 6 8 10 12 kva o0 a b c d k0 bs blk _ z0 (by omega) ha (by omega)
    inv.e0 inv.e6 inv.e8 inv.e10 inv.e12 hb (by omega) hbb (by omega) (by omega) r0]
  rw [show m + 2 + 6 = m + 1 + 7 from by omega]
  rw [exec_seq_blk prog f hf (m + 1) _ { st with leak := Ev.rd (mkPtr bs (blk.base + o0)) 4 :: st.leak } 8 10 12 6 kvb o1 b c d (st32N a b c d k0) k1 bs blk _ (by omega) (by omega) hb' (by omega)
    i1.e0 i1.e8 i1.e10 i1.e12 i1.e6 hb (by omega) hbb (by omega) (by omega) r1]
  rw [show m + 1 + 6 = m + 7 from by omega]
  rw [exec_seq_blk prog f hf m _ { st with leak := Ev.rd (mkPtr bs (blk.base + o1)) 4 :: Ev.rd (mkPtr bs (blk.base + o0)) 4 :: st.leak } 10 12 6 8 kvc o2 c d (st32N a b c d k0) (st32N b c d (st32N a b c d k0) k1) k2 bs blk _ (by omega) (by omega) hc (by omega)
    i2.e0 i2.e10 i2.e12 i2.e6 i2.e8 hb (by omega) hbb (by omega) (by omega) r2]
  rw [exec_stepsBlk prog (f (m + 6)) (f (m + 5)) (f (m + 4)) (f (m + 3)) (f (m + 2)) (f (m + 1)) (f m)
    (hf _) (hf _) (hf _) (hf _) (hf _) (hf _) _ { st with leak := Ev.rd (mkPtr bs (blk.base + o2)) 4 :: Ev.rd (mkPtr bs (blk.base + o1)) 4 :: Ev.rd (mkPtr bs (blk.base + o0)) 4 :: st.leak }
    12 6 8 10 kvd o3 d (st32N a b c d k0) (st32N b c d (st32N a b c d k0) k1)
    (st32N c d (st32N a b c d k0) (st32N b c d (st32N a b c d k0) k1) k2) k3 bs blk
    (by omega) (by omega) (by omega) (by omega) (by omega) (by omega) (by omega) (by omega) (by omega)
    (by decide) (by omega) (by omega) i3.e0 i3.e12 i3.e6 i3.e8 i3.e10 hb (by omega) hbb (by omega) (by omega) r3]

/-! ### the 128- and 256-bit variants: loop shape (two rounds per iteration, early exit after the first), counter arithmetic, loop theorem.
   The two differ only in where the second round's key words lie (offset `o` = 16 for 128-bit keys, 32 for 256-bit keys). -/

def ctl : Stmt := seqs [.assign 1 (.bin .sub .u32 (.var 1) (.lit 1)), .ite (.bin .eq .u32 (.var 1) (.cast .u32 .i32 (.lit 0))) .brk .skip]

def loopG (o : Nat) : Stmt :=
  .loop (.ite (.bin .gt .u32 (.var 1) (.cast .u32 .i32 (.lit 0)))
    (seqs [seqs [stepsBlk 6 8 10 12 14 16, stepsBlk 8 10 12 6 15 20, stepsBlk 10 12 6 8 16 24, stepsBlk 12 6 8 10 17 28, ctl,
                 stepsBlk 6 8 10 12 18 o, stepsBlk 8 10 12 6 19 (o + 4), stepsBlk 10 12 6 8 20 (o + 8), stepsBlk 12 6 8 10 21 (o + 12)],
           .assign 1 (.bin .sub .u32 (.var 1) (.lit 1))])
    .brk)

/-- the permutation on naturals with the loop structure of the C code: rounds alternate between key words k0..k3 and k4..k7 -/
def permNG (k0 k1 k2 k3 k4 k5 k6 k7 : Nat) : Nat → Nat × Nat × Nat × Nat → Nat × Nat × Nat × Nat
  | 0, s => s
  | 1, s => roundN s.1 s.2.1 s.2.2.1 s.2.2.2 k0 k1 k2 k3
  | n + 2, s =>
    let s1 := roundN s.1 s.2.1 s.2.2.1 s.2.2.2 k0 k1 k2 k3
    permNG k0 k1 k2 k3 k4 k5 k6 k7 n (roundN s1.1 s1.2.1 s1.2.2.1 s1.2.2.2 k4 k5 k6 k7)

theorem dec32 (r : Nat) (h : r + 1 < 4294967296) : (r + 1 + 4294967296 - 1 % 4294967296) % 4294967296 = r := by omega

theorem Inv.set1 {nv : Nat} {env : Env} {ptr r a b c d : Nat} (h : Inv nv env ptr r a b c d) (r' : Nat) : Inv nv (setVar env 1 (r', .pub)) ptr r' a b c d :=
  ⟨by rw [size_setVar]; exact h.size, h.big,
   by rw [get_set_ne _ _ _ _ (by decide)]; exact h.e0,
   by rw [get_set_eq _ _ _ (by have := h.size; have := h.big; omega)],
   by rw [get_set_ne _ _ _ _ (by decide)]; exact h.e6,
   by rw [get_set_ne _ _ _ _ (by decide)]; exact h.e8,
   by rw [get_set_ne _ _ _ _ (by decide)]; exact h.e10,
   by rw [get_set_ne _ _ _ _ (by decide)]; exact h.e12⟩

/-- the loop exits immediately when the counter is 0 -/
theorem loopG_zero (prog : Program) (f : Nat → Nat) (hf : ∀ i, f (i + 1) = Fu (f i)) (m o nv : Nat)
    (env : Env) (st : St) (ptr a b c d : Nat) (inv : Inv nv env ptr 0 a b c d) :
    exec prog (f (m + 3)) (loopG o) env st = .ok .normal env { st with leak := Ev.br false :: st.leak } := by
  unfold loopG
  rw [exec_loop' prog (hf (m + 2)), exec_ite' prog (hf (m + 1))]
  simp only [evalE, inv.e1, reduceCtorEq, if_false, castVal_u32_i32_zero, BinOp.needsPub2, BinOp.needsPub1, Bool.false_and, Bool.or_self,
    Bool.false_eq_true, binVal, Ty.signed, gt_iff_lt, Nat.lt_irrefl, decide_false, b2n, Lab.join_pub_pub, ne_eq, not_true_eq_false,
    show ((0 : Nat) != 0) = false from rfl]
  rw [exec_brk' prog (hf m)]


/-- everything the iteration lemmas need about memory, in one place: the state object, its first four key words at 16..28 and
    the second round's four key words at `o`..`o+12` -/
structure KM (st : St) (bs : Nat) (blk : Block) (o : Nat) (k0 k1 k2 k3 k4 k5 k6 k7 : Nat) : Prop where
  hb : st.mem[bs]? = some blk
  al : blk.base % 4 = 0
  lt : blk.base + blk.bytes.size < ptrBase
  bb : bs < 2 ^ 30
  sz : 32 ≤ blk.bytes.size
  oal : o % 4 = 0
  osz : o + 16 ≤ blk.bytes.size
  r0 : readLE blk.bytes 16 4 = some (k0, Lab.sec)
  r1 : readLE blk.bytes 20 4 = some (k1, Lab.sec)
  r2 : readLE blk.bytes 24 4 = some (k2, Lab.sec)
  r3 : readLE blk.bytes 28 4 = some (k3, Lab.sec)
  r4 : readLE blk.bytes o 4 = some (k4, Lab.sec)
  r5 : readLE blk.bytes (o + 4) 4 = some (k5, Lab.sec)
  r6 : readLE blk.bytes (o + 8) 4 = some (k6, Lab.sec)
  r7 : readLE blk.bytes (o + 12) 4 = some (k7, Lab.sec)

/-- counter = 1: one round, then the early exit -/
theorem loopG_one (prog : Program) (f : Nat → Nat) (hf : ∀ i, f (i + 1) = Fu (f i)) (m o nv : Nat)
    (env : Env) (st : St) (a b c d k0 k1 k2 k3 k4 k5 k6 k7 bs : Nat) (blk : Block)
    (inv : Inv nv env (mkPtr bs blk.base) 1 a b c d) (km : KM st bs blk o k0 k1 k2 k3 k4 k5 k6 k7) :
    ∃ env' leak', exec prog (f (m + 18)) (loopG o) env st = .ok .normal env' { st with leak := leak' } ∧
      Inv nv env' (mkPtr bs blk.base) 0 (roundN a b c d k0 k1 k2 k3).1 (roundN a b c d k0 k1 k2 k3).2.1
        (roundN a b c d k0 k1 k2 k3).2.2.1 (roundN a b c d k0 k1 k2 k3).2.2.2 := by
  have hsz := km.sz
  obtain ⟨env1, l1, h1, inv1⟩ := exec_round prog f hf (m + 5) nv env { st with leak := Ev.br true :: st.leak } (mkPtr bs blk.base) 1 a b c d 14 15 16 17 16 20 24 28
    k0 k1 k2 k3 bs blk
    (.seq ctl (.seq (stepsBlk 6 8 10 12 18 o) (.seq (stepsBlk 8 10 12 6 19 (o + 4)) (.seq (stepsBlk 10 12 6 8 20 (o + 8)) (stepsBlk 12 6 8 10 21 (o + 12))))))
    inv rfl (by decide) (by decide) (by decide) (by decide) km.hb km.al (by decide) km.lt km.bb (by omega)
    km.r0 km.r1 km.r2 km.r3
  refine ⟨setVar env1 1 (0, .pub), Ev.br true :: l1, ?_, inv1.set1 0⟩
  unfold loopG
  rw [exec_loop' prog (hf (m + 17)), exec_ite' prog (hf (m + 16))]
  simp only [evalE, inv.e1, reduceCtorEq, if_false, castVal_u32_i32_zero, BinOp.needsPub2, BinOp.needsPub1, Bool.false_and, Bool.or_self,
    Bool.false_eq_true, binVal, Ty.signed, gt_iff_lt, Nat.zero_lt_one, decide_true, b2n, Lab.join_pub_pub, ne_eq, not_true_eq_false, if_true,
    show ((1 : Nat) != 0) = true from rfl, seqs]
  rw [exec_seq' prog (hf (m + 15))]
  rw [show m + 15 = m + 5 + 10 from by omega, h1]
  rw [show m + 5 + 6 = m + 10 + 1 from by omega, exec_seq' prog (hf (m + 10))]
  unfold ctl
  simp only [seqs]
  rw [exec_seq' prog (hf (m + 9)), exec_assign' prog (hf (m + 8))]
  simp only [evalE, inv1.e1, reduceCtorEq, if_false, BinOp.needsPub2, BinOp.needsPub1, Bool.false_and, Bool.or_self, Bool.false_eq_true, binVal,
    Ty.modulus, Lab.join_pub_pub, dec32 0 (by decide)]
  rw [exec_ite' prog (hf (m + 8))]
  simp only [evalE, get_set_eq _ _ _ (show 1 < env1.size from by have := inv1.size; have := inv1.big; omega), reduceCtorEq, if_false, castVal_u32_i32_zero,
    BinOp.needsPub2, BinOp.needsPub1, Bool.false_and, Bool.or_self, Bool.false_eq_true, binVal, decide_true, b2n, Lab.join_pub_pub, ne_eq,
    not_true_eq_false, if_true, show ((1 : Nat) != 0) = true from rfl]
  rw [exec_brk' prog (hf (m + 7))]


/-- counter ≥ 2: two rounds, counter decreased by 2, and the loop goes round again -/
theorem loopG_two (prog : Program) (f : Nat → Nat) (hf : ∀ i, f (i + 1) = Fu (f i)) (m o nv : Nat)
    (env : Env) (st : St) (n a b c d k0 k1 k2 k3 k4 k5 k6 k7 bs : Nat) (blk : Block) (hn : n + 2 < 4294967296)
    (inv : Inv nv env (mkPtr bs blk.base) (n + 2) a b c d) (km : KM st bs blk o k0 k1 k2 k3 k4 k5 k6 k7) :
    ∃ env' leak', exec prog (f (m + 18)) (loopG o) env st = exec prog (f (m + 17)) (loopG o) env' { st with leak := leak' } ∧
      Inv nv env' (mkPtr bs blk.base) n
        (roundN (roundN a b c d k0 k1 k2 k3).1 (roundN a b c d k0 k1 k2 k3).2.1 (roundN a b c d k0 k1 k2 k3).2.2.1 (roundN a b c d k0 k1 k2 k3).2.2.2 k4 k5 k6 k7).1
        (roundN (roundN a b c d k0 k1 k2 k3).1 (roundN a b c d k0 k1 k2 k3).2.1 (roundN a b c d k0 k1 k2 k3).2.2.1 (roundN a b c d k0 k1 k2 k3).2.2.2 k4 k5 k6 k7).2.1
        (roundN (roundN a b c d k0 k1 k2 k3).1 (roundN a b c d k0 k1 k2 k3).2.1 (roundN a b c d k0 k1 k2 k3).2.2.1 (roundN a b c d k0 k1 k2 k3).2.2.2 k4 k5 k6 k7).2.2.1
        (roundN (roundN a b c d k0 k1 k2 k3).1 (roundN a b c d k0 k1 k2 k3).2.1 (roundN a b c d k0 k1 k2 k3).2.2.1 (roundN a b c d k0 k1 k2 k3).2.2.2 k4 k5 k6 k7).2.2.2 := by
  have hsz := km.sz
  have hosz := km.osz
  have hoal := km.oal
  obtain ⟨env1, l1, h1, inv1⟩ := exec_round prog f hf (m + 5) nv env { st with leak := Ev.br true :: st.leak } (mkPtr bs blk.base) (n + 2) a b c d 14 15 16 17 16 20 24 28
    k0 k1 k2 k3 bs blk
    (.seq ctl (.seq (stepsBlk 6 8 10 12 18 o) (.seq (stepsBlk 8 10 12 6 19 (o + 4)) (.seq (stepsBlk 10 12 6 8 20 (o + 8)) (stepsBlk 12 6 8 10 21 (o + 12))))))
    inv rfl (by decide) (by decide) (by decide) (by decide) km.hb km.al (by decide) km.lt km.bb (by omega)
    km.r0 km.r1 km.r2 km.r3
  have inv1' := inv1.set1 (n + 1)
  obtain ⟨env2, l2, h2, inv2⟩ := exec_round_last prog f hf (m + 1) nv (setVar env1 1 (n + 1, .pub)) { st with leak := Ev.br false :: l1 } (mkPtr bs blk.base) (n + 1)
    _ _ _ _ 18 19 20 21 o (o + 4) (o + 8) (o + 12) k4 k5 k6 k7 bs blk inv1' rfl (by decide) (by decide) (by decide) (by decide) km.hb km.al (by omega)
    km.lt km.bb (by omega) km.r4 km.r5 km.r6 km.r7
  refine ⟨setVar env2 1 (n, .pub), l2, ?_, inv2.set1 n⟩
  unfold loopG
  rw [exec_loop' prog (hf (m + 17)), exec_ite' prog (hf (m + 16))]
  simp only [evalE, inv.e1, reduceCtorEq, if_false, castVal_u32_i32_zero, BinOp.needsPub2, BinOp.needsPub1, Bool.false_and, Bool.or_self,
    Bool.false_eq_true, binVal, Ty.signed, gt_iff_lt, Nat.zero_lt_succ, decide_true, b2n, Lab.join_pub_pub, ne_eq, not_true_eq_false, if_true,
    show ((1 : Nat) != 0) = true from rfl, seqs]
  rw [exec_seq' prog (hf (m + 15))]
  rw [show m + 15 = m + 5 + 10 from by omega, h1]
  rw [show m + 5 + 6 = m + 10 + 1 from by omega, exec_seq' prog (hf (m + 10))]
  unfold ctl
  simp only [seqs]
  rw [exec_seq' prog (hf (m + 9)), exec_assign' prog (hf (m + 8))]
  simp only [evalE, inv1.e1, reduceCtorEq, if_false, BinOp.needsPub2, BinOp.needsPub1, Bool.false_and, Bool.or_self, Bool.false_eq_true, binVal,
    Ty.modulus, Lab.join_pub_pub, dec32 (n + 1) (by omega)]
  rw [exec_ite' prog (hf (m + 8))]
  have hne : ¬ n + 1 = 0 := by omega
  simp only [evalE, get_set_eq _ _ _ (show 1 < env1.size from by have := inv1.size; have := inv1.big; omega), reduceCtorEq, if_false, castVal_u32_i32_zero,
    BinOp.needsPub2, BinOp.needsPub1, Bool.false_and, Bool.or_self, Bool.false_eq_true, binVal, hne, decide_false, b2n, Lab.join_pub_pub, ne_eq,
    not_true_eq_false, show ((0 : Nat) != 0) = false from rfl]
  rw [exec_skip' prog (hf (m + 7))]
  simp only []
  rw [show m + 10 = m + 1 + 9 from by omega, h2]
  simp only []
  rw [show m + 5 + 10 = m + 14 + 1 from by omega, exec_assign' prog (hf (m + 14))]
  simp only [evalE, inv2.e1, reduceCtorEq, if_false, BinOp.needsPub2, BinOp.needsPub1, Bool.false_and, Bool.or_self, Bool.false_eq_true, binVal,
    Ty.modulus, Lab.join_pub_pub, dec32 n (by omega)]


theorem KM.leak {st : St} {bs : Nat} {blk : Block} {o k0 k1 k2 k3 k4 k5 k6 k7 : Nat} (h : KM st bs blk o k0 k1 k2 k3 k4 k5 k6 k7) (l : List Ev) :
    KM { st with leak := l } bs blk o k0 k1 k2 k3 k4 k5 k6 k7 :=
  ⟨h.hb, h.al, h.lt, h.bb, h.sz, h.oal, h.osz, h.r0, h.r1, h.r2, h.r3, h.r4, h.r5, h.r6, h.r7⟩

/-- **the loop of `tinyjambu_permutation_128` / `_256`**: for every round count below 2^32 it terminates with the counter at 0 and the
    four state words equal to `permNG` of the initial ones; memory is only read -/
theorem loopG_spec (prog : Program) (f : Nat → Nat) (hf : ∀ i, f (i + 1) = Fu (f i)) (o nv k0 k1 k2 k3 k4 k5 k6 k7 bs : Nat) (blk : Block) :
    ∀ (r m : Nat) (env : Env) (st : St) (a b c d : Nat), r < 4294967296 → Inv nv env (mkPtr bs blk.base) r a b c d → KM st bs blk o k0 k1 k2 k3 k4 k5 k6 k7 →
    ∃ env' leak', exec prog (f (m + r + 18)) (loopG o) env st = .ok .normal env' { st with leak := leak' } ∧
      Inv nv env' (mkPtr bs blk.base) 0 (permNG k0 k1 k2 k3 k4 k5 k6 k7 r (a, b, c, d)).1 (permNG k0 k1 k2 k3 k4 k5 k6 k7 r (a, b, c, d)).2.1
        (permNG k0 k1 k2 k3 k4 k5 k6 k7 r (a, b, c, d)).2.2.1 (permNG k0 k1 k2 k3 k4 k5 k6 k7 r (a, b, c, d)).2.2.2 := by
  intro r
  induction r using Nat.strongRecOn with
  | ind r ih =>
    intro m env st a b c d hr inv km
    match r, ih, hr, inv with
    | 0, _, _, inv =>
      refine ⟨env, Ev.br false :: st.leak, ?_, inv⟩
      rw [show m + 0 + 18 = (m + 15) + 3 from by omega]
      exact loopG_zero prog f hf (m + 15) o nv env st _ a b c d inv
    | 1, _, _, inv =>
      obtain ⟨env', l', h, i'⟩ := loopG_one prog f hf (m + 1) o nv env st a b c d k0 k1 k2 k3 k4 k5 k6 k7 bs blk inv km
      exact ⟨env', l', by rw [show m + 1 + 18 = m + 1 + 18 from rfl]; exact h, i'⟩
    | n + 2, ih, hr, inv =>
      obtain ⟨env1, l1, h1, i1⟩ := loopG_two prog f hf (m + n + 2) o nv env st n a b c d k0 k1 k2 k3 k4 k5 k6 k7 bs blk hr inv km
      obtain ⟨env2, l2, h2, i2⟩ := ih n (by omega) (m + 1) env1 { st with leak := l1 } _ _ _ _ (by omega) i1 (km.leak l1)
      refine ⟨env2, l2, ?_, ?_⟩
      · rw [show m + (n + 2) + 18 = m + n + 2 + 18 from by omega, h1, show m + n + 2 + 17 = m + 1 + n + 18 from by omega]
        exact h2
      · simpa [permNG] using i2

end TJ.MiniC.PermC
