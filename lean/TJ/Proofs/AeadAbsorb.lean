import TJ.Proofs.AeadCommon
namespace TJ.MiniC.Hoare
open TJ TJ.MiniC TJ.MiniC.PermC TJ.Gen.MiniC

def xorPub (i t x : Nat) (E : Expr) (sv : Nat := 0) : Stmt := seqs [.assign t (addrS i sv), .load x .u32 (.var t), .store .u32 (.var t) (.bin .bxor .u32 (.var x) E)]
def xorData (i t x : Nat) (loads : List (Nat × Nat)) (E : Expr) (sv : Nat := 0) (dv : Nat := 1) : Stmt :=
  seqs (.assign t (addrS i sv) :: (loadsOf loads dv ++ [.load x .u32 (.var t), .store .u32 (.var t) (.bin .bxor .u32 (.var x) E)]))

def absorbLoopBody (pidx : Nat) : Stmt :=
  .ite (.bin .ge .u64 (.var 2) (.cast .u64 .i32 (.lit 4)))
    (seqs [xorPub 1 5 6 (.cast .u32 .u8 (.var 3)), .call none pidx [.var 0, .var 4],
           xorData 3 7 12 [(8, 3), (9, 2), (10, 1), (11, 0)] (e32 8 9 10 11),
           .assign 1 (.bin .add .u64 (.var 1) (.lit 4)), .assign 2 (.bin .sub .u64 (.var 2) (.cast .u64 .i32 (.lit 4)))])
    .brk

def absorbTail (pidx : Nat) : Stmt :=
  .ite (.bin .eq .u64 (.var 2) (.cast .u64 .i32 (.lit 1)))
    (seqs [xorPub 1 13 14 (.cast .u32 .u8 (.var 3)), .call none pidx [.var 0, .var 4], xorData 3 15 17 [(16, 0)] (e8 16),
           xorPub 1 18 19 (.cast .u32 .i32 (.lit 1))])
    (.ite (.bin .eq .u64 (.var 2) (.cast .u64 .i32 (.lit 2)))
      (seqs [xorPub 1 20 21 (.cast .u32 .u8 (.var 3)), .call none pidx [.var 0, .var 4], xorData 3 22 25 [(23, 1), (24, 0)] (e16 23 24),
             xorPub 1 26 27 (.cast .u32 .i32 (.lit 2))])
      (.ite (.bin .eq .u64 (.var 2) (.cast .u64 .i32 (.lit 3)))
        (seqs [xorPub 1 28 29 (.cast .u32 .u8 (.var 3)), .call none pidx [.var 0, .var 4], xorData 3 30 34 [(31, 1), (32, 0), (33, 2)] (e24 31 32 33),
               xorPub 1 35 36 (.cast .u32 .i32 (.lit 3))])
        .skip))

def absorbBody (pidx : Nat) : Stmt := seqs [.loop (absorbLoopBody pidx), absorbTail pidx]

theorem absorb128_eq : f_tinyjambu_absorb_128.body = absorbBody 42 := rfl
theorem absorb192_eq : f_tinyjambu_absorb_192.body = absorbBody 43 := rfl
theorem absorb256_eq : f_tinyjambu_absorb_256.body = absorbBody 44 := rfl

structure ABI (g : AGeo) (M : Array Block) (dg : DGeo g M) (env : Env) (st : St) (s : W4) (kws : List UInt32) (off : Nat) (rest : Bytes) (d8 : UInt8) (rounds : Nat) : Prop where
  ai : AI g M 37 env st s kws
  e1 : env[1]? = some (mkPtr dg.bd (dg.based + off), .pub)
  e2 : env[2]? = some (rest.length, .pub)
  e3 : env[3]? = some (d8.toNat, .pub)
  e4 : env[4]? = some (rounds, .pub)
  hd : BytesV dg.XD off rest
  hr : rounds < 4294967296

theorem evalD_dom {e : Env} {d8 : UInt8} (h : e[3]? = some (d8.toNat, .pub)) : EvalD e (.cast .u32 .u8 (.var 3)) d8.toUInt32.toNat := by
  have := (EvalD.var (EnvHas.of_pub h)).cast .u32 .u8
  rw [castVal_u32_u8'] at this
  simpa [UInt8.toNat_toUInt32] using this

theorem evalD_small (e : Env) (c : Nat) (hc : c < 256) : EvalD e (.cast .u32 .i32 (.lit c)) (UInt32.ofNat c).toNat := by
  have := (EvalD.lit e c).cast .u32 .i32
  rw [castVal_u32_i32_small c (by omega)] at this
  have e : (UInt32.ofNat c).toNat = c := by simp [UInt32.toNat_ofNat']; omega
  rw [e]; exact this

theorem castVal_u64_i32_lit (c : Nat) (hc : c < 256) : castVal .u64 .i32 c = c := by
  simp only [castVal, Ty.signed, if_true, toInt, Bool.true_and, Ty.half, ge_iff_le, ofInt, Ty.modulus]
  have : ¬ 2147483648 ≤ c := by omega
  simp only [this, decide_false, Bool.false_eq_true, if_false]
  omega

/-- the first two steps every absorb step starts with: `s[1] ^= domain; P(rounds)` -/
theorem absorb_head {g : AGeo} {M : Array Block} {dg : DGeo g M} {env : Env} {st : St} {s : W4} {kws : List UInt32} {off : Nat} {rest : Bytes} {d8 : UInt8} {rounds : Nat}
    (ab : ABI g M dg env st s kws off rest d8 rounds) (t x : Nat) (ht : 5 ≤ t ∧ t < 37) (hx : 5 ≤ x ∧ x < 37) (htx : t ≠ x) (more : Stmt)
    {Q : Sig → Env → St → Prop}
    (hQ : ∀ e' s', ABI g M dg e' s' (g.P kws rounds (addDomain s d8.toUInt32)) kws off rest d8 rounds → RunsTo g.prog more e' s' Q) :
    RunsTo g.prog (.seq (xorPub 1 t x (.cast .u32 .u8 (.var 3))) (.seq (.call none g.pidx [.var 0, .var 4]) more)) env st Q := by
  refine runs_seq (Q := fun e' s' => ABI g M dg e' s' (addDomain s d8.toUInt32) kws off rest d8 rounds) ?_ ?_
  · refine ai_xor ab.ai 1 t x _ d8.toUInt32 (by decide) (by omega) (by omega) htx ?_ ?_
    · intro e' hfr
      exact evalD_dom (by rw [hfr 3 (by omega) (by omega)]; exact ab.e3)
    · intro e' s' _ hfr ai'
      exact ⟨rfl, ai', by rw [hfr 1 (by omega) (by omega)]; exact ab.e1, by rw [hfr 2 (by omega) (by omega)]; exact ab.e2,
        by rw [hfr 3 (by omega) (by omega)]; exact ab.e3, by rw [hfr 4 (by omega) (by omega)]; exact ab.e4, ab.hd, ab.hr⟩
  · intro e1 s1 ab1
    refine runs_seq (Q := fun e' s' => ABI g M dg e' s' (g.P kws rounds (addDomain s d8.toUInt32)) kws off rest d8 rounds) ?_ hQ
    refine ai_perm ab1.ai (.var 4) rounds ab.hr (by simp only [evalE, ab1.e4, reduceCtorEq, if_false]) ?_
    intro e' s' hle ai'
    exact ⟨rfl, ai', envLe_pub hle 1 _ ab1.e1, envLe_pub hle 2 _ ab1.e2, envLe_pub hle 3 _ ab1.e3, envLe_pub hle 4 _ ab1.e4, ab.hd, ab.hr⟩

theorem bytesV_drop {X : Array LByte} {off : Nat} {bs : Bytes} (h : BytesV X off bs) (n : Nat) (hn : n ≤ bs.length) : BytesV X (off + n) (bs.drop n) := by
  refine ⟨by have := h.1; simp only [List.length_drop]; omega, fun k b hk => ?_⟩
  rw [List.getElem?_drop] at hk
  have := h.2 (n + k) b hk
  rw [show off + n + k = off + (n + k) from by omega]; exact this

/-- one iteration of the word loop of `tinyjambu_absorb_*` -/
theorem absorb_iter {g : AGeo} {M : Array Block} {dg : DGeo g M} {env : Env} {st : St} {s : W4} {kws : List UInt32} {off : Nat} {d8 : UInt8} {rounds : Nat}
    (b0 b1 b2 b3 : UInt8) (rest : Bytes) (ab : ABI g M dg env st s kws off (b0 :: b1 :: b2 :: b3 :: rest) d8 rounds) :
    RunsTo g.prog (absorbLoopBody g.pidx) env st (fun sig e' s' => sig = .normal ∧
      ABI g M dg e' s' (absorbW (g.P kws rounds (addDomain s d8.toUInt32)) (load32 b0 b1 b2 b3)) kws (off + 4) rest d8 rounds) := by
  have hlen : (b0 :: b1 :: b2 :: b3 :: rest).length < 18446744073709551616 := by
    have := ab.hd.1; have := dg.hlt; simp only [ptrBase] at *; omega
  unfold absorbLoopBody
  refine runs_ite_true 1 ?_ (by decide) ?_
  · simp only [evalE, ab.e2, reduceCtorEq, if_false, castVal_u64_i32_lit 4 (by decide), BinOp.needsPub2, BinOp.needsPub1, Bool.false_and, Bool.or_self,
      Bool.false_eq_true, binVal, Ty.signed, ge_iff_le, List.length_cons, show 4 ≤ rest.length + 1 + 1 + 1 + 1 from by omega, decide_true, b2n, if_true, Lab.join_pub_pub]
  simp only [seqs]
  have ab' : ABI g M dg env { st with leak := Ev.br true :: st.leak } s kws off (b0 :: b1 :: b2 :: b3 :: rest) d8 rounds :=
    ⟨⟨ab.ai.esz, ab.ai.e0, ab.ai.klen, ab.ai.obj, ab.ai.oth, ab.ai.msz, ab.ai.ent⟩, ab.e1, ab.e2, ab.e3, ab.e4, ab.hd, ab.hr⟩
  refine absorb_head ab' 5 6 (by decide) (by decide) (by decide) _ ?_
  intro e1 s1 ab1
  -- s[3] ^= le_load_word32(data)
  refine runs_seq (Q := fun e' s' => ABI g M dg e' s' (absorbW (g.P kws rounds (addDomain s d8.toUInt32)) (load32 b0 b1 b2 b3)) kws off (b0 :: b1 :: b2 :: b3 :: rest) d8 rounds) ?_ ?_
  · refine ai_xor_data dg ab1.ai off _ ab1.hd ab1.e1 3 7 12 [(8, 3), (9, 2), (10, 1), (11, 0)] (e32 8 9 10 11) (load32 b0 b1 b2 b3) (by decide) (by decide) (by decide)
      (by decide) (by simp) ?_ (by decide) ?_ ?_
    · intro yo hyo
      simp only [List.mem_cons, List.mem_nil_iff, or_false] at hyo
      rcases hyo with h | h | h | h <;> rw [h] <;> simp only [List.length_cons] <;> omega
    · intro e' hhas
      have h3 := hhas (8, 3) (by simp); have h2 := hhas (9, 2) (by simp); have h1 := hhas (10, 1) (by simp); have h0 := hhas (11, 0) (by simp)
      exact evalD_e32 (b0 := b0) (b1 := b1) (b2 := b2) (b3 := b3) h3 h2 h1 h0
    · intro e' s' _ hfr ai'
      have nm : ∀ y, y < 5 → y ∉ [(8, 3), (9, 2), (10, 1), (11, 0)].map Prod.fst := by
        intro y hy; simp only [List.map_cons, List.map_nil, List.mem_cons, List.mem_nil_iff, or_false]; omega
      exact ⟨rfl, ai', by rw [hfr 1 (by omega) (by omega) (nm 1 (by omega))]; exact ab1.e1, by rw [hfr 2 (by omega) (by omega) (nm 2 (by omega))]; exact ab1.e2,
        by rw [hfr 3 (by omega) (by omega) (nm 3 (by omega))]; exact ab1.e3, by rw [hfr 4 (by omega) (by omega) (nm 4 (by omega))]; exact ab1.e4, ab1.hd, ab1.hr⟩
  · intro e2 s2 ab2
    -- data += 4; size -= 4
    have hp : (mkPtr dg.bd (dg.based + off) + 4) % 18446744073709551616 = mkPtr dg.bd (dg.based + off + 4) :=
      ptr_off dg.bd (dg.based + off) 4 dg.hbd30 (by have := ab.hd.1; have := dg.hlt; simp only [List.length_cons] at *; omega)
    refine runs_seq (Q := fun e' s' => e' = setVar e2 1 (mkPtr dg.bd (dg.based + off + 4), .pub) ∧ s' = s2) (runs_assign _ (by
      simp only [evalE, ab2.e1, reduceCtorEq, if_false, BinOp.needsPub2, BinOp.needsPub1, Bool.false_and, Bool.or_self, Bool.false_eq_true, binVal, Ty.modulus,
        Lab.join_pub_pub, hp]) ⟨rfl, rfl, rfl⟩) ?_
    intro e3 s3 ⟨he3, hs3⟩; rw [he3, hs3]
    refine runs_assign (rest.length, .pub) (by
      simp only [evalE, get_set_ne _ _ _ _ (show ¬ 1 = 2 from by decide), ab2.e2, reduceCtorEq, if_false, castVal_u64_i32_lit 4 (by decide), BinOp.needsPub2,
        BinOp.needsPub1, Bool.false_and, Bool.or_self, Bool.false_eq_true, binVal, Ty.modulus, Lab.join_pub_pub,
        sub64 (b0 :: b1 :: b2 :: b3 :: rest).length 4 (by simp) hlen (by decide)]
      simp) ?_
    have es := ab2.ai.esz
    refine ⟨rfl, ⟨by simp only [size_setVar]; exact es, by rw [get_set_ne _ _ _ _ (by decide), get_set_ne _ _ _ _ (by decide)]; exact ab2.ai.e0, ab2.ai.klen,
      ab2.ai.obj, ab2.ai.oth, ab2.ai.msz, ab2.ai.ent⟩, ?_, ?_, ?_, ?_, ?_, ab.hr⟩
    · rw [get_set_ne _ _ _ _ (by decide), get_set_eq _ _ _ (by rw [es]; decide)]; rw [Nat.add_assoc]
    · rw [get_set_eq _ _ _ (by simp only [size_setVar, es]; decide)]
    · rw [get_set_ne _ _ _ _ (by decide), get_set_ne _ _ _ _ (by decide)]; exact ab2.e3
    · rw [get_set_ne _ _ _ _ (by decide), get_set_ne _ _ _ _ (by decide)]; exact ab2.e4
    · exact bytesV_drop ab.hd 4 (by simp)

/-- the state after the full words of `l`, and what is left -/
def absWords (P : Perm) (d : UInt32) (r : Nat) : W4 → Bytes → W4
  | s, b0 :: b1 :: b2 :: b3 :: rest => absWords P d r (absorbW (P r (addDomain s d)) (load32 b0 b1 b2 b3)) rest
  | s, _ => s
def absRest : Bytes → Bytes
  | _ :: _ :: _ :: _ :: rest => absRest rest
  | l => l

theorem absRest_lt : ∀ (l : Bytes), (absRest l).length < 4
  | [] => by simp [absRest]
  | [_] => by simp [absRest]
  | [_, _] => by simp [absRest]
  | [_, _, _] => by simp [absRest]
  | _ :: _ :: _ :: _ :: rest => by rw [absRest]; exact absRest_lt rest

theorem absorbData_split (P : Perm) (d : UInt32) (r : Nat) : ∀ (s : W4) (l : Bytes),
    absorbData P d r s l = absorbData P d r (absWords P d r s l) (absRest l)
  | s, [] => rfl
  | s, [_] => rfl
  | s, [_, _] => rfl
  | s, [_, _, _] => rfl
  | s, b0 :: b1 :: b2 :: b3 :: rest => by
    rw [absorbData, absWords, absRest]
    exact absorbData_split P d r _ rest

theorem absorb_exit {g : AGeo} {M : Array Block} {dg : DGeo g M} {env : Env} {st : St} {s : W4} {kws : List UInt32} {off : Nat} {rest : Bytes} {d8 : UInt8} {rounds : Nat}
    (ab : ABI g M dg env st s kws off rest d8 rounds) (hl : rest.length < 4) :
    RunsTo g.prog (absorbLoopBody g.pidx) env st (fun sig e' s' => sig = .brk ∧ ABI g M dg e' s' s kws off rest d8 rounds) := by
  unfold absorbLoopBody
  refine runs_ite_false ?_ (runs_brk ⟨rfl, ⟨ab.ai.esz, ab.ai.e0, ab.ai.klen, ab.ai.obj, ab.ai.oth, ab.ai.msz, ab.ai.ent⟩, ab.e1, ab.e2, ab.e3, ab.e4, ab.hd, ab.hr⟩)
  have : ¬ 4 ≤ rest.length := by omega
  simp only [evalE, ab.e2, reduceCtorEq, if_false, castVal_u64_i32_lit 4 (by decide), BinOp.needsPub2, BinOp.needsPub1, Bool.false_and, Bool.or_self,
    Bool.false_eq_true, binVal, Ty.signed, ge_iff_le, this, decide_false, b2n, Lab.join_pub_pub]

/-- **the word loop of `tinyjambu_absorb_*`** -/
theorem absorb_loop {g : AGeo} {M : Array Block} {dg : DGeo g M} {d8 : UInt8} {rounds : Nat} {kws : List UInt32} : ∀ (l : Bytes) (env : Env) (st : St) (s : W4) (off : Nat),
    ABI g M dg env st s kws off l d8 rounds →
    RunsTo g.prog (.loop (absorbLoopBody g.pidx)) env st (fun sig e' s' => sig = .normal ∧
      ∃ off', ABI g M dg e' s' (absWords (g.P kws) d8.toUInt32 rounds s l) kws off' (absRest l) d8 rounds)
  | b0 :: b1 :: b2 :: b3 :: rest, env, st, s, off, ab => by
    refine runs_loop_continue (absorb_iter b0 b1 b2 b3 rest ab) ?_
    intro e s' ab'
    rw [absWords, absRest]
    exact absorb_loop rest e s' _ _ ab'
  | [], env, st, s, off, ab => runs_loop_break ((absorb_exit ab (by simp)).weaken fun _ _ _ ⟨h, a⟩ => ⟨h, rfl, off, a⟩)
  | [_], env, st, s, off, ab => runs_loop_break ((absorb_exit ab (by simp)).weaken fun _ _ _ ⟨h, a⟩ => ⟨h, rfl, off, a⟩)
  | [_, _], env, st, s, off, ab => runs_loop_break ((absorb_exit ab (by simp)).weaken fun _ _ _ ⟨h, a⟩ => ⟨h, rfl, off, a⟩)
  | [_, _, _], env, st, s, off, ab => runs_loop_break ((absorb_exit ab (by simp)).weaken fun _ _ _ ⟨h, a⟩ => ⟨h, rfl, off, a⟩)

/-- one tail branch: `s[1] ^= domain; P; s[3] ^= word(data); s[1] ^= k` -/
theorem absorb_tail_branch {g : AGeo} {M : Array Block} {dg : DGeo g M} {env : Env} {st : St} {s : W4} {kws : List UInt32} {off : Nat} {rest : Bytes} {d8 : UInt8} {rounds : Nat}
    (ab : ABI g M dg env st s kws off rest d8 rounds) (t1 x1 t2 x2 t3 x3 : Nat) (loads : List (Nat × Nat)) (E : Expr) (c : UInt32) (k : Nat) (hk : k < 256)
    (h1 : 5 ≤ t1 ∧ t1 < 37 ∧ 5 ≤ x1 ∧ x1 < 37 ∧ t1 ≠ x1) (h2 : 5 ≤ t2 ∧ t2 < 37 ∧ 5 ≤ x2 ∧ x2 < 37 ∧ t2 ≠ x2) (h3 : 5 ≤ t3 ∧ t3 < 37 ∧ 5 ≤ x3 ∧ x3 < 37 ∧ t3 ≠ x3)
    (hl0 : loads ≠ []) (hall : ∀ yo ∈ loads, 5 ≤ yo.1 ∧ yo.1 < 37 ∧ yo.1 ≠ t2 ∧ yo.1 ≠ x2 ∧ yo.2 < rest.length) (hnd : (loads.map Prod.fst).Nodup)
    (hE : ∀ e' : Env, (∀ yo ∈ loads, EnvHas e' yo.1 (rest.getD yo.2 0).toNat) → EvalD e' E c.toNat) :
    RunsTo g.prog (seqs [xorPub 1 t1 x1 (.cast .u32 .u8 (.var 3)), .call none g.pidx [.var 0, .var 4], xorData 3 t2 x2 loads E,
        xorPub 1 t3 x3 (.cast .u32 .i32 (.lit k))]) env st
      (fun sig e' s' => sig = .normal ∧ AI g M 37 e' s' (addDomain (absorbW (g.P kws rounds (addDomain s d8.toUInt32)) c) (UInt32.ofNat k)) kws) := by
  simp only [seqs]
  refine absorb_head ab t1 x1 ⟨h1.1, h1.2.1⟩ ⟨h1.2.2.1, h1.2.2.2.1⟩ h1.2.2.2.2 _ ?_
  intro e1 s1 ab1
  refine runs_seq (Q := fun e' s' => AI g M 37 e' s' (absorbW (g.P kws rounds (addDomain s d8.toUInt32)) c) kws) ?_ ?_
  · refine ai_xor_data dg ab1.ai off _ ab1.hd ab1.e1 3 t2 x2 loads E c (by decide) (by omega) (by omega) h2.2.2.2.2 hl0
      (fun yo hyo => by have := hall yo hyo; omega) hnd hE ?_
    intro e' s' _ _ ai'
    exact ⟨rfl, ai'⟩
  · intro e2 s2 ai2
    refine ai_xor ai2 1 t3 x3 _ (UInt32.ofNat k) (by decide) (by omega) (by omega) h3.2.2.2.2 (fun e' _ => evalD_small e' k hk) ?_
    intro e' s' _ _ ai'
    exact ⟨rfl, ai'⟩

/-- the 1/2/3-byte tails -/
theorem absorb_tail {g : AGeo} {M : Array Block} {dg : DGeo g M} {env : Env} {st : St} {s : W4} {kws : List UInt32} {off : Nat} {rest : Bytes} {d8 : UInt8} {rounds : Nat}
    (ab : ABI g M dg env st s kws off rest d8 rounds) (hl : rest.length < 4) :
    RunsTo g.prog (absorbTail g.pidx) env st (fun sig e' s' => sig = .normal ∧ AI g M 37 e' s' (absorbData (g.P kws) d8.toUInt32 rounds s rest) kws) := by
  have cond : ∀ c, c < 256 → evalE env (.bin .eq .u64 (.var 2) (.cast .u64 .i32 (.lit c))) = .ok (b2n (rest.length = c), .pub) := by
    intro c hc
    simp only [evalE, ab.e2, reduceCtorEq, if_false, castVal_u64_i32_lit c hc, BinOp.needsPub2, BinOp.needsPub1, Bool.false_and, Bool.or_self,
      Bool.false_eq_true, binVal, Lab.join_pub_pub]
  have abl : ∀ l, ABI g M dg env { st with leak := l } s kws off rest d8 rounds := fun l =>
    ⟨⟨ab.ai.esz, ab.ai.e0, ab.ai.klen, ab.ai.obj, ab.ai.oth, ab.ai.msz, ab.ai.ent⟩, ab.e1, ab.e2, ab.e3, ab.e4, ab.hd, ab.hr⟩
  unfold absorbTail
  match rest, hl, ab, cond, abl with
  | [], _, ab, cond, abl =>
    refine runs_ite_false (by rw [cond 1 (by decide)]; rfl) (runs_ite_false (by rw [cond 2 (by decide)]; rfl) (runs_ite_false (by rw [cond 3 (by decide)]; rfl)
      (runs_skip ⟨rfl, ab.ai.esz, ab.ai.e0, ab.ai.klen, ab.ai.obj, ab.ai.oth, ab.ai.msz, ab.ai.ent⟩)))
  | [b0], _, ab, cond, abl =>
    refine runs_ite_true 1 (by rw [cond 1 (by decide)]; rfl) (by decide) ?_
    refine (absorb_tail_branch (abl _) 13 14 15 17 18 19 [(16, 0)] (e8 16) b0.toUInt32 1 (by decide) (by decide) (by decide) (by decide) (by simp)
      (by intro yo hyo; simp only [List.mem_singleton] at hyo; rw [hyo]; simp) (by decide)
      (fun e' hh => evalD_e8 (b0 := b0) (hh (16, 0) (by simp)))).weaken ?_
    intro sig e' s' h; exact h
  | [b0, b1], _, ab, cond, abl =>
    refine runs_ite_false (by rw [cond 1 (by decide)]; rfl) (runs_ite_true 1 (by rw [cond 2 (by decide)]; rfl) (by decide) ?_)
    refine (absorb_tail_branch (abl _) 20 21 22 25 26 27 [(23, 1), (24, 0)] (e16 23 24) (load16 b0 b1) 2 (by decide) (by decide) (by decide) (by decide) (by simp)
      (by intro yo hyo; simp only [List.mem_cons, List.mem_nil_iff, or_false] at hyo; rcases hyo with h | h <;> rw [h] <;> simp) (by decide)
      (fun e' hh => evalD_e16 (b0 := b0) (b1 := b1) (hh (23, 1) (by simp)) (hh (24, 0) (by simp)))).weaken ?_
    intro sig e' s' h; exact h
  | [b0, b1, b2], _, ab, cond, abl =>
    refine runs_ite_false (by rw [cond 1 (by decide)]; rfl) (runs_ite_false (by rw [cond 2 (by decide)]; rfl) (runs_ite_true 1 (by rw [cond 3 (by decide)]; rfl) (by decide) ?_))
    refine (absorb_tail_branch (abl _) 28 29 30 34 35 36 [(31, 1), (32, 0), (33, 2)] (e24 31 32 33) (load24 b0 b1 b2) 3 (by decide) (by decide) (by decide) (by decide) (by simp)
      (by intro yo hyo; simp only [List.mem_cons, List.mem_nil_iff, or_false] at hyo; rcases hyo with h | h | h <;> rw [h] <;> simp) (by decide)
      (fun e' hh => evalD_e24 (b0 := b0) (b1 := b1) (b2 := b2) (hh (31, 1) (by simp)) (hh (32, 0) (by simp)) (hh (33, 2) (by simp)))).weaken ?_
    intro sig e' s' h; exact h

/-- the memory part of the invariant (what a caller sees) -/
structure MI (g : AGeo) (M : Array Block) (st : St) (s : W4) (kws : List UInt32) : Prop where
  klen : kws.length = g.nk
  obj : ∃ X, st.mem[g.bs]? = some ⟨X, g.baseS⟩ ∧ X.size = 16 + 4 * g.nk ∧ WordsV X (sw s ++ kws)
  oth : OthLe g.bs st.mem M
  msz : st.mem.size = M.size
  ent : st.ent = g.ent0

theorem AI.toMI {g : AGeo} {M : Array Block} {nv : Nat} {env : Env} {st : St} {s : W4} {kws : List UInt32} (a : AI g M nv env st s kws) : MI g M st s kws :=
  ⟨a.klen, a.obj, a.oth, a.msz, a.ent⟩
theorem MI.toAI {g : AGeo} {M : Array Block} {st : St} {s : W4} {kws : List UInt32} (m : MI g M st s kws) {nv : Nat} {env : Env} (hs : env.size = nv)
    (h0 : env[0]? = some (mkPtr g.bs g.baseS, .pub)) : AI g M nv env st s kws := ⟨hs, h0, m.klen, m.obj, m.oth, m.msz, m.ent⟩

theorem MI.extract {g : AGeo} {M : Array Block} {st : St} {s : W4} {kws : List UInt32} (m : MI g M st s kws) (n : Nat) (hn : n = st.mem.size) :
    MI g M { st with mem := st.mem.extract 0 n } s kws := by
  have : st.mem.extract 0 n = st.mem := by rw [hn]; exact extract_self _
  exact ⟨m.klen, by show ∃ X, (st.mem.extract 0 n)[g.bs]? = _ ∧ _; rw [this]; exact m.obj, by show OthLe g.bs (st.mem.extract 0 n) _; rw [this]; exact m.oth,
    by show (st.mem.extract 0 n).size = _; rw [this]; exact m.msz, m.ent⟩

/-- **`tinyjambu_absorb_*(state, data, size, domain, rounds)` as a call** -/
theorem absorb_call (g : AGeo) {M : Array Block} (dg : DGeo g M) (fn : Nat) (fd : FunDecl) (hprog : g.prog[fn]? = some fd) (hbody : fd.body = absorbBody g.pidx)
    (hp : fd.nparams = 5) (hv : fd.nvars = 37) (ha : fd.allocs = [])
    (env : Env) (st : St) (es ed el edom er : Expr) (s : W4) (kws : List UInt32) (off : Nat) (dat : Bytes) (d8 : UInt8) (rounds : Nat)
    (mi : MI g M st s kws) (hes : evalE env es = .ok (mkPtr g.bs g.baseS, .pub)) (hed : evalE env ed = .ok (mkPtr dg.bd (dg.based + off), .pub))
    (hel : evalE env el = .ok (dat.length, .pub)) (hedom : evalE env edom = .ok (d8.toNat, .pub)) (her : evalE env er = .ok (rounds, .pub))
    (hd : BytesV dg.XD off dat) (hr : rounds < 4294967296) :
    RunsTo g.prog (.call none fn [es, ed, el, edom, er]) env st (fun sig e s' => sig = .normal ∧ e = env ∧
      MI g M s' (absorbData (g.P kws) d8.toUInt32 rounds s dat) kws) := by
  let vs : List LVal := [(mkPtr g.bs g.baseS, .pub), (mkPtr dg.bd (dg.based + off), .pub), (dat.length, .pub), (d8.toNat, .pub), (rounds, .pub)]
  have hent : (enterFun fd vs st.mem).2 = st.mem := by simp only [enterFun, ha, allocLocals]
  have henv : (enterFun fd vs st.mem).1 = (vs ++ List.replicate 32 (0, Lab.undef)).toArray := by simp only [enterFun, ha, allocLocals, hp, hv]
  refine runs_call_none fd vs hprog (by simp only [evalArgs, hes, hed, hel, hedom, her]; rfl) (by rw [hp]; rfl) ?_
  rw [hbody, hent, henv]
  have ab : ABI g M dg (vs ++ List.replicate 32 (0, Lab.undef)).toArray { st with mem := st.mem } s kws off dat d8 rounds :=
    ⟨mi.toAI rfl rfl, rfl, rfl, rfl, rfl, hd, hr⟩
  unfold absorbBody
  simp only [seqs]
  refine runs_seq (Q := fun e' s' => ∃ off', ABI g M dg e' s' (absWords (g.P kws) d8.toUInt32 rounds s dat) kws off' (absRest dat) d8 rounds)
    (absorb_loop dat _ _ s off ab) ?_
  intro e1 s1 ⟨off', ab1⟩
  refine (absorb_tail ab1 (absRest_lt dat)).weaken ?_
  intro sig e2 s2 ⟨_, ai2⟩
  rw [← absorbData_split] at ai2
  exact ⟨trivial, trivial, ai2.toMI.extract _ (by rw [ai2.msz]; exact mi.msz)⟩

end TJ.MiniC.Hoare
