/-
  TJ.Proofs.CheckTagC — `tinyjambu_aead_check_tag` as REGENERATED from src/backend/tinyjambu-util.c
  (TJ.Gen.MiniC.f_tinyjambu_aead_check_tag): for every tag length, every pair of tags, every plaintext length and
  content, executing the regenerated body
    * returns 0 if the two tags are equal byte for byte and -1 (as a 32-bit int) otherwise,
    * leaves the plaintext as it was in the first case and all zero in the second,
    * touches nothing else, and performs the same branches and accesses in both cases.
  Proved by symbolic execution with one induction per loop (toolkit of TJ.Proofs.MiniCKernels).
-/
import TJ.Proofs.MiniCKernels
namespace TJ.MiniC.CheckTagC
open TJ.MiniC TJ.Gen.MiniC

/-! ### the two loops and the body, as they appear in the regenerated term -/

def loop1 : Stmt :=
  .loop (.ite (.bin .gt .u64 (.var 4) (.cast .u64 .i32 (.lit 0)))
    (seqs [
      seqs [.assign 6 (.var 2), .assign 2 (.bin .add .u64 (.var 2) (.lit 1)), .load 7 .u8 (.var 6),
            .assign 8 (.var 3), .assign 3 (.bin .add .u64 (.var 3) (.lit 1)), .load 9 .u8 (.var 8),
            .assign 5 (.bin .bor .i32 (.var 5) (.bin .bxor .i32 (.cast .i32 .u8 (.var 7)) (.cast .i32 .u8 (.var 9))))],
      .assign 4 (.bin .sub .u64 (.var 4) (.lit 1))])
    .brk)

def loop2 : Stmt :=
  .loop (.ite (.bin .gt .u64 (.var 1) (.cast .u64 .i32 (.lit 0)))
    (seqs [
      seqs [.assign 10 (.var 0), .assign 0 (.bin .add .u64 (.var 0) (.lit 1)), .assign 11 (.var 10), .load 12 .u8 (.var 11),
            .store .u8 (.var 11) (.cast .u8 .i32 (.bin .band .i32 (.cast .i32 .u8 (.var 12)) (.var 5)))],
      .assign 1 (.bin .sub .u64 (.var 1) (.lit 1))])
    .brk)

theorem body_eq : f_tinyjambu_aead_check_tag.body =
    seqs [.assign 5 (.lit 0), loop1, .assign 5 (.bin .shr .i32 (.bin .sub .i32 (.var 5) (.lit 1)) (.lit 8)), loop2,
          .ret (some (.un .bnot .i32 (.var 5)))] := rfl

/-! ### arithmetic of the C expressions on the values that occur -/

theorem castVal_u64_i32_zero : castVal .u64 .i32 0 = 0 := rfl

/-- `(int)(unsigned char)x` -/
theorem castVal_i32_u8 (x : UInt8) : castVal .i32 .u8 x.toNat = x.toNat := by
  simp only [castVal, Ty.signed, Ty.modulus, Bool.false_eq_true, if_false]
  exact Nat.mod_eq_of_lt (by have := x.toNat_lt; omega)

set_option maxRecDepth 100000 in
/-- `(accum - 1) >> 8` on `int`, for `accum` in `[0, 255]`: all ones iff `accum = 0` -/
theorem mask_of_accum : ∀ a : Fin 256,
    ofInt .i32 (toInt .i32 ((a.val + 4294967296 - 1 % 4294967296) % 4294967296) >>> 8) = (if a.val = 0 then 4294967295 else 0) := by
  decide +kernel

set_option maxRecDepth 100000 in
/-- `(unsigned char)((int)p & mask)` for the two values the mask can take -/
theorem masked_byte_keep : ∀ p : Fin 256, castVal .u8 .i32 (p.val &&& 4294967295) = p.val := by decide +kernel
theorem masked_byte_clear (p : Nat) : castVal .u8 .i32 (p &&& 0) = 0 := by simp [castVal, Ty.signed, toInt, ofInt, Ty.half, Ty.modulus]

theorem readLE_one (bs : Array LByte) (off : Nat) (x : UInt8) (l : Lab) (hl : l ≠ .undef) (h : bs[off]? = some (x, l)) :
    readLE bs off 1 = some (x.toNat, l.join .pub) := by
  simp [readLE, h, hl]


/-! ### loop 1: `accum |= *tag1++ ^ *tag2++` -/

/-- the accumulated difference as the C computes it (on `int`, values stay below 256) -/
def accF : Nat → List UInt8 → List UInt8 → Nat
  | a, x :: xs, y :: ys => accF (a ||| (x.toNat ^^^ y.toNat)) xs ys
  | a, _, _ => a

theorem p64 (b off : Nat) (hb : b < 2 ^ 30) (ho : off + 1 < ptrBase) :
    (mkPtr b off + 1) % 18446744073709551616 = mkPtr b (off + 1) := by
  rw [mkPtr_succ, Nat.mod_eq_of_lt (mkPtr_lt b _ hb ho)]

theorem dec64 (k : Nat) (hk : k + 1 < 18446744073709551616) :
    (k + 1 + 18446744073709551616 - 1 % 18446744073709551616) % 18446744073709551616 = k := by omega

theorem loop1_step (prog : Program) (f0 f1 f2 f3 f4 f5 f6 f7 f8 f9 f10 : Nat)
    (h10 : f10 = Fu f9) (h9 : f9 = Fu f8) (h8 : f8 = Fu f7) (h7 : f7 = Fu f6) (h6 : f6 = Fu f5) (h5 : f5 = Fu f4)
    (h4 : f4 = Fu f3) (h3 : f3 = Fu f2) (h2 : f2 = Fu f1) (h1 : f1 = Fu f0)
    (st : St) (v0 v1 x6 x7 x8 x9 x10 x11 x12 : LVal) (b1 o1 b2 o2 k acc : Nat) (la : Lab) (hla : la ≠ .undef)
    (blk1 blk2 : Block) (x y : UInt8)
    (hb1 : st.mem[b1]? = some blk1) (hb2 : st.mem[b2]? = some blk2)
    (hx : blk1.bytes[o1]? = some (x, .sec)) (hy : blk2.bytes[o2]? = some (y, .sec))
    (hl1 : blk1.base + o1 + 1 < ptrBase) (hl2 : blk2.base + o2 + 1 < ptrBase) (hbb1 : b1 < 2 ^ 30) (hbb2 : b2 < 2 ^ 30)
    (hk : k + 1 < 18446744073709551616) :
    exec prog f10 loop1 #[v0, v1, (mkPtr b1 (blk1.base + o1), .pub), (mkPtr b2 (blk2.base + o2), .pub), (k + 1, .pub), (acc, la),
        x6, x7, x8, x9, x10, x11, x12] st =
      exec prog f9 loop1 #[v0, v1, (mkPtr b1 (blk1.base + o1 + 1), .pub), (mkPtr b2 (blk2.base + o2 + 1), .pub), (k, .pub),
        (acc ||| (x.toNat ^^^ y.toNat), .sec), (mkPtr b1 (blk1.base + o1), .pub), (x.toNat, .sec),
        (mkPtr b2 (blk2.base + o2), .pub), (y.toNat, .sec), x10, x11, x12]
        { st with leak := Ev.rd (mkPtr b2 (blk2.base + o2)) 1 :: Ev.rd (mkPtr b1 (blk1.base + o1)) 1 :: Ev.br true :: st.leak } := by
  have hin1 : o1 < blk1.bytes.size := by
    rcases Nat.lt_or_ge o1 blk1.bytes.size with h | h
    · exact h
    · rw [Array.getElem?_eq_none h] at hx; cases hx
  have hin2 : o2 < blk2.bytes.size := by
    rcases Nat.lt_or_ge o2 blk2.bytes.size with h | h
    · exact h
    · rw [Array.getElem?_eq_none h] at hy; cases hy
  have hr1 : resolve st.mem (mkPtr b1 (blk1.base + o1)) 1 = .ok (b1, o1) :=
    resolve_mkPtr st.mem b1 o1 1 blk1 hb1 (by omega) (by omega) (by omega)
  have hr2 : resolve st.mem (mkPtr b2 (blk2.base + o2)) 1 = .ok (b2, o2) :=
    resolve_mkPtr st.mem b2 o2 1 blk2 hb2 (by omega) (by omega) (by omega)
  have hbk1 : blockBytes st.mem b1 = blk1.bytes := by simp [blockBytes, hb1]
  have hbk2 : blockBytes st.mem b2 = blk2.bytes := by simp [blockBytes, hb2]
  have hrd1 : readLE (blockBytes st.mem b1) o1 1 = some (x.toNat, .sec) := by
    rw [hbk1, readLE_one _ _ x .sec (by decide) hx]; rfl
  have hrd2 : readLE (blockBytes st.mem b2) o2 1 = some (y.toNat, .sec) := by
    rw [hbk2, readLE_one _ _ y .sec (by decide) hy]; rfl
  have hp1 := p64 b1 (blk1.base + o1) hbb1 hl1
  have hp2 := p64 b2 (blk2.base + o2) hbb2 hl2
  have hjoin : la.join (Lab.sec.join Lab.sec) = Lab.sec := by cases la <;> first | rfl | exact absurd rfl hla
  unfold loop1
  rw [exec_loop' prog h10, exec_ite' prog h9]; ev
  simp only [castVal_u64_i32_zero, gt_iff_lt, Nat.zero_lt_succ, decide_true, if_true, b2n, show ((1 : Nat) != 0) = true from rfl, seqs]
  rw [exec_seq' prog h8, exec_seq' prog h7, exec_assign' prog h6]; ev
  rw [exec_seq' prog h6, exec_assign' prog h5]; ev
  simp only [hp1]
  rw [exec_seq' prog h5]
  rw [exec_load_ok' prog h4 7 .u8 _ _ { st with leak := Ev.br true :: st.leak } (mkPtr b1 (blk1.base + o1)) b1 o1 1 (x.toNat, .sec) rfl (by ev) hr1 hrd1]
  ev
  rw [exec_seq' prog h4, exec_assign' prog h3]; ev
  rw [exec_seq' prog h3, exec_assign' prog h2]; ev
  simp only [hp2]
  rw [exec_seq' prog h2]
  rw [exec_load_ok' prog h1 9 .u8 _ _ { st with leak := Ev.rd (mkPtr b1 (blk1.base + o1)) 1 :: Ev.br true :: st.leak }
    (mkPtr b2 (blk2.base + o2)) b2 o2 1 (y.toNat, .sec) rfl (by ev) hr2 hrd2]
  ev
  rw [exec_assign' prog h1]; ev
  simp only [castVal_i32_u8, hjoin, hla, if_false]
  rw [exec_assign' prog h7]; ev
  simp only [dec64 k hk]


/-- the whole first loop: the accumulator ends as `accF acc T1 T2`; memory and the first two variables are untouched -/
theorem loop1_spec (prog : Program) (e : Nat) : ∀ (T1 T2 : List UInt8), T1.length = T2.length →
    ∀ (st : St) (v0 v1 x6 x7 x8 x9 x10 x11 x12 : LVal) (b1 o1 b2 o2 acc : Nat) (la : Lab), la ≠ .undef →
    ∀ (blk1 blk2 : Block), st.mem[b1]? = some blk1 → st.mem[b2]? = some blk2 →
    (∀ i x, T1[i]? = some x → blk1.bytes[o1 + i]? = some (x, .sec)) → (∀ i y, T2[i]? = some y → blk2.bytes[o2 + i]? = some (y, .sec)) →
    blk1.base + o1 + T1.length < ptrBase → blk2.base + o2 + T1.length < ptrBase → b1 < 2 ^ 30 → b2 < 2 ^ 30 →
    T1.length < 18446744073709551616 →
    ∃ (w2 w3 w4 y6 y7 y8 y9 : LVal) (st' : St) (la' : Lab), exec prog (e + T1.length + 9) loop1 #[v0, v1, (mkPtr b1 (blk1.base + o1), .pub), (mkPtr b2 (blk2.base + o2), .pub),
        (T1.length, .pub), (acc, la), x6, x7, x8, x9, x10, x11, x12] st =
          .ok .normal #[v0, v1, w2, w3, w4, (accF acc T1 T2, la'), y6, y7, y8, y9, x10, x11, x12] st' ∧
      la' ≠ .undef ∧ st'.mem = st.mem ∧ st'.ent = st.ent := by
  intro T1
  induction T1 with
  | nil =>
    intro T2 hlen st v0 v1 x6 x7 x8 x9 x10 x11 x12 b1 o1 b2 o2 acc la hla blk1 blk2 _ _ _ _ _ _ _ _ _
    have : T2 = [] := by cases T2 with | nil => rfl | cons _ _ => simp at hlen
    subst this
    refine ⟨(mkPtr b1 (blk1.base + o1), .pub), (mkPtr b2 (blk2.base + o2), .pub), (([] : List UInt8).length, .pub), x6, x7, x8, x9,
      { st with leak := Ev.br false :: st.leak }, la, ?_, hla, rfl, rfl⟩
    · unfold loop1
      rw [exec_loop' prog (show e + ([] : List UInt8).length + 9 = Fu (e + 8) from rfl), exec_ite' prog (show e + 8 = Fu (e + 7) from rfl)]; ev
      simp only [List.length_nil, castVal_u64_i32_zero, gt_iff_lt, Nat.lt_irrefl, decide_false, b2n, Bool.false_eq_true, if_false,
        show ((0 : Nat) != 0) = false from rfl, not_true_eq_false]
      first | rw [exec_brk' prog (show e + 7 = Fu (e + 6) from rfl)] | skip
      simp only [accF]
  | cons x xs ih =>
    intro T2 hlen st v0 v1 x6 x7 x8 x9 x10 x11 x12 b1 o1 b2 o2 acc la hla blk1 blk2 hb1 hb2 h1 h2 hl1 hl2 hbb1 hbb2 hk
    cases T2 with
    | nil => simp at hlen
    | cons y ys =>
      have hlen' : xs.length = ys.length := by simpa using hlen
      have hx : blk1.bytes[o1]? = some (x, .sec) := by simpa using h1 0 x (by simp)
      have hy : blk2.bytes[o2]? = some (y, .sec) := by simpa using h2 0 y (by simp)
      simp only [List.length_cons] at hl1 hl2 hk ⊢
      have hl1' : blk1.base + o1 + 1 < ptrBase := by omega
      have hl2' : blk2.base + o2 + 1 < ptrBase := by omega
      have hstep := loop1_step prog (e + xs.length) (e + xs.length + 1) (e + xs.length + 2) (e + xs.length + 3) (e + xs.length + 4)
        (e + xs.length + 5) (e + xs.length + 6) (e + xs.length + 7) (e + xs.length + 8) (e + xs.length + 9) (e + (xs.length + 1) + 9)
        (by unfold Fu; omega) rfl rfl rfl rfl rfl rfl rfl rfl rfl st v0 v1 x6 x7 x8 x9 x10 x11 x12 b1 o1 b2 o2 xs.length acc la hla blk1 blk2 x y
        hb1 hb2 hx hy hl1' hl2' hbb1 hbb2 hk
      obtain ⟨w2, w3, w4, y6, y7, y8, y9, st', la', hex, hla', hmem, hent⟩ := ih ys hlen'
        { st with leak := Ev.rd (mkPtr b2 (blk2.base + o2)) 1 :: Ev.rd (mkPtr b1 (blk1.base + o1)) 1 :: Ev.br true :: st.leak }
        v0 v1 (mkPtr b1 (blk1.base + o1), .pub) (x.toNat, .sec) (mkPtr b2 (blk2.base + o2), .pub) (y.toNat, .sec) x10 x11 x12
        b1 (o1 + 1) b2 (o2 + 1) (acc ||| (x.toNat ^^^ y.toNat)) .sec (by decide) blk1 blk2 hb1 hb2
        (fun i z hz => by have := h1 (i + 1) z (by simpa using hz); rwa [show o1 + (i + 1) = o1 + 1 + i from by omega] at this)
        (fun i z hz => by have := h2 (i + 1) z (by simpa using hz); rwa [show o2 + (i + 1) = o2 + 1 + i from by omega] at this)
        (by omega) (by omega) hbb1 hbb2 (by omega)
      refine ⟨w2, w3, w4, y6, y7, y8, y9, st', la', ?_, hla', hmem, hent⟩
      rw [hstep]
      rw [show blk1.base + o1 + 1 = blk1.base + (o1 + 1) from by omega, show blk2.base + o2 + 1 = blk2.base + (o2 + 1) from by omega]
      simp only [accF]
      exact hex


/-! ### loop 2: `*plaintext++ &= accum` -/

/-- the byte the C stores for plaintext byte `p` under mask `m` -/
def maskByte (m : Nat) (p : UInt8) : UInt8 := ((castVal .u8 .i32 (p.toNat &&& m)) % 256).toUInt8

theorem loop2_step (prog : Program) (f0 f1 f2 f3 f4 f5 f6 f7 f8 : Nat)
    (h8 : f8 = Fu f7) (h7 : f7 = Fu f6) (h6 : f6 = Fu f5) (h5 : f5 = Fu f4)
    (h4 : f4 = Fu f3) (h3 : f3 = Fu f2) (h2 : f2 = Fu f1) (h1 : f1 = Fu f0)
    (st : St) (v2 v3 v4 x6 x7 x8 x9 x10 x11 x12 : LVal) (bp o n m : Nat) (lm : Lab) (hlm : lm ≠ .undef)
    (blk : Block) (p : UInt8)
    (hb : st.mem[bp]? = some blk) (hp : blk.bytes[o]? = some (p, .sec))
    (hl : blk.base + o + 1 < ptrBase) (hbb : bp < 2 ^ 30) (hn : n + 1 < 18446744073709551616) :
    exec prog f8 loop2 #[(mkPtr bp (blk.base + o), .pub), (n + 1, .pub), v2, v3, v4, (m, lm), x6, x7, x8, x9, x10, x11, x12] st =
      exec prog f7 loop2 #[(mkPtr bp (blk.base + o + 1), .pub), (n, .pub), v2, v3, v4, (m, lm), x6, x7, x8, x9,
        (mkPtr bp (blk.base + o), .pub), (mkPtr bp (blk.base + o), .pub), (p.toNat, .sec)]
        { st with leak := Ev.wr (mkPtr bp (blk.base + o)) 1 :: Ev.rd (mkPtr bp (blk.base + o)) 1 :: Ev.br true :: st.leak,
                  mem := setBlock st.mem bp (blk.bytes.setIfInBounds o (maskByte m p, .sec)) } := by
  have hin : o < blk.bytes.size := by
    rcases Nat.lt_or_ge o blk.bytes.size with h | h
    · exact h
    · rw [Array.getElem?_eq_none h] at hp; cases hp
  have hr : resolve st.mem (mkPtr bp (blk.base + o)) 1 = .ok (bp, o) :=
    resolve_mkPtr st.mem bp o 1 blk hb (by omega) (by omega) (by omega)
  have hbk : blockBytes st.mem bp = blk.bytes := by simp [blockBytes, hb]
  have hrd : readLE (blockBytes st.mem bp) o 1 = some (p.toNat, .sec) := by
    rw [hbk, readLE_one _ _ p .sec (by decide) hp]; rfl
  have hp1 := p64 bp (blk.base + o) hbb hl
  have hjoin : (Lab.sec.join lm) = Lab.sec := by cases lm <;> rfl
  have hw : writeLE (blockBytes st.mem bp) o (castVal .u8 .i32 (p.toNat &&& m)) .sec 1 = blk.bytes.setIfInBounds o (maskByte m p, .sec) := by
    rw [hbk]; rfl
  unfold loop2
  rw [exec_loop' prog h8, exec_ite' prog h7]; ev
  simp only [castVal_u64_i32_zero, gt_iff_lt, Nat.zero_lt_succ, decide_true, if_true, b2n, show ((1 : Nat) != 0) = true from rfl, seqs]
  rw [exec_seq' prog h6, exec_seq' prog h5, exec_assign' prog h4]; ev
  rw [exec_seq' prog h4, exec_assign' prog h3]; ev
  simp only [hp1]
  rw [exec_seq' prog h3, exec_assign' prog h2]; ev
  rw [exec_seq' prog h2]
  rw [exec_load_ok' prog h1 12 .u8 _ _ { st with leak := Ev.br true :: st.leak } (mkPtr bp (blk.base + o)) bp o 1 (p.toNat, .sec) rfl (by ev) hr hrd]
  ev
  rw [exec_store_ok' prog h1 .u8 _ _ _ { st with leak := Ev.rd (mkPtr bp (blk.base + o)) 1 :: Ev.br true :: st.leak }
    (mkPtr bp (blk.base + o)) (castVal .u8 .i32 (p.toNat &&& m)) bp o 1 .sec (blk.bytes.setIfInBounds o (maskByte m p, .sec)) rfl
    (by ev) (by ev; simp only [castVal_i32_u8, hlm, if_false, hjoin]) hr hw]
  ev
  rw [exec_assign' prog h5]; ev
  simp only [dec64 n hn]


/-- the whole second loop: the plaintext bytes `[o, o+|P|)` become `maskByte m`-images; nothing else changes -/
theorem loop2_spec (prog : Program) (e : Nat) : ∀ (P : List UInt8) (st : St) (v2 v3 v4 x6 x7 x8 x9 x10 x11 x12 : LVal)
    (bp o m : Nat) (lm : Lab), lm ≠ .undef → ∀ (blk : Block), st.mem[bp]? = some blk →
    (∀ i p, P[i]? = some p → blk.bytes[o + i]? = some (p, .sec)) →
    blk.base + o + P.length < ptrBase → bp < 2 ^ 30 → P.length < 18446744073709551616 →
    ∃ env' st', exec prog (e + P.length + 7) loop2
        #[(mkPtr bp (blk.base + o), .pub), (P.length, .pub), v2, v3, v4, (m, lm), x6, x7, x8, x9, x10, x11, x12] st = .ok .normal env' st' ∧
      env'[5]? = some (m, lm) ∧ env'.size = 13 ∧
      st'.mem = setBlock st.mem bp (writeBytes blk.bytes o (P.map fun p => (maskByte m p, Lab.sec))) ∧ st'.ent = st.ent := by
  intro P
  induction P with
  | nil =>
    intro st v2 v3 v4 x6 x7 x8 x9 x10 x11 x12 bp o m lm hlm blk hb _ _ _ _
    refine ⟨#[(mkPtr bp (blk.base + o), .pub), (([] : List UInt8).length, .pub), v2, v3, v4, (m, lm), x6, x7, x8, x9, x10, x11, x12],
      { st with leak := Ev.br false :: st.leak }, ?_, ?_, ?_, ?_, rfl⟩
    · unfold loop2
      rw [exec_loop' prog (show e + ([] : List UInt8).length + 7 = Fu (e + 6) from rfl), exec_ite' prog (show e + 6 = Fu (e + 5) from rfl)]; ev
      simp only [List.length_nil, castVal_u64_i32_zero, gt_iff_lt, Nat.lt_irrefl, decide_false, b2n, Bool.false_eq_true, if_false,
        show ((0 : Nat) != 0) = false from rfl, not_true_eq_false]
      first | rw [exec_brk' prog (show e + 5 = Fu (e + 4) from rfl)] | skip
    · simp
    · simp
    · simp only [List.map_nil, writeBytes, setBlock_self st.mem bp blk hb]
  | cons p ps ih =>
    intro st v2 v3 v4 x6 x7 x8 x9 x10 x11 x12 bp o m lm hlm blk hb hP hl hbb hn
    have hp : blk.bytes[o]? = some (p, .sec) := by simpa using hP 0 p (by simp)
    simp only [List.length_cons] at hl hn ⊢
    have hl' : blk.base + o + 1 < ptrBase := by omega
    have hstep := loop2_step prog (e + ps.length) (e + ps.length + 1) (e + ps.length + 2) (e + ps.length + 3) (e + ps.length + 4)
      (e + ps.length + 5) (e + ps.length + 6) (e + ps.length + 7) (e + (ps.length + 1) + 7)
      (by unfold Fu; omega) rfl rfl rfl rfl rfl rfl rfl st v2 v3 v4 x6 x7 x8 x9 x10 x11 x12 bp o ps.length m lm hlm blk p hb hp hl' hbb hn
    let bytes1 := blk.bytes.setIfInBounds o (maskByte m p, Lab.sec)
    let blk1 : Block := { blk with bytes := bytes1 }
    have hb1 : (setBlock st.mem bp bytes1)[bp]? = some blk1 := by
      rw [getElem?_setBlock st.mem bp _ blk hb bp]; simp [blk1]
    obtain ⟨env', st', hex, h5, hsz, hmem, hent⟩ := ih
      { st with leak := Ev.wr (mkPtr bp (blk.base + o)) 1 :: Ev.rd (mkPtr bp (blk.base + o)) 1 :: Ev.br true :: st.leak,
                mem := setBlock st.mem bp bytes1 }
      v2 v3 v4 x6 x7 x8 x9 (mkPtr bp (blk.base + o), .pub) (mkPtr bp (blk.base + o), .pub) (p.toNat, .sec) bp (o + 1) m lm hlm blk1 hb1
      (fun i q hq => by
        have := hP (i + 1) q (by simpa using hq)
        show bytes1[o + 1 + i]? = _
        rw [Array.getElem?_setIfInBounds]
        have hne : ¬ o = o + 1 + i := by omega
        simp only [hne, if_false]
        rwa [show o + (i + 1) = o + 1 + i from by omega] at this)
      (by show blk.base + (o + 1) + ps.length < ptrBase; omega) hbb (by omega)
    refine ⟨env', st', ?_, h5, hsz, ?_, hent⟩
    · rw [hstep, show blk.base + o + 1 = blk.base + (o + 1) from by omega]
      exact hex
    · rw [hmem]
      show setBlock (setBlock st.mem bp bytes1) bp _ = _
      rw [setBlock_setBlock st.mem bp _ _ blk hb]
      rfl


/-! ### what the accumulator and the mask mean -/

theorem byte_xor_lt (x y : UInt8) : x.toNat ^^^ y.toNat < 256 :=
  Nat.xor_lt_two_pow (n := 8) x.toNat_lt y.toNat_lt

theorem nat_xor_eq_zero {a b : Nat} (h : a ^^^ b = 0) : a = b := by
  apply Nat.eq_of_testBit_eq
  intro i
  have := congrArg (fun n => n.testBit i) h
  simp only [Nat.testBit_xor, Nat.zero_testBit] at this
  cases ha : a.testBit i <;> cases hb : b.testBit i <;> simp_all

theorem byte_xor_eq_zero (x y : UInt8) : x.toNat ^^^ y.toNat = 0 ↔ x = y := by
  constructor
  · intro h
    exact UInt8.toNat_inj.mp (nat_xor_eq_zero h)
  · rintro rfl; exact Nat.xor_self _

theorem accF_lt : ∀ (T1 T2 : List UInt8) (a : Nat), a < 256 → accF a T1 T2 < 256
  | [], _, a, h => by simpa [accF] using h
  | _ :: _, [], a, h => by simpa [accF] using h
  | x :: xs, y :: ys, a, h => by
    simp only [accF]
    exact accF_lt xs ys _ (Nat.or_lt_two_pow (n := 8) h (byte_xor_lt x y))

theorem accF_eq_zero : ∀ (T1 T2 : List UInt8) (a : Nat), T1.length = T2.length → (accF a T1 T2 = 0 ↔ a = 0 ∧ T1 = T2)
  | [], [], a, _ => by simp [accF]
  | [], _ :: _, a, h => by simp at h
  | _ :: _, [], a, h => by simp at h
  | x :: xs, y :: ys, a, h => by
    simp only [accF]
    rw [accF_eq_zero xs ys _ (by simpa using h), Nat.or_eq_zero_iff, byte_xor_eq_zero]
    constructor
    · rintro ⟨⟨ha, rfl⟩, rfl⟩; exact ⟨ha, rfl⟩
    · rintro ⟨ha, he⟩
      have := List.cons.inj he
      exact ⟨⟨ha, this.1⟩, this.2⟩

theorem maskByte_keep (p : UInt8) : maskByte 4294967295 p = p := by
  unfold maskByte
  have h := masked_byte_keep ⟨p.toNat, p.toNat_lt⟩
  simp only at h
  rw [h, Nat.mod_eq_of_lt p.toNat_lt]
  exact UInt8.ofNat_toNat

theorem maskByte_clear (p : UInt8) : maskByte 0 p = 0 := by
  unfold maskByte
  rw [masked_byte_clear]; rfl


/-! ### the function -/

/-- **`tinyjambu_aead_check_tag` as regenerated from the C source.**  Called with the plaintext at offset `op` of block `bp`
    (`P`, any length), the two tags at `(b1, o1)` and `(b2, o2)` (`T1`, `T2`, any equal length — the blocks may coincide with each
    other or with the plaintext block, as in in-place decryption), it returns 0 when `T1 = T2` and -1 (0xFFFFFFFF) otherwise; the
    plaintext is unchanged in the first case and all zero in the second; no other byte of memory changes. -/
theorem check_tag_regenerated (prog : Program) (e : Nat) (st : St) (P T1 T2 : List UInt8) (hlen : T1.length = T2.length)
    (bp op b1 o1 b2 o2 : Nat) (blkp blk1 blk2 : Block)
    (hbp : st.mem[bp]? = some blkp) (hb1 : st.mem[b1]? = some blk1) (hb2 : st.mem[b2]? = some blk2)
    (hP : ∀ i p, P[i]? = some p → blkp.bytes[op + i]? = some (p, .sec))
    (h1 : ∀ i x, T1[i]? = some x → blk1.bytes[o1 + i]? = some (x, .sec))
    (h2 : ∀ i y, T2[i]? = some y → blk2.bytes[o2 + i]? = some (y, .sec))
    (hlp : blkp.base + op + P.length < ptrBase) (hl1 : blk1.base + o1 + T1.length < ptrBase) (hl2 : blk2.base + o2 + T1.length < ptrBase)
    (hbbp : bp < 2 ^ 30) (hbb1 : b1 < 2 ^ 30) (hbb2 : b2 < 2 ^ 30) :
    ∃ env' st' lr, exec prog (e + T1.length + P.length + 11) f_tinyjambu_aead_check_tag.body
        #[(mkPtr bp (blkp.base + op), .pub), (P.length, .pub), (mkPtr b1 (blk1.base + o1), .pub), (mkPtr b2 (blk2.base + o2), .pub),
          (T1.length, .pub), (0, .undef), (0, .undef), (0, .undef), (0, .undef), (0, .undef), (0, .undef), (0, .undef), (0, .undef)] st =
        .ok (.ret (some (if T1 = T2 then 0 else 4294967295, lr))) env' st' ∧
      st'.mem = setBlock st.mem bp (writeBytes blkp.bytes op (P.map fun p => (if T1 = T2 then p else 0, Lab.sec))) ∧
      st'.ent = st.ent ∧ lr ≠ Lab.undef := by
  have hPl : P.length < 18446744073709551616 := by unfold ptrBase at hlp; omega
  have hTl : T1.length < 18446744073709551616 := by unfold ptrBase at hl1; omega
  rw [body_eq]
  simp only [seqs]
  -- accum = 0
  rw [exec_seq' prog (show e + T1.length + P.length + 11 = Fu (e + T1.length + P.length + 10) from rfl),
    exec_assign' prog (show e + T1.length + P.length + 10 = Fu (e + T1.length + P.length + 9) from rfl)]; ev
  -- first loop
  rw [exec_seq' prog (show e + T1.length + P.length + 10 = Fu (e + T1.length + P.length + 9) from rfl)]
  obtain ⟨w2, w3, w4, y6, y7, y8, y9, st1, la1, hex1, hla1, hmem1, hent1⟩ :=
    loop1_spec prog (e + P.length) T1 T2 hlen st (mkPtr bp (blkp.base + op), .pub) (P.length, .pub)
      (0, .undef) (0, .undef) (0, .undef) (0, .undef) (0, .undef) (0, .undef) (0, .undef) b1 o1 b2 o2 0 .pub (by decide) blk1 blk2 hb1 hb2 h1 h2 hl1 hl2 hbb1 hbb2 hTl
  rw [show e + T1.length + P.length + 9 = e + P.length + T1.length + 9 from by omega, hex1]
  try simp only []
  -- accum = (accum - 1) >> 8
  rw [exec_seq' prog (show e + P.length + T1.length + 9 = Fu (e + P.length + T1.length + 8) from rfl),
    exec_assign' prog (show e + P.length + T1.length + 8 = Fu (e + P.length + T1.length + 7) from rfl)]; ev
  simp only [hla1, if_false]
  have hacc := accF_lt T1 T2 0 (by decide)
  have hmask := mask_of_accum ⟨accF 0 T1 T2, hacc⟩
  simp only at hmask
  simp only [hmask, show ¬ (8 ≥ 32) from by decide, if_false]
  -- second loop
  rw [exec_seq' prog (show e + P.length + T1.length + 8 = Fu (e + P.length + T1.length + 7) from rfl)]
  have hbp1 : st1.mem[bp]? = some blkp := by rw [hmem1]; exact hbp
  obtain ⟨env2, st2, hex2, h5, hsz2, hmem2, hent2⟩ :=
    loop2_spec prog (e + T1.length) P st1 w2 w3 w4 y6 y7 y8 y9 (0, .undef) (0, .undef) (0, .undef) bp op
      (if accF 0 T1 T2 = 0 then 4294967295 else 0) ((la1.join Lab.pub).join Lab.pub) (Lab.join_ne_undef _ _) blkp hbp1 hP hlp hbbp hPl
  rw [show e + P.length + T1.length + 7 = e + T1.length + P.length + 7 from by omega, hex2]
  try simp only []
  -- return ~accum
  rw [exec_ret_some' prog (show e + T1.length + P.length + 7 = Fu (e + T1.length + P.length + 6) from rfl)]
  have hlr : ((la1.join Lab.pub).join Lab.pub) ≠ Lab.undef := Lab.join_ne_undef _ _
  simp only [evalE, h5, hlr, if_false, unVal, Ty.modulus]
  have hz := accF_eq_zero T1 T2 0 hlen
  refine ⟨env2, st2, (la1.join Lab.pub).join Lab.pub, ?_, ?_, by rw [hent2, hent1], hlr⟩
  · by_cases ht : T1 = T2
    · have h0 : accF 0 T1 T2 = 0 := hz.mpr ⟨rfl, ht⟩
      rw [if_pos h0, if_pos ht]
    · have h0 : ¬ accF 0 T1 T2 = 0 := fun h0 => ht (hz.mp h0).2
      rw [if_neg h0, if_neg ht]
  · rw [hmem2, hmem1]
    by_cases ht : T1 = T2
    · have h0 : accF 0 T1 T2 = 0 := hz.mpr ⟨rfl, ht⟩
      simp only [if_pos h0, if_pos ht, maskByte_keep]
    · have h0 : ¬ accF 0 T1 T2 = 0 := fun h0 => ht (hz.mp h0).2
      simp only [if_neg h0, if_neg ht, maskByte_clear]

end TJ.MiniC.CheckTagC
