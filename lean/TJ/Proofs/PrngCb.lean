import TJ.Proofs.PrngLimit
import TJ.Proofs.AeadDecCore
namespace TJ.MiniC.Hoare
open TJ TJ.MiniC TJ.MiniC.PermC TJ.Gen.MiniC

/-- an indirect call that reaches the caller-supplied entropy callback: one delivery of the entropy script -/
theorem runs_calli_user {prog : Program} {dst : Nat} {fp : Expr} {args : List Expr} {env : Env} {st : St} {P : Sig → Env → St → Prop}
    (a0 : LVal) (buf size : Nat) (v : LVal) (st1 : St)
    (hf : evalE env fp = .ok (userCb, .pub)) (hargs : evalArgs env args = .ok [a0, (buf, .pub), (size, .pub)])
    (hd : deliver { st with leak := .icall userCb :: st.leak } buf size = .ok (v, st1))
    (h : P .normal (setVar env dst v) st1) : RunsTo prog (.calli (some dst) fp args) env st P := by
  refine ⟨1, .normal, setVar env dst v, st1, ?_, h⟩
  rw [exec]
  simp only [hf, hargs, ne_eq, not_true_eq_false, if_false, if_true, List.length_cons, List.length_nil, List.getElem?_cons_succ, List.getElem?_cons_zero,
    reduceCtorEq, Bool.or_self, Bool.false_eq_true, decide_false, hd, assignDst]

/-- what one delivery into a 32-byte window of a block does -/
theorem deliver_block (st : St) (b base off : Nat) (X : Array LByte) (hm : st.mem[b]? = some ⟨X, base⟩) (hin : off + 32 ≤ X.size) (hlt : base + X.size < ptrBase) :
    deliver st (mkPtr b (base + off)) 32 = .ok (((st.ent.headD ([], 0)).2, .pub),
      { st with ent := st.ent.tail, leak := .ent (mkPtr b (base + off)) 32 :: st.leak,
                mem := setBlock st.mem b (writeBytes X off (((st.ent.headD ([], 0)).1.take (min (st.ent.headD ([], 0)).1.length 32)).map fun x => (x, Lab.sec))) }) := by
  unfold deliver
  by_cases hn : min (st.ent.headD ([], 0)).1.length 32 = 0
  · simp only [hn, if_true]
    have : (st.ent.headD ([], 0)).1.take 0 = [] := rfl
    simp only [List.take_zero, List.map_nil, writeBytes]
    rw [setBlock_self st.mem b ⟨X, base⟩ hm]
  · simp only [hn, if_false]
    rw [resolve_byte hm off (by omega) (by omega)]
    simp only [blockBytes_of hm]
    rw [if_neg (by omega)]

end TJ.MiniC.Hoare
