import TJ.Proofs.PrngLimit
import TJ.Proofs.AeadDecCore
import TJ.Proofs.HashEmpty
namespace TJ.MiniC.Hoare
open TJ TJ.MiniC TJ.MiniC.PermC TJ.Gen.MiniC

/-- an indirect call that reaches the caller-supplied entropy callback: one delivery of the entropy script -/
theorem runs_calli_user {prog : Program} {dst : Nat} {fp : Expr} {args : List Expr} {env : Env} {st : St} {P : Sig → Env → St → Prop}
    (a0 : LVal) (buf size : Nat) (v : LVal) (st1 : St)
    (hf : evalE env fp = .ok (userCb, .pub)) (hargs : evalArgs env args = .ok [a0, (buf, .pub), (size, .pub)])
    (hd : deliver { st with leak := .icall userCb :: st.leak } buf size = .ok (v, st1))
    (h : P .normal (setVar env dst v) st1) : RunsTo prog (.calli (some dst) fp args) env st P := by
  refine ⟨1, .normal, setVar env dst v, st1, ?_, h⟩
  rw [exec]
  simp only [hf, hargs, ne_eq, not_true_eq_false, if_false, if_true, List.length_cons, List.length_nil, List.getElem?_cons_succ, List.getElem?_cons_zero,
    reduceCtorEq, Bool.or_self, Bool.false_eq_true, decide_false, hd, assignDst]

/-- what one delivery into a 32-byte window of a block does -/
theorem deliver_block (st : St) (b base off : Nat) (X : Array LByte) (hm : st.mem[b]? = some ⟨X, base⟩) (hin : off + 32 ≤ X.size) (hlt : base + X.size < ptrBase) :
    deliver st (mkPtr b (base + off)) 32 = .ok (((st.ent.headD ([], 0)).2, .pub),
      { st with ent := st.ent.tail, leak := .ent (mkPtr b (base + off)) 32 :: st.leak,
                mem := setBlock st.mem b (writeBytes X off (((st.ent.headD ([], 0)).1.take (min (st.ent.headD ([], 0)).1.length 32)).map fun x => (x, Lab.sec))) }) := by
  unfold deliver
  by_cases hn : min (st.ent.headD ([], 0)).1.length 32 = 0
  · simp only [hn, if_true]
    have : (st.ent.headD ([], 0)).1.take 0 = [] := rfl
    simp only [List.take_zero, List.map_nil, writeBytes]
    rw [setBlock_self st.mem b ⟨X, base⟩ hm]
  · simp only [hn, if_false]
    rw [resolve_byte hm off (by omega) (by omega)]
    simp only [blockBytes_of hm]
    rw [if_neg (by omega)]

theorem prog_prng_system : prog[idx_tinyjambu_prng_system]? = some f_tinyjambu_prng_system := by
  simp only [prog, idx_tinyjambu_prng_system, List.getElem?_cons_succ, List.getElem?_cons_zero]

/-- the address of `tinyjambu_prng_system` as a function pointer -/
def sysCb : Nat := fnBase + idx_tinyjambu_prng_system

/-- an indirect call that reaches `tinyjambu_prng_system` (the regenerated function: one `tinyjambu_trng_generate`, modelled as one delivery of the entropy
    script; the result is `size` when the source reported success and 0 otherwise) -/
theorem runs_calli_system {dst : Nat} {fp : Expr} {args : List Expr} {env : Env} {st : St} {P : Sig → Env → St → Prop}
    (a0 : LVal) (buf : Nat) (v : LVal) (st1 : St)
    (hf : evalE env fp = .ok (sysCb, .pub)) (hargs : evalArgs env args = .ok [a0, (buf, .pub), (32, .pub)])
    (hd : deliver { st with leak := .icall sysCb :: st.leak } buf 32 = .ok (v, st1)) (hsz : st1.mem.size = st.mem.size)
    (h : P .normal (setVar env dst (if v.1 ≠ 0 then 32 else 0, .pub)) { st1 with leak := .br (v.1 != 0) :: st1.leak }) (hvl : v.2 = .pub) : RunsTo prog (.calli (some dst) fp args) env st P := by
  obtain ⟨vv, vl⟩ := v
  simp only at hvl; subst hvl
  have hext : st1.mem.extract 0 st.mem.size = st1.mem := by rw [← hsz]; exact extract_self _
  have hne : ¬ sysCb = userCb := by decide
  have hge : ¬ sysCb < fnBase := by decide
  have hsub : sysCb - fnBase = idx_tinyjambu_prng_system := by decide
  have hent : enterFun f_tinyjambu_prng_system [a0, (buf, .pub), (32, .pub)] st.mem = (#[a0, (buf, .pub), (32, .pub), (0, .undef)], st.mem) := rfl
  refine ⟨4, .normal, setVar env dst (if vv ≠ 0 then 32 else 0, .pub), { st1 with leak := .br (vv != 0) :: st1.leak }, ?_, h⟩
  have he : exec prog 2 (.entropy (some 3) (.var 1)) #[a0, (buf, .pub), (32, .pub), (0, .undef)] { st with leak := .icall sysCb :: st.leak } =
      .ok .normal #[a0, (buf, .pub), (32, .pub), (vv, .pub)] st1 := by
    rw [exec]
    simp only [evalE, List.getElem?_toArray, List.getElem?_cons_succ, List.getElem?_cons_zero, reduceCtorEq, if_false, ne_eq, not_true_eq_false, hd, assignDst]
    rfl
  have hbody : exec prog 3 f_tinyjambu_prng_system.body #[a0, (buf, .pub), (32, .pub), (0, .undef)] { st with leak := .icall sysCb :: st.leak } =
      .ok (.ret (some (if vv ≠ 0 then 32 else 0, .pub))) #[a0, (buf, .pub), (32, .pub), (vv, .pub)] { st1 with leak := .br (vv != 0) :: st1.leak } := by
    show exec prog 3 (.seq (.entropy (some 3) (.var 1)) (.ite (.var 3) (.ret (some (.var 2))) (.ret (some (.cast .u64 .i32 (.lit 0)))))) _ _ = _
    rw [exec, he]
    simp only
    rw [exec]
    simp only [evalE, List.getElem?_toArray, List.getElem?_cons_succ, List.getElem?_cons_zero, reduceCtorEq, if_false, ne_eq, not_true_eq_false]
    by_cases hv0 : vv = 0
    · subst hv0
      simp only [bne_self_eq_false, Bool.false_eq_true, if_false, not_true_eq_false]
      rw [exec]; simp only [evalE, castVal_u64_i32_0]
    · have : (vv != 0) = true := by simpa using hv0
      simp only [this, if_true, hv0, not_false_eq_true]
      rw [exec]; simp only [evalE, List.getElem?_toArray, List.getElem?_cons_succ, List.getElem?_cons_zero, reduceCtorEq, if_false]
  rw [exec]
  simp only [hf, hargs, ne_eq, not_true_eq_false, if_false, hne, hge, hsub, prog_prng_system, List.length_cons, List.length_nil]
  rw [hent]
  simp only [show f_tinyjambu_prng_system.nparams = 3 from rfl, not_true_eq_false, if_false]
  rw [hbody]
  simp only [leaveFun, assignDst, Sig.retVal, hext]


/-- the callback values the PRNG proofs cover: the user callback of the semantics, or the library's `tinyjambu_prng_system` -/
def CbOk (cbv : Nat) : Prop := cbv = userCb ∨ cbv = sysCb

/-- what the callback returns when asked for 32 bytes and the entropy script delivers `d` -/
def cbRet (cbv : Nat) (d : Delivery) : Nat := if cbv = userCb then d.2 else (if d.2 ≠ 0 then 32 else 0)

theorem cbRet_user (d : Delivery) : cbRet userCb d = d.2 := by simp [cbRet]

/-- **one call through the stored callback pointer** (user callback or system source): one delivery of the entropy script into a 32-byte window -/
theorem runs_calli_cb {dst : Nat} {fp : Expr} {args : List Expr} {env : Env} {st : St} {P : Sig → Env → St → Prop}
    (cbv : Nat) (hk : CbOk cbv) (a0 : LVal) (b base off : Nat) (X : Array LByte)
    (hf : evalE env fp = .ok (cbv, .pub)) (hargs : evalArgs env args = .ok [a0, (mkPtr b (base + off), .pub), (32, .pub)])
    (hm : st.mem[b]? = some ⟨X, base⟩) (hin : off + 32 ≤ X.size) (hlt : base + X.size < ptrBase)
    (h : ∀ L, P .normal (setVar env dst (cbRet cbv (st.ent.headD ([], 0)), .pub))
      { mem := setBlock st.mem b (writeBytes X off (((st.ent.headD ([], 0)).1.take (min (st.ent.headD ([], 0)).1.length 32)).map fun x => (x, Lab.sec))), ent := st.ent.tail, leak := L }) :
    RunsTo prog (.calli (some dst) fp args) env st P := by
  rcases hk with hk | hk
  · subst hk
    have hdel := deliver_block { st with leak := .icall userCb :: st.leak } b base off X hm hin hlt
    refine runs_calli_user a0 (mkPtr b (base + off)) 32 _ _ hf hargs hdel ?_
    rw [← cbRet_user]; exact h _
  · subst hk
    have hdel := deliver_block { st with leak := .icall sysCb :: st.leak } b base off X hm hin hlt
    refine runs_calli_system a0 (mkPtr b (base + off)) _ _ hf hargs hdel (by show (setBlock st.mem b _).size = _; rw [size_setBlock']) ?_ rfl
    have hc : cbRet sysCb (st.ent.headD ([], 0)) = if (st.ent.headD ([], 0)).2 ≠ 0 then 32 else 0 := by
      unfold cbRet; rw [if_neg (by decide)]
    rw [← hc]; exact h _

end TJ.MiniC.Hoare
