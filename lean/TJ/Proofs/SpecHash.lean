/-
  TJ.Proofs.SpecHash — the hash model (L in the state words, ~R in key words 0-3, the block in key
  words 4-7, inverted in place) refines the MDPH construction of tools/hashref/README.md.
-/
import TJ.Proofs.SpecTop
import TJ.Proofs.Hash
namespace TJ
open Spec

/-- word `j` of a state -/
def W4.word (s : W4) : Nat → UInt32
  | 0 => s.a | 1 => s.b | 2 => s.c | _ => s.d

theorem pack_getLsbD (s : W4) (i : Nat) (hi : i < 128) :
    (pack s).getLsbD i = (s.word (i / 32)).toBitVec.getLsbD (i % 32) := by
  obtain ⟨a, b, c, d⟩ := s
  simp only [pack, BitVec.getLsbD_append]
  by_cases h0 : i < 32
  · have e1 : i / 32 = 0 := by omega
    have e2 : i % 32 = i := by omega
    simp [h0, e1, e2, W4.word]
  · by_cases h1 : i < 64
    · have e1 : i / 32 = 1 := by omega
      have e2 : i % 32 = i - 32 := by omega
      have f1 : i - 32 < 32 := by omega
      simp [h0, f1, e1, e2, W4.word]
    · by_cases h2 : i < 96
      · have e1 : i / 32 = 2 := by omega
        have e2 : i % 32 = i - 64 := by omega
        have f1 : ¬ i - 32 < 32 := by omega
        have f2 : i - 32 - 32 < 32 := by omega
        have f3 : i - 32 - 32 = i - 64 := by omega
        simp [h0, f1, f2, f3, e1, e2, W4.word]
        intro h; omega
      · have e1 : i / 32 = 3 := by omega
        have e2 : i % 32 = i - 96 := by omega
        have f1 : ¬ i - 32 < 32 := by omega
        have f2 : ¬ i - 32 - 32 < 32 := by omega
        have f3 : i - 32 - 32 - 32 = i - 96 := by omega
        simp [h0, f1, f2, f3, e1, e2, W4.word]

/-- (L, R) of the documented construction from the model's (L, ~R) -/
def Core.L (c : Core) : BitVec 128 := pack c.s
def Core.R (c : Core) : BitVec 128 := ~~~ pack ⟨c.k0, c.k1, c.k2, c.k3⟩

/-- the message block held (uninverted) in key words 4-7 -/
def blockM (blk : Bytes) : BitVec 128 := pack ⟨loadAt blk 0, loadAt blk 4, loadAt blk 8, loadAt blk 12⟩

theorem keyBits_hash (c : Core) (blk : Bytes) (i : Nat) (hi : i < 256) :
    keyBits [c.k0, c.k1, c.k2, c.k3, ~~~ loadAt blk 0, ~~~ loadAt blk 4, ~~~ loadAt blk 8, ~~~ loadAt blk 12] i
      = Spec.kBit c.R (blockM blk) i := by
  unfold keyBits Spec.kBit
  have ht : i % 32 < 32 := Nat.mod_lt _ (by omega)
  by_cases h : i < 128
  · rw [if_pos h]
    unfold Core.R
    rw [BitVec.getLsbD_not, pack_getLsbD _ _ h]
    simp only [h, decide_true, Bool.true_and]
    have : i / 32 < 4 := by omega
    match hq : i / 32, this with
    | 0, _ => rfl
    | 1, _ => rfl
    | 2, _ => rfl
    | 3, _ => rfl
  · rw [if_neg h]
    unfold blockM
    have h2 : i - 128 < 128 := by omega
    rw [pack_getLsbD _ _ h2]
    have e1 : (i - 128) / 32 = i / 32 - 4 := by omega
    have e2 : (i - 128) % 32 = i % 32 := by omega
    rw [e1, e2]
    have : 4 ≤ i / 32 ∧ i / 32 < 8 := by omega
    match hq : i / 32, this with
    | 4, _ =>
      show (!(~~~ loadAt blk 0).toBitVec.getLsbD (i % 32)) = (loadAt blk 0).toBitVec.getLsbD (i % 32)
      simp [ht]
    | 5, _ =>
      show (!(~~~ loadAt blk 4).toBitVec.getLsbD (i % 32)) = (loadAt blk 4).toBitVec.getLsbD (i % 32)
      simp [ht]
    | 6, _ =>
      show (!(~~~ loadAt blk 8).toBitVec.getLsbD (i % 32)) = (loadAt blk 8).toBitVec.getLsbD (i % 32)
      simp [ht]
    | 7, _ =>
      show (!(~~~ loadAt blk 12).toBitVec.getLsbD (i % 32)) = (loadAt blk 12).toBitVec.getLsbD (i % 32)
      simp [ht]

theorem pack_xor (x y : W4) : pack (x.xor y) = pack x ^^^ pack y := by
  obtain ⟨a, b, c, d⟩ := x
  obtain ⟨a', b', c', d'⟩ := y
  simp only [pack, W4.xor, UInt32.toBitVec_xor]
  bv_decide

theorem pack_xor_low (s : W4) (d : UInt32) : pack { s with a := s.a ^^^ d } = pack s ^^^ d.toBitVec.zeroExtend 128 := by
  obtain ⟨a, b, c, e⟩ := s
  simp only [pack, UInt32.toBitVec_xor]
  bv_decide

theorem pack_xor_low' (a b c e d : UInt32) : pack ⟨a ^^^ d, b, c, e⟩ = pack ⟨a, b, c, e⟩ ^^^ d.toBitVec.zeroExtend 128 := by
  simp only [pack, UInt32.toBitVec_xor]
  bv_decide

theorem one_zext : (1 : UInt32).toBitVec.zeroExtend 128 = (1 : BitVec 128) := by decide

theorem pack_not (a b c d : UInt32) : pack ⟨~~~a, ~~~b, ~~~c, ~~~d⟩ = ~~~ pack ⟨a, b, c, d⟩ := by
  simp only [pack, UInt32.toBitVec_not]
  bv_decide

/-- one compression of the model = Compress(L ⊕ domain, R, M) of the construction -/
theorem compressCore_spec (c : Core) (blk : Bytes) (hb : 16 ≤ blk.length) (domain : UInt32) :
    (compressCore c blk domain).L = (Spec.compress (c.L ^^^ domain.toBitVec.zeroExtend 128) c.R (blockM blk)).1 ∧
    (compressCore c blk domain).R = (Spec.compress (c.L ^^^ domain.toBitVec.zeroExtend 128) c.R (blockM blk)).2 := by
  have hl0 : loadAt (blk.take 16) 0 = loadAt blk 0 := loadAt_take16 blk 0 (by omega)
  have hl4 : loadAt (blk.take 16) 4 = loadAt blk 4 := loadAt_take16 blk 4 (by omega)
  have hl8 : loadAt (blk.take 16) 8 = loadAt blk 8 := loadAt_take16 blk 8 (by omega)
  have hl12 : loadAt (blk.take 16) 12 = loadAt blk 12 := loadAt_take16 blk 12 (by omega)
  have hE : ∀ s : W4, pack (perm256 [c.k0, c.k1, c.k2, c.k3, ~~~ loadAt blk 0, ~~~ loadAt blk 4, ~~~ loadAt blk 8, ~~~ loadAt blk 12] 20 s)
      = Spec.encryptE c.R (blockM blk) (pack s) := by
    intro s
    have := permC_eq_spec .v256 [c.k0, c.k1, c.k2, c.k3, ~~~ loadAt blk 0, ~~~ loadAt blk 4, ~~~ loadAt blk 8, ~~~ loadAt blk 12] 20 s
    simp only [permC] at this
    rw [this]
    unfold Spec.encryptE Spec.stateUpdate
    exact stateUpdateFrom_congr _ _ 256 (by omega) (fun i hi => keyBits_hash c blk i hi) _ _ _
  simp only [compressCore, HState.compress, HState.core, Core.L, Core.R, Spec.compress, hl0, hl4, hl8, hl12]
  constructor
  · rw [pack_xor, hE, pack_xor_low']
    exact BitVec.xor_comm _ _
  · rw [pack_not]
    simp only [BitVec.not_not]
    rw [pack_xor, hE, pack_xor_low', pack_xor_low', one_zext]
    simp only [BitVec.xor_assoc]
    rfl

end TJ

namespace TJ
open Spec

theorem list16 (l : Bytes) (h : 16 ≤ l.length) :
    ∃ a0 a1 a2 a3 a4 a5 a6 a7 a8 a9 a10 a11 a12 a13 a14 a15 rest,
      l = a0 :: a1 :: a2 :: a3 :: a4 :: a5 :: a6 :: a7 :: a8 :: a9 :: a10 :: a11 :: a12 :: a13 :: a14 :: a15 :: rest := by
  match l, h with
  | a0 :: a1 :: a2 :: a3 :: a4 :: a5 :: a6 :: a7 :: a8 :: a9 :: a10 :: a11 :: a12 :: a13 :: a14 :: a15 :: rest, _ =>
    exact ⟨_, _, _, _, _, _, _, _, _, _, _, _, _, _, _, _, _, rfl⟩

theorem blockM_leBlock (blk : Bytes) (h : 16 ≤ blk.length) : blockM blk = leBlock (blk.take 16) := by
  obtain ⟨a0, a1, a2, a3, a4, a5, a6, a7, a8, a9, a10, a11, a12, a13, a14, a15, rest, rfl⟩ := list16 blk h
  simp only [blockM, loadAt, List.take, List.getD_cons_zero, List.getD_cons_succ, leBlock, pack, load32_append]
  bv_decide

theorem blockBytes_pack (a b c d : UInt32) :
    store32 a ++ store32 b ++ store32 c ++ store32 d = blockBytes (pack ⟨a, b, c, d⟩) 16 := by
  simp only [store32_wordBytes, wordBytes, blockBytes, pack, List.cons_append, List.nil_append, List.cons.injEq, and_true]
  refine ⟨?_, ?_, ?_, ?_, ?_, ?_, ?_, ?_, ?_, ?_, ?_, ?_, ?_, ?_, ?_, ?_⟩ <;>
    (apply UInt8.toBitVec_inj.mp; simp only [UInt8.toBitVec_ofBitVec]; bv_decide)

theorem core0_L : core0.L = 0 := by
  show pack W4.zero = 0; exact pack_zero
theorem core0_R : core0.R = 0 := by
  show ~~~ pack ⟨0xFFFFFFFF, 0xFFFFFFFF, 0xFFFFFFFF, 0xFFFFFFFF⟩ = 0
  simp only [pack]; decide

theorem pad_long (m : Bytes) (h : 16 ≤ m.length) :
    (Spec.pad m).take 16 = m.take 16 ∧ (Spec.pad m).drop 16 = Spec.pad (m.drop 16) ∧ 16 < (Spec.pad m).length := by
  unfold Spec.pad
  refine ⟨?_, ?_, ?_⟩
  · rw [List.append_assoc, List.take_append_of_le_length h]
  · rw [List.append_assoc, List.drop_append_of_le_length h, List.append_assoc]
    congr 3
    simp only [List.length_drop]; omega
  · simp; omega

theorem pad_short_length (m : Bytes) (h : m.length < 16) : (Spec.pad m).length = 16 := by
  unfold Spec.pad; simp; omega

/-- the eager block loop of the model = "all blocks but the last" of the padded message -/
theorem absorb16_spec (c : Core) (m : Bytes) :
    Spec.absorbBlocks (c.L, c.R) (Spec.pad m) =
      ((absorb16 c m).1.L, (absorb16 c m).1.R, Spec.pad (absorb16 c m).2) := by
  fun_induction absorb16 c m with
  | case1 c m h ih =>
    obtain ⟨h1, h2, h3⟩ := pad_long m h
    rw [Spec.absorbBlocks]
    simp only [h3, if_true]
    rw [h1, h2]
    have hc := compressCore_spec c m h 0
    have hz : (0 : UInt32).toBitVec.zeroExtend 128 = (0 : BitVec 128) := by decide
    rw [hz, show c.L ^^^ (0 : BitVec 128) = c.L from BitVec.xor_zero, blockM_leBlock m h] at hc
    have : Spec.compress c.L c.R (leBlock (m.take 16)) = ((compressCore c m 0).L, (compressCore c m 0).R) :=
      Prod.ext hc.1.symm hc.2.symm
    rw [this, ih]
  | case2 c m h =>
    have hl : m.length < 16 := by omega
    rw [Spec.absorbBlocks]
    have : ¬ 16 < (Spec.pad m).length := by rw [pad_short_length m hl]; omega
    simp only [this, if_false]

theorem hashPure_eq_spec (m : Bytes) : hashPure m = Spec.hash m := by
  unfold hashPure Spec.hash
  simp only
  have ha := absorb16_spec core0 m
  rw [core0_L, core0_R] at ha
  rw [ha]
  simp only
  have hlt := absorb16_rem_lt core0 m
  generalize (absorb16 core0 m).1 = c at *
  generalize (absorb16 core0 m).2 = pend at *
  have hp16 : (Spec.pad pend).length = 16 := pad_short_length pend hlt
  have hpad : pend ++ [0x01] ++ zeros (15 - pend.length) = Spec.pad pend := by
    unfold Spec.pad zeros; congr 2; omega
  have hc := compressCore_spec c (Spec.pad pend) (by omega) 2
  have h2 : (2 : UInt32).toBitVec.zeroExtend 128 = (2 : BitVec 128) := by decide
  rw [h2, blockM_leBlock _ (by omega), List.take_of_length_le (by omega)] at hc
  unfold finishCore
  simp only [hpad]
  rw [← hc.1, ← hc.2]
  generalize compressCore c (Spec.pad pend) 2 = c'
  unfold Core.L Core.R
  rw [← blockBytes_pack, ← pack_not, ← blockBytes_pack]
  simp only [List.append_assoc]

theorem hash_eq_spec (m : Bytes) : hash m = Spec.hash m := by
  rw [hash_eq_hashPure, hashPure_eq_spec]

end TJ
