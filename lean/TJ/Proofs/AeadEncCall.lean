/-
  TJ.Proofs.AeadEncCall — tinyjambu_{128,192,256}_aead_encrypt as a call, generic in the variant.
-/
import TJ.Proofs.AeadEncKey
namespace TJ.MiniC.Hoare
open TJ TJ.MiniC TJ.MiniC.PermC TJ.Gen.MiniC

/-- what the program has to provide around an AEAD entry point -/
structure EncProg (prog : Program) (nk pidx pk sidx aidx gidx : Nat) (P : List UInt32 → Nat → W4 → W4) : Prop where
  hspec : PermCallSpec prog pidx nk P
  hpk : pk < 256
  setup : ∃ fd, prog[sidx]? = some fd ∧ fd.body = setupBody pidx pk ∧ fd.nparams = 3 ∧ fd.nvars = 31 ∧ fd.allocs = []
  absorb : ∃ fd, prog[aidx]? = some fd ∧ fd.body = absorbBody pidx ∧ fd.nparams = 5 ∧ fd.nvars = 37 ∧ fd.allocs = []
  gentag : ∃ fd, prog[gidx]? = some fd ∧ fd.body = gentagBody pidx pk ∧ fd.nparams = 2 ∧ fd.nvars = 18 ∧ fd.allocs = []

/-- an input buffer: block, where it lies, and the bytes a pointer into it designates -/
structure Buf (mem : Array Block) (b base off : Nat) (X : Array LByte) (data : Bytes) : Prop where
  hm : mem[b]? = some ⟨X, base⟩
  hlt : base + X.size < ptrBase
  hd : BytesV X off data

theorem Buf.lt {mem : Array Block} {b base off : Nat} {X : Array LByte} {data : Bytes} (h : Buf mem b base off X data) : b < mem.size := by
  by_cases hb : b < mem.size
  · exact hb
  · have := h.hm; rw [Array.getElem?_eq_none (by omega)] at this; cases this

/-- `state.k[i] = ~le_load_word32(k + 4i)` -/
def keyWords (nk : Nat) (key : Bytes) : List UInt32 := (List.range nk).map fun i => ~~~ loadAt key (4 * i)

theorem keyWords_length (nk : Nat) (key : Bytes) : (keyWords nk key).length = nk := by simp [keyWords]
theorem keyWords_get (nk : Nat) (key : Bytes) (i : Nat) (hi : i < nk) : (keyWords nk key)[i]? = some (~~~ loadAt key (4 * i)) := by
  simp [keyWords, List.getElem?_map, List.getElem?_range hi]

theorem enter_env (vs : List LVal) (m : Nat) (x : LVal) (hvs : vs.length = 8) (hm : 0 < m) :
    (setVar (vs ++ List.replicate m (0, Lab.undef)).toArray 8 x).size = 8 + m ∧
    (∀ (i : Nat) (v : LVal), vs[i]? = some v → (setVar (vs ++ List.replicate m (0, Lab.undef)).toArray 8 x)[i]? = some v) ∧
    (setVar (vs ++ List.replicate m (0, Lab.undef)).toArray 8 x)[8]? = some x := by
  refine ⟨by simp [size_setVar, hvs], fun i v hv => ?_, ?_⟩
  · have hi : i < 8 := by
      by_cases h : i < 8
      · exact h
      · rw [List.getElem?_eq_none (by omega)] at hv; cases hv
    rw [get_set_ne _ _ _ _ (by omega), List.getElem?_toArray, List.getElem?_append_left (by omega)]; exact hv
  · exact get_set_eq _ _ _ (by simp [hvs]; omega)


theorem encBody_length (P : Perm) (pk : Nat) : ∀ (s : W4) (l : Bytes), (encBody P pk s l).2.length = l.length
  | s, [] => rfl
  | s, [_] => rfl
  | s, [_, _] => rfl
  | s, [_, _, _] => rfl
  | s, b0 :: b1 :: b2 :: b3 :: rest => by
    rw [encBody]
    simp only [List.length_append, List.length_cons, store32, List.length_nil]
    rw [encBody_length P pk _ rest]; omega

/-- **`tinyjambu_{128,192,256}_aead_encrypt(c, clen, m, mlen, ad, adlen, npub, k)` as a call**: `*clen = mlen + 8`, the `mlen + 8` bytes at `c` are the
    model's ciphertext and tag, every other byte of memory keeps its value, the local state object is released.  The message may lie in
    the output buffer at the same address (in-place use). -/
theorem encrypt_call {prog : Program} {nk pidx pk sidx aidx gidx : Nat} {P : List UInt32 → Nat → W4 → W4} (ep : EncProg prog nk pidx pk sidx aidx gidx P)
    (fn : Nat) (fd : FunDecl) (hprog : prog[fn]? = some fd) (hbody : fd.body = encStmt nk pidx pk sidx aidx gidx) (hp : fd.nparams = 8)
    (hv : fd.nvars = 11 + 5 * nk + 47) (ha : fd.allocs = [(8, 16 + 4 * nk)])
    (env : Env) (st : St) (ec el em eml ea eal en ek : Expr)
    (bo baseo oo : Nat) (XO : Array LByte) (bl basel ol : Nat) (XL : Array LByte) (bm basem moff : Nat) (XM : Array LByte) (ba basea aoff : Nat) (XA : Array LByte)
    (bn basen noff : Nat) (XN : Array LByte) (bk basek koff : Nat) (XK : Array LByte) (msg ad nonce key : Bytes)
    (hec : evalE env ec = .ok (mkPtr bo (baseo + oo), .pub)) (hel : evalE env el = .ok (mkPtr bl (basel + ol), .pub))
    (hem : evalE env em = .ok (mkPtr bm (basem + moff), .pub)) (heml : evalE env eml = .ok (msg.length, .pub))
    (hea : evalE env ea = .ok (mkPtr ba (basea + aoff), .pub)) (heal : evalE env eal = .ok (ad.length, .pub))
    (hen : evalE env en = .ok (mkPtr bn (basen + noff), .pub)) (hek : evalE env ek = .ok (mkPtr bk (basek + koff), .pub))
    (hO : st.mem[bo]? = some ⟨XO, baseo⟩) (hltO : baseo + XO.size < ptrBase) (hroom : oo + msg.length + 8 ≤ XO.size)
    (hL : st.mem[bl]? = some ⟨XL, basel⟩) (hltL : basel + XL.size < ptrBase) (hinL : ol + 8 ≤ XL.size) (halL : (basel + ol) % 8 = 0)
    (bM : Buf st.mem bm basem moff XM msg) (bA : Buf st.mem ba basea aoff XA ad) (bN : Buf st.mem bn basen noff XN nonce) (bK : Buf st.mem bk basek koff XK key)
    (hnl : nonce.length = 12) (hkl : key.length = 4 * nk)
    (hsep : bl ≠ bo ∧ bl ≠ bm ∧ bl ≠ ba ∧ bl ≠ bn ∧ bl ≠ bk) (hdisj : bm ≠ bo ∨ (bm = bo ∧ moff = oo)) (hsz : st.mem.size + 1 < 2 ^ 30) (hnk : nk ≤ 64) :
    RunsTo prog (.call none fn [ec, el, em, eml, ea, eal, en, ek]) env st (fun sig e s' => sig = .normal ∧ e = env ∧ s'.ent = st.ent ∧
      s'.mem.size = st.mem.size ∧
      (∃ blkO, s'.mem[bo]? = some blkO ∧ blkO.base = baseo ∧ blkO.bytes.size = XO.size ∧
        BytesV blkO.bytes oo (aeadEncryptWith (P (keyWords nk key)) pk nonce ad msg) ∧
        (∀ p, (p < oo ∨ oo + (msg.length + 8) ≤ p) → ORel VLe blkO.bytes[p]? XO[p]?)) ∧
      ORel BlockLe s'.mem[bl]? (some ⟨writeLE XL ol (msg.length + 8) .pub 8, basel⟩) ∧
      (∀ j, j ≠ bo → j ≠ bl → ORel BlockLe s'.mem[j]? st.mem[j]?)) := by
  obtain ⟨fdS, hS1, hS2, hS3, hS4, hS5⟩ := ep.setup
  obtain ⟨fdA, hA1, hA2, hA3, hA4, hA5⟩ := ep.absorb
  obtain ⟨fdG, hG1, hG2, hG3, hG4, hG5⟩ := ep.gentag
  have hpk := ep.hpk
  have hboN : bo < st.mem.size := by
    by_cases hb : bo < st.mem.size
    · exact hb
    · rw [Array.getElem?_eq_none (by omega)] at hO; cases hO
  have hblN : bl < st.mem.size := by
    by_cases hb : bl < st.mem.size
    · exact hb
    · rw [Array.getElem?_eq_none (by omega)] at hL; cases hL
  have hbmN := bM.lt; have hbaN := bA.lt; have hbnN := bN.lt; have hbkN := bK.lt
  have hmlen : msg.length + 8 < 18446744073709551616 := by simp only [ptrBase] at hltO; omega
  generalize hkws : keyWords nk key = kws
  have hklen : kws.length = nk := by rw [← hkws]; exact keyWords_length nk key
  have hk : ∀ i, i < nk → kws[i]? = some (~~~ loadAt key (4 * i)) := fun i hi => by rw [← hkws]; exact keyWords_get nk key i hi
  let vs : List LVal := [(mkPtr bo (baseo + oo), .pub), (mkPtr bl (basel + ol), .pub), (mkPtr bm (basem + moff), .pub), (msg.length, .pub),
    (mkPtr ba (basea + aoff), .pub), (ad.length, .pub), (mkPtr bn (basen + noff), .pub), (mkPtr bk (basek + koff), .pub)]
  refine runs_call_none fd vs hprog (by simp only [evalArgs, hec, hel, hem, heml, hea, heal, hen, hek]; rfl) (by rw [hp]; rfl) ?_
  have hent : enterFun fd vs st.mem = (setVar (vs ++ List.replicate (11 + 5 * nk + 47 - 8) (0, Lab.undef)).toArray 8 (mkPtr st.mem.size 0, .pub),
      st.mem.push { bytes := Array.replicate (16 + 4 * nk) (0, .undef), base := 0 }) := by
    simp only [enterFun, ha, allocLocals, hp, hv]
  rw [hbody, hent]
  obtain ⟨hE0s, hE0v, hE08⟩ := enter_env vs (11 + 5 * nk + 47 - 8) (mkPtr st.mem.size 0, .pub) rfl (by omega)
  generalize hE0 : setVar (vs ++ List.replicate (11 + 5 * nk + 47 - 8) (0, Lab.undef)).toArray 8 (mkPtr st.mem.size 0, .pub) = E0 at hE0s hE0v hE08
  have e0_0 : E0[0]? = some (mkPtr bo (baseo + oo), .pub) := hE0v 0 _ rfl
  have e0_1 : E0[1]? = some (mkPtr bl (basel + ol), .pub) := hE0v 1 _ rfl
  have e0_2 : E0[2]? = some (mkPtr bm (basem + moff), .pub) := hE0v 2 _ rfl
  have e0_3 : E0[3]? = some (msg.length, .pub) := hE0v 3 _ rfl
  have e0_4 : E0[4]? = some (mkPtr ba (basea + aoff), .pub) := hE0v 4 _ rfl
  have e0_5 : E0[5]? = some (ad.length, .pub) := hE0v 5 _ rfl
  have e0_6 : E0[6]? = some (mkPtr bn (basen + noff), .pub) := hE0v 6 _ rfl
  have e0_7 : E0[7]? = some (mkPtr bk (basek + koff), .pub) := hE0v 7 _ rfl
  have hE0sz : E0.size = 11 + 5 * nk + 47 := by rw [hE0s]; omega
  -- *clen = mlen + 8
  have hpushlt : ∀ j, j < st.mem.size → (st.mem.push { bytes := Array.replicate (16 + 4 * nk) (0, .undef), base := 0 })[j]? = st.mem[j]? := by
    intro j hj; rw [Array.getElem?_push]; simp only [show ¬ j = st.mem.size from by omega, if_false]
  unfold encStmt
  rw [seqs_cons_ne _ _ (by simp)]
  generalize hE1 : setVar E0 10 (mkPtr bl (basel + ol), Lab.pub) = E1
  generalize hM0 : setBlock (st.mem.push { bytes := Array.replicate (16 + 4 * nk) (0, .undef), base := 0 }) bl (writeLE XL ol (msg.length + 8) .pub 8) = M0
  refine runs_seq (Q := fun e s => e = E1 ∧ s.mem = M0 ∧ s.ent = st.ent) (clen_store bl basel ol XL msg.length e0_1 e0_3 (by rw [hpushlt bl hblN]; exact hL) hinL halL hltL hmlen
    (by omega) ⟨rfl, hE1, hM0, rfl⟩) ?_
  intro e1 st1 ⟨he1, hst1m, hst1e⟩
  rw [he1]
  have hM0lt : ∀ j, j ≠ bl → j < st.mem.size → M0[j]? = st.mem[j]? := by
    intro j hj hjn; rw [← hM0, getElem?_setBlock', if_neg hj]; exact hpushlt j hjn
  have hM0n : M0[st.mem.size]? = some ⟨Array.replicate (16 + 4 * nk) (0, .undef), 0⟩ := by
    rw [← hM0, getElem?_setBlock', if_neg (by omega), Array.getElem?_push]; simp
  have hM0sz : M0.size = st.mem.size + 1 := by rw [← hM0, size_setBlock', Array.size_push]
  have e1fr : ∀ y, y ≠ 10 → E1[y]? = E0[y]? := fun y hy => by rw [← hE1]; exact get_set_ne _ _ _ _ (fun e => hy e.symm)
  have hE1sz : E1.size = 11 + 5 * nk + 47 := by rw [← hE1, size_setVar]; exact hE0sz
  let g : AGeo := ⟨prog, pidx, nk, P, ep.hspec, st.mem.size, 0, st.ent, rfl, by simp only [ptrBase]; omega, by omega⟩
  have ki0 : KI g M0 (11 + 5 * nk + 47) kws E1 11 0 E1 st1 :=
    ⟨hE1sz, fun _ _ => rfl, ⟨_, by rw [hst1m]; exact hM0n, by show (Array.replicate (16 + 4 * nk) ((0 : UInt8), Lab.undef)).size = 16 + 4 * nk; simp, fun i v hi _ => absurd hi (by omega)⟩, by rw [hst1m]; exact OthLe.refl _ _, by rw [hst1m], hst1e⟩
  let dgK : DGeo g M0 := ⟨bk, basek, XK, by show bk ≠ st.mem.size; omega, by omega, bK.hlt, by rw [hM0lt bk (fun e => hsep.2.2.2.2 e.symm) hbkN]; exact bK.hm⟩
  let dgN : DGeo g M0 := ⟨bn, basen, XN, by show bn ≠ st.mem.size; omega, by omega, bN.hlt, by rw [hM0lt bn (fun e => hsep.2.2.2.1 e.symm) hbnN]; exact bN.hm⟩
  let dgA : DGeo g M0 := ⟨ba, basea, XA, by show ba ≠ st.mem.size; omega, by omega, bA.hlt, by rw [hM0lt ba (fun e => hsep.2.2.1 e.symm) hbaN]; exact bA.hm⟩
  refine key_words (g := g) dgK koff key bK.hd hkl hk (sv := 8) (t0 := 11) (by decide) (by decide) (by rw [e1fr 8 (by decide)]; exact hE08) (by rw [e1fr 7 (by decide)]; exact e0_7) (by show 11 + 5 * nk ≤ _; omega) _ (by simp)
    nk 0 (by show 0 + nk = nk; omega) E1 st1 ki0 ?_
  intro e2 st2 ki
  have hE2sz := ki.esz
  have e2fr : ∀ y, y < 10 → e2[y]? = E0[y]? := fun y hy => by rw [ki.fr y (by omega), e1fr y (by omega)]
  have e2_8 : e2[8]? = some (mkPtr st.mem.size 0, .pub) := by rw [e2fr 8 (by decide)]; exact hE08
  have mk : MK g M0 st2 kws := by
    obtain ⟨X, h1, h2, h3⟩ := ki.obj
    refine ⟨hklen, ⟨X, h1, h2, fun i v hv => h3 i v ?_ hv⟩, ki.oth, ki.msz, ki.ent⟩
    by_cases hi : i < nk
    · exact hi
    · rw [List.getElem?_eq_none (by omega)] at hv; cases hv
  simp only [seqs]
  have hes8 : evalE e2 (.var 8) = .ok (mkPtr g.bs g.baseS, .pub) := by
    show _ = Except.ok (mkPtr st.mem.size 0, Lab.pub); simp only [evalE, e2_8, reduceCtorEq, if_false]
  -- setup and associated data
  refine runs_seq (Q := fun e s => e = e2 ∧ MI g M0 s (setup (P kws) pk nonce 0x10) kws) ?_ ?_
  · refine (setup_call g dgN pk hpk sidx fdS hS1 hS2 hS3 hS4 hS5 e2 st2 (.var 8) (.var 6) (.cast .u8 .i32 (.lit 16)) kws noff nonce 0x10 mk
      hes8 (by show _ = Except.ok (mkPtr bn (basen + noff), Lab.pub); simp only [evalE, e2fr 6 (by decide), e0_6, reduceCtorEq, if_false]) rfl bN.hd hnl).weaken ?_
    intro sig e s ⟨h1, h2, h3⟩
    exact ⟨h1, h2, h3⟩
  intro e3 st3 ⟨he3, mi3⟩
  rw [he3]
  refine runs_seq (Q := fun e s => e = e2 ∧ MI g M0 s (absorbData (P kws) 0x30 5 (setup (P kws) pk nonce 0x10) ad) kws) ?_ ?_
  · refine (absorb_call g dgA aidx fdA hA1 hA2 hA3 hA4 hA5 e2 st3 (.var 8) (.var 4) (.var 5) (.cast .u8 .i32 (.lit 48)) (.cast .u32 .i32 (.lit 5)) _ kws aoff ad 0x30 5 mi3
      hes8 (by show _ = Except.ok (mkPtr ba (basea + aoff), Lab.pub); simp only [evalE, e2fr 4 (by decide), e0_4, reduceCtorEq, if_false])
      (by simp only [evalE, e2fr 5 (by decide), e0_5, reduceCtorEq, if_false]) rfl rfl bA.hd (by decide)).weaken ?_
    intro sig e s ⟨h1, h2, h3⟩
    exact ⟨h1, h2, h3⟩
  intro e4 st4 ⟨he4, mi4⟩
  rw [he4]
  -- the message
  let eg : EGeo g := ⟨bo, baseo, oo, XO.size, bm, basem, moff, XM.size, by show bo ≠ st.mem.size; omega, by show bm ≠ st.mem.size; omega, by omega, by omega, hltO, bM.hlt, hdisj, XO, M0⟩
  have hM0o : M0[bo]? = some ⟨XO, baseo⟩ := by rw [hM0lt bo (fun e => hsep.1 e.symm) hboN]; exact hO
  have hM0m : M0[bm]? = some ⟨XM, basem⟩ := by rw [hM0lt bm (fun e => hsep.2.1 e.symm) hbmN]; exact bM.hm
  generalize hs0 : absorbData (P kws) 0x30 5 (setup (P kws) pk nonce 0x10) ad = s0 at mi4
  have ei0 : EI g eg M0 (11 + 5 * nk + 47) e2 st4 s0 kws [] msg :=
    ⟨⟨hE2sz, e2_8, mi4.klen, mi4.obj, mi4.oth, mi4.msz, mi4.ent⟩, by rw [e2fr 0 (by decide)]; exact e0_0, by rw [e2fr 2 (by decide)]; exact e0_2,
     by rw [e2fr 3 (by decide)]; exact e0_3, ⟨XM, hM0m, rfl, by simpa using bM.hd⟩, ⟨XO, hM0o, rfl, ⟨by show oo + 0 ≤ XO.size; omega, fun k b hk => by simp at hk⟩, fun _ _ => rfl⟩,
     fun _ _ => rfl, by show oo + 0 + msg.length + 8 ≤ XO.size; omega⟩
  refine runs_seq (Q := fun e s => ∃ M1, EI g eg M1 (11 + 5 * nk + 47) e s (encWordsS (P kws) pk s0 msg) kws ([] ++ encWordsC (P kws) pk s0 msg) (absRest msg))
    (enc_loop eg (by omega) pk hpk msg M0 e2 st4 s0 [] ei0) ?_
  intro e5 st5 ⟨M1, ei5⟩
  rw [List.nil_append] at ei5
  refine runs_seq (Q := fun e s => ∃ M2, EF g eg M2 (11 + 5 * nk + 47) e s (encBody (P kws) pk (encWordsS (P kws) pk s0 msg) (absRest msg)).1 kws
      (encWordsC (P kws) pk s0 msg) (encBody (P kws) pk (encWordsS (P kws) pk s0 msg) (absRest msg)).2) (enc_tail eg (by omega) pk hpk ei5 (absRest_lt msg)) ?_
  intro e6 st6 ⟨M2, ef⟩
  -- the tag
  have hsplit := encBody_split (P kws) pk s0 msg
  generalize hsF : (encBody (P kws) pk (encWordsS (P kws) pk s0 msg) (absRest msg)).1 = sF at ef hsplit
  generalize hct : encWordsC (P kws) pk s0 msg = ct at ef hsplit
  generalize htb : (encBody (P kws) pk (encWordsS (P kws) pk s0 msg) (absRest msg)).2 = tb at ef hsplit
  obtain ⟨XO2, hM2o, hXO2s, hdo2, hout2⟩ := ef.ho
  have room2 : oo + (ct ++ tb).length + 8 ≤ XO.size := ef.room
  have hlen : (ct ++ tb).length = msg.length := by
    have h1 : (encBody (P kws) pk s0 msg).2.length = msg.length := encBody_length _ _ _ _
    rw [hsplit] at h1; exact h1
  have hptr : (mkPtr bo (baseo + (oo + ct.length)) + tb.length) % 18446744073709551616 = mkPtr bo (baseo + (oo + (ct ++ tb).length)) := by
    rw [ptr_off bo _ tb.length (by omega) (by rw [List.length_append] at room2; show baseo + (oo + ct.length) + tb.length < ptrBase; omega), List.length_append]
    congr 1; omega
  have h60 : e6[0]? = some (mkPtr bo (baseo + (oo + ct.length)), .pub) := ef.e0
  have h63 : e6[3]? = some (tb.length, .pub) := ef.e3
  have h68 : e6[8]? = some (mkPtr st.mem.size 0, .pub) := ef.ai.e0
  refine (gentag_call g pk hpk gidx fdG hG1 hG2 hG3 hG4 hG5 e6 st6 (.var 8) (.bin .add .u64 (.var 0) (.var 3)) sF kws bo baseo (oo + (ct ++ tb).length) XO2
    (by show bo ≠ st.mem.size; omega) (by omega) hM2o (by rw [hXO2s]; exact hltO) (by rw [hXO2s]; exact room2) ⟨ef.ai.klen, ef.ai.obj, ef.ai.oth, ef.ai.msz, ef.ai.ent⟩
    (by show _ = Except.ok (mkPtr st.mem.size 0, Lab.pub); simp only [evalE, h68, reduceCtorEq, if_false]) (by
      simp only [evalE, h60, h63, reduceCtorEq, if_false, BinOp.needsPub2, BinOp.needsPub1, Bool.false_and, Bool.or_self, Bool.false_eq_true, binVal, Ty.modulus,
        Lab.join_pub_pub, hptr])).weaken ?_
  intro sig e7 st7 ⟨_, _, XO3, mi7, hXO3s, htag, hout3⟩
  -- back in the caller
  have hoth2 : ∀ j, j ≠ bo → M2[j]? = M0[j]? := ef.oth0
  have hM2sz : M2.size = st.mem.size + 1 := by
    have h1 := hoth2 st.mem.size (by omega)
    have h2 := hoth2 (st.mem.size + 1) (by omega)
    rw [hM0n] at h1
    rw [Array.getElem?_eq_none (show M0.size ≤ st.mem.size + 1 by omega)] at h2
    have a : st.mem.size < M2.size := by
      by_cases h : st.mem.size < M2.size
      · exact h
      · rw [Array.getElem?_eq_none (by omega)] at h1; cases h1
    have b : M2.size ≤ st.mem.size + 1 := by
      by_cases h : M2.size ≤ st.mem.size + 1
      · exact h
      · rw [Array.getElem?_eq_getElem (show st.mem.size + 1 < M2.size by omega)] at h2; cases h2
    omega
  have hmsz7 : st7.mem.size = st.mem.size + 1 := by rw [mi7.msz, size_setBlock']; exact hM2sz
  have hlk : ∀ j, j < st.mem.size → (st7.mem.extract 0 st.mem.size)[j]? = st7.mem[j]? := by
    intro j hj
    rw [Array.getElem?_extract, hmsz7]
    have : j < min st.mem.size (st.mem.size + 1) - 0 := by omega
    simp only [this, if_true, Nat.zero_add]
  have hexs : (st7.mem.extract 0 st.mem.size).size = st.mem.size := by rw [Array.size_extract, hmsz7]; omega
  have hoth7 : ∀ j, j ≠ st.mem.size → ORel BlockLe st7.mem[j]? (setBlock M2 bo XO3)[j]? := mi7.oth
  have hfin : BytesV XO3 oo (aeadEncryptWith (P kws) pk nonce ad msg) := by
    have e : aeadEncryptWith (P kws) pk nonce ad msg = (ct ++ tb) ++ genTag (P kws) pk sF := by
      unfold aeadEncryptWith
      simp only []
      rw [hs0, hsplit]
    rw [e]
    exact bytesV_snoc hdo2 hXO3s (by rw [hXO2s]; have := htag.1; rw [hXO3s, hXO2s] at this; omega) (fun p hp => hout3 p (Or.inl hp)) (fun k c hk => htag.2 k c hk)
  have hout2' : ∀ p, p < oo ∨ oo + (ct ++ tb).length ≤ p → XO2[p]? = XO[p]? := hout2
  refine ⟨trivial, trivial, mi7.ent, hexs, ?_, ?_, fun j hjo hjl => ?_⟩
  · have h := hoth7 bo (by omega)
    rw [getElem?_setBlock', if_pos rfl, hM2o] at h
    cases hb : st7.mem[bo]? with
    | none => rw [hb] at h; exact h.elim
    | some blk =>
      rw [hb] at h
      have hbase : blk.base = baseo := h.1
      have hle : BytesLe blk.bytes XO3 := h.2
      refine ⟨blk, by show (st7.mem.extract 0 st.mem.size)[bo]? = _; rw [hlk bo hboN]; exact hb, hbase, by rw [hle.size_eq, hXO3s, hXO2s], ?_, fun q hq => ?_⟩
      · exact ⟨by rw [hle.size_eq]; exact hfin.1, fun k b hk => (hfin.2 k b hk).lower hle⟩
      · have := hle q
        rw [hout3 q (by omega), hout2' q (by omega)] at this
        exact this
  · have h := hoth7 bl (by omega)
    rw [getElem?_setBlock', if_neg hsep.1, hoth2 bl hsep.1] at h
    have e : M0[bl]? = some ⟨writeLE XL ol (msg.length + 8) .pub 8, basel⟩ := by
      rw [← hM0, getElem?_setBlock', if_pos rfl, hpushlt bl hblN, hL]; rfl
    rw [e] at h
    show ORel BlockLe (st7.mem.extract 0 st.mem.size)[bl]? _
    rw [hlk bl hblN]; exact h
  · show ORel BlockLe (st7.mem.extract 0 st.mem.size)[j]? st.mem[j]?
    by_cases hjn : j < st.mem.size
    · have h := hoth7 j (by omega)
      rw [getElem?_setBlock', if_neg hjo, hoth2 j hjo, hM0lt j hjl hjn] at h
      rw [hlk j hjn]; exact h
    · rw [Array.getElem?_eq_none (by rw [hexs]; omega), Array.getElem?_eq_none (by omega)]
      trivial

end TJ.MiniC.Hoare
