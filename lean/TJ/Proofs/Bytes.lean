/-
  TJ.Proofs.Bytes — byte/word identities behind the le_load/le_store macros and the
  1/2/3-byte tails.  These are closed by `bv_decide` (each use adds one
  `._native.bv_decide.ax_*` axiom: the SAT certificate is checked by compiled code);
  everything else in the hand proofs uses the three standard axioms only.
-/
import TJ.Impl.Aead
import Std.Tactic.BVDecide
namespace TJ

theorem load32_bytes (w : UInt32) :
    load32 w.toUInt8 (w >>> 8).toUInt8 (w >>> 16).toUInt8 (w >>> 24).toUInt8 = w := by
  unfold load32; bv_decide

theorem load32_b0 (b0 b1 b2 b3 : UInt8) : (load32 b0 b1 b2 b3).toUInt8 = b0 := by unfold load32; bv_decide
theorem load32_b1 (b0 b1 b2 b3 : UInt8) : (load32 b0 b1 b2 b3 >>> 8).toUInt8 = b1 := by unfold load32; bv_decide
theorem load32_b2 (b0 b1 b2 b3 : UInt8) : (load32 b0 b1 b2 b3 >>> 16).toUInt8 = b2 := by unfold load32; bv_decide
theorem load32_b3 (b0 b1 b2 b3 : UInt8) : (load32 b0 b1 b2 b3 >>> 24).toUInt8 = b3 := by unfold load32; bv_decide

theorem store32_load32 (b0 b1 b2 b3 : UInt8) : store32 (load32 b0 b1 b2 b3) = [b0, b1, b2, b3] := by
  simp only [store32, load32_b0, load32_b1, load32_b2, load32_b3]

theorem xor_xor_cancel (a k : UInt32) : a ^^^ k ^^^ k = a := by bv_decide

/-- 1-byte tail: what decrypt recovers from the byte encrypt produced -/
theorem tail1_dec (k : UInt32) (b0 : UInt8) :
    ((k ^^^ b0.toUInt32).toUInt8.toUInt32 ^^^ k) &&& 0xFF = b0.toUInt32 := by bv_decide
theorem tail1_byte (b0 : UInt8) : b0.toUInt32.toUInt8 = b0 := by bv_decide

theorem tail2_dec (k : UInt32) (b0 b1 : UInt8) :
    (load16 (load16 b0 b1 ^^^ k).toUInt8 ((load16 b0 b1 ^^^ k) >>> 8).toUInt8 ^^^ k) &&& 0xFFFF = load16 b0 b1 := by
  unfold load16; bv_decide
theorem load16_b0 (b0 b1 : UInt8) : (load16 b0 b1).toUInt8 = b0 := by unfold load16; bv_decide
theorem load16_b1 (b0 b1 : UInt8) : (load16 b0 b1 >>> 8).toUInt8 = b1 := by unfold load16; bv_decide

theorem tail3_dec (k : UInt32) (b0 b1 b2 : UInt8) :
    (load24 (load24 b0 b1 b2 ^^^ k).toUInt8 ((load24 b0 b1 b2 ^^^ k) >>> 8).toUInt8
        ((load24 b0 b1 b2 ^^^ k) >>> 16).toUInt8 ^^^ k) &&& 0xFFFFFF = load24 b0 b1 b2 := by
  unfold load24 load16; bv_decide
theorem load24_b0 (b0 b1 b2 : UInt8) : (load24 b0 b1 b2).toUInt8 = b0 := by unfold load24 load16; bv_decide
theorem load24_b1 (b0 b1 b2 : UInt8) : (load24 b0 b1 b2 >>> 8).toUInt8 = b1 := by unfold load24 load16; bv_decide
theorem load24_b2 (b0 b1 b2 : UInt8) : (load24 b0 b1 b2 >>> 16).toUInt8 = b2 := by unfold load24 load16; bv_decide

/-- the converse direction (decrypt then encrypt), used for "accept iff tag" -/
theorem tail1_enc (k : UInt32) (c0 : UInt8) :
    (k ^^^ (((c0.toUInt32 ^^^ k) &&& 0xFF).toUInt8).toUInt32).toUInt8 = c0 := by bv_decide
theorem tail1_idem (k : UInt32) (c0 : UInt8) :
    (((c0.toUInt32 ^^^ k) &&& 0xFF).toUInt8).toUInt32 = (c0.toUInt32 ^^^ k) &&& 0xFF := by bv_decide

end TJ

namespace TJ
theorem load16_idem (x : UInt32) :
    load16 (x &&& 0xFFFF).toUInt8 ((x &&& 0xFFFF) >>> 8).toUInt8 = x &&& 0xFFFF := by unfold load16; bv_decide
theorem tail2_enc0 (k : UInt32) (c0 c1 : UInt8) :
    (((load16 c0 c1 ^^^ k) &&& 0xFFFF) ^^^ k).toUInt8 = c0 := by unfold load16; bv_decide
theorem tail2_enc1 (k : UInt32) (c0 c1 : UInt8) :
    ((((load16 c0 c1 ^^^ k) &&& 0xFFFF) ^^^ k) >>> 8).toUInt8 = c1 := by unfold load16; bv_decide
theorem load24_idem (x : UInt32) :
    load24 (x &&& 0xFFFFFF).toUInt8 ((x &&& 0xFFFFFF) >>> 8).toUInt8 ((x &&& 0xFFFFFF) >>> 16).toUInt8 = x &&& 0xFFFFFF := by
  unfold load24 load16; bv_decide
theorem tail3_enc0 (k : UInt32) (c0 c1 c2 : UInt8) :
    (((load24 c0 c1 c2 ^^^ k) &&& 0xFFFFFF) ^^^ k).toUInt8 = c0 := by unfold load24 load16; bv_decide
theorem tail3_enc1 (k : UInt32) (c0 c1 c2 : UInt8) :
    ((((load24 c0 c1 c2 ^^^ k) &&& 0xFFFFFF) ^^^ k) >>> 8).toUInt8 = c1 := by unfold load24 load16; bv_decide
theorem tail3_enc2 (k : UInt32) (c0 c1 c2 : UInt8) :
    ((((load24 c0 c1 c2 ^^^ k) &&& 0xFFFFFF) ^^^ k) >>> 16).toUInt8 = c2 := by unfold load24 load16; bv_decide
theorem tail1_enc' (k : UInt32) (c0 : UInt8) :
    (k ^^^ ((c0.toUInt32 ^^^ k) &&& 0xFF)).toUInt8 = c0 := by bv_decide
end TJ

namespace TJ
theorem siv1 (k : UInt32) (b0 : UInt8) : (k ^^^ (k ^^^ b0.toUInt32).toUInt8.toUInt32).toUInt8 = b0 := by bv_decide
theorem siv2_0 (k : UInt32) (b0 b1 : UInt8) :
    (load16 (load16 b0 b1 ^^^ k).toUInt8 ((load16 b0 b1 ^^^ k) >>> 8).toUInt8 ^^^ k).toUInt8 = b0 := by unfold load16; bv_decide
theorem siv2_1 (k : UInt32) (b0 b1 : UInt8) :
    ((load16 (load16 b0 b1 ^^^ k).toUInt8 ((load16 b0 b1 ^^^ k) >>> 8).toUInt8 ^^^ k) >>> 8).toUInt8 = b1 := by unfold load16; bv_decide
theorem siv3_0 (k : UInt32) (b0 b1 b2 : UInt8) :
    (load24 (load24 b0 b1 b2 ^^^ k).toUInt8 ((load24 b0 b1 b2 ^^^ k) >>> 8).toUInt8 ((load24 b0 b1 b2 ^^^ k) >>> 16).toUInt8 ^^^ k).toUInt8 = b0 := by
  unfold load24 load16; bv_decide
theorem siv3_1 (k : UInt32) (b0 b1 b2 : UInt8) :
    ((load24 (load24 b0 b1 b2 ^^^ k).toUInt8 ((load24 b0 b1 b2 ^^^ k) >>> 8).toUInt8 ((load24 b0 b1 b2 ^^^ k) >>> 16).toUInt8 ^^^ k) >>> 8).toUInt8 = b1 := by
  unfold load24 load16; bv_decide
theorem siv3_2 (k : UInt32) (b0 b1 b2 : UInt8) :
    ((load24 (load24 b0 b1 b2 ^^^ k).toUInt8 ((load24 b0 b1 b2 ^^^ k) >>> 8).toUInt8 ((load24 b0 b1 b2 ^^^ k) >>> 16).toUInt8 ^^^ k) >>> 16).toUInt8 = b2 := by
  unfold load24 load16; bv_decide
end TJ
