/-
  TJ.Proofs.HkdfExpand — the block loop of `tinyjambu_hkdf_expand` on the regenerated term: invariant, one iteration (MAC into the `out`
  field, `++counter`, copy of `min(32, outlen)` bytes, `posn`), the exhausted-counter exit, and the loop by induction on the remaining length.
-/
import TJ.Proofs.HkdfBlock
import TJ.Proofs.PrngGenOut
namespace TJ.MiniC.Hoare
open TJ TJ.MiniC TJ.MiniC.PermC TJ.Gen.MiniC

/-- where `tinyjambu_hkdf_expand` works: the state block, the output buffer, the (optional) info buffer and the local HMAC state `L` -/
structure XGeo where
  L : Nat
  bK : Nat
  baseK : Nat
  ksz : Nat
  bo : Nat
  baseo : Nat
  oo : Nat
  XO0 : Array LByte
  n0 : Nat
  info : Bytes
  pinfo : Nat
  bi : Nat
  basei : Nat
  ioff : Nat
  isz : Nat
  ent0 : List Delivery
  hbK : bK < L
  hbo : bo < L
  hKo : bK ≠ bo
  hksz : 66 ≤ ksz
  hltK : baseK + ksz < ptrBase
  hltO : baseo + XO0.size < ptrBase
  hin : oo + n0 ≤ XO0.size
  hsz : L + 6 < 2 ^ 30
  hI : info = [] ∨ (pinfo = mkPtr bi (basei + ioff) ∧ bi < L ∧ bi ≠ bK ∧ bi ≠ bo ∧ basei + isz < ptrBase)

/-- the state of `tinyjambu_hkdf_expand` at the head of its block loop: `acc` written so far, `rem` bytes to go -/
structure XEI (G : XGeo) (mem0 : Array Block) (k : KState) (od : Prop) (acc : Bytes) (rem : Nat) (e : Env) (s : St) : Prop where
  esz : e.size = 21
  e1 : e[1]? = some (G.pinfo, .pub)
  e2 : e[2]? = some (G.info.length, .pub)
  e3 : e[3]? = some (mkPtr G.bo (G.baseo + (G.oo + acc.length)), .pub)
  e4 : e[4]? = some (rem, .pub)
  e5 : e[5]? = some (mkPtr G.bK G.baseK, .pub)
  e6 : e[6]? = some (mkPtr G.L 0, .pub)
  obj : ∃ X, s.mem[G.bK]? = some ⟨X, G.baseK⟩ ∧ X.size = G.ksz ∧ KObjV X k od
  hod : (k.counter ≠ 1 ∨ k.posn.toNat < 32) → od
  p32 : k.posn.toNat ≤ 32
  out : ∃ XO, s.mem[G.bo]? = some ⟨XO, G.baseo⟩ ∧ XO.size = G.XO0.size ∧ BytesV XO G.oo acc ∧ ∀ q : Nat, (q < G.oo ∨ G.oo + G.n0 ≤ q) → ORel VEq XO[q]? G.XO0[q]?
  loc : ∃ Lb, s.mem[G.L]? = some ⟨Lb, 0⟩ ∧ Lb.size = 56
  inf : G.info = [] ∨ ∃ XI, s.mem[G.bi]? = some ⟨XI, G.basei⟩ ∧ XI.size = G.isz ∧ BytesV XI G.ioff G.info
  oth : ∀ j, j ≠ G.bK → j ≠ G.bo → j ≠ G.L → ORel BlockEqV s.mem[j]? mem0[j]?
  msz : s.mem.size = G.L + 1
  ent : s.ent = G.ent0
  tot : acc.length + rem = G.n0

/-- what follows the MAC in one iteration -/
def expandRest : Stmt :=
  .seq (.seq (.assign 16 (.bin .add .u64 (.var 5) (.lit 64))) (.seq (.load 17 .u8 (.var 16)) (.seq (.store .u8 (.var 16) (.bin .add .u8 (.var 17) (.lit 1))) (.load 18 .u8 (.var 16)))))
    (.seq (.assign 7 (.cast .u64 .i32 (.lit 32)))
      (.seq (.ite (.bin .gt .u64 (.var 7) (.var 4)) (.assign 7 (.var 4)) .skip)
        (.seq (.seq (.memcpy (.var 3) (.bin .add .u64 (.var 5) (.lit 32)) (.var 7)) (.assign 19 (.var 3)))
          (.seq (.seq (.assign 20 (.bin .add .u64 (.var 5) (.lit 65))) (.store .u8 (.var 20) (.cast .u8 .u64 (.var 7))))
            (.seq (.assign 3 (.bin .add .u64 (.var 3) (.var 7))) (.assign 4 (.bin .sub .u64 (.var 4) (.var 7))))))))

theorem u8_succ (c : UInt8) : ((c.toNat + 1) % 256 % 256).toUInt8 = c + 1 := by
  apply UInt8.toNat_inj.mp
  simp [Nat.toUInt8, UInt8.toNat_add]

theorem bytesV_set_out {X : Array LByte} {off : Nat} {d : Bytes} (hd : BytesV X off d) (q : Nat) (hq : q < off ∨ off + d.length ≤ q) (x : LByte) :
    BytesV (X.setIfInBounds q x) off d := by
  refine ⟨by rw [Array.size_setIfInBounds]; exact hd.1, fun i b hi => ?_⟩
  have hil : i < d.length := by
    by_cases hh : i < d.length
    · exact hh
    · rw [List.getElem?_eq_none (by omega)] at hi; cases hi
  obtain ⟨l, hx, hl⟩ := hd.2 i b hi
  exact ⟨l, by rw [Array.getElem?_setIfInBounds, if_neg (by omega)]; exact hx, hl⟩

theorem KObjV.setCnt {X : Array LByte} {k : KState} {od : Prop} (o : KObjV X k od) (c : UInt8) : KObjV (X.setIfInBounds 64 (c, .pub)) { k with counter := c } od :=
  ⟨by rw [Array.size_setIfInBounds]; exact o.sz, bytesV_set_out o.prk 64 (Or.inr (by rw [o.prkl]; decide)) _, o.prkl, fun h => bytesV_set_out (o.out h) 64 (Or.inr (by rw [o.outl]; decide)) _, o.outl,
   by rw [Array.getElem?_setIfInBounds, if_pos rfl, if_pos (by have := o.sz; omega)], by rw [Array.getElem?_setIfInBounds, if_neg (by decide)]; exact o.posn⟩

theorem KObjV.setPosn {X : Array LByte} {k : KState} {od : Prop} (o : KObjV X k od) (c : UInt8) : KObjV (X.setIfInBounds 65 (c, .pub)) { k with posn := c } od :=
  ⟨by rw [Array.size_setIfInBounds]; exact o.sz, bytesV_set_out o.prk 65 (Or.inr (by rw [o.prkl]; decide)) _, o.prkl,
   fun h => bytesV_set_out (o.out h) 65 (Or.inr (by rw [o.outl]; decide)) _, o.outl,
   by rw [Array.getElem?_setIfInBounds, if_neg (by decide)]; exact o.cnt, by rw [Array.getElem?_setIfInBounds, if_pos rfl, if_pos (by have := o.sz; omega)]⟩

/-- the variables the loop body never assigns -/
def XFE (G : XGeo) (e : Env) : Prop :=
  e.size = 21 ∧ e[1]? = some (G.pinfo, .pub) ∧ e[2]? = some (G.info.length, .pub) ∧ e[5]? = some (mkPtr G.bK G.baseK, .pub) ∧ e[6]? = some (mkPtr G.L 0, .pub)

theorem XFE.set {G : XGeo} {e : Env} (f : XFE G e) (x : Nat) (v : LVal) (hx : x ≠ 1 ∧ x ≠ 2 ∧ x ≠ 5 ∧ x ≠ 6) : XFE G (setVar e x v) :=
  ⟨by rw [size_setVar]; exact f.1, by rw [get_set_ne _ _ _ _ hx.1]; exact f.2.1, by rw [get_set_ne _ _ _ _ hx.2.1]; exact f.2.2.1,
   by rw [get_set_ne _ _ _ _ hx.2.2.1]; exact f.2.2.2.1, by rw [get_set_ne _ _ _ _ hx.2.2.2]; exact f.2.2.2.2⟩

theorem XEI.fe {G : XGeo} {mem0 : Array Block} {k : KState} {od : Prop} {acc : Bytes} {rem : Nat} {e : Env} {s : St} (x : XEI G mem0 k od acc rem e s) : XFE G e :=
  ⟨x.esz, x.e1, x.e2, x.e5, x.e6⟩


theorem u8_min32 (rem : Nat) : ((min 32 rem).toUInt8).toNat ≤ 32 := by
  have h : min 32 rem < 256 := by omega
  simp only [Nat.toUInt8, UInt8.toNat_ofNat', Nat.mod_eq_of_lt h]; omega

theorem u8_small (n : Nat) (h : n < 256) : (n % 256 % 256).toUInt8 = n.toUInt8 := by
  rw [Nat.mod_mod, Nat.mod_eq_of_lt h]

/-- the second half of one iteration: `++counter`, `len = min(32, outlen)`, copy, `posn = len`, advance -/
theorem expand_rest (G : XGeo) (mem0 : Array Block) (k : KState) (acc : Bytes) (rem : Nat) (hrem : 0 < rem) {e : Env} {s : St}
    (xi : XEI G mem0 k True acc rem e s) :
    RunsTo prog expandRest e s (fun sig e' s' => sig = .normal ∧
      XEI G mem0 { k with counter := k.counter + 1, posn := (min 32 rem).toUInt8 } True (acc ++ k.out.take (min 32 rem)) (rem - min 32 rem) e' s') := by
  obtain ⟨X, hX, hXs, ho⟩ := xi.obj
  obtain ⟨XO, hXO, hXOs, hXOd, hXOo⟩ := xi.out
  have hbK := G.hbK; have hbo := G.hbo; have hGsz := G.hsz; have hksz := G.hksz; have hltK := G.hltK; have hltO := G.hltO; have hin := G.hin
  have htot := xi.tot
  have hltO' : G.baseo + G.XO0.size < 4294967296 := by have := G.hltO; rwa [ptrBase_eq] at this
  have hbK30 : G.bK < 2 ^ 30 := by omega
  have hbo30 : G.bo < 2 ^ 30 := by omega
  have hp32 : (mkPtr G.bK G.baseK + 32) % 18446744073709551616 = mkPtr G.bK (G.baseK + 32) := ptr_off G.bK G.baseK 32 hbK30 (by omega)
  have hp64 : (mkPtr G.bK G.baseK + 64) % 18446744073709551616 = mkPtr G.bK (G.baseK + 64) := ptr_off G.bK G.baseK 64 hbK30 (by omega)
  have hp65 : (mkPtr G.bK G.baseK + 65) % 18446744073709551616 = mkPtr G.bK (G.baseK + 65) := ptr_off G.bK G.baseK 65 hbK30 (by omega)
  have evk : ∀ (E : Env) (c p : Nat), E[5]? = some (mkPtr G.bK G.baseK, .pub) → (mkPtr G.bK G.baseK + c) % 18446744073709551616 = p →
      evalE E (.bin .add .u64 (.var 5) (.lit c)) = .ok (p, .pub) := fun E c p h hp => by
    simp only [evalE, h, reduceCtorEq, if_false, BinOp.needsPub2, BinOp.needsPub1, Bool.false_and, Bool.or_self, Bool.false_eq_true, binVal, Ty.modulus, Lab.join_pub_pub, hp]
  have fe := xi.fe
  have hlen32 : (k.out.take (min 32 rem)).length = min 32 rem := by rw [List.length_take, ho.outl]; omega
  unfold expandRest
  -- ++(pstate->counter)
  refine runs_seq (Q := fun e1 s1 => XFE G e1 ∧ e1[3]? = e[3]? ∧ e1[4]? = e[4]? ∧ s1.ent = s.ent ∧ s1.mem = setBlock s.mem G.bK (X.setIfInBounds 64 (k.counter + 1, .pub))) ?_ ?_
  · refine runs_seq (Q := fun e1 s1 => e1 = setVar e 16 (mkPtr G.bK (G.baseK + 64), .pub) ∧ s1 = s) (runs_assign _ (evk e 64 _ xi.e5 hp64) ⟨rfl, rfl, rfl⟩) ?_
    intro e1 s1 ⟨he1, hs1⟩; rw [hs1]
    have e1_16 : e1[16]? = some (mkPtr G.bK (G.baseK + 64), .pub) := by rw [he1]; exact get_set_eq _ _ _ (by rw [xi.esz]; decide)
    have fe1 : XFE G e1 := by rw [he1]; exact fe.set 16 _ (by decide)
    refine runs_seq (Q := fun e2 s2 => e2 = setVar e1 17 (k.counter.toNat, .pub) ∧ s2.mem = s.mem ∧ s2.ent = s.ent)
      (load_pub_byte 17 (.var 16) G.bK G.baseK 64 X k.counter (by simp only [evalE, e1_16, reduceCtorEq, if_false]) hX ho.cnt (by rw [hXs]; exact hltK) ⟨rfl, rfl, rfl, rfl⟩) ?_
    intro e2 s2 ⟨he2, hm2, hent2⟩
    have e2_16 : e2[16]? = some (mkPtr G.bK (G.baseK + 64), .pub) := by rw [he2, get_set_ne _ _ _ _ (by decide)]; exact e1_16
    have e2_17 : e2[17]? = some (k.counter.toNat, .pub) := by rw [he2]; exact get_set_eq _ _ _ (by rw [fe1.1]; decide)
    have fe2 : XFE G e2 := by rw [he2]; exact fe1.set 17 _ (by decide)
    have hX2 : s2.mem[G.bK]? = some ⟨X, G.baseK⟩ := by rw [hm2]; exact hX
    refine runs_seq (Q := fun e3 s3 => e3 = e2 ∧ s3.ent = s.ent ∧ s3.mem = setBlock s.mem G.bK (X.setIfInBounds 64 (k.counter + 1, .pub))) ?_ ?_
    · refine runs_store (mkPtr G.bK (G.baseK + 64)) ((k.counter.toNat + 1) % 256) G.bK 64 1 .pub rfl (by simp only [evalE, e2_16, reduceCtorEq, if_false])
        (by simp only [evalE, e2_17, reduceCtorEq, if_false, BinOp.needsPub2, BinOp.needsPub1, Bool.false_and, Bool.or_self, Bool.false_eq_true, binVal, Ty.modulus, Lab.join_pub_pub])
        (resolve_byte hX2 64 (by omega) (by omega)) ?_
      refine ⟨rfl, rfl, hent2, ?_⟩
      show setBlock s2.mem G.bK (writeLE (blockBytes s2.mem G.bK) 64 ((k.counter.toNat + 1) % 256) .pub 1) = _
      rw [blockBytes_of hX2, hm2]
      simp only [writeLE, u8_succ]
    intro e3 s3 ⟨he3, hent3, hm3⟩
    rw [he3]
    have hX3 : s3.mem[G.bK]? = some ⟨X.setIfInBounds 64 (k.counter + 1, .pub), G.baseK⟩ := by rw [hm3, getElem?_setBlock', if_pos rfl, hX]; rfl
    refine load_pub_byte 18 (.var 16) G.bK G.baseK 64 _ (k.counter + 1) (by simp only [evalE, e2_16, reduceCtorEq, if_false]) hX3
      (by rw [Array.getElem?_setIfInBounds, if_pos rfl, if_pos (by omega)]) (by rw [Array.size_setIfInBounds, hXs]; exact hltK) ?_
    exact ⟨rfl, fe2.set 18 _ (by decide), by rw [get_set_ne _ _ _ _ (by decide), he2, get_set_ne _ _ _ _ (by decide), he1, get_set_ne _ _ _ _ (by decide)],
      by rw [get_set_ne _ _ _ _ (by decide), he2, get_set_ne _ _ _ _ (by decide), he1, get_set_ne _ _ _ _ (by decide)], hent3, hm3⟩
  intro e1 s1 ⟨fe1, e1_3, e1_4, hent1, hm1⟩
  rw [xi.e3] at e1_3; rw [xi.e4] at e1_4
  have o1 := ho.setCnt (k.counter + 1)
  have hX1 : s1.mem[G.bK]? = some ⟨X.setIfInBounds 64 (k.counter + 1, .pub), G.baseK⟩ := by rw [hm1, getElem?_setBlock', if_pos rfl, hX]; rfl
  have hXO1 : s1.mem[G.bo]? = some ⟨XO, G.baseo⟩ := by rw [hm1, getElem?_setBlock', if_neg G.hKo.symm]; exact hXO
  -- len = min(32, outlen)
  refine runs_seq (Q := fun e2 s2 => XFE G e2 ∧ e2[3]? = e1[3]? ∧ e2[4]? = e1[4]? ∧ e2[7]? = some (32, .pub) ∧ s2 = s1)
    (runs_assign (32, .pub) (by simp only [evalE, castVal_u64_i32_lit 32 (by decide)])
      ⟨rfl, fe1.set 7 _ (by decide), get_set_ne _ _ _ _ (by decide), get_set_ne _ _ _ _ (by decide), get_set_eq _ _ _ (by rw [fe1.1]; decide), rfl⟩) ?_
  intro e2 s2 ⟨fe2, e2_3, e2_4, e2_7, hs2⟩
  rw [hs2]; rw [e1_3] at e2_3; rw [e1_4] at e2_4
  refine runs_seq (Q := fun e3 s3 => XFE G e3 ∧ e3[3]? = e2[3]? ∧ e3[4]? = e2[4]? ∧ e3[7]? = some (min 32 rem, .pub) ∧ s3.mem = s1.mem ∧ s3.ent = s1.ent) ?_ ?_
  · by_cases hgt : rem < 32
    · refine runs_ite_true 1 ?_ (by decide) (runs_assign (rem, .pub) (by simp only [evalE, e2_4, reduceCtorEq, if_false])
        ⟨rfl, fe2.set 7 _ (by decide), get_set_ne _ _ _ _ (by decide), get_set_ne _ _ _ _ (by decide),
          by rw [get_set_eq _ _ _ (by rw [fe2.1]; decide), show min 32 rem = rem from by omega], rfl, rfl⟩)
      simp only [evalE, e2_7, e2_4, reduceCtorEq, if_false, BinOp.needsPub2, BinOp.needsPub1, Bool.false_and, Bool.or_self, Bool.false_eq_true, binVal, Ty.signed, gt_iff_lt, hgt,
        decide_true, b2n, if_true, Lab.join_pub_pub]
    · refine runs_ite_false ?_ (runs_skip ⟨rfl, fe2, rfl, rfl, by rw [e2_7, show min 32 rem = 32 from by omega], rfl, rfl⟩)
      simp only [evalE, e2_7, e2_4, reduceCtorEq, if_false, BinOp.needsPub2, BinOp.needsPub1, Bool.false_and, Bool.or_self, Bool.false_eq_true, binVal, Ty.signed, gt_iff_lt, hgt,
        decide_false, b2n, Lab.join_pub_pub]
  intro e3 s3 ⟨fe3, e3_3, e3_4, e3_7, hm3, hent3⟩
  rw [e2_3] at e3_3; rw [e2_4] at e3_4
  have hX3 : s3.mem[G.bK]? = some ⟨X.setIfInBounds 64 (k.counter + 1, .pub), G.baseK⟩ := by rw [hm3]; exact hX1
  have hXO3 : s3.mem[G.bo]? = some ⟨XO, G.baseo⟩ := by rw [hm3]; exact hXO1
  -- memcpy(out, pstate->out, len)
  refine runs_seq (Q := fun e4 s4 => XFE G e4 ∧ e4[3]? = e3[3]? ∧ e4[4]? = e3[4]? ∧ e4[7]? = e3[7]? ∧ s4.ent = s.ent ∧ s4.mem.size = s.mem.size ∧
      (∀ j, j ≠ G.bo → s4.mem[j]? = s1.mem[j]?) ∧
      ∃ XO', s4.mem[G.bo]? = some ⟨XO', G.baseo⟩ ∧ XO'.size = XO.size ∧ BytesV XO' (G.oo + acc.length) (k.out.take (min 32 rem)) ∧
        (∀ p, (p < G.oo + acc.length ∨ G.oo + acc.length + (k.out.take (min 32 rem)).length ≤ p) → XO'[p]? = XO[p]?)) ?_ ?_
  · refine runs_seq (Q := fun e4 s4 => e4 = e3 ∧ s4.ent = s.ent ∧ s4.mem.size = s.mem.size ∧ (∀ j, j ≠ G.bo → s4.mem[j]? = s1.mem[j]?) ∧
        ∃ XO', s4.mem[G.bo]? = some ⟨XO', G.baseo⟩ ∧ XO'.size = XO.size ∧ BytesV XO' (G.oo + acc.length) (k.out.take (min 32 rem)) ∧
          (∀ p, (p < G.oo + acc.length ∨ G.oo + acc.length + (k.out.take (min 32 rem)).length ≤ p) → XO'[p]? = XO[p]?)) ?_ ?_
    · refine memcpy_blocks (.var 3) (.bin .add .u64 (.var 5) (.lit 32)) (.var 7) G.bo G.baseo (G.oo + acc.length) XO G.bK G.baseK 32 _ (k.out.take (min 32 rem)) hXO3 hX3
        (bytesV_take' (o1.out trivial) _) (by rw [hlen32, hXOs]; omega) (by rw [hXOs]; exact hltO) (by rw [Array.size_setIfInBounds, hXs]; exact hltK)
        (by simp only [evalE, e3_3, reduceCtorEq, if_false]) (evk e3 32 _ fe3.2.2.2.1 hp32) (by simp only [evalE, e3_7, reduceCtorEq, if_false, hlen32]) ?_
      intro s' h1 h2 h3 h4
      exact ⟨rfl, rfl, by rw [h1, hent3, hent1], by rw [h2, hm3, hm1, size_setBlock'], fun j hj => by rw [h3 j hj, hm3], h4⟩
    · intro e4 s4 ⟨he4, g⟩
      rw [he4]
      exact runs_assign (mkPtr G.bo (G.baseo + (G.oo + acc.length)), .pub) (by simp only [evalE, e3_3, reduceCtorEq, if_false]) ⟨rfl, fe3.set 19 _ (by decide), get_set_ne _ _ _ _ (by decide), get_set_ne _ _ _ _ (by decide),
        get_set_ne _ _ _ _ (by decide), g⟩
  intro e4 s4 ⟨fe4, e4_3, e4_4, e4_7, hent4, hsz4, hoth4, XO4, hXO4, hXO4s, hXO4d, hXO4o⟩
  rw [e3_3] at e4_3; rw [e3_4] at e4_4; rw [e3_7] at e4_7
  have hX4 : s4.mem[G.bK]? = some ⟨X.setIfInBounds 64 (k.counter + 1, .pub), G.baseK⟩ := by rw [hoth4 _ G.hKo]; exact hX1
  -- pstate->posn = len
  refine runs_seq (Q := fun e5 s5 => XFE G e5 ∧ e5[3]? = e4[3]? ∧ e5[4]? = e4[4]? ∧ e5[7]? = e4[7]? ∧ s5.ent = s.ent ∧
      s5.mem = setBlock s4.mem G.bK ((X.setIfInBounds 64 (k.counter + 1, .pub)).setIfInBounds 65 ((min 32 rem).toUInt8, .pub))) ?_ ?_
  · refine runs_seq (Q := fun e5 s5 => e5 = setVar e4 20 (mkPtr G.bK (G.baseK + 65), .pub) ∧ s5 = s4) (runs_assign _ (evk e4 65 _ fe4.2.2.2.1 hp65) ⟨rfl, rfl, rfl⟩) ?_
    intro e5 s5 ⟨he5, hs5⟩; rw [hs5]
    have e5_20 : e5[20]? = some (mkPtr G.bK (G.baseK + 65), .pub) := by rw [he5]; exact get_set_eq _ _ _ (by rw [fe4.1]; decide)
    have e5_7 : e5[7]? = some (min 32 rem, .pub) := by rw [he5, get_set_ne _ _ _ _ (by decide)]; exact e4_7
    refine runs_store (mkPtr G.bK (G.baseK + 65)) (min 32 rem % 256) G.bK 65 1 .pub rfl (by simp only [evalE, e5_20, reduceCtorEq, if_false])
      (by simp only [evalE, e5_7, reduceCtorEq, if_false, castVal, Ty.signed, Ty.modulus, Bool.false_eq_true]) (resolve_byte hX4 65 (by rw [Array.size_setIfInBounds]; omega) (by omega)) ?_
    refine ⟨rfl, by rw [he5]; exact fe4.set 20 _ (by decide), by rw [he5]; exact get_set_ne _ _ _ _ (by decide), by rw [he5]; exact get_set_ne _ _ _ _ (by decide),
      by rw [he5]; exact get_set_ne _ _ _ _ (by decide), hent4, ?_⟩
    show setBlock s4.mem G.bK (writeLE (blockBytes s4.mem G.bK) 65 (min 32 rem % 256) .pub 1) = _
    rw [blockBytes_of hX4]
    simp only [writeLE, u8_small (min 32 rem) (by omega)]
  intro e5 s5 ⟨fe5, e5_3, e5_4, e5_7, hent5, hm5⟩
  rw [e4_3] at e5_3; rw [e4_4] at e5_4; rw [e4_7] at e5_7
  -- out += len; outlen -= len
  have hptr : (mkPtr G.bo (G.baseo + (G.oo + acc.length)) + min 32 rem) % 18446744073709551616 = mkPtr G.bo (G.baseo + (G.oo + (acc ++ k.out.take (min 32 rem)).length)) := by
    rw [ptr_off G.bo _ (min 32 rem) hbo30 (by omega), List.length_append, hlen32]
    congr 1; omega
  refine runs_seq (Q := fun e6 s6 => XFE G e6 ∧ e6[3]? = some (mkPtr G.bo (G.baseo + (G.oo + (acc ++ k.out.take (min 32 rem)).length)), .pub) ∧ e6[4]? = some (rem, .pub) ∧
      e6[7]? = some (min 32 rem, .pub) ∧ s6 = s5)
    (runs_assign _ (by simp only [evalE, e5_3, e5_7, reduceCtorEq, if_false, BinOp.needsPub2, BinOp.needsPub1, Bool.false_and, Bool.or_self, Bool.false_eq_true, binVal, Ty.modulus,
      Lab.join_pub_pub, hptr]) ⟨rfl, fe5.set 3 _ (by decide), get_set_eq _ _ _ (by rw [fe5.1]; decide), by rw [get_set_ne _ _ _ _ (by decide)]; exact e5_4,
        by rw [get_set_ne _ _ _ _ (by decide)]; exact e5_7, rfl⟩) ?_
  intro e6 s6 ⟨fe6, e6_3, e6_4, e6_7, hs6⟩
  rw [hs6]
  refine runs_assign (rem - min 32 rem, .pub) (by simp only [evalE, e6_4, e6_7, reduceCtorEq, if_false, BinOp.needsPub2, BinOp.needsPub1, Bool.false_and, Bool.or_self, Bool.false_eq_true,
    binVal, Ty.modulus, Lab.join_pub_pub, sub64 rem (min 32 rem) (by omega) (by omega) (by omega)]) ?_
  have fe7 := fe6.set 4 (rem - min 32 rem, Lab.pub) (by decide)
  refine ⟨rfl, fe7.1, fe7.2.1, fe7.2.2.1, by rw [get_set_ne _ _ _ _ (by decide)]; exact e6_3, get_set_eq _ _ _ (by rw [fe6.1]; decide), fe7.2.2.2.1, fe7.2.2.2.2,
    ⟨_, by rw [hm5, getElem?_setBlock', if_pos rfl, hX4]; rfl, by rw [Array.size_setIfInBounds, Array.size_setIfInBounds]; exact hXs, (o1.setPosn _)⟩, fun _ => trivial, u8_min32 rem,
    ⟨XO4, by rw [hm5, getElem?_setBlock', if_neg G.hKo.symm]; exact hXO4, hXO4s.trans hXOs, ?_, fun q hq => ?_⟩, ?_, ?_, ?_, by rw [hm5, size_setBlock', hsz4]; exact xi.msz,
    hent5.trans xi.ent, by rw [List.length_append, hlen32]; omega⟩
  · exact bytesV_append_veq' hXOd hXO4d (fun q hq => by rw [hXO4o q (Or.inl hq)]; exact oveq_refl _)
  · rw [hXO4o q (by rw [hlen32]; omega)]; exact hXOo q hq
  · obtain ⟨Lb, hLb, hLbs⟩ := xi.loc
    exact ⟨Lb, by rw [hm5, getElem?_setBlock', if_neg (by omega), hoth4 _ (by omega), hm1, getElem?_setBlock', if_neg (by omega)]; exact hLb, hLbs⟩
  · rcases xi.inf with h | ⟨XI, hXI, hXIs, hXId⟩
    · exact Or.inl h
    · rcases G.hI with h | ⟨_, hiL, hiK, hio, _⟩
      · exact Or.inl h
      · exact Or.inr ⟨XI, by rw [hm5, getElem?_setBlock', if_neg hiK, hoth4 _ hio, hm1, getElem?_setBlock', if_neg hiK]; exact hXI, hXIs, hXId⟩
  · intro j hjK hjo hjL
    rw [hm5, getElem?_setBlock', if_neg hjK, hoth4 j hjo, hm1, getElem?_setBlock', if_neg hjK]
    exact xi.oth j hjK hjo hjL

theorem expandLoop_zero (k : KState) (info : Bytes) : KState.expandLoop k info 0 = (0, [], k) := by
  rw [KState.expandLoop]; simp

theorem expandLoop_exh (k : KState) (info : Bytes) (rem : Nat) (h : rem ≠ 0) (hc : k.counter = 0) : KState.expandLoop k info rem = (-1, zeros rem, k) := by
  rw [KState.expandLoop]; simp [h, hc]

/-- the model's state after one more block -/
def kNext (k : KState) (info : Bytes) (rem : Nat) : KState :=
  { k with out := hmac k.prk ((if k.counter ≠ 1 then k.out else []) ++ info ++ [k.counter]), counter := k.counter + 1, posn := (min 32 rem).toUInt8 }

theorem expandLoop_step (k : KState) (info : Bytes) (rem : Nat) (h : rem ≠ 0) (hc : k.counter ≠ 0) : KState.expandLoop k info rem =
    ((KState.expandLoop (kNext k info rem) info (rem - min 32 rem)).1,
     (hmac k.prk ((if k.counter ≠ 1 then k.out else []) ++ info ++ [k.counter])).take (min 32 rem) ++ (KState.expandLoop (kNext k info rem) info (rem - min 32 rem)).2.1,
     (KState.expandLoop (kNext k info rem) info (rem - min 32 rem)).2.2) := by
  rw [KState.expandLoop]; simp only [h, hc, if_false, kNext]

/-- what `tinyjambu_hkdf_expand` leaves behind (before its local HMAC state is released) -/
structure XF (G : XGeo) (mem0 : Array Block) (k : KState) (out : Bytes) (s : St) : Prop where
  obj : ∃ X od, s.mem[G.bK]? = some ⟨X, G.baseK⟩ ∧ X.size = G.ksz ∧ KObjV X k od ∧ ((k.counter ≠ 1 ∨ k.posn.toNat < 32) → od) ∧ k.posn.toNat ≤ 32
  buf : ∃ XO, s.mem[G.bo]? = some ⟨XO, G.baseo⟩ ∧ XO.size = G.XO0.size ∧ BytesV XO G.oo out ∧ ∀ q : Nat, (q < G.oo ∨ G.oo + G.n0 ≤ q) → ORel VEq XO[q]? G.XO0[q]?
  oth : ∀ j, j ≠ G.bK → j ≠ G.bo → j ≠ G.L → ORel BlockEqV s.mem[j]? mem0[j]?
  msz : s.mem.size = G.L + 1
  ent : s.ent = G.ent0
  len : out.length = G.n0

def expandLoopBody : Stmt :=
  .ite (.bin .gt .u64 (.var 4) (.cast .u64 .i32 (.lit 0)))
    (.seq (.seq (.load 13 .u8 (.bin .add .u64 (.var 5) (.lit 64)))
            (.ite (.bin .eq .i32 (.cast .i32 .u8 (.var 13)) (.lit 0))
              (.seq (.seq (.memset (.var 3) (.lit 0) (.var 4)) (.assign 14 (.var 3))) (.ret (some (.un .neg .i32 (.lit 1))))) .skip))
      (.seq (.call none 36 [.var 6, .var 5, .lit 32])
        (.seq (.seq (.load 15 .u8 (.bin .add .u64 (.var 5) (.lit 64)))
                (.ite (.bin .ne .i32 (.cast .i32 .u8 (.var 15)) (.lit 1)) (.call none 39 [.var 6, .bin .add .u64 (.var 5) (.lit 32), .lit 32]) .skip))
          (.seq (.call none 39 [.var 6, .var 1, .var 2])
            (.seq (.call none 39 [.var 6, .bin .add .u64 (.var 5) (.lit 64), .cast .u64 .i32 (.lit 1)])
              (.seq (.call none 34 [.var 6, .var 5, .lit 32, .bin .add .u64 (.var 5) (.lit 32)])
                (.seq (.call none 35 [.var 6]) expandRest)))))))
    .brk

/-- **the block loop of `tinyjambu_hkdf_expand`** computes the model's `expandLoop`: it ends normally (return value 0 follows) or returns -1 after
    zeroing the rest of the output when the block counter is exhausted -/
theorem expand_loop (G : XGeo) (mem0 : Array Block) : ∀ (rem : Nat) (k : KState) (od : Prop) (acc : Bytes) (e : Env) (s : St), XEI G mem0 k od acc rem e s →
    RunsTo prog (.loop expandLoopBody) e s (fun sig _ s' =>
      ((sig = .normal ∧ (KState.expandLoop k G.info rem).1 = 0) ∨ (sig = .ret (some (4294967295, .pub)) ∧ (KState.expandLoop k G.info rem).1 = -1)) ∧
      XF G mem0 (KState.expandLoop k G.info rem).2.2 (acc ++ (KState.expandLoop k G.info rem).2.1) s') := by
  intro rem
  induction rem using Nat.strongRecOn with
  | _ rem ih =>
    intro k od acc e s xi
    have hbK := G.hbK; have hbo := G.hbo; have hGsz := G.hsz; have hksz := G.hksz; have hltK := G.hltK; have hltO := G.hltO; have hin := G.hin
    have htot := xi.tot
    have hltO' : G.baseo + G.XO0.size < 4294967296 := by have := G.hltO; rwa [ptrBase_eq] at this
    have hbK30 : G.bK < 2 ^ 30 := by omega
    have hbo30 : G.bo < 2 ^ 30 := by omega
    have hp64 : (mkPtr G.bK G.baseK + 64) % 18446744073709551616 = mkPtr G.bK (G.baseK + 64) := ptr_off G.bK G.baseK 64 hbK30 (by omega)
    obtain ⟨X, hX, hXs, ho⟩ := xi.obj
    obtain ⟨XO, hXO, hXOs, hXOd, hXOo⟩ := xi.out
    by_cases h0 : rem = 0
    · -- nothing left: the loop exits
      subst h0
      rw [expandLoop_zero]
      refine runs_loop_break (runs_ite_false ?_ (runs_brk ⟨rfl, Or.inl ⟨rfl, rfl⟩, ?_⟩))
      · simp only [evalE, xi.e4, reduceCtorEq, if_false, castVal_u64_i32_lit 0 (by decide), BinOp.needsPub2, BinOp.needsPub1, Bool.false_and, Bool.or_self, Bool.false_eq_true, binVal,
          Ty.signed, gt_iff_lt, Nat.lt_irrefl, decide_false, b2n, Lab.join_pub_pub]
      · rw [List.append_nil]
        exact ⟨⟨X, od, hX, hXs, ho, xi.hod, xi.p32⟩, ⟨XO, hXO, hXOs, hXOd, hXOo⟩, xi.oth, xi.msz, xi.ent, by omega⟩
    · have hpos : 0 < rem := Nat.pos_of_ne_zero h0
      have fe := xi.fe
      have hcgt : evalE e (.bin .gt .u64 (.var 4) (.cast .u64 .i32 (.lit 0))) = .ok (1, .pub) := by
        simp only [evalE, xi.e4, reduceCtorEq, if_false, castVal_u64_i32_lit 0 (by decide), BinOp.needsPub2, BinOp.needsPub1, Bool.false_and, Bool.or_self, Bool.false_eq_true, binVal,
          Ty.signed, gt_iff_lt, hpos, decide_true, b2n, if_true, Lab.join_pub_pub]
      have ev64 : evalE e (.bin .add .u64 (.var 5) (.lit 64)) = .ok (mkPtr G.bK (G.baseK + 64), .pub) := by
        simp only [evalE, xi.e5, reduceCtorEq, if_false, BinOp.needsPub2, BinOp.needsPub1, Bool.false_and, Bool.or_self, Bool.false_eq_true, binVal, Ty.modulus, Lab.join_pub_pub, hp64]
      have hceq : ∀ E : Env, E[13]? = some (k.counter.toNat, .pub) → evalE E (.bin .eq .i32 (.cast .i32 .u8 (.var 13)) (.lit 0)) = .ok (b2n (decide (k.counter.toNat = 0)), .pub) := fun E h13 => by
        simp only [evalE, h13, reduceCtorEq, if_false, TJ.MiniC.CheckTagC.castVal_i32_u8, BinOp.needsPub2, BinOp.needsPub1, Bool.false_and, Bool.or_self, Bool.false_eq_true, binVal,
          Lab.join_pub_pub]
      by_cases hc0 : k.counter = 0
      · -- the counter is exhausted: zero the rest of the output, return -1
        rw [expandLoop_exh k G.info rem h0 hc0]
        refine runs_loop_ret (runs_ite_true 1 hcgt (by decide) (runs_seq_abort ?_))
        refine runs_seq (Q := fun e1 s1 => e1 = setVar e 13 (k.counter.toNat, .pub) ∧ s1.mem = s.mem ∧ s1.ent = s.ent)
          (load_pub_byte (st := { s with leak := Ev.br true :: s.leak }) 13 _ G.bK G.baseK 64 X k.counter ev64 hX ho.cnt (by rw [hXs]; exact hltK) ⟨rfl, rfl, rfl, rfl⟩) ?_
        intro e1 s1 ⟨he1, hm1, hent1⟩
        have e1_13 : e1[13]? = some (k.counter.toNat, .pub) := by rw [he1]; exact get_set_eq _ _ _ (by rw [xi.esz]; decide)
        have e1_3 : e1[3]? = some (mkPtr G.bo (G.baseo + (G.oo + acc.length)), .pub) := by rw [he1, get_set_ne _ _ _ _ (by decide)]; exact xi.e3
        have e1_4 : e1[4]? = some (rem, .pub) := by rw [he1, get_set_ne _ _ _ _ (by decide)]; exact xi.e4
        have hXO1 : s1.mem[G.bo]? = some ⟨XO, G.baseo⟩ := by rw [hm1]; exact hXO
        refine runs_ite_true 1 (by rw [hceq e1 e1_13, hc0]; rfl) (by decide) ?_
        refine runs_seq (Q := fun e2 s2 => s2.ent = s.ent ∧ s2.mem = setBlock s.mem G.bo (writeBytes XO (G.oo + acc.length) (List.replicate rem (0, .pub)))) ?_ ?_
        · refine runs_seq (Q := fun e2 s2 => e2 = e1 ∧ s2.ent = s.ent ∧ s2.mem = setBlock s.mem G.bo (writeBytes XO (G.oo + acc.length) (List.replicate rem (0, .pub)))) ?_ ?_
          · refine runs_memset (mkPtr G.bo (G.baseo + (G.oo + acc.length))) 0 rem G.bo (G.oo + acc.length) .pub (by simp only [evalE, e1_3, reduceCtorEq, if_false]) (by simp only [evalE])
              (by simp only [evalE, e1_4, reduceCtorEq, if_false]) h0 (resolve_byte hXO1 (G.oo + acc.length) (by omega) (by omega)) (by rw [blockBytes_of hXO1]; omega) ?_
            refine ⟨rfl, rfl, hent1, ?_⟩
            show setBlock s1.mem G.bo (writeBytes (blockBytes s1.mem G.bo) _ _) = _
            rw [blockBytes_of hXO1, hm1]; rfl
          · intro e2 s2 ⟨he2, g⟩
            rw [he2]
            exact runs_assign (mkPtr G.bo (G.baseo + (G.oo + acc.length)), .pub) (by simp only [evalE, e1_3, reduceCtorEq, if_false]) ⟨rfl, g⟩
        intro e2 s2 ⟨hent2, hm2⟩
        refine runs_ret_some (4294967295, .pub) rfl ⟨Sig.noConfusion, ⟨_, rfl⟩, Or.inr ⟨rfl, rfl⟩, ?_⟩
        refine ⟨⟨X, od, by rw [hm2, getElem?_setBlock', if_neg G.hKo]; exact hX, hXs, ho, xi.hod, xi.p32⟩, ⟨_, by rw [hm2, getElem?_setBlock', if_pos rfl, hXO]; rfl, by rw [size_writeBytes]; exact hXOs, ?_, fun q hq => ?_⟩,
          fun j hjK hjo hjL => by rw [hm2, getElem?_setBlock', if_neg hjo]; exact xi.oth j hjK hjo hjL, by rw [hm2, size_setBlock']; exact xi.msz, hent2.trans xi.ent,
          by simp [zeros]; omega⟩
        · refine bytesV_append_veq' hXOd (bytesV_writeBytes XO (G.oo + acc.length) _ (zeros rem) (by simp [zeros]) (by simp [zeros]; omega) (fun i b hi => ?_)) (fun q hq => ?_)
          · have hil : i < rem := by
              by_cases hh : i < rem
              · exact hh
              · rw [List.getElem?_eq_none (by simp [zeros]; omega)] at hi; cases hi
            have hb : b = 0 := by simp only [zeros, List.getElem?_replicate, hil, if_true, Option.some.injEq] at hi; exact hi.symm
            exact ⟨.pub, by rw [List.getElem?_replicate, if_pos hil, hb], by decide⟩
          · rw [getElem?_writeBytes, if_neg (by omega)]; exact oveq_refl _
        · rw [getElem?_writeBytes, if_neg (by simp only [List.length_replicate]; omega)]; exact hXOo q hq
      · -- one more block
        have hcn : k.counter.toNat ≠ 0 := fun h => hc0 (UInt8.toNat_inj.mp h)
        rw [expandLoop_step k G.info rem h0 hc0]
        refine runs_loop_continue (Q := fun e' s' => XEI G mem0 (kNext k G.info rem) True (acc ++ (hmac k.prk ((if k.counter ≠ 1 then k.out else []) ++ G.info ++ [k.counter])).take (min 32 rem))
            (rem - min 32 rem) e' s') ?_ ?_
        · refine runs_ite_true 1 hcgt (by decide) ?_
          refine runs_seq (Q := fun e1 s1 => e1 = setVar e 13 (k.counter.toNat, .pub) ∧ s1.mem = s.mem ∧ s1.ent = s.ent) ?_ ?_
          · refine runs_seq (Q := fun e1 s1 => e1 = setVar e 13 (k.counter.toNat, .pub) ∧ s1.mem = s.mem ∧ s1.ent = s.ent)
              (load_pub_byte (st := { s with leak := Ev.br true :: s.leak }) 13 _ G.bK G.baseK 64 X k.counter ev64 hX ho.cnt (by rw [hXs]; exact hltK) ⟨rfl, rfl, rfl, rfl⟩) ?_
            intro e1 s1 ⟨he1, hm1, hent1⟩
            have e1_13 : e1[13]? = some (k.counter.toNat, .pub) := by rw [he1]; exact get_set_eq _ _ _ (by rw [xi.esz]; decide)
            exact runs_ite_false (by rw [hceq e1 e1_13]; simp [b2n, hcn]) (runs_skip ⟨rfl, he1, hm1, hent1⟩)
          intro e1 s1 ⟨he1, hm1, hent1⟩
          have fe1 : XFE G e1 := by rw [he1]; exact fe.set 13 _ (by decide)
          have hX1 : s1.mem[G.bK]? = some ⟨X, G.baseK⟩ := by rw [hm1]; exact hX
          obtain ⟨Lb, hLb, hLbs⟩ := xi.loc
          have hIx : ∃ XI, G.info = [] ∨ (s1.mem[G.bi]? = some ⟨XI, G.basei⟩ ∧ BytesV XI G.ioff G.info ∧ G.pinfo = mkPtr G.bi (G.basei + G.ioff) ∧ G.bi ≠ G.L ∧ G.bi ≠ G.bK ∧
              G.basei + XI.size < ptrBase) := by
            rcases xi.inf with h | ⟨XI, hXI, hXIs, hXId⟩
            · exact ⟨#[], Or.inl h⟩
            · rcases G.hI with h | ⟨hp, hiL, hiK, hio, hlt⟩
              · exact ⟨#[], Or.inl h⟩
              · exact ⟨XI, Or.inr ⟨by rw [hm1]; exact hXI, hXId, hp, by omega, hiK, by rw [hXIs]; exact hlt⟩⟩
          obtain ⟨XI, hIx⟩ := hIx
          refine expand_mac e1 s1 G.bK G.L X G.baseK k od G.info G.pinfo G.bi G.basei G.ioff XI fe1.1 fe1.2.1 fe1.2.2.1 fe1.2.2.2.1 fe1.2.2.2.2 hX1 ho (fun h => xi.hod (Or.inl h))
            ⟨Lb, by rw [hm1]; exact hLb, hLbs⟩ hIx (by omega) (by rw [hXs]; exact hltK) (by rw [hm1, xi.msz]; omega) expandRest ?_
          intro e2 s2 hfr2 hes2 hent2 hsz2 ⟨X2, hX2, hX2s, ho2⟩ hloc2 hoth2
          have hbo2 : ORel BlockEqV s2.mem[G.bo]? (some ⟨XO, G.baseo⟩) := by
            have := hoth2 G.bo G.hKo.symm (by omega); rw [hm1, hXO] at this; exact this
          obtain ⟨XO2, hXO2, hXO2s, hXO2v⟩ := eqv_block hbo2
          have xi2 : XEI G mem0 { k with out := hmac k.prk ((if k.counter ≠ 1 then k.out else []) ++ G.info ++ [k.counter]) } True acc rem e2 s2 := by
            refine ⟨hes2, (hfr2 1 (by decide)).trans fe1.2.1, (hfr2 2 (by decide)).trans fe1.2.2.1, (hfr2 3 (by decide)).trans (by rw [he1, get_set_ne _ _ _ _ (by decide)]; exact xi.e3),
              (hfr2 4 (by decide)).trans (by rw [he1, get_set_ne _ _ _ _ (by decide)]; exact xi.e4), (hfr2 5 (by decide)).trans fe1.2.2.2.1, (hfr2 6 (by decide)).trans fe1.2.2.2.2,
              ⟨X2, hX2, hX2s.trans hXs, ho2⟩, fun _ => trivial, xi.p32, ⟨XO2, hXO2, hXO2s.trans hXOs, bytesV_of_veq hXO2v hXOd, fun q hq =>
                orel_trans (R := VEq) (fun _ _ _ p r => VEq.trans p r) (hXO2v q) (hXOo q hq)⟩, hloc2, ?_, fun j hjK hjo hjL => ?_, hsz2.trans (by rw [hm1]; exact xi.msz),
              hent2.trans (hent1.trans xi.ent), xi.tot⟩
            · rcases xi.inf with h | ⟨XI', hXI', hXIs', hXId'⟩
              · exact Or.inl h
              · rcases G.hI with h | ⟨hp, hiL, hiK, hio, hlt⟩
                · exact Or.inl h
                · obtain ⟨XI2, hXI2, hXI2s, hXI2v⟩ := eqv_block (by have := hoth2 G.bi hiK (by omega); rw [hm1, hXI'] at this; exact this)
                  exact Or.inr ⟨XI2, hXI2, hXI2s.trans hXIs', bytesV_of_veq hXI2v hXId'⟩
            · have a := hoth2 j hjK hjL
              rw [hm1] at a
              exact orel_trans (R := BlockEqV) (fun _ _ _ p q => BlockEqV.trans p q) a (xi.oth j hjK hjo hjL)
          refine (expand_rest G mem0 _ acc rem hpos xi2).weaken ?_
          intro sig e3 s3 ⟨hs3, x3⟩
          exact ⟨hs3, x3⟩
        · intro e' s' xi'
          refine (ih (rem - min 32 rem) (by omega) _ _ _ e' s' xi').weaken ?_
          intro sig e'' s'' ⟨hr, hf⟩
          refine ⟨hr, ?_⟩
          rw [List.append_assoc] at hf
          exact hf

end TJ.MiniC.Hoare
