import TJ.Proofs.PrngCb
namespace TJ.MiniC.Hoare
open TJ TJ.MiniC TJ.MiniC.PermC TJ.Gen.MiniC

theorem prog_prng_reseed : prog[idx_tinyjambu_prng_reseed]? = some f_tinyjambu_prng_reseed := by
  simp only [prog, idx_tinyjambu_prng_reseed, List.getElem?_cons_succ, List.getElem?_cons_zero]

def reseedBody : Stmt := seqs [.assign 1 (.var 0), .assign 2 (.lit 0),
  seqs [.memcpy (.bin .add .u64 (.var 1) (.lit 32)) (.var 1) (.cast .u64 .i32 (.lit 32)), .assign 3 (.bin .add .u64 (.var 1) (.lit 32))],
  seqs [.load 4 .u64 (.bin .add .u64 (.var 1) (.lit 80)), .load 6 .u64 (.bin .add .u64 (.var 1) (.lit 72)),
        .calli (some 5) (.var 6) [.var 4, .bin .add .u64 (.var 1) (.lit 32), .lit 32],
        .ite (.bin .eq .u64 (.var 5) (.lit 32)) (.assign 2 (.lit 1)) .skip],
  .call none idx_tinyjambu_hash_df [.var 1, .cast .u8 .i32 (.lit 1), .var 1, .bin .add .u64 (.var 1) (.lit 32), .lit 32],
  .call none idx_tinyjambu_hash_df [.bin .add .u64 (.var 1) (.lit 32), .cast .u8 .i32 (.lit 0), .var 1, .lit 0, .cast .u64 .i32 (.lit 0)],
  seqs [.assign 7 (.bin .add .u64 (.var 1) (.lit 64)), .store .u32 (.var 7) (.cast .u32 .i32 (.lit 1))],
  .ret (some (.var 2))]

theorem reseed_body_eq : f_tinyjambu_prng_reseed.body = reseedBody := rfl

/-- the 32 bytes hashed as entropy input: what the callback delivered, over the copy of `V` it found in the buffer -/
def seedOf (d : Delivery) (V : Bytes) : Bytes := d.1.take (min d.1.length 32) ++ V.drop (min d.1.length 32)

theorem seedOf_length (d : Delivery) (V : Bytes) (hV : V.length = 32) : (seedOf d V).length = 32 := by
  unfold seedOf; rw [List.length_append, List.length_take, List.length_drop]; omega


/-- the PRNG state object with its callback fields: the user callback and a defined user-data pointer -/
structure PCbV (X : Array LByte) (ud : Nat) (lu : Lab) (cbv : Nat := userCb) : Prop where
  cb : readLE X 72 8 = some (cbv, .pub)
  ud : readLE X 80 8 = some (ud, lu)
  udl : lu ≠ Lab.undef

/-- **the body of `tinyjambu_prng_reseed(state)`** on the regenerated term, with the user entropy callback installed: `C ← V`, one delivery of the
    entropy script into `C`, `V ← Hash_df(0x01 ‖ V ‖ C)`, `C ← Hash_df(0x00 ‖ V)`, `reseed_counter ← 1`; returns whether the callback reported 32 bytes. -/
theorem reseed_body (cbv : Nat) (hk : CbOk cbv) (E0 : Env) (st : St) (bp : Nat) (X : Array LByte) (baseP : Nat) (V C : Bytes) (rc rl ud : Nat) (lu : Lab)
    (e0s : E0.size = 8) (e0_0 : E0[0]? = some (mkPtr bp baseP, .pub))
    (hP : st.mem[bp]? = some ⟨X, baseP⟩) (ho : PObjV X V C rc rl) (hcb : PCbV X ud lu cbv) (hal : baseP % 8 = 0) (hltP : baseP + X.size < ptrBase) (hsz : st.mem.size + 5 < 2 ^ 30) :
    RunsTo prog reseedBody E0 st (fun sig e s => sig = .ret (some (if cbRet cbv (st.ent.headD ([], 0)) = 32 then 1 else 0, .pub)) ∧ s.ent = st.ent.tail ∧ s.mem.size = st.mem.size ∧
      (∃ X', s.mem[bp]? = some ⟨X', baseP⟩ ∧ X'.size = X.size ∧
        PObjV X' (hashDf 1 V (seedOf (st.ent.headD ([], 0)) V)) (hashDf 0 (hashDf 1 V (seedOf (st.ent.headD ([], 0)) V)) []) 1 rl ∧ ∀ q, 68 ≤ q → ORel VLe X'[q]? X[q]?) ∧
      ∀ j, j ≠ bp → ORel (KeepW (fun _ => False) (fun _ => False)) s.mem[j]? st.mem[j]?) := by
  have hbpN := mem_lt hP
  have hXs := ho.sz
  have hVl := ho.vl
  generalize hd : st.ent.headD ([], 0) = d
  have hpk : ∀ k, k ≤ 80 → (mkPtr bp baseP + k) % 18446744073709551616 = mkPtr bp (baseP + k) := fun k hk => ptr_off bp baseP k (by omega) (by omega)
  have eadd : ∀ (E : Env) (k : Nat), k ≤ 80 → E[1]? = some (mkPtr bp baseP, .pub) → evalE E (.bin .add .u64 (.var 1) (.lit k)) = .ok (mkPtr bp (baseP + k), .pub) := fun E k hk h1 => by
    simp only [evalE, h1, reduceCtorEq, if_false, BinOp.needsPub2, BinOp.needsPub1, Bool.false_and, Bool.or_self, Bool.false_eq_true, binVal, Ty.modulus, Lab.join_pub_pub, hpk k hk]
  unfold reseedBody
  simp only [seqs]
  refine runs_seq (Q := fun e s => e = setVar E0 1 (mkPtr bp baseP, .pub) ∧ s = st) (runs_assign _ (by simp only [evalE, e0_0, reduceCtorEq, if_false]) ⟨rfl, rfl, rfl⟩) ?_
  intro e s ⟨he, hs⟩; rw [he, hs]
  refine runs_seq (Q := fun e s => e = setVar (setVar E0 1 (mkPtr bp baseP, .pub)) 2 (0, .pub) ∧ s = st) (runs_assign _ (by simp only [evalE]) ⟨rfl, rfl, rfl⟩) ?_
  intro e s ⟨he, hs⟩; rw [he, hs]
  generalize hE2 : setVar (setVar E0 1 (mkPtr bp baseP, .pub)) 2 (0, .pub) = E2
  have e2s : E2.size = 8 := by rw [← hE2]; simp only [size_setVar]; exact e0s
  have e2_1 : E2[1]? = some (mkPtr bp baseP, .pub) := by rw [← hE2, get_set_ne _ _ _ _ (by decide)]; exact get_set_eq _ _ _ (by rw [e0s]; decide)
  have e2_2 : E2[2]? = some (0, .pub) := by rw [← hE2]; exact get_set_eq _ _ _ (by rw [size_setVar, e0s]; decide)
  -- C ← V
  obtain ⟨gl, ge⟩ := sliceBytes_getV X V 0 (fun k b hk => by have := ho.v.2 k b hk; exact this)
  rw [hVl] at gl
  generalize hX1 : writeBytes X 32 (sliceBytes X 0 32) = X1
  have hX1s : X1.size = X.size := by rw [← hX1, size_writeBytes]
  have hX1lo : ∀ q, (q < 32 ∨ 64 ≤ q) → X1[q]? = X[q]? := fun q hq => by
    rw [← hX1, getElem?_writeBytes, if_neg (by rw [gl]; omega)]
  have hX1c : BytesV X1 32 V := by
    rw [← hX1]; exact bytesV_writeBytes X 32 _ V (by rw [hVl]; exact gl) (by omega) (by rw [hVl] at ge; exact ge)
  refine runs_seq (Q := fun e s => e = setVar E2 3 (mkPtr bp (baseP + 32), .pub) ∧ s.ent = st.ent ∧ s.mem = setBlock st.mem bp X1) ?_ ?_
  · refine runs_seq (Q := fun e s => e = E2 ∧ s.ent = st.ent ∧ s.mem = setBlock st.mem bp X1) ?_ ?_
    · refine runs_memcpy (mkPtr bp (baseP + 32)) (mkPtr bp (baseP + 0)) 32 bp 0 bp 32 (eadd E2 32 (by decide) e2_1) (by simp only [evalE, e2_1, reduceCtorEq, if_false, Nat.add_zero])
        (by simp only [evalE, castVal_u64_i32_lit 32 (by decide)]) (by decide) (resolve_byte hP 0 (by omega) (by omega)) (by rw [blockBytes_of hP]; omega)
        (resolve_byte hP 32 (by omega) (by omega)) (by rw [blockBytes_of hP]; omega) ?_
      rw [blockBytes_of hP, hX1]
      exact ⟨rfl, rfl, rfl, rfl⟩
    · intro e s ⟨he, hent, hm⟩; rw [he]
      exact runs_assign _ (eadd E2 32 (by decide) e2_1) ⟨rfl, rfl, hent, hm⟩
  intro e3 s3 ⟨he3, hent3, hm3⟩; rw [he3]
  have hP3 : s3.mem[bp]? = some ⟨X1, baseP⟩ := by rw [hm3, getElem?_setBlock', if_pos rfl, hP]; rfl
  have hcb3 : readLE X1 72 8 = some (cbv, .pub) := by rw [← hcb.cb]; exact readLE_congr _ _ 8 72 (fun q h1 _ => hX1lo q (Or.inr (by omega)))
  have hud3 : readLE X1 80 8 = some (ud, lu) := by rw [← hcb.ud]; exact readLE_congr _ _ 8 80 (fun q h1 _ => hX1lo q (Or.inr (by omega)))
  generalize hE3 : setVar E2 3 (mkPtr bp (baseP + 32), .pub) = E3
  have e3s : E3.size = 8 := by rw [← hE3, size_setVar]; exact e2s
  have e3_1 : E3[1]? = some (mkPtr bp baseP, .pub) := by rw [← hE3, get_set_ne _ _ _ _ (by decide)]; exact e2_1
  have e3_2 : E3[2]? = some (0, .pub) := by rw [← hE3, get_set_ne _ _ _ _ (by decide)]; exact e2_2
  -- the callback
  generalize hX2 : writeBytes X1 32 ((d.1.take (min d.1.length 32)).map fun x => (x, Lab.sec)) = X2
  have hX2s : X2.size = X.size := by rw [← hX2, size_writeBytes]; exact hX1s
  have hX2lo : ∀ q, (q < 32 ∨ 64 ≤ q) → X2[q]? = X[q]? := fun q hq => by
    rw [← hX2, getElem?_writeBytes, if_neg (by simp only [List.length_map, List.length_take]; omega)]; exact hX1lo q hq
  have hX2c : BytesV X2 32 (seedOf d V) := by
    refine ⟨by rw [seedOf_length d V hVl, hX2s]; omega, fun k b hk => ?_⟩
    have hk32 : k < 32 := by
      by_cases h : k < 32
      · exact h
      · rw [List.getElem?_eq_none (by rw [seedOf_length d V hVl]; omega)] at hk; cases hk
    unfold seedOf at hk
    by_cases hkn : k < min d.1.length 32
    · rw [List.getElem?_append_left (by rw [List.length_take]; omega)] at hk
      refine ⟨.sec, ?_, by decide⟩
      rw [← hX2, getElem?_writeBytes, if_pos ⟨by omega, by simp only [List.length_map, List.length_take]; omega, by rw [hX1s]; omega⟩, show 32 + k - 32 = k from by omega,
        List.getElem?_map, hk]; rfl
    · rw [List.getElem?_append_right (by rw [List.length_take]; omega), List.length_take, List.getElem?_drop] at hk
      have hk' : V[k]? = some b := by rw [← hk]; congr 1; omega
      obtain ⟨l, hx, hl⟩ := hX1c.2 k b hk'
      exact ⟨l, by rw [← hX2, getElem?_writeBytes, if_neg (by simp only [List.length_map, List.length_take]; omega)]; exact hx, hl⟩
  refine runs_seq (Q := fun e s => e.size = 8 ∧ e[1]? = some (mkPtr bp baseP, .pub) ∧ e[2]? = some (if cbRet cbv d = 32 then 1 else 0, .pub) ∧ s.ent = st.ent.tail ∧ s.mem = setBlock st.mem bp X2) ?_ ?_
  · refine runs_seq (Q := fun e s => e = setVar E3 4 (ud, lu) ∧ s.ent = st.ent ∧ s.mem = s3.mem)
      (runs_load (mkPtr bp (baseP + 80)) bp 80 8 (ud, lu) rfl (eadd E3 80 (by decide) e3_1) (resolve_mkPtr s3.mem bp 80 8 ⟨X1, baseP⟩ hP3 (by show 80 + 8 ≤ X1.size; omega) (by show baseP + 80 < _; omega) (fun _ => by show (baseP + 80) % 8 = 0; omega))
        (by rw [blockBytes_of hP3]; exact hud3) ⟨rfl, rfl, hent3, rfl⟩) ?_
    intro e4 s4 ⟨he4, hent4, hm4⟩; rw [he4]
    have e4_1 : (setVar E3 4 (ud, lu))[1]? = some (mkPtr bp baseP, .pub) := by rw [get_set_ne _ _ _ _ (by decide)]; exact e3_1
    refine runs_seq (Q := fun e s => e = setVar (setVar E3 4 (ud, lu)) 6 (cbv, .pub) ∧ s.ent = st.ent ∧ s.mem = s3.mem)
      (runs_load (mkPtr bp (baseP + 72)) bp 72 8 (cbv, .pub) rfl (eadd _ 72 (by decide) e4_1) (by rw [hm4]; exact resolve_mkPtr s3.mem bp 72 8 ⟨X1, baseP⟩ hP3 (by show 72 + 8 ≤ X1.size; omega) (by show baseP + 72 < _; omega) (fun _ => by show (baseP + 72) % 8 = 0; omega))
        (by rw [hm4, blockBytes_of hP3]; exact hcb3) ⟨rfl, rfl, hent4, hm4⟩) ?_
    intro e5 s5 ⟨he5, hent5, hm5⟩; rw [he5]
    generalize hE5 : setVar (setVar E3 4 (ud, lu)) 6 (cbv, .pub) = E5
    have e5s : E5.size = 8 := by rw [← hE5]; simp only [size_setVar]; exact e3s
    have e5_1 : E5[1]? = some (mkPtr bp baseP, .pub) := by rw [← hE5, get_set_ne _ _ _ _ (by decide)]; exact e4_1
    have e5_2 : E5[2]? = some (0, .pub) := by rw [← hE5, get_set_ne _ _ _ _ (by decide), get_set_ne _ _ _ _ (by decide)]; exact e3_2
    have e5_4 : E5[4]? = some (ud, lu) := by rw [← hE5, get_set_ne _ _ _ _ (by decide)]; exact get_set_eq _ _ _ (by rw [e3s]; decide)
    have e5_6 : E5[6]? = some (cbv, .pub) := by rw [← hE5]; exact get_set_eq _ _ _ (by rw [size_setVar, e3s]; decide)
    have hP5 : s5.mem[bp]? = some ⟨X1, baseP⟩ := by rw [hm5]; exact hP3
    have hhd : s5.ent.headD ([], 0) = d := by rw [hent5]; exact hd
    refine runs_seq (Q := fun e s => e = setVar E5 5 (cbRet cbv d, .pub) ∧ s.ent = st.ent.tail ∧ s.mem = setBlock st.mem bp X2)
      (runs_calli_cb cbv hk (ud, lu) bp baseP 32 X1 (by simp only [evalE, e5_6, reduceCtorEq, if_false])
        (by simp only [evalArgs, evalE, e5_4, e5_1, hcb.udl, reduceCtorEq, if_false, BinOp.needsPub2, BinOp.needsPub1, Bool.false_and, Bool.or_self, Bool.false_eq_true, binVal, Ty.modulus,
          Lab.join_pub_pub, hpk 32 (by decide)]) hP5 (by omega) (by rw [hX1s]; exact hltP)
        (fun L => by rw [hhd, hX2]; exact ⟨rfl, rfl, by show s5.ent.tail = _; rw [hent5], by show setBlock s5.mem bp X2 = _; rw [hm5, hm3, setBlock_setBlock _ _ _ _ _ hP]⟩)) ?_
    intro e6 s6 ⟨he6, hent6, hm6⟩; rw [he6]
    by_cases h32 : cbRet cbv d = 32
    · refine runs_ite_true 1 ?_ (by decide) (runs_assign (1, .pub) (by simp only [evalE]) ⟨rfl, by simp only [size_setVar]; exact e5s,
        by rw [get_set_ne _ _ _ _ (by decide), get_set_ne _ _ _ _ (by decide)]; exact e5_1, by rw [get_set_eq _ _ _ (by rw [size_setVar, e5s]; decide), if_pos h32], hent6, hm6⟩)
      simp only [evalE, get_set_eq _ _ _ (show 5 < E5.size from by omega), reduceCtorEq, if_false, BinOp.needsPub2, BinOp.needsPub1, Bool.false_and, Bool.or_self,
        Bool.false_eq_true, binVal, h32, decide_true, b2n, if_true, Lab.join_pub_pub]
    · refine runs_ite_false ?_ (runs_skip ⟨rfl, by simp only [size_setVar]; exact e5s, by rw [get_set_ne _ _ _ _ (by decide)]; exact e5_1,
        by rw [get_set_ne _ _ _ _ (by decide), if_neg h32]; exact e5_2, hent6, hm6⟩)
      simp only [evalE, get_set_eq _ _ _ (show 5 < E5.size from by omega), reduceCtorEq, if_false, BinOp.needsPub2, BinOp.needsPub1, Bool.false_and, Bool.or_self,
        Bool.false_eq_true, binVal, h32, decide_false, b2n, Lab.join_pub_pub]
  intro e7 s7 ⟨e7s, e7_1, e7_2, hent7, hm7⟩
  have hP7 : s7.mem[bp]? = some ⟨X2, baseP⟩ := by rw [hm7, getElem?_setBlock', if_pos rfl, hP]; rfl
  have hsz7 : s7.mem.size = st.mem.size := by rw [hm7, size_setBlock']
  have hV7 : BytesV X2 0 V := ⟨by rw [hX2s, hVl]; omega, fun k b hk => by
    have hk32 : k < 32 := by
      by_cases h : k < 32
      · exact h
      · rw [List.getElem?_eq_none (by omega)] at hk; cases hk
    obtain ⟨l, hx, hl⟩ := ho.v.2 k b hk
    exact ⟨l, by rw [hX2lo _ (Or.inl (by omega))]; exact hx, hl⟩⟩
  have ev1 : evalE e7 (.var 1) = .ok (mkPtr bp (baseP + 0), .pub) := by simp only [evalE, e7_1, reduceCtorEq, if_false, Nat.add_zero]
  -- V = Hash_df(0x01 ‖ V ‖ C)
  refine runs_seq (hash_df_call e7 s7 (.var 1) (.cast .u8 .i32 (.lit 1)) (.var 1) (.bin .add .u64 (.var 1) (.lit 32)) (.lit 32) bp bp bp X2 X2 X2 baseP 0 baseP 0 baseP 32 (mkPtr bp (baseP + 32))
    (1 : UInt8) V (seedOf d V) ev1 (by simp only [evalE, castVal_u8_i32_1]; rfl) ev1 (eadd e7 32 (by decide) e7_1) (by simp only [evalE, seedOf_length d V hVl])
    hP7 hP7 hV7 hVl (Or.inr ⟨hP7, hX2c, rfl, by rw [hX2s]; exact hltP⟩) (by rw [hX2s]; exact hltP) (by rw [hX2s]; exact hltP) (by rw [hX2s]; omega) (by rw [hsz7]; exact hsz)) ?_
  intro e8 s8 ⟨he8, hent8, hsz8, ⟨XO1, hO1, hO1d⟩, K1⟩
  rw [he8]
  obtain ⟨Z1, hZ1, hZ1s, kP1⟩ := okeep_block (by have := K1 bp; rw [hP7] at this; exact this)
  have hZO : Z1 = XO1 := by rw [hO1] at hZ1; cases hZ1; rfl
  subst hZO
  generalize hV1 : hashDf 1 V (seedOf d V) = V1 at hO1d
  have hV1l : V1.length = 32 := by rw [← hV1]; unfold hashDf hash; exact finalize_length _
  have hsl := seedOf_length d V hVl
  have hfield1 : ∀ q, 64 ≤ q → ORel VLe Z1[q]? X2[q]? := fun q hq => (kP1.2.2 q (fun h => by omega)).2 (fun h => by rcases h with h | h <;> omega)
  -- C = Hash_df(0x00 ‖ V)
  refine runs_seq (hash_df_call e7 s8 (.bin .add .u64 (.var 1) (.lit 32)) (.cast .u8 .i32 (.lit 0)) (.var 1) (.lit 0) (.cast .u64 .i32 (.lit 0)) bp bp bp Z1 Z1 Z1 baseP 32 baseP 0 baseP 0 0
    (0 : UInt8) V1 [] (eadd e7 32 (by decide) e7_1) (by simp only [evalE, castVal_u8_i32_0]; rfl) ev1 (by simp only [evalE]) (by simp only [evalE, castVal_u64_i32_0]; rfl)
    hO1 hO1 hO1d hV1l (Or.inl rfl) (by rw [hZ1s, hX2s]; exact hltP) (by rw [hZ1s, hX2s]; exact hltP) (by rw [hZ1s, hX2s]; omega) (by rw [hsz8, hsz7]; exact hsz)) ?_
  intro e9 s9 ⟨he9, hent9, hsz9, ⟨XO2, hO2, hO2d⟩, K2⟩
  rw [he9]
  obtain ⟨Z2, hZ2, hZ2s, kP2⟩ := okeep_block (by have := K2 bp; rw [hO1] at this; exact this)
  have hZO2 : Z2 = XO2 := by rw [hO2] at hZ2; cases hZ2; rfl
  subst hZO2
  generalize hC2 : hashDf 0 V1 [] = C2 at hO2d
  have hC2l : C2.length = 32 := by rw [← hC2]; unfold hashDf hash; exact finalize_length _
  have hV2 : BytesV Z2 0 V1 := bytesV_keepW kP2 hO1d (fun q _ h2 h => by rw [hV1l] at h2; omega)
  have hfield2 : ∀ q, 64 ≤ q → ORel VLe Z2[q]? X[q]? := fun q hq => by
    have a := (kP2.2.2 q (fun h => by omega)).2 (fun h => by rcases h with h | h <;> simp only [List.length_nil] at h <;> omega)
    have b := hfield1 q hq
    rw [hX2lo q (Or.inr hq)] at b
    exact orel_trans (R := VLe) (fun _ _ _ p r => vle_trans p r) a b
  have hrl2 : readLE Z2 68 4 = some (rl, .pub) := readLE_pub_keep Z2 X 4 68 rl (fun q h1 _ => hfield2 q (by omega)) ho.hrl
  have hZ2sz : Z2.size = X.size := by rw [hZ2s, hZ1s, hX2s]
  -- reseed_counter = 1
  refine runs_seq (Q := fun e s => e[2]? = some (if cbRet cbv d = 32 then 1 else 0, .pub) ∧ s.ent = st.ent.tail ∧ s.mem = setBlock s9.mem bp (writeLE Z2 64 1 .pub 4)) ?_ ?_
  · refine runs_seq (Q := fun e s => e = setVar e7 7 (mkPtr bp (baseP + 64), .pub) ∧ s = s9) (runs_assign _ (eadd e7 64 (by decide) e7_1) ⟨rfl, rfl, rfl⟩) ?_
    intro e s ⟨he, hs⟩; rw [he, hs]
    refine runs_store (mkPtr bp (baseP + 64)) 1 bp 64 4 .pub rfl (by simp only [evalE, get_set_eq _ _ _ (show 7 < e7.size from by omega), reduceCtorEq, if_false])
      (by simp only [evalE, castVal_u32_i32_1']) (resolve_word hO2 64 (by omega) (by omega) (by omega))
      ⟨rfl, by rw [get_set_ne _ _ _ _ (by decide)]; exact e7_2, by rw [hent9, hent8]; exact hent7, by rw [blockBytes_of hO2]⟩
  intro e10 s10 ⟨e10_2, hent10, hm10⟩
  refine runs_ret_some (if cbRet cbv d = 32 then 1 else 0, .pub) (by simp only [evalE, e10_2, reduceCtorEq, if_false]) ?_
  refine ⟨rfl, hent10, by rw [hm10, size_setBlock', hsz9, hsz8]; exact hsz7, ⟨writeLE Z2 64 1 .pub 4, by rw [hm10, getElem?_setBlock', if_pos rfl, hO2]; rfl,
    by rw [size_writeLE]; exact hZ2sz, ?_, fun q hq => by rw [getElem?_writeLE_out _ _ _ _ _ _ (by omega)]; exact hfield2 q (by omega)⟩, fun j hj => ?_⟩
  · refine ⟨by rw [size_writeLE, hZ2sz]; exact hXs, ⟨by rw [size_writeLE]; exact hV2.1, fun k b hk => ?_⟩, hV1l, ⟨by rw [size_writeLE]; exact hO2d.1, fun k b hk => ?_⟩, hC2l, ?_, by decide, ?_⟩
    · have hk32 : k < 32 := by
        by_cases h : k < 32
        · exact h
        · rw [List.getElem?_eq_none (by omega)] at hk; cases hk
      exact (hV2.2 k b hk).writeLE_other 64 _ 4 .pub (Or.inl (by omega))
    · have hk32 : k < 32 := by
        by_cases h : k < 32
        · exact h
        · rw [List.getElem?_eq_none (by omega)] at hk; cases hk
      exact (hO2d.2 k b hk).writeLE_other 64 _ 4 .pub (Or.inl (by omega))
    · rw [readLE_writeLE .pub (by decide) 4 Z2 64 1 (by omega)]; rfl
    · rw [readLE_writeLE_ne Z2 64 68 _ 4 4 .pub (Or.inr (by omega))]; exact hrl2
  · rw [hm10, getElem?_setBlock', if_neg hj]
    have a := K2 j; have b := K1 j
    rw [hm7, getElem?_setBlock', if_neg hj] at b
    exact okeep_mono (okeep_trans a b) (fun q h => by rcases h with h | h <;> exact hj h.1) (fun q h => by
      rcases h with (h | h) | (h | h) <;> exact hj h.1)

/-- what `tinyjambu_prng_reseed` leaves: one delivery consumed, the state object reseeded, everything else unchanged up to non-rising labels -/
def ReseedPost (st : St) (bp : Nat) (X : Array LByte) (baseP : Nat) (V : Bytes) (rl : Nat) (s : St) : Prop :=
  s.ent = st.ent.tail ∧ s.mem.size = st.mem.size ∧
    (∃ X', s.mem[bp]? = some ⟨X', baseP⟩ ∧ X'.size = X.size ∧
      PObjV X' (hashDf 1 V (seedOf (st.ent.headD ([], 0)) V)) (hashDf 0 (hashDf 1 V (seedOf (st.ent.headD ([], 0)) V)) []) 1 rl ∧ ∀ q, 68 ≤ q → ORel VLe X'[q]? X[q]?) ∧
    ∀ j, j ≠ bp → ORel (KeepW (fun _ => False) (fun _ => False)) s.mem[j]? st.mem[j]?

theorem reseedPost_extract {st : St} {bp : Nat} {X : Array LByte} {baseP : Nat} {V : Bytes} {rl : Nat} {s : St} (h : ReseedPost st bp X baseP V rl s) :
    ReseedPost st bp X baseP V rl { s with mem := s.mem.extract 0 st.mem.size } := by
  have hext : s.mem.extract 0 st.mem.size = s.mem := by rw [← h.2.1]; exact extract_self _
  show ReseedPost st bp X baseP V rl { s with mem := s.mem.extract 0 st.mem.size }
  rw [hext]; exact h

/-- **`tinyjambu_prng_reseed(state)`** called for its effect (as `tinyjambu_prng_generate` does) -/
theorem prng_reseed_call (cbv : Nat) (hk : CbOk cbv) (env : Env) (st : St) (es : Expr) (bp : Nat) (X : Array LByte) (baseP : Nat) (V C : Bytes) (rc rl ud : Nat) (lu : Lab)
    (hes : evalE env es = .ok (mkPtr bp baseP, .pub))
    (hP : st.mem[bp]? = some ⟨X, baseP⟩) (ho : PObjV X V C rc rl) (hcb : PCbV X ud lu cbv) (hal : baseP % 8 = 0) (hltP : baseP + X.size < ptrBase) (hsz : st.mem.size + 5 < 2 ^ 30) :
    RunsTo prog (.call none idx_tinyjambu_prng_reseed [es]) env st (fun sig e s => sig = .normal ∧ e = env ∧ ReseedPost st bp X baseP V rl s) := by
  refine runs_call_none f_tinyjambu_prng_reseed [(mkPtr bp baseP, .pub)] prog_prng_reseed (by simp only [evalArgs, hes]) rfl ?_
  rw [reseed_body_eq]
  refine (reseed_body cbv hk _ { st with mem := (enterFun f_tinyjambu_prng_reseed [(mkPtr bp baseP, .pub)] st.mem).2 } bp X baseP V C rc rl ud lu rfl rfl hP ho hcb hal hltP hsz).weaken ?_
  intro sig e s ⟨_, h⟩
  exact ⟨rfl, rfl, reseedPost_extract h⟩

/-- **`x = tinyjambu_prng_reseed(state)`**: the result is 1 exactly when the callback reported 32 bytes -/
theorem prng_reseed_call_ret (cbv : Nat) (hk : CbOk cbv) (x : Nat) (env : Env) (st : St) (es : Expr) (bp : Nat) (X : Array LByte) (baseP : Nat) (V C : Bytes) (rc rl ud : Nat) (lu : Lab)
    (hes : evalE env es = .ok (mkPtr bp baseP, .pub))
    (hP : st.mem[bp]? = some ⟨X, baseP⟩) (ho : PObjV X V C rc rl) (hcb : PCbV X ud lu cbv) (hal : baseP % 8 = 0) (hltP : baseP + X.size < ptrBase) (hsz : st.mem.size + 5 < 2 ^ 30) :
    RunsTo prog (.call (some x) idx_tinyjambu_prng_reseed [es]) env st (fun sig e s => sig = .normal ∧
      e = setVar env x (if cbRet cbv (st.ent.headD ([], 0)) = 32 then 1 else 0, .pub) ∧ ReseedPost st bp X baseP V rl s) := by
  refine runs_call_some f_tinyjambu_prng_reseed [(mkPtr bp baseP, .pub)] prog_prng_reseed (by simp only [evalArgs, hes]) rfl ?_
  rw [reseed_body_eq]
  refine (reseed_body cbv hk _ { st with mem := (enterFun f_tinyjambu_prng_reseed [(mkPtr bp baseP, .pub)] st.mem).2 } bp X baseP V C rc rl ud lu rfl rfl hP ho hcb hal hltP hsz).weaken ?_
  intro sig e s ⟨hs, h⟩
  exact ⟨_, hs, rfl, rfl, reseedPost_extract h⟩

end TJ.MiniC.Hoare
