/-
  TJ.Proofs.Prng — histories of PRNG operations, the event trace they produce, and the invariant
  that bounds the output emitted between two entropy requests.  No hash property is used.
-/
import TJ.Impl.Prng
namespace TJ

/-- API operations on an initialised generator -/
inductive POp
  | gen (n : Nat)
  | feed (d : Bytes)
  | reseed
  | limit (n : Nat)
  deriving Repr

def Prng.runOp (p : Prng) (e : Ent) : POp → Option (Prng × Ent × List Ev)
  | .gen n => match p.generate e n with
    | none => none
    | some r => some (r.p, r.e, r.trace)
  | .feed d => some (p.feed d, e, [])
  | .reseed => match p.reseed e with
    | none => none
    | some (_, p', e') => some (p', e', [.request])
  | .limit n => some (p.setLimit n, e, [.limit (p.setLimit n).rl.toNat])

def Prng.runOps (p : Prng) (e : Ent) : List POp → Option (Prng × Ent × List Ev)
  | [] => some (p, e, [])
  | op :: ops => match p.runOp e op with
    | none => none
    | some (p1, e1, t1) => match Prng.runOps p1 e1 ops with
      | none => none
      | some (p2, e2, t2) => some (p2, e2, t1 ++ t2)

/-- the property, as a predicate on traces: starting with `since` bytes already emitted since the
    last request and `lim` blocks as the limit in force, no emission ever takes the count past 32·lim -/
def bounded : Nat → Nat → List Ev → Prop
  | _, _, [] => True
  | _, lim, .request :: t => bounded 0 lim t
  | since, lim, .emit k :: t => since + k ≤ 32 * lim ∧ bounded (since + k) lim t
  | since, _, .limit l :: t => bounded since l t

/-- (bytes since last request, limit in force) after a trace -/
def after : Nat × Nat → List Ev → Nat × Nat
  | s, [] => s
  | (_, lim), .request :: t => after (0, lim) t
  | (since, lim), .emit k :: t => after (since + k, lim) t
  | (since, _), .limit l :: t => after (since, l) t

theorem bounded_append (since lim : Nat) (t1 t2 : List Ev) :
    bounded since lim (t1 ++ t2) ↔
      bounded since lim t1 ∧ bounded (after (since, lim) t1).1 (after (since, lim) t1).2 t2 := by
  induction t1 generalizing since lim with
  | nil => simp [bounded, after]
  | cons ev t ih =>
    cases ev with
    | request => simp only [List.cons_append, bounded, after, ih]
    | emit k => simp only [List.cons_append, bounded, after, ih, and_assoc]
    | limit l => simp only [List.cons_append, bounded, after, ih]

theorem after_append (s : Nat × Nat) (t1 t2 : List Ev) : after s (t1 ++ t2) = after (after s t1) t2 := by
  induction t1 generalizing s with
  | nil => rfl
  | cons ev t ih =>
    obtain ⟨since, lim⟩ := s
    cases ev <;> simp only [List.cons_append, after, ih]

/-- the generator invariant: the callback is set, the counter has not wrapped, and the bytes emitted
    since the last request are covered by the blocks the counter has counted -/
structure PInv (p : Prng) (since : Nat) : Prop where
  cb : p.cb ≠ .null
  rc_pos : 1 ≤ p.rc.toNat
  covered : since ≤ 32 * (p.rc.toNat - 1)
  rl_pos : 1 ≤ p.rl.toNat
  rl_le : p.rl.toNat ≤ 32768

theorem request_some (e : Ent) (cb : CbKind) (buf : Bytes) (h : cb ≠ .null) : ∃ r, e.request cb buf = some r := by
  cases cb with
  | null => exact absurd rfl h
  | system => exact ⟨_, rfl⟩
  | user => unfold Ent.request; cases e.user <;> exact ⟨_, rfl⟩

theorem reseed_some (p : Prng) (e : Ent) (h : p.cb ≠ .null) :
    ∃ st p' e', p.reseed e = some (st, p', e') ∧ p'.rc = 1 ∧ p'.rl = p.rl ∧ p'.cb = p.cb := by
  obtain ⟨⟨ret, buf, e'⟩, hr⟩ := request_some e p.cb p.V h
  have hs : p.reseed e = some (if ret = 32 then 1 else 0,
      { p with V := hashDf 0x01 p.V buf, C := hashDf 0x00 (hashDf 0x01 p.V buf) [], rc := 1 }, e') := by
    unfold Prng.reseed; rw [hr]
  exact ⟨_, _, _, hs, rfl, rfl, rfl⟩

theorem reseed_inv (p : Prng) (e : Ent) (since : Nat) (hi : PInv p since) :
    ∃ st p' e', p.reseed e = some (st, p', e') ∧ PInv p' 0 ∧ p'.rl = p.rl := by
  obtain ⟨st, p', e', h, hrc, hrl, hcb⟩ := reseed_some p e hi.cb
  refine ⟨st, p', e', h, ⟨by rw [hcb]; exact hi.cb, by rw [hrc]; decide, by omega, by rw [hrl]; exact hi.rl_pos,
    by rw [hrl]; exact hi.rl_le⟩, hrl⟩

theorem u32_gt_iff (a b : UInt32) : a > b ↔ b.toNat < a.toNat := by
  show b < a ↔ _
  exact UInt32.lt_iff_toNat_lt

theorem u32_succ_toNat (a : UInt32) (h : a.toNat < 4294967295) : (a + 1).toNat = a.toNat + 1 := by
  simp [UInt32.toNat_add]; omega

/-- the reseed check: afterwards the counter is within the limit, so one more block may be emitted -/
theorem autoReseed_spec (p : Prng) (e : Ent) (since : Nat) (hi : PInv p since) :
    ∃ p1 e1 rq, p.autoReseed e = some (p1, e1, rq) ∧ p1.rl = p.rl ∧ p1.rc.toNat ≤ p1.rl.toNat ∧
      PInv p1 (after (since, p.rl.toNat) rq).1 ∧ bounded since p.rl.toNat rq ∧
      (after (since, p.rl.toNat) rq).2 = p.rl.toNat := by
  unfold Prng.autoReseed
  by_cases h : p.rc > p.rl
  · obtain ⟨st, p', e', hr, hi', hrl⟩ := reseed_inv p e since hi
    obtain ⟨_, _, _, hr2, hrc, _, _⟩ := reseed_some p e hi.cb
    rw [hr] at hr2
    simp only [h, if_true, hr]
    refine ⟨p', e', [.request], rfl, hrl, ?_, ?_, ?_, rfl⟩
    · have : p'.rc = 1 := by
        have := Option.some.inj hr2; simp only [Prod.mk.injEq] at this; rw [this.2.1]; exact hrc
      rw [this]; have := hi'.rl_pos; simpa using this
    · simpa [after] using hi'
    · simp [bounded]
  · simp only [h, if_false]
    refine ⟨p, e, [], rfl, rfl, ?_, ?_, ?_, rfl⟩
    · have : ¬ p.rl.toNat < p.rc.toNat := fun hlt => h ((u32_gt_iff p.rc p.rl).2 hlt)
      omega
    · simpa [after] using hi
    · simp [bounded]

theorem block_fields (p : Prng) : p.block.2.rl = p.rl ∧ p.block.2.cb = p.cb ∧ p.block.2.rc = p.rc + 1 := ⟨rfl, rfl, rfl⟩

/-- the block loop keeps the invariant, never fails, does not change the limit, and its trace is bounded -/
theorem genLoop_spec (n : Nat) : ∀ (p : Prng) (e : Ent) (since : Nat), PInv p since →
    ∃ r, p.genLoop e n = some r ∧ r.p.rl = p.rl ∧ bounded since p.rl.toNat r.trace ∧
      (after (since, p.rl.toNat) r.trace).2 = p.rl.toNat ∧
      PInv r.p (after (since, p.rl.toNat) r.trace).1 ∧ r.out.length = n := by
  induction n using Nat.strongRecOn with
  | _ n ih =>
    intro p e since hi
    rw [Prng.genLoop]
    by_cases h0 : n = 0
    · subst h0
      simp only [if_true]
      exact ⟨_, rfl, rfl, by simp [bounded], rfl, by simpa [after] using hi, rfl⟩
    · simp only [h0, if_false]
      obtain ⟨p1, e1, rq, ha, hrl1, hle, hi1, hb1, hl1⟩ := autoReseed_spec p e since hi
      rw [ha]
      simp only
      -- the block
      have hrc1 : p1.rc.toNat < 4294967295 := by have := hi1.rl_le; omega
      have hbrc : p1.block.2.rc.toNat = p1.rc.toNat + 1 := by
        rw [(block_fields p1).2.2]; exact u32_succ_toNat _ hrc1
      let s1 := (after (since, p.rl.toNat) rq).1
      have hlen : min 32 n ≤ 32 := by omega
      have hi2 : PInv p1.block.2 (s1 + min 32 n) := by
        refine ⟨by rw [(block_fields p1).2.1]; exact hi1.cb, by omega, ?_, by rw [(block_fields p1).1]; exact hi1.rl_pos,
          by rw [(block_fields p1).1]; exact hi1.rl_le⟩
        have := hi1.covered; have := hi1.rc_pos
        rw [hbrc]; show s1 + min 32 n ≤ _; omega
      obtain ⟨r, hr, hrrl, hrb, hrl2, hri, hrlen⟩ := ih (n - min 32 n) (by omega) p1.block.2 e1 (s1 + min 32 n) hi2
      rw [hr]
      simp only
      have hrl_b : p1.block.2.rl.toNat = p.rl.toNat := by rw [(block_fields p1).1, hrl1]
      refine ⟨_, rfl, ?_, ?_, ?_, ?_, ?_⟩
      · show r.p.rl = p.rl; rw [hrrl, (block_fields p1).1, hrl1]
      · show bounded since p.rl.toNat (rq ++ Ev.emit (min 32 n) :: r.trace)
        rw [bounded_append]
        refine ⟨hb1, ?_⟩
        rw [hl1]
        simp only [bounded]
        refine ⟨?_, ?_⟩
        · have := hi1.covered; have := hi1.rc_pos
          show s1 + min 32 n ≤ 32 * p.rl.toNat
          rw [← hrl1]; omega
        · rw [hrl_b] at hrb; exact hrb
      · show (after (since, p.rl.toNat) (rq ++ Ev.emit (min 32 n) :: r.trace)).2 = _
        rw [after_append]
        have : after (since, p.rl.toNat) rq = (s1, p.rl.toNat) := Prod.ext rfl hl1
        rw [this]; simp only [after]
        rw [hrl_b] at hrl2; exact hrl2
      · show PInv r.p (after (since, p.rl.toNat) (rq ++ Ev.emit (min 32 n) :: r.trace)).1
        rw [after_append]
        have : after (since, p.rl.toNat) rq = (s1, p.rl.toNat) := Prod.ext rfl hl1
        rw [this]; simp only [after]
        rw [hrl_b] at hri; exact hri
      · show (p1.block.1.take (min 32 n) ++ r.out).length = n
        have hh : p1.block.1.length = 32 := by
          show (hash p1.V).length = 32
          simp [hash, HState.finalize, store32]
        simp [hrlen, hh]; omega

end TJ

namespace TJ

theorem feed_rc_ge (p : Prng) (d : Bytes) : p.rc.toNat ≤ (p.feed d).rc.toNat := by
  show p.rc.toNat ≤ (if p.rc < 0xFFFFFFFF then p.rc + 1 else p.rc).toNat
  by_cases h : p.rc < 0xFFFFFFFF
  · have hl : p.rc.toNat < 4294967295 := by
      have := UInt32.lt_iff_toNat_lt.1 h; simpa using this
    simp only [h, if_true, u32_succ_toNat _ hl]; omega
  · simp only [h, if_false]; omega

theorem feed_inv (p : Prng) (d : Bytes) (since : Nat) (hi : PInv p since) : PInv (p.feed d) since := by
  have hge := feed_rc_ge p d
  exact ⟨hi.cb, by have := hi.rc_pos; omega, by have := hi.covered; omega, hi.rl_pos, hi.rl_le⟩

/-- the limit in blocks that `set_reseed_limit` stores -/
def limitBlocks (n : Nat) : Nat := max 1 ((min n 1048576 + 31) / 32)

theorem limitBlocks_range (n : Nat) : 1 ≤ limitBlocks n ∧ limitBlocks n ≤ 32768 := by
  unfold limitBlocks; omega

theorem setLimit_rl (p : Prng) (n : Nat) : (p.setLimit n).rl.toNat = limitBlocks n := by
  have hr := limitBlocks_range n
  have e : (p.setLimit n).rl = (limitBlocks n).toUInt32 := by
    unfold Prng.setLimit limitBlocks
    simp only
    congr 1
    by_cases h1 : n > 1048576
    · simp [h1]; omega
    · simp only [h1, if_false]
      by_cases h2 : (n + 31) / 32 = 0
      · simp [h2]; omega
      · simp [h2]; omega
  rw [e]; simp; omega

theorem setLimit_inv (p : Prng) (n since : Nat) (hi : PInv p since) : PInv (p.setLimit n) since := by
  have hr := limitBlocks_range n
  have := setLimit_rl p n
  exact ⟨hi.cb, hi.rc_pos, hi.covered, by omega, by omega⟩

/-- one API operation: succeeds, keeps the invariant, and its trace respects the bound -/
theorem runOp_spec (p : Prng) (e : Ent) (op : POp) (since : Nat) (hi : PInv p since) :
    ∃ p' e' t, p.runOp e op = some (p', e', t) ∧ bounded since p.rl.toNat t ∧
      PInv p' (after (since, p.rl.toNat) t).1 ∧ (after (since, p.rl.toNat) t).2 = p'.rl.toNat := by
  cases op with
  | gen n =>
    obtain ⟨r, hr, hrl, hb, hl, hi', _⟩ := genLoop_spec n p e since hi
    refine ⟨r.p, r.e, r.trace, ?_, hb, hi', by rw [hl, hrl]⟩
    simp only [Prng.runOp, Prng.generate, hr]
  | feed d =>
    exact ⟨p.feed d, e, [], rfl, by simp [bounded], by simpa [after] using feed_inv p d since hi, rfl⟩
  | reseed =>
    obtain ⟨st, p', e', hr, hi', hrl⟩ := reseed_inv p e since hi
    refine ⟨p', e', [.request], ?_, by simp [bounded], by simpa [after] using hi', by simp [after, hrl]⟩
    simp only [Prng.runOp, hr]
  | limit n =>
    exact ⟨p.setLimit n, e, [.limit (p.setLimit n).rl.toNat], rfl, by simp [bounded],
      by simpa [after] using setLimit_inv p n since hi, by simp [after]⟩

/-- every history of operations: never fails and never emits more than the limit in force between
    two entropy requests -/
theorem runOps_spec (ops : List POp) : ∀ (p : Prng) (e : Ent) (since : Nat), PInv p since →
    ∃ p' e' t, p.runOps e ops = some (p', e', t) ∧ bounded since p.rl.toNat t ∧
      PInv p' (after (since, p.rl.toNat) t).1 := by
  induction ops with
  | nil => intro p e since hi; exact ⟨p, e, [], rfl, by simp [bounded], by simpa [after] using hi⟩
  | cons op ops ih =>
    intro p e since hi
    obtain ⟨p1, e1, t1, h1, hb1, hi1, hl1⟩ := runOp_spec p e op since hi
    obtain ⟨p2, e2, t2, h2, hb2, hi2⟩ := ih p1 e1 _ hi1
    refine ⟨p2, e2, t1 ++ t2, ?_, ?_, ?_⟩
    · simp only [Prng.runOps, h1, h2]
    · rw [bounded_append]; exact ⟨hb1, by rw [hl1]; exact hb2⟩
    · rw [after_append]
      have : after (since, p.rl.toNat) t1 = ((after (since, p.rl.toNat) t1).1, p1.rl.toNat) := Prod.ext rfl hl1
      rw [this]; exact hi2

/-- initialisation always yields a generator satisfying the invariant with nothing emitted yet,
    the default limit of 32 blocks (1024 bytes), whatever the entropy source delivered -/
theorem initUser_inv (cb : CbKind) (ud : Bool) (custom : Bytes) (e : Ent) :
    ∃ st p e', Prng.initUser cb ud custom e = some (st, p, e') ∧ PInv p 0 ∧ p.rl = 32 := by
  have hcb : (if cb = .null then CbKind.system else cb) ≠ .null := by
    cases cb <;> simp
  obtain ⟨⟨ret, buf, e'⟩, hr⟩ := request_some e _ (zeros 32) hcb
  have hs : Prng.initUser cb ud custom e = some (if ret = 32 then 1 else 0,
      { V := hashDf 0xFF buf custom, C := hashDf 0x00 (hashDf 0xFF buf custom) [], rc := 1, rl := 32,
        cb := if cb = .null then CbKind.system else cb, ud := if cb = .null then false else ud, tail := zeros 8 }, e') := by
    unfold Prng.initUser; simp only; rw [hr]
  exact ⟨_, _, _, hs, ⟨hcb, by show 1 ≤ (1 : UInt32).toNat; decide, by omega, by show 1 ≤ (32 : UInt32).toNat; decide,
    by show (32 : UInt32).toNat ≤ 32768; decide⟩, rfl⟩

end TJ
