/-
  TJ.Proofs.AeadEncCore — lemmas for the message phase of the AEAD entry points: loading data words, the squeeze, the invariant of the
  message loop with the ghost memory (in-place use included).
-/
import TJ.Proofs.AeadEncStmt
namespace TJ.MiniC.Hoare
open TJ TJ.MiniC TJ.MiniC.PermC TJ.Gen.MiniC

theorem AI.frame {g : AGeo} {M : Array Block} {nv : Nat} {env : Env} {st : St} {s : W4} {kws : List UInt32} {sv : Nat} (ai : AI g M nv env st s kws sv)
    {e' : Env} {s' : St} (hsz : e'.size = nv) (hsv : e'[sv]? = env[sv]?) (hm : s'.mem = st.mem) (he : s'.ent = st.ent) : AI g M nv e' s' s kws sv :=
  ⟨hsz, by rw [hsv]; exact ai.e0, ai.klen, by rw [hm]; exact ai.obj, by rw [hm]; exact ai.oth, by rw [hm]; exact ai.msz, by rw [he]; exact ai.ent⟩

/-- `y_1 = data[o_1]; …; x = E(y_1, …)` -/
theorem load_data {g : AGeo} {M : Array Block} (dg : DGeo g M) {nv : Nat} {env : Env} {st : St} {s : W4} {kws : List UInt32} {sv : Nat} (ai : AI g M nv env st s kws sv)
    (off : Nat) (dat : Bytes) (hd : BytesV dg.XD off dat) {dv : Nat} (he1 : env[dv]? = some (mkPtr dg.bd (dg.based + off), .pub))
    (x : Nat) (loads : List (Nat × Nat)) (E : Expr) (c : UInt32)
    (hx : x ≠ sv ∧ x < nv) (hl0 : loads ≠ [])
    (hall : ∀ yo ∈ loads, yo.1 ≠ sv ∧ yo.1 ≠ dv ∧ yo.1 < nv ∧ yo.2 < dat.length) (hnd : (loads.map Prod.fst).Nodup)
    (hE : ∀ e' : Env, (∀ yo ∈ loads, EnvHas e' yo.1 (dat.getD yo.2 0).toNat) → EvalD e' E c.toNat)
    {Q : Sig → Env → St → Prop}
    (hQ : ∀ e' s', e'.size = nv → (∀ y, y ≠ x → y ∉ loads.map Prod.fst → e'[y]? = env[y]?) → EnvHas e' x c.toNat → AI g M nv e' s' s kws sv → Q .normal e' s') :
    RunsTo g.prog (seqs (loadsOf loads dv ++ [.assign x E])) env st Q := by
  have hes := ai.esz
  obtain ⟨XD', hmd, hXDs, hd'⟩ := data_block ai dg.bd dg.hne dg.XD dg.based off dat dg.h0 hd
  refine runs_seqs_append (Q := fun e' s' => e'.size = nv ∧ s'.mem = st.mem ∧ s'.ent = st.ent ∧
      (∀ z, z ∉ loads.map Prod.fst → e'[z]? = env[z]?) ∧ (∀ yo ∈ loads, EnvHas e' yo.1 (dat.getD yo.2 0).toNat)) _ (by simp) _
      (by cases loads with | nil => exact absurd rfl hl0 | cons a b => simp [loadsOf]) _ _ ?_ ?_
  · refine (runs_loads dg.bd dg.based off XD' dat dg.hbd30 (by rw [hXDs]; exact dg.hlt) hd' loads _ st hl0 he1 hmd
      (fun yo hyo => by have := hall yo hyo; rw [hes]; exact ⟨this.2.1, this.2.2.1, this.2.2.2⟩) hnd).weaken ?_
    intro sig e' s' ⟨h1, h2, h3, h4, h5, h6⟩
    exact ⟨h1, by rw [h2]; exact hes, h3, h4, h5, h6⟩
  · intro e' s' ⟨hsz, hmm, hent, hfr, hhas⟩
    obtain ⟨l, hev, hl⟩ := hE e' hhas
    show RunsTo g.prog (.assign x E) e' s' Q
    refine runs_assign _ hev ?_
    have hsvn : sv ∉ loads.map Prod.fst := fun h => by obtain ⟨yo, hyo, hy0⟩ := List.mem_map.mp h; exact (hall yo hyo).1 hy0
    refine hQ _ _ (by rw [size_setVar]; exact hsz) (fun y h1 h2 => by rw [get_set_ne _ _ _ _ (fun e => h1 e.symm)]; exact hfr y h2)
      ⟨l, get_set_eq _ _ _ (by omega), hl⟩ (ai.frame (by rw [size_setVar]; exact hsz) (by rw [get_set_ne _ _ _ _ hx.1]; exact hfr sv hsvn) hmm hent)

/-- `x = state->s[2]; w ^= x` -/
theorem squeeze_xor {g : AGeo} {M : Array Block} {nv : Nat} {env : Env} {st : St} {s : W4} {kws : List UInt32} {sv : Nat} (ai : AI g M nv env st s kws sv)
    (x w : Nat) (d : UInt32) (hx : x ≠ sv ∧ x < nv) (hw : w ≠ sv ∧ w < nv) (hxw : x ≠ w) (hd : EnvHas env w d.toNat)
    {Q : Sig → Env → St → Prop}
    (hQ : ∀ e' s', e'.size = nv → (∀ y, y ≠ x → y ≠ w → e'[y]? = env[y]?) → EnvHas e' w (d ^^^ s.c).toNat → AI g M nv e' s' s kws sv → Q .normal e' s') :
    RunsTo g.prog (seqs [.load x .u32 (addrS 2 sv), .assign w (.bin .bxor .u32 (.var w) (.var x))]) env st Q := by
  obtain ⟨X, hm, hXs, hws⟩ := ai.obj
  have hes := ai.esz; have hlt := g.hlt
  have hwc : WV X 2 s.c := hws.2 2 s.c rfl
  obtain ⟨l, hrd, hl⟩ := hwc.read
  simp only [seqs]
  refine runs_seq (Q := fun e s' => e = setVar env x (s.c.toNat, l) ∧ s' = { st with leak := Ev.rd (mkPtr g.bs (g.baseS + 4 * 2)) 4 :: st.leak }) ?_ ?_
  · exact runs_load (mkPtr g.bs (g.baseS + 4 * 2)) g.bs (4 * 2) 4 (s.c.toNat, l) rfl (evalE_addrS g 2 (by decide) ai.e0)
      (resolve_word hm (4 * 2) (by have := g.hal; omega) (by omega) (by omega)) (by rw [blockBytes_of hm]; exact hrd) ⟨rfl, rfl, rfl⟩
  · intro e s' ⟨he, hs⟩; rw [he, hs]
    have hxh : EnvHas (setVar env x (s.c.toNat, l)) x s.c.toNat := ⟨l, get_set_eq _ _ _ (by omega), hl⟩
    have hwh : EnvHas (setVar env x (s.c.toNat, l)) w d.toNat := by
      obtain ⟨l', h1, h2⟩ := hd
      exact ⟨l', by rw [get_set_ne _ _ _ _ hxw]; exact h1, h2⟩
    obtain ⟨lr, hev, hlr⟩ := (EvalD.var hwh).bitop (EvalD.var hxh) .bxor .u32 (d ^^^ s.c).toNat ⟨rfl, rfl⟩ (binVal_bxor_u32 d s.c)
    refine runs_assign _ hev ?_
    refine hQ _ _ (by simp only [size_setVar]; exact hes) (fun y h1 h2 => by rw [get_set_ne _ _ _ _ (fun e => h2 e.symm), get_set_ne _ _ _ _ (fun e => h1 e.symm)])
      ⟨lr, get_set_eq _ _ _ (by simp only [size_setVar]; omega), hlr⟩
      (ai.frame (by simp only [size_setVar]; exact hes) (by rw [get_set_ne _ _ _ _ hw.1, get_set_ne _ _ _ _ hx.1]) rfl rfl)


theorem EnvHas.frame {e e' : Env} {x v : Nat} (h : EnvHas e x v) (hfr : e'[x]? = e[x]?) : EnvHas e' x v := by
  obtain ⟨l, h1, h2⟩ := h
  exact ⟨l, by rw [hfr]; exact h1, h2⟩

theorem pv3 {a b c : Nat} {e : Env} (pv : PubVars [(0, a), (2, b), (3, c)] e) :
    e[0]? = some (a, .pub) ∧ e[2]? = some (b, .pub) ∧ e[3]? = some (c, .pub) :=
  ⟨pv (0, a) List.mem_cons_self, pv (2, b) (List.mem_cons_of_mem _ List.mem_cons_self),
   pv (3, c) (List.mem_cons_of_mem _ (List.mem_cons_of_mem _ List.mem_cons_self))⟩

theorem pv3_mk {a b c : Nat} {e : Env} (h0 : e[0]? = some (a, .pub)) (h2 : e[2]? = some (b, .pub)) (h3 : e[3]? = some (c, .pub)) :
    PubVars [(0, a), (2, b), (3, c)] e := by
  intro xv hxv
  simp only [List.mem_cons, List.mem_nil_iff, or_false] at hxv
  rcases hxv with h | h | h <;> rw [h] <;> assumption

theorem pv3_le {a b c : Nat} : ∀ xv ∈ [(0, a), (2, b), (3, c)], xv.1 ≤ 3 := by
  intro xv hxv
  simp only [List.mem_cons, List.mem_nil_iff, or_false] at hxv
  rcases hxv with h | h | h <;> rw [h] <;> simp

/-- where the ciphertext goes and the message comes from -/
structure EGeo (g : AGeo) where
  bo : Nat
  baseo : Nat
  oo : Nat
  osz : Nat
  bm : Nat
  basem : Nat
  moff : Nat
  msz : Nat
  hbo : bo ≠ g.bs
  hbm : bm ≠ g.bs
  hbo30 : bo < 2 ^ 30
  hbm30 : bm < 2 ^ 30
  hlto : baseo + osz < ptrBase
  hltm : basem + msz < ptrBase
  hdisj : bm ≠ bo ∨ (bm = bo ∧ moff = oo)
  XO0 : Array LByte
  M0 : Array Block

/-- the invariant of the message phase: `ct` is the ciphertext written so far, `rest` the message still to be read -/
structure EI (g : AGeo) (eg : EGeo g) (M : Array Block) (nv : Nat) (env : Env) (st : St) (s : W4) (kws : List UInt32) (ct rest : Bytes) : Prop where
  ai : AI g M nv env st s kws 8
  e0 : env[0]? = some (mkPtr eg.bo (eg.baseo + (eg.oo + ct.length)), .pub)
  e2 : env[2]? = some (mkPtr eg.bm (eg.basem + (eg.moff + ct.length)), .pub)
  e3 : env[3]? = some (rest.length, .pub)
  hm : ∃ XM, M[eg.bm]? = some ⟨XM, eg.basem⟩ ∧ XM.size = eg.msz ∧ BytesV XM (eg.moff + ct.length) rest
  ho : ∃ XO, M[eg.bo]? = some ⟨XO, eg.baseo⟩ ∧ XO.size = eg.osz ∧ BytesV XO eg.oo ct ∧ (∀ p, p < eg.oo ∨ eg.oo + ct.length ≤ p → XO[p]? = eg.XO0[p]?)
  oth0 : ∀ j, j ≠ eg.bo → M[j]? = eg.M0[j]?
  room : eg.oo + ct.length + rest.length + 8 ≤ eg.osz

/-- the unread message after a write to the output block (which may be the same buffer) -/
theorem msg_after {g : AGeo} (eg : EGeo g) {M : Array Block} {XM XO XO' : Array LByte} {q n : Nat} {rest : Bytes}
    (hM : M[eg.bm]? = some ⟨XM, eg.basem⟩) (hO : M[eg.bo]? = some ⟨XO, eg.baseo⟩) (hsz : XO'.size = XO.size)
    (hd : BytesV XM (eg.moff + q) rest) (hn : n ≤ rest.length) (hkeep : ∀ p, eg.oo + q + n ≤ p → XO'[p]? = XO[p]?) :
    ∃ XM', (setBlock M eg.bo XO')[eg.bm]? = some ⟨XM', eg.basem⟩ ∧ XM'.size = XM.size ∧ BytesV XM' (eg.moff + (q + n)) (rest.drop n) := by
  have hdrop := bytesV_drop hd n hn
  rw [Nat.add_assoc] at hdrop
  rcases eg.hdisj with hne | ⟨heq, hoff⟩
  · exact ⟨XM, by rw [getElem?_setBlock', if_neg hne]; exact hM, rfl, hdrop⟩
  · rw [heq] at hM
    rw [hM] at hO
    have hX : XM = XO := by injection hO with h; injection h
    have hb : eg.basem = eg.baseo := by injection hO with h; injection h
    subst hX
    refine ⟨XO', by rw [heq, getElem?_setBlock', if_pos rfl, hM, hb]; rfl, hsz, ⟨by rw [hsz]; exact hdrop.1, fun k b hk => ?_⟩⟩
    obtain ⟨l, hx, hl⟩ := hdrop.2 k b hk
    exact ⟨l, by rw [hkeep _ (by rw [hoff]; omega)]; exact hx, hl⟩

theorem bytesV_snoc {X X' : Array LByte} {off : Nat} {a b : Bytes} (ha : BytesV X off a) (hsz : X'.size = X.size) (hroom : off + a.length + b.length ≤ X.size)
    (hkeep : ∀ p, p < off + a.length → X'[p]? = X[p]?) (hb : ∀ k c, b[k]? = some c → BV X' (off + a.length + k) c) : BytesV X' off (a ++ b) := by
  refine ⟨by rw [hsz, List.length_append]; omega, fun k c hk => ?_⟩
  by_cases hka : k < a.length
  · rw [List.getElem?_append_left hka] at hk
    obtain ⟨l, hx, hl⟩ := ha.2 k c hk
    exact ⟨l, by rw [hkeep _ (by omega)]; exact hx, hl⟩
  · rw [List.getElem?_append_right (by omega)] at hk
    have := hb _ c hk
    rw [show off + a.length + (k - a.length) = off + k from by omega] at this
    exact this

theorem store32_bv {X : Array LByte} {q : Nat} {d : UInt32} (h : ∀ j, j < 4 → BV X (q + j) (byteOf d.toNat j)) :
    ∀ k c, (store32 d)[k]? = some c → BV X (q + k) c := by
  intro k c hk
  rw [store32_bytes] at hk
  have hk4 : k < 4 := by
    by_cases h : k < 4
    · exact h
    · rw [List.getElem?_eq_none (by simp; omega)] at hk; cases hk
  match k, hk4, hk with
  | 0, _, hk => have e : c = byteOf d.toNat 0 := by simpa using hk.symm
                rw [e]; exact h 0 (by decide)
  | 1, _, hk => have e : c = byteOf d.toNat 1 := by simpa using hk.symm
                rw [e]; exact h 1 (by decide)
  | 2, _, hk => have e : c = byteOf d.toNat 2 := by simpa using hk.symm
                rw [e]; exact h 2 (by decide)
  | 3, _, hk => have e : c = byteOf d.toNat 3 := by simpa using hk.symm
                rw [e]; exact h 3 (by decide)

end TJ.MiniC.Hoare
