/-
  TJ.Proofs.AeadExpr — values of the byte-combining expressions the translator produces for `le_load_word32`, `le_load_word16`, single
  bytes and the 3-byte tail, evaluated on variables holding bytes with arbitrary defined labels.
-/
import TJ.Proofs.VWorld
namespace TJ.MiniC.Hoare
open TJ TJ.MiniC TJ.MiniC.PermC TJ.Gen.MiniC

/-- variable `x` holds value `v` with some defined label -/
def EnvHas (e : Env) (x v : Nat) : Prop := ∃ l, e[x]? = some (v, l) ∧ l ≠ Lab.undef
/-- expression `E` evaluates to `v` with some defined label -/
def EvalD (e : Env) (E : Expr) (v : Nat) : Prop := ∃ l, evalE e E = .ok (v, l) ∧ l ≠ Lab.undef

theorem EnvHas.of_pub {e : Env} {x v : Nat} (h : e[x]? = some (v, .pub)) : EnvHas e x v := ⟨.pub, h, by decide⟩

theorem EvalD.var {e : Env} {x v : Nat} (h : EnvHas e x v) : EvalD e (.var x) v := by
  obtain ⟨l, hx, hl⟩ := h
  exact ⟨l, by simp only [evalE, hx, hl, if_false], hl⟩

theorem EvalD.lit (e : Env) (n : Nat) : EvalD e (.lit n) n := ⟨.pub, rfl, by decide⟩

theorem EvalD.cast {e : Env} {E : Expr} {v : Nat} (h : EvalD e E v) (to fr : Ty) : EvalD e (.cast to fr E) (castVal to fr v) := by
  obtain ⟨l, hx, hl⟩ := h
  exact ⟨l, by simp only [evalE, hx], hl⟩

theorem EvalD.un {e : Env} {E : Expr} {v : Nat} (h : EvalD e E v) (op : UnOp) (t : Ty) : EvalD e (.un op t E) (unVal op t v) := by
  obtain ⟨l, hx, hl⟩ := h
  exact ⟨l, by simp only [evalE, hx], hl⟩

theorem join_defined (a b : Lab) : a.join b ≠ Lab.undef := by cases a <;> cases b <;> simp [Lab.join]

/-- a bitwise operation (no operand has to be public) -/
theorem EvalD.bitop {e : Env} {A B : Expr} {a b : Nat} (ha : EvalD e A a) (hb : EvalD e B b) (op : BinOp) (t : Ty) (r : Nat)
    (hop : op.needsPub2 = false ∧ op.needsPub1 = false) (hr : binVal op t a b = some r) : EvalD e (.bin op t A B) r := by
  obtain ⟨la, hxa, hla⟩ := ha
  obtain ⟨lb, hxb, hlb⟩ := hb
  exact ⟨la.join lb, by simp only [evalE, hxa, hxb, hop.1, hop.2, Bool.false_and, Bool.or_self, Bool.false_eq_true, if_false, hr], join_defined _ _⟩

/-- a shift by a literal amount -/
theorem EvalD.shiftLit {e : Env} {A : Expr} {a : Nat} (ha : EvalD e A a) (op : BinOp) (t : Ty) (k r : Nat)
    (hop : op.needsPub1 = false) (hr : binVal op t a k = some r) : EvalD e (.bin op t A (.lit k)) r := by
  obtain ⟨la, hxa, hla⟩ := ha
  refine ⟨la.join .pub, ?_, join_defined _ _⟩
  simp only [evalE, hxa, hop, Bool.false_and, Bool.or_false, ne_eq, not_true_eq_false, decide_false, Bool.and_false, Bool.false_eq_true, if_false, hr]

def e32 (x3 x2 x1 x0 : Nat) : Expr :=
  .bin .bor .u32 (.bin .bor .u32 (.bin .bor .u32 (.bin .shl .u32 (.cast .u32 .u8 (.var x3)) (.lit 24)) (.bin .shl .u32 (.cast .u32 .u8 (.var x2)) (.lit 16)))
    (.bin .shl .u32 (.cast .u32 .u8 (.var x1)) (.lit 8))) (.cast .u32 .u8 (.var x0))
def e8 (x0 : Nat) : Expr := .cast .u32 .u8 (.var x0)
def e16 (x1 x0 : Nat) : Expr :=
  .cast .u32 .i32 (.bin .bor .i32 (.bin .shl .i32 (.cast .i32 .u16 (.cast .u16 .u8 (.var x1))) (.lit 8)) (.cast .i32 .u16 (.cast .u16 .u8 (.var x0))))
def e24 (x1 x0 x2 : Nat) : Expr := .bin .bor .u32 (e16 x1 x0) (.bin .shl .u32 (.cast .u32 .u8 (.var x2)) (.lit 16))

theorem castVal_u32_u8' (b : UInt8) : castVal .u32 .u8 b.toNat = b.toNat := by
  have := UInt8.toNat_lt b
  simp only [castVal, Ty.signed, Bool.false_eq_true, if_false, Ty.modulus]; omega

theorem load32_toNat (b0 b1 b2 b3 : UInt8) :
    (load32 b0 b1 b2 b3).toNat = (((b3.toNat <<< 24) % 4294967296 ||| (b2.toNat <<< 16) % 4294967296) ||| (b1.toNat <<< 8) % 4294967296) ||| b0.toNat := by
  simp [load32, UInt32.toNat_or, UInt32.toNat_shiftLeft, UInt8.toNat_toUInt32]

theorem evalD_e32 {e : Env} {x3 x2 x1 x0 : Nat} {b0 b1 b2 b3 : UInt8} (h3 : EnvHas e x3 b3.toNat) (h2 : EnvHas e x2 b2.toNat) (h1 : EnvHas e x1 b1.toNat)
    (h0 : EnvHas e x0 b0.toNat) : EvalD e (e32 x3 x2 x1 x0) (load32 b0 b1 b2 b3).toNat := by
  have c3 := (EvalD.var h3).cast .u32 .u8; rw [castVal_u32_u8'] at c3
  have c2 := (EvalD.var h2).cast .u32 .u8; rw [castVal_u32_u8'] at c2
  have c1 := (EvalD.var h1).cast .u32 .u8; rw [castVal_u32_u8'] at c1
  have c0 := (EvalD.var h0).cast .u32 .u8; rw [castVal_u32_u8'] at c0
  have s3 := c3.shiftLit .shl .u32 24 ((b3.toNat <<< 24) % 4294967296) rfl (by simp [binVal, Ty.bits, Ty.modulus])
  have s2 := c2.shiftLit .shl .u32 16 ((b2.toNat <<< 16) % 4294967296) rfl (by simp [binVal, Ty.bits, Ty.modulus])
  have s1 := c1.shiftLit .shl .u32 8 ((b1.toNat <<< 8) % 4294967296) rfl (by simp [binVal, Ty.bits, Ty.modulus])
  have o1 := s3.bitop s2 .bor .u32 _ ⟨rfl, rfl⟩ rfl
  have o2 := o1.bitop s1 .bor .u32 _ ⟨rfl, rfl⟩ rfl
  have o3 := o2.bitop c0 .bor .u32 _ ⟨rfl, rfl⟩ rfl
  rw [load32_toNat]
  exact o3

theorem evalD_e8 {e : Env} {x0 : Nat} {b0 : UInt8} (h0 : EnvHas e x0 b0.toNat) : EvalD e (e8 x0) b0.toUInt32.toNat := by
  have c0 := (EvalD.var h0).cast .u32 .u8; rw [castVal_u32_u8'] at c0
  simpa [e8, UInt8.toNat_toUInt32] using c0

theorem castVal_u32_i32_small (v : Nat) (h : v < 2147483648) : castVal .u32 .i32 v = v := by
  simp only [castVal, Ty.signed, if_true, toInt, Bool.true_and, Ty.half, ge_iff_le, ofInt, Ty.modulus]
  have : ¬ 2147483648 ≤ v := by omega
  simp only [this, decide_false, Bool.false_eq_true, if_false]
  omega

theorem castVal_u16_u8' (b : UInt8) : castVal .u16 .u8 b.toNat = b.toNat := by
  have := UInt8.toNat_lt b
  simp only [castVal, Ty.signed, Bool.false_eq_true, if_false, Ty.modulus]; omega

theorem castVal_i32_u16_small (v : Nat) (h : v < 65536) : castVal .i32 .u16 v = v := by
  simp only [castVal, Ty.signed, Bool.false_eq_true, if_false, Ty.modulus]; omega

theorem load16_toNat (b0 b1 : UInt8) : (load16 b0 b1).toNat = (b1.toNat <<< 8) % 4294967296 ||| b0.toNat := by
  simp [load16, UInt32.toNat_or, UInt32.toNat_shiftLeft, UInt8.toNat_toUInt32]

theorem load24_toNat (b0 b1 b2 : UInt8) : (load24 b0 b1 b2).toNat = ((b1.toNat <<< 8) % 4294967296 ||| b0.toNat) ||| (b2.toNat <<< 16) % 4294967296 := by
  simp [load24, load16, UInt32.toNat_or, UInt32.toNat_shiftLeft, UInt8.toNat_toUInt32]

theorem or_lt_65536 (a b : Nat) (ha : a < 65536) (hb : b < 65536) : a ||| b < 65536 := Nat.or_lt_two_pow (n := 16) ha hb

theorem evalD_e16 {e : Env} {x1 x0 : Nat} {b0 b1 : UInt8} (h1 : EnvHas e x1 b1.toNat) (h0 : EnvHas e x0 b0.toNat) :
    EvalD e (e16 x1 x0) (load16 b0 b1).toNat := by
  have l0 := UInt8.toNat_lt b0; have l1 := UInt8.toNat_lt b1
  have c1 := ((EvalD.var h1).cast .u16 .u8).cast .i32 .u16; rw [castVal_u16_u8', castVal_i32_u16_small _ (by omega)] at c1
  have c0 := ((EvalD.var h0).cast .u16 .u8).cast .i32 .u16; rw [castVal_u16_u8', castVal_i32_u16_small _ (by omega)] at c0
  have hsh : (b1.toNat <<< 8) % 4294967296 < 65536 := by
    rw [Nat.shiftLeft_eq]; omega
  have s1 := c1.shiftLit .shl .i32 8 ((b1.toNat <<< 8) % 4294967296) rfl (by simp [binVal, Ty.bits, Ty.modulus])
  have o1 := s1.bitop c0 .bor .i32 _ ⟨rfl, rfl⟩ rfl
  have o2 := o1.cast .u32 .i32
  rw [castVal_u32_i32_small _ (by have := or_lt_65536 _ _ hsh (show b0.toNat < 65536 from by omega); omega)] at o2
  rw [load16_toNat]
  exact o2

theorem evalD_e24 {e : Env} {x1 x0 x2 : Nat} {b0 b1 b2 : UInt8} (h1 : EnvHas e x1 b1.toNat) (h0 : EnvHas e x0 b0.toNat) (h2 : EnvHas e x2 b2.toNat) :
    EvalD e (e24 x1 x0 x2) (load24 b0 b1 b2).toNat := by
  have c2 := (EvalD.var h2).cast .u32 .u8; rw [castVal_u32_u8'] at c2
  have s2 := c2.shiftLit .shl .u32 16 ((b2.toNat <<< 16) % 4294967296) rfl (by simp [binVal, Ty.bits, Ty.modulus])
  have o := (evalD_e16 h1 h0).bitop s2 .bor .u32 _ ⟨rfl, rfl⟩ rfl
  rw [load16_toNat] at o
  rw [load24_toNat]
  exact o

end TJ.MiniC.Hoare
