/-
  TJ.Proofs.PbkdfXor — the 32-byte T ^= U loop of tinyjambu_pbkdf2_f on the regenerated term (upward induction).
-/
import TJ.Proofs.PbkdfCore
namespace TJ.MiniC.Hoare
open TJ TJ.MiniC TJ.MiniC.PermC TJ.Gen.MiniC

/-- the 32-byte `T ^= U` loop of `tinyjambu_pbkdf2_f`, with its temporaries starting at variable `a` -/
def xor32Body (a : Nat) : Stmt :=
  .ite (.bin .gt .u32 (.var (a + 2)) (.cast .u32 .i32 (.lit 0)))
    (seqs [seqs [.assign (a + 3) (.var a), .assign a (.bin .add .u64 (.var a) (.lit 1)), .assign (a + 4) (.var (a + 3)), .assign (a + 5) (.var (a + 1)),
                 .assign (a + 1) (.bin .add .u64 (.var (a + 1)) (.lit 1)), .load (a + 6) .u8 (.var (a + 5)), .load (a + 7) .u8 (.var (a + 4)),
                 .store .u8 (.var (a + 4)) (.cast .u8 .i32 (.bin .bxor .i32 (.cast .i32 .u8 (.var (a + 7))) (.cast .i32 .u8 (.var (a + 6)))))],
           .assign (a + 2) (.bin .sub .u32 (.var (a + 2)) (.lit 1))])
    .brk

def xor32Stmt (a : Nat) : Stmt :=
  seqs [.assign a (.var 1), .assign (a + 1) (.var 2), .assign (a + 2) (.cast .u32 .i32 (.lit 32)), .loop (xor32Body a)]

/-- byte `k` of `T` while the loop stands at index `i` -/
def xb (t u : Bytes) (i k : Nat) : UInt8 := if k < i then t.getD k 0 ^^^ u.getD k 0 else t.getD k 0

structure X32 (a bt baset toff bu baseu uoff nv : Nat) (t u : Bytes) (mem0 : Array Block) (ent0 : List Delivery) (env0 : Env) (i : Nat) (env : Env) (st : St) : Prop where
  esz : env.size = nv
  ea : env[a]? = some (mkPtr bt (baset + toff + i), .pub)
  eb : env[a + 1]? = some (mkPtr bu (baseu + uoff + i), .pub)
  ec : env[a + 2]? = some (32 - i, .pub)
  tb : ∃ XT, st.mem[bt]? = some ⟨XT, baset⟩ ∧ XT.size = (blockBytes mem0 bt).size ∧ (∀ k, k < 32 → BV XT (toff + k) (xb t u i k)) ∧
        (∀ p, (p < toff ∨ toff + 32 ≤ p) → XT[p]? = (blockBytes mem0 bt)[p]?)
  oth : ∀ j, j ≠ bt → st.mem[j]? = mem0[j]?
  msz : st.mem.size = mem0.size
  ent : st.ent = ent0
  fr : ∀ y, y < a → env[y]? = env0[y]?

theorem sub32 (n : Nat) (h1 : 1 ≤ n) (h2 : n < 4294967296) : (n + 4294967296 - 1 % 4294967296) % 4294967296 = n - 1 := by
  rw [Nat.mod_eq_of_lt (by decide : 1 < 4294967296)]
  have : n + 4294967296 - 1 = (n - 1) + 4294967296 := by omega
  rw [this, Nat.add_mod_right, Nat.mod_eq_of_lt (by omega)]

theorem x32_iter (a bt baset toff bu baseu uoff nv : Nat) (t u : Bytes) (mem0 : Array Block) (ent0 : List Delivery) (env0 : Env)
    (hnv : a + 8 ≤ nv) (hbt : bt < 2 ^ 30) (hbu : bu < 2 ^ 30) (hne : bt ≠ bu) (XU : Array LByte) (hU : mem0[bu]? = some ⟨XU, baseu⟩) (hud : BytesV XU uoff u) (hul : u.length = 32)
    (hltT : baset + (blockBytes mem0 bt).size < ptrBase) (hltU : baseu + XU.size < ptrBase) (hTin : toff + 32 ≤ (blockBytes mem0 bt).size)
    (i : Nat) (hi : i < 32) {env : Env} {st : St} (x : X32 a bt baset toff bu baseu uoff nv t u mem0 ent0 env0 i env st) :
    RunsTo prog (xor32Body a) env st (fun sig e' s' => sig = .normal ∧ X32 a bt baset toff bu baseu uoff nv t u mem0 ent0 env0 (i + 1) e' s') := by
  obtain ⟨XT, hT, hTs, hTd, hTo⟩ := x.tb
  have hes := x.esz
  have hUs : st.mem[bu]? = some ⟨XU, baseu⟩ := by rw [x.oth bu (fun e => hne e.symm)]; exact hU
  have hti : BV XT (toff + i) (t.getD i 0) := by have := hTd i hi; simp only [xb, Nat.lt_irrefl, if_false] at this; exact this
  have hui : BV XU (uoff + i) (u.getD i 0) := hud.2 i _ (by rw [List.getD_eq_getElem?_getD, List.getElem?_eq_getElem (by omega)]; rfl)
  obtain ⟨lt, hrt, hlt⟩ := hti.read
  obtain ⟨lu, hru, hlu⟩ := hui.read
  have hpt : (mkPtr bt (baset + toff + i) + 1) % 18446744073709551616 = mkPtr bt (baset + toff + (i + 1)) := by
    rw [ptr_off bt _ 1 hbt (by omega), Nat.add_assoc]
  have hpu : (mkPtr bu (baseu + uoff + i) + 1) % 18446744073709551616 = mkPtr bu (baseu + uoff + (i + 1)) := by
    rw [ptr_off bu _ 1 hbu (by have := hud.1; omega), Nat.add_assoc]
  unfold xor32Body
  refine runs_ite_true 1 ?_ (by decide) ?_
  · simp only [evalE, x.ec, reduceCtorEq, if_false, castVal_u32_i32_small 0 (by decide), BinOp.needsPub2, BinOp.needsPub1, Bool.false_and, Bool.or_self,
      Bool.false_eq_true, binVal, Ty.signed, gt_iff_lt, show 0 < 32 - i from by omega, decide_true, b2n, if_true, Lab.join_pub_pub]
  simp only [seqs]
  generalize hl0 : Ev.br true :: st.leak = L0
  refine runs_seq (Q := fun e s => ∃ (lr : Lab) (L8 : List Ev), lr ≠ Lab.undef ∧ e[a]? = some (mkPtr bt (baset + toff + (i + 1)), .pub) ∧ e[a + 1]? = some (mkPtr bu (baseu + uoff + (i + 1)), .pub) ∧
      e[a + 2]? = some (32 - i, .pub) ∧ e.size = nv ∧ (∀ y, y < a → e[y]? = env0[y]?) ∧
      s = { st with leak := L8, mem := setBlock st.mem bt (XT.setIfInBounds (toff + i) ((t.getD i 0) ^^^ (u.getD i 0), lr)) }) ?_ ?_
  rotate_left
  · intro e s ⟨lr, L8, hlr, ea', eb', ec', esz', efr', hs'⟩
    rw [hs']
    refine runs_assign (32 - (i + 1), .pub) (by
      simp only [evalE, ec', reduceCtorEq, if_false, BinOp.needsPub2, BinOp.needsPub1, Bool.false_and, Bool.or_self, Bool.false_eq_true, binVal, Ty.modulus, Lab.join_pub_pub,
        sub32 (32 - i) (by omega) (by omega)]
      congr 2) ?_
    refine ⟨rfl, by rw [size_setVar]; exact esz', by rw [get_set_ne _ _ _ _ (by omega)]; exact ea', by rw [get_set_ne _ _ _ _ (by omega)]; exact eb', get_set_eq _ _ _ (by omega),
      ⟨_, by show (setBlock st.mem bt _)[bt]? = _; rw [getElem?_setBlock', if_pos rfl, hT]; rfl, by rw [Array.size_setIfInBounds]; exact hTs, fun k hk => ?_, fun p hp => ?_⟩,
      fun j hj => by show (setBlock st.mem bt _)[j]? = _; rw [getElem?_setBlock', if_neg hj]; exact x.oth j hj,
      by show (setBlock st.mem bt _).size = _; rw [size_setBlock']; exact x.msz, x.ent, fun y hy => by rw [get_set_ne _ _ _ _ (by omega)]; exact efr' y hy⟩
    · by_cases hki : k = i
      · subst hki
        exact ⟨lr, by rw [Array.getElem?_setIfInBounds, if_pos rfl, if_pos (by omega)]; simp [xb], hlr⟩
      · obtain ⟨l, hx', hl⟩ := hTd k hk
        refine ⟨l, ?_, hl⟩
        rw [Array.getElem?_setIfInBounds, if_neg (by omega), hx']
        simp only [xb]
        by_cases h1 : k < i
        · simp [h1, show k < i + 1 from by omega]
        · simp [h1, show ¬ k < i + 1 from by omega]
    · rw [Array.getElem?_setIfInBounds, if_neg (by omega)]; exact hTo p hp
  generalize hE1 : setVar env (a + 3) (mkPtr bt (baset + toff + i), .pub) = E1
  have e1a : E1[a]? = some (mkPtr bt (baset + toff + i), .pub) := by rw [← hE1, get_set_ne _ _ _ _ (by omega)]; exact x.ea
  refine runs_seq (Q := fun e s => e = E1 ∧ s = { st with leak := L0 }) (runs_assign (mkPtr bt (baset + toff + i), Lab.pub) (by simp only [evalE, x.ea, reduceCtorEq, if_false]) ⟨rfl, hE1, rfl⟩) ?_
  intro e s ⟨he, hs⟩; rw [he, hs]
  generalize hE2 : setVar E1 a (mkPtr bt (baset + toff + (i + 1)), .pub) = E2
  refine runs_seq (Q := fun e s => e = E2 ∧ s = { st with leak := L0 }) (runs_assign (mkPtr bt (baset + toff + (i + 1)), Lab.pub) (by
    simp only [evalE, e1a, reduceCtorEq, if_false, BinOp.needsPub2, BinOp.needsPub1, Bool.false_and, Bool.or_self, Bool.false_eq_true, binVal, Ty.modulus, Lab.join_pub_pub, hpt]) ⟨rfl, hE2, rfl⟩) ?_
  intro e s ⟨he, hs⟩; rw [he, hs]
  have e2_3 : E2[a + 3]? = some (mkPtr bt (baset + toff + i), .pub) := by
    rw [← hE2, get_set_ne _ _ _ _ (by omega), ← hE1]; exact get_set_eq _ _ _ (by omega)
  generalize hE3 : setVar E2 (a + 4) (mkPtr bt (baset + toff + i), .pub) = E3
  refine runs_seq (Q := fun e s => e = E3 ∧ s = { st with leak := L0 }) (runs_assign (mkPtr bt (baset + toff + i), Lab.pub) (by simp only [evalE, e2_3, reduceCtorEq, if_false]) ⟨rfl, hE3, rfl⟩) ?_
  intro e s ⟨he, hs⟩; rw [he, hs]
  have e3_1 : E3[a + 1]? = some (mkPtr bu (baseu + uoff + i), .pub) := by
    rw [← hE3, get_set_ne _ _ _ _ (by omega), ← hE2, get_set_ne _ _ _ _ (by omega), ← hE1, get_set_ne _ _ _ _ (by omega)]; exact x.eb
  generalize hE4 : setVar E3 (a + 5) (mkPtr bu (baseu + uoff + i), .pub) = E4
  refine runs_seq (Q := fun e s => e = E4 ∧ s = { st with leak := L0 }) (runs_assign (mkPtr bu (baseu + uoff + i), Lab.pub) (by simp only [evalE, e3_1, reduceCtorEq, if_false]) ⟨rfl, hE4, rfl⟩) ?_
  intro e s ⟨he, hs⟩; rw [he, hs]
  have e4_1 : E4[a + 1]? = some (mkPtr bu (baseu + uoff + i), .pub) := by rw [← hE4, get_set_ne _ _ _ _ (by omega)]; exact e3_1
  generalize hE5 : setVar E4 (a + 1) (mkPtr bu (baseu + uoff + (i + 1)), .pub) = E5
  refine runs_seq (Q := fun e s => e = E5 ∧ s = { st with leak := L0 }) (runs_assign (mkPtr bu (baseu + uoff + (i + 1)), Lab.pub) (by
    simp only [evalE, e4_1, reduceCtorEq, if_false, BinOp.needsPub2, BinOp.needsPub1, Bool.false_and, Bool.or_self, Bool.false_eq_true, binVal, Ty.modulus, Lab.join_pub_pub, hpu]) ⟨rfl, hE5, rfl⟩) ?_
  intro e s ⟨he, hs⟩; rw [he, hs]
  have sz1 : E1.size = nv := by rw [← hE1, size_setVar]; exact hes
  have sz2 : E2.size = nv := by rw [← hE2, size_setVar]; exact sz1
  have sz3 : E3.size = nv := by rw [← hE3, size_setVar]; exact sz2
  have sz4 : E4.size = nv := by rw [← hE4, size_setVar]; exact sz3
  have sz5 : E5.size = nv := by rw [← hE5, size_setVar]; exact sz4
  have e5_5 : E5[a + 5]? = some (mkPtr bu (baseu + uoff + i), .pub) := by
    rw [← hE5, get_set_ne _ _ _ _ (by omega), ← hE4]; exact get_set_eq _ _ _ (by omega)
  have e5_4 : E5[a + 4]? = some (mkPtr bt (baset + toff + i), .pub) := by
    rw [← hE5, get_set_ne _ _ _ _ (by omega), ← hE4, get_set_ne _ _ _ _ (by omega), ← hE3]; exact get_set_eq _ _ _ (by omega)
  generalize hE6 : setVar E5 (a + 6) ((u.getD i 0).toNat, lu) = E6
  generalize hl6 : Ev.rd (mkPtr bu (baseu + uoff + i)) 1 :: L0 = L6
  refine runs_seq (Q := fun e s => e = E6 ∧ s = { st with leak := L6 }) ?_ ?_
  · exact runs_load (mkPtr bu (baseu + uoff + i)) bu (uoff + i) 1 ((u.getD i 0).toNat, lu) rfl (by simp only [evalE, e5_5, reduceCtorEq, if_false])
      (by have := resolve_byte (show ({ st with leak := L0 } : St).mem[bu]? = _ from hUs) (uoff + i) (by have := hud.1; omega) (by have := hud.1; omega); rw [← Nat.add_assoc] at this; exact this)
      (by rw [blockBytes_of (show ({ st with leak := L0 } : St).mem[bu]? = _ from hUs)]; exact hru) ⟨rfl, hE6, by rw [← hl6]⟩
  intro e s ⟨he, hs⟩; rw [he, hs]
  have sz6 : E6.size = nv := by rw [← hE6, size_setVar]; exact sz5
  have e6_4 : E6[a + 4]? = some (mkPtr bt (baset + toff + i), .pub) := by rw [← hE6, get_set_ne _ _ _ _ (by omega)]; exact e5_4
  generalize hE7 : setVar E6 (a + 7) ((t.getD i 0).toNat, lt) = E7
  generalize hl7 : Ev.rd (mkPtr bt (baset + toff + i)) 1 :: L6 = L7
  refine runs_seq (Q := fun e s => e = E7 ∧ s = { st with leak := L7 }) ?_ ?_
  · exact runs_load (mkPtr bt (baset + toff + i)) bt (toff + i) 1 ((t.getD i 0).toNat, lt) rfl (by simp only [evalE, e6_4, reduceCtorEq, if_false])
      (by have := resolve_byte (show ({ st with leak := L6 } : St).mem[bt]? = _ from hT) (toff + i) (by omega) (by omega); rw [← Nat.add_assoc] at this; exact this)
      (by rw [blockBytes_of (show ({ st with leak := L6 } : St).mem[bt]? = _ from hT)]; exact hrt) ⟨rfl, hE7, by rw [← hl7]⟩
  intro e s ⟨he, hs⟩; rw [he, hs]
  have sz7 : E7.size = nv := by rw [← hE7, size_setVar]; exact sz6
  have e7_7 : EnvHas E7 (a + 7) (t.getD i 0).toNat := ⟨lt, by rw [← hE7]; exact get_set_eq _ _ _ (by omega), hlt⟩
  have e7_6 : EnvHas E7 (a + 6) (u.getD i 0).toNat := ⟨lu, by rw [← hE7, get_set_ne _ _ _ _ (by omega), ← hE6]; exact get_set_eq _ _ _ (by omega), hlu⟩
  have e7_4 : E7[a + 4]? = some (mkPtr bt (baset + toff + i), .pub) := by rw [← hE7, get_set_ne _ _ _ _ (by omega)]; exact e6_4
  have hx := ((EvalD.var e7_7).cast .i32 .u8).bitop ((EvalD.var e7_6).cast .i32 .u8) .bxor .i32 ((t.getD i 0) ^^^ (u.getD i 0)).toNat ⟨rfl, rfl⟩ (by
    rw [TJ.MiniC.CheckTagC.castVal_i32_u8, TJ.MiniC.CheckTagC.castVal_i32_u8]; simp [binVal, UInt8.toNat_xor])
  have hv := hx.cast .u8 .i32
  rw [castVal_u8_i32_small _ (UInt8.toNat_lt _)] at hv
  obtain ⟨lr, hev, hlr⟩ := hv
  have hm7 : ({ st with leak := L7 } : St).mem[bt]? = some ⟨XT, baset⟩ := hT
  have e7_2 : E7[a + 2]? = some (32 - i, .pub) := by
    rw [← hE7, get_set_ne _ _ _ _ (by omega), ← hE6, get_set_ne _ _ _ _ (by omega), ← hE5, get_set_ne _ _ _ _ (by omega), ← hE4, get_set_ne _ _ _ _ (by omega), ← hE3,
      get_set_ne _ _ _ _ (by omega), ← hE2, get_set_ne _ _ _ _ (by omega), ← hE1, get_set_ne _ _ _ _ (by omega)]; exact x.ec
  refine runs_store (mkPtr bt (baset + toff + i)) ((t.getD i 0) ^^^ (u.getD i 0)).toNat bt (toff + i) 1 lr rfl (by simp only [evalE, e7_4, reduceCtorEq, if_false]) hev
    (by have := resolve_byte hm7 (toff + i) (by omega) (by omega); rw [← Nat.add_assoc] at this; exact this) ?_
  rw [blockBytes_of hm7]
  have hwr : writeLE XT (toff + i) ((t.getD i 0) ^^^ (u.getD i 0)).toNat lr 1 = XT.setIfInBounds (toff + i) ((t.getD i 0) ^^^ (u.getD i 0), lr) := by
    simp only [writeLE, Nat.mod_eq_of_lt (UInt8.toNat_lt _)]
    congr 2
    exact UInt8.toNat_inj.mp (by simp [Nat.toUInt8])
  rw [hwr]
  refine ⟨rfl, lr, _, hlr, ?_, ?_, e7_2, sz7, fun y hy => ?_, rfl⟩
  · rw [← hE7, get_set_ne _ _ _ _ (by omega), ← hE6, get_set_ne _ _ _ _ (by omega), ← hE5, get_set_ne _ _ _ _ (by omega), ← hE4, get_set_ne _ _ _ _ (by omega), ← hE3,
      get_set_ne _ _ _ _ (by omega), ← hE2]; exact get_set_eq _ _ _ (by omega)
  · rw [← hE7, get_set_ne _ _ _ _ (by omega), ← hE6, get_set_ne _ _ _ _ (by omega), ← hE5]; exact get_set_eq _ _ _ (by omega)
  · rw [← hE7, get_set_ne _ _ _ _ (by omega), ← hE6, get_set_ne _ _ _ _ (by omega), ← hE5, get_set_ne _ _ _ _ (by omega), ← hE4, get_set_ne _ _ _ _ (by omega), ← hE3,
      get_set_ne _ _ _ _ (by omega), ← hE2, get_set_ne _ _ _ _ (by omega), ← hE1, get_set_ne _ _ _ _ (by omega)]; exact x.fr y hy


theorem x32_exit (a bt baset toff bu baseu uoff nv : Nat) (t u : Bytes) (mem0 : Array Block) (ent0 : List Delivery) (env0 : Env) {env : Env} {st : St}
    (x : X32 a bt baset toff bu baseu uoff nv t u mem0 ent0 env0 32 env st) :
    RunsTo prog (xor32Body a) env st (fun sig e' s' => sig = .brk ∧ X32 a bt baset toff bu baseu uoff nv t u mem0 ent0 env0 32 e' s') := by
  unfold xor32Body
  refine runs_ite_false ?_ (runs_brk ⟨rfl, ⟨x.esz, x.ea, x.eb, x.ec, x.tb, x.oth, x.msz, x.ent, x.fr⟩⟩)
  simp only [evalE, x.ec, reduceCtorEq, if_false, castVal_u32_i32_small 0 (by decide), BinOp.needsPub2, BinOp.needsPub1, Bool.false_and, Bool.or_self,
    Bool.false_eq_true, binVal, Ty.signed, gt_iff_lt, Nat.sub_self, Nat.lt_irrefl, decide_false, b2n, Lab.join_pub_pub]

theorem x32_loop (a bt baset toff bu baseu uoff nv : Nat) (t u : Bytes) (mem0 : Array Block) (ent0 : List Delivery) (env0 : Env)
    (hnv : a + 8 ≤ nv) (hbt : bt < 2 ^ 30) (hbu : bu < 2 ^ 30) (hne : bt ≠ bu) (XU : Array LByte) (hU : mem0[bu]? = some ⟨XU, baseu⟩) (hud : BytesV XU uoff u) (hul : u.length = 32)
    (hltT : baset + (blockBytes mem0 bt).size < ptrBase) (hltU : baseu + XU.size < ptrBase) (hTin : toff + 32 ≤ (blockBytes mem0 bt).size) :
    ∀ (r i : Nat), i + r = 32 → ∀ (env : Env) (st : St), X32 a bt baset toff bu baseu uoff nv t u mem0 ent0 env0 i env st →
    RunsTo prog (.loop (xor32Body a)) env st (fun sig e' s' => sig = .normal ∧ X32 a bt baset toff bu baseu uoff nv t u mem0 ent0 env0 32 e' s')
  | 0, i, hir, env, st, x => by
    have : i = 32 := by omega
    subst this
    exact runs_loop_break ((x32_exit a bt baset toff bu baseu uoff nv t u mem0 ent0 env0 x).weaken fun _ _ _ ⟨h, b⟩ => ⟨h, rfl, b⟩)
  | r + 1, i, hir, env, st, x => by
    refine runs_loop_continue (x32_iter a bt baset toff bu baseu uoff nv t u mem0 ent0 env0 hnv hbt hbu hne XU hU hud hul hltT hltU hTin i (by omega) x) ?_
    intro e s x'
    exact x32_loop a bt baset toff bu baseu uoff nv t u mem0 ent0 env0 hnv hbt hbu hne XU hU hud hul hltT hltU hTin r (i + 1) (by omega) e s x'

theorem xorBytes_get (t u : Bytes) (ht : t.length = 32) (hu : u.length = 32) (k : Nat) (hk : k < 32) : (xorBytes t u)[k]? = some (xb t u 32 k) := by
  unfold xorBytes xb
  simp only [hk, if_true]
  rw [List.getElem?_zipWith]
  simp [List.getD_eq_getElem?_getD, List.getElem?_eq_getElem (show k < t.length by omega), List.getElem?_eq_getElem (show k < u.length by omega)]

theorem xorBytes_length (t u : Bytes) (ht : t.length = 32) (hu : u.length = 32) : (xorBytes t u).length = 32 := by
  simp [xorBytes, ht, hu]

/-- **`T ^= U` over 32 bytes** (T and U in different blocks) -/
theorem xor32_run (a nv : Nat) (hnv : a + 8 ≤ nv) (ha : 3 ≤ a) (env : Env) (st : St) (bt baset toff bu baseu uoff : Nat) (XT XU : Array LByte) (t u : Bytes)
    (hes : env.size = nv) (h1 : env[1]? = some (mkPtr bt (baset + toff), .pub)) (h2 : env[2]? = some (mkPtr bu (baseu + uoff), .pub))
    (hT : st.mem[bt]? = some ⟨XT, baset⟩) (hU : st.mem[bu]? = some ⟨XU, baseu⟩) (hne : bt ≠ bu) (hbt : bt < 2 ^ 30) (hbu : bu < 2 ^ 30)
    (htd : BytesV XT toff t) (hud : BytesV XU uoff u) (htl : t.length = 32) (hul : u.length = 32) (hltT : baset + XT.size < ptrBase) (hltU : baseu + XU.size < ptrBase) :
    RunsTo prog (xor32Stmt a) env st (fun sig e' s' => sig = .normal ∧ e'.size = nv ∧ (∀ y, y < a → e'[y]? = env[y]?) ∧ s'.ent = st.ent ∧ s'.mem.size = st.mem.size ∧
      (∀ j, j ≠ bt → s'.mem[j]? = st.mem[j]?) ∧
      ∃ XT', s'.mem[bt]? = some ⟨XT', baset⟩ ∧ XT'.size = XT.size ∧ BytesV XT' toff (xorBytes t u) ∧ (∀ p, (p < toff ∨ toff + 32 ≤ p) → XT'[p]? = XT[p]?)) := by
  unfold xor32Stmt
  simp only [seqs]
  refine runs_seq (Q := fun e s => e = setVar env a (mkPtr bt (baset + toff), .pub) ∧ s = st) (runs_assign (mkPtr bt (baset + toff), Lab.pub) (by simp only [evalE, h1, reduceCtorEq, if_false]) ⟨rfl, rfl, rfl⟩) ?_
  intro e s ⟨he, hs⟩; rw [he, hs]
  refine runs_seq (Q := fun e s => e = setVar (setVar env a (mkPtr bt (baset + toff), .pub)) (a + 1) (mkPtr bu (baseu + uoff), .pub) ∧ s = st)
    (runs_assign (mkPtr bu (baseu + uoff), Lab.pub) (by simp only [evalE, get_set_ne _ _ _ _ (show ¬ a = 2 from by omega), h2, reduceCtorEq, if_false]) ⟨rfl, rfl, rfl⟩) ?_
  intro e s ⟨he, hs⟩; rw [he, hs]
  refine runs_seq (Q := fun e s => e = setVar (setVar (setVar env a (mkPtr bt (baset + toff), .pub)) (a + 1) (mkPtr bu (baseu + uoff), .pub)) (a + 2) (32, .pub) ∧ s = st)
    (runs_assign (32, Lab.pub) (by simp only [evalE, castVal_u32_i32_small 32 (by decide)]) ⟨rfl, rfl, rfl⟩) ?_
  intro e s ⟨he, hs⟩; rw [he, hs]
  have hbb : blockBytes st.mem bt = XT := blockBytes_of hT
  have x0 : X32 a bt baset toff bu baseu uoff nv t u st.mem st.ent env 0
      (setVar (setVar (setVar env a (mkPtr bt (baset + toff), .pub)) (a + 1) (mkPtr bu (baseu + uoff), .pub)) (a + 2) (32, .pub)) st :=
    ⟨by simp only [size_setVar]; exact hes,
     by rw [get_set_ne _ _ _ _ (by omega), get_set_ne _ _ _ _ (by omega)]; exact get_set_eq _ _ _ (by omega),
     by rw [get_set_ne _ _ _ _ (by omega)]; exact get_set_eq _ _ _ (by simp only [size_setVar]; omega),
     get_set_eq _ _ _ (by simp only [size_setVar]; omega),
     ⟨XT, hT, by rw [hbb], fun k hk => by
        have := htd.2 k (t[k]'(by omega)) (List.getElem?_eq_getElem (by omega))
        simp only [xb, Nat.not_lt_zero, if_false]
        rw [List.getD_eq_getElem?_getD, List.getElem?_eq_getElem (by omega)]; exact this, fun p _ => by rw [hbb]⟩,
     fun _ _ => rfl, rfl, rfl,
     fun y hy => by rw [get_set_ne _ _ _ _ (by omega), get_set_ne _ _ _ _ (by omega), get_set_ne _ _ _ _ (by omega)]⟩
  refine (x32_loop a bt baset toff bu baseu uoff nv t u st.mem st.ent env hnv hbt hbu hne XU hU hud hul (by rw [hbb]; exact hltT) hltU (by rw [hbb]; have := htd.1; omega) 32 0 rfl _ st x0).weaken ?_
  intro sig e' s' ⟨hs', x⟩
  obtain ⟨XT', g1, g2, g3, g4⟩ := x.tb
  refine ⟨hs', x.esz, x.fr, x.ent, x.msz, x.oth, XT', g1, by rw [g2, hbb], ⟨by rw [g2, hbb, xorBytes_length t u htl hul]; have := htd.1; omega, fun k b hk => ?_⟩, fun p hp => by rw [g4 p hp, hbb]⟩
  have hk32 : k < 32 := by
    by_cases hh : k < 32
    · exact hh
    · rw [List.getElem?_eq_none (by rw [xorBytes_length t u htl hul]; omega)] at hk; cases hk
  rw [xorBytes_get t u htl hul k hk32] at hk
  rw [← Option.some.inj hk]; exact g3 k hk32

end TJ.MiniC.Hoare
