import TJ.Proofs.HashC
import TJ.Impl.Hash
import Std.Tactic.BVDecide
namespace TJ.MiniC.Hoare
open TJ TJ.MiniC TJ.MiniC.PermC TJ.Gen.MiniC

theorem byteOf_u32 (v : UInt32) (j : Nat) (hj : j < 4) : byteOf v.toNat j = (v >>> (UInt32.ofNat (8 * j))).toUInt8 := by
  apply UInt8.toNat_inj.mp
  rw [byteOf_toNat]
  match j, hj with
  | 0, _ => simp [UInt32.toNat_shiftRight]
  | 1, _ => simp [UInt32.toNat_shiftRight, Nat.shiftRight_eq_div_pow]
  | 2, _ => simp [UInt32.toNat_shiftRight, Nat.shiftRight_eq_div_pow]
  | 3, _ => simp [UInt32.toNat_shiftRight, Nat.shiftRight_eq_div_pow]

theorem load32_b0 (b0 b1 b2 b3 : UInt8) : (load32 b0 b1 b2 b3).toUInt8 = b0 := by unfold load32; bv_decide
theorem load32_b1 (b0 b1 b2 b3 : UInt8) : (load32 b0 b1 b2 b3 >>> 8).toUInt8 = b1 := by unfold load32; bv_decide
theorem load32_b2 (b0 b1 b2 b3 : UInt8) : (load32 b0 b1 b2 b3 >>> 16).toUInt8 = b2 := by unfold load32; bv_decide
theorem load32_b3 (b0 b1 b2 b3 : UInt8) : (load32 b0 b1 b2 b3 >>> 24).toUInt8 = b3 := by unfold load32; bv_decide

theorem byteOf_load32 (b0 b1 b2 b3 : UInt8) (j : Nat) (hj : j < 4) : byteOf (load32 b0 b1 b2 b3).toNat j = [b0, b1, b2, b3].getD j 0 := by
  rw [byteOf_u32 _ j hj]
  match j, hj with
  | 0, _ => exact load32_b0 b0 b1 b2 b3
  | 1, _ => exact load32_b1 b0 b1 b2 b3
  | 2, _ => exact load32_b2 b0 b1 b2 b3
  | 3, _ => exact load32_b3 b0 b1 b2 b3

theorem byteOf_loadAt (l : Bytes) (off j : Nat) (hj : j < 4) (b : UInt8) (hb : l[off + j]? = some b) :
    byteOf (loadAt l off).toNat j = b := by
  unfold loadAt
  rw [byteOf_load32 _ _ _ _ j hj]
  match j, hj with
  | 0, _ => simp only [List.getD_cons_zero, List.getD_eq_getElem?_getD]; rw [show off = off + 0 from rfl, hb]; rfl
  | 1, _ => simp only [List.getD_cons_succ, List.getD_cons_zero, List.getD_eq_getElem?_getD, hb]; rfl
  | 2, _ => simp only [List.getD_cons_succ, List.getD_cons_zero, List.getD_eq_getElem?_getD, hb]; rfl
  | 3, _ => simp only [List.getD_cons_succ, List.getD_cons_zero, List.getD_eq_getElem?_getD, hb]; rfl

theorem store32_getElem? (w : UInt32) (j : Nat) (hj : j < 4) : (store32 w)[j]? = some (byteOf w.toNat j) := by
  rw [byteOf_u32 w j hj]
  match j, hj with
  | 0, _ => simp [store32]
  | 1, _ => simp [store32]
  | 2, _ => simp [store32]
  | 3, _ => simp [store32]

/-- the 56-byte hash state object in memory represents the model state `h`: words 0..7 (`s`, `k[0..3]`) and the 16 block bytes secret,
    the position word public -/
structure HObj (X : Array LByte) (h : HState) : Prop where
  sz : 52 ≤ X.size
  words : ∀ i v, [h.s.a, h.s.b, h.s.c, h.s.d, h.k0, h.k1, h.k2, h.k3][i]? = some v → ∀ j, j < 4 → X[4 * i + j]? = some (byteOf v.toNat j, Lab.sec)
  blen : h.block.length = 16
  blk : ∀ i b, h.block[i]? = some b → X[32 + i]? = some (b, Lab.sec)
  posn : readLE X 48 4 = some (h.posn, .pub)
  p16 : h.posn < 16

theorem HObj.toWd {X : Array LByte} {h : HState} (o : HObj X h) :
    Wd X X 12 ([h.s.a, h.s.b, h.s.c, h.s.d, h.k0, h.k1, h.k2, h.k3, loadAt h.block 0, loadAt h.block 4, loadAt h.block 8, loadAt h.block 12].map some) := by
  have hsz := o.sz
  refine Wd.refl X 12 (by omega) _ (fun i v hi hv j hj => ?_)
  rw [List.getElem?_map] at hv
  by_cases h8 : i < 8
  · apply o.words i v _ j hj
    cases hq : [h.s.a, h.s.b, h.s.c, h.s.d, h.k0, h.k1, h.k2, h.k3, loadAt h.block 0, loadAt h.block 4, loadAt h.block 8, loadAt h.block 12][i]? with
    | none => rw [hq] at hv; cases hv
    | some u =>
      rw [hq] at hv
      have huv : u = v := by simpa using hv
      subst huv
      match i, h8, hq with
      | 0, _, hq => exact hq
      | 1, _, hq => exact hq
      | 2, _, hq => exact hq
      | 3, _, hq => exact hq
      | 4, _, hq => exact hq
      | 5, _, hq => exact hq
      | 6, _, hq => exact hq
      | 7, _, hq => exact hq
  · have hb : ∃ b, h.block[4 * (i - 8) + j]? = some b := by
      have : 4 * (i - 8) + j < h.block.length := by rw [o.blen]; omega
      exact ⟨_, List.getElem?_eq_getElem this⟩
    obtain ⟨b, hb⟩ := hb
    have hx := o.blk _ b hb
    rw [show 32 + (4 * (i - 8) + j) = 4 * i + j from by omega] at hx
    rw [hx]
    have hv' : v = loadAt h.block (4 * (i - 8)) := by
      match i, hi, h8, hv with
      | 8, _, _, hv => simpa using hv.symm
      | 9, _, _, hv => simpa using hv.symm
      | 10, _, _, hv => simpa using hv.symm
      | 11, _, _, hv => simpa using hv.symm
    rw [hv', byteOf_loadAt h.block (4 * (i - 8)) j hj b hb]

theorem blk4 (n0 n1 n2 n3 : UInt32) (i : Nat) (hi : i < 16) :
    (store32 n0 ++ store32 n1 ++ store32 n2 ++ store32 n3)[i]? = some (byteOf ([n0, n1, n2, n3].getD (i / 4) 0).toNat (i % 4)) := by
  have e : store32 n0 ++ store32 n1 ++ store32 n2 ++ store32 n3 =
      [byteOf n0.toNat 0, byteOf n0.toNat 1, byteOf n0.toNat 2, byteOf n0.toNat 3, byteOf n1.toNat 0, byteOf n1.toNat 1, byteOf n1.toNat 2, byteOf n1.toNat 3,
       byteOf n2.toNat 0, byteOf n2.toNat 1, byteOf n2.toNat 2, byteOf n2.toNat 3, byteOf n3.toNat 0, byteOf n3.toNat 1, byteOf n3.toNat 2, byteOf n3.toNat 3] := by
    have h : ∀ w : UInt32, store32 w = [byteOf w.toNat 0, byteOf w.toNat 1, byteOf w.toNat 2, byteOf w.toNat 3] := by
      intro w
      apply List.ext_getElem?
      intro j
      by_cases hj : j < 4
      · rw [store32_getElem? w j hj]
        match j, hj with
        | 0, _ => rfl
        | 1, _ => rfl
        | 2, _ => rfl
        | 3, _ => rfl
      · rw [List.getElem?_eq_none (by simp [store32]; omega), List.getElem?_eq_none (by simp; omega)]
    rw [h n0, h n1, h n2, h n3]; rfl
  rw [e]
  match i, hi with
  | 0, _ => rfl | 1, _ => rfl | 2, _ => rfl | 3, _ => rfl | 4, _ => rfl | 5, _ => rfl | 6, _ => rfl | 7, _ => rfl
  | 8, _ => rfl | 9, _ => rfl | 10, _ => rfl | 11, _ => rfl | 12, _ => rfl | 13, _ => rfl | 14, _ => rfl | 15, _ => rfl
  | n + 16, h => omega

theorem HObj.ofWd {X X' : Array LByte} {h : HState} (o : HObj X h) (a0 a1 a2 a3 c0 c1 c2 c3 n0 n1 n2 n3 : UInt32)
    (wd : Wd X' X 12 ([a0, a1, a2, a3, c0, c1, c2, c3, n0, n1, n2, n3].map some)) :
    HObj X' { h with s := ⟨a0, a1, a2, a3⟩, k0 := c0, k1 := c1, k2 := c2, k3 := c3,
                     block := store32 n0 ++ store32 n1 ++ store32 n2 ++ store32 n3 } := by
  have hsz := o.sz
  refine ⟨by rw [wd.size]; exact o.sz, fun i v hv j hj => ?_, by simp [store32], fun i b hb => ?_, ?_, o.p16⟩
  · have hi : i < 8 := by
      by_cases hi : i < 8
      · exact hi
      · rw [List.getElem?_eq_none (by simp; omega)] at hv; cases hv
    apply wd.rdb i v (by omega) _ j hj
    rw [List.getElem?_map]
    match i, hi, hv with
    | 0, _, hv => simp only [List.getElem?_cons_zero] at hv ⊢; rw [hv]; rfl
    | 1, _, hv => simp only [List.getElem?_cons_succ, List.getElem?_cons_zero] at hv ⊢; rw [hv]; rfl
    | 2, _, hv => simp only [List.getElem?_cons_succ, List.getElem?_cons_zero] at hv ⊢; rw [hv]; rfl
    | 3, _, hv => simp only [List.getElem?_cons_succ, List.getElem?_cons_zero] at hv ⊢; rw [hv]; rfl
    | 4, _, hv => simp only [List.getElem?_cons_succ, List.getElem?_cons_zero] at hv ⊢; rw [hv]; rfl
    | 5, _, hv => simp only [List.getElem?_cons_succ, List.getElem?_cons_zero] at hv ⊢; rw [hv]; rfl
    | 6, _, hv => simp only [List.getElem?_cons_succ, List.getElem?_cons_zero] at hv ⊢; rw [hv]; rfl
    | 7, _, hv => simp only [List.getElem?_cons_succ, List.getElem?_cons_zero] at hv ⊢; rw [hv]; rfl
  · have hi : i < 16 := by
      by_cases hi : i < 16
      · exact hi
      · rw [List.getElem?_eq_none (by simp [store32]; omega)] at hb; cases hb
    simp only at hb
    rw [blk4 n0 n1 n2 n3 i hi] at hb
    have hb' : b = byteOf ([n0, n1, n2, n3].getD (i / 4) 0).toNat (i % 4) := by injection hb with h1; exact h1.symm
    have := wd.rdb (8 + i / 4) ([n0, n1, n2, n3].getD (i / 4) 0) (by omega) (by
      rw [List.getElem?_map]
      have hq : i / 4 < 4 := by omega
      match i / 4, hq with
      | 0, _ => rfl
      | 1, _ => rfl
      | 2, _ => rfl
      | 3, _ => rfl) (i % 4) (by omega)
    rw [show 4 * (8 + i / 4) + i % 4 = 32 + i from by omega] at this
    rw [this, hb']
  · rw [← o.posn]
    exact readLE_congr _ _ 4 48 (fun j h1 _ => wd.tail j (by omega))

/-- **`tinyjambu_hash_compress` on a hash state object**: the object represents `h.compress domain` afterwards -/
theorem compress_obj (prog : Program) (fn : Nat) (hprog : prog[fn]? = some f_tinyjambu_hash_compress)
    (hperm : prog[idx_tinyjambu_permutation_256]? = some f_tinyjambu_permutation_256)
    (env : Env) (st : St) (ep ed : Expr) (bs : Nat) (blk : Block) (d32 : UInt32) (hd8 : d32.toNat < 256)
    (hep : evalE env ep = .ok (mkPtr bs blk.base, .pub)) (hed : evalE env ed = .ok (d32.toNat, .pub))
    (hb : st.mem[bs]? = some blk) (hal : blk.base % 4 = 0) (hlt : blk.base + blk.bytes.size < ptrBase) (hn30 : st.mem.size + 2 < 2 ^ 30)
    (h : HState) (o : HObj blk.bytes h) :
    RunsTo prog (.call none fn [ep, ed]) env st (fun sig e s => sig = .normal ∧ e = env ∧ s.ent = st.ent ∧
      ∃ bytes', s.mem = setBlock st.mem bs bytes' ∧ HObj bytes' (h.compress d32) ∧ bytes'.size = blk.bytes.size ∧
        ∀ j, 48 ≤ j → bytes'[j]? = blk.bytes[j]?) := by
  have hsz := o.sz
  refine (compress_call prog fn hprog hperm env st ep ed bs blk d32 hd8 hep hed hb hal hlt hn30 (by omega)
    h.s.a h.s.b h.s.c h.s.d h.k0 h.k1 h.k2 h.k3 (loadAt h.block 0) (loadAt h.block 4) (loadAt h.block 8) (loadAt h.block 12) o.toWd).weaken ?_
  intro sig e s ⟨h1, h2, h3, bytes', hm, wd⟩
  refine ⟨h1, h2, h3, bytes', hm, ?_, wd.size, fun j hj => wd.tail j hj⟩
  have := o.ofWd _ _ _ _ _ _ _ _ _ _ _ _ wd
  exact this

end TJ.MiniC.Hoare
