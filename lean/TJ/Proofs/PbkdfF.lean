import TJ.Proofs.PbkdfLoop
namespace TJ.MiniC.Hoare
open TJ TJ.MiniC TJ.MiniC.PermC TJ.Gen.MiniC

theorem prog_pbkdf2_f : prog[idx_tinyjambu_pbkdf2_f]? = some f_tinyjambu_pbkdf2_f := by
  simp only [prog, idx_tinyjambu_pbkdf2_f, List.getElem?_cons_succ, List.getElem?_cons_zero]

theorem pfBody_eq : pfBody = .seq beStoreStmt (.seq (.call none idx_tinyjambu_hmac_init [.var 0, .var 3, .var 4]) (.seq (.call none idx_tinyjambu_hmac_update [.var 0, .var 5, .var 6])
    (.seq (.call none idx_tinyjambu_hmac_update [.var 0, .var 9, .lit 4]) (.seq (.call none idx_tinyjambu_hmac_finalize [.var 0, .var 3, .var 4, .var 1])
    (.seq (.ite (.bin .gt .u64 (.var 7) (.cast .u64 .i32 (.lit 1)))
      (.seq (.call none idx_tinyjambu_hmac_reinit [.var 0, .var 3, .var 4]) (.seq (.call none idx_tinyjambu_hmac_update [.var 0, .var 1, .cast .u64 .i32 (.lit 32)])
        (.seq (.call none idx_tinyjambu_hmac_finalize [.var 0, .var 3, .var 4, .var 2]) (.seq (xor32Stmt 15) (.loop pfIterBody))))) .skip)
    (.call none idx_tinyjambu_hmac_free [.var 0])))))) := rfl

theorem enter_env_a (vs : List LVal) (n m a : Nat) (xa : LVal) (hvs : vs.length = n) (ha : n ≤ a) (hb : a < n + m) :
    (setVar (vs ++ List.replicate m (0, Lab.undef)).toArray a xa).size = n + m ∧
    (∀ (i : Nat) (v : LVal), vs[i]? = some v → (setVar (vs ++ List.replicate m (0, Lab.undef)).toArray a xa)[i]? = some v) ∧
    (setVar (vs ++ List.replicate m (0, Lab.undef)).toArray a xa)[a]? = some xa := by
  refine ⟨by simp [size_setVar, hvs], fun i v hv => ?_, ?_⟩
  · have hi : i < n := by
      by_cases h : i < n
      · exact h
      · rw [List.getElem?_eq_none (by omega)] at hv; cases hv
    rw [get_set_ne _ _ _ _ (by omega), List.getElem?_toArray, List.getElem?_append_left (by omega)]; exact hv
  · exact get_set_eq _ _ _ (by simp [hvs]; omega)

/-- **`tinyjambu_pbkdf2_f(state, T, U, password, salt, count, blocknum)`** on the regenerated term: `T` receives the model's block `pbkdf2F`
    (the `hmac` chain xor-folded `count` times); the HMAC state object is wiped. -/
theorem pbkdf2_f_call (env : Env) (st : St) (es et eu ep epl esl esll ec ebn : Expr)
    (bs bt bu bp bsl : Nat) (XS XT0 XU0 : Array LByte) (baset toff baseu uoff basep poff psz basesl sloff slsz : Nat) (pw salt : Bytes) (count bn : Nat)
    (hes : evalE env es = .ok (mkPtr bs 0, .pub)) (het : evalE env et = .ok (mkPtr bt (baset + toff), .pub)) (heu : evalE env eu = .ok (mkPtr bu (baseu + uoff), .pub))
    (hep : evalE env ep = .ok (mkPtr bp (basep + poff), .pub)) (hepl : evalE env epl = .ok (pw.length, .pub))
    (hesl : evalE env esl = .ok (mkPtr bsl (basesl + sloff), .pub)) (hesll : evalE env esll = .ok (salt.length, .pub))
    (hec : evalE env ec = .ok (count, .pub)) (hebn : evalE env ebn = .ok (bn, .pub))
    (hS : st.mem[bs]? = some ⟨XS, 0⟩) (hXS : XS.size = 56) (hT : st.mem[bt]? = some ⟨XT0, baset⟩) (hU : st.mem[bu]? = some ⟨XU0, baseu⟩)
    (hP : HasBuf st.mem bp basep poff psz pw) (hSl : HasBuf st.mem bsl basesl sloff slsz salt)
    (hst : bs ≠ bt) (hsu : bs ≠ bu) (hsp : bs ≠ bp) (htu : bt ≠ bu) (htp : bt ≠ bp) (hup : bu ≠ bp) (hssl : bsl ≠ bs)
    (hltT : baset + XT0.size < ptrBase) (hltU : baseu + XU0.size < ptrBase) (hltP : basep + psz < ptrBase) (hltSl : basesl + slsz < ptrBase)
    (hTin : toff + 32 ≤ XT0.size) (hUin : uoff + 32 ≤ XU0.size) (hc64 : count < 18446744073709551616) (hsz : st.mem.size + 6 < 2 ^ 30) :
    RunsTo prog (.call none idx_tinyjambu_pbkdf2_f [es, et, eu, ep, epl, esl, esll, ec, ebn]) env st (fun sig e s => sig = .normal ∧ e = env ∧ s.ent = st.ent ∧
      s.mem.size = st.mem.size ∧ s.mem[bs]? = some ⟨Array.replicate 56 (0, .pub), 0⟩ ∧
      HasBufO s.mem bt baset toff XT0.size (pbkdf2F pw salt count bn.toUInt32) XT0 ∧
      (∃ XU', s.mem[bu]? = some ⟨XU', baseu⟩ ∧ XU'.size = XU0.size) ∧
      (∀ j, j ≠ bs → j ≠ bt → j ≠ bu → ORel BlockEqV s.mem[j]? st.mem[j]?)) := by
  have hbsN := mem_lt hS; have hbtN := mem_lt hT; have hbuN := mem_lt hU; have hbpN := hP.lt; have hbslN := hSl.lt
  let vs : List LVal := [(mkPtr bs 0, .pub), (mkPtr bt (baset + toff), .pub), (mkPtr bu (baseu + uoff), .pub), (mkPtr bp (basep + poff), .pub), (pw.length, .pub),
    (mkPtr bsl (basesl + sloff), .pub), (salt.length, .pub), (count, .pub), (bn, .pub)]
  refine runs_call_none f_tinyjambu_pbkdf2_f vs prog_pbkdf2_f (by simp only [evalArgs, hes, het, heu, hep, hepl, hesl, hesll, hec, hebn]; rfl) rfl ?_
  have hent : enterFun f_tinyjambu_pbkdf2_f vs st.mem = (setVar (vs ++ List.replicate 22 (0, Lab.undef)).toArray 9 (mkPtr st.mem.size 0, .pub),
      st.mem.push { bytes := Array.replicate 4 (0, .undef), base := 0 }) := rfl
  rw [pf_body_eq, pfBody_eq, hent]
  obtain ⟨hE0s, hE0v, hE09⟩ := enter_env_a vs 9 22 9 (mkPtr st.mem.size 0, .pub) rfl (by decide) (by decide)
  generalize hE0 : setVar (vs ++ List.replicate 22 (0, Lab.undef)).toArray 9 (mkPtr st.mem.size 0, .pub) = E0 at hE0s hE0v hE09
  generalize hm1 : st.mem.push ⟨Array.replicate 4 (0, .undef), 0⟩ = mem1
  have hm1lt : ∀ j, j < st.mem.size → mem1[j]? = st.mem[j]? := by
    intro j hj; rw [← hm1, Array.getElem?_push]; simp only [show ¬ j = st.mem.size from by omega, if_false]
  have hm1n : mem1[st.mem.size]? = some ⟨Array.replicate 4 (0, .undef), 0⟩ := by rw [← hm1, Array.getElem?_push]; simp
  have hm1sz : mem1.size = st.mem.size + 1 := by rw [← hm1, Array.size_push]
  -- INT(blocknum)
  refine runs_seq (be_store_run (env := E0) (st := { st with mem := mem1 }) st.mem.size bn hE0s (hE0v 8 _ rfl) hE09 hm1n (by omega)) ?_
  intro E1 s1 ⟨he1s, hfr1, hent1, hsz1, hoth1, hB1⟩
  have e1_0 : E1[0]? = some (mkPtr bs 0, .pub) := by rw [hfr1 0 (by decide)]; exact hE0v 0 _ rfl
  have e1_1 : E1[1]? = some (mkPtr bt (baset + toff), .pub) := by rw [hfr1 1 (by decide)]; exact hE0v 1 _ rfl
  have e1_2 : E1[2]? = some (mkPtr bu (baseu + uoff), .pub) := by rw [hfr1 2 (by decide)]; exact hE0v 2 _ rfl
  have e1_3 : E1[3]? = some (mkPtr bp (basep + poff), .pub) := by rw [hfr1 3 (by decide)]; exact hE0v 3 _ rfl
  have e1_4 : E1[4]? = some (pw.length, .pub) := by rw [hfr1 4 (by decide)]; exact hE0v 4 _ rfl
  have e1_5 : E1[5]? = some (mkPtr bsl (basesl + sloff), .pub) := by rw [hfr1 5 (by decide)]; exact hE0v 5 _ rfl
  have e1_6 : E1[6]? = some (salt.length, .pub) := by rw [hfr1 6 (by decide)]; exact hE0v 6 _ rfl
  have e1_7 : E1[7]? = some (count, .pub) := by rw [hfr1 7 (by decide)]; exact hE0v 7 _ rfl
  have e1_9 : E1[9]? = some (mkPtr st.mem.size (0 + 0), .pub) := by rw [hfr1 9 (by decide)]; exact hE09
  have hs1 : ∀ j, j < st.mem.size → s1.mem[j]? = st.mem[j]? := fun j hj => by rw [hoth1 j (by omega)]; exact hm1lt j hj
  have hsz1' : s1.mem.size = st.mem.size + 1 := by rw [hsz1]; exact hm1sz
  have hent1' : s1.ent = st.ent := hent1
  have hS1 : ∃ X, s1.mem[bs]? = some ⟨X, 0⟩ ∧ X.size = 56 := ⟨XS, by rw [hs1 bs hbsN]; exact hS, hXS⟩
  have hP1 : HasBuf s1.mem bp basep poff psz pw := hP.eq (hs1 bp hbpN)
  have hSl1 : HasBuf s1.mem bsl basesl sloff slsz salt := hSl.eq (hs1 bsl hbslN)
  -- T = HMAC(password, salt ‖ INT(blocknum))
  refine mac2_run idx_tinyjambu_hmac_init (Or.inl rfl) E1 s1
    ⟨bs, 0, bp, basep, poff, psz, pw, hS1, hP1, fun e => hsp e.symm, rfl, by simp [ptrBase], hltP, by rw [hsz1']; omega⟩
    (.var 0) (.var 3) (.var 4) (.var 5) (.var 6) (.var 9) (.lit 4) (.var 1) bsl basesl sloff slsz salt st.mem.size 0 0 4 (store32be bn.toUInt32) bt baset toff XT0
    (by simp only [evalE, e1_0, reduceCtorEq, if_false]) (by simp only [evalE, e1_3, reduceCtorEq, if_false]) (by simp only [evalE, e1_4, reduceCtorEq, if_false])
    (by simp only [evalE, e1_5, reduceCtorEq, if_false]) (by simp only [evalE, e1_6, reduceCtorEq, if_false]) (by simp only [evalE, e1_9, reduceCtorEq, if_false])
    (by simp only [evalE]; rfl) (by simp only [evalE, e1_1, reduceCtorEq, if_false])
    hSl1 hB1 (by rw [hs1 bt hbtN]; exact hT) hssl (show st.mem.size ≠ bs from by omega) (fun e => hst e.symm) hltSl (by simp [ptrBase]) hltT hTin _ ?_
  intro s2 hent2 hsz2 hS2 ⟨XT2, hT2m, hT2s, hT2d, hT2o⟩ hoth2
  generalize ht0 : hmac pw (salt ++ store32be bn.toUInt32) = t0 at hT2d
  have ht0l : t0.length = 32 := by rw [← ht0]; exact hmac_length _ _
  let G : PFG := ⟨bs, bt, baset, toff, XT0.size, bu, baseu, uoff, XU0.size, bp, basep, poff, psz, st.mem.size + 1, pw, st.ent, hst, hsu, hsp, htu, htp, hup, hltT, hltU, hltP, hTin, hUin, by omega⟩
  have hP2 : HasBuf s2.mem bp basep poff psz pw := hP1.eqv (hoth2 bp (fun e => hsp e.symm) (fun e => htp e.symm))
  have hU2 : ∃ XU, s2.mem[bu]? = some ⟨XU, baseu⟩ ∧ XU.size = XU0.size ∧ ∀ q, (q < uoff ∨ uoff + 32 ≤ q) → ORel VEq XU[q]? XU0[q]? := by
    have := hoth2 bu (fun e => hsu e.symm) (fun e => htu e.symm)
    rw [hs1 bu hbuN, hU] at this
    obtain ⟨Z, hz, hzs, hzv⟩ := eqv_block this
    exact ⟨Z, hz, hzs, fun q _ => hzv q⟩
  have hoth2' : ∀ j, j ≠ bs → j ≠ bt → j ≠ bu → ORel BlockEqV s2.mem[j]? s1.mem[j]? := fun j h1 h2 _ => hoth2 j h1 h2
  refine runs_seq (Q := fun e s => e[0]? = some (mkPtr bs 0, .pub) ∧ s.ent = st.ent ∧ s.mem.size = st.mem.size + 1 ∧ (∃ X, s.mem[bs]? = some ⟨X, 0⟩ ∧ X.size = 56) ∧
      HasBufO s.mem bt baset toff XT0.size (pbkdf2F pw salt count bn.toUInt32) XT0 ∧ (∃ XU', s.mem[bu]? = some ⟨XU', baseu⟩ ∧ XU'.size = XU0.size) ∧
      (∀ j, j ≠ bs → j ≠ bt → j ≠ bu → ORel BlockEqV s.mem[j]? s1.mem[j]?)) ?_ ?_
  · by_cases hc : 1 < count
    · refine runs_ite_true 1 ?_ (by decide) ?_
      · simp only [evalE, e1_7, reduceCtorEq, if_false, castVal_u64_i32_lit 1 (by decide), BinOp.needsPub2, BinOp.needsPub1, Bool.false_and, Bool.or_self,
          Bool.false_eq_true, binVal, Ty.signed, gt_iff_lt, hc, decide_true, b2n, if_true, Lab.join_pub_pub]
      refine pf_step G XT0 XU0 s1.mem 15 (by decide) (by decide) t0 count E1 { s2 with leak := .br true :: s2.leak } bt baset toff XT0.size t0 ht0l (.var 1)
        (by simp only [evalE, e1_1, reduceCtorEq, if_false]) ⟨XT2, hT2m, hT2s, hT2d⟩ (fun e => hst e.symm) hltT he1s e1_0 e1_1 e1_2 e1_3 e1_4 e1_7
        (by show s2.ent = st.ent; rw [hent2]; exact hent1') (by show s2.mem.size = st.mem.size + 1; rw [hsz2]; exact hsz1') hS2 ⟨XT2, hT2m, hT2s, hT2d, hT2o⟩ hU2 hP2 ht0l hoth2' _ ?_
      intro e3 s3 x3 _
      refine (pf_loop G XT0 XU0 s1.mem (count - 2) _ _ count (by omega) hc64 e3 s3 x3).weaken ?_
      intro sig e s ⟨hsig, u', x⟩
      have hF : pbkdf2F pw salt count bn.toUInt32 = pbkdf2Iter pw (count - 2) (xorBytes t0 (hmac pw t0)) (hmac pw t0) := by
        simp only [pbkdf2F, ht0, gt_iff_lt, hc, if_true]
      rw [hF]
      obtain ⟨XU', hu1, hu2, _, _⟩ := x.hU
      exact ⟨hsig, x.e0, x.ent, x.msz, x.hS, x.hT, ⟨XU', hu1, hu2⟩, x.oth⟩
    · refine runs_ite_false ?_ (runs_skip ?_)
      · simp only [evalE, e1_7, reduceCtorEq, if_false, castVal_u64_i32_lit 1 (by decide), BinOp.needsPub2, BinOp.needsPub1, Bool.false_and, Bool.or_self,
          Bool.false_eq_true, binVal, Ty.signed, gt_iff_lt, hc, decide_false, b2n, Lab.join_pub_pub]
      have hF : pbkdf2F pw salt count bn.toUInt32 = t0 := by simp only [pbkdf2F, ht0, gt_iff_lt, hc, if_false]
      rw [hF]
      obtain ⟨XU, hu1, hu2, _⟩ := hU2
      exact ⟨rfl, e1_0, by show s2.ent = st.ent; rw [hent2]; exact hent1', by show s2.mem.size = st.mem.size + 1; rw [hsz2]; exact hsz1', hS2, ⟨XT2, hT2m, hT2s, hT2d, hT2o⟩,
        ⟨XU, hu1, hu2⟩, hoth2'⟩
  intro e4 s4 ⟨e4_0, hent4, hsz4, ⟨X4, hS4, hX4s⟩, hT4, ⟨XU4, hU4, hU4s⟩, hoth4⟩
  refine (hmac_free_call e4 s4 (.var 0) bs ⟨X4, 0⟩ (by omega) (by simp only [evalE, e4_0, reduceCtorEq, if_false]) hS4 rfl hX4s).weaken ?_
  intro sig e s ⟨_, _, hent5, hm5⟩
  have hszF : s.mem.size = st.mem.size + 1 := by rw [hm5, size_setBlock']; exact hsz4
  have hlk : ∀ j, j < st.mem.size → (s.mem.extract 0 st.mem.size)[j]? = s.mem[j]? := by
    intro j hj
    rw [Array.getElem?_extract, hszF]
    have : j < min st.mem.size (st.mem.size + 1) - 0 := by omega
    simp only [this, if_true, Nat.zero_add]
  have hexs : (s.mem.extract 0 st.mem.size).size = st.mem.size := by rw [Array.size_extract, hszF]; omega
  have hne : ∀ j, j ≠ bs → s.mem[j]? = s4.mem[j]? := fun j hj => by rw [hm5, getElem?_setBlock', if_neg hj]
  refine ⟨rfl, rfl, by show s.ent = st.ent; rw [hent5]; exact hent4, hexs, ?_, ?_, ⟨XU4, ?_, hU4s⟩, fun j h1 h2 h3 => ?_⟩
  · show (s.mem.extract 0 st.mem.size)[bs]? = _
    rw [hlk bs hbsN, hm5, getElem?_setBlock', if_pos rfl, hS4]; rfl
  · obtain ⟨X, g1, g2, g3, g4⟩ := hT4
    exact ⟨X, by show (s.mem.extract 0 st.mem.size)[bt]? = _; rw [hlk bt hbtN, hne bt (fun e => hst e.symm)]; exact g1, g2, g3, g4⟩
  · show (s.mem.extract 0 st.mem.size)[bu]? = _
    rw [hlk bu hbuN, hne bu (fun e => hsu e.symm)]; exact hU4
  · show ORel BlockEqV (s.mem.extract 0 st.mem.size)[j]? st.mem[j]?
    by_cases hjn : j < st.mem.size
    · rw [hlk j hjn, hne j h1, ← hs1 j hjn]; exact hoth4 j h1 h2 h3
    · rw [Array.getElem?_eq_none (by rw [hexs]; omega), Array.getElem?_eq_none (by omega)]; trivial

end TJ.MiniC.Hoare
