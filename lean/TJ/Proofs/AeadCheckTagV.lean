/-
  TJ.Proofs.AeadCheckTagV — tinyjambu_aead_check_tag as a call with a result, for any defined labels (from the canonical-labelling theorem of
  TJ.Proofs.CheckTagC by raising every block and TJ.MiniC.Mono.exec_lower).
-/
import TJ.Proofs.AeadDecTail
import TJ.Proofs.CheckTagC
namespace TJ.MiniC.Hoare
open TJ TJ.MiniC TJ.MiniC.PermC TJ.Gen.MiniC

/-- every block relabelled secret (undefined bytes stay undefined) -/
def raiseMem (mem : Array Block) : Array Block := mem.map fun b => ⟨raiseTo b.bytes.size b.bytes, b.base⟩

theorem getElem?_raiseMem (mem : Array Block) (j : Nat) : (raiseMem mem)[j]? = (mem[j]?).map fun b => ⟨raiseTo b.bytes.size b.bytes, b.base⟩ := by
  simp [raiseMem]

theorem memLe_raiseMem (mem : Array Block) : MemLe mem (raiseMem mem) := by
  intro j
  rw [getElem?_raiseMem]
  cases h : mem[j]? with
  | none => trivial
  | some b => exact ⟨rfl, bytesLe_raiseTo _ _⟩

theorem bytesV_raised {X : Array LByte} {off : Nat} {bs : Bytes} (h : BytesV X off bs) :
    ∀ i p, bs[i]? = some p → (raiseTo X.size X)[off + i]? = some (p, Lab.sec) := by
  intro i p hp
  have hi : i < bs.length := by
    by_cases hh : i < bs.length
    · exact hh
    · rw [List.getElem?_eq_none (by omega)] at hp; cases hp
  exact (h.2 i p hp).raised X.size (by have := h.1; omega)

/-- a successful call with a destination only assigns the destination -/
theorem call_some_env {prog : Program} {n : Nat} {x f : Nat} {args : List Expr} {env e : Env} {st s : St} {sig : Sig}
    (h : exec prog n (.call (some x) f args) env st = .ok sig e s) : ∃ v, e = setVar env x v ∧ sig = .normal := by
  cases n with
  | zero => simp [exec] at h
  | succ n =>
    rw [exec] at h
    cases ha : evalArgs env args with
    | error k => simp only [ha] at h; cases h
    | ok vs =>
      cases hp : prog[f]? with
      | none => simp only [ha, hp] at h; cases h
      | some fd =>
        by_cases hl : vs.length ≠ fd.nparams
        · simp only [ha, hp, hl, if_true, ne_eq, not_false_eq_true] at h; cases h
        · have hl' : vs.length = fd.nparams := by omega
          simp only [ha, hp, hl', ne_eq, not_true_eq_false, if_false] at h
          cases hr : exec prog n fd.body (enterFun fd vs st.mem).1 { st with mem := (enterFun fd vs st.mem).2 } with
          | timeout => rw [hr] at h; cases h
          | fault k l => rw [hr] at h; cases h
          | ok sig2 e2 s2 =>
            rw [hr] at h
            simp only [leaveFun, assignDst] at h
            cases hv : sig2.retVal with
            | none => rw [hv] at h; cases h
            | some v =>
              rw [hv] at h
              injection h with h1 h2 h3
              exact ⟨v, h2.symm, h1.symm⟩


theorem mem_lt {mem : Array Block} {b : Nat} {blk : Block} (h : mem[b]? = some blk) : b < mem.size := by
  by_cases hb : b < mem.size
  · exact hb
  · rw [Array.getElem?_eq_none (by omega)] at h; cases h

/-- **`r = tinyjambu_aead_check_tag(plaintext, len, tag1, tag2, size)` as a call, for any defined labels**: `r` is 0 when the tags are
    equal and -1 otherwise, the plaintext stays or is zeroed accordingly, every other byte of memory keeps its value. -/
theorem check_tag_callV (prog : Program) (cidx : Nat) (hprog : prog[cidx]? = some f_tinyjambu_aead_check_tag) (env : Env) (st : St) (x : Nat) (hx : x < env.size)
    (ep el e1 e2 e8 : Expr) (P T1 T2 : Bytes) (hlen : T1.length = T2.length)
    (bp op b1 o1 b2 o2 : Nat) (XP X1 X2 : Array LByte) (basep base1 base2 : Nat)
    (hbp : st.mem[bp]? = some ⟨XP, basep⟩) (hb1 : st.mem[b1]? = some ⟨X1, base1⟩) (hb2 : st.mem[b2]? = some ⟨X2, base2⟩)
    (hP : BytesV XP op P) (h1 : BytesV X1 o1 T1) (h2 : BytesV X2 o2 T2)
    (hlp : basep + XP.size < ptrBase) (hl1 : base1 + X1.size < ptrBase) (hl2 : base2 + X2.size < ptrBase) (hsz : st.mem.size < 2 ^ 30)
    (hep : evalE env ep = .ok (mkPtr bp (basep + op), .pub)) (hel : evalE env el = .ok (P.length, .pub))
    (he1 : evalE env e1 = .ok (mkPtr b1 (base1 + o1), .pub)) (he2 : evalE env e2 = .ok (mkPtr b2 (base2 + o2), .pub))
    (he8 : evalE env e8 = .ok (T1.length, .pub)) :
    RunsTo prog (.call (some x) cidx [ep, el, e1, e2, e8]) env st (fun sig e s' => sig = .normal ∧
      (∃ l, l ≠ Lab.undef ∧ e = setVar env x (if T1 = T2 then 0 else 4294967295, l)) ∧ s'.ent = st.ent ∧ s'.mem.size = st.mem.size ∧
      (∃ blk', s'.mem[bp]? = some blk' ∧ blk'.base = basep ∧ blk'.bytes.size = XP.size ∧
        BytesV blk'.bytes op (P.map fun p => if T1 = T2 then p else 0) ∧
        (∀ q, (q < op ∨ op + P.length ≤ q) → ORel VEq blk'.bytes[q]? XP[q]?)) ∧
      (∀ j, j ≠ bp → ORel BlockEqV s'.mem[j]? st.mem[j]?)) := by
  have hbpN := mem_lt hbp; have hb1N := mem_lt hb1; have hb2N := mem_lt hb2
  let hi : St := { st with mem := raiseMem st.mem }
  have hle : StLe st hi := ⟨memLe_raiseMem st.mem, rfl, rfl⟩
  have rbp : hi.mem[bp]? = some ⟨raiseTo XP.size XP, basep⟩ := by show (raiseMem st.mem)[bp]? = _; rw [getElem?_raiseMem, hbp]; rfl
  have rb1 : hi.mem[b1]? = some ⟨raiseTo X1.size X1, base1⟩ := by show (raiseMem st.mem)[b1]? = _; rw [getElem?_raiseMem, hb1]; rfl
  have rb2 : hi.mem[b2]? = some ⟨raiseTo X2.size X2, base2⟩ := by show (raiseMem st.mem)[b2]? = _; rw [getElem?_raiseMem, hb2]; rfl
  obtain ⟨env', st', lr, hex, hmem, hent, hlr⟩ := MiniC.CheckTagC.check_tag_regenerated prog 0 hi P T1 T2 hlen bp op b1 o1 b2 o2
    ⟨raiseTo XP.size XP, basep⟩ ⟨raiseTo X1.size X1, base1⟩ ⟨raiseTo X2.size X2, base2⟩ rbp rb1 rb2 (bytesV_raised hP) (bytesV_raised h1) (bytesV_raised h2)
    (by have := hP.1; show basep + op + P.length < ptrBase; omega) (by have := h1.1; show base1 + o1 + T1.length < ptrBase; omega)
    (by have := h2.1; show base2 + o2 + T1.length < ptrBase; omega) (by omega) (by omega) (by omega)
  have hrun : RunsTo prog (.call (some x) cidx [ep, el, e1, e2, e8]) env hi (fun sig e s' => sig = .normal ∧
      e = setVar env x (if T1 = T2 then 0 else 4294967295, lr) ∧ s'.ent = st.ent ∧
      s'.mem = setBlock (raiseMem st.mem) bp (writeBytes (raiseTo XP.size XP) op (P.map fun p => (if T1 = T2 then p else 0, Lab.sec)))) := by
    refine runs_call_some f_tinyjambu_aead_check_tag [(mkPtr bp (basep + op), .pub), (P.length, .pub), (mkPtr b1 (base1 + o1), .pub), (mkPtr b2 (base2 + o2), .pub), (T1.length, .pub)]
      hprog (by simp only [evalArgs, hep, hel, he1, he2, he8]) rfl ?_
    refine ⟨_, _, env', st', hex, _, rfl, rfl, rfl, hent, ?_⟩
    show st'.mem.extract 0 (raiseMem st.mem).size = _
    rw [hmem]
    have : (raiseMem st.mem).size = (setBlock hi.mem bp (writeBytes (raiseTo XP.size XP) op (P.map fun p => (if T1 = T2 then p else 0, Lab.sec)))).size := by
      rw [size_setBlock']
    rw [this, extract_self]
  obtain ⟨n, sig, e, s, hxx, sig2, e', s2, ⟨hs2, he2, hent2, hm2⟩, hg, hee, hss⟩ := hrun.lower (envLe_refl env) hle
  obtain ⟨v, hev, hsig⟩ := call_some_env hxx
  have hsz2 : s2.mem.size = st.mem.size := by rw [hm2, size_setBlock']; simp [raiseMem]
  have hW : s2.mem[bp]? = some ⟨writeBytes (raiseTo XP.size XP) op (P.map fun p => (if T1 = T2 then p else 0, Lab.sec)), basep⟩ := by
    rw [hm2, getElem?_setBlock', if_pos rfl, getElem?_raiseMem, hbp]; rfl
  refine ⟨n, sig, e, s, hxx, hsig, ?_, by rw [hss.ent, hent2], by rw [hss.mem.size_eq, hsz2], ?_, fun j hj => ?_⟩
  · have hxv := hee x
    rw [hev, he2, get_set_eq _ _ _ hx, get_set_eq _ _ _ hx] at hxv
    obtain ⟨v1, v2⟩ := v
    have e1 : v1 = (if T1 = T2 then 0 else 4294967295) := hxv.1
    have e2 : Lab.le v2 lr := hxv.2
    refine ⟨v2, fun hu => hlr ((Lab.le_undef_iff e2).mp hu), ?_⟩
    rw [hev, e1]
  · have hrel := hss.mem bp
    rw [hW] at hrel
    cases hb : s.mem[bp]? with
    | none => rw [hb] at hrel; exact hrel.elim
    | some blk' =>
      rw [hb] at hrel
      have hbase : blk'.base = basep := hrel.1
      have hble : BytesLe blk'.bytes (writeBytes (raiseTo XP.size XP) op (P.map fun p => (if T1 = T2 then p else 0, Lab.sec))) := hrel.2
      refine ⟨blk', rfl, hbase, by rw [hble.size_eq, size_writeBytes, size_raiseTo], ⟨?_, fun k c hk => ?_⟩, fun q hq => ?_⟩
      · rw [hble.size_eq, size_writeBytes, size_raiseTo, List.length_map]; exact hP.1
      · have hkl : k < P.length := by
          by_cases hh : k < P.length
          · exact hh
          · rw [List.getElem?_eq_none (by simp; omega)] at hk; cases hk
        have hw : (writeBytes (raiseTo XP.size XP) op (P.map fun p => (if T1 = T2 then p else 0, Lab.sec)))[op + k]? = some (c, Lab.sec) := by
          rw [getElem?_writeBytes, if_pos ⟨by omega, by simp; omega, by rw [size_raiseTo]; have := hP.1; omega⟩]
          rw [show op + k - op = k from by omega, List.getElem?_map]
          rw [List.getElem?_map] at hk
          cases hp : P[k]? with
          | none => rw [hp] at hk; cases hk
          | some p => rw [hp] at hk; simp only [Option.map] at hk ⊢; rw [← Option.some.inj hk]
        exact BV.lower hble ⟨Lab.sec, hw, by decide⟩
      · have h1 := hble q
        rw [getElem?_writeBytes, if_neg (by simp only [List.length_map]; omega)] at h1
        have h2 : ORel VEq XP[q]? (raiseTo XP.size XP)[q]? := orel_map (R := VLe) (S := VEq) (fun _ _ h => VLe.toVEq h) (bytesLe_raiseTo XP.size XP q)
        exact orel_trans (R := VEq) (fun _ _ _ p q => VEq.trans p q) (orel_map (R := VLe) (S := VEq) (fun _ _ h => VLe.toVEq h) h1)
          (orel_symm (R := VEq) (fun _ _ h => VEq.symm h) h2)
  · have h1 := hss.mem j
    rw [hm2, getElem?_setBlock', if_neg hj] at h1
    have h2 : ORel BlockLe st.mem[j]? (raiseMem st.mem)[j]? := memLe_raiseMem st.mem j
    exact orel_trans (R := BlockEqV) (fun _ _ _ p q => BlockEqV.trans p q) (orel_map (R := BlockLe) (S := BlockEqV) (fun _ _ h => BlockLe.toEqV h) h1)
      (orel_symm (R := BlockEqV) (fun _ _ h => BlockEqV.symm h) (orel_map (R := BlockLe) (S := BlockEqV) (fun _ _ h => BlockLe.toEqV h) h2))

end TJ.MiniC.Hoare
