import TJ.Proofs.PrngGenChk
import TJ.Proofs.HkdfCore
namespace TJ.MiniC.Hoare
open TJ TJ.MiniC TJ.MiniC.PermC TJ.Gen.MiniC

theorem bytesV_append_veq' {X X' : Array LByte} {off : Nat} {a b : Bytes} (ha : BytesV X off a) (hb : BytesV X' (off + a.length) b)
    (ho : ∀ q, q < off + a.length → ORel VEq X'[q]? X[q]?) : BytesV X' off (a ++ b) := by
  refine ⟨by have := hb.1; rw [List.length_append]; omega, fun k c hk => ?_⟩
  by_cases hka : k < a.length
  · rw [List.getElem?_append_left hka] at hk
    obtain ⟨l, hx, hl⟩ := ha.2 k c hk
    have hv := ho (off + k) (by omega)
    rw [hx] at hv
    cases hz : X'[off + k]? with
    | none => rw [hz] at hv; exact hv.elim
    | some z =>
      rw [hz] at hv
      obtain ⟨z1, z2⟩ := z
      have e1 : z1 = c := hv.1
      have e2 : (z2 = Lab.undef) = (l = Lab.undef) := hv.2
      exact ⟨z2, by rw [hz, e1], fun hu => hl (e2 ▸ hu)⟩
  · rw [List.getElem?_append_right (by omega)] at hk
    have := hb.2 (k - a.length) c hk
    rwa [show off + a.length + (k - a.length) = off + k from by omega] at this

theorem ptrBase_eq : ptrBase = 4294967296 := rfl

theorem bytesV_take' {X : Array LByte} {off : Nat} {a : Bytes} (h : BytesV X off a) (r : Nat) : BytesV X off (a.take r) := by
  refine ⟨by have := h.1; rw [List.length_take]; omega, fun k c hk => ?_⟩
  rw [List.getElem?_take] at hk
  by_cases hkr : k < r
  · rw [if_pos hkr] at hk; exact h.2 k c hk
  · rw [if_neg hkr] at hk; cases hk

/-- inside one round of the block loop: `len` chosen, the data pointer still at `dpos` -/
structure GJ (G : GGeo) (mem0 : Array Block) (g : GS) (acc : Bytes) (dpos r len : Nat) (env : Env) (s : St) : Prop where
  esz : env.size = 20
  e0 : env[0]? = some (mkPtr G.bp G.baseP, .pub)
  e1 : env[1]? = some (mkPtr G.bd (G.based + (G.doff + dpos)), .pub)
  e2 : env[2]? = some (r, .pub)
  e3 : env[3]? = some (mkPtr G.bp G.baseP, .pub)
  e4 : env[4]? = some (len, .pub)
  e5 : env[5]? = some (mkPtr G.n0 0, .pub)
  ent : s.ent = g.ent
  msz : s.mem.size = G.n0 + 1
  hP : ∃ Xp, s.mem[G.bp]? = some ⟨Xp, G.baseP⟩ ∧ Xp.size = G.xps ∧ PObjV Xp g.V g.C g.rc g.rl ∧ PCb Xp G.ud G.cbv
  hH : ∃ XH, s.mem[G.n0]? = some ⟨XH, 0⟩ ∧ XH.size = 32
  hD : ∃ XD, s.mem[G.bd]? = some ⟨XD, G.based⟩ ∧ XD.size = G.XD0.size ∧ BytesV XD G.doff acc ∧ ∀ q, (q < G.doff ∨ G.doff + acc.length ≤ q) → ORel VLe XD[q]? G.XD0[q]?
  oth : ∀ j, j < G.n0 → j ≠ G.bp → j ≠ G.bd → ORel (KeepW (fun _ => False) (fun _ => False)) s.mem[j]? mem0[j]?

def genOut : Stmt := .seq genLen (.seq (.call none idx_tinyjambu_hash [.var 5, .var 3, .lit 32]) genCopy)

/-- `len = min(size, 32); H = Hash(V); memcpy(data, H, len)` -/
theorem gen_out (G : GGeo) (mem0 : Array Block) (g : GS) (acc : Bytes) (r : Nat) (hr : 0 < r) {env : Env} {s : St} (gi : GI G mem0 g acc r env s) :
    RunsTo prog genOut env s (fun sig e' s' => sig = .normal ∧ GJ G mem0 g (acc ++ (hash g.V).take (min 32 r)) acc.length r (min 32 r) e' s') := by
  obtain ⟨Xp, hPm, hXps, ho, hcb⟩ := gi.hP
  obtain ⟨XH, hHm, hHs⟩ := gi.hH
  obtain ⟨XD, hDm, hDs, hDd, hDo⟩ := gi.hD
  have hG := G.hsz; have hbp := G.hbp; have hbd := G.hbd; have hx := G.hxps; have hlt := G.hltP; have hin := G.hin; have hn := gi.hn; have hltD := G.hltD
  have hVl := ho.vl
  have hr64 : r < 18446744073709551616 := by rw [ptrBase_eq] at hltD; omega
  unfold genOut genLen
  -- len
  refine runs_seq (Q := fun e s' => e = setVar env 4 (min 32 r, .pub) ∧ s'.ent = s.ent ∧ s'.mem = s.mem) ?_ ?_
  · by_cases hc : r < 32
    · refine runs_ite_true 1 ?_ (by decide) (runs_assign (r, .pub) (by simp only [evalE, gi.e2, reduceCtorEq, if_false]) ⟨rfl, by rw [Nat.min_eq_right (by omega)], rfl, rfl⟩)
      simp only [evalE, gi.e2, reduceCtorEq, if_false, castVal_u64_i32_lit 32 (by decide), BinOp.needsPub2, BinOp.needsPub1, Bool.false_and, Bool.or_self, Bool.false_eq_true, binVal, Ty.signed,
        hc, decide_true, b2n, if_true, Lab.join_pub_pub]
    · refine runs_ite_false ?_ (runs_assign (32, .pub) (by simp only [evalE, castVal_u64_i32_lit 32 (by decide)]) ⟨rfl, by rw [Nat.min_eq_left (by omega)], rfl, rfl⟩)
      simp only [evalE, gi.e2, reduceCtorEq, if_false, castVal_u64_i32_lit 32 (by decide), BinOp.needsPub2, BinOp.needsPub1, Bool.false_and, Bool.or_self, Bool.false_eq_true, binVal, Ty.signed,
        hc, decide_false, b2n, Lab.join_pub_pub]
  intro e1 s1 ⟨he1, hent1, hm1⟩
  rw [he1]
  generalize hE1 : setVar env 4 (min 32 r, .pub) = E1
  have e1s : E1.size = 20 := by rw [← hE1, size_setVar]; exact gi.esz
  have e1k : ∀ y, y ≠ 4 → E1[y]? = env[y]? := fun y hy => by rw [← hE1]; exact get_set_ne _ _ _ _ (fun e => hy e.symm)
  have e1_4 : E1[4]? = some (min 32 r, .pub) := by rw [← hE1]; exact get_set_eq _ _ _ (by rw [gi.esz]; decide)
  have hP1 : s1.mem[G.bp]? = some ⟨Xp, G.baseP⟩ := by rw [hm1]; exact hPm
  have hH1 : s1.mem[G.n0]? = some ⟨XH, 0⟩ := by rw [hm1]; exact hHm
  have hsz1 : s1.mem.size = G.n0 + 1 := by rw [hm1]; exact gi.msz
  -- H = Hash(V)
  refine runs_seq (hash_callK E1 s1 (.var 5) (.var 3) (.lit 32) G.n0 G.bp XH Xp 0 G.baseP 0 0 g.V (by simp only [evalE, e1k 5 (by decide), gi.e5, reduceCtorEq, if_false, Nat.add_zero])
    (by simp only [evalE, e1k 3 (by decide), gi.e3, reduceCtorEq, if_false, Nat.add_zero]) (by simp only [evalE, ho.vl]) hH1 hP1 (by rw [hHs]; simp [ptrBase]) (by rw [hXps]; exact hlt)
    (by rw [hHs]; omega) (by rw [hsz1]; omega) ho.v) ?_
  intro e2 s2 ⟨he2, hent2, hsz2, ⟨XH2, hH2, hH2d⟩, K2⟩
  rw [he2]
  obtain ⟨Xp2, hP2, hXp2s, kP2⟩ := okeep_block (by have := K2 G.bp; rw [hP1] at this; exact this)
  obtain ⟨XD2, hD2, hXD2s, kD2⟩ := okeep_block (by have := K2 G.bd; rw [hm1, hDm] at this; exact this)
  have ho2 : PObjV Xp2 g.V g.C g.rc g.rl := pobj_keep kP2 ho (fun q _ h => by omega) (fun q h1 _ h => by omega)
  have hcb2 : PCb Xp2 G.ud G.cbv := pcb_keep kP2 hcb (fun q h1 _ => ⟨fun h => by omega, fun h => by omega⟩)
  have hXH2s : XH2.size = 32 := by
    obtain ⟨Z, hz, hzs, _⟩ := okeep_block (by have := K2 G.n0; rw [hH1] at this; exact this)
    rw [hH2] at hz; cases hz; rw [hzs]; exact hHs
  have hhl : (hash g.V).length = 32 := finalize_length _
  have hdl : ((hash g.V).take (min 32 r)).length = min 32 r := by rw [List.length_take, hhl]; omega
  have hDd2 : BytesV XD2 G.doff acc := bytesV_keepW kD2 hDd (fun _ _ _ h => by have := h.1; omega)
  -- memcpy(data, H, len)
  unfold genCopy
  simp only [seqs]
  refine runs_seq (Q := fun e s' => e = E1 ∧ s'.ent = s.ent ∧ s'.mem.size = G.n0 + 1 ∧ (∀ j, j ≠ G.bd → s'.mem[j]? = s2.mem[j]?) ∧
      ∃ XD', s'.mem[G.bd]? = some ⟨XD', G.based⟩ ∧ XD'.size = XD2.size ∧ BytesV XD' (G.doff + acc.length) ((hash g.V).take (min 32 r)) ∧
        (∀ p, (p < G.doff + acc.length ∨ G.doff + acc.length + ((hash g.V).take (min 32 r)).length ≤ p) → XD'[p]? = XD2[p]?)) ?_ ?_
  · refine memcpy_blocks (.var 1) (.var 5) (.var 4) G.bd G.based (G.doff + acc.length) XD2 G.n0 0 0 XH2 ((hash g.V).take (min 32 r)) hD2 hH2 (bytesV_take' hH2d _)
      (by rw [hdl, hXD2s, hDs]; omega) (by rw [hXD2s, hDs]; exact hltD) (by rw [hXH2s]; simp [ptrBase])
      (by simp only [evalE, e1k 1 (by decide), gi.e1, reduceCtorEq, if_false]) (by simp only [evalE, e1k 5 (by decide), gi.e5, reduceCtorEq, if_false, Nat.add_zero])
      (by simp only [evalE, e1_4, reduceCtorEq, if_false, hdl]) ?_
    intro s' g1 g2 g3 g4
    exact ⟨rfl, rfl, by rw [g1, hent2]; exact hent1, by rw [g2, hsz2]; exact hsz1, g3, g4⟩
  intro e3 s3 ⟨he3, hent3, hsz3, hoth3, XD3, hD3, hXD3s, hD3d, hD3o⟩
  rw [he3]
  refine runs_assign (mkPtr G.bd (G.based + (G.doff + acc.length)), .pub) (by simp only [evalE, e1k 1 (by decide), gi.e1, reduceCtorEq, if_false]) ?_
  refine ⟨rfl, by rw [size_setVar]; exact e1s, by rw [get_set_ne _ _ _ _ (by decide), e1k 0 (by decide)]; exact gi.e0, by rw [get_set_ne _ _ _ _ (by decide), e1k 1 (by decide)]; exact gi.e1,
    by rw [get_set_ne _ _ _ _ (by decide), e1k 2 (by decide)]; exact gi.e2, by rw [get_set_ne _ _ _ _ (by decide), e1k 3 (by decide)]; exact gi.e3,
    by rw [get_set_ne _ _ _ _ (by decide)]; exact e1_4, by rw [get_set_ne _ _ _ _ (by decide), e1k 5 (by decide)]; exact gi.e5, by rw [hent3]; exact gi.ent, hsz3,
    ⟨Xp2, by rw [hoth3 _ G.hpd]; exact hP2, by rw [hXp2s]; exact hXps, ho2, hcb2⟩, ⟨XH2, by rw [hoth3 _ (by omega)]; exact hH2, hXH2s⟩,
    ⟨XD3, hD3, by rw [hXD3s, hXD2s]; exact hDs, bytesV_append_veq' hDd2 hD3d (fun q hq => by rw [hD3o q (Or.inl hq)]; exact oveq_refl _), fun q hq => ?_⟩, fun j h1 h2 h3 => ?_⟩
  · rw [List.length_append] at hq
    rw [hD3o q (by omega)]
    exact orel_trans (R := VLe) (fun _ _ _ p r => vle_trans p r) ((kD2.2.2 q (fun h => by omega)).2 (fun h => G.hpd h.1.symm)) (hDo q (by omega))
  · rw [hoth3 j h3]
    have a := K2 j
    rw [hm1] at a
    exact okeep_mono (okeep_trans a (gi.oth j h1 h2 h3)) (fun q h => h.elim (fun x => by omega) id) (fun q h => h.elim (fun x => h2 x.1) id)

end TJ.MiniC.Hoare
