/-
  TJ.Proofs.HkdfOneShot — the one-shot `tinyjambu_hkdf(out, outlen, key, keylen, salt, saltlen, info, infolen)` on the regenerated term: the
  8160-byte cap, extract into a local state, expand, wipe.
-/
import TJ.Proofs.HkdfCall
namespace TJ.MiniC.Hoare
open TJ TJ.MiniC TJ.MiniC.PermC TJ.Gen.MiniC

theorem prog_hkdf : prog[idx_tinyjambu_hkdf]? = some f_tinyjambu_hkdf := by
  simp only [prog, idx_tinyjambu_hkdf, List.getElem?_cons_succ, List.getElem?_cons_zero]

/-- the state `tinyjambu_hkdf` starts from (nothing of it is read before `extract` writes it) -/
def kFresh : KState := { prk := zeros 32, out := zeros 32, counter := 0, posn := 0, tail := zeros 6 }

theorem hkdf_cap_cond (E : Env) (n : Nat) (h1 : E[1]? = some (n, .pub)) :
    evalE E (.bin .gt .u64 (.var 1) (.cast .u64 .i32 (.bin .mul .i32 (.lit 32) (.lit 255)))) = .ok (b2n (decide (n > 8160)), .pub) := by
  have hc : castVal .u64 .i32 8160 = 8160 := by decide
  simp only [evalE, h1, reduceCtorEq, if_false, BinOp.needsPub2, BinOp.needsPub1, Bool.false_and, Bool.or_self, Bool.false_eq_true, binVal, Ty.modulus, Ty.signed, Lab.join_pub_pub,
    show 32 * 255 % 4294967296 = 8160 from by decide, hc]

/-- **`x = tinyjambu_hkdf(out, outlen, …)` beyond the cap**: more than 255 blocks are refused with -1 and nothing is written -/
theorem hkdf_call_cap (x : Nat) (env : Env) (st : St) (eo en ek ekl et etl ei eil : Expr) (vo n vk vkl vt vtl vi vil : Nat) (hn : n > 8160)
    (heo : evalE env eo = .ok (vo, .pub)) (hen : evalE env en = .ok (n, .pub)) (hek : evalE env ek = .ok (vk, .pub)) (hekl : evalE env ekl = .ok (vkl, .pub))
    (het : evalE env et = .ok (vt, .pub)) (hetl : evalE env etl = .ok (vtl, .pub)) (hei : evalE env ei = .ok (vi, .pub)) (heil : evalE env eil = .ok (vil, .pub)) :
    RunsTo prog (.call (some x) idx_tinyjambu_hkdf [eo, en, ek, ekl, et, etl, ei, eil]) env st (fun sig e s => sig = .normal ∧ e = setVar env x (4294967295, .pub) ∧
      s.ent = st.ent ∧ s.mem = st.mem) := by
  let vs : List LVal := [(vo, .pub), (n, .pub), (vk, .pub), (vkl, .pub), (vt, .pub), (vtl, .pub), (vi, .pub), (vil, .pub)]
  refine runs_call_some f_tinyjambu_hkdf vs prog_hkdf (by simp only [evalArgs, heo, hen, hek, hekl, het, hetl, hei, heil]; rfl) rfl ?_
  have hentr : enterFun f_tinyjambu_hkdf vs st.mem = (setVar (vs ++ List.replicate 2 (0, Lab.undef)).toArray 8 (mkPtr st.mem.size 0, .pub),
      st.mem.push ⟨Array.replicate 72 (0, .undef), 0⟩) := rfl
  rw [hentr]
  obtain ⟨hE0s, hE0v, hE08⟩ := enter_env_one vs 8 2 8 (mkPtr st.mem.size 0, .pub) rfl (by decide) (by decide)
  have hbody : f_tinyjambu_hkdf.body = .seq (.ite (.bin .gt .u64 (.var 1) (.cast .u64 .i32 (.bin .mul .i32 (.lit 32) (.lit 255)))) (.ret (some (.un .neg .i32 (.lit 1)))) .skip)
      (.seq (.call none 31 [.var 8, .var 2, .var 3, .var 4, .var 5]) (.seq (.call (some 9) 30 [.var 8, .var 6, .var 7, .var 0, .var 1])
        (.seq (.call none 16 [.var 8, .lit 72]) (.ret (some (.lit 0)))))) := rfl
  rw [hbody]
  refine runs_seq_abort (runs_ite_true 1 (by rw [hkdf_cap_cond _ n (hE0v 1 _ rfl)]; simp [b2n, hn]) (by decide) ?_)
  refine runs_ret_some (4294967295, .pub) rfl ⟨Sig.noConfusion, _, rfl, rfl, rfl, rfl, ?_⟩
  show (st.mem.push _).extract 0 st.mem.size = st.mem
  rw [Array.extract_push, if_pos (Nat.le_refl _)]
  exact extract_self _

/-- **`x = tinyjambu_hkdf(out, outlen, key, keylen, salt, saltlen, info, infolen)`** for at most 8160 bytes: 0 is returned and `out` holds the model's
    extract-then-expand output; the local state is wiped and released; every other byte of memory keeps its value -/
theorem hkdf_call_ok (x : Nat) (env : Env) (st : St) (eo en ek ekl et etl ei eil : Expr) (bo bk bt : Nat) (XO XK XT : Array LByte) (baseo oo basek koff baset toff n : Nat)
    (key salt info : Bytes) (pinfo bi basei ioff : Nat) (XI : Array LByte) (hn : n ≤ 8160)
    (heo : evalE env eo = .ok (mkPtr bo (baseo + oo), .pub)) (hen : evalE env en = .ok (n, .pub))
    (hek : evalE env ek = .ok (mkPtr bk (basek + koff), .pub)) (hekl : evalE env ekl = .ok (key.length, .pub))
    (het : evalE env et = .ok (mkPtr bt (baset + toff), .pub)) (hetl : evalE env etl = .ok (salt.length, .pub))
    (hei : evalE env ei = .ok (pinfo, .pub)) (heil : evalE env eil = .ok (info.length, .pub))
    (hO : st.mem[bo]? = some ⟨XO, baseo⟩) (hK : st.mem[bk]? = some ⟨XK, basek⟩) (hT : st.mem[bt]? = some ⟨XT, baset⟩)
    (hltO : baseo + XO.size < ptrBase) (hltK : basek + XK.size < ptrBase) (hltT : baset + XT.size < ptrBase)
    (hkd : BytesV XK koff key) (htd : BytesV XT toff salt) (hin : oo + n ≤ XO.size)
    (hI : info = [] ∨ (st.mem[bi]? = some ⟨XI, basei⟩ ∧ BytesV XI ioff info ∧ pinfo = mkPtr bi (basei + ioff) ∧ bi ≠ bo ∧ basei + XI.size < ptrBase))
    (hsz : st.mem.size + 10 < 2 ^ 30) :
    RunsTo prog (.call (some x) idx_tinyjambu_hkdf [eo, en, ek, ekl, et, etl, ei, eil]) env st (fun sig e s => sig = .normal ∧ e = setVar env x (0, .pub) ∧
      s.ent = st.ent ∧ s.mem.size = st.mem.size ∧
      (∃ XO', s.mem[bo]? = some ⟨XO', baseo⟩ ∧ XO'.size = XO.size ∧ BytesV XO' oo ((kFresh.extract key salt).expand info n).2.1 ∧
        ((kFresh.extract key salt).expand info n).2.1.length = n ∧ ∀ q : Nat, (q < oo ∨ oo + n ≤ q) → ORel VEq XO'[q]? XO[q]?) ∧
      (∀ j, j ≠ bo → ORel BlockEqV s.mem[j]? st.mem[j]?)) := by
  have hboN := mem_lt hO; have hbkN := mem_lt hK; have hbtN := mem_lt hT
  let vs : List LVal := [(mkPtr bo (baseo + oo), .pub), (n, .pub), (mkPtr bk (basek + koff), .pub), (key.length, .pub), (mkPtr bt (baset + toff), .pub), (salt.length, .pub),
    (pinfo, .pub), (info.length, .pub)]
  refine runs_call_some f_tinyjambu_hkdf vs prog_hkdf (by simp only [evalArgs, heo, hen, hek, hekl, het, hetl, hei, heil]; rfl) rfl ?_
  have hentr : enterFun f_tinyjambu_hkdf vs st.mem = (setVar (vs ++ List.replicate 2 (0, Lab.undef)).toArray 8 (mkPtr st.mem.size 0, .pub),
      st.mem.push ⟨Array.replicate 72 (0, .undef), 0⟩) := rfl
  rw [hentr]
  obtain ⟨hE0s, hE0v, hE08⟩ := enter_env_one vs 8 2 8 (mkPtr st.mem.size 0, .pub) rfl (by decide) (by decide)
  generalize hE0 : setVar (vs ++ List.replicate 2 (0, Lab.undef)).toArray 8 (mkPtr st.mem.size 0, .pub) = E0 at hE0s hE0v hE08
  generalize hm1 : st.mem.push ⟨Array.replicate 72 (0, .undef), 0⟩ = mem1
  have hm1lt : ∀ j, j < st.mem.size → mem1[j]? = st.mem[j]? := by
    intro j hj; rw [← hm1, Array.getElem?_push]; simp only [show ¬ j = st.mem.size from by omega, if_false]
  have hm1n : mem1[st.mem.size]? = some ⟨Array.replicate 72 (0, .undef), 0⟩ := by rw [← hm1, Array.getElem?_push]; simp
  have hm1sz : mem1.size = st.mem.size + 1 := by rw [← hm1, Array.size_push]
  have hbody : f_tinyjambu_hkdf.body = .seq (.ite (.bin .gt .u64 (.var 1) (.cast .u64 .i32 (.bin .mul .i32 (.lit 32) (.lit 255)))) (.ret (some (.un .neg .i32 (.lit 1)))) .skip)
      (.seq (.call none 31 [.var 8, .var 2, .var 3, .var 4, .var 5]) (.seq (.call (some 9) 30 [.var 8, .var 6, .var 7, .var 0, .var 1])
        (.seq (.call none 16 [.var 8, .lit 72]) (.ret (some (.lit 0)))))) := rfl
  rw [hbody]
  have ev : ∀ (E : Env) (i : Nat) (v : Nat), E[i]? = some (v, .pub) → evalE E (.var i) = .ok (v, .pub) := fun E i v h => by simp only [evalE, h, reduceCtorEq, if_false]
  refine runs_seq (Q := fun e s => e = E0 ∧ s.mem = mem1 ∧ s.ent = st.ent)
    (runs_ite_false (by rw [hkdf_cap_cond _ n (hE0v 1 _ rfl)]; simp [b2n]; omega) (runs_skip ⟨rfl, rfl, rfl, rfl⟩)) ?_
  intro e1 s1 ⟨he1, hms1, hent1⟩
  rw [he1]
  -- extract into the local state
  refine runs_seq (Q := fun e s => e = E0 ∧ s.ent = st.ent ∧ s.mem.size = st.mem.size + 1 ∧
      (∃ X', s.mem[st.mem.size]? = some ⟨X', 0⟩ ∧ X'.size = 72 ∧ KObjV X' (kFresh.extract key salt) False) ∧
      (∀ j, j ≠ st.mem.size → ORel BlockEqV s.mem[j]? mem1[j]?)) ?_ ?_
  · refine (hkdf_extract_call E0 s1 (.var 8) (.var 2) (.var 3) (.var 4) (.var 5) st.mem.size bk bt (Array.replicate 72 (0, .undef)) XK XT 0 basek koff baset toff kFresh False key salt
      (ev E0 8 _ hE08) (ev E0 2 _ (hE0v 2 _ rfl)) (ev E0 3 _ (hE0v 3 _ rfl)) (ev E0 4 _ (hE0v 4 _ rfl)) (ev E0 5 _ (hE0v 5 _ rfl))
      (by rw [hms1]; exact hm1n) (by rw [hms1, hm1lt bk hbkN]; exact hK) (by rw [hms1, hm1lt bt hbtN]; exact hT) (by omega) (by omega) (by simp) (fun h => h.elim) (by simp [kFresh, zeros])
      (by simp [ptrBase]) hltK hltT hkd htd (by rw [hms1, hm1sz]; omega)).weaken ?_
    intro sig e s ⟨g1, g2, g3, g4, ⟨X', g5, g6, g7⟩, g8⟩
    exact ⟨g1, g2, g3.trans hent1, by rw [g4, hms1]; exact hm1sz, ⟨X', g5, by rw [g6]; simp, g7⟩, fun j hj => by have := g8 j hj; rw [hms1] at this; exact this⟩
  intro e2 s2 ⟨he2, hent2, hsz2, ⟨X2, hX2, hX2s, ho2⟩, hoth2⟩
  rw [he2]
  have heq2 : ∀ j, j < st.mem.size → ORel BlockEqV s2.mem[j]? st.mem[j]? := fun j hj => by have := hoth2 j (by omega); rw [hm1lt j hj] at this; exact this
  obtain ⟨XO2, hXO2, hXO2s, hXO2v⟩ := eqv_block (by have := heq2 bo hboN; rw [hO] at this; exact this)
  have hI2 : ∃ XI2, info = [] ∨ (s2.mem[bi]? = some ⟨XI2, basei⟩ ∧ BytesV XI2 ioff info ∧ pinfo = mkPtr bi (basei + ioff) ∧ bi ≠ st.mem.size ∧ bi ≠ bo ∧ basei + XI2.size < ptrBase) := by
    rcases hI with h | ⟨h1, h2, h3, h4, h5⟩
    · exact ⟨#[], Or.inl h⟩
    · have hbiN := mem_lt h1
      obtain ⟨XI2, g1, g2, g3⟩ := eqv_block (by have := heq2 bi hbiN; rw [h1] at this; exact this)
      exact ⟨XI2, Or.inr ⟨g1, bytesV_of_veq g3 h2, h3, by omega, h4, by rw [g2]; exact h5⟩⟩
  obtain ⟨XI2, hI2⟩ := hI2
  have hcnt : (kFresh.extract key salt).counter = 1 := rfl
  have hpsn : (kFresh.extract key salt).posn = 32 := rfl
  -- expand
  refine runs_seq (Q := fun e s => ∃ rv, e = setVar E0 9 (rv, .pub) ∧
      XPost s2 st.mem.size bo X2 XO2 0 baseo oo n ((kFresh.extract key salt).expand info n).2.2 ((kFresh.extract key salt).expand info n).2.1 s) ?_ ?_
  · refine (hkdf_expand_call_ret 9 E0 s2 (.var 8) (.var 6) (.var 7) (.var 0) (.var 1) st.mem.size bo X2 XO2 0 baseo oo n (kFresh.extract key salt) False info pinfo bi basei ioff XI2
      (ev E0 8 _ hE08) (ev E0 6 _ (hE0v 6 _ rfl)) (ev E0 7 _ (hE0v 7 _ rfl)) (ev E0 0 _ (hE0v 0 _ rfl)) (ev E0 1 _ (hE0v 1 _ rfl))
      hX2 ho2 (by rw [hpsn]; decide) (fun h => by rcases h with h | h; exact h hcnt; rw [hpsn] at h; exact absurd h (by decide)) hXO2 (by omega)
      (by rw [hX2s]; simp [ptrBase]) (by rw [hXO2s]; exact hltO) (by rw [hXO2s]; exact hin) hI2 (by rw [hsz2]; omega)).weaken ?_
    intro sig e s ⟨g1, rv, g2, _, g3⟩
    exact ⟨g1, rv, g2, g3⟩
  intro e3 s3 ⟨rv, he3, xp⟩
  rw [he3]
  obtain ⟨X3, od3, hX3, hX3s, _, _, _⟩ := xp.obj
  obtain ⟨XO3, hXO3, hXO3s, hXO3d, hlen3, hXO3o⟩ := xp.buf
  -- wipe the local state
  refine runs_seq (Q := fun e s => s.ent = st.ent ∧ s.mem = setBlock s3.mem st.mem.size (Array.replicate 72 (0, Lab.pub))) ?_ ?_
  · refine ⟨0 + 2, _, _, _, exec_call_clean_full 0 _ s3 (.var 8) (.lit 72) 72 st.mem.size ⟨X3, 0⟩ hX3 rfl (by rw [hX3s, hX2s])
      (ev _ 8 _ (by rw [get_set_ne _ _ _ _ (by decide)]; exact hE08)) rfl (by decide) (by decide), rfl, xp.ent.trans hent2, rfl⟩
  intro e4 s4 ⟨hent4, hm4⟩
  refine runs_ret_some (0, .pub) rfl ⟨_, rfl, rfl, rfl, hent4, ?_⟩
  have hms3 : s3.mem.size = st.mem.size + 1 := xp.msz.trans hsz2
  have hlk : ∀ j, j < st.mem.size → (s4.mem.extract 0 st.mem.size)[j]? = s3.mem[j]? := by
    intro j hj
    rw [hm4, Array.getElem?_extract, size_setBlock', hms3]
    have : j < min st.mem.size (st.mem.size + 1) - 0 := by omega
    simp only [this, if_true, Nat.zero_add]
    rw [getElem?_setBlock', if_neg (by omega)]
  have hexs : (s4.mem.extract 0 st.mem.size).size = st.mem.size := by rw [hm4, Array.size_extract, size_setBlock', hms3]; omega
  refine ⟨hexs, ⟨XO3, by show (s4.mem.extract 0 st.mem.size)[bo]? = _; rw [hlk bo hboN]; exact hXO3, hXO3s.trans hXO2s, hXO3d, hlen3, fun q hq =>
    orel_trans (R := VEq) (fun _ _ _ p r => VEq.trans p r) (hXO3o q hq) (hXO2v q)⟩, fun j hjo => ?_⟩
  show ORel BlockEqV (s4.mem.extract 0 st.mem.size)[j]? st.mem[j]?
  by_cases hjn : j < st.mem.size
  · rw [hlk j hjn]
    exact orel_trans (R := BlockEqV) (fun _ _ _ p q => BlockEqV.trans p q) (xp.oth j (by omega) hjo) (heq2 j hjn)
  · rw [Array.getElem?_eq_none (by rw [hexs]; omega), Array.getElem?_eq_none (by omega)]; trivial

end TJ.MiniC.Hoare
