import TJ.Proofs.PrngGenSpec
namespace TJ.MiniC.Hoare
open TJ TJ.MiniC TJ.MiniC.PermC TJ.Gen.MiniC

/-- the callback fields of the state object: the user callback and its (public) user-data pointer -/
structure PCb (X : Array LByte) (ud : Nat) (cbv : Nat := userCb) : Prop where
  cb : readLE X 72 8 = some (cbv, .pub)
  ud : readLE X 80 8 = some (ud, .pub)

theorem PCb.toV {X : Array LByte} {ud cbv : Nat} (h : PCb X ud cbv) : PCbV X ud .pub cbv := ⟨h.cb, h.ud, by decide⟩

theorem pobj_keep {O W : Nat → Prop} {X' X : Array LByte} {b b0 : Nat} {V C : Bytes} {rc rl : Nat} (k : KeepW O W ⟨X', b⟩ ⟨X, b0⟩) (ho : PObjV X V C rc rl)
    (hO : ∀ q, q < 72 → ¬ O q) (hW : ∀ q, 64 ≤ q → q < 72 → ¬ W q) : PObjV X' V C rc rl := by
  have hVl := ho.vl; have hCl := ho.cl
  refine ⟨by have := k.2.1; have := ho.sz; simp only at *; omega, bytesV_keepW k ho.v (fun q _ h => hO q (by omega)), ho.vl, bytesV_keepW k ho.c (fun q _ h => hO q (by omega)), ho.cl,
    readLE_pub_keep X' X 4 64 rc (fun q h1 h2 => (k.2.2 q (hO q (by omega))).2 (hW q h1 (by omega))) ho.hrc, ho.rcb,
    readLE_pub_keep X' X 4 68 rl (fun q h1 h2 => (k.2.2 q (hO q (by omega))).2 (hW q (by omega) (by omega))) ho.hrl⟩

theorem pcb_keep {O W : Nat → Prop} {X' X : Array LByte} {b b0 : Nat} {ud cbv : Nat} (k : KeepW O W ⟨X', b⟩ ⟨X, b0⟩) (h : PCb X ud cbv)
    (hOW : ∀ q, 72 ≤ q → q < 88 → ¬ O q ∧ ¬ W q) : PCb X' ud cbv :=
  ⟨readLE_pub_keep X' X 8 72 cbv (fun q h1 h2 => (k.2.2 q (hOW q h1 (by omega)).1).2 (hOW q h1 (by omega)).2) h.cb,
   readLE_pub_keep X' X 8 80 ud (fun q h1 h2 => (k.2.2 q (hOW q (by omega) (by omega)).1).2 (hOW q (by omega) (by omega)).2) h.ud⟩

theorem pcb_vle {X' X : Array LByte} {ud cbv : Nat} (h : PCb X ud cbv) (hk : ∀ q, 72 ≤ q → ORel VLe X'[q]? X[q]?) : PCb X' ud cbv :=
  ⟨readLE_pub_keep X' X 8 72 cbv (fun q h1 _ => hk q h1) h.cb, readLE_pub_keep X' X 8 80 ud (fun q h1 _ => hk q (by omega)) h.ud⟩

/-- geometry of a `tinyjambu_prng_generate` activation -/
structure GGeo where
  n0 : Nat
  bp : Nat
  baseP : Nat
  xps : Nat
  bd : Nat
  based : Nat
  doff : Nat
  n : Nat
  ud : Nat
  cbv : Nat
  XD0 : Array LByte
  hk : CbOk cbv
  hbp : bp < n0
  hbd : bd < n0
  hpd : bp ≠ bd
  hal : baseP % 8 = 0
  hxps : 96 ≤ xps
  hltP : baseP + xps < ptrBase
  hltD : based + XD0.size < ptrBase
  hin : doff + n ≤ XD0.size
  hsz : n0 + 7 < 2 ^ 30

/-- the state of `tinyjambu_prng_generate` at the head of its block loop -/
structure GI (G : GGeo) (mem0 : Array Block) (g : GS) (acc : Bytes) (r : Nat) (env : Env) (s : St) : Prop where
  esz : env.size = 20
  e0 : env[0]? = some (mkPtr G.bp G.baseP, .pub)
  e1 : env[1]? = some (mkPtr G.bd (G.based + (G.doff + acc.length)), .pub)
  e2 : env[2]? = some (r, .pub)
  e3 : env[3]? = some (mkPtr G.bp G.baseP, .pub)
  e5 : env[5]? = some (mkPtr G.n0 0, .pub)
  hn : acc.length + r = G.n
  ent : s.ent = g.ent
  msz : s.mem.size = G.n0 + 1
  hP : ∃ Xp, s.mem[G.bp]? = some ⟨Xp, G.baseP⟩ ∧ Xp.size = G.xps ∧ PObjV Xp g.V g.C g.rc g.rl ∧ PCb Xp G.ud G.cbv
  hH : ∃ XH, s.mem[G.n0]? = some ⟨XH, 0⟩ ∧ XH.size = 32
  hD : ∃ XD, s.mem[G.bd]? = some ⟨XD, G.based⟩ ∧ XD.size = G.XD0.size ∧ BytesV XD G.doff acc ∧ ∀ q, (q < G.doff ∨ G.doff + acc.length ≤ q) → ORel VLe XD[q]? G.XD0[q]?
  oth : ∀ j, j < G.n0 → j ≠ G.bp → j ≠ G.bd → ORel (KeepW (fun _ => False) (fun _ => False)) s.mem[j]? mem0[j]?

/-- `if (pstate->reseed_counter > pstate->reseed_limit) tinyjambu_prng_reseed(state);` -/
theorem gen_reseed_chk (G : GGeo) (mem0 : Array Block) (g : GS) (acc : Bytes) (r : Nat) {env : Env} {s : St} (gi : GI G mem0 g acc r env s) :
    RunsTo prog genReseedChk env s (fun sig e' s' => sig = .normal ∧ GI G mem0 g.auto acc r e' s') := by
  obtain ⟨Xp, hPm, hXps, ho, hcb⟩ := gi.hP
  have hG := G.hsz; have hbp := G.hbp; have hbd := G.hbd; have hx := G.hxps; have hlt := G.hltP; have hal := G.hal
  have hpk : ∀ k, k ≤ 80 → (mkPtr G.bp G.baseP + k) % 18446744073709551616 = mkPtr G.bp (G.baseP + k) := fun k hk => ptr_off G.bp G.baseP k (by omega) (by omega)
  have eadd : ∀ (E : Env) (k : Nat), k ≤ 80 → E[3]? = some (mkPtr G.bp G.baseP, .pub) → evalE E (.bin .add .u64 (.var 3) (.lit k)) = .ok (mkPtr G.bp (G.baseP + k), .pub) := fun E k hk h3 => by
    simp only [evalE, h3, reduceCtorEq, if_false, BinOp.needsPub2, BinOp.needsPub1, Bool.false_and, Bool.or_self, Bool.false_eq_true, binVal, Ty.modulus, Lab.join_pub_pub, hpk k hk]
  have keepE : ∀ (E : Env) (x : Nat) (v : LVal), 8 ≤ x → E.size = 20 → (setVar E x v).size = 20 ∧ (∀ y, y < 8 → (setVar E x v)[y]? = E[y]?) := fun E x v hx hs =>
    ⟨by rw [size_setVar]; exact hs, fun y hy => get_set_ne _ _ _ _ (by omega)⟩
  unfold genReseedChk
  simp only [seqs]
  refine runs_seq (Q := fun e s' => e = setVar env 8 (g.rc, .pub) ∧ s'.ent = s.ent ∧ s'.mem = s.mem)
    (runs_load (mkPtr G.bp (G.baseP + 64)) G.bp 64 4 (g.rc, .pub) rfl (eadd env 64 (by decide) gi.e3) (resolve_word hPm 64 (by omega) (by omega) (by omega))
      (by rw [blockBytes_of hPm]; exact ho.hrc) ⟨rfl, rfl, rfl, rfl⟩) ?_
  intro e1 s1 ⟨he1, hent1, hm1⟩; rw [he1]
  obtain ⟨e1s, e1k⟩ := keepE env 8 (g.rc, .pub) (by decide) gi.esz
  refine runs_seq (Q := fun e s' => e = setVar (setVar env 8 (g.rc, .pub)) 9 (g.rl, .pub) ∧ s'.ent = s.ent ∧ s'.mem = s.mem)
    (runs_load (mkPtr G.bp (G.baseP + 68)) G.bp 68 4 (g.rl, .pub) rfl (eadd _ 68 (by decide) (by rw [e1k 3 (by decide)]; exact gi.e3)) (by rw [hm1]; exact resolve_word hPm 68 (by omega) (by omega) (by omega))
      (by rw [hm1, blockBytes_of hPm]; exact ho.hrl) ⟨rfl, rfl, hent1, hm1⟩) ?_
  intro e2 s2 ⟨he2, hent2, hm2⟩; rw [he2]
  generalize hE2 : setVar (setVar env 8 (g.rc, .pub)) 9 (g.rl, .pub) = E2
  obtain ⟨e2s, e2k⟩ : E2.size = 20 ∧ ∀ y, y < 8 → E2[y]? = env[y]? := by
    rw [← hE2]; obtain ⟨a, b⟩ := keepE _ 9 (g.rl, .pub) (by decide) e1s
    exact ⟨a, fun y hy => by rw [b y hy, e1k y hy]⟩
  have e2_8 : E2[8]? = some (g.rc, .pub) := by rw [← hE2, get_set_ne _ _ _ _ (by decide)]; exact get_set_eq _ _ _ (by rw [gi.esz]; decide)
  have e2_9 : E2[9]? = some (g.rl, .pub) := by rw [← hE2]; exact get_set_eq _ _ _ (by rw [e1s]; decide)
  by_cases hc : g.rc > g.rl
  · have hauto : g.auto = g.reseed := by unfold GS.auto; rw [if_pos hc]
    rw [hauto]
    refine runs_ite_true 1 ?_ (by decide) ?_
    · simp only [evalE, e2_8, e2_9, reduceCtorEq, if_false, BinOp.needsPub2, BinOp.needsPub1, Bool.false_and, Bool.or_self, Bool.false_eq_true, binVal, Ty.signed, gt_iff_lt,
        show g.rl < g.rc from hc, decide_true, b2n, if_true, Lab.join_pub_pub]
    refine (prng_reseed_call_ret G.cbv G.hk 10 E2 { s2 with leak := .br true :: s2.leak } (.var 0) G.bp Xp G.baseP g.V g.C g.rc g.rl G.ud .pub (by simp only [evalE, e2k 0 (by decide), gi.e0, reduceCtorEq, if_false])
      (by show s2.mem[G.bp]? = _; rw [hm2]; exact hPm) ho hcb.toV hal (by rw [hXps]; exact hlt) (by show s2.mem.size + 5 < _; rw [hm2, gi.msz]; omega)).weaken ?_
    intro sig e' s' ⟨hsig, he', hent', hsz', ⟨X', g1, g2, g3, g4⟩, g5⟩
    have hent' : s'.ent = s2.ent.tail := hent'
    have hsz' : s'.mem.size = s2.mem.size := hsz'
    have g5 : ∀ j, j ≠ G.bp → ORel (KeepW (fun _ => False) (fun _ => False)) s'.mem[j]? s.mem[j]? := fun j hj => by have := g5 j hj; rw [show ({ s2 with leak := .br true :: s2.leak } : St).mem = s.mem from hm2] at this; exact this
    obtain ⟨e's, e'k⟩ := keepE E2 10 (if cbRet G.cbv (s2.ent.headD ([], 0)) = 32 then 1 else 0, .pub) (by decide) e2s
    have hhd : s2.ent = g.ent := by rw [hent2]; exact gi.ent
    rw [show ({ s2 with leak := .br true :: s2.leak } : St).ent = g.ent from hhd] at g3
    obtain ⟨XH, hHm, hHs⟩ := gi.hH
    obtain ⟨XD, hDm, hDs, hDd, hDo⟩ := gi.hD
    obtain ⟨XH', hH', hH's, _⟩ := okeep_block (by have := g5 G.n0 (by omega); rw [hHm] at this; exact this)
    obtain ⟨XD', hD', hD's, kD⟩ := okeep_block (by have := g5 G.bd (fun e => G.hpd e.symm); rw [hDm] at this; exact this)
    refine ⟨hsig, by rw [he']; exact e's, by rw [he', e'k 0 (by decide), e2k 0 (by decide)]; exact gi.e0, by rw [he', e'k 1 (by decide), e2k 1 (by decide)]; exact gi.e1,
      by rw [he', e'k 2 (by decide), e2k 2 (by decide)]; exact gi.e2, by rw [he', e'k 3 (by decide), e2k 3 (by decide)]; exact gi.e3,
      by rw [he', e'k 5 (by decide), e2k 5 (by decide)]; exact gi.e5, gi.hn, by rw [hent', hhd]; rfl, by rw [hsz', hm2]; exact gi.msz,
      ⟨X', g1, by rw [g2]; exact hXps, g3, pcb_vle hcb (fun q hq => g4 q (by omega))⟩, ⟨XH', hH', by rw [hH's]; exact hHs⟩,
      ⟨XD', hD', by rw [hD's]; exact hDs, bytesV_keepW kD hDd (fun _ _ _ h => h), fun q hq =>
        orel_trans (R := VLe) (fun _ _ _ p r => vle_trans p r) ((kD.2.2 q (fun h => h)).2 (fun h => h)) (hDo q hq)⟩,
      fun j h1 h2 h3 => by
        have := okeep_trans (g5 j h2) (gi.oth j h1 h2 h3)
        exact okeep_mono this (fun q h => h.elim id id) (fun q h => h.elim id id)⟩
  · have hauto : g.auto = g := by unfold GS.auto; rw [if_neg hc]
    rw [hauto]
    refine runs_ite_false ?_ (runs_skip ⟨rfl, e2s, by rw [e2k 0 (by decide)]; exact gi.e0, by rw [e2k 1 (by decide)]; exact gi.e1, by rw [e2k 2 (by decide)]; exact gi.e2,
      by rw [e2k 3 (by decide)]; exact gi.e3, by rw [e2k 5 (by decide)]; exact gi.e5, gi.hn, by show s2.ent = _; rw [hent2]; exact gi.ent, by show s2.mem.size = _; rw [hm2]; exact gi.msz,
      by show ∃ Xp, s2.mem[G.bp]? = _ ∧ _; rw [hm2]; exact gi.hP, by show ∃ XH, s2.mem[G.n0]? = _ ∧ _; rw [hm2]; exact gi.hH, by show ∃ XD, s2.mem[G.bd]? = _ ∧ _; rw [hm2]; exact gi.hD,
      by show ∀ j, j < G.n0 → j ≠ G.bp → j ≠ G.bd → ORel _ s2.mem[j]? mem0[j]?; rw [hm2]; exact gi.oth⟩)
    simp only [evalE, e2_8, e2_9, reduceCtorEq, if_false, BinOp.needsPub2, BinOp.needsPub1, Bool.false_and, Bool.or_self, Bool.false_eq_true, binVal, Ty.signed, gt_iff_lt,
      show ¬ g.rl < g.rc from hc, decide_false, b2n, Lab.join_pub_pub]

end TJ.MiniC.Hoare
