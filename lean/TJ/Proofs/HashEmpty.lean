import TJ.Proofs.Keep
namespace TJ.MiniC.Hoare
open TJ TJ.MiniC TJ.MiniC.PermC TJ.Gen.MiniC

/-- **`tinyjambu_hash_update(state, p, 0)`**: with nothing to absorb the pointer is never dereferenced (it may be NULL); the state object still
    represents `h`, nothing else changes. -/
theorem update_empty_call (prog : Program) (fn : Nat) (hprog : prog[fn]? = some f_tinyjambu_hash_update)
    (env : Env) (st : St) (es ei el : Expr) (bs : Nat) (X : Array LByte) (baseS p : Nat) (h : HState)
    (hes : evalE env es = .ok (mkPtr bs baseS, .pub)) (hei : evalE env ei = .ok (p, .pub)) (hel : evalE env el = .ok (0, .pub))
    (hS : st.mem[bs]? = some ⟨X, baseS⟩) (hrep : HObjV X h) (halS : baseS % 4 = 0) (hltS : baseS + X.size < ptrBase) (hbs30 : bs < 2 ^ 30) :
    RunsTo prog (.call none fn [es, ei, el]) env st (fun sig e s => sig = .normal ∧ e = env ∧ s.ent = st.ent ∧ s.mem.size = st.mem.size ∧
      (∀ j, j ≠ bs → s.mem[j]? = st.mem[j]?) ∧ ∃ X', s.mem[bs]? = some ⟨X', baseS⟩ ∧ X'.size = X.size ∧ HObjV X' h) := by
  obtain ⟨em, e18, e0, e1, e2⟩ := enter_update (mkPtr bs baseS) p 0 st.mem
  refine runs_call_none f_tinyjambu_hash_update [(mkPtr bs baseS, .pub), (p, .pub), (0, .pub)] hprog (by simp only [evalArgs, hes, hei, hel]) rfl ?_
  rw [update_body_eq, em]
  generalize (enterFun f_tinyjambu_hash_update [(mkPtr bs baseS, Lab.pub), (p, Lab.pub), (0, Lab.pub)] st.mem).1 = E0 at e18 e0 e1 e2
  have hsz := hrep.sz
  have hp48 : (mkPtr bs baseS + 48) % 18446744073709551616 = mkPtr bs (baseS + 48) := ptr_off bs baseS 48 hbs30 (by omega)
  have hp32 : (mkPtr bs baseS + 32) % 18446744073709551616 = mkPtr bs (baseS + 32) := ptr_off bs baseS 32 hbs30 (by omega)
  have hmS : ({ st with mem := st.mem } : St).mem[bs]? = some ⟨X, baseS⟩ := hS
  -- the common end: memory is `st.mem` or has `posn` rewritten with the same value
  have hfin : ∀ (s : St), s.ent = st.ent → (s.mem = st.mem ∨ s.mem = setBlock st.mem bs (writeLE X 48 h.posn .pub 4)) →
      (s.ent = st.ent ∧ (s.mem.extract 0 st.mem.size).size = st.mem.size ∧ (∀ j, j ≠ bs → (s.mem.extract 0 st.mem.size)[j]? = st.mem[j]?) ∧
        ∃ X', (s.mem.extract 0 st.mem.size)[bs]? = some ⟨X', baseS⟩ ∧ X'.size = X.size ∧ HObjV X' h) := by
    intro s hent hm
    have hms : s.mem.size = st.mem.size := by rcases hm with hm | hm <;> rw [hm]; rw [size_setBlock']
    have hext : s.mem.extract 0 st.mem.size = s.mem := by rw [← hms]; exact extract_self _
    rw [hext]
    rcases hm with hm | hm
    · rw [hm]; exact ⟨hent, rfl, fun _ _ => rfl, X, hS, rfl, hrep⟩
    · rw [hm]
      exact ⟨hent, size_setBlock' _ _ _, fun j hj => by rw [getElem?_setBlock', if_neg hj],
        _, by rw [getElem?_setBlock', if_pos rfl, hS]; rfl, size_writeLE _ _ _ _ _, hrep.setPosn h.posn hrep.p16⟩
  unfold updateBody
  simp only [seqs]
  refine runs_seq (Q := fun e s => e = setVar E0 3 (mkPtr bs baseS, .pub) ∧ s = { st with mem := st.mem })
    (runs_assign _ (by simp only [evalE, e0, reduceCtorEq, if_false]) ⟨rfl, rfl, rfl⟩) ?_
  intro e s ⟨he, hs⟩; rw [he, hs]
  refine runs_seq (Q := fun e s => e = setVar (setVar E0 3 (mkPtr bs baseS, .pub)) 4 (mkPtr bs (baseS + 32), .pub) ∧ s = { st with mem := st.mem })
    (runs_assign _ (by simp only [evalE, get_set, e18, show (3 : Nat) < 18 from by decide, and_self, if_true, reduceCtorEq, if_false, BinOp.needsPub2, BinOp.needsPub1,
      Bool.false_and, Bool.or_self, Bool.false_eq_true, binVal, Ty.modulus, Lab.join_pub_pub, hp32]) ⟨rfl, rfl, rfl⟩) ?_
  intro e s ⟨he, hs⟩; rw [he, hs]
  generalize hE2 : setVar (setVar E0 3 (mkPtr bs baseS, .pub)) 4 (mkPtr bs (baseS + 32), .pub) = E2
  have e2s : E2.size = 18 := by rw [← hE2]; simp only [size_setVar]; exact e18
  have e2_3 : E2[3]? = some (mkPtr bs baseS, .pub) := by rw [← hE2, get_set_ne _ _ _ _ (by decide)]; exact get_set_eq _ _ _ (by rw [e18]; decide)
  have e2_4 : E2[4]? = some (mkPtr bs (baseS + 32), .pub) := by rw [← hE2]; exact get_set_eq _ _ _ (by rw [size_setVar, e18]; decide)
  have e2_1 : E2[1]? = some (p, .pub) := by rw [← hE2, get_set_ne _ _ _ _ (by decide), get_set_ne _ _ _ _ (by decide)]; exact e1
  have e2_2 : E2[2]? = some (0, .pub) := by rw [← hE2, get_set_ne _ _ _ _ (by decide), get_set_ne _ _ _ _ (by decide)]; exact e2
  have evPosn : ∀ (E : Env), E[3]? = some (mkPtr bs baseS, .pub) → evalE E posnAddr = .ok (mkPtr bs (baseS + 48), .pub) := fun E h3 => by
    simp only [posnAddr, evalE, h3, reduceCtorEq, if_false, BinOp.needsPub2, BinOp.needsPub1, Bool.false_and, Bool.or_self, Bool.false_eq_true, binVal,
      Ty.modulus, Lab.join_pub_pub, hp48]
  have ldPosn : ∀ (x : Nat) (E : Env) (s : St) (P : Sig → Env → St → Prop), E[3]? = some (mkPtr bs baseS, .pub) → s.mem = st.mem →
      P .normal (setVar E x (h.posn, .pub)) { s with leak := .rd (mkPtr bs (baseS + 48)) 4 :: s.leak } → RunsTo prog (.load x .u32 posnAddr) E s P := fun x E s P h3 hm hP =>
    runs_load (mkPtr bs (baseS + 48)) bs 48 4 (h.posn, .pub) rfl (evPosn E h3) (by rw [hm]; exact resolve_word hS 48 (by omega) (by omega) (by omega))
      (by rw [hm, blockBytes_of hS]; exact hrep.posn) hP
  unfold part1Stmt
  simp only [seqs]
  by_cases hp0 : h.posn = 0
  · -- nothing buffered: the first part, the block loop and the tail all fall through
    refine runs_seq (Q := fun e s => s.ent = st.ent ∧ s.mem = st.mem ∧ e[2]? = some (0, .pub)) ?_ ?_
    · refine runs_seq (Q := fun e s => e = setVar E2 6 (h.posn, .pub) ∧ s.ent = st.ent ∧ s.mem = st.mem) (ldPosn 6 E2 _ _ e2_3 rfl ⟨rfl, rfl, rfl, rfl⟩) ?_
      intro e s ⟨he, hent, hm⟩; rw [he]
      refine runs_ite_false ?_ (runs_skip ⟨rfl, hent, hm, by rw [get_set_ne _ _ _ _ (by decide)]; exact e2_2⟩)
      simp only [evalE, get_set_eq _ _ _ (show 6 < E2.size from by omega), reduceCtorEq, if_false, castVal_u32_i32_0', BinOp.needsPub2, BinOp.needsPub1, Bool.false_and, Bool.or_self,
        Bool.false_eq_true, binVal, Ty.signed, gt_iff_lt, hp0, Nat.lt_irrefl, decide_false, b2n, Lab.join_pub_pub]
    intro e s ⟨hent, hm, h2⟩
    refine runs_seq (Q := fun e' s' => s'.ent = st.ent ∧ s'.mem = st.mem ∧ e'[2]? = some (0, .pub)) ?_ ?_
    · refine runs_loop_break (runs_ite_false ?_ (runs_brk ⟨rfl, rfl, hent, hm, h2⟩))
      simp only [evalE, h2, reduceCtorEq, if_false, castVal_u64_i32_16, BinOp.needsPub2, BinOp.needsPub1, Bool.false_and, Bool.or_self,
        Bool.false_eq_true, binVal, Ty.signed, ge_iff_le, show ¬ 16 ≤ 0 from by decide, decide_false, b2n, Lab.join_pub_pub]
    intro e' s' ⟨hent', hm', h2'⟩
    unfold tailStmt
    refine runs_ite_false ?_ (runs_skip ?_)
    · simp only [evalE, h2', reduceCtorEq, if_false, castVal_u64_i32_0, BinOp.needsPub2, BinOp.needsPub1, Bool.false_and, Bool.or_self,
        Bool.false_eq_true, binVal, Ty.signed, gt_iff_lt, Nat.lt_irrefl, decide_false, b2n, Lab.join_pub_pub]
    obtain ⟨a, b, c, d⟩ := hfin { s' with leak := .br false :: s'.leak } hent' (Or.inl hm')
    exact ⟨trivial, trivial, a, b, c, d⟩
  · have hp16 := hrep.p16
    have hpos : 0 < h.posn := Nat.pos_of_ne_zero hp0
    -- environments of this path only change variables 5..11
    let UE : Env → Prop := fun E => E.size = 18 ∧ E[1]? = some (p, .pub) ∧ E[2]? = some (0, .pub) ∧ E[3]? = some (mkPtr bs baseS, .pub) ∧ E[4]? = some (mkPtr bs (baseS + 32), .pub)
    have ue2 : UE E2 := ⟨e2s, e2_1, e2_2, e2_3, e2_4⟩
    have ueSet : ∀ (E : Env) (x : Nat) (v : LVal), 5 ≤ x → UE E → UE (setVar E x v) := fun E x v hx u =>
      ⟨by rw [size_setVar]; exact u.1, by rw [get_set_ne _ _ _ _ (by omega)]; exact u.2.1, by rw [get_set_ne _ _ _ _ (by omega)]; exact u.2.2.1,
       by rw [get_set_ne _ _ _ _ (by omega)]; exact u.2.2.2.1, by rw [get_set_ne _ _ _ _ (by omega)]; exact u.2.2.2.2⟩
    refine runs_seq_abort ?_
    refine runs_seq (Q := fun e s => UE e ∧ e[6]? = some (h.posn, .pub) ∧ s.ent = st.ent ∧ s.mem = st.mem)
      (ldPosn 6 E2 _ _ e2_3 rfl ⟨rfl, ueSet _ _ _ (by decide) ue2, get_set_eq _ _ _ (by rw [e2s]; decide), rfl, rfl⟩) ?_
    intro e s ⟨ue, e6, hent, hm⟩
    refine runs_ite_true 1 ?_ (by decide) ?_
    · simp only [evalE, e6, reduceCtorEq, if_false, castVal_u32_i32_0', BinOp.needsPub2, BinOp.needsPub1, Bool.false_and, Bool.or_self,
        Bool.false_eq_true, binVal, Ty.signed, gt_iff_lt, hpos, decide_true, b2n, if_true, Lab.join_pub_pub]
    refine runs_seq (Q := fun e' s' => UE e' ∧ e'[5]? = some (16 - h.posn, .pub) ∧ s'.ent = st.ent ∧ s'.mem = st.mem) ?_ ?_
    · refine runs_seq (Q := fun e' s' => UE e' ∧ e'[7]? = some (h.posn, .pub) ∧ s'.ent = st.ent ∧ s'.mem = st.mem)
        (ldPosn 7 e _ _ ue.2.2.2.1 hm ⟨rfl, ueSet _ _ _ (by decide) ue, get_set_eq _ _ _ (by rw [ue.1]; decide), hent, hm⟩) ?_
      intro e' s' ⟨ue', e7, hent', hm'⟩
      refine runs_assign (16 - h.posn, .pub) ?_ ⟨rfl, ueSet _ _ _ (by decide) ue', get_set_eq _ _ _ (by rw [ue'.1]; decide), hent', hm'⟩
      simp only [evalE, e7, reduceCtorEq, if_false, castVal_u32_i32_16, BinOp.needsPub2, BinOp.needsPub1, Bool.false_and, Bool.or_self, Bool.false_eq_true, binVal, Ty.modulus,
        Lab.join_pub_pub, sub32_16 h.posn hp16]
    intro e1' s1 ⟨ue1, e5, hent1, hm1⟩
    refine runs_seq_abort (runs_ite_true 1 ?_ (by decide) ?_)
    · have hc : castVal .u64 .u32 (16 - h.posn) = 16 - h.posn := by simp only [castVal, Ty.signed, Ty.modulus]; exact Nat.mod_eq_of_lt (by omega)
      simp only [evalE, e5, ue1.2.2.1, reduceCtorEq, if_false, hc, BinOp.needsPub2, BinOp.needsPub1, Bool.false_and, Bool.or_self,
        Bool.false_eq_true, binVal, Ty.signed, gt_iff_lt, show 0 < 16 - h.posn from by omega, decide_true, b2n, if_true, Lab.join_pub_pub]
    unfold earlyStmt
    simp only [seqs]
    have hc0 : castVal .u32 .u64 0 = 0 := by decide
    refine runs_seq (Q := fun e' s' => UE e' ∧ e'[5]? = some (0, .pub) ∧ s'.ent = st.ent ∧ s'.mem = st.mem)
      (runs_assign (0, .pub) (by simp only [evalE, ue1.2.2.1, reduceCtorEq, if_false, hc0]) ⟨rfl, ueSet _ _ _ (by decide) ue1, get_set_eq _ _ _ (by rw [ue1.1]; decide), hent1, hm1⟩) ?_
    intro e2' s2 ⟨ue2', e5', hent2, hm2⟩
    have hcp : castVal .u64 .u32 h.posn = h.posn := by simp only [castVal, Ty.signed, Ty.modulus]; exact Nat.mod_eq_of_lt (by omega)
    have hc00 : castVal .u64 .u32 0 = 0 := by decide
    refine runs_seq (Q := fun e' s' => UE e' ∧ e'[5]? = some (0, .pub) ∧ s'.ent = st.ent ∧ s'.mem = st.mem) ?_ ?_
    · refine runs_seq (Q := fun e' s' => UE e' ∧ e'[5]? = some (0, .pub) ∧ e'[8]? = some (h.posn, .pub) ∧ s'.ent = st.ent ∧ s'.mem = st.mem)
        (ldPosn 8 e2' _ _ ue2'.2.2.2.1 hm2 ⟨rfl, ueSet _ _ _ (by decide) ue2', by rw [get_set_ne _ _ _ _ (by decide)]; exact e5', get_set_eq _ _ _ (by rw [ue2'.1]; decide), hent2, hm2⟩) ?_
      intro e3 s3 ⟨ue3, e5_3, e8, hent3, hm3⟩
      have hdst : evalE e3 (.bin .add .u64 (.var 4) (.cast .u64 .u32 (.var 8))) = .ok ((mkPtr bs (baseS + 32) + h.posn) % 18446744073709551616, .pub) := by
        simp only [evalE, ue3.2.2.2.2, e8, reduceCtorEq, if_false, hcp, BinOp.needsPub2, BinOp.needsPub1, Bool.false_and, Bool.or_self, Bool.false_eq_true, binVal, Ty.modulus,
          Lab.join_pub_pub]
      refine runs_seq (Q := fun e' s' => e' = e3 ∧ s'.ent = st.ent ∧ s'.mem = st.mem)
        (runs_memcpy_zero _ p hdst (by simp only [evalE, ue3.2.1, reduceCtorEq, if_false]) (by simp only [evalE, e5_3, reduceCtorEq, if_false, hc00]) ⟨rfl, rfl, hent3, hm3⟩) ?_
      intro e4 s4 ⟨he4, hent4, hm4⟩; rw [he4]
      exact runs_assign _ hdst ⟨rfl, ueSet _ _ _ (by decide) ue3, by rw [get_set_ne _ _ _ _ (by decide)]; exact e5_3, hent4, hm4⟩
    intro e5' s5 ⟨ue5, e5_5, hent5, hm5⟩
    refine runs_seq (Q := fun e' s' => s'.ent = st.ent ∧ s'.mem = setBlock st.mem bs (writeLE X 48 h.posn .pub 4)) ?_ ?_
    · refine runs_seq (Q := fun e' s' => UE e' ∧ e'[5]? = some (0, .pub) ∧ e'[10]? = some (mkPtr bs (baseS + 48), .pub) ∧ s'.ent = st.ent ∧ s'.mem = st.mem)
        (runs_assign _ (evPosn e5' ue5.2.2.2.1) ⟨rfl, ueSet _ _ _ (by decide) ue5, by rw [get_set_ne _ _ _ _ (by decide)]; exact e5_5, get_set_eq _ _ _ (by rw [ue5.1]; decide), hent5, hm5⟩) ?_
      intro e6' s6 ⟨ue6, e5_6, e10, hent6, hm6⟩
      have hres : resolve s6.mem (mkPtr bs (baseS + 48)) 4 = .ok (bs, 48) := by rw [hm6]; exact resolve_word hS 48 (by omega) (by omega) (by omega)
      refine runs_seq (Q := fun e' s' => e'[5]? = some (0, .pub) ∧ e'[10]? = some (mkPtr bs (baseS + 48), .pub) ∧ e'[11]? = some (h.posn, .pub) ∧ s'.ent = st.ent ∧ s'.mem = st.mem)
        (runs_load (mkPtr bs (baseS + 48)) bs 48 4 (h.posn, .pub) rfl (by simp only [evalE, e10, reduceCtorEq, if_false]) hres
          (by rw [hm6, blockBytes_of hS]; exact hrep.posn)
          ⟨rfl, by rw [get_set_ne _ _ _ _ (by decide)]; exact e5_6, by rw [get_set_ne _ _ _ _ (by decide)]; exact e10, get_set_eq _ _ _ (by rw [ue6.1]; decide), hent6, hm6⟩) ?_
      intro e7' s7 ⟨e5_7, e10_7, e11, hent7, hm7⟩
      refine runs_store (mkPtr bs (baseS + 48)) h.posn bs 48 4 .pub rfl (by simp only [evalE, e10_7, reduceCtorEq, if_false])
        (by simp only [evalE, e11, e5_7, reduceCtorEq, if_false, BinOp.needsPub2, BinOp.needsPub1, Bool.false_and, Bool.or_self, Bool.false_eq_true, binVal, Ty.modulus,
          Lab.join_pub_pub, Nat.add_zero, Nat.mod_eq_of_lt (show h.posn < 4294967296 from by omega)])
        (by rw [hm7]; exact resolve_word hS 48 (by omega) (by omega) (by omega)) ⟨rfl, hent7, by rw [hm7, blockBytes_of hS]⟩
    intro e8' s8 ⟨hent8, hm8⟩
    refine runs_ret_none ?_
    obtain ⟨a, b, c, d⟩ := hfin s8 hent8 (Or.inr hm8)
    exact ⟨Sig.noConfusion, Sig.noConfusion, trivial, trivial, a, b, c, d⟩

end TJ.MiniC.Hoare
