/-
  TJ.Proofs.HmacCore — tinyjambu_hmac_set_key on the regenerated term: statement shape (rfl), the pad block, the xor loop (downward induction).
-/
import TJ.Proofs.HashOneShot
import TJ.Proofs.AeadEncCall
import TJ.Proofs.CheckTagC
namespace TJ.MiniC.Hoare
open TJ TJ.MiniC TJ.MiniC.PermC TJ.Gen.MiniC

/-! ### `tinyjambu_hmac_set_key` : the pad block -/

/-- byte `k` of the pad while the xor loop stands at index `i` (bytes below `i` are still the key bytes) -/
def padByte (kb : Bytes) (mask : UInt8) (i k : Nat) : UInt8 :=
  if k < i then kb.getD k 0 else if k < kb.length then kb.getD k 0 ^^^ mask else mask

def xorLoopBody : Stmt :=
  .ite (.bin .gt .u64 (.var 2) (.cast .u64 .i32 (.lit 0)))
    (seqs [.assign 2 (.bin .sub .u64 (.var 2) (.lit 1)),
           seqs [.assign 7 (.bin .add .u64 (.var 4) (.var 2)), .load 8 .u8 (.var 7),
                 .store .u8 (.var 7) (.cast .u8 .i32 (.bin .bxor .i32 (.cast .i32 .u8 (.var 8)) (.cast .i32 .u8 (.var 3))))]])
    .brk

structure XI (bp : Nat) (kb : Bytes) (mask : UInt8) (lm : Lab) (mem0 : Array Block) (ent0 : List Delivery) (i : Nat) (env : Env) (st : St) : Prop where
  esz : env.size = 9
  e2 : env[2]? = some (i, .pub)
  e3 : env[3]? = some (mask.toNat, lm)
  e4 : env[4]? = some (mkPtr bp 0, .pub)
  e0 : env[0]? = none ∨ True
  pad : ∃ Pd, st.mem[bp]? = some ⟨Pd, 0⟩ ∧ Pd.size = 64 ∧ ∀ k, k < 64 → BV Pd k (padByte kb mask i k)
  oth : ∀ j, j ≠ bp → st.mem[j]? = mem0[j]?
  msz : st.mem.size = mem0.size
  ent : st.ent = ent0

theorem castVal_u8_i32_small (v : Nat) (h : v < 256) : castVal .u8 .i32 v = v := by
  simp only [castVal, Ty.signed, if_true, toInt, Bool.true_and, Ty.half, ge_iff_le, ofInt, Ty.modulus]
  have : ¬ 2147483648 ≤ v := by omega
  simp only [this, decide_false, Bool.false_eq_true, if_false]
  omega

theorem xor_iter (bp : Nat) (hbp : bp < 2 ^ 30) (kb : Bytes) (hkb : kb.length ≤ 64) (mask : UInt8) (lm : Lab) (hlm : lm ≠ Lab.undef) (mem0 : Array Block) (ent0 : List Delivery)
    (i : Nat) (hi : i < kb.length) (env0 : Env) {env : Env} {st : St} (xi : XI bp kb mask lm mem0 ent0 (i + 1) env st) (hfr : ∀ y, y ≠ 2 → y ≠ 7 → y ≠ 8 → env[y]? = env0[y]?) :
    RunsTo prog xorLoopBody env st (fun sig e' s' => sig = .normal ∧ XI bp kb mask lm mem0 ent0 i e' s' ∧ ∀ y, y ≠ 2 → y ≠ 7 → y ≠ 8 → e'[y]? = env0[y]?) := by
  obtain ⟨Pd, hm, hPs, hPd⟩ := xi.pad
  have hes := xi.esz
  unfold xorLoopBody
  refine runs_ite_true 1 ?_ (by decide) ?_
  · simp only [evalE, xi.e2, reduceCtorEq, if_false, castVal_u64_i32_lit 0 (by decide), BinOp.needsPub2, BinOp.needsPub1, Bool.false_and, Bool.or_self,
      Bool.false_eq_true, binVal, Ty.signed, gt_iff_lt, show 0 < i + 1 from by omega, decide_true, b2n, if_true, Lab.join_pub_pub]
  simp only [seqs]
  refine runs_seq (Q := fun e s => e = setVar env 2 (i, .pub) ∧ s = { st with leak := Ev.br true :: st.leak }) (runs_assign (i, .pub) (by
    simp only [evalE, xi.e2, reduceCtorEq, if_false, BinOp.needsPub2, BinOp.needsPub1, Bool.false_and, Bool.or_self, Bool.false_eq_true, binVal, Ty.modulus, Lab.join_pub_pub,
      sub64 (i + 1) 1 (by omega) (by omega) (by decide)]
    simp) ⟨rfl, rfl, rfl⟩) ?_
  intro e1 s1 ⟨he1, hs1⟩; rw [he1, hs1]
  have hptr : (mkPtr bp 0 + i) % 18446744073709551616 = mkPtr bp (0 + i) := ptr_off bp 0 i hbp (by simp [ptrBase]; omega)
  refine runs_seq (Q := fun e s => e = setVar (setVar env 2 (i, .pub)) 7 (mkPtr bp (0 + i), .pub) ∧ s = { st with leak := Ev.br true :: st.leak }) (runs_assign _ (by
    simp only [evalE, get_set_ne _ _ _ _ (show ¬ 2 = 4 from by decide), get_set_eq _ _ _ (show 2 < env.size from by omega), xi.e4, reduceCtorEq, if_false, BinOp.needsPub2, BinOp.needsPub1,
      Bool.false_and, Bool.or_self, Bool.false_eq_true, binVal, Ty.modulus, Lab.join_pub_pub, hptr]) ⟨rfl, rfl, rfl⟩) ?_
  intro e2 s2 ⟨he2, hs2⟩; rw [he2, hs2]
  have hbi : BV Pd i (kb.getD i 0) := by
    have := hPd i (by omega)
    simp only [padByte, show i < i + 1 from by omega, if_true] at this; exact this
  obtain ⟨l8, hrd, hl8⟩ := hbi.read
  have e2_7 : (setVar (setVar env 2 (i, Lab.pub)) 7 (mkPtr bp (0 + i), Lab.pub))[7]? = some (mkPtr bp (0 + i), Lab.pub) := get_set_eq _ _ _ (by rw [size_setVar]; omega)
  refine runs_seq (Q := fun e s => e = setVar (setVar (setVar env 2 (i, .pub)) 7 (mkPtr bp (0 + i), .pub)) 8 ((kb.getD i 0).toNat, l8) ∧
      s = { st with leak := Ev.rd (mkPtr bp (0 + i)) 1 :: Ev.br true :: st.leak }) ?_ ?_
  · exact runs_load (mkPtr bp (0 + i)) bp i 1 ((kb.getD i 0).toNat, l8) rfl (by simp only [evalE, e2_7, reduceCtorEq, if_false])
      (resolve_byte (show ({ st with leak := Ev.br true :: st.leak } : St).mem[bp]? = _ from hm) i (by omega) (by simp [ptrBase]; omega))
      (by rw [blockBytes_of (show ({ st with leak := Ev.br true :: st.leak } : St).mem[bp]? = _ from hm)]; exact hrd) ⟨rfl, rfl, rfl⟩
  intro e3 s3 ⟨he3, hs3⟩; rw [he3, hs3]
  generalize hE3 : setVar (setVar (setVar env 2 (i, .pub)) 7 (mkPtr bp (0 + i), .pub)) 8 ((kb.getD i 0).toNat, l8) = E3
  have fr3 : ∀ y, y ≠ 2 → y ≠ 7 → y ≠ 8 → E3[y]? = env[y]? := fun y h2 h7 h8 => by
    rw [← hE3, get_set_ne _ _ _ _ (fun e => h8 e.symm), get_set_ne _ _ _ _ (fun e => h7 e.symm), get_set_ne _ _ _ _ (fun e => h2 e.symm)]
  have e3_8 : EnvHas E3 8 (kb.getD i 0).toNat := ⟨l8, by rw [← hE3]; exact get_set_eq _ _ _ (by simp only [size_setVar]; omega), hl8⟩
  have e3_3 : EnvHas E3 3 mask.toNat := ⟨lm, by rw [fr3 3 (by decide) (by decide) (by decide)]; exact xi.e3, hlm⟩
  have e3_7 : E3[7]? = some (mkPtr bp (0 + i), .pub) := by rw [← hE3, get_set_ne _ _ _ _ (by decide)]; exact e2_7
  have hx := ((EvalD.var e3_8).cast .i32 .u8).bitop ((EvalD.var e3_3).cast .i32 .u8) .bxor .i32 ((kb.getD i 0) ^^^ mask).toNat ⟨rfl, rfl⟩ (by
    rw [TJ.MiniC.CheckTagC.castVal_i32_u8, TJ.MiniC.CheckTagC.castVal_i32_u8]; simp [binVal, UInt8.toNat_xor])
  have hv := hx.cast .u8 .i32
  rw [castVal_u8_i32_small _ (UInt8.toNat_lt _)] at hv
  obtain ⟨lr, hev, hlr⟩ := hv
  have hm3 : ({ st with leak := Ev.rd (mkPtr bp (0 + i)) 1 :: Ev.br true :: st.leak } : St).mem[bp]? = some ⟨Pd, 0⟩ := hm
  refine runs_store (mkPtr bp (0 + i)) ((kb.getD i 0) ^^^ mask).toNat bp i 1 lr rfl (by simp only [evalE, e3_7, reduceCtorEq, if_false]) hev
    (resolve_byte hm3 i (by omega) (by simp [ptrBase]; omega)) ?_
  rw [blockBytes_of hm3]
  have hwr : writeLE Pd i ((kb.getD i 0) ^^^ mask).toNat lr 1 = Pd.setIfInBounds i ((kb.getD i 0) ^^^ mask, lr) := by
    simp only [writeLE, Nat.mod_eq_of_lt (UInt8.toNat_lt _)]
    congr 2
    exact UInt8.toNat_inj.mp (by simp [Nat.toUInt8])
  rw [hwr]
  refine ⟨rfl, ⟨by rw [← hE3]; simp only [size_setVar]; exact hes, by rw [← hE3, get_set_ne _ _ _ _ (by decide), get_set_ne _ _ _ _ (by decide)]; exact get_set_eq _ _ _ (by omega),
    by rw [fr3 3 (by decide) (by decide) (by decide)]; exact xi.e3, by rw [fr3 4 (by decide) (by decide) (by decide)]; exact xi.e4, Or.inr trivial,
    ⟨_, by show (setBlock st.mem bp _)[bp]? = _; rw [getElem?_setBlock', if_pos rfl, hm]; rfl, by simp only [Array.size_setIfInBounds]; exact hPs, fun k hk => ?_⟩,
    fun j hj => by show (setBlock st.mem bp _)[j]? = _; rw [getElem?_setBlock', if_neg hj]; exact xi.oth j hj,
    by show (setBlock st.mem bp _).size = _; rw [size_setBlock']; exact xi.msz, xi.ent⟩, fun y h2 h7 h8 => by rw [fr3 y h2 h7 h8]; exact hfr y h2 h7 h8⟩
  by_cases hki : k = i
  · subst hki
    exact ⟨lr, by rw [Array.getElem?_setIfInBounds]; simp [padByte, hi]; omega, hlr⟩
  · obtain ⟨l, hx', hl⟩ := hPd k hk
    refine ⟨l, ?_, hl⟩
    rw [Array.getElem?_setIfInBounds, if_neg (fun e => hki e.symm), hx']
    simp only [padByte]
    by_cases h1 : k < i
    · simp [h1, show k < i + 1 from by omega]
    · simp [h1, show ¬ k < i + 1 from by omega]


theorem xor_exit (bp : Nat) (kb : Bytes) (mask : UInt8) (lm : Lab) (mem0 : Array Block) (ent0 : List Delivery) {env : Env} {st : St}
    (xi : XI bp kb mask lm mem0 ent0 0 env st) :
    RunsTo prog xorLoopBody env st (fun sig e' s' => sig = .brk ∧ XI bp kb mask lm mem0 ent0 0 e' s' ∧ e' = env) := by
  unfold xorLoopBody
  refine runs_ite_false ?_ (runs_brk ⟨rfl, ⟨xi.esz, xi.e2, xi.e3, xi.e4, xi.e0, xi.pad, xi.oth, xi.msz, xi.ent⟩, rfl⟩)
  simp only [evalE, xi.e2, reduceCtorEq, if_false, castVal_u64_i32_lit 0 (by decide), BinOp.needsPub2, BinOp.needsPub1, Bool.false_and, Bool.or_self,
    Bool.false_eq_true, binVal, Ty.signed, gt_iff_lt, Nat.lt_irrefl, decide_false, b2n, Lab.join_pub_pub]

/-- **the xor loop of `tinyjambu_hmac_set_key`** -/
theorem xor_loop (bp : Nat) (hbp : bp < 2 ^ 30) (kb : Bytes) (hkb : kb.length ≤ 64) (mask : UInt8) (lm : Lab) (hlm : lm ≠ Lab.undef) (mem0 : Array Block) (ent0 : List Delivery) (env0 : Env) :
    ∀ (i : Nat), i ≤ kb.length → ∀ (env : Env) (st : St), XI bp kb mask lm mem0 ent0 i env st → (∀ y, y ≠ 2 → y ≠ 7 → y ≠ 8 → env[y]? = env0[y]?) →
    RunsTo prog (.loop xorLoopBody) env st (fun sig e' s' => sig = .normal ∧ XI bp kb mask lm mem0 ent0 0 e' s' ∧ ∀ y, y ≠ 2 → y ≠ 7 → y ≠ 8 → e'[y]? = env0[y]?)
  | 0, _, env, st, xi, hfr => runs_loop_break ((xor_exit bp kb mask lm mem0 ent0 xi).weaken fun _ _ _ ⟨h, a, b⟩ => ⟨h, rfl, a, by rw [b]; exact hfr⟩)
  | i + 1, hi, env, st, xi, hfr => by
    refine runs_loop_continue (Q := fun e' s' => XI bp kb mask lm mem0 ent0 i e' s' ∧ ∀ y, y ≠ 2 → y ≠ 7 → y ≠ 8 → e'[y]? = env0[y]?)
      (xor_iter bp hbp kb hkb mask lm hlm mem0 ent0 i (by omega) env0 xi hfr) ?_
    intro e s ⟨xi', hfr'⟩
    exact xor_loop bp hbp kb hkb mask lm hlm mem0 ent0 env0 i (by omega) e s xi' hfr'

def setKeyBody : Stmt :=
  seqs [.ite (.bin .le .u64 (.var 2) (.cast .u64 .i32 (.lit 64)))
          (seqs [.memcpy (.var 4) (.var 1) (.var 2), .assign 5 (.var 4)])
          (seqs [.call none idx_tinyjambu_hash_init [.var 0], .call none idx_tinyjambu_hash_update [.var 0, .var 1, .var 2],
                 .call none idx_tinyjambu_hash_finalize [.var 0, .var 4], .assign 1 (.var 4), .assign 2 (.cast .u64 .i32 (.lit 32))]),
        seqs [.memset (.bin .add .u64 (.var 4) (.var 2)) (.cast .i32 .u8 (.var 3)) (.bin .sub .u64 (.cast .u64 .i32 (.lit 64)) (.var 2)),
              .assign 6 (.bin .add .u64 (.var 4) (.var 2))],
        .loop xorLoopBody,
        .call none idx_tinyjambu_hash_init [.var 0],
        .call none idx_tinyjambu_hash_update [.var 0, .var 4, .lit 64],
        .call none idx_tinyjambu_clean [.var 4, .lit 64]]

theorem setKey_body_eq : f_tinyjambu_hmac_set_key.body = setKeyBody := rfl

theorem finalize_length (h : HState) : h.finalize.1.length = 32 := by simp [HState.finalize, store32]

/-- the key block of the model -/
def hmacBlock (kb : Bytes) (mask : UInt8) : Bytes := (kb.map fun b => b ^^^ mask) ++ List.replicate (64 - kb.length) mask

theorem hmacBlock_get (kb : Bytes) (mask : UInt8) (hkb : kb.length ≤ 64) (k : Nat) (hk : k < 64) : (hmacBlock kb mask)[k]? = some (padByte kb mask 0 k) := by
  unfold hmacBlock padByte
  simp only [Nat.not_lt_zero, if_false]
  by_cases h : k < kb.length
  · rw [List.getElem?_append_left (by simpa using h), List.getElem?_map, List.getElem?_eq_getElem h]
    simp [h, List.getD_eq_getElem?_getD, List.getElem?_eq_getElem h]
  · rw [List.getElem?_append_right (by simpa using h)]
    simp only [List.length_map, h, if_false]
    rw [List.getElem?_replicate]; simp; omega

theorem hmacBlock_length (kb : Bytes) (mask : UInt8) (hkb : kb.length ≤ 64) : (hmacBlock kb mask).length = 64 := by
  simp [hmacBlock]; omega

end TJ.MiniC.Hoare
