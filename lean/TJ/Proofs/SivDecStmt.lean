/-
  TJ.Proofs.SivDecStmt — the bodies of tinyjambu_{128,192,256}_siv_decrypt as regenerated, as one statement function; `rfl` checks.
-/
import TJ.Proofs.SivEncCall
namespace TJ.MiniC.Hoare
open TJ TJ.MiniC TJ.MiniC.PermC TJ.Gen.MiniC

def mlenStmtV (t : Nat) : Stmt := seqs [.assign t (.var 1), .store .u64 (.var t) (.bin .sub .u64 (.var 3) (.cast .u64 .i32 (.lit 8)))]

def sivDecLoopBody (pidx pk v : Nat) : Stmt :=
  .ite (.bin .ge .u64 (.var 3) (.cast .u64 .i32 (.lit 4)))
    (seqs [xorPub 1 v (v + 1) (rc 208) 9, .call none pidx [.var 9, rc pk],
           seqs (loadsOf [(v + 2, 3), (v + 3, 2), (v + 4, 1), (v + 5, 0)] 2 ++
             [.load (v + 6) .u32 (addrS 2 9), .assign 12 (.bin .bxor .u32 (e32 (v + 2) (v + 3) (v + 4) (v + 5)) (.var (v + 6)))]),
           seqs [.assign (v + 7) (.var 12), byteStmtV 0 (v + 8) 0 (v + 7) 0, byteStmtV 0 (v + 9) 1 (v + 7) 1, byteStmtV 0 (v + 10) 2 (v + 7) 2,
                 byteStmtV 0 (v + 11) 3 (v + 7) 3],
           .assign 2 (.bin .add .u64 (.var 2) (.lit 4)), .assign 0 (.bin .add .u64 (.var 0) (.lit 4)),
           .assign 3 (.bin .sub .u64 (.var 3) (.cast .u64 .i32 (.lit 4)))])
    .brk

def sivDecTail (pidx pk v : Nat) : Stmt :=
  .ite (.bin .eq .u64 (.var 3) (.cast .u64 .i32 (.lit 1)))
    (seqs [xorPub 1 (v + 12) (v + 13) (rc 208) 9, .call none pidx [.var 9, rc pk],
           seqs (loadsOf [(v + 14, 0)] 2 ++
             [.load (v + 15) .u32 (addrS 2 9), .assign 12 (.bin .band .u32 (.bin .bxor .u32 (e8 (v + 14)) (.var (v + 15))) (.lit 255))]),
           byteStmtV 0 (v + 16) 0 12 0, .assign 2 (.bin .add .u64 (.var 2) (.lit 1))])
    (.ite (.bin .eq .u64 (.var 3) (.cast .u64 .i32 (.lit 2)))
      (seqs [xorPub 1 (v + 17) (v + 18) (rc 208) 9, .call none pidx [.var 9, rc pk],
             seqs (loadsOf [(v + 19, 1), (v + 20, 0)] 2 ++
               [.load (v + 21) .u32 (addrS 2 9), .assign 12 (.bin .band .u32 (.bin .bxor .u32 (e16 (v + 19) (v + 20)) (.var (v + 21))) (.lit 65535))]),
             byteStmtV 0 (v + 22) 0 12 0, byteStmtV 0 (v + 23) 1 12 1, .assign 2 (.bin .add .u64 (.var 2) (.lit 2))])
      (.ite (.bin .eq .u64 (.var 3) (.cast .u64 .i32 (.lit 3)))
        (seqs [xorPub 1 (v + 24) (v + 25) (rc 208) 9, .call none pidx [.var 9, rc pk],
               seqs (loadsOf [(v + 26, 1), (v + 27, 0), (v + 28, 2)] 2 ++ [.assign 12 (e24 (v + 26) (v + 27) (v + 28))]),
               seqs [.load (v + 29) .u32 (addrS 2 9), .assign 12 (.bin .band .u32 (.bin .bxor .u32 (.var 12) (.var (v + 29))) (.lit 16777215))],
               byteStmtV 0 (v + 30) 0 12 0, byteStmtV 0 (v + 31) 1 12 1, byteStmtV 0 (v + 32) 2 12 2, .assign 2 (.bin .add .u64 (.var 2) (.lit 3))])
        .skip))

def sivDecStmt (nk pidx pk sidx aidx gidx cidx : Nat) : Stmt :=
  seqs (.assign 8 (.var 0) :: .ite (.bin .lt .u64 (.var 3) (.cast .u64 .i32 (.lit 8))) (.ret (some (.un .neg .i32 (.lit 1)))) .skip :: mlenStmtV 13 ::
    ((List.range' 0 nk).map (keyWordStmt 9 14) ++
    [seqs [.load (14 + 5 * nk) .u64 (.var 1), .assign 11 (.var (14 + 5 * nk))],
     seqs [.memcpy (.var 10) (.var 6) (.cast .u64 .i32 (.lit 4)), .assign (15 + 5 * nk) (.var 10)],
     seqs [.memcpy (.bin .add .u64 (.var 10) (.lit 4)) (.bin .add .u64 (.var 2) (.var 11)) (.cast .u64 .i32 (.lit 8)),
           .assign (16 + 5 * nk) (.bin .add .u64 (.var 10) (.lit 4))],
     .call none sidx [.var 9, .var 10, .cast .u8 .i32 (.lit 176)],
     .assign 3 (.var 11),
     .loop (sivDecLoopBody pidx pk (17 + 5 * nk)), sivDecTail pidx pk (17 + 5 * nk),
     .call none sidx [.var 9, .var 6, .cast .u8 .i32 (.lit 144)],
     .call none aidx [.var 9, .var 4, .var 5, .cast .u8 .i32 (.lit 48), .cast .u32 .i32 (.lit 5)],
     .call none aidx [.var 9, .var 8, .var 11, .cast .u8 .i32 (.lit 80), rc pk],
     .call none gidx [.var 9, .var 10],
     seqs [.call (some (17 + 5 * nk + 33)) cidx [.var 8, .var 11, .var 10, .var 2, .cast .u64 .i32 (.lit 8)],
           .ret (some (.var (17 + 5 * nk + 33)))]]))

theorem sivdec128_eq : f_tinyjambu_128_siv_decrypt.body = sivDecStmt 4 42 8 53 12 17 15 := rfl
theorem sivdec192_eq : f_tinyjambu_192_siv_decrypt.body = sivDecStmt 6 43 9 54 13 18 15 := rfl
theorem sivdec256_eq : f_tinyjambu_256_siv_decrypt.body = sivDecStmt 8 44 10 55 14 19 15 := rfl

end TJ.MiniC.Hoare
