import TJ.Proofs.PrngGenLoop
namespace TJ.MiniC.Hoare
open TJ TJ.MiniC TJ.MiniC.PermC TJ.Gen.MiniC

theorem genBody_eq : genBody = .seq (.assign 3 (.var 0)) (.seq (.ite (.un .lnot .u64 (.var 2)) (.ret none) .skip) (.seq (.loop genIter) (.call none idx_tinyjambu_clean [.var 5, .lit 32]))) := rfl

theorem enter_env_one (vs : List LVal) (n m a : Nat) (xa : LVal) (hvs : vs.length = n) (ha : n ≤ a) (hb : a < n + m) :
    (setVar (vs ++ List.replicate m (0, Lab.undef)).toArray a xa).size = n + m ∧
    (∀ (i : Nat) (v : LVal), vs[i]? = some v → (setVar (vs ++ List.replicate m (0, Lab.undef)).toArray a xa)[i]? = some v) ∧
    (setVar (vs ++ List.replicate m (0, Lab.undef)).toArray a xa)[a]? = some xa := by
  refine ⟨by simp [size_setVar, hvs], fun i v hv => ?_, ?_⟩
  · have hi : i < n := by
      by_cases h : i < n
      · exact h
      · rw [List.getElem?_eq_none (by omega)] at hv; cases hv
    rw [get_set_ne _ _ _ _ (by omega), List.getElem?_toArray, List.getElem?_append_left (by omega)]; exact hv
  · exact get_set_eq _ _ _ (by simp [hvs]; omega)

/-- **`tinyjambu_prng_generate(state, data, size)`** on the regenerated term, with the user entropy callback installed: `data` receives the bytes of the
    source-level specification `GS.loop` (per block: automatic reseed when `reseed_counter > reseed_limit`, `Hash(V)`, then
    `V ← V + Hash(0x03 ‖ V) + C + reseed_counter`, counter + 1), the state object holds the state it ends in, the entropy script has lost exactly the
    deliveries the reseeds consumed; the public fields stay public; every other block keeps its values with labels that do not rise. -/
theorem prng_generate_call (cbv : Nat) (hk : CbOk cbv) (env : Env) (st : St) (es ed en : Expr) (bp bd : Nat) (Xp XD : Array LByte) (baseP based doff n ud : Nat) (g : GS)
    (hes : evalE env es = .ok (mkPtr bp baseP, .pub)) (hed : evalE env ed = .ok (mkPtr bd (based + doff), .pub)) (hen : evalE env en = .ok (n, .pub))
    (hP : st.mem[bp]? = some ⟨Xp, baseP⟩) (ho : PObjV Xp g.V g.C g.rc g.rl) (hcb : PCb Xp ud cbv) (hent : st.ent = g.ent)
    (hD : st.mem[bd]? = some ⟨XD, based⟩) (hpd : bp ≠ bd) (hal : baseP % 8 = 0) (hltP : baseP + Xp.size < ptrBase) (hltD : based + XD.size < ptrBase)
    (hin : doff + n ≤ XD.size) (hsz : st.mem.size + 7 < 2 ^ 30) :
    RunsTo prog (.call none idx_tinyjambu_prng_generate [es, ed, en]) env st (fun sig e s => sig = .normal ∧ e = env ∧ s.ent = (g.loop n).2.ent ∧ s.mem.size = st.mem.size ∧
      (∃ Xp', s.mem[bp]? = some ⟨Xp', baseP⟩ ∧ Xp'.size = Xp.size ∧ PObjV Xp' (g.loop n).2.V (g.loop n).2.C (g.loop n).2.rc (g.loop n).2.rl ∧ PCb Xp' ud cbv) ∧
      (∃ XD', s.mem[bd]? = some ⟨XD', based⟩ ∧ XD'.size = XD.size ∧ BytesV XD' doff (g.loop n).1 ∧ (g.loop n).1.length = n ∧
        ∀ q, (q < doff ∨ doff + n ≤ q) → ORel VLe XD'[q]? XD[q]?) ∧
      ∀ j, j ≠ bp → j ≠ bd → ORel (KeepW (fun _ => False) (fun _ => False)) s.mem[j]? st.mem[j]?) := by
  have hbpN := mem_lt hP; have hbdN := mem_lt hD
  let vs : List LVal := [(mkPtr bp baseP, .pub), (mkPtr bd (based + doff), .pub), (n, .pub)]
  refine runs_call_none f_tinyjambu_prng_generate vs prog_prng_generate (by simp only [evalArgs, hes, hed, hen]; rfl) rfl ?_
  have hentr : enterFun f_tinyjambu_prng_generate vs st.mem = (setVar (vs ++ List.replicate 17 (0, Lab.undef)).toArray 5 (mkPtr st.mem.size 0, .pub),
      st.mem.push ⟨Array.replicate 32 (0, .undef), 0⟩) := rfl
  rw [gen_body_eq, genBody_eq, hentr]
  obtain ⟨hE0s, hE0v, hE05⟩ := enter_env_one vs 3 17 5 (mkPtr st.mem.size 0, .pub) rfl (by decide) (by decide)
  generalize hE0 : setVar (vs ++ List.replicate 17 (0, Lab.undef)).toArray 5 (mkPtr st.mem.size 0, .pub) = E0 at hE0s hE0v hE05
  generalize hm1 : st.mem.push ⟨Array.replicate 32 (0, .undef), 0⟩ = mem1
  have hm1lt : ∀ j, j < st.mem.size → mem1[j]? = st.mem[j]? := by
    intro j hj; rw [← hm1, Array.getElem?_push]; simp only [show ¬ j = st.mem.size from by omega, if_false]
  have hm1n : mem1[st.mem.size]? = some ⟨Array.replicate 32 (0, .undef), 0⟩ := by rw [← hm1, Array.getElem?_push]; simp
  have hm1sz : mem1.size = st.mem.size + 1 := by rw [← hm1, Array.size_push]
  let G : GGeo := ⟨st.mem.size, bp, baseP, Xp.size, bd, based, doff, n, ud, cbv, XD, hk, hbpN, hbdN, hpd, hal, ho.sz, hltP, hltD, hin, hsz⟩
  refine runs_seq (Q := fun e s => e = setVar E0 3 (mkPtr bp baseP, .pub) ∧ s = { st with mem := mem1 }) (runs_assign _ (by simp only [evalE, hE0v 0 _ rfl, reduceCtorEq, if_false]) ⟨rfl, rfl, rfl⟩) ?_
  intro e1 s1 ⟨he1, hs1⟩; rw [he1, hs1]
  generalize hE1 : setVar E0 3 (mkPtr bp baseP, .pub) = E1
  have e1s : E1.size = 20 := by rw [← hE1, size_setVar]; exact hE0s
  have e1_0 : E1[0]? = some (mkPtr bp baseP, .pub) := by rw [← hE1, get_set_ne _ _ _ _ (by decide)]; exact hE0v 0 _ rfl
  have e1_1 : E1[1]? = some (mkPtr bd (based + doff), .pub) := by rw [← hE1, get_set_ne _ _ _ _ (by decide)]; exact hE0v 1 _ rfl
  have e1_2 : E1[2]? = some (n, .pub) := by rw [← hE1, get_set_ne _ _ _ _ (by decide)]; exact hE0v 2 _ rfl
  have e1_3 : E1[3]? = some (mkPtr bp baseP, .pub) := by rw [← hE1]; exact get_set_eq _ _ _ (by rw [hE0s]; decide)
  have e1_5 : E1[5]? = some (mkPtr st.mem.size 0, .pub) := by rw [← hE1, get_set_ne _ _ _ _ (by decide)]; exact hE05
  -- the post-condition for a memory that is `mem1` on the caller's blocks up to the relations of the invariant
  have fin : ∀ (s : St) (g' : GS) (out : Bytes), s.ent = g'.ent → s.mem.size = st.mem.size + 1 →
      (∃ Xp', s.mem[bp]? = some ⟨Xp', baseP⟩ ∧ Xp'.size = Xp.size ∧ PObjV Xp' g'.V g'.C g'.rc g'.rl ∧ PCb Xp' ud cbv) →
      (∃ XD', s.mem[bd]? = some ⟨XD', based⟩ ∧ XD'.size = XD.size ∧ BytesV XD' doff out ∧ ∀ q, (q < doff ∨ doff + out.length ≤ q) → ORel VLe XD'[q]? XD[q]?) → out.length = n →
      (∀ j, j < st.mem.size → j ≠ bp → j ≠ bd → ORel (KeepW (fun _ => False) (fun _ => False)) s.mem[j]? st.mem[j]?) →
      (s.ent = g'.ent ∧ (s.mem.extract 0 st.mem.size).size = st.mem.size ∧
        (∃ Xp', (s.mem.extract 0 st.mem.size)[bp]? = some ⟨Xp', baseP⟩ ∧ Xp'.size = Xp.size ∧ PObjV Xp' g'.V g'.C g'.rc g'.rl ∧ PCb Xp' ud cbv) ∧
        (∃ XD', (s.mem.extract 0 st.mem.size)[bd]? = some ⟨XD', based⟩ ∧ XD'.size = XD.size ∧ BytesV XD' doff out ∧ out.length = n ∧ ∀ q, (q < doff ∨ doff + n ≤ q) → ORel VLe XD'[q]? XD[q]?) ∧
        ∀ j, j ≠ bp → j ≠ bd → ORel (KeepW (fun _ => False) (fun _ => False)) (s.mem.extract 0 st.mem.size)[j]? st.mem[j]?) := by
    intro s g' out h1 h2 h3 h4 hl h5
    have hlk : ∀ j, j < st.mem.size → (s.mem.extract 0 st.mem.size)[j]? = s.mem[j]? := by
      intro j hj
      rw [Array.getElem?_extract, h2]
      have : j < min st.mem.size (st.mem.size + 1) - 0 := by omega
      simp only [this, if_true, Nat.zero_add]
    have hexs : (s.mem.extract 0 st.mem.size).size = st.mem.size := by rw [Array.size_extract, h2]; omega
    obtain ⟨XD', d1, d2, d3, d4⟩ := h4
    refine ⟨h1, hexs, by rw [hlk bp hbpN]; exact h3, ⟨XD', by rw [hlk bd hbdN]; exact d1, d2, d3, hl, fun q hq => d4 q (by rw [hl]; exact hq)⟩, fun j hj1 hj2 => ?_⟩
    by_cases hjn : j < st.mem.size
    · rw [hlk j hjn]; exact h5 j hjn hj1 hj2
    · rw [Array.getElem?_eq_none (by rw [hexs]; omega), Array.getElem?_eq_none (by omega)]; trivial
  by_cases hn0 : n = 0
  · -- nothing to do
    subst hn0
    refine runs_seq_abort (runs_ite_true 1 ?_ (by decide) (runs_ret_none ?_))
    · simp only [evalE, e1_2, reduceCtorEq, if_false, unVal, decide_true, b2n, if_true]
    rw [gsLoop_zero]
    obtain ⟨a, b, c, d, e⟩ := fin { st with mem := mem1, leak := .br true :: st.leak } g [] hent hm1sz ⟨Xp, by show mem1[bp]? = _; rw [hm1lt bp hbpN]; exact hP, rfl, ho, hcb⟩
      ⟨XD, by show mem1[bd]? = _; rw [hm1lt bd hbdN]; exact hD, rfl, ⟨by simp; omega, fun k b hk => by simp at hk⟩, fun q _ => by cases XD[q]? with | none => trivial | some x => exact VLe.refl x⟩ rfl
      (fun j hj _ _ => by show ORel _ mem1[j]? _; rw [hm1lt j hj]; exact okeep_of_eq rfl _ _)
    exact ⟨Sig.noConfusion, rfl, rfl, a, b, c, d, e⟩
  · refine runs_seq (Q := fun e s => e = E1 ∧ s.ent = st.ent ∧ s.mem = mem1) (runs_ite_false ?_ (runs_skip ⟨rfl, rfl, rfl, rfl⟩)) ?_
    · simp only [evalE, e1_2, reduceCtorEq, if_false, unVal, hn0, decide_false, b2n]
    intro e2 s2 ⟨he2, hent2, hm2⟩; rw [he2]
    have gi0 : GI G st.mem g [] n E1 s2 :=
      ⟨e1s, e1_0, by show E1[1]? = some (mkPtr bd (based + (doff + ([] : Bytes).length)), .pub); rw [e1_1]; simp, e1_2, e1_3, e1_5, by show ([] : Bytes).length + n = n; simp, by rw [hent2]; exact hent, by rw [hm2]; exact hm1sz,
        ⟨Xp, by rw [hm2, hm1lt bp hbpN]; exact hP, rfl, ho, hcb⟩, ⟨_, by rw [hm2]; exact hm1n, by simp⟩,
        ⟨XD, by rw [hm2, hm1lt bd hbdN]; exact hD, rfl, ⟨by show doff + ([] : Bytes).length ≤ XD.size; simp; omega, fun k b hk => by simp at hk⟩, fun q _ => by cases XD[q]? with | none => trivial | some x => exact VLe.refl x⟩,
        fun j hj _ _ => by rw [hm2, hm1lt j hj]; exact okeep_of_eq rfl _ _⟩
    refine runs_seq (gen_loop G st.mem n g [] n (Nat.le_refl _) E1 s2 gi0) ?_
    intro e3 s3 gi3
    rw [List.nil_append] at gi3
    obtain ⟨XH, hHm, hHs⟩ := gi3.hH
    have hc := exec_call_clean_full 0 e3 s3 (.var 5) (.lit 32) 32 st.mem.size ⟨XH, 0⟩ hHm rfl hHs (by simp only [evalE, gi3.e5, reduceCtorEq, if_false]; rfl) rfl (by decide) (by decide)
    refine ⟨0 + 2, _, _, _, hc, ?_⟩
    have hne : ∀ j, j ≠ st.mem.size → (setBlock s3.mem st.mem.size (Array.replicate 32 ((0 : UInt8), Lab.pub)))[j]? = s3.mem[j]? := fun j hj => by rw [getElem?_setBlock', if_neg hj]
    obtain ⟨a, b, c, d, e⟩ := fin { s3 with leak := .set (mkPtr st.mem.size 0) 32 :: s3.leak, mem := setBlock s3.mem st.mem.size (Array.replicate 32 (0, .pub)) } (g.loop n).2 (g.loop n).1
      gi3.ent (by show (setBlock s3.mem _ _).size = _; rw [size_setBlock']; exact gi3.msz)
      (by show ∃ Xp', (setBlock s3.mem _ _)[bp]? = _ ∧ _; rw [hne bp (by omega)]; exact gi3.hP)
      (by show ∃ XD', (setBlock s3.mem _ _)[bd]? = _ ∧ _; rw [hne bd (by omega)]; exact gi3.hD)
      (by have := gi3.hn; simpa using this)
      (fun j hj h1 h2 => by show ORel _ (setBlock s3.mem _ _)[j]? _; rw [hne j (by omega)]; exact gi3.oth j hj h1 h2)
    exact ⟨rfl, rfl, a, b, c, d, e⟩

end TJ.MiniC.Hoare
