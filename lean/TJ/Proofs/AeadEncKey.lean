/-
  TJ.Proofs.AeadEncKey — the key-loading phase (inverted key words into the local state object) and the ciphertext-length store.
-/
import TJ.Proofs.AeadEncTail
namespace TJ.MiniC.Hoare
open TJ TJ.MiniC TJ.MiniC.PermC TJ.Gen.MiniC

theorem oth_data {bs : Nat} {mem M : Array Block} (oth : OthLe bs mem M) (bd : Nat) (hne : bd ≠ bs)
    (XD : Array LByte) (based off : Nat) (data : Bytes) (h0 : M[bd]? = some ⟨XD, based⟩) (hd : BytesV XD off data) :
    ∃ XD', mem[bd]? = some ⟨XD', based⟩ ∧ XD'.size = XD.size ∧ BytesV XD' off data := by
  have hrel := oth bd hne
  rw [h0] at hrel
  cases hb : mem[bd]? with
  | none => rw [hb] at hrel; exact hrel.elim
  | some blk =>
    rw [hb] at hrel
    have hbase : blk.base = based := hrel.1
    have hle : BytesLe blk.bytes XD := hrel.2
    exact ⟨blk.bytes, by rw [← hbase], hle.size_eq, ⟨by rw [hle.size_eq]; exact hd.1, fun k b hk => (hd.2 k b hk).lower hle⟩⟩

/-- the key-loading phase: the first `j` key words are in place -/
structure KI (g : AGeo) (M : Array Block) (nv : Nat) (kws : List UInt32) (env0 : Env) (lim : Nat) (j : Nat) (env : Env) (st : St) : Prop where
  esz : env.size = nv
  fr : ∀ y, y < lim → env[y]? = env0[y]?
  obj : ∃ X, st.mem[g.bs]? = some ⟨X, g.baseS⟩ ∧ X.size = 16 + 4 * g.nk ∧ ∀ i v, i < j → kws[i]? = some v → WV X (4 + i) v
  oth : OthLe g.bs st.mem M
  msz : st.mem.size = M.size
  ent : st.ent = g.ent0

/-- `state.k[j] = ~le_load_word32(k + 4j)` -/
theorem key_word {g : AGeo} {M : Array Block} (dg : DGeo g M) {nv : Nat} {kws : List UInt32} {env0 : Env} (koff : Nat) (key : Bytes)
    (hd : BytesV dg.XD koff key) (hklen : key.length = 4 * g.nk) (hk : ∀ i, i < g.nk → kws[i]? = some (~~~ loadAt key (4 * i)))
    {sv t0 : Nat} (hsv : sv < t0) (h7t : 7 < t0) (he8 : env0[sv]? = some (mkPtr g.bs g.baseS, .pub)) (he7 : env0[7]? = some (mkPtr dg.bd (dg.based + koff), .pub))
    (j : Nat) (hj : j < g.nk) (hnv : t0 + 5 * g.nk ≤ nv) {env : Env} {st : St} (ki : KI g M nv kws env0 t0 j env st) :
    RunsTo g.prog (keyWordStmt sv t0 j) env st (fun sig e' s' => sig = .normal ∧ KI g M nv kws env0 t0 (j + 1) e' s') := by
  obtain ⟨X, hm, hXs, hkw⟩ := ki.obj
  have hes := ki.esz; have hlt := g.hlt; have hal := g.hal
  obtain ⟨XD', hmd, hXDs, hd'⟩ := oth_data ki.oth dg.bd dg.hne dg.XD dg.based koff key dg.h0 hd
  unfold keyWordStmt
  show RunsTo g.prog (.seq (.assign (t0 + 5 * j) (.bin .add .u64 (.var sv) (.lit (16 + 4 * j))))
    (seqs (loadsOf [(t0 + 1 + 5 * j, 4 * j + 3), (t0 + 2 + 5 * j, 4 * j + 2), (t0 + 3 + 5 * j, 4 * j + 1), (t0 + 4 + 5 * j, 4 * j)] 7 ++
      [.store .u32 (.var (t0 + 5 * j)) (.un .bnot .u32 (e32 (t0 + 1 + 5 * j) (t0 + 2 + 5 * j) (t0 + 3 + 5 * j) (t0 + 4 + 5 * j)))]))) env st _
  have h8 : env[sv]? = some (mkPtr g.bs g.baseS, .pub) := by rw [ki.fr sv hsv]; exact he8
  have h7 : env[7]? = some (mkPtr dg.bd (dg.based + koff), .pub) := by rw [ki.fr 7 h7t]; exact he7
  refine runs_seq (Q := fun e s' => e = setVar env (t0 + 5 * j) (mkPtr g.bs (g.baseS + (16 + 4 * j)), .pub) ∧ s' = st) (runs_assign _ (by
    simp only [evalE, h8, reduceCtorEq, if_false, BinOp.needsPub2, BinOp.needsPub1, Bool.false_and, Bool.or_self, Bool.false_eq_true, binVal, Ty.modulus,
      Lab.join_pub_pub, ptr_off g.bs g.baseS (16 + 4 * j) g.hbs30 (by omega)]) ⟨rfl, rfl, rfl⟩) ?_
  intro e1 s1 ⟨he1, hs1⟩; rw [he1, hs1]
  have fr1 : ∀ y, y ≠ t0 + 5 * j → (setVar env (t0 + 5 * j) (mkPtr g.bs (g.baseS + (16 + 4 * j)), .pub))[y]? = env[y]? := fun y hy => get_set_ne _ _ _ _ (fun e => hy e.symm)
  refine runs_seqs_append (Q := fun e' s' => e'.size = nv ∧ s'.mem = st.mem ∧ s'.ent = st.ent ∧
      (∀ z, z ∉ [(t0 + 1 + 5 * j, 4 * j + 3), (t0 + 2 + 5 * j, 4 * j + 2), (t0 + 3 + 5 * j, 4 * j + 1), (t0 + 4 + 5 * j, 4 * j)].map Prod.fst →
        e'[z]? = (setVar env (t0 + 5 * j) (mkPtr g.bs (g.baseS + (16 + 4 * j)), .pub))[z]?) ∧
      (∀ yo ∈ [(t0 + 1 + 5 * j, 4 * j + 3), (t0 + 2 + 5 * j, 4 * j + 2), (t0 + 3 + 5 * j, 4 * j + 1), (t0 + 4 + 5 * j, 4 * j)], EnvHas e' yo.1 (key.getD yo.2 0).toNat))
      _ (by simp) _ (by simp [loadsOf]) _ _ ?_ ?_
  · refine (runs_loads dg.bd dg.based koff XD' key dg.hbd30 (by rw [hXDs]; exact dg.hlt) hd' _ _ st (by simp)
      (by rw [fr1 7 (by omega)]; exact h7) hmd ?_ ?_).weaken ?_
    · intro yo hyo
      simp only [List.mem_cons, List.mem_nil_iff, or_false] at hyo
      rw [size_setVar, hes]
      rcases hyo with h | h | h | h <;> rw [h] <;> simp only [] <;> omega
    · simp only [List.map_cons, List.map_nil, List.nodup_cons, List.mem_cons, List.mem_nil_iff, or_false, not_false_eq_true, List.nodup_nil, and_true]; omega
    · intro sig e' s' ⟨h1, h2, h3, h4, h5, h6⟩
      exact ⟨h1, by rw [h2, size_setVar]; exact hes, h3, h4, h5, h6⟩
  · intro e2 s2 ⟨hsz2, hmm, hent, hfr2, hhas⟩
    have nm : ∀ y, y < t0 + 5 * j + 1 → y ∉ [(t0 + 1 + 5 * j, 4 * j + 3), (t0 + 2 + 5 * j, 4 * j + 2), (t0 + 3 + 5 * j, 4 * j + 1), (t0 + 4 + 5 * j, 4 * j)].map Prod.fst := by
      intro y hy; simp only [List.map_cons, List.map_nil, List.mem_cons, List.mem_nil_iff, or_false]; omega
    have e2t : e2[t0 + 5 * j]? = some (mkPtr g.bs (g.baseS + (16 + 4 * j)), .pub) := by rw [hfr2 _ (nm _ (by omega))]; exact get_set_eq _ _ _ (by omega)
    have hv := (evalD_e32 (hhas (t0 + 1 + 5 * j, 4 * j + 3) (by simp)) (hhas (t0 + 2 + 5 * j, 4 * j + 2) (by simp)) (hhas (t0 + 3 + 5 * j, 4 * j + 1) (by simp))
      (hhas (t0 + 4 + 5 * j, 4 * j) (by simp))).un .bnot .u32
    rw [unVal_bnot_u32] at hv
    have hlk : load32 (key.getD (4 * j) 0) (key.getD (4 * j + 1) 0) (key.getD (4 * j + 2) 0) (key.getD (4 * j + 3) 0) = loadAt key (4 * j) := rfl
    rw [hlk] at hv
    have hkj := hk j hj
    generalize (~~~ loadAt key (4 * j)) = kw at hv hkj
    obtain ⟨lr, hev, hlr⟩ := hv
    have hm2 : s2.mem[g.bs]? = some ⟨X, g.baseS⟩ := by rw [hmm]; exact hm
    show RunsTo g.prog (.store .u32 (.var (t0 + 5 * j)) _) e2 s2 _
    refine runs_store (mkPtr g.bs (g.baseS + (16 + 4 * j))) _ g.bs (16 + 4 * j) 4 lr rfl (by simp only [evalE, e2t, reduceCtorEq, if_false]) hev
      (resolve_word hm2 (16 + 4 * j) (by omega) (by omega) (by omega)) ?_
    rw [blockBytes_of hm2]
    refine ⟨rfl, hsz2, fun y hy => by rw [hfr2 y (nm y (by omega)), fr1 y (by omega)]; exact ki.fr y hy,
      ⟨writeLE X (16 + 4 * j) kw.toNat lr 4, ?_, by rw [size_writeLE]; exact hXs, ?_⟩, ?_, ?_, by show s2.ent = _; rw [hent]; exact ki.ent⟩
    · show (setBlock s2.mem g.bs _)[g.bs]? = _; rw [getElem?_setBlock', if_pos rfl, hm2]; rfl
    · intro i w hi hw
      by_cases hij : i = j
      · have e : w = kw := by
          rw [hij, hkj] at hw
          exact (Option.some.inj hw).symm
        have hws := WV.writeLE_same X (4 + j) kw lr hlr (by omega)
        rw [show 4 * (4 + j) = 16 + 4 * j from by omega] at hws
        rw [hij, e]; exact hws
      · exact (hkw i w (by omega) hw).writeLE_other (16 + 4 * j) kw.toNat 4 lr (by omega)
    · show OthLe g.bs (setBlock s2.mem g.bs _) M; rw [hmm]; exact ki.oth.setBlock _
    · show (setBlock s2.mem g.bs _).size = _; rw [size_setBlock', hmm]; exact ki.msz


theorem seqs_cons_ne (a : Stmt) (l : List Stmt) (h : l ≠ []) : seqs (a :: l) = .seq a (seqs l) := by
  cases l with
  | nil => exact absurd rfl h
  | cons b t => rfl

/-- all key words, then the rest of the function -/
theorem key_words {g : AGeo} {M : Array Block} (dg : DGeo g M) {nv : Nat} {kws : List UInt32} {env0 : Env} (koff : Nat) (key : Bytes)
    (hd : BytesV dg.XD koff key) (hklen : key.length = 4 * g.nk) (hk : ∀ i, i < g.nk → kws[i]? = some (~~~ loadAt key (4 * i)))
    {sv t0 : Nat} (hsv : sv < t0) (h7t : 7 < t0) (he8 : env0[sv]? = some (mkPtr g.bs g.baseS, .pub)) (he7 : env0[7]? = some (mkPtr dg.bd (dg.based + koff), .pub))
    (hnv : t0 + 5 * g.nk ≤ nv) (rest : List Stmt) (hrest : rest ≠ []) {Q : Sig → Env → St → Prop} :
    ∀ (n j : Nat), j + n = g.nk → ∀ (env : Env) (st : St), KI g M nv kws env0 t0 j env st →
      (∀ e s, KI g M nv kws env0 t0 g.nk e s → RunsTo g.prog (seqs rest) e s Q) →
      RunsTo g.prog (seqs ((List.range' j n).map (keyWordStmt sv t0) ++ rest)) env st Q
  | 0, j, hjn, env, st, ki, hQ => by
    have : j = g.nk := by omega
    subst this
    simpa using hQ env st ki
  | n + 1, j, hjn, env, st, ki, hQ => by
    rw [List.range'_succ, List.map_cons, List.cons_append, seqs_cons_ne _ _ (by simp [hrest])]
    exact runs_seq (key_word dg koff key hd hklen hk hsv h7t he8 he7 j (by omega) hnv ki) (fun e s ki' => key_words dg koff key hd hklen hk hsv h7t he8 he7 hnv rest hrest n (j + 1) (by omega) e s ki' hQ)

/-- `*clen = mlen + 8` -/
theorem clen_store {prog : Program} {env : Env} {st : St} (bl basel ol : Nat) (XL : Array LByte) (n : Nat)
    (h1 : env[1]? = some (mkPtr bl (basel + ol), .pub)) (h3 : env[3]? = some (n, .pub)) (hm : st.mem[bl]? = some ⟨XL, basel⟩)
    (hin : ol + 8 ≤ XL.size) (hal : (basel + ol) % 8 = 0) (hlt : basel + XL.size < ptrBase) (hn : n + 8 < 18446744073709551616) (hsz : 10 < env.size)
    {Q : Sig → Env → St → Prop}
    (hQ : Q .normal (setVar env 10 (mkPtr bl (basel + ol), .pub))
      { st with leak := .wr (mkPtr bl (basel + ol)) 8 :: st.leak, mem := setBlock st.mem bl (writeLE XL ol (n + 8) .pub 8) }) :
    RunsTo prog clenStmt env st Q := by
  unfold clenStmt
  simp only [seqs]
  refine runs_seq (Q := fun e s' => e = setVar env 10 (mkPtr bl (basel + ol), .pub) ∧ s' = st)
    (runs_assign _ (by simp only [evalE, h1, reduceCtorEq, if_false]) ⟨rfl, rfl, rfl⟩) ?_
  intro e1 s1 ⟨he1, hs1⟩; rw [he1, hs1]
  refine runs_store (mkPtr bl (basel + ol)) (n + 8) bl ol 8 .pub rfl (by simp only [evalE, get_set_eq _ _ _ hsz, reduceCtorEq, if_false])
    (by simp only [evalE, get_set_ne _ _ _ _ (show ¬ 10 = 3 from by decide), h3, reduceCtorEq, if_false, castVal_u64_i32_lit 8 (by decide), BinOp.needsPub2,
      BinOp.needsPub1, Bool.false_and, Bool.or_self, Bool.false_eq_true, binVal, Ty.modulus, Lab.join_pub_pub, Nat.mod_eq_of_lt hn])
    (resolve_mkPtr st.mem bl ol 8 ⟨XL, basel⟩ hm hin (show basel + ol < ptrBase from by omega) (fun _ => hal)) ?_
  rw [blockBytes_of hm]
  exact hQ

end TJ.MiniC.Hoare
