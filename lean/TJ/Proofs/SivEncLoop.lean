/-
  TJ.Proofs.SivEncLoop — the second pass of tinyjambu_*_siv_encrypt on the regenerated term: keystream word loop and tails.
-/
import TJ.Proofs.SivEncStmt
namespace TJ.MiniC.Hoare
open TJ TJ.MiniC TJ.MiniC.PermC TJ.Gen.MiniC

/-- one iteration of the keystream word loop of `tinyjambu_*_siv_encrypt` -/
theorem siv_iter {g : AGeo} (eg : EGeo g) {M : Array Block} {v : Nat} (hv : 14 ≤ v) (pk : Nat) (hpk : pk < 256) {env : Env} {st : St} {s : W4} {kws : List UInt32} {ct : Bytes}
    (b0 b1 b2 b3 : UInt8) (rest : Bytes) (ei : EI g eg M (v + 33) env st s kws ct (b0 :: b1 :: b2 :: b3 :: rest)) :
    RunsTo g.prog (sivLoopBody g.pidx pk 8 10 2 v) env st (fun sig e' s' => sig = .normal ∧ ∃ M',
      EI g eg M' (v + 33) e' s' (g.P kws pk (addDomain s 0xD0)) kws
        (ct ++ store32 (load32 b0 b1 b2 b3 ^^^ (g.P kws pk (addDomain s 0xD0)).c)) rest) := by
  obtain ⟨XM, hMm, hXMs, hdm⟩ := ei.hm
  obtain ⟨XO, hMo, hXOs, hdo, hout⟩ := ei.ho
  have room := ei.room
  have hltm := eg.hltm; have hlto := eg.hlto
  have hlen : (b0 :: b1 :: b2 :: b3 :: rest).length < 18446744073709551616 := by have := hdm.1; simp only [ptrBase] at *; omega
  let dg : DGeo g M := ⟨eg.bm, eg.basem, XM, eg.hbm, eg.hbm30, by rw [hXMs]; exact eg.hltm, hMm⟩
  let vs : List (Nat × Nat) := [(0, mkPtr eg.bo (eg.baseo + (eg.oo + ct.length))), (2, mkPtr eg.bm (eg.basem + (eg.moff + ct.length))), (3, (b0 :: b1 :: b2 :: b3 :: rest).length)]
  have vs3 : ∀ xv ∈ vs, xv.1 ≤ 3 := pv3_le
  have vsn : ∀ t, 9 ≤ t → ∀ xv ∈ vs, xv.1 ≠ t := fun t ht xv hxv => by have := vs3 xv hxv; omega
  have pv0 : PubVars vs env := pv3_mk ei.e0 ei.e2 ei.e3
  generalize hs1 : g.P kws pk (addDomain s 0xD0) = s1
  generalize hdata : load32 b0 b1 b2 b3 = data
  unfold sivLoopBody
  refine runs_ite_true 1 ?_ (by decide) ?_
  · simp only [evalE, ei.e3, reduceCtorEq, if_false, castVal_u64_i32_lit 4 (by decide), BinOp.needsPub2, BinOp.needsPub1, Bool.false_and, Bool.or_self,
      Bool.false_eq_true, binVal, Ty.signed, ge_iff_le, List.length_cons, show 4 ≤ rest.length + 1 + 1 + 1 + 1 from by omega, decide_true, b2n, if_true, Lab.join_pub_pub]
  simp only [seqs]
  refine xp_step (ei.ai.frame (s' := { st with leak := Ev.br true :: st.leak }) ei.ai.esz rfl rfl rfl) vs pv0 v (v + 1) _ (rc pk) 0xD0 pk ⟨by omega, by omega⟩ ⟨by omega, by omega⟩ (by omega)
    (fun xv hxv => ⟨vsn _ (by omega) xv hxv, vsn _ (by omega) xv hxv⟩) (fun e' _ => evalD_small e' 208 (by decide)) (fun e' => evalE_rc e' pk (by omega)) (by omega) _ ?_
  intro e1 st1 ai1 pv1
  rw [hs1] at ai1
  -- data = le_load_word32(m)
  refine runs_seq (Q := fun e' s' => AI g M (v + 33) e' s' s1 kws 8 ∧ PubVars vs e' ∧ EnvHas e' 10 data.toNat) ?_ ?_
  · refine load_data dg ai1 (eg.moff + ct.length) _ hdm (pv3 pv1).2.1 10 [(v + 2, 3), (v + 3, 2), (v + 4, 1), (v + 5, 0)] _ data ⟨by omega, by omega⟩ (by simp) ?_ ?_ ?_ ?_
    · intro yo hyo
      simp only [List.mem_cons, List.mem_nil_iff, or_false] at hyo
      rcases hyo with h | h | h | h <;> rw [h] <;> simp only [List.length_cons] <;> omega
    · simp only [List.map_cons, List.map_nil, List.nodup_cons, List.mem_cons, List.mem_nil_iff, or_false, not_false_eq_true, List.nodup_nil, and_true]; omega
    · intro e' hh
      rw [← hdata]
      exact evalD_e32 (b0 := b0) (b1 := b1) (b2 := b2) (b3 := b3) (hh (v + 2, 3) (by simp)) (hh (v + 3, 2) (by simp)) (hh (v + 4, 1) (by simp)) (hh (v + 5, 0) (by simp))
    · intro e' s' _ hfr h9 ai'
      refine ⟨rfl, ai', pv1.frame (fun xv hxv => hfr xv.1 (vsn 10 (by omega) xv hxv) (notin_loads vs3 _ ?_ xv hxv)), h9⟩
      intro yo hyo
      simp only [List.mem_cons, List.mem_nil_iff, or_false] at hyo
      rcases hyo with h | h | h | h <;> rw [h] <;> simp only [] <;> omega
  intro e2 st2 ⟨ai2, pv2, h92⟩
  have ai3 := ai2; have pv3' := pv2; have h93 := h92
  -- data ^= s[2]
  refine runs_seq (Q := fun e' s' => AI g M (v + 33) e' s' s1 kws 8 ∧ PubVars vs e' ∧ EnvHas e' 10 (data ^^^ s1.c).toNat) ?_ ?_
  · refine squeeze_xor ai3 (v + 6) 10 data ⟨by omega, by omega⟩ ⟨by omega, by omega⟩ (by omega) h93 ?_
    intro e' s' _ hfr h9 ai'
    exact ⟨rfl, ai', pv3'.frame (fun xv hxv => hfr xv.1 (vsn _ (by omega) xv hxv) (vsn _ (by omega) xv hxv)), h9⟩
  intro e4 st4 ⟨ai4, pv4, h94⟩
  -- le_store_word32(c, data)
  have hsz4 := ai4.esz
  refine runs_seq (Q := fun e' s' => e'.size = v + 33 ∧ PubVars vs e' ∧ ∃ XO', AI g (setBlock M eg.bo XO') (v + 33) e' s' s1 kws 8 ∧ XO'.size = XO.size ∧
      (∀ j, j < 4 → BV XO' (eg.oo + ct.length + 0 + j) (byteOf (data ^^^ s1.c).toNat j)) ∧
      (∀ p, (p < eg.oo + ct.length + 0 ∨ eg.oo + ct.length + 0 + 4 ≤ p) → XO'[p]? = XO[p]?)) ?_ ?_
  · obtain ⟨l9, h9v, hl9⟩ := h94
    refine runs_seq (Q := fun e' s' => e' = setVar e4 (v + 7) ((data ^^^ s1.c).toNat, l9) ∧ s' = st4)
      (runs_assign _ (by simp only [evalE, h9v, hl9, if_false]) ⟨rfl, rfl, rfl⟩) ?_
    intro e5 st5 ⟨he5, hst5⟩; rw [he5, hst5]
    have fr5 : ∀ y, y ≠ v + 7 → (setVar e4 (v + 7) ((data ^^^ s1.c).toNat, l9))[y]? = e4[y]? := fun y hy => get_set_ne _ _ _ _ (fun e => hy e.symm)
    have ai5 : AI g M (v + 33) (setVar e4 (v + 7) ((data ^^^ s1.c).toNat, l9)) st4 s1 kws 8 :=
      ai4.frame (by rw [size_setVar]; exact hsz4) (fr5 8 (by omega)) rfl rfl
    have pv5 : PubVars vs (setVar e4 (v + 7) ((data ^^^ s1.c).toNat, l9)) := pv4.frame (fun xv hxv => fr5 xv.1 (vsn _ (by omega) xv hxv))
    refine (out_word ai5 eg.bo eg.baseo (eg.oo + ct.length) 0 XO eg.hbo eg.hbo30 hMo (by rw [hXOs]; exact hlto) (by rw [hXOs]; simp only [List.length_cons] at room; omega)
      (pv3 pv5).1 (v + 8) (v + 9) (v + 10) (v + 11) (v + 7) (data ^^^ s1.c) ⟨⟨by omega, by omega, by omega⟩, ⟨by omega, by omega, by omega⟩, ⟨by omega, by omega, by omega⟩, ⟨by omega, by omega, by omega⟩⟩
      ⟨by omega, by omega, by omega, by omega⟩ ⟨l9, get_set_eq _ _ _ (by omega), hl9⟩).weaken ?_
    intro sig e' s' ⟨h1, h2, h3, h4⟩
    exact ⟨h1, h2, pv5.frame (fun xv hxv => h3 xv.1 (vsn _ (by omega) xv hxv) (vsn _ (by omega) xv hxv) (vsn _ (by omega) xv hxv) (vsn _ (by omega) xv hxv)), h4⟩
  intro e6 st6 ⟨hsz6, pv6, XO', ai6, hXO's, hbv, hkeep⟩
  -- c += 4; m += 4; mlen -= 4
  have hl4 : (ct ++ store32 (data ^^^ s1.c)).length = ct.length + 4 := by simp [store32]
  refine bump3 0 2 3 eg.bo _ eg.bm _ _ 4 4 4 (pv3 pv6).1 (pv3 pv6).2.1 (pv3 pv6).2.2 (by decide) (by decide) (by decide) (by omega) eg.hbo30 eg.hbm30
    (by simp only [List.length_cons] at room; omega) (by have := hdm.1; simp only [List.length_cons] at this; omega) (by simp) hlen (by decide) ?_
  intro e7 hsz7 hfr7 h70 h72 h73
  refine ⟨rfl, setBlock M eg.bo XO', ai6.frame (by rw [hsz7]; exact hsz6) (hfr7 8 (by decide) (by decide) (by decide)) rfl rfl, ?_, ?_, ?_, ?_, ?_, ?_, ?_⟩
  · rw [h70, hl4, Nat.add_assoc, Nat.add_assoc]
  · rw [h72, hl4, Nat.add_assoc, Nat.add_assoc]
  · rw [h73]; simp
  · obtain ⟨XM', h1, h2, h3⟩ := msg_after eg (q := ct.length) (n := 4) hMm hMo hXO's hdm (by simp) (fun p hp => hkeep p (Or.inr (by omega)))
    exact ⟨XM', h1, by rw [h2]; exact hXMs, by rw [hl4]; exact h3⟩
  · refine ⟨XO', by rw [getElem?_setBlock', if_pos rfl, hMo]; rfl, by rw [hXO's]; exact hXOs, ?_, fun p hp => ?_⟩
    · refine bytesV_snoc hdo hXO's (by simp only [List.length_cons] at room; simp [store32]; omega) (fun p hp => hkeep p (Or.inl (by omega))) ?_
      exact store32_bv (fun j hj => by have := hbv j hj; rw [Nat.add_zero] at this; exact this)
    · rw [hl4] at hp
      rw [hkeep p (by omega), hout p (by omega)]
  · intro j hj
    rw [getElem?_setBlock', if_neg hj]; exact ei.oth0 j hj
  · rw [hl4]; simp only [List.length_cons] at room; omega



/-- ciphertext of the full words of the second SIV pass, and the state after them -/
def sivWordsS (P : Perm) (pk : Nat) : W4 → Bytes → W4
  | s, _ :: _ :: _ :: _ :: rest => sivWordsS P pk (P pk (addDomain s 0xD0)) rest
  | s, _ => s
def sivWordsC (P : Perm) (pk : Nat) : W4 → Bytes → Bytes
  | s, b0 :: b1 :: b2 :: b3 :: rest => store32 (load32 b0 b1 b2 b3 ^^^ (P pk (addDomain s 0xD0)).c) ++ sivWordsC P pk (P pk (addDomain s 0xD0)) rest
  | _, _ => []

theorem sivBody_split (P : Perm) (pk : Nat) : ∀ (s : W4) (l : Bytes),
    sivBody P pk s l = sivWordsC P pk s l ++ sivBody P pk (sivWordsS P pk s l) (absRest l)
  | s, [] => rfl
  | s, [_] => rfl
  | s, [_, _] => rfl
  | s, [_, _, _] => rfl
  | s, b0 :: b1 :: b2 :: b3 :: rest => by
    rw [sivBody, sivWordsS, sivWordsC, absRest]
    have ih := sivBody_split P pk (P pk (addDomain s 0xD0)) rest
    simp only [squeeze] at *
    rw [ih, List.append_assoc]

theorem sivBody_length (P : Perm) (pk : Nat) : ∀ (s : W4) (l : Bytes), (sivBody P pk s l).length = l.length
  | s, [] => rfl
  | s, [_] => rfl
  | s, [_, _] => rfl
  | s, [_, _, _] => rfl
  | s, b0 :: b1 :: b2 :: b3 :: rest => by
    rw [sivBody]
    simp only [List.length_append, List.length_cons, store32, List.length_nil]
    rw [sivBody_length P pk _ rest]; omega

theorem siv_exit {g : AGeo} (eg : EGeo g) {M : Array Block} {v : Nat} (pk : Nat) {env : Env} {st : St} {s : W4} {kws : List UInt32} {ct rest : Bytes}
    (ei : EI g eg M (v + 33) env st s kws ct rest) (hl : rest.length < 4) :
    RunsTo g.prog (sivLoopBody g.pidx pk 8 10 2 v) env st (fun sig e' s' => sig = .brk ∧ EI g eg M (v + 33) e' s' s kws ct rest) := by
  unfold sivLoopBody
  refine runs_ite_false ?_ (runs_brk ⟨rfl, ei.ai.frame ei.ai.esz rfl rfl rfl, ei.e0, ei.e2, ei.e3, ei.hm, ei.ho, ei.oth0, ei.room⟩)
  have : ¬ 4 ≤ rest.length := by omega
  simp only [evalE, ei.e3, reduceCtorEq, if_false, castVal_u64_i32_lit 4 (by decide), BinOp.needsPub2, BinOp.needsPub1, Bool.false_and, Bool.or_self,
    Bool.false_eq_true, binVal, Ty.signed, ge_iff_le, this, decide_false, b2n, Lab.join_pub_pub]

/-- **the keystream word loop of `tinyjambu_*_siv_encrypt`** -/
theorem siv_loop {g : AGeo} (eg : EGeo g) {v : Nat} (hv : 14 ≤ v) (pk : Nat) (hpk : pk < 256) {kws : List UInt32} :
    ∀ (l : Bytes) (M : Array Block) (env : Env) (st : St) (s : W4) (ct : Bytes), EI g eg M (v + 33) env st s kws ct l →
    RunsTo g.prog (.loop (sivLoopBody g.pidx pk 8 10 2 v)) env st (fun sig e' s' => sig = .normal ∧
      ∃ M', EI g eg M' (v + 33) e' s' (sivWordsS (g.P kws) pk s l) kws (ct ++ sivWordsC (g.P kws) pk s l) (absRest l))
  | b0 :: b1 :: b2 :: b3 :: rest, M, env, st, s, ct, ei => by
    refine runs_loop_continue (Q := fun e' s' => ∃ M', EI g eg M' (v + 33) e' s' (g.P kws pk (addDomain s 0xD0)) kws
        (ct ++ store32 (load32 b0 b1 b2 b3 ^^^ (g.P kws pk (addDomain s 0xD0)).c)) rest) (siv_iter eg hv pk hpk b0 b1 b2 b3 rest ei) ?_
    intro e s' ⟨M', ei'⟩
    rw [sivWordsS, sivWordsC, absRest, ← List.append_assoc]
    exact siv_loop eg hv pk hpk rest M' e s' _ _ ei'
  | [], M, env, st, s, ct, ei => runs_loop_break ((siv_exit eg pk ei (by simp)).weaken fun _ _ _ ⟨h, a⟩ => ⟨h, rfl, M, by simpa [sivWordsS, sivWordsC, absRest] using a⟩)
  | [_], M, env, st, s, ct, ei => runs_loop_break ((siv_exit eg pk ei (by simp)).weaken fun _ _ _ ⟨h, a⟩ => ⟨h, rfl, M, by simpa [sivWordsS, sivWordsC, absRest] using a⟩)
  | [_, _], M, env, st, s, ct, ei => runs_loop_break ((siv_exit eg pk ei (by simp)).weaken fun _ _ _ ⟨h, a⟩ => ⟨h, rfl, M, by simpa [sivWordsS, sivWordsC, absRest] using a⟩)
  | [_, _, _], M, env, st, s, ct, ei => runs_loop_break ((siv_exit eg pk ei (by simp)).weaken fun _ _ _ ⟨h, a⟩ => ⟨h, rfl, M, by simpa [sivWordsS, sivWordsC, absRest] using a⟩)

/-- the first steps of a tail branch: `s[1] ^= 0xD0; P; data = bytes(m)` -/
theorem siv_tail_head {g : AGeo} (eg : EGeo g) {M : Array Block} {v : Nat} (hv : 14 ≤ v) (pk : Nat) (hpk : pk < 256) {env : Env} {st : St} {s : W4} {kws : List UInt32} {ct rest : Bytes}
    (ei : EI g eg M (v + 33) env st s kws ct rest)
    (t1 x1 : Nat) (loads : List (Nat × Nat)) (E : Expr) (c : UInt32)
    (h1 : v ≤ t1 ∧ t1 < v + 33 ∧ v ≤ x1 ∧ x1 < v + 33 ∧ t1 ≠ x1)
    (hl0 : loads ≠ []) (hall : ∀ yo ∈ loads, v ≤ yo.1 ∧ yo.1 < v + 33 ∧ yo.2 < rest.length) (hnd : (loads.map Prod.fst).Nodup)
    (hE : ∀ e' : Env, (∀ yo ∈ loads, EnvHas e' yo.1 (rest.getD yo.2 0).toNat) → EvalD e' E c.toNat) (more : Stmt)
    {Q : Sig → Env → St → Prop}
    (hQ : ∀ e' s', AI g M (v + 33) e' s' (g.P kws pk (addDomain s 0xD0)) kws 8 →
      e'[0]? = some (mkPtr eg.bo (eg.baseo + (eg.oo + ct.length)), .pub) → e'[3]? = some (rest.length, .pub) → EnvHas e' 10 c.toNat → RunsTo g.prog more e' s' Q) :
    RunsTo g.prog (.seq (xorPub 1 t1 x1 (rc 208) 8) (.seq (.call none g.pidx [.var 8, rc pk]) (.seq (seqs (loadsOf loads 2 ++ [.assign 10 E])) more))) env st Q := by
  obtain ⟨XM, hMm, hXMs, hdm⟩ := ei.hm
  let dg : DGeo g M := ⟨eg.bm, eg.basem, XM, eg.hbm, eg.hbm30, by rw [hXMs]; exact eg.hltm, hMm⟩
  let vs : List (Nat × Nat) := [(0, mkPtr eg.bo (eg.baseo + (eg.oo + ct.length))), (2, mkPtr eg.bm (eg.basem + (eg.moff + ct.length))), (3, rest.length)]
  have vs3 : ∀ xv ∈ vs, xv.1 ≤ 3 := pv3_le
  have vsn : ∀ t, 9 ≤ t → ∀ xv ∈ vs, xv.1 ≠ t := fun t ht xv hxv => by have := vs3 xv hxv; omega
  have pv0 : PubVars vs env := pv3_mk ei.e0 ei.e2 ei.e3
  generalize hs1 : g.P kws pk (addDomain s 0xD0) = s1 at hQ
  refine xp_step ei.ai vs pv0 t1 x1 _ (rc pk) 0xD0 pk ⟨by omega, by omega⟩ ⟨by omega, by omega⟩ h1.2.2.2.2
    (fun xv hxv => ⟨vsn _ (by omega) xv hxv, vsn _ (by omega) xv hxv⟩) (fun e' _ => evalD_small e' 208 (by decide)) (fun e' => evalE_rc e' pk (by omega)) (by omega) _ ?_
  intro e1 st1 ai1 pv1
  rw [hs1] at ai1
  refine runs_seq (Q := fun e' s' => AI g M (v + 33) e' s' s1 kws 8 ∧ PubVars vs e' ∧ EnvHas e' 10 c.toNat) ?_ ?_
  · refine load_data dg ai1 (eg.moff + ct.length) _ hdm (pv3 pv1).2.1 10 loads _ c ⟨by omega, by omega⟩ hl0
      (fun yo hyo => by have := hall yo hyo; omega) hnd hE ?_
    intro e' s' _ hfr h9 ai'
    exact ⟨rfl, ai', pv1.frame (fun xv hxv => hfr xv.1 (vsn 10 (by omega) xv hxv) (notin_loads vs3 _ (fun yo hyo => by have := hall yo hyo; omega) xv hxv)), h9⟩
  intro e2 st2 ⟨ai2, pv2, h92⟩
  exact hQ e2 st2 ai2 (pv3 pv2).1 (pv3 pv2).2.2 h92


/-- **the 0–3 byte tail of the second pass of `tinyjambu_*_siv_encrypt`** -/
theorem siv_tail {g : AGeo} (eg : EGeo g) {M : Array Block} {v : Nat} (hv : 14 ≤ v) (pk : Nat) (hpk : pk < 256) {env : Env} {st : St} {s : W4} {kws : List UInt32} {ct rest : Bytes}
    (ei : EI g eg M (v + 33) env st s kws ct rest) (hl : rest.length < 4) :
    RunsTo g.prog (sivEncTail g.pidx pk v) env st (fun sig e' s' => sig = .normal ∧ ∃ M' sF,
      EF g eg M' (v + 33) e' s' sF kws ct (sivBody (g.P kws) pk s rest)) := by
  have cond : ∀ c, c < 256 → evalE env (.bin .eq .u64 (.var 3) (.cast .u64 .i32 (.lit c))) = .ok (b2n (rest.length = c), .pub) := by
    intro c hc
    simp only [evalE, ei.e3, reduceCtorEq, if_false, castVal_u64_i32_lit c hc, BinOp.needsPub2, BinOp.needsPub1, Bool.false_and, Bool.or_self,
      Bool.false_eq_true, binVal, Lab.join_pub_pub]
  have eil : ∀ l, EI g eg M (v + 33) env { st with leak := l } s kws ct rest := fun l =>
    ⟨ei.ai.frame ei.ai.esz rfl rfl rfl, ei.e0, ei.e2, ei.e3, ei.hm, ei.ho, ei.oth0, ei.room⟩
  obtain ⟨XO, hMo, hXOs, hdo, hout⟩ := ei.ho
  have room := ei.room; have hlto := eg.hlto
  unfold sivEncTail
  match rest, hl, ei, cond, eil, room with
  | [], _, ei, cond, eil, room =>
    refine runs_ite_false (by rw [cond 1 (by decide)]; rfl) (runs_ite_false (by rw [cond 2 (by decide)]; rfl) (runs_ite_false (by rw [cond 3 (by decide)]; rfl)
      (runs_skip ⟨rfl, M, s, (eil _).ai, ei.e0, ei.e3, ⟨XO, hMo, hXOs, by simpa [sivBody] using hdo, by simpa [sivBody] using hout⟩, ei.oth0, by simpa [sivBody] using room⟩)))
  | [b0], _, ei, cond, eil, room =>
    refine runs_ite_true 1 (by rw [cond 1 (by decide)]; rfl) (by decide) ?_
    simp only [seqs]
    refine siv_tail_head eg hv pk hpk (eil _) (v + 12) (v + 13) [(v + 14, 0)] (e8 (v + 14)) b0.toUInt32
      ⟨by omega, by omega, by omega, by omega, by omega⟩ (by simp)
      (by intro yo hyo; simp only [List.mem_singleton] at hyo; rw [hyo]; simp) (by simp)
      (fun e' hh => evalD_e8 (b0 := b0) (hh (v + 14, 0) (by simp))) _ ?_
    intro e' s' ai' h0 h3 h9
    simp only [List.length_cons, List.length_nil] at room
    refine out_squeeze_byte ai' eg.bo eg.baseo (eg.oo + ct.length) XO eg.hbo hMo (by rw [hXOs]; exact hlto) (by omega) h0 (v + 15) (v + 16) 10 b0.toUInt32
      ⟨by omega, by omega⟩ ⟨by omega, by omega⟩ (by omega) (by omega) (by omega) h9 ?_
    intro e'' s'' l hl hfr hsz ai''
    refine ⟨rfl, _, _, EF.of_write ei hMo hXOs hdo hout ai'' (by rw [hfr 0 (by omega) (by omega)]; exact h0) (by rw [hfr 3 (by omega) (by omega)]; exact h3) rfl
      (by simp) (fun k c hk => ?_) (fun p hp => ?_)⟩
    · cases k with
      | zero =>
        have e : c = ((g.P kws pk (addDomain s 0xD0)).c ^^^ b0.toUInt32).toUInt8 := by simpa [sivBody, squeeze] using hk.symm
        exact ⟨l, by rw [e, Array.getElem?_setIfInBounds]; simp; omega, hl⟩
      | succ k => simp [sivBody] at hk
    · rw [Array.getElem?_setIfInBounds, if_neg (by simp [sivBody] at hp; omega)]
  | [b0, b1], _, ei, cond, eil, room =>
    refine runs_ite_false (by rw [cond 1 (by decide)]; rfl) (runs_ite_true 1 (by rw [cond 2 (by decide)]; rfl) (by decide) ?_)
    simp only [seqs]
    refine siv_tail_head eg hv pk hpk (eil _) (v + 17) (v + 18) [(v + 19, 1), (v + 20, 0)] (e16 (v + 19) (v + 20)) (load16 b0 b1)
      ⟨by omega, by omega, by omega, by omega, by omega⟩ (by simp)
      (by intro yo hyo; simp only [List.mem_cons, List.mem_nil_iff, or_false] at hyo; rcases hyo with h | h <;> rw [h] <;> simp)
      (by simp only [List.map_cons, List.map_nil, List.nodup_cons, List.mem_cons, List.mem_nil_iff, or_false, not_false_eq_true, List.nodup_nil, and_true]; omega)
      (fun e' hh => evalD_e16 (b0 := b0) (b1 := b1) (hh (v + 19, 1) (by simp)) (hh (v + 20, 0) (by simp))) _ ?_
    intro e' s' ai' h0 h3 h9
    simp only [List.length_cons, List.length_nil] at room
    generalize hsF : g.P kws pk (addDomain s 0xD0) = sF at ai'
    refine runs_seq (Q := fun e2 s2 => AI g M (v + 33) e2 s2 sF kws 8 ∧ e2[0]? = some (mkPtr eg.bo (eg.baseo + (eg.oo + ct.length)), .pub) ∧
        e2[3]? = some (2, .pub) ∧ EnvHas e2 10 (load16 b0 b1 ^^^ sF.c).toNat) ?_ ?_
    · refine squeeze_xor ai' (v + 21) 10 (load16 b0 b1) ⟨by omega, by omega⟩ ⟨by omega, by omega⟩ (by omega) h9 ?_
      intro e2 s2 _ hfr h92 ai2
      exact ⟨rfl, ai2, by rw [hfr 0 (by omega) (by omega)]; exact h0, by rw [hfr 3 (by omega) (by omega)]; exact h3, h92⟩
    intro e2 s2 ⟨ai2, h20, h23, h29⟩
    refine (out_bytes eg.bo eg.baseo (eg.oo + ct.length) eg.hbo eg.hbo30 (load16 b0 b1 ^^^ sF.c) [v + 22, v + 23] 0 M XO e2 s2 ai2 hMo (by rw [hXOs]; exact hlto)
      (by rw [hXOs]; simp; omega) (by simp) h20 h29
      (by intro t ht; simp only [List.mem_cons, List.mem_nil_iff, or_false] at ht; rcases ht with h | h <;> rw [h] <;> omega) (by simp)).weaken ?_
    intro sig e3 s3 ⟨hs, hsz3, hfr3, XO', ai3, hXO', hbv, hkeep⟩
    have nm : ∀ y, y < 11 → y ∉ [v + 22, v + 23] := by intro y hy; simp only [List.mem_cons, List.mem_nil_iff, or_false]; omega
    refine ⟨hs, _, _, EF.of_write ei hMo hXOs hdo hout ai3 (by rw [hfr3 0 (nm 0 (by omega))]; exact h20) (by rw [hfr3 3 (nm 3 (by omega))]; exact h23) rfl hXO'
      (fun k c hk => ?_) (fun p hp => hkeep p (by simpa [sivBody] using hp))⟩
    have hb := byteOf_store (load16 b0 b1 ^^^ sF.c)
    have hsq : squeeze sF = sF.c := rfl
    match k, hk with
    | 0, hk =>
      have e : c = (load16 b0 b1 ^^^ sF.c).toUInt8 := by rw [← hsF]; simpa [sivBody, squeeze] using hk.symm
      rw [e, ← hb.1]; exact hbv 0 (by simp)
    | 1, hk =>
      have e : c = ((load16 b0 b1 ^^^ sF.c) >>> 8).toUInt8 := by rw [← hsF]; simpa [sivBody, squeeze] using hk.symm
      rw [e, ← hb.2.1]; exact hbv 1 (by simp)
    | k + 2, hk => simp [sivBody] at hk
  | [b0, b1, b2], _, ei, cond, eil, room =>
    refine runs_ite_false (by rw [cond 1 (by decide)]; rfl) (runs_ite_false (by rw [cond 2 (by decide)]; rfl) (runs_ite_true 1 (by rw [cond 3 (by decide)]; rfl) (by decide) ?_))
    simp only [seqs]
    refine siv_tail_head eg hv pk hpk (eil _) (v + 24) (v + 25) [(v + 26, 1), (v + 27, 0), (v + 28, 2)] (e24 (v + 26) (v + 27) (v + 28)) (load24 b0 b1 b2)
      ⟨by omega, by omega, by omega, by omega, by omega⟩ (by simp)
      (by intro yo hyo; simp only [List.mem_cons, List.mem_nil_iff, or_false] at hyo; rcases hyo with h | h | h <;> rw [h] <;> simp)
      (by simp only [List.map_cons, List.map_nil, List.nodup_cons, List.mem_cons, List.mem_nil_iff, or_false, not_false_eq_true, List.nodup_nil, and_true]; omega)
      (fun e' hh => evalD_e24 (b0 := b0) (b1 := b1) (b2 := b2) (hh (v + 26, 1) (by simp)) (hh (v + 27, 0) (by simp)) (hh (v + 28, 2) (by simp))) _ ?_
    intro e' s' ai' h0 h3 h9
    simp only [List.length_cons, List.length_nil] at room
    generalize hsF : g.P kws pk (addDomain s 0xD0) = sF at ai'
    refine runs_seq (Q := fun e2 s2 => AI g M (v + 33) e2 s2 sF kws 8 ∧ e2[0]? = some (mkPtr eg.bo (eg.baseo + (eg.oo + ct.length)), .pub) ∧
        e2[3]? = some (3, .pub) ∧ EnvHas e2 10 (load24 b0 b1 b2 ^^^ sF.c).toNat) ?_ ?_
    · refine squeeze_xor ai' (v + 31 - 2) 10 (load24 b0 b1 b2) ⟨by omega, by omega⟩ ⟨by omega, by omega⟩ (by omega) h9 ?_
      intro e2 s2 _ hfr h92 ai2
      exact ⟨rfl, ai2, by rw [hfr 0 (by omega) (by omega)]; exact h0, by rw [hfr 3 (by omega) (by omega)]; exact h3, h92⟩
    intro e2 s2 ⟨ai2, h20, h23, h29⟩
    refine (out_bytes eg.bo eg.baseo (eg.oo + ct.length) eg.hbo eg.hbo30 (load24 b0 b1 b2 ^^^ sF.c) [v + 30, v + 31, v + 32] 0 M XO e2 s2 ai2 hMo (by rw [hXOs]; exact hlto)
      (by rw [hXOs]; simp; omega) (by simp) h20 h29
      (by intro t ht; simp only [List.mem_cons, List.mem_nil_iff, or_false] at ht; rcases ht with h | h | h <;> rw [h] <;> omega) (by simp)).weaken ?_
    intro sig e3 s3 ⟨hs, hsz3, hfr3, XO', ai3, hXO', hbv, hkeep⟩
    have nm : ∀ y, y < 11 → y ∉ [v + 30, v + 31, v + 32] := by intro y hy; simp only [List.mem_cons, List.mem_nil_iff, or_false]; omega
    refine ⟨hs, _, _, EF.of_write ei hMo hXOs hdo hout ai3 (by rw [hfr3 0 (nm 0 (by omega))]; exact h20) (by rw [hfr3 3 (nm 3 (by omega))]; exact h23) rfl hXO'
      (fun k c hk => ?_) (fun p hp => hkeep p (by simpa [sivBody] using hp))⟩
    have hb := byteOf_store (load24 b0 b1 b2 ^^^ sF.c)
    match k, hk with
    | 0, hk =>
      have e : c = (load24 b0 b1 b2 ^^^ sF.c).toUInt8 := by rw [← hsF]; simpa [sivBody, squeeze] using hk.symm
      rw [e, ← hb.1]; exact hbv 0 (by simp)
    | 1, hk =>
      have e : c = ((load24 b0 b1 b2 ^^^ sF.c) >>> 8).toUInt8 := by rw [← hsF]; simpa [sivBody, squeeze] using hk.symm
      rw [e, ← hb.2.1]; exact hbv 1 (by simp)
    | 2, hk =>
      have e : c = ((load24 b0 b1 b2 ^^^ sF.c) >>> 16).toUInt8 := by rw [← hsF]; simpa [sivBody, squeeze] using hk.symm
      rw [e, ← hb.2.2.1]; exact hbv 2 (by simp)
    | k + 3, hk => simp [sivBody] at hk


end TJ.MiniC.Hoare
