/-
  TJ.Proofs.CheckTag — `tinyjambu_aead_check_tag`: the OR-fold of XORs is zero iff all
  bytes agree; `(accum - 1) >> 8` on an int in [0,255] is -1 iff accum = 0.
-/
import TJ.Proofs.Aead
namespace TJ

theorem tagMask_zero : tagMask 0 = -1 := by decide
theorem tagMask_ne (a : UInt8) (h : a ≠ 0) : tagMask a = 0 := by
  unfold tagMask; bv_decide
theorem mask_keep (p : UInt8) : p &&& (-1 : Int32).toUInt32.toUInt8 = p := by bv_decide
theorem mask_clear (p : UInt8) : p &&& (0 : Int32).toUInt32.toUInt8 = 0 := by bv_decide
theorem u8_or_eq_zero (a b : UInt8) : (a ||| b = 0) ↔ (a = 0 ∧ b = 0) := by
  constructor
  · intro h; constructor <;> bv_decide
  · rintro ⟨rfl, rfl⟩; rfl
theorem u8_xor_eq_zero (a b : UInt8) : (a ^^^ b = 0) ↔ a = b := by
  constructor
  · intro h; bv_decide
  · rintro rfl; bv_decide

/-- all 2^(8n) tag values at once: the accumulated difference is zero iff the tags are equal -/
theorem tagAccum_eq_zero (t1 t2 : Bytes) (h : t1.length = t2.length) :
    tagAccum t1 t2 = 0 ↔ t1 = t2 := by
  induction t1 generalizing t2 with
  | nil => cases t2 with
    | nil => simp [tagAccum]
    | cons y ys => simp at h
  | cons x xs ih => cases t2 with
    | nil => simp at h
    | cons y ys =>
      simp only [List.length_cons, Nat.add_right_cancel_iff] at h
      simp [tagAccum, u8_or_eq_zero, u8_xor_eq_zero, ih ys h]

theorem checkTag_eq (plain t : Bytes) : checkTag plain t t = (0, plain) := by
  have h : tagAccum t t = 0 := (tagAccum_eq_zero t t rfl).2 rfl
  simp only [checkTag, h, tagMask_zero]
  refine Prod.ext (by simp only; decide) ?_
  simp only [mask_keep]
  induction plain with
  | nil => rfl
  | cons p ps ih => simp only [List.map_cons]; rw [ih]

theorem checkTag_ne (plain t1 t2 : Bytes) (hl : t1.length = t2.length) (h : t1 ≠ t2) :
    checkTag plain t1 t2 = (-1, List.replicate plain.length 0) := by
  have ha : tagAccum t1 t2 ≠ 0 := fun h0 => h ((tagAccum_eq_zero t1 t2 hl).1 h0)
  simp only [checkTag, tagMask_ne _ ha]
  refine Prod.ext (by simp only; decide) ?_
  simp only [mask_clear]
  induction plain with
  | nil => rfl
  | cons p ps ih => simp only [List.map_cons, List.length_cons, List.replicate_succ]; rw [ih]

/-- the verdict and the buffer, for every pair of equal-length tags -/
theorem checkTag_spec (plain t1 t2 : Bytes) (hl : t1.length = t2.length) :
    checkTag plain t1 t2 = if t1 = t2 then (0, plain) else (-1, List.replicate plain.length 0) := by
  by_cases h : t1 = t2
  · subst h; simp [checkTag_eq]
  · simp [h, checkTag_ne plain t1 t2 hl h]

end TJ
