/-
  The regenerated `tinyjambu_permutation_192` (TJ.Gen.MiniC.Prog, translated from src/backend/tinyjambu-192-c32.c by
  tools/c2lean.py): the loop (three rounds per iteration, key words rotating through six, two early exits), the whole body,
  the call, and the bridge to the word-level model `TJ.perm192`.
-/
import TJ.Proofs.PermCBody
namespace TJ.MiniC.PermC
open TJ TJ.MiniC TJ.Gen.MiniC

/-- `if (--rounds == 0) break;` when this was the last round -/
theorem ctl_last (prog : Program) (f : Nat → Nat) (hf : ∀ i, f (i + 1) = Fu (f i)) (m nv : Nat)
    (env : Env) (st : St) (ptr a b c d : Nat) (inv : Inv nv env ptr 1 a b c d) :
    exec prog (f (m + 3)) ctl env st = .ok .brk (setVar env 1 (0, .pub)) { st with leak := Ev.br true :: st.leak } := by
  unfold ctl
  simp only [seqs]
  rw [exec_seq' prog (hf (m + 2)), exec_assign' prog (hf (m + 1))]
  simp only [evalE, inv.e1, reduceCtorEq, if_false, BinOp.needsPub2, BinOp.needsPub1, Bool.false_and, Bool.or_self, Bool.false_eq_true, binVal,
    Ty.modulus, Lab.join_pub_pub, dec32 0 (by decide)]
  rw [exec_ite' prog (hf (m + 1))]
  simp only [evalE, get_set_eq _ _ _ (show 1 < env.size from by have := inv.size; have := inv.big; omega), reduceCtorEq, if_false, castVal_u32_i32_zero,
    BinOp.needsPub2, BinOp.needsPub1, Bool.false_and, Bool.or_self, Bool.false_eq_true, binVal, decide_true, b2n, Lab.join_pub_pub, ne_eq,
    not_true_eq_false, if_true, show ((1 : Nat) != 0) = true from rfl]
  rw [exec_brk' prog (hf m)]

/-- `if (--rounds == 0) break;` when more rounds follow -/
theorem ctl_more (prog : Program) (f : Nat → Nat) (hf : ∀ i, f (i + 1) = Fu (f i)) (m nv : Nat)
    (env : Env) (st : St) (ptr n a b c d : Nat) (hn : n + 2 < 4294967296) (inv : Inv nv env ptr (n + 2) a b c d) :
    exec prog (f (m + 3)) ctl env st = .ok .normal (setVar env 1 (n + 1, .pub)) { st with leak := Ev.br false :: st.leak } := by
  unfold ctl
  simp only [seqs]
  rw [exec_seq' prog (hf (m + 2)), exec_assign' prog (hf (m + 1))]
  simp only [evalE, inv.e1, reduceCtorEq, if_false, BinOp.needsPub2, BinOp.needsPub1, Bool.false_and, Bool.or_self, Bool.false_eq_true, binVal,
    Ty.modulus, Lab.join_pub_pub, dec32 (n + 1) (by omega)]
  rw [exec_ite' prog (hf (m + 1))]
  have hne : ¬ n + 1 = 0 := by omega
  simp only [evalE, get_set_eq _ _ _ (show 1 < env.size from by have := inv.size; have := inv.big; omega), reduceCtorEq, if_false, castVal_u32_i32_zero,
    BinOp.needsPub2, BinOp.needsPub1, Bool.false_and, Bool.or_self, Bool.false_eq_true, binVal, hne, decide_false, b2n, Lab.join_pub_pub, ne_eq,
    not_true_eq_false, show ((0 : Nat) != 0) = false from rfl]
  rw [exec_skip' prog (hf m)]

def loop192 : Stmt :=
  .loop (.ite (.bin .gt .u32 (.var 1) (.cast .u32 .i32 (.lit 0)))
    (seqs [seqs [stepsBlk 6 8 10 12 14 16, stepsBlk 8 10 12 6 15 20, stepsBlk 10 12 6 8 16 24, stepsBlk 12 6 8 10 17 28, ctl,
                 stepsBlk 6 8 10 12 18 32, stepsBlk 8 10 12 6 19 36, stepsBlk 10 12 6 8 20 16, stepsBlk 12 6 8 10 21 20, ctl,
                 stepsBlk 6 8 10 12 22 24, stepsBlk 8 10 12 6 23 28, stepsBlk 10 12 6 8 24 32, stepsBlk 12 6 8 10 25 36],
           .assign 1 (.bin .sub .u32 (.var 1) (.lit 1))])
    .brk)

def body192 : Stmt :=
    seqs [seqs [.load 7 .u32 (.var 0), .assign 6 (.var 7)], seqs [.load 9 .u32 (.bin .add .u64 (.var 0) (.lit 4)), .assign 8 (.var 9)],
      seqs [.load 11 .u32 (.bin .add .u64 (.var 0) (.lit 8)), .assign 10 (.var 11)], seqs [.load 13 .u32 (.bin .add .u64 (.var 0) (.lit 12)), .assign 12 (.var 13)],
      loop192,
      seqs [.assign 26 (.var 0), .store .u32 (.var 26) (.var 6)], seqs [.assign 27 (.bin .add .u64 (.var 0) (.lit 4)), .store .u32 (.var 27) (.var 8)],
      seqs [.assign 28 (.bin .add .u64 (.var 0) (.lit 8)), .store .u32 (.var 28) (.var 10)], seqs [.assign 29 (.bin .add .u64 (.var 0) (.lit 12)), .store .u32 (.var 29) (.var 12)]]

theorem body192_eq : f_tinyjambu_permutation_192.body = body192 := rfl


/-- a round on a 4-tuple -/
def R (s : Nat × Nat × Nat × Nat) (k0 k1 k2 k3 : Nat) : Nat × Nat × Nat × Nat := roundN s.1 s.2.1 s.2.2.1 s.2.2.2 k0 k1 k2 k3

/-- `Inv` with the four state words as a tuple -/
abbrev InvT (nv : Nat) (env : Env) (ptr r : Nat) (s : Nat × Nat × Nat × Nat) : Prop := Inv nv env ptr r s.1 s.2.1 s.2.2.1 s.2.2.2

/-- `tinyjambu_permutation_192` on naturals, with the loop structure of the C code (three rounds per iteration, two early exits) -/
def permN192 (k0 k1 k2 k3 k4 k5 : Nat) : Nat → Nat × Nat × Nat × Nat → Nat × Nat × Nat × Nat
  | 0, s => s
  | 1, s => R s k0 k1 k2 k3
  | 2, s => R (R s k0 k1 k2 k3) k4 k5 k0 k1
  | n + 3, s => permN192 k0 k1 k2 k3 k4 k5 n (R (R (R s k0 k1 k2 k3) k4 k5 k0 k1) k2 k3 k4 k5)

/-- the state object of the 192-bit variant: six key words at offsets 16..36 -/
structure KM192 (st : St) (bs : Nat) (blk : Block) (k0 k1 k2 k3 k4 k5 : Nat) : Prop where
  hb : st.mem[bs]? = some blk
  al : blk.base % 4 = 0
  lt : blk.base + blk.bytes.size < ptrBase
  bb : bs < 2 ^ 30
  sz : 40 ≤ blk.bytes.size
  r0 : readLE blk.bytes 16 4 = some (k0, Lab.sec)
  r1 : readLE blk.bytes 20 4 = some (k1, Lab.sec)
  r2 : readLE blk.bytes 24 4 = some (k2, Lab.sec)
  r3 : readLE blk.bytes 28 4 = some (k3, Lab.sec)
  r4 : readLE blk.bytes 32 4 = some (k4, Lab.sec)
  r5 : readLE blk.bytes 36 4 = some (k5, Lab.sec)

theorem KM192.leak {st : St} {bs : Nat} {blk : Block} {k0 k1 k2 k3 k4 k5 : Nat} (h : KM192 st bs blk k0 k1 k2 k3 k4 k5) (l : List Ev) :
    KM192 { st with leak := l } bs blk k0 k1 k2 k3 k4 k5 := ⟨h.hb, h.al, h.lt, h.bb, h.sz, h.r0, h.r1, h.r2, h.r3, h.r4, h.r5⟩

theorem loop192_zero (prog : Program) (f : Nat → Nat) (hf : ∀ i, f (i + 1) = Fu (f i)) (m nv : Nat)
    (env : Env) (st : St) (ptr a b c d : Nat) (inv : Inv nv env ptr 0 a b c d) :
    exec prog (f (m + 3)) loop192 env st = .ok .normal env { st with leak := Ev.br false :: st.leak } := by
  unfold loop192
  rw [exec_loop' prog (hf (m + 2)), exec_ite' prog (hf (m + 1))]
  simp only [evalE, inv.e1, reduceCtorEq, if_false, castVal_u32_i32_zero, BinOp.needsPub2, BinOp.needsPub1, Bool.false_and, Bool.or_self,
    Bool.false_eq_true, binVal, Ty.signed, gt_iff_lt, Nat.lt_irrefl, decide_false, b2n, Lab.join_pub_pub, ne_eq, not_true_eq_false,
    show ((0 : Nat) != 0) = false from rfl]
  rw [exec_brk' prog (hf m)]

/-- the three tails of the loop body -/
def tail3 : Stmt := .seq (stepsBlk 6 8 10 12 22 24) (.seq (stepsBlk 8 10 12 6 23 28) (.seq (stepsBlk 10 12 6 8 24 32) (stepsBlk 12 6 8 10 25 36)))
def tail2 : Stmt := .seq (stepsBlk 6 8 10 12 18 32) (.seq (stepsBlk 8 10 12 6 19 36) (.seq (stepsBlk 10 12 6 8 20 16) (.seq (stepsBlk 12 6 8 10 21 20) (.seq ctl tail3))))

/-- entering an iteration with a non-zero counter: the branch taken, the first round done -/
theorem loop192_head (prog : Program) (f : Nat → Nat) (hf : ∀ i, f (i + 1) = Fu (f i)) (m nv : Nat)
    (env : Env) (st : St) (n : Nat) (s : Nat × Nat × Nat × Nat) (k0 k1 k2 k3 k4 k5 bs : Nat) (blk : Block)
    (inv : InvT nv env (mkPtr bs blk.base) (n + 1) s) (km : KM192 st bs blk k0 k1 k2 k3 k4 k5) :
    ∃ env1 l1, exec prog (f (m + 22)) loop192 env st =
      (match (match exec prog (f (m + 15)) (.seq ctl tail2) env1 { st with leak := l1 } with
              | .ok .normal e2 s2 => exec prog (f (m + 19)) (.assign 1 (.bin .sub .u32 (.var 1) (.lit 1))) e2 s2
              | r => r) with
       | .ok .normal e3 s3 => exec prog (f (m + 21)) loop192 e3 s3
       | .ok .brk e3 s3 => .ok .normal e3 s3
       | r => r) ∧
      InvT nv env1 (mkPtr bs blk.base) (n + 1) (R s k0 k1 k2 k3) := by
  have hsz := km.sz
  obtain ⟨env1, l1, h1, inv1⟩ := exec_round prog f hf (m + 9) nv env { st with leak := Ev.br true :: st.leak } (mkPtr bs blk.base) (n + 1) s.1 s.2.1 s.2.2.1 s.2.2.2 14 15 16 17 16 20 24 28
    k0 k1 k2 k3 bs blk (.seq ctl tail2)
    inv rfl (by decide) (by decide) (by decide) (by decide) km.hb km.al (by decide) km.lt km.bb (by omega)
    km.r0 km.r1 km.r2 km.r3
  refine ⟨env1, l1, ?_, inv1⟩
  unfold loop192
  rw [exec_loop' prog (hf (m + 21)), exec_ite' prog (hf (m + 20))]
  simp only [evalE, inv.e1, reduceCtorEq, if_false, castVal_u32_i32_zero, BinOp.needsPub2, BinOp.needsPub1, Bool.false_and, Bool.or_self,
    Bool.false_eq_true, binVal, Ty.signed, gt_iff_lt, Nat.zero_lt_succ, decide_true, b2n, Lab.join_pub_pub, ne_eq, not_true_eq_false, if_true,
    show ((1 : Nat) != 0) = true from rfl, seqs]
  rw [exec_seq' prog (hf (m + 19))]
  unfold tail2 tail3 at h1
  rw [show m + 19 = m + 9 + 10 from by omega, h1]
  rfl


/-- counter = 1 -/
theorem loop192_one (prog : Program) (f : Nat → Nat) (hf : ∀ i, f (i + 1) = Fu (f i)) (m nv : Nat)
    (env : Env) (st : St) (s : Nat × Nat × Nat × Nat) (k0 k1 k2 k3 k4 k5 bs : Nat) (blk : Block)
    (inv : InvT nv env (mkPtr bs blk.base) 1 s) (km : KM192 st bs blk k0 k1 k2 k3 k4 k5) :
    ∃ env' leak', exec prog (f (m + 22)) loop192 env st = .ok .normal env' { st with leak := leak' } ∧
      InvT nv env' (mkPtr bs blk.base) 0 (R s k0 k1 k2 k3) := by
  obtain ⟨env1, l1, h1, inv1⟩ := loop192_head prog f hf m nv env st 0 s k0 k1 k2 k3 k4 k5 bs blk inv km
  refine ⟨setVar env1 1 (0, .pub), Ev.br true :: l1, ?_, inv1.set1 0⟩
  rw [h1, exec_seq' prog (hf (m + 14)), show m + 14 = m + 11 + 3 from by omega,
    ctl_last prog f hf (m + 11) nv env1 { st with leak := l1 } _ _ _ _ _ inv1]

/-- counter = 2 -/
theorem loop192_two (prog : Program) (f : Nat → Nat) (hf : ∀ i, f (i + 1) = Fu (f i)) (m nv : Nat)
    (env : Env) (st : St) (s : Nat × Nat × Nat × Nat) (k0 k1 k2 k3 k4 k5 bs : Nat) (blk : Block)
    (inv : InvT nv env (mkPtr bs blk.base) 2 s) (km : KM192 st bs blk k0 k1 k2 k3 k4 k5) :
    ∃ env' leak', exec prog (f (m + 22)) loop192 env st = .ok .normal env' { st with leak := leak' } ∧
      InvT nv env' (mkPtr bs blk.base) 0 (R (R s k0 k1 k2 k3) k4 k5 k0 k1) := by
  have hsz := km.sz
  obtain ⟨env1, l1, h1, inv1⟩ := loop192_head prog f hf m nv env st 1 s k0 k1 k2 k3 k4 k5 bs blk inv km
  have inv1' := inv1.set1 1
  obtain ⟨env2, l2, h2, inv2⟩ := exec_round prog f hf (m + 4) nv (setVar env1 1 (1, .pub)) { st with leak := Ev.br false :: l1 } (mkPtr bs blk.base) 1 _ _ _ _ 18 19 20 21 32 36 16 20
    k4 k5 k0 k1 bs blk (.seq ctl tail3)
    inv1' rfl (by decide) (by decide) (by decide) (by decide) km.hb km.al (by decide) km.lt km.bb (by omega)
    km.r4 km.r5 km.r0 km.r1
  refine ⟨setVar env2 1 (0, .pub), Ev.br true :: l2, ?_, inv2.set1 0⟩
  rw [h1, exec_seq' prog (hf (m + 14)), show m + 14 = m + 11 + 3 from by omega,
    ctl_more prog f hf (m + 11) nv env1 { st with leak := l1 } _ 0 _ _ _ _ (by decide) inv1]
  simp only []
  unfold tail2
  rw [show m + 11 + 3 = m + 4 + 10 from by omega, h2, show m + 4 + 6 = m + 9 + 1 from by omega, exec_seq' prog (hf (m + 9)),
    show m + 9 = m + 6 + 3 from by omega, ctl_last prog f hf (m + 6) nv env2 { st with leak := l2 } _ _ _ _ _ inv2]

/-- counter ≥ 3: three rounds, counter decreased by 3, and the loop goes round again -/
theorem loop192_three (prog : Program) (f : Nat → Nat) (hf : ∀ i, f (i + 1) = Fu (f i)) (m nv : Nat)
    (env : Env) (st : St) (n : Nat) (s : Nat × Nat × Nat × Nat) (k0 k1 k2 k3 k4 k5 bs : Nat) (blk : Block) (hn : n + 3 < 4294967296)
    (inv : InvT nv env (mkPtr bs blk.base) (n + 3) s) (km : KM192 st bs blk k0 k1 k2 k3 k4 k5) :
    ∃ env' leak', exec prog (f (m + 22)) loop192 env st = exec prog (f (m + 21)) loop192 env' { st with leak := leak' } ∧
      InvT nv env' (mkPtr bs blk.base) n (R (R (R s k0 k1 k2 k3) k4 k5 k0 k1) k2 k3 k4 k5) := by
  have hsz := km.sz
  obtain ⟨env1, l1, h1, inv1⟩ := loop192_head prog f hf m nv env st (n + 2) s k0 k1 k2 k3 k4 k5 bs blk inv km
  have inv1' := inv1.set1 (n + 2)
  obtain ⟨env2, l2, h2, inv2⟩ := exec_round prog f hf (m + 4) nv (setVar env1 1 (n + 2, .pub)) { st with leak := Ev.br false :: l1 } (mkPtr bs blk.base) (n + 2) _ _ _ _ 18 19 20 21 32 36 16 20
    k4 k5 k0 k1 bs blk (.seq ctl tail3)
    inv1' rfl (by decide) (by decide) (by decide) (by decide) km.hb km.al (by decide) km.lt km.bb (by omega)
    km.r4 km.r5 km.r0 km.r1
  have inv2' := inv2.set1 (n + 1)
  obtain ⟨env3, l3, h3, inv3⟩ := exec_round_last prog f hf m nv (setVar env2 1 (n + 1, .pub)) { st with leak := Ev.br false :: l2 } (mkPtr bs blk.base) (n + 1) _ _ _ _ 22 23 24 25 24 28 32 36
    k2 k3 k4 k5 bs blk
    inv2' rfl (by decide) (by decide) (by decide) (by decide) km.hb km.al (by decide) km.lt km.bb (by omega)
    km.r2 km.r3 km.r4 km.r5
  refine ⟨setVar env3 1 (n, .pub), l3, ?_, inv3.set1 n⟩
  rw [h1, exec_seq' prog (hf (m + 14)), show m + 14 = m + 11 + 3 from by omega,
    ctl_more prog f hf (m + 11) nv env1 { st with leak := l1 } _ (n + 1) _ _ _ _ (by omega) inv1]
  simp only []
  unfold tail2
  rw [show m + 11 + 3 = m + 4 + 10 from by omega, h2, show m + 4 + 6 = m + 9 + 1 from by omega, exec_seq' prog (hf (m + 9)),
    show m + 9 = m + 6 + 3 from by omega, ctl_more prog f hf (m + 6) nv env2 { st with leak := l2 } _ n _ _ _ _ (by omega) inv2]
  simp only []
  unfold tail3
  rw [show m + 6 + 3 = m + 9 from by omega, h3]
  simp only []
  rw [show m + 19 = m + 18 + 1 from by omega, exec_assign' prog (hf (m + 18))]
  simp only [evalE, inv3.e1, reduceCtorEq, if_false, BinOp.needsPub2, BinOp.needsPub1, Bool.false_and, Bool.or_self, Bool.false_eq_true, binVal,
    Ty.modulus, Lab.join_pub_pub, dec32 n (by omega)]

/-- **the loop of `tinyjambu_permutation_192`**: for every round count below 2^32 it terminates with the counter at 0 and the four state
    words equal to `permN192` of the initial ones; memory is only read -/
theorem loop192_spec (prog : Program) (f : Nat → Nat) (hf : ∀ i, f (i + 1) = Fu (f i)) (nv k0 k1 k2 k3 k4 k5 bs : Nat) (blk : Block) :
    ∀ (r m : Nat) (env : Env) (st : St) (s : Nat × Nat × Nat × Nat), r < 4294967296 → InvT nv env (mkPtr bs blk.base) r s → KM192 st bs blk k0 k1 k2 k3 k4 k5 →
    ∃ env' leak', exec prog (f (m + r + 22)) loop192 env st = .ok .normal env' { st with leak := leak' } ∧
      InvT nv env' (mkPtr bs blk.base) 0 (permN192 k0 k1 k2 k3 k4 k5 r s) := by
  intro r
  induction r using Nat.strongRecOn with
  | ind r ih =>
    intro m env st s hr inv km
    match r, ih, hr, inv with
    | 0, _, _, inv =>
      refine ⟨env, Ev.br false :: st.leak, ?_, inv⟩
      rw [show m + 0 + 22 = (m + 19) + 3 from by omega]
      exact loop192_zero prog f hf (m + 19) nv env st _ _ _ _ _ inv
    | 1, _, _, inv => exact loop192_one prog f hf (m + 1) nv env st s k0 k1 k2 k3 k4 k5 bs blk inv km
    | 2, _, _, inv => exact loop192_two prog f hf (m + 2) nv env st s k0 k1 k2 k3 k4 k5 bs blk inv km
    | n + 3, ih, hr, inv =>
      obtain ⟨env1, l1, h1, i1⟩ := loop192_three prog f hf (m + n + 3) nv env st n s k0 k1 k2 k3 k4 k5 bs blk hr inv km
      obtain ⟨env2, l2, h2, i2⟩ := ih n (by omega) (m + 2) env1 { st with leak := l1 } _ (by omega) i1 (km.leak l1)
      refine ⟨env2, l2, ?_, ?_⟩
      · rw [show m + (n + 3) + 22 = m + n + 3 + 22 from by omega, h1, show m + n + 3 + 21 = m + 2 + n + 22 from by omega]
        exact h2
      · simpa [permN192] using i2


/-- the environment at function entry: state pointer, round count, 28 undefined locals -/
def env0x (ptr r : Nat) : Env := #[(ptr, .pub), (r, .pub), (0, .undef), (0, .undef), (0, .undef), (0, .undef), (0, .undef), (0, .undef),
  (0, .undef), (0, .undef), (0, .undef), (0, .undef), (0, .undef), (0, .undef), (0, .undef), (0, .undef), (0, .undef), (0, .undef),
  (0, .undef), (0, .undef), (0, .undef), (0, .undef), (0, .undef), (0, .undef), (0, .undef), (0, .undef), (0, .undef), (0, .undef), (0, .undef), (0, .undef)]

def envPrex (ptr r a b c d : Nat) : Env := #[(ptr, .pub), (r, .pub), (0, .undef), (0, .undef), (0, .undef), (0, .undef),
  (a, .sec), (a, .sec), (b, .sec), (b, .sec), (c, .sec), (c, .sec), (d, .sec), (d, .sec),
  (0, .undef), (0, .undef), (0, .undef), (0, .undef), (0, .undef), (0, .undef), (0, .undef),
  (0, .undef), (0, .undef), (0, .undef), (0, .undef), (0, .undef), (0, .undef), (0, .undef), (0, .undef), (0, .undef)]

/-- the four initial loads -/
theorem pre192 (prog : Program) (f : Nat → Nat) (hf : ∀ i, f (i + 1) = Fu (f i)) (m : Nat) (st : St) (r a b c d k0 k1 k2 k3 k4 k5 bs : Nat) (blk : Block)
    (km : KM192 st bs blk k0 k1 k2 k3 k4 k5) (rest : Stmt)
    (w0 : readLE blk.bytes 0 4 = some (a, .sec)) (w1 : readLE blk.bytes 4 4 = some (b, .sec))
    (w2 : readLE blk.bytes 8 4 = some (c, .sec)) (w3 : readLE blk.bytes 12 4 = some (d, .sec)) :
    ∃ env' leak', exec prog (f (m + 7))
        (.seq (seqs [.load 7 .u32 (.var 0), .assign 6 (.var 7)]) (.seq (seqs [.load 9 .u32 (.bin .add .u64 (.var 0) (.lit 4)), .assign 8 (.var 9)])
          (.seq (seqs [.load 11 .u32 (.bin .add .u64 (.var 0) (.lit 8)), .assign 10 (.var 11)])
            (.seq (seqs [.load 13 .u32 (.bin .add .u64 (.var 0) (.lit 12)), .assign 12 (.var 13)]) rest))))
        (env0x (mkPtr bs blk.base) r) st =
      exec prog (f (m + 3)) rest env' { st with leak := leak' } ∧ Inv 30 env' (mkPtr bs blk.base) r a b c d := by
  have hbk : blockBytes st.mem bs = blk.bytes := by simp [blockBytes, km.hb]
  have hlt := km.lt
  have hsz := km.sz
  have hal := km.al
  have r0 : resolve st.mem (mkPtr bs (blk.base)) 4 = .ok (bs, 0) := by simpa using resolve_mkPtr st.mem bs 0 4 blk km.hb (by omega) (by omega) (fun _ => by omega)
  have r4 : resolve st.mem (mkPtr bs (blk.base + 4)) 4 = .ok (bs, 4) := resolve_mkPtr st.mem bs 4 4 blk km.hb (by omega) (by omega) (fun _ => by omega)
  have r8 : resolve st.mem (mkPtr bs (blk.base + 8)) 4 = .ok (bs, 8) := resolve_mkPtr st.mem bs 8 4 blk km.hb (by omega) (by omega) (fun _ => by omega)
  have r12 : resolve st.mem (mkPtr bs (blk.base + 12)) 4 = .ok (bs, 12) := resolve_mkPtr st.mem bs 12 4 blk km.hb (by omega) (by omega) (fun _ => by omega)
  have p4 := ptr_off bs blk.base 4 km.bb (by omega)
  have p8 := ptr_off bs blk.base 8 km.bb (by omega)
  have p12 := ptr_off bs blk.base 12 km.bb (by omega)
  refine ⟨envPrex (mkPtr bs blk.base) r a b c d, Ev.rd (mkPtr bs (blk.base + 12)) 4 :: Ev.rd (mkPtr bs (blk.base + 8)) 4 :: Ev.rd (mkPtr bs (blk.base + 4)) 4 :: Ev.rd (mkPtr bs (blk.base)) 4 :: st.leak, ?_, ?_⟩
  · simp only [seqs, env0x, envPrex]
    rw [exec_seq' prog (hf (m + 6)), exec_seq' prog (hf (m + 5))]
    rw [exec_load_ok' prog (hf (m + 4)) 7 .u32 _ _ st (mkPtr bs (blk.base)) bs 0 4 (a, .sec) rfl (by ev) r0 (by rw [hbk]; exact w0)]
    ev
    rw [exec_assign' prog (hf (m + 4))]; ev
    rw [exec_seq' prog (hf (m + 5)), exec_seq' prog (hf (m + 4))]
    rw [exec_load_ok' prog (hf (m + 3)) 9 .u32 _ _ { st with leak := Ev.rd (mkPtr bs (blk.base)) 4 :: st.leak } (mkPtr bs (blk.base + 4)) bs 4 4 (b, .sec) rfl (by ev; simp only [p4]) r4 (by rw [hbk]; exact w1)]
    ev
    rw [exec_assign' prog (hf (m + 3))]; ev
    rw [exec_seq' prog (hf (m + 4)), exec_seq' prog (hf (m + 3))]
    rw [exec_load_ok' prog (hf (m + 2)) 11 .u32 _ _ { st with leak := Ev.rd (mkPtr bs (blk.base + 4)) 4 :: Ev.rd (mkPtr bs (blk.base)) 4 :: st.leak } (mkPtr bs (blk.base + 8)) bs 8 4 (c, .sec) rfl (by ev; simp only [p8]) r8 (by rw [hbk]; exact w2)]
    ev
    rw [exec_assign' prog (hf (m + 2))]; ev
    rw [exec_seq' prog (hf (m + 3)), exec_seq' prog (hf (m + 2))]
    rw [exec_load_ok' prog (hf (m + 1)) 13 .u32 _ _ { st with leak := Ev.rd (mkPtr bs (blk.base + 8)) 4 :: Ev.rd (mkPtr bs (blk.base + 4)) 4 :: Ev.rd (mkPtr bs (blk.base)) 4 :: st.leak } (mkPtr bs (blk.base + 12)) bs 12 4 (d, .sec) rfl (by ev; simp only [p12]) r12 (by rw [hbk]; exact w3)]
    ev
    rw [exec_assign' prog (hf (m + 1))]; ev
  · exact ⟨by simp [envPrex], by decide, by simp [envPrex], by simp [envPrex], by simp [envPrex], by simp [envPrex], by simp [envPrex], by simp [envPrex]⟩


theorem post192 (prog : Program) (f : Nat → Nat) (hf : ∀ i, f (i + 1) = Fu (f i)) (m : Nat) (env : Env) (st : St)
    (r a b c d bs : Nat) (blk : Block) (inv : Inv 30 env (mkPtr bs blk.base) r a b c d)
    (hb : st.mem[bs]? = some blk) (hal : blk.base % 4 = 0) (hlt : blk.base + 32 < ptrBase) (hbb : bs < 2 ^ 30) (hsz : 32 ≤ blk.bytes.size) :
    ∃ env' leak', exec prog (f (m + 5))
        (seqs [seqs [.assign 26 (.var 0), .store .u32 (.var 26) (.var 6)], seqs [.assign 27 (.bin .add .u64 (.var 0) (.lit 4)), .store .u32 (.var 27) (.var 8)],
          seqs [.assign 28 (.bin .add .u64 (.var 0) (.lit 8)), .store .u32 (.var 28) (.var 10)], seqs [.assign 29 (.bin .add .u64 (.var 0) (.lit 12)), .store .u32 (.var 29) (.var 12)]])
        env st = .ok .normal env' { st with leak := leak', mem := setBlock st.mem bs (bytesAfter blk.bytes a b c d) } := by
  have p4 := ptr_off bs blk.base 4 hbb (by omega)
  have p8 := ptr_off bs blk.base 8 hbb (by omega)
  have p12 := ptr_off bs blk.base 12 hbb (by omega)
  have hs := inv.size
  have e0 := inv.e0
  let W1 := writeLE blk.bytes 0 a .sec 4
  let W2 := writeLE W1 4 b .sec 4
  let W3 := writeLE W2 8 c .sec 4
  have z1 : W1.size = blk.bytes.size := size_writeLE _ _ _ _ _
  have z2 : W2.size = blk.bytes.size := by rw [size_writeLE]; exact z1
  have z3 : W3.size = blk.bytes.size := by rw [size_writeLE]; exact z2
  refine ⟨setVar (setVar (setVar (setVar env 26 (mkPtr bs (blk.base + 0), .pub)) 27 (mkPtr bs (blk.base + 4), .pub)) 28 (mkPtr bs (blk.base + 8), .pub)) 29 (mkPtr bs (blk.base + 12), .pub),
    Ev.wr (mkPtr bs (blk.base + 12)) 4 :: Ev.wr (mkPtr bs (blk.base + 8)) 4 :: Ev.wr (mkPtr bs (blk.base + 4)) 4 :: Ev.wr (mkPtr bs (blk.base + 0)) 4 :: st.leak, ?_⟩
  rw [show seqs [seqs [Stmt.assign 26 (.var 0), .store .u32 (.var 26) (.var 6)], seqs [.assign 27 (.bin .add .u64 (.var 0) (.lit 4)), .store .u32 (.var 27) (.var 8)],
          seqs [.assign 28 (.bin .add .u64 (.var 0) (.lit 8)), .store .u32 (.var 28) (.var 10)], seqs [.assign 29 (.bin .add .u64 (.var 0) (.lit 12)), .store .u32 (.var 29) (.var 12)]]
      = .seq (seqs [.assign 26 (.var 0), .store .u32 (.var 26) (.var 6)]) (.seq (seqs [.assign 27 (.bin .add .u64 (.var 0) (.lit 4)), .store .u32 (.var 27) (.var 8)])
          (.seq (seqs [.assign 28 (.bin .add .u64 (.var 0) (.lit 8)), .store .u32 (.var 28) (.var 10)]) (seqs [.assign 29 (.bin .add .u64 (.var 0) (.lit 12)), .store .u32 (.var 29) (.var 12)]))) from rfl]
  have n22 : ∀ j, ¬ 26 = j → (setVar env 26 (mkPtr bs (blk.base + 0), Lab.pub))[j]? = env[j]? := fun j h => get_set_ne _ _ _ _ h
  -- word 0
  rw [exec_seq' prog (hf (m + 4))]
  rw [exec_putWord prog (hf (m + 3)) (hf (m + 2)) env st 26 6 0 a bs blk (.var 0) (by omega) (by decide)
    (by simp only [evalE, e0, reduceCtorEq, if_false, Nat.add_zero]) inv.e6 hb (by omega) (by omega) (by omega)]
  simp only []
  -- word 1
  have hb1 : (setBlock st.mem bs W1)[bs]? = some { blk with bytes := W1 } := by rw [getElem?_setBlock st.mem bs _ blk hb]; simp
  rw [exec_seq' prog (hf (m + 3))]
  rw [exec_putWord prog (hf (m + 2)) (hf (m + 1)) _ { st with leak := Ev.wr (mkPtr bs (blk.base + 0)) 4 :: st.leak, mem := setBlock st.mem bs W1 }
    27 8 4 b bs { blk with bytes := W1 } (.bin .add .u64 (.var 0) (.lit 4)) (by rw [size_setVar]; omega) (by decide)
    (by simp only [evalE, get_set_ne _ _ _ _ (by decide : ¬ 26 = 0), e0, reduceCtorEq, if_false, BinOp.needsPub2, BinOp.needsPub1, Bool.false_and, Bool.or_self, Bool.false_eq_true, binVal, Ty.modulus, Lab.join_pub_pub, p4])
    (by rw [get_set_ne _ _ _ _ (by decide : ¬ 26 = 8)]; exact inv.e8) hb1 (by simp only []; omega) (by simp only []; omega) (by simp only [z1]; omega)]
  simp only [setBlock_setBlock st.mem bs _ _ blk hb]
  -- word 2
  have hb2 : (setBlock st.mem bs W2)[bs]? = some { blk with bytes := W2 } := by rw [getElem?_setBlock st.mem bs _ blk hb]; simp
  rw [exec_seq' prog (hf (m + 2))]
  rw [exec_putWord prog (hf (m + 1)) (hf m) _ { st with leak := Ev.wr (mkPtr bs (blk.base + 4)) 4 :: Ev.wr (mkPtr bs (blk.base + 0)) 4 :: st.leak, mem := setBlock st.mem bs W2 }
    28 10 8 c bs { blk with bytes := W2 } (.bin .add .u64 (.var 0) (.lit 8)) (by simp only [size_setVar]; omega) (by decide)
    (by simp only [evalE, get_set_ne _ _ _ _ (by decide : ¬ 26 = 0), get_set_ne _ _ _ _ (by decide : ¬ 27 = 0), e0, reduceCtorEq, if_false, BinOp.needsPub2, BinOp.needsPub1, Bool.false_and, Bool.or_self, Bool.false_eq_true, binVal, Ty.modulus, Lab.join_pub_pub, p8])
    (by rw [get_set_ne _ _ _ _ (by decide : ¬ 27 = 10), get_set_ne _ _ _ _ (by decide : ¬ 26 = 10)]; exact inv.e10) hb2 (by simp only []; omega) (by simp only []; omega) (by simp only [z2]; omega)]
  simp only [setBlock_setBlock st.mem bs _ _ blk hb]
  -- word 3
  have hb3 : (setBlock st.mem bs W3)[bs]? = some { blk with bytes := W3 } := by rw [getElem?_setBlock st.mem bs _ blk hb]; simp
  rw [exec_putWord prog (hf (m + 1)) (hf m) _ { st with leak := Ev.wr (mkPtr bs (blk.base + 8)) 4 :: Ev.wr (mkPtr bs (blk.base + 4)) 4 :: Ev.wr (mkPtr bs (blk.base + 0)) 4 :: st.leak, mem := setBlock st.mem bs W3 }
    29 12 12 d bs { blk with bytes := W3 } (.bin .add .u64 (.var 0) (.lit 12)) (by simp only [size_setVar]; omega) (by decide)
    (by simp only [evalE, get_set_ne _ _ _ _ (by decide : ¬ 26 = 0), get_set_ne _ _ _ _ (by decide : ¬ 27 = 0), get_set_ne _ _ _ _ (by decide : ¬ 28 = 0), e0, reduceCtorEq, if_false, BinOp.needsPub2, BinOp.needsPub1, Bool.false_and, Bool.or_self, Bool.false_eq_true, binVal, Ty.modulus, Lab.join_pub_pub, p12])
    (by rw [get_set_ne _ _ _ _ (by decide : ¬ 28 = 12), get_set_ne _ _ _ _ (by decide : ¬ 27 = 12), get_set_ne _ _ _ _ (by decide : ¬ 26 = 12)]; exact inv.e12) hb3 (by simp only []; omega) (by simp only []; omega) (by simp only [z3]; omega)]
  simp only [setBlock_setBlock st.mem bs _ _ blk hb]
  rfl


/-- **the regenerated `tinyjambu_permutation_192`, whole body** -/
theorem perm192_body (prog : Program) (f : Nat → Nat) (hf : ∀ i, f (i + 1) = Fu (f i)) (m : Nat) (st : St)
    (r a b c d k0 k1 k2 k3 k4 k5 bs : Nat) (blk : Block) (hr : r < 4294967296) (km : KM192 st bs blk k0 k1 k2 k3 k4 k5)
    (w0 : readLE blk.bytes 0 4 = some (a, .sec)) (w1 : readLE blk.bytes 4 4 = some (b, .sec))
    (w2 : readLE blk.bytes 8 4 = some (c, .sec)) (w3 : readLE blk.bytes 12 4 = some (d, .sec)) :
    ∃ env' leak', exec prog (f (m + r + 27)) body192 (env0x (mkPtr bs blk.base) r) st =
      .ok .normal env' { st with leak := leak', mem := (setBlock st.mem bs
        (bytesAfter blk.bytes (permN192 k0 k1 k2 k3 k4 k5 r (a, b, c, d)).1 (permN192 k0 k1 k2 k3 k4 k5 r (a, b, c, d)).2.1 (permN192 k0 k1 k2 k3 k4 k5 r (a, b, c, d)).2.2.1 (permN192 k0 k1 k2 k3 k4 k5 r (a, b, c, d)).2.2.2)) } := by
  unfold body192
  obtain ⟨env1, leak1, h1, inv1⟩ := pre192 prog f hf (m + r + 20) st r a b c d k0 k1 k2 k3 k4 k5 bs blk km
    (seqs [loop192, seqs [.assign 26 (.var 0), .store .u32 (.var 26) (.var 6)], seqs [.assign 27 (.bin .add .u64 (.var 0) (.lit 4)), .store .u32 (.var 27) (.var 8)],
      seqs [.assign 28 (.bin .add .u64 (.var 0) (.lit 8)), .store .u32 (.var 28) (.var 10)], seqs [.assign 29 (.bin .add .u64 (.var 0) (.lit 12)), .store .u32 (.var 29) (.var 12)]]) w0 w1 w2 w3
  have km1 : KM192 { st with leak := leak1 } bs blk k0 k1 k2 k3 k4 k5 := km.leak leak1
  obtain ⟨env2, leak2, h2, inv2⟩ := loop192_spec prog f hf 30 k0 k1 k2 k3 k4 k5 bs blk r m env1 { st with leak := leak1 } (a, b, c, d) hr inv1 km1
  obtain ⟨env3, leak3, h3⟩ := post192 prog f hf (m + r + 17) env2 { st with leak := leak2 } 0 _ _ _ _ bs blk inv2 km.hb km.al (by have := km.lt; have := km.sz; omega) km.bb (by have := km.sz; omega)
  refine ⟨env3, leak3, ?_⟩
  rw [show m + r + 27 = m + r + 20 + 7 from by omega]
  refine Eq.trans h1 ?_
  rw [show seqs [loop192, seqs [Stmt.assign 26 (.var 0), .store .u32 (.var 26) (.var 6)], seqs [.assign 27 (.bin .add .u64 (.var 0) (.lit 4)), .store .u32 (.var 27) (.var 8)],
      seqs [.assign 28 (.bin .add .u64 (.var 0) (.lit 8)), .store .u32 (.var 28) (.var 10)], seqs [.assign 29 (.bin .add .u64 (.var 0) (.lit 12)), .store .u32 (.var 29) (.var 12)]]
     = .seq loop192 (seqs [seqs [.assign 26 (.var 0), .store .u32 (.var 26) (.var 6)], seqs [.assign 27 (.bin .add .u64 (.var 0) (.lit 4)), .store .u32 (.var 27) (.var 8)],
      seqs [.assign 28 (.bin .add .u64 (.var 0) (.lit 8)), .store .u32 (.var 28) (.var 10)], seqs [.assign 29 (.bin .add .u64 (.var 0) (.lit 12)), .store .u32 (.var 29) (.var 12)]]) from rfl]
  rw [show m + r + 20 + 3 = (m + r + 22) + 1 from by omega, exec_seq' prog (hf (m + r + 22)), h2]
  simp only []
  rw [show m + r + 22 = m + r + 17 + 5 from by omega]
  exact h3

theorem R_toN (s : W4) (k0 k1 k2 k3 : UInt32) : R (toN s) k0.toNat k1.toNat k2.toNat k3.toNat = toN (round128 s k0 k1 k2 k3) :=
  roundN_eq s k0 k1 k2 k3

/-- the natural-number permutation the regenerated C term computes is the word-level model `perm192` -/
theorem permN192_eq (k : Key) : ∀ (r : Nat) (s : W4),
    permN192 (kw k 0).toNat (kw k 1).toNat (kw k 2).toNat (kw k 3).toNat (kw k 4).toNat (kw k 5).toNat r (toN s) = toN (perm192 k r s)
  | 0, s => rfl
  | 1, s => by rw [permN192, perm192, R_toN]
  | 2, s => by rw [permN192, perm192, R_toN, R_toN]
  | n + 3, s => by
    rw [permN192, perm192, R_toN, R_toN, R_toN]
    exact permN192_eq k n _

theorem enter192 (p r : Nat) (mem : Array Block) :
    enterFun f_tinyjambu_permutation_192 [(p, .pub), (r, .pub)] mem = (env0x p r, mem) := rfl

/-- **`tinyjambu_permutation_192(state, rounds)` as a call** -/
theorem perm192_call (prog : Program) (fn : Nat) (hprog : prog[fn]? = some f_tinyjambu_permutation_192)
    (f : Nat → Nat) (hf : ∀ i, f (i + 1) = Fu (f i)) (m : Nat) (env : Env) (st : St) (ep er : Expr)
    (r a b c d k0 k1 k2 k3 k4 k5 bs : Nat) (blk : Block) (hr : r < 4294967296) (km : KM192 st bs blk k0 k1 k2 k3 k4 k5)
    (hep : evalE env ep = .ok (mkPtr bs blk.base, .pub)) (her : evalE env er = .ok (r, .pub))
    (w0 : readLE blk.bytes 0 4 = some (a, .sec)) (w1 : readLE blk.bytes 4 4 = some (b, .sec))
    (w2 : readLE blk.bytes 8 4 = some (c, .sec)) (w3 : readLE blk.bytes 12 4 = some (d, .sec)) :
    ∃ leak', exec prog (f (m + r + 28)) (.call none fn [ep, er]) env st =
      .ok .normal env { st with leak := leak', mem := (setBlock st.mem bs
        (bytesAfter blk.bytes (permN192 k0 k1 k2 k3 k4 k5 r (a, b, c, d)).1 (permN192 k0 k1 k2 k3 k4 k5 r (a, b, c, d)).2.1 (permN192 k0 k1 k2 k3 k4 k5 r (a, b, c, d)).2.2.1 (permN192 k0 k1 k2 k3 k4 k5 r (a, b, c, d)).2.2.2)) } := by
  obtain ⟨env', leak', h⟩ := perm192_body prog f hf m st r a b c d k0 k1 k2 k3 k4 k5 bs blk hr km w0 w1 w2 w3
  refine ⟨leak', ?_⟩
  rw [exec_call' prog (hf (m + r + 27))]
  simp only [evalArgs, hep, her, hprog, enter192, List.length_cons, List.length_nil, body192_eq,
    show f_tinyjambu_permutation_192.nparams = 2 from rfl, ne_eq, not_true_eq_false, if_false]
  rw [show ({ mem := st.mem, ent := st.ent, leak := st.leak } : St) = st from rfl, h]
  simp only [leaveFun, assignDst, extract_setBlock]

end TJ.MiniC.PermC
