/-
  TJ.Proofs.MiniCKernels — symbolic execution lemmas for the MiniC semantics and theorems about
  individual REGENERATED functions (TJ.Gen.MiniC.Prog): the wipe primitive and the free functions.
  These are statements about the terms tools/c2lean.py produced from the current C sources; when the
  sources change so that a statement no longer holds, this file stops compiling (the tie is broken).
-/
import TJ.MiniC.NI
import TJ.Gen.MiniC.Prog
namespace TJ.MiniC
open TJ.Gen.MiniC

/-! ### one-step unfolding of `exec`, one lemma per statement form.
  Symbolic execution rewrites with these (never with `exec` itself).  The fuel is kept as
  nested applications of `Fu`: simp does not renormalise it, and no step relies on `n + 7 ≡ (n + 6) + 1` up to definitional
  unfolding (checking that, the kernel unfolds `exec` on both sides and evaluates it — minutes, then `deep recursion`). -/

/-- one more unit of fuel; a separate constant so that `simp` never renormalises fuel expressions -/
def Fu (n : Nat) : Nat := n + 1

theorem exec_skip (prog : Program) (fuel : Nat) (env : Env) (st : St) :
    exec prog (Fu fuel) .skip env st = .ok .normal env st := by unfold Fu; rw [exec]; try rfl
theorem exec_brk (prog : Program) (fuel : Nat) (env : Env) (st : St) :
    exec prog (Fu fuel) .brk env st = .ok .brk env st := by unfold Fu; rw [exec]; try rfl
theorem exec_assign (prog : Program) (fuel : Nat) (x : Nat) (e : Expr) (env : Env) (st : St) :
    exec prog (Fu fuel) (.assign x e) env st =
      match evalE env e with
      | .error k => .fault k st.leak
      | .ok v => .ok .normal (setVar env x v) st := by unfold Fu; rw [exec]; try rfl
theorem exec_seq (prog : Program) (fuel : Nat) (a b : Stmt) (env : Env) (st : St) :
    exec prog (Fu fuel) (.seq a b) env st =
      match exec prog fuel a env st with
      | .ok .normal env1 st1 => exec prog fuel b env1 st1
      | r => r := by unfold Fu; rw [exec]; try rfl
theorem exec_loop (prog : Program) (fuel : Nat) (body : Stmt) (env : Env) (st : St) :
    exec prog (Fu fuel) (.loop body) env st =
      match exec prog fuel body env st with
      | .ok .normal env1 st1 => exec prog fuel (.loop body) env1 st1
      | .ok .brk env1 st1 => .ok .normal env1 st1
      | r => r := by unfold Fu; rw [exec]; try rfl
theorem exec_ite (prog : Program) (fuel : Nat) (c : Expr) (a b : Stmt) (env : Env) (st : St) :
    exec prog (Fu fuel) (.ite c a b) env st =
      match evalE env c with
      | .error k => .fault k st.leak
      | .ok (v, l) =>
        if l ≠ .pub then .fault .taint st.leak else
        if v != 0 then exec prog fuel a env { st with leak := .br (v != 0) :: st.leak }
        else exec prog fuel b env { st with leak := .br (v != 0) :: st.leak } := by unfold Fu; rw [exec]; try rfl
theorem exec_ret_some (prog : Program) (fuel : Nat) (e : Expr) (env : Env) (st : St) :
    exec prog (Fu fuel) (.ret (some e)) env st =
      match evalE env e with
      | .error k => .fault k st.leak
      | .ok v => .ok (.ret (some v)) env st := by unfold Fu; rw [exec]; try rfl
theorem exec_load (prog : Program) (fuel : Nat) (x : Nat) (t : Ty) (addr : Expr) (env : Env) (st : St) :
    exec prog (Fu fuel) (.load x t addr) env st =
      match evalE env addr with
      | .error k => .fault k st.leak
      | .ok (p, lp) =>
        if lp ≠ .pub then .fault .taint st.leak else
        match resolve st.mem p t.bytes with
        | .error k => .fault k (.rd p t.bytes :: st.leak)
        | .ok (b, off) =>
          match readLE (blockBytes st.mem b) off t.bytes with
          | none => .fault .uninit (.rd p t.bytes :: st.leak)
          | some v => .ok .normal (setVar env x v) { st with leak := .rd p t.bytes :: st.leak } := by unfold Fu; rw [exec]; try rfl
theorem exec_store (prog : Program) (fuel : Nat) (t : Ty) (addr e : Expr) (env : Env) (st : St) :
    exec prog (Fu fuel) (.store t addr e) env st =
      match evalE env addr with
      | .error k => .fault k st.leak
      | .ok (p, lp) =>
        if lp ≠ .pub then .fault .taint st.leak else
        match evalE env e with
        | .error k => .fault k st.leak
        | .ok (v, lv) =>
          match resolve st.mem p t.bytes with
          | .error k => .fault k (.wr p t.bytes :: st.leak)
          | .ok (b, off) =>
            .ok .normal env { st with leak := .wr p t.bytes :: st.leak,
                                       mem := setBlock st.mem b (writeLE (blockBytes st.mem b) off v lv t.bytes) } := by unfold Fu; rw [exec]; try rfl

/-! the same, opening one named fuel level (`fuel = Fu f'`) at the rewritten occurrence only: every other `exec` in the goal keeps a
  variable as fuel and so cannot be evaluated by the kernel when it compares terms up to definitional equality. -/

theorem exec_skip' (prog : Program) {fuel f' : Nat} (hf : fuel = Fu f') (env : Env) (st : St) :
    exec prog fuel .skip env st = .ok .normal env st := by subst hf; exact exec_skip prog f' env st
theorem exec_brk' (prog : Program) {fuel f' : Nat} (hf : fuel = Fu f') (env : Env) (st : St) :
    exec prog fuel .brk env st = .ok .brk env st := by subst hf; exact exec_brk prog f' env st
theorem exec_assign' (prog : Program) {fuel f' : Nat} (hf : fuel = Fu f') (x : Nat) (e : Expr) (env : Env) (st : St) :
    exec prog fuel (.assign x e) env st =
      match evalE env e with
      | .error k => .fault k st.leak
      | .ok v => .ok .normal (setVar env x v) st := by subst hf; exact exec_assign prog f' x e env st
theorem exec_seq' (prog : Program) {fuel f' : Nat} (hf : fuel = Fu f') (a b : Stmt) (env : Env) (st : St) :
    exec prog fuel (.seq a b) env st =
      match exec prog f' a env st with
      | .ok .normal env1 st1 => exec prog f' b env1 st1
      | r => r := by subst hf; exact exec_seq prog f' a b env st
theorem exec_loop' (prog : Program) {fuel f' : Nat} (hf : fuel = Fu f') (body : Stmt) (env : Env) (st : St) :
    exec prog fuel (.loop body) env st =
      match exec prog f' body env st with
      | .ok .normal env1 st1 => exec prog f' (.loop body) env1 st1
      | .ok .brk env1 st1 => .ok .normal env1 st1
      | r => r := by subst hf; exact exec_loop prog f' body env st
theorem exec_ite' (prog : Program) {fuel f' : Nat} (hf : fuel = Fu f') (c : Expr) (a b : Stmt) (env : Env) (st : St) :
    exec prog fuel (.ite c a b) env st =
      match evalE env c with
      | .error k => .fault k st.leak
      | .ok (v, l) =>
        if l ≠ .pub then .fault .taint st.leak else
        if v != 0 then exec prog f' a env { st with leak := .br (v != 0) :: st.leak }
        else exec prog f' b env { st with leak := .br (v != 0) :: st.leak } := by subst hf; exact exec_ite prog f' c a b env st
theorem exec_ret_some' (prog : Program) {fuel f' : Nat} (hf : fuel = Fu f') (e : Expr) (env : Env) (st : St) :
    exec prog fuel (.ret (some e)) env st =
      match evalE env e with
      | .error k => .fault k st.leak
      | .ok v => .ok (.ret (some v)) env st := by subst hf; exact exec_ret_some prog f' e env st
theorem exec_load' (prog : Program) {fuel f' : Nat} (hf : fuel = Fu f') (x : Nat) (t : Ty) (addr : Expr) (env : Env) (st : St) :
    exec prog fuel (.load x t addr) env st =
      match evalE env addr with
      | .error k => .fault k st.leak
      | .ok (p, lp) =>
        if lp ≠ .pub then .fault .taint st.leak else
        match resolve st.mem p t.bytes with
        | .error k => .fault k (.rd p t.bytes :: st.leak)
        | .ok (b, off) =>
          match readLE (blockBytes st.mem b) off t.bytes with
          | none => .fault .uninit (.rd p t.bytes :: st.leak)
          | some v => .ok .normal (setVar env x v) { st with leak := .rd p t.bytes :: st.leak } := by subst hf; exact exec_load prog f' x t addr env st
theorem exec_store' (prog : Program) {fuel f' : Nat} (hf : fuel = Fu f') (t : Ty) (addr e : Expr) (env : Env) (st : St) :
    exec prog fuel (.store t addr e) env st =
      match evalE env addr with
      | .error k => .fault k st.leak
      | .ok (p, lp) =>
        if lp ≠ .pub then .fault .taint st.leak else
        match evalE env e with
        | .error k => .fault k st.leak
        | .ok (v, lv) =>
          match resolve st.mem p t.bytes with
          | .error k => .fault k (.wr p t.bytes :: st.leak)
          | .ok (b, off) =>
            .ok .normal env { st with leak := .wr p t.bytes :: st.leak,
                                       mem := setBlock st.mem b (writeLE (blockBytes st.mem b) off v lv t.bytes) } := by subst hf; exact exec_store prog f' t addr e env st

/-- a store whose address, value and target are known: the goal never contains `resolve` applied to a symbolic pointer
    (the kernel unfolds the well-founded `Nat.div`/`Nat.mod` inside it when it has to compare such terms) -/
theorem exec_store_ok' (prog : Program) {fuel f' : Nat} (hf : fuel = Fu f') (t : Ty) (addr e : Expr) (env : Env) (st : St)
    (p v b off n : Nat) (lv : Lab) (bytes : Array LByte) (hn : t.bytes = n)
    (ha : evalE env addr = .ok (p, .pub)) (hv : evalE env e = .ok (v, lv))
    (hr : resolve st.mem p n = .ok (b, off)) (hw : writeLE (blockBytes st.mem b) off v lv n = bytes) :
    exec prog fuel (.store t addr e) env st =
      .ok .normal env { st with leak := .wr p n :: st.leak, mem := setBlock st.mem b bytes } := by
  rw [exec_store' prog hf, ha]
  simp only [ne_eq, not_true_eq_false, if_false, hv, hn, hr, hw]

theorem exec_load_ok' (prog : Program) {fuel f' : Nat} (hf : fuel = Fu f') (x : Nat) (t : Ty) (addr : Expr) (env : Env) (st : St)
    (p b off n : Nat) (v : LVal) (hn : t.bytes = n)
    (ha : evalE env addr = .ok (p, .pub)) (hr : resolve st.mem p n = .ok (b, off))
    (hrd : readLE (blockBytes st.mem b) off n = some v) :
    exec prog fuel (.load x t addr) env st =
      .ok .normal (setVar env x v) { st with leak := .rd p n :: st.leak } := by
  rw [exec_load' prog hf, ha]
  simp only [ne_eq, not_true_eq_false, if_false, hn, hr, hrd]

/-! ### memory helpers -/

theorem size_writeBytes (bs : Array LByte) (off : Nat) (xs : List LByte) : (writeBytes bs off xs).size = bs.size := by
  induction xs generalizing bs off with
  | nil => rfl
  | cons x xs ih => simp [writeBytes, ih]

theorem getElem?_writeBytes (bs : Array LByte) (off : Nat) (xs : List LByte) (i : Nat) :
    (writeBytes bs off xs)[i]? =
      if off ≤ i ∧ i < off + xs.length ∧ i < bs.size then xs[i - off]? else bs[i]? := by
  induction xs generalizing bs off with
  | nil =>
    simp only [writeBytes, List.length_nil, Nat.add_zero]
    have : ¬ (off ≤ i ∧ i < off ∧ i < bs.size) := by omega
    simp only [this, if_false]
  | cons x xs ih =>
    simp only [writeBytes, ih, Array.size_setIfInBounds, Array.getElem?_setIfInBounds, List.length_cons]
    by_cases h1 : off = i
    · subst h1
      have hn : ¬ (off + 1 ≤ off ∧ off < off + 1 + xs.length ∧ off < bs.size) := by omega
      simp only [hn, if_false, if_true]
      by_cases h2 : off < bs.size
      · have : off ≤ off ∧ off < off + (xs.length + 1) ∧ off < bs.size := by omega
        simp [h2, this]
      · have : ¬ (off ≤ off ∧ off < off + (xs.length + 1) ∧ off < bs.size) := by omega
        simp [h2]
    · by_cases h3 : off + 1 ≤ i ∧ i < off + 1 + xs.length ∧ i < bs.size
      · have : off ≤ i ∧ i < off + (xs.length + 1) ∧ i < bs.size := by omega
        simp only [h3, this, and_self, if_true]
        have : i - off = (i - (off + 1)) + 1 := by omega
        rw [this, List.getElem?_cons_succ]
      · have : ¬ (off ≤ i ∧ i < off + (xs.length + 1) ∧ i < bs.size) := by omega
        simp [h3, this, h1]

theorem extract_self {α} (a : Array α) : a.extract 0 a.size = a := by simp

theorem size_setBlock (mem : Array Block) (b : Nat) (bytes : Array LByte) : (setBlock mem b bytes).size = mem.size := by
  unfold setBlock; split <;> simp

theorem getElem?_setBlock (mem : Array Block) (b : Nat) (bytes : Array LByte) (blk : Block) (h : mem[b]? = some blk) (j : Nat) :
    (setBlock mem b bytes)[j]? = if j = b then some { blk with bytes := bytes } else mem[j]? := by
  unfold setBlock
  rw [h]
  simp only [Array.getElem?_setIfInBounds]
  have hb : b < mem.size := by
    rcases Nat.lt_or_ge b mem.size with hlt | hge
    · exact hlt
    · rw [Array.getElem?_eq_none hge] at h; cases h
  by_cases hj : b = j
  · subst hj; simp [hb]
  · have : ¬ j = b := fun e => hj e.symm
    simp [hj, this]


theorem setBlock_self (mem : Array Block) (b : Nat) (blk : Block) (h : mem[b]? = some blk) : setBlock mem b blk.bytes = mem := by
  apply Array.ext_getElem?
  intro j
  rw [getElem?_setBlock mem b _ blk h j]
  by_cases hj : j = b
  · subst hj; simp [h]
  · simp [hj]

theorem setBlock_setBlock (mem : Array Block) (b : Nat) (x y : Array LByte) (blk : Block) (h : mem[b]? = some blk) :
    setBlock (setBlock mem b x) b y = setBlock mem b y := by
  have h1 : (setBlock mem b x)[b]? = some { blk with bytes := x } := by rw [getElem?_setBlock mem b _ blk h b]; simp
  apply Array.ext_getElem?
  intro j
  rw [getElem?_setBlock _ b _ _ h1 j, getElem?_setBlock mem b _ blk h j, getElem?_setBlock mem b _ blk h j]
  by_cases hj : j = b <;> simp [hj]

/-! ### the wipe primitive `tinyjambu_clean` (configuration with explicit_bzero) -/

theorem prog_clean : prog[idx_tinyjambu_clean]? = some f_tinyjambu_clean := rfl

theorem extract_setBlock (mem : Array Block) (b : Nat) (bytes : Array LByte) :
    (setBlock mem b bytes).extract 0 mem.size = setBlock mem b bytes := by
  have := extract_self (setBlock mem b bytes)
  rwa [size_setBlock] at this

/-- `tinyjambu_clean(p, n)` on the regenerated program: zero bytes written to exactly `[p, p+n)` -/
theorem exec_call_clean (fuel : Nat) (env : Env) (st : St) (ep en : Expr) (p n b off : Nat)
    (hp : evalE env ep = .ok (p, .pub)) (hn : evalE env en = .ok (n, .pub)) (hn32 : n < 4294967296) (hn0 : n ≠ 0)
    (hr : resolve st.mem p 1 = .ok (b, off)) (hsz : off + n ≤ (blockBytes st.mem b).size) :
    exec prog (fuel + 2) (.call none idx_tinyjambu_clean [ep, en]) env st =
      .ok .normal env { st with leak := .set p n :: st.leak,
                                 mem := setBlock st.mem b (writeBytes (blockBytes st.mem b) off (List.replicate n (0, .pub))) } := by
  have hcast : castVal .u64 .u32 n = n := by
    simp only [castVal, Ty.signed, Ty.modulus]
    exact Nat.mod_eq_of_lt (by omega)
  have hnle : ¬ off + n > (blockBytes st.mem b).size := by omega
  simp [exec, evalArgs, hp, hn, prog_clean, f_tinyjambu_clean, enterFun, allocLocals, evalE, leaveFun, assignDst,
    hcast, hr, hn0, hnle, extract_setBlock]


/-! ### pointers -/

theorem mkPtr_succ (b off : Nat) : mkPtr b off + 1 = mkPtr b (off + 1) := by unfold mkPtr; omega

theorem mkPtr_lt (b off : Nat) (hb : b < 2 ^ 30) (ho : off < ptrBase) : mkPtr b off < 18446744073709551616 := by
  unfold mkPtr ptrBase at *; omega



theorem resolve_mkPtr (mem : Array Block) (b i size : Nat) (blk : Block) (hb : mem[b]? = some blk)
    (hin : i + size ≤ blk.bytes.size) (hlt : blk.base + i < ptrBase) (hal : size > 1 → (blk.base + i) % size = 0) :
    resolve mem (mkPtr b (blk.base + i)) size = .ok (b, i) := by
  have hdiv : mkPtr b (blk.base + i) / ptrBase = b + 1 := by
    unfold mkPtr
    rw [Nat.add_comm, Nat.add_mul_div_right _ _ (by decide : 0 < ptrBase), Nat.div_eq_of_lt hlt]; omega
  have hmod : mkPtr b (blk.base + i) % ptrBase = blk.base + i := by
    unfold mkPtr
    rw [Nat.add_comm, Nat.add_mul_mod_self_right, Nat.mod_eq_of_lt hlt]
  simp only [resolve, hdiv, hmod, Nat.add_sub_cancel, hb]
  have h1 : ¬ (blk.base + i < blk.base ∨ i + size > blk.bytes.size) := by omega
  have h2 : ¬ (size > 1 ∧ (blk.base + i) % size ≠ 0) := fun h => h.2 (hal h.1)
  simp only [Nat.succ_ne_zero, if_false, h1, h2, Nat.add_sub_cancel_left]

theorem writeBytes_full (bs : Array LByte) (x : LByte) : writeBytes bs 0 (List.replicate bs.size x) = Array.replicate bs.size x := by
  apply Array.ext_getElem?
  intro i
  rw [getElem?_writeBytes, Array.getElem?_replicate]
  by_cases h : i < bs.size
  · simp [h]
  · simp [h]

/-! ### the free functions: every byte of the state object is zero afterwards, nothing else changes -/

/-- wiping a whole object -/
theorem exec_call_clean_full (fuel : Nat) (env : Env) (st : St) (ep en : Expr) (n b : Nat) (blk : Block)
    (hb : st.mem[b]? = some blk) (hbase : blk.base = 0) (hsz : blk.bytes.size = n)
    (hp : evalE env ep = .ok (mkPtr b 0, .pub)) (hn : evalE env en = .ok (n, .pub)) (hn32 : n < 4294967296) (hn0 : n ≠ 0) :
    exec prog (fuel + 2) (.call none idx_tinyjambu_clean [ep, en]) env st =
      .ok .normal env { st with leak := .set (mkPtr b 0) n :: st.leak, mem := setBlock st.mem b (Array.replicate n (0, .pub)) } := by
  have hr : resolve st.mem (mkPtr b 0) 1 = .ok (b, 0) := by
    have := resolve_mkPtr st.mem b 0 1 blk hb (by omega) (by rw [hbase]; decide) (by omega)
    rwa [hbase] at this
  have hbb : blockBytes st.mem b = blk.bytes := by simp [blockBytes, hb]
  rw [exec_call_clean fuel env st ep en (mkPtr b 0) n b 0 hp hn hn32 hn0 hr (by rw [hbb, hsz]; omega)]
  rw [hbb, ← hsz, writeBytes_full]

theorem prog_prng_free : prog[idx_tinyjambu_prng_free]? = some f_tinyjambu_prng_free := rfl
theorem prog_hkdf_free : prog[idx_tinyjambu_hkdf_free]? = some f_tinyjambu_hkdf_free := rfl
theorem prog_hash_free : prog[idx_tinyjambu_hash_free]? = some f_tinyjambu_hash_free := rfl
theorem prog_hmac_free : prog[idx_tinyjambu_hmac_free]? = some f_tinyjambu_hmac_free := rfl

/-- the state after wiping object `b` of `n` bytes -/
def wiped (st : St) (b n : Nat) (extra : List Ev) : St :=
  { st with leak := extra ++ st.leak, mem := setBlock st.mem b (Array.replicate n (0, Lab.pub)) }

theorem mkPtr_ne_zero (b off : Nat) : (mkPtr b off != 0) = true := by
  have : mkPtr b off ≠ 0 := by unfold mkPtr ptrBase; omega
  simpa using this

/-- `tinyjambu_prng_free` / `tinyjambu_hkdf_free`: a direct call of the wipe primitive with the public object size -/
theorem prng_free_zeroes (fuel : Nat) (st : St) (b : Nat) (blk : Block) (hb : st.mem[b]? = some blk)
    (hbase : blk.base = 0) (hsz : blk.bytes.size = 96) :
    callFun prog (fuel + 3) idx_tinyjambu_prng_free false [(mkPtr b 0, .pub)] st =
      .ok .normal #[(0, .pub), (mkPtr b 0, .pub)] (wiped st b 96 [.set (mkPtr b 0) 96]) := by
  have hc := exec_call_clean_full fuel #[(mkPtr b 0, Lab.pub)] st (.var 0) (.lit 96) 96 b blk hb hbase hsz
    (by simp [evalE]) (by simp [evalE]) (by omega) (by omega)
  simp only [idx_tinyjambu_clean] at hc
  unfold callFun
  rw [show fuel + 3 = (fuel + 2) + 1 from rfl, exec]
  simp only [evalArgs, evalE, List.range, List.range.loop, List.map, List.length_cons, List.length_nil,
    prog_prng_free, f_tinyjambu_prng_free, enterFun, allocLocals, Bool.false_eq_true, if_false]
  simp only [Nat.zero_add, List.getElem?_toArray, List.getElem?_cons_succ, List.getElem?_cons_zero, reduceCtorEq, if_false,
    List.length_cons, List.length_nil, ne_eq, not_true_eq_false, Nat.sub_self, List.replicate_zero, List.append_nil]
  rw [hc]
  simp only [leaveFun, assignDst, extract_setBlock, wiped, List.cons_append, List.nil_append]

theorem hkdf_free_zeroes (fuel : Nat) (st : St) (b : Nat) (blk : Block) (hb : st.mem[b]? = some blk)
    (hbase : blk.base = 0) (hsz : blk.bytes.size = 72) :
    callFun prog (fuel + 3) idx_tinyjambu_hkdf_free false [(mkPtr b 0, .pub)] st =
      .ok .normal #[(0, .pub), (mkPtr b 0, .pub)] (wiped st b 72 [.set (mkPtr b 0) 72]) := by
  have hc := exec_call_clean_full fuel #[(mkPtr b 0, Lab.pub)] st (.var 0) (.lit 72) 72 b blk hb hbase hsz
    (by simp [evalE]) (by simp [evalE]) (by omega) (by omega)
  simp only [idx_tinyjambu_clean] at hc
  unfold callFun
  rw [show fuel + 3 = (fuel + 2) + 1 from rfl, exec]
  simp only [evalArgs, evalE, List.range, List.range.loop, List.map, List.length_cons, List.length_nil,
    prog_hkdf_free, f_tinyjambu_hkdf_free, enterFun, allocLocals, Bool.false_eq_true, if_false]
  simp only [Nat.zero_add, List.getElem?_toArray, List.getElem?_cons_succ, List.getElem?_cons_zero, reduceCtorEq, if_false,
    List.length_cons, List.length_nil, ne_eq, not_true_eq_false, Nat.sub_self, List.replicate_zero, List.append_nil]
  rw [hc]
  simp only [leaveFun, assignDst, extract_setBlock, wiped, List.cons_append, List.nil_append]

/-- the body of `tinyjambu_hash_free` executed with the state pointer in variable 0 -/
theorem exec_hash_free_body (fuel : Nat) (st : St) (b : Nat) (blk : Block) (hb : st.mem[b]? = some blk)
    (hbase : blk.base = 0) (hsz : blk.bytes.size = 56) :
    exec prog (fuel + 3) f_tinyjambu_hash_free.body #[(mkPtr b 0, Lab.pub)] st =
      .ok .normal #[(mkPtr b 0, .pub)] (wiped st b 56 [.set (mkPtr b 0) 56, .br true]) := by
  have hc := exec_call_clean_full fuel #[(mkPtr b 0, Lab.pub)] { st with leak := .br true :: st.leak } (.var 0) (.lit 56) 56 b blk hb hbase hsz
    (by simp [evalE]) (by simp [evalE]) (by omega) (by omega)
  simp only [idx_tinyjambu_clean] at hc
  simp only [f_tinyjambu_hash_free]
  rw [show fuel + 3 = (fuel + 2) + 1 from rfl, exec]
  simp only [evalE, List.getElem?_toArray, List.getElem?_cons_zero, reduceCtorEq, if_false, ne_eq, not_true_eq_false,
    mkPtr_ne_zero, if_true]
  rw [hc]
  simp only [wiped, List.cons_append, List.nil_append]

theorem hash_free_zeroes (fuel : Nat) (st : St) (b : Nat) (blk : Block) (hb : st.mem[b]? = some blk)
    (hbase : blk.base = 0) (hsz : blk.bytes.size = 56) :
    callFun prog (fuel + 4) idx_tinyjambu_hash_free false [(mkPtr b 0, .pub)] st =
      .ok .normal #[(0, .pub), (mkPtr b 0, .pub)] (wiped st b 56 [.set (mkPtr b 0) 56, .br true]) := by
  have hc := exec_hash_free_body fuel st b blk hb hbase hsz
  unfold callFun
  rw [show fuel + 4 = (fuel + 3) + 1 from rfl, exec]
  simp only [evalArgs, evalE, List.range, List.range.loop, List.map, List.length_cons, List.length_nil,
    prog_hash_free, enterFun, allocLocals, Bool.false_eq_true, if_false]
  simp only [Nat.zero_add, List.getElem?_toArray, List.getElem?_cons_succ, List.getElem?_cons_zero, reduceCtorEq, if_false,
    List.length_cons, List.length_nil, ne_eq, not_true_eq_false, List.append_nil,
    show f_tinyjambu_hash_free.nparams = 1 from rfl, show f_tinyjambu_hash_free.nvars = 1 from rfl,
    show f_tinyjambu_hash_free.allocs = [] from rfl, Nat.sub_self, List.replicate_zero, allocLocals]
  rw [show ({ mem := st.mem, ent := st.ent, leak := st.leak } : St) = st from rfl, hc]
  simp only [leaveFun, assignDst, wiped, extract_setBlock]

/-- `tinyjambu_hmac_free` delegates to `tinyjambu_hash_free` on the embedded hash state (same 56 bytes) -/
theorem hmac_free_zeroes (fuel : Nat) (st : St) (b : Nat) (blk : Block) (hb : st.mem[b]? = some blk)
    (hbase : blk.base = 0) (hsz : blk.bytes.size = 56) :
    callFun prog (fuel + 6) idx_tinyjambu_hmac_free false [(mkPtr b 0, .pub)] st =
      .ok .normal #[(0, .pub), (mkPtr b 0, .pub)] (wiped st b 56 [.set (mkPtr b 0) 56, .br true, .br true]) := by
  have hc := exec_hash_free_body fuel { st with leak := .br true :: st.leak } b blk hb hbase hsz
  unfold callFun
  rw [show fuel + 6 = (fuel + 5) + 1 from rfl, exec]
  simp only [evalArgs, evalE, List.range, List.range.loop, List.map, List.length_cons, List.length_nil,
    prog_hmac_free, f_tinyjambu_hmac_free, enterFun, allocLocals, Bool.false_eq_true, if_false]
  simp only [Nat.zero_add, List.getElem?_toArray, List.getElem?_cons_succ, List.getElem?_cons_zero, reduceCtorEq, if_false,
    List.length_cons, List.length_nil, ne_eq, not_true_eq_false, List.append_nil, Nat.sub_self, List.replicate_zero]
  rw [show fuel + 5 = (fuel + 4) + 1 from rfl, exec]
  simp only [evalE, List.getElem?_toArray, List.getElem?_cons_zero, reduceCtorEq, if_false, ne_eq, not_true_eq_false,
    mkPtr_ne_zero, if_true]
  rw [show fuel + 4 = (fuel + 3) + 1 from rfl, exec]
  simp only [evalArgs, evalE, List.getElem?_toArray, List.getElem?_cons_zero, reduceCtorEq, if_false,
    show prog[24]? = some f_tinyjambu_hash_free from rfl, List.length_cons, List.length_nil, ne_eq, not_true_eq_false,
    enterFun, allocLocals, show f_tinyjambu_hash_free.nparams = 1 from rfl, show f_tinyjambu_hash_free.nvars = 1 from rfl,
    show f_tinyjambu_hash_free.allocs = [] from rfl, Nat.sub_self, List.replicate_zero, List.append_nil, Nat.zero_add]
  rw [hc]
  simp only [leaveFun, assignDst, wiped, extract_setBlock, List.cons_append, List.nil_append]


/-! ### evaluation of expressions on concrete environments -/

theorem Lab.join_ne_undef (a b : Lab) : Lab.join a b ≠ .undef := by cases a <;> cases b <;> simp [Lab.join]
theorem Lab.join_pub_pub : Lab.join .pub .pub = .pub := rfl
theorem Lab.join_sec_left (l : Lab) : Lab.join .sec l = .sec := by cases l <;> rfl
theorem Lab.join_sec_right (l : Lab) : Lab.join l .sec = .sec := by cases l <;> rfl
theorem castVal_u32_i32_zero : castVal .u32 .i32 0 = 0 := rfl
theorem castVal_u8_i32_zero : castVal .u8 .i32 0 = 0 := rfl

/-- evaluation rules used between unfoldings of `exec` (never `exec` itself: each `rw [exec]` unfolds exactly the
    statement that is executed next) -/
macro "ev" : tactic => `(tactic| simp only [evalE, List.getElem?_toArray, List.getElem?_cons_succ, List.getElem?_cons_zero,
  reduceCtorEq, if_false, if_true, BinOp.needsPub2, BinOp.needsPub1, Bool.false_and, Bool.true_and, Bool.or_self, Bool.or_false,
  Bool.false_eq_true, binVal, unVal, castVal_u32_i32_zero, castVal_u8_i32_zero, Ty.signed, Ty.bits, Ty.bytes, Ty.half, Ty.modulus, Lab.join_pub_pub, Lab.join_sec_left, Lab.join_sec_right, setVar, b2n,
  gt_iff_lt, Nat.lt_irrefl, Nat.zero_lt_succ,
  List.setIfInBounds_toArray, List.set_cons_succ, List.set_cons_zero, ne_eq, not_true_eq_false, not_false_eq_true, bne_iff_ne,
  decide_not, decide_true, decide_false, Bool.not_true, Bool.not_false])


end TJ.MiniC
