/-
  TJ.Proofs.MiniCKernels — symbolic execution lemmas for the MiniC semantics and theorems about
  individual REGENERATED functions (TJ.Gen.MiniC.Prog): the wipe primitive and the free functions.
  These are statements about the terms tools/c2lean.py produced from the current C sources; when the
  sources change so that a statement no longer holds, this file stops compiling (the tie is broken).
-/
import TJ.MiniC.NI
import TJ.Gen.MiniC.Prog
namespace TJ.MiniC
open TJ.Gen.MiniC

/-! ### memory helpers -/

theorem size_writeBytes (bs : Array LByte) (off : Nat) (xs : List LByte) : (writeBytes bs off xs).size = bs.size := by
  induction xs generalizing bs off with
  | nil => rfl
  | cons x xs ih => simp [writeBytes, ih]

theorem getElem?_writeBytes (bs : Array LByte) (off : Nat) (xs : List LByte) (i : Nat) :
    (writeBytes bs off xs)[i]? =
      if off ≤ i ∧ i < off + xs.length ∧ i < bs.size then xs[i - off]? else bs[i]? := by
  induction xs generalizing bs off with
  | nil =>
    simp only [writeBytes, List.length_nil, Nat.add_zero]
    have : ¬ (off ≤ i ∧ i < off ∧ i < bs.size) := by omega
    simp only [this, if_false]
  | cons x xs ih =>
    simp only [writeBytes, ih, Array.size_setIfInBounds, Array.getElem?_setIfInBounds, List.length_cons]
    by_cases h1 : off = i
    · subst h1
      have hn : ¬ (off + 1 ≤ off ∧ off < off + 1 + xs.length ∧ off < bs.size) := by omega
      simp only [hn, if_false, if_true]
      by_cases h2 : off < bs.size
      · have : off ≤ off ∧ off < off + (xs.length + 1) ∧ off < bs.size := by omega
        simp [h2, this]
      · have : ¬ (off ≤ off ∧ off < off + (xs.length + 1) ∧ off < bs.size) := by omega
        simp [h2]
    · by_cases h3 : off + 1 ≤ i ∧ i < off + 1 + xs.length ∧ i < bs.size
      · have : off ≤ i ∧ i < off + (xs.length + 1) ∧ i < bs.size := by omega
        simp only [h3, this, and_self, if_true]
        have : i - off = (i - (off + 1)) + 1 := by omega
        rw [this, List.getElem?_cons_succ]
      · have : ¬ (off ≤ i ∧ i < off + (xs.length + 1) ∧ i < bs.size) := by omega
        simp [h3, this, h1]

theorem extract_self {α} (a : Array α) : a.extract 0 a.size = a := by simp

theorem size_setBlock (mem : Array Block) (b : Nat) (bytes : Array LByte) : (setBlock mem b bytes).size = mem.size := by
  unfold setBlock; split <;> simp

theorem getElem?_setBlock (mem : Array Block) (b : Nat) (bytes : Array LByte) (blk : Block) (h : mem[b]? = some blk) (j : Nat) :
    (setBlock mem b bytes)[j]? = if j = b then some { blk with bytes := bytes } else mem[j]? := by
  unfold setBlock
  rw [h]
  simp only [Array.getElem?_setIfInBounds]
  have hb : b < mem.size := by
    rcases Nat.lt_or_ge b mem.size with hlt | hge
    · exact hlt
    · rw [Array.getElem?_eq_none hge] at h; cases h
  by_cases hj : b = j
  · subst hj; simp [hb]
  · have : ¬ j = b := fun e => hj e.symm
    simp [hj, this]


/-! ### the wipe primitive `tinyjambu_clean` (configuration with explicit_bzero) -/

theorem prog_clean : prog[idx_tinyjambu_clean]? = some f_tinyjambu_clean := rfl

theorem extract_setBlock (mem : Array Block) (b : Nat) (bytes : Array LByte) :
    (setBlock mem b bytes).extract 0 mem.size = setBlock mem b bytes := by
  have := extract_self (setBlock mem b bytes)
  rwa [size_setBlock] at this

/-- `tinyjambu_clean(p, n)` on the regenerated program: zero bytes written to exactly `[p, p+n)` -/
theorem exec_call_clean (fuel : Nat) (env : Env) (st : St) (ep en : Expr) (p n b off : Nat)
    (hp : evalE env ep = .ok (p, .pub)) (hn : evalE env en = .ok (n, .pub)) (hn32 : n < 4294967296) (hn0 : n ≠ 0)
    (hr : resolve st.mem p 1 = .ok (b, off)) (hsz : off + n ≤ (blockBytes st.mem b).size) :
    exec prog (fuel + 2) (.call none idx_tinyjambu_clean [ep, en]) env st =
      .ok .normal env { st with leak := .set p n :: st.leak,
                                 mem := setBlock st.mem b (writeBytes (blockBytes st.mem b) off (List.replicate n (0, .pub))) } := by
  have hcast : castVal .u64 .u32 n = n := by
    simp only [castVal, Ty.signed, Ty.modulus]
    exact Nat.mod_eq_of_lt (by omega)
  have hnle : ¬ off + n > (blockBytes st.mem b).size := by omega
  simp [exec, evalArgs, hp, hn, prog_clean, f_tinyjambu_clean, enterFun, allocLocals, evalE, leaveFun, assignDst,
    hcast, hr, hn0, hnle, extract_setBlock]


/-! ### pointers -/

theorem resolve_mkPtr (mem : Array Block) (b i size : Nat) (blk : Block) (hb : mem[b]? = some blk)
    (hin : i + size ≤ blk.bytes.size) (hlt : blk.base + i < ptrBase) (hal : size > 1 → (blk.base + i) % size = 0) :
    resolve mem (mkPtr b (blk.base + i)) size = .ok (b, i) := by
  have hdiv : mkPtr b (blk.base + i) / ptrBase = b + 1 := by
    unfold mkPtr
    rw [Nat.add_comm, Nat.add_mul_div_right _ _ (by decide : 0 < ptrBase), Nat.div_eq_of_lt hlt]; omega
  have hmod : mkPtr b (blk.base + i) % ptrBase = blk.base + i := by
    unfold mkPtr
    rw [Nat.add_comm, Nat.add_mul_mod_self_right, Nat.mod_eq_of_lt hlt]
  simp only [resolve, hdiv, hmod, Nat.add_sub_cancel, hb]
  have h1 : ¬ (blk.base + i < blk.base ∨ i + size > blk.bytes.size) := by omega
  have h2 : ¬ (size > 1 ∧ (blk.base + i) % size ≠ 0) := fun h => h.2 (hal h.1)
  simp only [Nat.succ_ne_zero, if_false, h1, h2, Nat.add_sub_cancel_left]

theorem writeBytes_full (bs : Array LByte) (x : LByte) : writeBytes bs 0 (List.replicate bs.size x) = Array.replicate bs.size x := by
  apply Array.ext_getElem?
  intro i
  rw [getElem?_writeBytes, Array.getElem?_replicate]
  by_cases h : i < bs.size
  · simp [h]
  · simp [h]

/-! ### the free functions: every byte of the state object is zero afterwards, nothing else changes -/

theorem prog_prng_free : prog[idx_tinyjambu_prng_free]? = some f_tinyjambu_prng_free := rfl
theorem prog_hkdf_free : prog[idx_tinyjambu_hkdf_free]? = some f_tinyjambu_hkdf_free := rfl
theorem prog_hash_free : prog[idx_tinyjambu_hash_free]? = some f_tinyjambu_hash_free := rfl
theorem prog_hmac_free : prog[idx_tinyjambu_hmac_free]? = some f_tinyjambu_hmac_free := rfl

/-- the state after wiping object `b` of `n` bytes -/
def wiped (st : St) (b n : Nat) (extra : List Ev) : St :=
  { st with leak := extra ++ st.leak, mem := setBlock st.mem b (Array.replicate n (0, Lab.pub)) }

theorem prng_free_zeroes (fuel : Nat) (st : St) (b : Nat) (blk : Block) (hb : st.mem[b]? = some blk)
    (hbase : blk.base = 0) (hsz : blk.bytes.size = 96) :
    callFun prog (fuel + 3) idx_tinyjambu_prng_free false [(mkPtr b 0, .pub)] st =
      .ok .normal #[(0, .pub), (mkPtr b 0, .pub)] (wiped st b 96 [.set (mkPtr b 0) 96]) := by
  have hr : resolve st.mem (mkPtr b 0) 1 = .ok (b, 0) := by
    have := resolve_mkPtr st.mem b 0 1 blk hb (by omega) (by rw [hbase]; decide) (by omega)
    rwa [hbase] at this
  have hbb : blockBytes st.mem b = blk.bytes := by simp [blockBytes, hb]
  have hc := exec_call_clean fuel #[(mkPtr b 0, Lab.pub)] st (.var 0) (.lit 96) (mkPtr b 0) 96 b 0
    (by simp [evalE]) (by simp [evalE]) (by decide) (by decide) hr (by rw [hbb, hsz]; decide)
  simp only [idx_tinyjambu_clean] at hc
  rw [hbb, show (96 : Nat) = blk.bytes.size from hsz.symm, writeBytes_full, hsz] at hc
  unfold callFun
  rw [show fuel + 3 = (fuel + 2) + 1 from rfl, exec]
  simp only [evalArgs, evalE, List.range, List.range.loop, List.map, List.length_cons, List.length_nil,
    prog_prng_free, f_tinyjambu_prng_free, enterFun, allocLocals, Bool.false_eq_true, if_false]
  simp [evalE, hc, leaveFun, assignDst, extract_setBlock, wiped, -List.reduceReplicate, -Array.reduceReplicate]

end TJ.MiniC
