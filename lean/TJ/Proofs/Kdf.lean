/-
  TJ.Proofs.Kdf — PBKDF2 and HKDF refine the RFC formulas over `Spec.hmac hash`.
-/
import TJ.Proofs.Hmac
namespace TJ

theorem finishCore_length (c : Core) (p : Bytes) : (finishCore c p).length = 32 := by
  simp [finishCore, store32]

theorem hash_length (m : Bytes) : (hash m).length = 32 := by
  rw [hash_eq_hashPure]; exact finishCore_length _ _

theorem hmac_length (key m : Bytes) : (hmac key m).length = 32 := by
  rw [hmac_eq_spec]; unfold Spec.hmac; exact hash_length _

/-! ### PBKDF2 -/

theorem be_bytes (i : Nat) (h : i < 2^32) :
    store32be i.toUInt32 = [(i >>> 24).toUInt8, (i >>> 16).toUInt8, (i >>> 8).toUInt8, i.toUInt8] := by
  unfold store32be
  have e24 : (i.toUInt32 >>> 24).toUInt8 = (i >>> 24).toUInt8 := by
    apply UInt8.toNat_inj.mp; simp [Nat.shiftRight_eq_div_pow]; omega
  have e16 : (i.toUInt32 >>> 16).toUInt8 = (i >>> 16).toUInt8 := by
    apply UInt8.toNat_inj.mp; simp [Nat.shiftRight_eq_div_pow]; omega
  have e8 : (i.toUInt32 >>> 8).toUInt8 = (i >>> 8).toUInt8 := by
    apply UInt8.toNat_inj.mp; simp [Nat.shiftRight_eq_div_pow]; omega
  have e0 : i.toUInt32.toUInt8 = i.toUInt8 := by
    apply UInt8.toNat_inj.mp; simp
  rw [e24, e16, e8, e0]

theorem xorBytes_eq (a b : Bytes) : xorBytes a b = Spec.xorB a b := rfl

theorem pbkdf2Iter_spec (pw salt : Bytes) (i : Nat) (n j : Nat) :
    pbkdf2Iter pw n (Spec.pbkdf2T hash pw salt i j) (Spec.pbkdf2U hash pw salt i j)
      = Spec.pbkdf2T hash pw salt i (j + n) := by
  induction n generalizing j with
  | zero => rfl
  | succ n ih =>
    simp only [pbkdf2Iter]
    have hu : hmac pw (Spec.pbkdf2U hash pw salt i j) = Spec.pbkdf2U hash pw salt i (j+1) := by
      rw [hmac_eq_spec]; rfl
    rw [hu, xorBytes_eq]
    have := ih (j+1)
    simp only [Spec.pbkdf2T] at this
    rw [this]; congr 1; omega

/-- `tinyjambu_pbkdf2_f` computes T_i with c = max count 1 -/
theorem pbkdf2F_spec (pw salt : Bytes) (count i : Nat) (hi : i < 2^32) :
    pbkdf2F pw salt count i.toUInt32 = Spec.pbkdf2T hash pw salt i (max count 1 - 1) := by
  unfold pbkdf2F
  have h0 : hmac pw (salt ++ store32be i.toUInt32) = Spec.pbkdf2U hash pw salt i 0 := by
    rw [hmac_eq_spec, be_bytes i hi]; rfl
  rw [h0]
  by_cases hc : count > 1
  · simp only [hc, if_true]
    have h1 : hmac pw (Spec.pbkdf2U hash pw salt i 0) = Spec.pbkdf2U hash pw salt i 1 := by
      rw [hmac_eq_spec]; rfl
    rw [h1, xorBytes_eq]
    have := pbkdf2Iter_spec pw salt i (count - 2) 1
    simp only [Spec.pbkdf2T] at this
    rw [this]; congr 1; omega
  · simp only [hc, if_false]
    have : max count 1 - 1 = 0 := by omega
    rw [this]; rfl

theorem xorB_length (a b : Bytes) (ha : a.length = 32) (hb : b.length = 32) : (Spec.xorB a b).length = 32 := by
  simp [Spec.xorB, ha, hb]

theorem pbkdf2U_length (pw salt : Bytes) (i j : Nat) : (Spec.pbkdf2U hash pw salt i j).length = 32 := by
  cases j <;> (simp only [Spec.pbkdf2U]; rw [← hmac_eq_spec]; exact hmac_length _ _)

theorem pbkdf2T_length (pw salt : Bytes) (i n : Nat) : (Spec.pbkdf2T hash pw salt i n).length = 32 := by
  induction n with
  | zero => exact pbkdf2U_length _ _ _ _
  | succ n ih => exact xorB_length _ _ ih (pbkdf2U_length _ _ _ _)

theorem pbkdf2Loop_spec (pw salt : Bytes) (count n b : Nat) (hb : b + (n + 31) / 32 ≤ 2^32) :
    pbkdf2Loop pw salt count n b = (Spec.pbkdf2Blocks hash pw salt (max count 1) b ((n + 31) / 32)).take n := by
  fun_induction pbkdf2Loop pw salt count n b with
  | case1 b => simp
  | case2 n b hn hge ih =>
    have hk : (n + 31) / 32 = (n - 32 + 31) / 32 + 1 := by omega
    rw [hk]
    simp only [Spec.pbkdf2Blocks]
    rw [pbkdf2F_spec _ _ _ _ (by omega), ih (by omega)]
    rw [List.take_append, pbkdf2T_length]
    congr 1
    exact (List.take_of_length_le (by rw [pbkdf2T_length]; omega)).symm
  | case3 n b hn hlt =>
    have hk : (n + 31) / 32 = 1 := by omega
    rw [hk]
    simp only [Spec.pbkdf2Blocks, List.append_nil]
    rw [pbkdf2F_spec _ _ _ _ (by omega)]

end TJ

namespace TJ
/-! ### HKDF -/

/-- the `k` bytes a request receives from the real bytes `X` still available: what is there, then zeros -/
def outSpec (X : Bytes) (k : Nat) : Bytes := X.take k ++ zeros (k - X.length)

theorem outSpec_length (X : Bytes) (k : Nat) : (outSpec X k).length = k := by
  simp [outSpec, zeros]; omega

theorem outSpec_append_left (A X : Bytes) (k : Nat) (h : A.length ≤ k) :
    outSpec (A ++ X) k = A ++ outSpec X (k - A.length) := by
  unfold outSpec
  have e : k - (A ++ X).length = k - A.length - X.length := by simp only [List.length_append]; omega
  rw [List.take_append, List.take_of_length_le h, List.append_assoc, e]

theorem outSpec_le (A X : Bytes) (k : Nat) (h : k ≤ A.length) : outSpec (A ++ X) k = A.take k := by
  unfold outSpec
  rw [List.take_append_of_le_length h]
  have : k - (A ++ X).length = 0 := by simp; omega
  rw [this]; simp [zeros]

theorem outSpec_nil (k : Nat) : outSpec [] k = zeros k := by simp [outSpec]

theorem hkdfT_succ_length (prk info : Bytes) (g : Nat) : (Spec.hkdfT hash prk info (g+1)).length = 32 := by
  simp only [Spec.hkdfT]; rw [← hmac_eq_spec]; exact hmac_length _ _

theorem hkdfBlocks_length (prk info : Bytes) (b k : Nat) (hb : 1 ≤ b) :
    (Spec.hkdfBlocks hash prk info b k).length = 32 * k := by
  induction k generalizing b with
  | zero => rfl
  | succ k ih =>
    simp only [Spec.hkdfBlocks, List.length_append, ih (b+1) (by omega)]
    obtain ⟨g, rfl⟩ : ∃ g, b = g + 1 := ⟨b - 1, by omega⟩
    rw [hkdfT_succ_length]; omega

/-- relation between the private HKDF state and the RFC's block index `g` (T(g) is the last block made) -/
structure KInv (st : KState) (prk info : Bytes) (g : Nat) : Prop where
  hprk : st.prk = prk
  g_le : g ≤ 255
  hcounter : st.counter = (g+1).toUInt8
  posn_le : st.posn.toNat ≤ 32
  out_len : st.out.length = 32
  hout : 1 ≤ g → st.out = Spec.hkdfT hash prk info g
  posn0 : g = 0 → st.posn.toNat = 32

/-- the real output bytes not yet served -/
def remaining (st : KState) (prk info : Bytes) (g : Nat) : Bytes :=
  st.out.drop st.posn.toNat ++ Spec.hkdfBlocks hash prk info (g+1) (255 - g)

theorem toUInt8_succ (g : Nat) : (g+1).toUInt8 + 1 = (g+2).toUInt8 := by
  apply UInt8.toNat_inj.mp; simp

theorem toUInt8_toNat_small (n : Nat) (h : n < 256) : n.toUInt8.toNat = n := by simp; omega

theorem counter_zero_iff (g : Nat) (h : g ≤ 255) : (g+1).toUInt8 = 0 ↔ g = 255 := by
  constructor
  · intro e
    have := congrArg UInt8.toNat e
    simp at this; omega
  · rintro rfl; rfl

theorem counter_one_iff (g : Nat) (h : g ≤ 255) : (g+1).toUInt8 = 1 ↔ g = 0 := by
  constructor
  · intro e
    have := congrArg UInt8.toNat e
    simp at this; omega
  · rintro rfl; rfl

theorem expandLoop_zero (st : KState) (info : Bytes) : st.expandLoop info 0 = (0, [], st) := by
  rw [KState.expandLoop]; simp

/-- the block loop, entered at a block boundary -/
theorem expandLoop_spec (st : KState) (info : Bytes) (n : Nat) :
    ∀ (prk : Bytes) (g : Nat), KInv st prk info g → st.posn.toNat = 32 →
    ∃ g', KInv (st.expandLoop info n).2.2 prk info g' ∧
      (st.expandLoop info n).2.1 = outSpec (Spec.hkdfBlocks hash prk info (g+1) (255 - g)) n ∧
      remaining (st.expandLoop info n).2.2 prk info g' = (Spec.hkdfBlocks hash prk info (g+1) (255 - g)).drop n ∧
      (st.expandLoop info n).1 = if n ≤ 32 * (255 - g) then 0 else -1 := by
  fun_induction KState.expandLoop st info n with
  | case1 st =>
    intro prk g hi hp
    refine ⟨g, hi, ?_, ?_, ?_⟩
    · simp [outSpec, zeros]
    · simp [remaining, hp, hi.out_len]
    · simp
  | case2 st n hn hc =>
    intro prk g hi hp
    have hg : g = 255 := (counter_zero_iff g hi.g_le).1 (hi.hcounter ▸ hc)
    subst hg
    refine ⟨255, hi, ?_, ?_, ?_⟩
    · simp [Spec.hkdfBlocks, outSpec_nil]
    · simp [remaining, hp, hi.out_len, Spec.hkdfBlocks]
    · have : ¬ n ≤ 32 * (255 - 255) := by omega
      simp [this]
  | case3 st n hn hc t len st1 r ih =>
    intro prk g hi hp
    have hg : g < 255 := by
      have : g ≠ 255 := fun e => hc (hi.hcounter ▸ (counter_zero_iff g hi.g_le).2 e)
      have := hi.g_le; omega
    have ht : t = Spec.hkdfT hash prk info (g+1) := by
      simp only [t, Spec.hkdfT]
      rw [hmac_eq_spec, hi.hprk, hi.hcounter]
      by_cases h0 : g = 0
      · subst h0; simp [Spec.hkdfT]
      · have hne : (g+1).toUInt8 ≠ 1 := fun e => h0 ((counter_one_iff g hi.g_le).1 e)
        first
          | rw [dif_pos hne, hi.hout (by omega : 1 ≤ g)]
          | rw [if_pos hne, hi.hout (by omega : 1 ≤ g)]
    have htl : t.length = 32 := by rw [ht]; exact hkdfT_succ_length _ _ _
    have hblk : Spec.hkdfBlocks hash prk info (g+1) (255 - g) = t ++ Spec.hkdfBlocks hash prk info (g+2) (255 - (g+1)) := by
      have : 255 - g = (255 - (g+1)) + 1 := by omega
      rw [this, Spec.hkdfBlocks, ht]
    have hlen32 : len ≤ 32 := by simp only [len]; omega
    have hi1 : KInv st1 prk info (g+1) := by
      refine ⟨hi.hprk, by omega, ?_, ?_, ?_, ?_, ?_⟩
      · show st.counter + 1 = (g+1+1).toUInt8
        rw [hi.hcounter]; exact toUInt8_succ g
      · show len.toUInt8.toNat ≤ 32
        rw [toUInt8_toNat_small _ (by omega)]; exact hlen32
      · exact htl
      · intro _; exact ht
      · intro h; omega
    by_cases hn32 : 32 ≤ n
    · have hl : len = 32 := by simp only [len]; omega
      have hp1 : st1.posn.toNat = 32 := by
        show len.toUInt8.toNat = 32
        rw [hl]; rfl
      obtain ⟨g', hi', ho, hr, hret⟩ := ih prk (g+1) hi1 hp1
      have e : n - len = n - 32 := by omega
      rw [e] at ho hr hret hi'
      refine ⟨g', ?_, ?_, ?_, ?_⟩
      · show KInv r.2.2 prk info g'
        simp only [r]; rw [e]; exact hi'
      · show t.take len ++ r.2.1 = _
        simp only [r]; rw [e, ho]
        rw [hblk, outSpec_append_left _ _ _ (by omega), htl, hl, List.take_of_length_le (by omega)]
      · show remaining r.2.2 prk info g' = _
        simp only [r]; rw [e, hr]
        have hd : t.drop n = [] := List.drop_eq_nil_of_le (by omega)
        rw [hblk, List.drop_append, hd, htl, List.nil_append]
      · show r.1 = _
        simp only [r]; rw [e, hret]
        by_cases h1 : n - 32 ≤ 32 * (255 - (g+1))
        · have : n ≤ 32 * (255 - g) := by omega
          rw [if_pos h1, if_pos this]
        · have : ¬ n ≤ 32 * (255 - g) := by omega
          rw [if_neg h1, if_neg this]
    · have hl : len = n := by simp only [len]; omega
      have hz : n - len = 0 := by omega
      have hr0 : r = (0, [], st1) := by
        simp only [r]; rw [hz]; exact expandLoop_zero _ _
      refine ⟨g+1, ?_, ?_, ?_, ?_⟩
      · show KInv r.2.2 prk info (g+1); rw [hr0]; exact hi1
      · show t.take len ++ r.2.1 = _
        rw [hr0, hblk, outSpec_le _ _ _ (by omega), hl]; simp
      · show remaining r.2.2 prk info (g+1) = _
        rw [hr0, hblk]
        simp only [remaining]
        have hp1 : st1.posn.toNat = n := by
          show len.toUInt8.toNat = n
          rw [toUInt8_toNat_small _ (by omega)]; exact hl
        rw [hp1, List.drop_append_of_le_length (by omega)]
      · show r.1 = _
        rw [hr0]
        have : n ≤ 32 * (255 - g) := by omega
        rw [if_pos this]

end TJ

namespace TJ

theorem remaining_length (st : KState) (prk info : Bytes) (g : Nat) (hi : KInv st prk info g) :
    (remaining st prk info g).length = (32 - st.posn.toNat) + 32 * (255 - g) := by
  simp only [remaining, List.length_append, List.length_drop, hi.out_len,
    hkdfBlocks_length prk info (g+1) (255 - g) (by omega)]

theorem posn_add (p : UInt8) (k : Nat) (h : p.toNat + k ≤ 32) : (p + k.toUInt8).toNat = p.toNat + k := by
  simp; omega

/-- `tinyjambu_hkdf_expand`: serves the next `n` of the real bytes not yet served, zero-fills beyond them,
    returns -1 exactly when it had to zero-fill -/
theorem expand_spec (st : KState) (prk info : Bytes) (g n : Nat) (hi : KInv st prk info g) :
    ∃ g', KInv (st.expand info n).2.2 prk info g' ∧
      (st.expand info n).2.1 = outSpec (remaining st prk info g) n ∧
      remaining (st.expand info n).2.2 prk info g' = (remaining st prk info g).drop n ∧
      (st.expand info n).1 = if n ≤ (remaining st prk info g).length then 0 else -1 := by
  have hrl := remaining_length st prk info g hi
  have hA : (st.out.drop st.posn.toNat).length = 32 - st.posn.toNat := by simp [hi.out_len]
  have hple := hi.posn_le
  unfold KState.expand
  simp only
  by_cases hc : n ≤ 32 - st.posn.toNat
  · have hl : min (32 - st.posn.toNat) n = n := by omega
    rw [hl, Nat.sub_self, expandLoop_zero]
    have hi1 : KInv { st with posn := st.posn + n.toUInt8 } prk info g := by
      refine ⟨hi.hprk, hi.g_le, hi.hcounter, ?_, hi.out_len, hi.hout, ?_⟩
      · show (st.posn + n.toUInt8).toNat ≤ 32
        rw [posn_add _ _ (by omega)]; omega
      · intro h0
        have := hi.posn0 h0
        show (st.posn + n.toUInt8).toNat = 32
        rw [posn_add _ _ (by omega)]; omega
    refine ⟨g, hi1, ?_, ?_, ?_⟩
    · simp only [List.append_nil]
      unfold remaining
      rw [outSpec_le _ _ _ (by omega)]
    · unfold remaining
      simp only
      rw [posn_add _ _ (by omega), List.drop_append_of_le_length (by omega), List.drop_drop]
    · have : n ≤ (remaining st prk info g).length := by omega
      rw [if_pos this]
  · have hl : min (32 - st.posn.toNat) n = 32 - st.posn.toNat := by omega
    rw [hl]
    have hp1 : (st.posn + (32 - st.posn.toNat).toUInt8).toNat = 32 := by
      rw [posn_add _ _ (by omega)]; omega
    have hi1 : KInv { st with posn := st.posn + (32 - st.posn.toNat).toUInt8 } prk info g := by
      refine ⟨hi.hprk, hi.g_le, hi.hcounter, ?_, hi.out_len, hi.hout, ?_⟩
      · show (st.posn + (32 - st.posn.toNat).toUInt8).toNat ≤ 32
        omega
      · intro _; exact hp1
    obtain ⟨g', hi', ho, hr, hret⟩ := expandLoop_spec { st with posn := st.posn + (32 - st.posn.toNat).toUInt8 } info
      (n - (32 - st.posn.toNat)) prk g hi1 hp1
    refine ⟨g', hi', ?_, ?_, ?_⟩
    · rw [ho]
      unfold remaining
      rw [outSpec_append_left _ _ _ (by omega), hA, List.take_of_length_le (by omega)]
    · rw [hr]
      unfold remaining
      have hd : (st.out.drop st.posn.toNat).drop n = [] := List.drop_eq_nil_of_le (by omega)
      rw [List.drop_append, hd, hA, List.nil_append]
    · rw [hret]
      by_cases h1 : n - (32 - st.posn.toNat) ≤ 32 * (255 - g)
      · have : n ≤ (remaining st prk info g).length := by omega
        rw [if_pos h1, if_pos this]
      · have : ¬ n ≤ (remaining st prk info g).length := by omega
        rw [if_neg h1, if_neg this]

theorem extract_fields (st : KState) (key salt : Bytes) :
    (st.extract key salt).prk = hmac salt key ∧ (st.extract key salt).counter = 1 ∧
    (st.extract key salt).posn = 32 ∧ (st.extract key salt).out = st.out := by
  simp only [KState.extract, and_self]

/-- after `extract` the state is at block 0 with every real byte still to serve -/
theorem extract_inv (st : KState) (key salt info : Bytes) (hlen : st.out.length = 32) :
    KInv (st.extract key salt) (hmac salt key) info 0 := by
  obtain ⟨h1, h2, h3, h4⟩ := extract_fields st key salt
  refine ⟨h1, by omega, ?_, ?_, ?_, ?_, ?_⟩
  · rw [h2]; decide
  · rw [h3]; decide
  · rw [h4]; exact hlen
  · intro h; omega
  · intro _; rw [h3]; decide

theorem remaining_extract (st : KState) (key salt info : Bytes) (hlen : st.out.length = 32) :
    remaining (st.extract key salt) (hmac salt key) info 0 = Spec.hkdfOkm hash (hmac salt key) info := by
  obtain ⟨h1, h2, h3, h4⟩ := extract_fields st key salt
  have e : (st.extract key salt).posn.toNat = 32 := by rw [h3]; decide
  unfold remaining Spec.hkdfOkm
  rw [e, h4, List.drop_eq_nil_of_le (by omega), List.nil_append]

theorem hkdfOkm_length (prk info : Bytes) : (Spec.hkdfOkm hash prk info).length = 8160 := by
  unfold Spec.hkdfOkm; rw [hkdfBlocks_length _ _ _ _ (by omega)]

end TJ
