/-
  TJ.Proofs.SivEncCall — tinyjambu_{128,192,256}_siv_encrypt as a call, generic in the variant.
-/
import TJ.Proofs.SivCore
namespace TJ.MiniC.Hoare
open TJ TJ.MiniC TJ.MiniC.PermC TJ.Gen.MiniC

theorem sivNonce_bytes {nonce tag : Bytes} {X : Array LByte}
    (h4 : BytesV X 0 (nonce.take 4)) (h8 : BytesV X 4 tag) (hn : nonce.length = 12) : BytesV X 0 (sivNonce nonce tag) := by
  unfold sivNonce
  refine ⟨by have := h8.1; simp [hn]; omega, fun k b hk => ?_⟩
  have hl : (nonce.take 4).length = 4 := by simp [hn]
  by_cases hk4 : k < 4
  · rw [List.getElem?_append_left (by omega)] at hk; exact h4.2 k b hk
  · rw [List.getElem?_append_right (by omega), hl] at hk
    have := h8.2 (k - 4) b hk
    rw [show 4 + (k - 4) = 0 + k from by omega] at this; exact this

/-- **`tinyjambu_{128,192,256}_siv_encrypt(c, clen, m, mlen, ad, adlen, npub, k)` as a call**: `*clen = mlen + 8`, the `mlen + 8` bytes at `c`
    are the model's SIV ciphertext and tag; every other byte of memory keeps its value; both local objects are released.  The message
    may lie in the output buffer at the same address. -/
theorem sivencrypt_call {prog : Program} {nk pidx pk sidx aidx gidx : Nat} {P : List UInt32 → Nat → W4 → W4} (ep : EncProg prog nk pidx pk sidx aidx gidx P)
    (fn : Nat) (fd : FunDecl) (hprog : prog[fn]? = some fd) (hbody : fd.body = sivEncStmt nk pidx pk sidx aidx gidx) (hp : fd.nparams = 8)
    (hv : fd.nvars = 14 + 5 * nk + 33) (ha : fd.allocs = [(8, 16 + 4 * nk), (9, 12)])
    (env : Env) (st : St) (ec el em eml ea eal en ek : Expr)
    (bo baseo oo : Nat) (XO : Array LByte) (bl basel ol : Nat) (XL : Array LByte) (bm basem moff : Nat) (XM : Array LByte) (ba basea aoff : Nat) (XA : Array LByte)
    (bn basen noff : Nat) (XN : Array LByte) (bk basek koff : Nat) (XK : Array LByte) (msg ad nonce key : Bytes)
    (hec : evalE env ec = .ok (mkPtr bo (baseo + oo), .pub)) (hel : evalE env el = .ok (mkPtr bl (basel + ol), .pub))
    (hem : evalE env em = .ok (mkPtr bm (basem + moff), .pub)) (heml : evalE env eml = .ok (msg.length, .pub))
    (hea : evalE env ea = .ok (mkPtr ba (basea + aoff), .pub)) (heal : evalE env eal = .ok (ad.length, .pub))
    (hen : evalE env en = .ok (mkPtr bn (basen + noff), .pub)) (hek : evalE env ek = .ok (mkPtr bk (basek + koff), .pub))
    (hO : st.mem[bo]? = some ⟨XO, baseo⟩) (hltO : baseo + XO.size < ptrBase) (hroom : oo + msg.length + 8 ≤ XO.size)
    (hL : st.mem[bl]? = some ⟨XL, basel⟩) (hltL : basel + XL.size < ptrBase) (hinL : ol + 8 ≤ XL.size) (halL : (basel + ol) % 8 = 0)
    (bM : Buf st.mem bm basem moff XM msg) (bA : Buf st.mem ba basea aoff XA ad) (bN : Buf st.mem bn basen noff XN nonce) (bK : Buf st.mem bk basek koff XK key)
    (hnl : nonce.length = 12) (hkl : key.length = 4 * nk)
    (hsep : bl ≠ bo ∧ bl ≠ bm ∧ bl ≠ ba ∧ bl ≠ bn ∧ bl ≠ bk) (hbon : bo ≠ bn) (hdisj : bm ≠ bo ∨ (bm = bo ∧ moff = oo)) (hsz : st.mem.size + 2 < 2 ^ 30) (hnk : nk ≤ 64) :
    RunsTo prog (.call none fn [ec, el, em, eml, ea, eal, en, ek]) env st (fun sig e s' => sig = .normal ∧ e = env ∧ s'.ent = st.ent ∧
      s'.mem.size = st.mem.size ∧
      (∃ blkO, s'.mem[bo]? = some blkO ∧ blkO.base = baseo ∧ blkO.bytes.size = XO.size ∧
        BytesV blkO.bytes oo (sivEncryptWith (P (keyWords nk key)) pk nonce ad msg) ∧
        (∀ p, (p < oo ∨ oo + (msg.length + 8) ≤ p) → ORel VLe blkO.bytes[p]? XO[p]?)) ∧
      ORel BlockLe s'.mem[bl]? (some ⟨writeLE XL ol (msg.length + 8) .pub 8, basel⟩) ∧
      (∀ j, j ≠ bo → j ≠ bl → ORel BlockLe s'.mem[j]? st.mem[j]?)) := by
  obtain ⟨fdS, hS1, hS2, hS3, hS4, hS5⟩ := ep.setup
  obtain ⟨fdA, hA1, hA2, hA3, hA4, hA5⟩ := ep.absorb
  obtain ⟨fdG, hG1, hG2, hG3, hG4, hG5⟩ := ep.gentag
  have hpk := ep.hpk
  have hboN := mem_lt hO; have hblN := mem_lt hL
  have hbmN := bM.lt; have hbaN := bA.lt; have hbnN := bN.lt; have hbkN := bK.lt
  have hmlen : msg.length + 8 < 18446744073709551616 := by simp only [ptrBase] at hltO; omega
  generalize hkws : keyWords nk key = kws
  have hklen : kws.length = nk := by rw [← hkws]; exact keyWords_length nk key
  have hk : ∀ i, i < nk → kws[i]? = some (~~~ loadAt key (4 * i)) := fun i hi => by rw [← hkws]; exact keyWords_get nk key i hi
  let vs : List LVal := [(mkPtr bo (baseo + oo), .pub), (mkPtr bl (basel + ol), .pub), (mkPtr bm (basem + moff), .pub), (msg.length, .pub),
    (mkPtr ba (basea + aoff), .pub), (ad.length, .pub), (mkPtr bn (basen + noff), .pub), (mkPtr bk (basek + koff), .pub)]
  refine runs_call_none fd vs hprog (by simp only [evalArgs, hec, hel, hem, heml, hea, heal, hen, hek]; rfl) (by rw [hp]; rfl) ?_
  have hent : enterFun fd vs st.mem = (setVar (setVar (vs ++ List.replicate (14 + 5 * nk + 33 - 8) (0, Lab.undef)).toArray 8 (mkPtr st.mem.size 0, .pub)) 9
        (mkPtr (st.mem.size + 1) 0, .pub),
      (st.mem.push { bytes := Array.replicate (16 + 4 * nk) (0, .undef), base := 0 }).push { bytes := Array.replicate 12 (0, .undef), base := 0 }) := by
    simp only [enterFun, ha, allocLocals, hp, hv, Array.size_push]
  rw [hbody, hent]
  obtain ⟨hE0s, hE0v, hE08, hE09⟩ := enter_env_ab vs (14 + 5 * nk + 33 - 8) 8 9 (mkPtr st.mem.size 0, .pub) (mkPtr (st.mem.size + 1) 0, .pub) rfl (by decide) (by decide) (by omega)
  generalize hE0 : setVar (setVar (vs ++ List.replicate (14 + 5 * nk + 33 - 8) (0, Lab.undef)).toArray 8 (mkPtr st.mem.size 0, .pub)) 9
    (mkPtr (st.mem.size + 1) 0, .pub) = E0 at hE0s hE0v hE08 hE09
  have e0_0 : E0[0]? = some (mkPtr bo (baseo + oo), .pub) := hE0v 0 _ rfl
  have e0_1 : E0[1]? = some (mkPtr bl (basel + ol), .pub) := hE0v 1 _ rfl
  have e0_2 : E0[2]? = some (mkPtr bm (basem + moff), .pub) := hE0v 2 _ rfl
  have e0_3 : E0[3]? = some (msg.length, .pub) := hE0v 3 _ rfl
  have e0_4 : E0[4]? = some (mkPtr ba (basea + aoff), .pub) := hE0v 4 _ rfl
  have e0_5 : E0[5]? = some (ad.length, .pub) := hE0v 5 _ rfl
  have e0_6 : E0[6]? = some (mkPtr bn (basen + noff), .pub) := hE0v 6 _ rfl
  have e0_7 : E0[7]? = some (mkPtr bk (basek + koff), .pub) := hE0v 7 _ rfl
  have hE0sz : E0.size = 14 + 5 * nk + 33 := by rw [hE0s]; omega
  generalize hmem1 : (st.mem.push { bytes := Array.replicate (16 + 4 * nk) (0, .undef), base := 0 }).push { bytes := Array.replicate 12 (0, .undef), base := 0 } = mem1
  have hm1lt : ∀ j, j < st.mem.size → mem1[j]? = st.mem[j]? := by
    intro j hj; rw [← hmem1, Array.getElem?_push, Array.getElem?_push]; simp only [Array.size_push, show ¬ j = st.mem.size + 1 from by omega, show ¬ j = st.mem.size from by omega, if_false]
  have hm1n : mem1[st.mem.size]? = some ⟨Array.replicate (16 + 4 * nk) (0, .undef), 0⟩ := by
    rw [← hmem1, Array.getElem?_push, Array.getElem?_push]; simp
  have hm1t : mem1[st.mem.size + 1]? = some ⟨Array.replicate 12 (0, .undef), 0⟩ := by
    rw [← hmem1, Array.getElem?_push]; simp
  have hm1sz : mem1.size = st.mem.size + 2 := by rw [← hmem1]; simp
  unfold sivEncStmt
  rw [seqs_cons_ne _ _ (by simp)]
  generalize hE1 : setVar E0 11 (mkPtr bl (basel + ol), Lab.pub) = E1
  generalize hM0 : setBlock mem1 bl (writeLE XL ol (msg.length + 8) .pub 8) = M0
  refine runs_seq (Q := fun e s => e = E1 ∧ s.mem = M0 ∧ s.ent = st.ent) (clen_storeV 11 (by decide) bl basel ol XL msg.length e0_1 e0_3
    (by show mem1[bl]? = _; rw [hm1lt bl hblN]; exact hL) hinL halL hltL hmlen (by omega) ⟨rfl, hE1, hM0, rfl⟩) ?_
  intro e1 st1 ⟨he1, hst1m, hst1e⟩
  rw [he1]
  have hM0lt : ∀ j, j ≠ bl → j < st.mem.size → M0[j]? = st.mem[j]? := by
    intro j hj hjn; rw [← hM0, getElem?_setBlock', if_neg hj]; exact hm1lt j hjn
  have hM0n : M0[st.mem.size]? = some ⟨Array.replicate (16 + 4 * nk) (0, .undef), 0⟩ := by rw [← hM0, getElem?_setBlock', if_neg (by omega)]; exact hm1n
  have hM0t : M0[st.mem.size + 1]? = some ⟨Array.replicate 12 (0, .undef), 0⟩ := by rw [← hM0, getElem?_setBlock', if_neg (by omega)]; exact hm1t
  have hM0l : M0[bl]? = some ⟨writeLE XL ol (msg.length + 8) .pub 8, basel⟩ := by
    rw [← hM0, getElem?_setBlock', if_pos rfl, hm1lt bl hblN, hL]; rfl
  have hM0sz : M0.size = st.mem.size + 2 := by rw [← hM0, size_setBlock']; exact hm1sz
  have e1fr : ∀ y, y ≠ 11 → E1[y]? = E0[y]? := fun y hy => by rw [← hE1]; exact get_set_ne _ _ _ _ (fun e => hy e.symm)
  have hE1sz : E1.size = 14 + 5 * nk + 33 := by rw [← hE1, size_setVar]; exact hE0sz
  let g : AGeo := ⟨prog, pidx, nk, P, ep.hspec, st.mem.size, 0, st.ent, rfl, by simp only [ptrBase]; omega, by omega⟩
  have ki0 : KI g M0 (14 + 5 * nk + 33) kws E1 12 0 E1 st1 :=
    ⟨hE1sz, fun _ _ => rfl, ⟨_, by rw [hst1m]; exact hM0n, by show (Array.replicate (16 + 4 * nk) ((0 : UInt8), Lab.undef)).size = 16 + 4 * nk; simp,
      fun i v hi _ => absurd hi (by omega)⟩, by rw [hst1m]; exact OthLe.refl _ _, by rw [hst1m], hst1e⟩
  let dgK : DGeo g M0 := ⟨bk, basek, XK, by show bk ≠ st.mem.size; omega, by omega, bK.hlt, by rw [hM0lt bk (fun e => hsep.2.2.2.2 e.symm) hbkN]; exact bK.hm⟩
  let dgN : DGeo g M0 := ⟨bn, basen, XN, by show bn ≠ st.mem.size; omega, by omega, bN.hlt, by rw [hM0lt bn (fun e => hsep.2.2.2.1 e.symm) hbnN]; exact bN.hm⟩
  let dgA : DGeo g M0 := ⟨ba, basea, XA, by show ba ≠ st.mem.size; omega, by omega, bA.hlt, by rw [hM0lt ba (fun e => hsep.2.2.1 e.symm) hbaN]; exact bA.hm⟩
  let dgM : DGeo g M0 := ⟨bm, basem, XM, by show bm ≠ st.mem.size; omega, by omega, bM.hlt, by rw [hM0lt bm (fun e => hsep.2.1 e.symm) hbmN]; exact bM.hm⟩
  refine key_words (g := g) dgK koff key bK.hd hkl hk (sv := 8) (t0 := 12) (by decide) (by decide) (by rw [e1fr 8 (by decide)]; exact hE08)
    (by rw [e1fr 7 (by decide)]; exact e0_7) (by show 12 + 5 * nk ≤ _; omega) _ (by simp) nk 0 (by show 0 + nk = nk; omega) E1 st1 ki0 ?_
  intro e2 st2 ki
  have hE2sz := ki.esz
  have e2fr : ∀ y, y < 11 → e2[y]? = E0[y]? := fun y hy => by rw [ki.fr y (by omega), e1fr y (by omega)]
  have e2_8 : e2[8]? = some (mkPtr st.mem.size 0, .pub) := by rw [e2fr 8 (by decide)]; exact hE08
  have e2_9 : e2[9]? = some (mkPtr (st.mem.size + 1) 0, .pub) := by rw [e2fr 9 (by decide)]; exact hE09
  have e2_0 : e2[0]? = some (mkPtr bo (baseo + oo), .pub) := by rw [e2fr 0 (by decide)]; exact e0_0
  have e2_3 : e2[3]? = some (msg.length, .pub) := by rw [e2fr 3 (by decide)]; exact e0_3
  have e2_6 : e2[6]? = some (mkPtr bn (basen + noff), .pub) := by rw [e2fr 6 (by decide)]; exact e0_6
  have mk : MK g M0 st2 kws := by
    obtain ⟨X, h1, h2, h3⟩ := ki.obj
    refine ⟨hklen, ⟨X, h1, h2, fun i v hv => h3 i v ?_ hv⟩, ki.oth, ki.msz, ki.ent⟩
    by_cases hi : i < nk
    · exact hi
    · rw [List.getElem?_eq_none (by omega)] at hv; cases hv
  simp only [seqs]
  have hes8 : evalE e2 (.var 8) = .ok (mkPtr g.bs g.baseS, .pub) := by
    show _ = Except.ok (mkPtr st.mem.size 0, Lab.pub); simp only [evalE, e2_8, reduceCtorEq, if_false]
  -- first pass: the tag over nonce, associated data and message
  refine runs_seq (Q := fun e s => e = e2 ∧ MI g M0 s (setup (P kws) pk nonce 0x90) kws) ?_ ?_
  · refine (setup_call g dgN pk hpk sidx fdS hS1 hS2 hS3 hS4 hS5 e2 st2 (.var 8) (.var 6) (.cast .u8 .i32 (.lit 144)) kws noff nonce 0x90 mk
      hes8 (by show _ = Except.ok (mkPtr bn (basen + noff), Lab.pub); simp only [evalE, e2_6, reduceCtorEq, if_false]) rfl bN.hd hnl).weaken ?_
    intro sig e s ⟨h1, h2, h3⟩
    exact ⟨h1, h2, h3⟩
  intro e3 st3 ⟨he3, mi3⟩
  rw [he3]
  refine runs_seq (Q := fun e s => e = e2 ∧ MI g M0 s (absorbData (P kws) 0x30 5 (setup (P kws) pk nonce 0x90) ad) kws) ?_ ?_
  · refine (absorb_call g dgA aidx fdA hA1 hA2 hA3 hA4 hA5 e2 st3 (.var 8) (.var 4) (.var 5) (.cast .u8 .i32 (.lit 48)) (.cast .u32 .i32 (.lit 5)) _ kws aoff ad 0x30 5 mi3
      hes8 (by show _ = Except.ok (mkPtr ba (basea + aoff), Lab.pub); simp only [evalE, e2fr 4 (by decide), e0_4, reduceCtorEq, if_false])
      (by simp only [evalE, e2fr 5 (by decide), e0_5, reduceCtorEq, if_false]) rfl rfl bA.hd (by decide)).weaken ?_
    intro sig e s ⟨h1, h2, h3⟩
    exact ⟨h1, h2, h3⟩
  intro e4 st4 ⟨he4, mi4⟩
  rw [he4]
  refine runs_seq (Q := fun e s => e = e2 ∧ MI g M0 s (absorbData (P kws) 0x50 pk (absorbData (P kws) 0x30 5 (setup (P kws) pk nonce 0x90) ad) msg) kws) ?_ ?_
  · refine (absorb_call g dgM aidx fdA hA1 hA2 hA3 hA4 hA5 e2 st4 (.var 8) (.var 2) (.var 3) (.cast .u8 .i32 (.lit 80)) (rc pk) _ kws moff msg 0x50 pk mi4
      hes8 (by show _ = Except.ok (mkPtr bm (basem + moff), Lab.pub); simp only [evalE, e2fr 2 (by decide), e0_2, reduceCtorEq, if_false])
      (by simp only [evalE, e2_3, reduceCtorEq, if_false]) rfl (evalE_rc e2 pk (by omega)) bM.hd (by omega)).weaken ?_
    intro sig e s ⟨h1, h2, h3⟩
    exact ⟨h1, h2, h3⟩
  intro e5 st5 ⟨he5, mi5⟩
  rw [he5]
  generalize hsT : absorbData (P kws) 0x50 pk (absorbData (P kws) 0x30 5 (setup (P kws) pk nonce 0x90) ad) msg = sT at mi5
  have hM0o : M0[bo]? = some ⟨XO, baseo⟩ := by rw [hM0lt bo (fun e => hsep.1 e.symm) hboN]; exact hO
  have hptr : (mkPtr bo (baseo + oo) + msg.length) % 18446744073709551616 = mkPtr bo (baseo + (oo + msg.length)) := by
    rw [ptr_off bo _ msg.length (by omega) (by omega), Nat.add_assoc]
  have hetag : evalE e2 (.bin .add .u64 (.var 0) (.var 3)) = .ok (mkPtr bo (baseo + (oo + msg.length)), .pub) := by
    simp only [evalE, e2_0, e2_3, reduceCtorEq, if_false, BinOp.needsPub2, BinOp.needsPub1, Bool.false_and, Bool.or_self, Bool.false_eq_true, binVal, Ty.modulus,
      Lab.join_pub_pub, hptr]
  refine runs_seq (Q := fun e s => e = e2 ∧ ∃ XO1 sG, MI g (setBlock M0 bo XO1) s sG kws ∧ XO1.size = XO.size ∧ BytesV XO1 (oo + msg.length) (genTag (P kws) pk sT) ∧
      (∀ p, (p < oo + msg.length ∨ oo + msg.length + 8 ≤ p) → XO1[p]? = XO[p]?)) ?_ ?_
  · refine (gentag_call g pk hpk gidx fdG hG1 hG2 hG3 hG4 hG5 e2 st5 (.var 8) (.bin .add .u64 (.var 0) (.var 3)) sT kws bo baseo (oo + msg.length) XO
      (by show bo ≠ st.mem.size; omega) (by omega) hM0o hltO (by omega) mi5 hes8 hetag).weaken ?_
    intro sig e s ⟨h1, h2, XO1, h3, h4, h5, h6⟩
    exact ⟨h1, h2, XO1, _, h3, h4, h5, h6⟩
  intro e6 st6 ⟨he6, XO1, sG, mi6, hXO1s, htag1, hout1⟩
  rw [he6]
  generalize htagv : genTag (P kws) pk sT = tag at htag1
  have htagl : tag.length = 8 := by rw [← htagv]; simp [genTag, store32]
  -- the derived nonce in the local buffer
  have hM1o : (setBlock M0 bo XO1)[bo]? = some ⟨XO1, baseo⟩ := by rw [getElem?_setBlock', if_pos rfl, hM0o]; rfl
  have hM1ne : ∀ j, j ≠ bo → (setBlock M0 bo XO1)[j]? = M0[j]? := fun j hj => by rw [getElem?_setBlock', if_neg hj]
  obtain ⟨n4, hn4⟩ : ∃ n4, n4 = nonce.take 4 := ⟨_, rfl⟩
  have hn4l : n4.length = 4 := by rw [hn4]; simp [hnl]
  have hn4d : BytesV XN noff n4 := by
    have := bN.hd; rw [← List.take_append_drop 4 nonce, ← hn4] at this; exact bytesV_prefix this
  refine runs_seq (Q := fun e s => e = setVar e2 (12 + 5 * nk) (mkPtr (st.mem.size + 1) 0, .pub) ∧ ∃ XD1, MI g (setBlock (setBlock M0 bo XO1) (st.mem.size + 1) XD1) s sG kws ∧
      XD1.size = 12 ∧ BytesV XD1 0 n4) ?_ ?_
  · refine runs_seq (Q := fun e s => e = e2 ∧ ∃ XD1, MI g (setBlock (setBlock M0 bo XO1) (st.mem.size + 1) XD1) s sG kws ∧ XD1.size = 12 ∧ BytesV XD1 0 n4) ?_ ?_
    · refine mi_memcpy mi6 (.var 9) (.var 6) (.cast .u64 .i32 (.lit 4)) (st.mem.size + 1) 0 0 (Array.replicate 12 (0, .undef)) bn basen noff XN n4
        (by show st.mem.size + 1 ≠ st.mem.size; omega) (by show bn ≠ st.mem.size; omega) (by rw [hM1ne _ (by omega)]; exact hM0t)
        (by rw [hM1ne bn (fun e => hbon e.symm), hM0lt bn (fun e => hsep.2.2.2.1 e.symm) hbnN]; exact bN.hm) hn4d (by omega) (by simp; omega) (by simp [ptrBase]) bN.hlt
        (by simp only [evalE, e2_9, reduceCtorEq, if_false, Nat.add_zero]) (by simp only [evalE, e2_6, reduceCtorEq, if_false])
        (by simp only [evalE, castVal_u64_i32_lit 4 (by decide), hn4l]) ?_
      intro s' XD' h1 h2 h3 _
      exact ⟨rfl, rfl, XD', h1, by rw [h2]; simp, h3⟩
    · intro e s ⟨he, h⟩
      rw [he]
      exact runs_assign _ (by simp only [evalE, e2_9, reduceCtorEq, if_false]) ⟨rfl, rfl, h⟩
  intro e7 st7 ⟨he7, XD1, mi7, hXD1s, hXD1d⟩
  rw [he7]
  have fr7 : ∀ y, y ≠ 12 + 5 * nk → (setVar e2 (12 + 5 * nk) (mkPtr (st.mem.size + 1) 0, Lab.pub))[y]? = e2[y]? := fun y hy => get_set_ne _ _ _ _ (fun e => hy e.symm)
  have hp94 : (mkPtr (st.mem.size + 1) 0 + 4) % 18446744073709551616 = mkPtr (st.mem.size + 1) (0 + 4) := ptr_off _ 0 4 (by omega) (by simp [ptrBase])
  have he94 : ∀ e : Env, e[9]? = some (mkPtr (st.mem.size + 1) 0, .pub) → evalE e (.bin .add .u64 (.var 9) (.lit 4)) = .ok (mkPtr (st.mem.size + 1) (0 + 4), .pub) := by
    intro e h
    simp only [evalE, h, reduceCtorEq, if_false, BinOp.needsPub2, BinOp.needsPub1, Bool.false_and, Bool.or_self, Bool.false_eq_true, binVal, Ty.modulus, Lab.join_pub_pub, hp94]
  have hM2t : (setBlock (setBlock M0 bo XO1) (st.mem.size + 1) XD1)[st.mem.size + 1]? = some ⟨XD1, 0⟩ := by
    rw [getElem?_setBlock', if_pos rfl, hM1ne _ (by omega), hM0t]; rfl
  refine runs_seq (Q := fun e s => e = setVar (setVar e2 (12 + 5 * nk) (mkPtr (st.mem.size + 1) 0, .pub)) (13 + 5 * nk) (mkPtr (st.mem.size + 1) (0 + 4), .pub) ∧
      ∃ XD2, MI g (setBlock (setBlock M0 bo XO1) (st.mem.size + 1) XD2) s sG kws ∧ XD2.size = 12 ∧ BytesV XD2 0 (sivNonce nonce tag)) ?_ ?_
  · refine runs_seq (Q := fun e s => e = setVar e2 (12 + 5 * nk) (mkPtr (st.mem.size + 1) 0, .pub) ∧
        ∃ XD2, MI g (setBlock (setBlock M0 bo XO1) (st.mem.size + 1) XD2) s sG kws ∧ XD2.size = 12 ∧ BytesV XD2 0 (sivNonce nonce tag)) ?_ ?_
    · refine mi_memcpy mi7 (.bin .add .u64 (.var 9) (.lit 4)) (.bin .add .u64 (.var 0) (.var 3)) (.cast .u64 .i32 (.lit 8)) (st.mem.size + 1) 0 4 XD1 bo baseo (oo + msg.length) XO1 tag
        (by show st.mem.size + 1 ≠ st.mem.size; omega) (by show bo ≠ st.mem.size; omega) hM2t
        (by rw [getElem?_setBlock', if_neg (by omega)]; exact hM1o) htag1 (by omega) (by rw [hXD1s, htagl]; decide) (by rw [hXD1s]; simp [ptrBase]) (by rw [hXO1s]; exact hltO)
        (he94 _ (by rw [fr7 9 (by omega)]; exact e2_9))
        (by
          simp only [evalE, fr7 0 (by omega), fr7 3 (by omega), e2_0, e2_3, reduceCtorEq, if_false, BinOp.needsPub2, BinOp.needsPub1, Bool.false_and, Bool.or_self, Bool.false_eq_true, binVal,
            Ty.modulus, Lab.join_pub_pub, hptr])
        (by simp only [evalE, castVal_u64_i32_lit 8 (by decide), htagl]) ?_
      intro s' XD' h1 h2 h3 h4
      rw [setBlock_setBlock _ _ _ _ ⟨Array.replicate 12 (0, .undef), 0⟩ (by rw [hM1ne _ (by omega)]; exact hM0t)] at h1
      refine ⟨rfl, rfl, XD', h1, by rw [h2]; exact hXD1s, ?_⟩
      refine sivNonce_bytes ?_ h3 hnl
      rw [← hn4]
      refine ⟨by rw [h2, hXD1s, hn4l]; decide, fun k b hk => ?_⟩
      have hk4 : k < 4 := by
        by_cases hh : k < 4
        · exact hh
        · rw [List.getElem?_eq_none (by omega)] at hk; cases hk
      obtain ⟨l, hx, hl⟩ := hXD1d.2 k b hk
      exact ⟨l, by rw [h4 _ (Or.inl (by omega))]; exact hx, hl⟩
    · intro e s ⟨he, h⟩
      rw [he]
      exact runs_assign _ (he94 _ (by rw [fr7 9 (by omega)]; exact e2_9)) ⟨rfl, rfl, h⟩
  intro e8 st8 ⟨he8, XD2, mi8, hXD2s, hXD2d⟩
  generalize hM3 : setBlock (setBlock M0 bo XO1) (st.mem.size + 1) XD2 = M3 at mi8
  have hM3t : M3[st.mem.size + 1]? = some ⟨XD2, 0⟩ := by rw [← hM3, getElem?_setBlock', if_pos rfl, hM1ne _ (by omega), hM0t]; rfl
  have hM3ne : ∀ j, j ≠ st.mem.size + 1 → M3[j]? = (setBlock M0 bo XO1)[j]? := fun j hj => by rw [← hM3, getElem?_setBlock', if_neg hj]
  have hM3sz : M3.size = st.mem.size + 2 := by rw [← hM3, size_setBlock', size_setBlock']; exact hM0sz
  have fr8 : ∀ y, y ≠ 12 + 5 * nk → y ≠ 13 + 5 * nk → e8[y]? = e2[y]? := fun y h1 h2 => by
    rw [he8, get_set_ne _ _ _ _ (fun e => h2 e.symm)]; exact fr7 y h1
  have hE8sz : e8.size = 14 + 5 * nk + 33 := by rw [he8, size_setVar, size_setVar]; exact hE2sz
  have e8_8 : e8[8]? = some (mkPtr st.mem.size 0, .pub) := by rw [fr8 8 (by omega) (by omega)]; exact e2_8
  have hes8' : evalE e8 (.var 8) = .ok (mkPtr g.bs g.baseS, .pub) := by
    show _ = Except.ok (mkPtr st.mem.size 0, Lab.pub); simp only [evalE, e8_8, reduceCtorEq, if_false]
  let dgL : DGeo g M3 := ⟨st.mem.size + 1, 0, XD2, by show st.mem.size + 1 ≠ st.mem.size; omega, by omega, by rw [hXD2s]; simp [ptrBase], hM3t⟩
  -- second pass
  refine runs_seq (Q := fun e s => e = e8 ∧ MI g M3 s (setup (P kws) pk (sivNonce nonce tag) 0xB0) kws) ?_ ?_
  · refine (setup_call g dgL pk hpk sidx fdS hS1 hS2 hS3 hS4 hS5 e8 st8 (.var 8) (.var 9) (.cast .u8 .i32 (.lit 176)) kws 0 (sivNonce nonce tag) 0xB0 mi8.toMK
      hes8' (by show _ = Except.ok (mkPtr (st.mem.size + 1) (0 + 0), Lab.pub); simp only [evalE, fr8 9 (by omega) (by omega), e2_9, reduceCtorEq, if_false]) rfl hXD2d
      (by simp [sivNonce, hnl, htagl])).weaken ?_
    intro sig e s ⟨h1, h2, h3⟩
    exact ⟨h1, h2, h3⟩
  intro e9 st9 ⟨he9, mi9⟩
  rw [he9]
  generalize hs0 : setup (P kws) pk (sivNonce nonce tag) 0xB0 = s0 at mi9
  have hM3o : M3[bo]? = some ⟨XO1, baseo⟩ := by rw [hM3ne bo (by omega)]; exact hM1o
  have hM3m : ∃ XMg, M3[bm]? = some ⟨XMg, basem⟩ ∧ XMg.size = XM.size ∧ BytesV XMg (moff + 0) msg := by
    rcases hdisj with hne | ⟨heq, hoff⟩
    · exact ⟨XM, by rw [hM3ne bm (by omega), hM1ne bm hne, hM0lt bm (fun e => hsep.2.1 e.symm) hbmN]; exact bM.hm, rfl, bM.hd⟩
    · have hXeq : XM = XO ∧ basem = baseo := by
        have h1 := bM.hm; rw [heq, hO] at h1
        injection h1 with h1; injection h1 with h2 h3; exact ⟨h2.symm, h3.symm⟩
      refine ⟨XO1, by rw [heq, hXeq.2]; exact hM3o, by rw [hXO1s, hXeq.1], ⟨?_, fun k b hk => ?_⟩⟩
      · rw [hXO1s, hoff]; omega
      · have hkl : k < msg.length := by
          by_cases hh : k < msg.length
          · exact hh
          · rw [List.getElem?_eq_none (by omega)] at hk; cases hk
        obtain ⟨l, hx, hl⟩ := bM.hd.2 k b hk
        rw [hXeq.1, hoff] at hx
        exact ⟨l, by rw [hoff, Nat.add_zero, hout1 _ (Or.inl (by omega))]; exact hx, hl⟩
  obtain ⟨XMg, hMg, hMgs, hMgd⟩ := hM3m
  let eg : EGeo g := ⟨bo, baseo, oo, XO.size, bm, basem, moff, XM.size, by show bo ≠ st.mem.size; omega, by show bm ≠ st.mem.size; omega, by omega, by omega, hltO, bM.hlt, hdisj, XO1, M3⟩
  have ei0 : EI g eg M3 (14 + 5 * nk + 33) e8 st9 s0 kws [] msg :=
    ⟨⟨hE8sz, e8_8, mi9.klen, mi9.obj, mi9.oth, mi9.msz, mi9.ent⟩, by rw [fr8 0 (by omega) (by omega)]; exact e2_0,
     by rw [fr8 2 (by omega) (by omega), e2fr 2 (by decide)]; exact e0_2, by rw [fr8 3 (by omega) (by omega)]; exact e2_3, ⟨XMg, hMg, hMgs, hMgd⟩,
     ⟨XO1, hM3o, hXO1s, ⟨by show oo + 0 ≤ XO1.size; rw [hXO1s]; omega, fun k b hk => by simp at hk⟩, fun _ _ => rfl⟩, fun _ _ => rfl, by show oo + 0 + msg.length + 8 ≤ XO.size; omega⟩
  refine runs_seq (Q := fun e s => ∃ M4, EI g eg M4 (14 + 5 * nk + 33) e s (sivWordsS (P kws) pk s0 msg) kws ([] ++ sivWordsC (P kws) pk s0 msg) (absRest msg))
    (siv_loop eg (by omega) pk hpk msg M3 e8 st9 s0 [] ei0) ?_
  intro e10 st10 ⟨M4, ei10⟩
  rw [List.nil_append] at ei10
  refine (siv_tail eg (by omega) pk hpk ei10 (absRest_lt msg)).weaken ?_
  intro sig e11 st11 ⟨_, M5, sF, ef⟩
  -- back in the caller
  have hsplit := sivBody_split (P kws) pk s0 msg
  generalize hct : sivWordsC (P kws) pk s0 msg = ct at ef hsplit
  generalize htb : sivBody (P kws) pk (sivWordsS (P kws) pk s0 msg) (absRest msg) = tb at ef hsplit
  obtain ⟨XO5, hM5o, hXO5s, hdo5, hout5⟩ := ef.ho
  have hout5' : ∀ p, p < oo ∨ oo + (ct ++ tb).length ≤ p → XO5[p]? = XO1[p]? := hout5
  have hlen : (ct ++ tb).length = msg.length := by rw [← hsplit]; exact sivBody_length _ _ _ _
  have hoth5 : ∀ j, j ≠ bo → M5[j]? = M3[j]? := ef.oth0
  have hM5sz : M5.size = st.mem.size + 2 := by
    have h1 := hoth5 (st.mem.size + 1) (by omega)
    have h2 := hoth5 (st.mem.size + 2) (by omega)
    rw [hM3t] at h1
    rw [Array.getElem?_eq_none (show M3.size ≤ st.mem.size + 2 by omega)] at h2
    have a : st.mem.size + 1 < M5.size := mem_lt h1
    have b : M5.size ≤ st.mem.size + 2 := by
      by_cases h : M5.size ≤ st.mem.size + 2
      · exact h
      · rw [Array.getElem?_eq_getElem (show st.mem.size + 2 < M5.size by omega)] at h2; cases h2
    omega
  have hmsz11 : st11.mem.size = st.mem.size + 2 := by rw [ef.ai.msz]; exact hM5sz
  have hlk : ∀ j, j < st.mem.size → (st11.mem.extract 0 st.mem.size)[j]? = st11.mem[j]? := by
    intro j hj
    rw [Array.getElem?_extract, hmsz11]
    have : j < min st.mem.size (st.mem.size + 2) - 0 := by omega
    simp only [this, if_true, Nat.zero_add]
  have hexs : (st11.mem.extract 0 st.mem.size).size = st.mem.size := by rw [Array.size_extract, hmsz11]; omega
  have hoth11 : ∀ j, j ≠ st.mem.size → ORel BlockLe st11.mem[j]? M5[j]? := ef.ai.oth
  have hfin : BytesV XO5 oo (sivEncryptWith (P kws) pk nonce ad msg) := by
    have e : sivEncryptWith (P kws) pk nonce ad msg = (ct ++ tb) ++ tag := by
      unfold sivEncryptWith sivTag
      simp only []
      rw [hsT, htagv, hs0, hsplit]
    rw [e]
    refine bytesV_snoc hdo5 rfl (by rw [hXO5s, hlen, htagl]; omega) (fun p _ => rfl) (fun k c hk => ?_)
    obtain ⟨l, hx, hl⟩ := htag1.2 k c hk
    have hk8 : k < 8 := by
      by_cases hh : k < 8
      · exact hh
      · rw [List.getElem?_eq_none (by omega)] at hk; cases hk
    exact ⟨l, by rw [hout5' _ (Or.inr (by omega)), hlen]; exact hx, hl⟩
  refine ⟨trivial, trivial, ef.ai.ent, hexs, ?_, ?_, fun j hjo hjl => ?_⟩
  · have h := hoth11 bo (by omega)
    rw [hM5o] at h
    cases hb : st11.mem[bo]? with
    | none => rw [hb] at h; exact h.elim
    | some blk =>
      rw [hb] at h
      have hbase : blk.base = baseo := h.1
      have hle : BytesLe blk.bytes XO5 := h.2
      refine ⟨blk, by show (st11.mem.extract 0 st.mem.size)[bo]? = _; rw [hlk bo hboN]; exact hb, hbase, by rw [hle.size_eq]; exact hXO5s, ?_, fun q hq => ?_⟩
      · exact ⟨by rw [hle.size_eq]; exact hfin.1, fun k b hk => (hfin.2 k b hk).lower hle⟩
      · have := hle q
        rw [hout5' q (by omega), hout1 q (by omega)] at this
        exact this
  · have h := hoth11 bl (by omega)
    rw [hoth5 bl hsep.1, hM3ne bl (by omega), hM1ne bl hsep.1, hM0l] at h
    show ORel BlockLe (st11.mem.extract 0 st.mem.size)[bl]? _
    rw [hlk bl hblN]; exact h
  · show ORel BlockLe (st11.mem.extract 0 st.mem.size)[j]? st.mem[j]?
    by_cases hjn : j < st.mem.size
    · have h := hoth11 j (by omega)
      rw [hoth5 j hjo, hM3ne j (by omega), hM1ne j hjo, hM0lt j hjl hjn] at h
      rw [hlk j hjn]; exact h
    · rw [Array.getElem?_eq_none (by rw [hexs]; omega), Array.getElem?_eq_none (by omega)]
      trivial

end TJ.MiniC.Hoare
