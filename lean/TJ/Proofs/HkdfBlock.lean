/-
  TJ.Proofs.HkdfBlock — one output block of `tinyjambu_hkdf_expand` on the regenerated term: `hmac_init(&hmac, prk)`, the optional
  `hmac_update(&hmac, out)`, `hmac_update(&hmac, info)`, `hmac_update(&hmac, &counter, 1)`, `hmac_finalize(&hmac, prk, out)`, `hmac_free(&hmac)`.
  Key, data, counter byte and output all live in the HKDF state block; the public `counter` and `posn` bytes stay public throughout.
-/
import TJ.Proofs.HmacK
import TJ.Proofs.HkdfCore
import TJ.Proofs.HashDfCore
import TJ.Props.C12
namespace TJ.MiniC.Hoare
open TJ TJ.MiniC TJ.MiniC.PermC TJ.Gen.MiniC

/-- the HKDF state block after a step: same size, every value and definedness kept, and outside the `out` field no label has risen -/
def KRel (X' X : Array LByte) : Prop :=
  X'.size = X.size ∧ (∀ q : Nat, ORel VEq X'[q]? X[q]?) ∧ ∀ q : Nat, (q < 32 ∨ 64 ≤ q) → ORel VLe X'[q]? X[q]?

theorem KRel.of_le {X' X : Array LByte} (h : BytesLe X' X) : KRel X' X :=
  ⟨ARel.size_eq h, fun q => orel_vle_veq (h q), fun q _ => h q⟩

theorem KRel.trans {A B C : Array LByte} (h1 : KRel A B) (h2 : KRel B C) : KRel A C :=
  ⟨h1.1.trans h2.1, fun q => orel_trans (R := VEq) (fun _ _ _ p r => VEq.trans p r) (h1.2.1 q) (h2.2.1 q),
   fun q hq => orel_trans (R := VLe) (fun _ _ _ p r => vle_trans p r) (h1.2.2 q hq) (h2.2.2 q hq)⟩

theorem pub_of_vle {X' X : Array LByte} {q : Nat} {c : UInt8} (h : ORel VLe X'[q]? X[q]?) (hx : X[q]? = some (c, .pub)) : X'[q]? = some (c, .pub) := by
  rw [hx] at h
  cases hz : X'[q]? with
  | none => rw [hz] at h; exact h.elim
  | some z =>
    rw [hz] at h
    obtain ⟨z1, z2⟩ := z
    have e1 : z1 = c := h.1
    have e2 : Lab.le z2 .pub := h.2
    cases z2 <;> first | rfl | exact e2.elim | (rw [e1])

theorem bytesV_of_oveq {Z Y : Array LByte} (hs : Z.size = Y.size) (h : ∀ q : Nat, ORel VEq Z[q]? Y[q]?) {off : Nat} {bs : Bytes} (hd : BytesV Y off bs) : BytesV Z off bs := by
  refine ⟨by rw [hs]; exact hd.1, fun k b hk => ?_⟩
  obtain ⟨l, hx, hl⟩ := hd.2 k b hk
  have := h (off + k)
  rw [hx] at this
  cases hz : Z[off + k]? with
  | none => rw [hz] at this; exact this.elim
  | some z =>
    rw [hz] at this
    obtain ⟨z1, z2⟩ := z
    have e1 : z1 = b := this.1
    have e2 : (z2 = Lab.undef) = (l = Lab.undef) := this.2
    exact ⟨z2, by rw [hz, e1], fun hu => hl (e2 ▸ hu)⟩

theorem KObjV.keep {X' X : Array LByte} {k : KState} {od : Prop} (o : KObjV X k od) (r : KRel X' X) : KObjV X' k od :=
  ⟨by rw [r.1]; exact o.sz, bytesV_of_oveq r.1 r.2.1 o.prk, o.prkl, fun h => bytesV_of_oveq r.1 r.2.1 (o.out h), o.outl,
   pub_of_vle (r.2.2 64 (Or.inr (Nat.le_refl _))) o.cnt, pub_of_vle (r.2.2 65 (Or.inr (by decide))) o.posn⟩

theorem krel_of_ble {m : Array Block} {b : Nat} {X : Array LByte} {base : Nat} (h : ORel BlockLe m[b]? (some ⟨X, base⟩)) :
    ∃ X', m[b]? = some ⟨X', base⟩ ∧ KRel X' X := by
  obtain ⟨Z, h1, _, h3⟩ := le_block h
  exact ⟨Z, h1, KRel.of_le h3⟩

theorem krel_of_keep {W : Nat → Prop} {m : Array Block} {b : Nat} {X : Array LByte} {base : Nat} (hk : ORel (KeepB W) m[b]? (some ⟨X, base⟩))
    (hv : ORel BlockEqV m[b]? (some ⟨X, base⟩)) (hw : ∀ q, W q → 32 ≤ q ∧ q < 64) : ∃ X', m[b]? = some ⟨X', base⟩ ∧ KRel X' X := by
  cases hb : m[b]? with
  | none => rw [hb] at hk; exact hk.elim
  | some blk =>
    rw [hb] at hk hv
    have h1 : blk.base = base := hk.1
    exact ⟨blk.bytes, by rw [← h1], hk.2.1, hv.2, fun q hq => hk.2.2 q (fun w => by have := hw q w; omega)⟩

theorem prog_hmac_free' : prog[idx_tinyjambu_hmac_free]? = some f_tinyjambu_hmac_free := by
  simp only [prog, idx_tinyjambu_hmac_free, List.getElem?_cons_succ, List.getElem?_cons_zero]

theorem bytesV_of_vle_win {Z Y : Array LByte} (hs : Z.size = Y.size) {off : Nat} {bs : Bytes} (h : ∀ q : Nat, off ≤ q → q < off + bs.length → ORel VLe Z[q]? Y[q]?)
    (hd : BytesV Y off bs) : BytesV Z off bs := by
  refine ⟨by rw [hs]; exact hd.1, fun i b hi => ?_⟩
  have hil : i < bs.length := by
    by_cases hh : i < bs.length
    · exact hh
    · rw [List.getElem?_eq_none (by omega)] at hi; cases hi
  obtain ⟨l, hx, hl⟩ := hd.2 i b hi
  have := orel_vle_veq (h (off + i) (by omega) (by omega))
  rw [hx] at this
  cases hz : Z[off + i]? with
  | none => rw [hz] at this; exact this.elim
  | some z =>
    rw [hz] at this
    obtain ⟨z1, z2⟩ := z
    have e1 : z1 = b := this.1
    have e2 : (z2 = Lab.undef) = (l = Lab.undef) := this.2
    exact ⟨z2, by rw [hz, e1], fun hu => hl (e2 ▸ hu)⟩

/-- the state of the MAC computation inside one output block -/
structure KMI (env : Env) (st : St) (bK L baseK : Nat) (XK : Array LByte) (hh : HState) (e : Env) (s : St) : Prop where
  fr : ∀ y, y ≠ 15 → e[y]? = env[y]?
  esz : e.size = 21
  ent : s.ent = st.ent
  msz : s.mem.size = st.mem.size
  loc : ∃ Xl, s.mem[L]? = some ⟨Xl, 0⟩ ∧ Xl.size = 56 ∧ HObjV Xl hh
  key : ∃ X', s.mem[bK]? = some ⟨X', baseK⟩ ∧ KRel X' XK
  oth : ∀ j, j ≠ bK → j ≠ L → ORel BlockEqV s.mem[j]? st.mem[j]?


theorem KMI.of_eq {env : Env} {st : St} {bK L baseK : Nat} {XK : Array LByte} {hh : HState} {e e' : Env} {s s' : St} (m : KMI env st bK L baseK XK hh e s)
    (hm : s'.mem = s.mem) (he : s'.ent = s.ent) (hf : ∀ y, y ≠ 15 → e'[y]? = e[y]?) (hs : e'.size = e.size) : KMI env st bK L baseK XK hh e' s' :=
  ⟨fun y hy => (hf y hy).trans (m.fr y hy), hs.trans m.esz, he.trans m.ent, by rw [hm]; exact m.msz, by rw [hm]; exact m.loc, by rw [hm]; exact m.key,
   fun j h1 h2 => by rw [hm]; exact m.oth j h1 h2⟩

/-- `tinyjambu_hmac_update(&hmac, p, n)` inside the block computation, the data lying in any block other than the local state (the `out` field of the
    HKDF state block included) -/
theorem kmi_update {env : Env} {st : St} {bK L baseK : Nat} {XK : Array LByte} {hh : HState} {e : Env} {s : St} (m : KMI env st bK L baseK XK hh e s)
    (ed el : Expr) (bd based off : Nat) (XD : Array LByte) (data : Bytes) (h6 : env[6]? = some (mkPtr L 0, .pub))
    (hed : evalE e ed = .ok (mkPtr bd (based + off), .pub)) (hel : evalE e el = .ok (data.length, .pub))
    (hD : s.mem[bd]? = some ⟨XD, based⟩) (hd : BytesV XD off data) (hbdL : bd ≠ L) (hlt : based + XD.size < ptrBase)
    (hwin : bd = bK → 32 ≤ off ∧ off + data.length ≤ 64) (hnL : L ≠ bK) (hsz : st.mem.size + 5 < 2 ^ 30) :
    RunsTo prog (.call none 39 [.var 6, ed, el]) e s (fun sig e' s' => sig = .normal ∧ KMI env st bK L baseK XK (hmacUpdate hh data) e' s') := by
  obtain ⟨Xl, hXl, hXls, hol⟩ := m.loc
  obtain ⟨X', hX', hr'⟩ := m.key
  have hLN := mem_lt hXl
  have hbdN := mem_lt hD
  have hms := m.msz
  refine (hmac_update_callK e s (.var 6) ed el L bd Xl XD 0 based off hh data (by simp only [evalE, (m.fr 6 (by decide)).trans h6, reduceCtorEq, if_false]) hed hel hXl hD hbdL hol rfl
    (by rw [hXls]; simp [ptrBase]) hlt (by omega) (by omega) (by omega) hd).weaken ?_
  intro sig e' s' ⟨g1, g2, g3, g4, gk, gv, X2, g5, g6, g7⟩
  refine ⟨g1, fun y hy => by rw [g2]; exact m.fr y hy, by rw [g2]; exact m.esz, g3.trans m.ent, g4.trans m.msz, ⟨X2, g5, by rw [g6]; exact hXls, g7⟩, ?_, fun j hj hjL => ?_⟩
  · have a := gk bK hnL.symm
    have b := gv bK hnL.symm
    rw [hX'] at a b
    obtain ⟨X3, hX3, hr3⟩ := krel_of_keep a b (fun q hq => by have := hwin hq.1.symm; omega)
    exact ⟨X3, hX3, hr3.trans hr'⟩
  · exact orel_trans (R := BlockEqV) (fun _ _ _ p q => BlockEqV.trans p q) (gv j hjL) (m.oth j hj hjL)

/-- `tinyjambu_hmac_update(&hmac, &counter, 1)` inside the block computation -/
theorem kmi_update1 {env : Env} {st : St} {bK L baseK : Nat} {XK : Array LByte} {hh : HState} {e : Env} {s : St} (m : KMI env st bK L baseK XK hh e s)
    (ed el : Expr) (k : KState) (od : Prop) (ho : KObjV XK k od) (h6 : env[6]? = some (mkPtr L 0, .pub))
    (hed : evalE e ed = .ok (mkPtr bK (baseK + 64), .pub)) (hel : evalE e el = .ok (1, .pub))
    (hltK : baseK + XK.size < ptrBase) (hnL : L ≠ bK) (hsz : st.mem.size + 5 < 2 ^ 30) :
    RunsTo prog (.call none 39 [.var 6, ed, el]) e s (fun sig e' s' => sig = .normal ∧ KMI env st bK L baseK XK (hmacUpdate hh [k.counter]) e' s') := by
  obtain ⟨Xl, hXl, hXls, hol⟩ := m.loc
  obtain ⟨X', hX', hr'⟩ := m.key
  have hLN := mem_lt hXl
  have hms := m.msz
  have o' : KObjV X' k od := ho.keep hr'
  refine (hmac_update1_call e s (.var 6) ed el L bK Xl X' 0 baseK 64 hh k.counter .pub (by simp only [evalE, (m.fr 6 (by decide)).trans h6, reduceCtorEq, if_false]) hed hel hXl hX'
    hnL.symm hol rfl (by rw [hXls]; simp [ptrBase]) (by rw [hr'.1]; exact hltK) (by omega) (by omega) o'.cnt (by decide)).weaken ?_
  intro sig e' s' ⟨g1, g2, g3, g4, gl, X2, g5, g6, g7⟩
  refine ⟨g1, fun y hy => by rw [g2]; exact m.fr y hy, by rw [g2]; exact m.esz, g3.trans m.ent, g4.trans m.msz, ⟨X2, g5, by rw [g6]; exact hXls, g7⟩, ?_, fun j hj hjL => ?_⟩
  · have a := gl bK hnL.symm
    rw [hX'] at a
    obtain ⟨X3, hX3, hr3⟩ := krel_of_ble a
    exact ⟨X3, hX3, hr3.trans hr'⟩
  · exact orel_trans (R := BlockEqV) (fun _ _ _ p q => BlockEqV.trans p q) (orel_map (R := BlockLe) (S := BlockEqV) (fun _ _ h => BlockLe.toEqV h) (gl j hjL)) (m.oth j hj hjL)

/-- **one output block of HKDF-Expand**: `T = HMAC(prk, [T_prev] ‖ info ‖ counter)` lands in the `out` field of the state; `counter`, `posn` and
    `prk` are untouched and the two public bytes stay public; the local HMAC state is wiped. -/
theorem expand_mac (env : Env) (st : St) (bK L : Nat) (XK : Array LByte) (baseK : Nat) (k : KState) (od : Prop) (info : Bytes) (pinfo bi basei ioff : Nat) (XI : Array LByte)
    (hesz : env.size = 21) (h1 : env[1]? = some (pinfo, .pub)) (h2 : env[2]? = some (info.length, .pub)) (h5 : env[5]? = some (mkPtr bK baseK, .pub))
    (h6 : env[6]? = some (mkPtr L 0, .pub))
    (hK : st.mem[bK]? = some ⟨XK, baseK⟩) (ho : KObjV XK k od) (hod : k.counter ≠ 1 → od)
    (hL : ∃ Lb, st.mem[L]? = some ⟨Lb, 0⟩ ∧ Lb.size = 56)
    (hI : info = [] ∨ (st.mem[bi]? = some ⟨XI, basei⟩ ∧ BytesV XI ioff info ∧ pinfo = mkPtr bi (basei + ioff) ∧ bi ≠ L ∧ bi ≠ bK ∧ basei + XI.size < ptrBase))
    (hnL : L ≠ bK) (hltK : baseK + XK.size < ptrBase) (hsz : st.mem.size + 5 < 2 ^ 30)
    (more : Stmt) {Q : Sig → Env → St → Prop}
    (hQ : ∀ e s, (∀ y, y ≠ 15 → e[y]? = env[y]?) → e.size = 21 → s.ent = st.ent → s.mem.size = st.mem.size →
      (∃ XK', s.mem[bK]? = some ⟨XK', baseK⟩ ∧ XK'.size = XK.size ∧
        KObjV XK' { k with out := hmac k.prk ((if k.counter ≠ 1 then k.out else []) ++ info ++ [k.counter]) } True) →
      (∃ Lb, s.mem[L]? = some ⟨Lb, 0⟩ ∧ Lb.size = 56) →
      (∀ j, j ≠ bK → j ≠ L → ORel BlockEqV s.mem[j]? st.mem[j]?) → RunsTo prog more e s Q) :
    RunsTo prog (.seq (.call none 36 [.var 6, .var 5, .lit 32])
      (.seq (.seq (.load 15 .u8 (.bin .add .u64 (.var 5) (.lit 64)))
              (.ite (.bin .ne .i32 (.cast .i32 .u8 (.var 15)) (.lit 1)) (.call none 39 [.var 6, .bin .add .u64 (.var 5) (.lit 32), .lit 32]) .skip))
        (.seq (.call none 39 [.var 6, .var 1, .var 2])
          (.seq (.call none 39 [.var 6, .bin .add .u64 (.var 5) (.lit 64), .cast .u64 .i32 (.lit 1)])
            (.seq (.call none 34 [.var 6, .var 5, .lit 32, .bin .add .u64 (.var 5) (.lit 32)])
              (.seq (.call none 35 [.var 6]) more)))))) env st Q := by
  obtain ⟨Lb, hLb, hLbs⟩ := hL
  have hbKN := mem_lt hK
  have hLN := mem_lt hLb
  have hbK30 : bK < 2 ^ 30 := by omega
  have hL30 : L < 2 ^ 30 := by omega
  have hKsz := ho.sz
  have hp32 : (mkPtr bK baseK + 32) % 18446744073709551616 = mkPtr bK (baseK + 32) := ptr_off bK baseK 32 hbK30 (by omega)
  have hp64 : (mkPtr bK baseK + 64) % 18446744073709551616 = mkPtr bK (baseK + 64) := ptr_off bK baseK 64 hbK30 (by omega)
  have ev5 : ∀ e : Env, e[5]? = some (mkPtr bK baseK, .pub) → evalE e (.var 5) = .ok (mkPtr bK (baseK + 0), .pub) := fun e h => by
    simp only [evalE, h, reduceCtorEq, if_false, Nat.add_zero]
  have ev6 : ∀ e : Env, e[6]? = some (mkPtr L 0, .pub) → evalE e (.var 6) = .ok (mkPtr L 0, .pub) := fun e h => by
    simp only [evalE, h, reduceCtorEq, if_false]
  have ev32 : ∀ e : Env, e[5]? = some (mkPtr bK baseK, .pub) → evalE e (.bin .add .u64 (.var 5) (.lit 32)) = .ok (mkPtr bK (baseK + 32), .pub) := fun e h => by
    simp only [evalE, h, reduceCtorEq, if_false, BinOp.needsPub2, BinOp.needsPub1, Bool.false_and, Bool.or_self, Bool.false_eq_true, binVal, Ty.modulus, Lab.join_pub_pub, hp32]
  have ev64 : ∀ e : Env, e[5]? = some (mkPtr bK baseK, .pub) → evalE e (.bin .add .u64 (.var 5) (.lit 64)) = .ok (mkPtr bK (baseK + 64), .pub) := fun e h => by
    simp only [evalE, h, reduceCtorEq, if_false, BinOp.needsPub2, BinOp.needsPub1, Bool.false_and, Bool.or_self, Bool.false_eq_true, binVal, Ty.modulus, Lab.join_pub_pub, hp64]
  have evl32 : ∀ e : Env, evalE e (.lit 32) = .ok (k.prk.length, .pub) := fun e => by rw [ho.prkl]; rfl
  -- hmac_init(&hmac, prk, 32)
  refine runs_seq (Q := fun e s => KMI env st bK L baseK XK (hmacInit HState.fresh k.prk) e s) ?_ ?_
  · refine (hmac_init_callK env st (.var 6) (.var 5) (.lit 32) L bK Lb XK 0 baseK 0 HState.fresh k.prk (ev6 env h6) (ev5 env h5) (evl32 env) hLb hK hnL.symm (by omega) rfl
      (by rw [hLbs]; simp [ptrBase]) hltK ho.prk (by rw [ho.prkl]; decide) (by omega)).weaken ?_
    intro sig e s ⟨g1, g2, g3, g4, ⟨X1, g5, g6, g7⟩, g8⟩
    refine ⟨g1, fun _ _ => by rw [g2], by rw [g2]; exact hesz, g3, g4, ⟨X1, g5, by rw [g6]; exact hLbs, g7⟩, ?_, fun j hj hjL => ?_⟩
    · exact krel_of_ble (by have := g8 bK hnL.symm; rw [hK] at this; exact this)
    · exact orel_map (R := BlockLe) (S := BlockEqV) (fun _ _ h => BlockLe.toEqV h) (g8 j hjL)
  intro e1 s1 m1
  have h1h : hmacInit HState.fresh k.prk = ([] : List Bytes).foldl hmacUpdate (hmacInit HState.fresh k.prk) := rfl
  rw [h1h] at m1
  have e1_5 : e1[5]? = some (mkPtr bK baseK, .pub) := (m1.fr 5 (by decide)).trans h5
  -- if (counter != 1) hmac_update(&hmac, out, 32)
  refine runs_seq (Q := fun e s => ∃ cs : List Bytes, KMI env st bK L baseK XK (cs.foldl hmacUpdate (hmacInit HState.fresh k.prk)) e s ∧
      cs.flatten = (if k.counter ≠ 1 then k.out else [])) ?_ ?_
  · obtain ⟨X1, hX1, hr1⟩ := m1.key
    have o1 : KObjV X1 k od := ho.keep hr1
    refine runs_seq (Q := fun e s => e = setVar e1 15 (k.counter.toNat, .pub) ∧ s.mem = s1.mem ∧ s.ent = s1.ent)
      (load_pub_byte 15 _ bK baseK 64 X1 k.counter (ev64 e1 e1_5) hX1 o1.cnt (by rw [hr1.1]; exact hltK) ⟨rfl, rfl, rfl, rfl⟩) ?_
    intro e2 s2 ⟨he2, hm2, hent2⟩
    have m2 : KMI env st bK L baseK XK (([] : List Bytes).foldl hmacUpdate (hmacInit HState.fresh k.prk)) e2 s2 :=
      m1.of_eq hm2 hent2 (fun y hy => by rw [he2, get_set_ne _ _ _ _ (fun h => hy h.symm)]) (by rw [he2, size_setVar])
    have e2_15 : e2[15]? = some (k.counter.toNat, .pub) := by rw [he2]; exact get_set_eq _ _ _ (by rw [m1.esz]; decide)
    have e2_5 : e2[5]? = some (mkPtr bK baseK, .pub) := (m2.fr 5 (by decide)).trans h5
    have hcond : evalE e2 (.bin .ne .i32 (.cast .i32 .u8 (.var 15)) (.lit 1)) = .ok (b2n (decide (k.counter.toNat ≠ 1)), .pub) := by
      simp only [evalE, e2_15, reduceCtorEq, if_false, TJ.MiniC.CheckTagC.castVal_i32_u8, BinOp.needsPub2, BinOp.needsPub1, Bool.false_and, Bool.or_self, Bool.false_eq_true, binVal,
        Lab.join_pub_pub]
    by_cases hc1 : k.counter = 1
    · rw [show b2n (decide (k.counter.toNat ≠ 1)) = 0 from by rw [hc1]; rfl] at hcond
      refine runs_ite_false hcond (runs_skip ⟨rfl, [], m2.of_eq rfl rfl (fun _ _ => rfl) rfl, by simp [hc1]⟩)
    · have hne : k.counter.toNat ≠ 1 := fun h => hc1 (UInt8.toNat_inj.mp h)
      rw [show b2n (decide (k.counter.toNat ≠ 1)) = 1 from by simp [b2n, hne]] at hcond
      refine runs_ite_true 1 hcond (by decide) ?_
      obtain ⟨X2, hX2, hr2⟩ := (m2.of_eq (s' := { s2 with leak := Ev.br true :: s2.leak }) rfl rfl (fun _ _ => rfl) rfl).key
      have o2 : KObjV X2 k od := ho.keep hr2
      refine (kmi_update (m2.of_eq (s' := { s2 with leak := Ev.br true :: s2.leak }) rfl rfl (fun _ _ => rfl) rfl) (.bin .add .u64 (.var 5) (.lit 32)) (.lit 32) bK baseK 32 X2 k.out h6
        (ev32 e2 e2_5) (by rw [o2.outl]; rfl) hX2 (o2.out (hod hc1)) hnL.symm (by rw [hr2.1]; exact hltK) (fun _ => by rw [o2.outl]; omega) hnL hsz).weaken ?_
      intro sig e s ⟨g1, g2⟩
      exact ⟨g1, [k.out], g2, by simp [hc1]⟩
  intro e3 s3 ⟨cs3, m3, hcs3⟩
  -- hmac_update(&hmac, info, infolen)
  refine runs_seq (Q := fun e s => ∃ cs : List Bytes, KMI env st bK L baseK XK (cs.foldl hmacUpdate (hmacInit HState.fresh k.prk)) e s ∧
      cs.flatten = (if k.counter ≠ 1 then k.out else []) ++ info) ?_ ?_
  · rcases hI with hnil | ⟨hIb, hId, hIp, hIL, hIK, hIlt⟩
    · obtain ⟨Xl, hXl, hXls, hol⟩ := m3.loc
      have hms := m3.msz
      have hLN3 := mem_lt hXl
      refine runs_call_none f_tinyjambu_hmac_update [(mkPtr L 0, .pub), (pinfo, .pub), (0, .pub)] prog_hmac_update
        (by simp only [evalArgs, evalE, (m3.fr 6 (by decide)).trans h6, (m3.fr 1 (by decide)).trans h1, (m3.fr 2 (by decide)).trans h2, hnil, List.length_nil, reduceCtorEq, if_false]) rfl ?_
      have hent : enterFun f_tinyjambu_hmac_update [(mkPtr L 0, .pub), (pinfo, .pub), (0, .pub)] s3.mem = (#[(mkPtr L 0, .pub), (pinfo, .pub), (0, .pub)], s3.mem) := rfl
      rw [hent]
      have hbody : f_tinyjambu_hmac_update.body = .call none idx_tinyjambu_hash_update [.var 0, .var 1, .var 2] := rfl
      rw [hbody]
      refine (update_empty_call prog idx_tinyjambu_hash_update prog_update _ { s3 with mem := s3.mem } (.var 0) (.var 1) (.var 2) L Xl 0 pinfo _ rfl rfl rfl hXl hol rfl
        (by rw [hXls]; simp [ptrBase]) (by omega)).weaken ?_
      intro sig e s ⟨_, _, g3, g4, g5, X', g6, g7, g8⟩
      have hex : s.mem.extract 0 s3.mem.size = s.mem := extract_same _ _ g4
      refine ⟨rfl, cs3, ⟨m3.fr, m3.esz, g3.trans m3.ent, ?_, ?_, ?_, ?_⟩, by rw [hcs3, hnil, List.append_nil]⟩
      · show (s.mem.extract 0 s3.mem.size).size = _; rw [hex, g4]; exact m3.msz
      · show ∃ Xl, (s.mem.extract 0 s3.mem.size)[L]? = _ ∧ _; rw [hex]; exact ⟨X', g6, by rw [g7]; exact hXls, g8⟩
      · show ∃ X', (s.mem.extract 0 s3.mem.size)[bK]? = _ ∧ _; rw [hex, g5 bK hnL.symm]; exact m3.key
      · intro j hj hjL; show ORel BlockEqV (s.mem.extract 0 s3.mem.size)[j]? _; rw [hex, g5 j hjL]; exact m3.oth j hj hjL
    · obtain ⟨XI3, hXI3, hXI3s, hXI3v⟩ := eqv_block (by have := m3.oth bi hIK hIL; rw [hIb] at this; exact this)
      refine (kmi_update m3 (.var 1) (.var 2) bi basei ioff XI3 info h6 (by simp only [evalE, (m3.fr 1 (by decide)).trans h1, hIp, reduceCtorEq, if_false])
        (by simp only [evalE, (m3.fr 2 (by decide)).trans h2, reduceCtorEq, if_false]) hXI3 (bytesV_of_veq hXI3v hId) hIL (by rw [hXI3s]; exact hIlt) (fun h => absurd h hIK) hnL hsz).weaken ?_
      intro sig e s ⟨g1, g2⟩
      refine ⟨g1, cs3 ++ [info], by rw [List.foldl_append]; exact g2, by rw [List.flatten_append, hcs3]; simp⟩
  intro e4 s4 ⟨cs4, m4, hcs4⟩
  -- hmac_update(&hmac, &counter, 1)
  refine runs_seq (Q := fun e s => KMI env st bK L baseK XK ((cs4 ++ [[k.counter]]).foldl hmacUpdate (hmacInit HState.fresh k.prk)) e s) ?_ ?_
  · refine (kmi_update1 m4 _ _ k od ho h6 (ev64 e4 ((m4.fr 5 (by decide)).trans h5)) (by simp only [evalE, castVal_u64_i32_lit 1 (by decide)]) hltK hnL hsz).weaken ?_
    intro sig e s ⟨g1, g2⟩
    exact ⟨g1, by rw [List.foldl_append]; exact g2⟩
  intro e5 s5 m5
  obtain ⟨Xl, hXl, hXls, hol⟩ := m5.loc
  obtain ⟨X5, hX5, hr5⟩ := m5.key
  have o5 : KObjV X5 k od := ho.keep hr5
  have e5_5 : e5[5]? = some (mkPtr bK baseK, .pub) := (m5.fr 5 (by decide)).trans h5
  have e5_6 : e5[6]? = some (mkPtr L 0, .pub) := (m5.fr 6 (by decide)).trans h6
  have hms5 := m5.msz
  have hmacv : (hmacFinalize ((cs4 ++ [[k.counter]]).foldl hmacUpdate (hmacInit HState.fresh k.prk)) k.prk).1 =
      hmac k.prk ((if k.counter ≠ 1 then k.out else []) ++ info ++ [k.counter]) := by
    rw [TJ.Props.C12.streaming_eq_oneshot HState.fresh k.prk (cs4 ++ [[k.counter]]), List.flatten_append, hcs4]; simp
  -- hmac_finalize(&hmac, prk, 32, out)
  refine runs_seq (Q := fun e s => e = e5 ∧ s.ent = st.ent ∧ s.mem.size = st.mem.size ∧ (∃ Xl', s.mem[L]? = some ⟨Xl', 0⟩ ∧ Xl'.size = 56) ∧
      (∃ X6, s.mem[bK]? = some ⟨X6, baseK⟩ ∧ X6.size = XK.size ∧ BytesV X6 32 (hmac k.prk ((if k.counter ≠ 1 then k.out else []) ++ info ++ [k.counter])) ∧
        ∀ q : Nat, (q < 32 ∨ 64 ≤ q) → ORel VLe X6[q]? X5[q]?) ∧
      (∀ j, j ≠ bK → j ≠ L → ORel BlockEqV s.mem[j]? st.mem[j]?)) ?_ ?_
  · refine (hmac_finalize_callK e5 s5 (.var 6) (.var 5) (.lit 32) (.bin .add .u64 (.var 5) (.lit 32)) L bK bK Xl X5 X5 0 baseK 0 baseK 32 _ k.prk
      (ev6 e5 e5_6) (ev5 e5 e5_5) (evl32 e5) (ev32 e5 e5_5) hXl hX5 hX5 hnL.symm hnL.symm hol rfl (by rw [hXls]; simp [ptrBase]) (by rw [hr5.1]; exact hltK) (by rw [hr5.1]; exact hltK)
      o5.prk (by rw [ho.prkl]; decide) (by rw [hr5.1]; omega) (by omega)).weaken ?_
    intro sig e s ⟨g1, g2, g3, g4, ⟨Xl', g5, g6, _⟩, ⟨X6, g7, g8, g9, g10⟩, g11⟩
    refine ⟨g1, g2, g3.trans m5.ent, g4.trans m5.msz, ⟨Xl', g5, by rw [g6]; exact hXls⟩, ⟨X6, g7, by rw [g8]; exact hr5.1, by rw [← hmacv]; exact g9,
      fun q hq => g10 q (by omega)⟩, fun j hj hjL => ?_⟩
    exact orel_trans (R := BlockEqV) (fun _ _ _ p q => BlockEqV.trans p q) (orel_map (R := BlockLe) (S := BlockEqV) (fun _ _ h => BlockLe.toEqV h) (g11 j hjL hj)) (m5.oth j hj hjL)
  intro e6 s6 ⟨he6, hent6, hsz6, ⟨Xl6, hXl6, hXl6s⟩, ⟨X6, hX6, hX6s, hX6d, hX6o⟩, hoth6⟩
  rw [he6]
  -- hmac_free(&hmac)
  refine runs_seq (Q := fun e s => e = e5 ∧ s.ent = st.ent ∧ s.mem = setBlock s6.mem L (Array.replicate 56 (0, Lab.pub))) ?_ ?_
  · refine (hmac_free_call e5 s6 (.var 6) L ⟨Xl6, 0⟩ hL30 (ev6 e5 e5_6) hXl6 rfl hXl6s).weaken ?_
    intro sig e s ⟨g1, g2, g3, g4⟩
    exact ⟨g1, g2, g3.trans hent6, g4⟩
  intro e7 s7 ⟨he7, hent7, hm7⟩
  rw [he7]
  refine hQ e5 s7 m5.fr m5.esz hent7 (by rw [hm7, size_setBlock']; exact hsz6) ⟨X6, by rw [hm7, getElem?_setBlock', if_neg hnL.symm]; exact hX6, hX6s, ?_⟩
    ⟨_, by rw [hm7, getElem?_setBlock', if_pos rfl, hXl6]; rfl, by simp⟩ (fun j hj hjL => by rw [hm7, getElem?_setBlock', if_neg hjL]; exact hoth6 j hj hjL)
  exact ⟨by rw [hX6s]; exact hKsz, bytesV_of_vle_win (hX6s.trans hr5.1.symm) (fun q _ h2 => hX6o q (Or.inl (by rw [ho.prkl] at h2; omega))) o5.prk, ho.prkl,
    fun _ => hX6d, hmac_length _ _, pub_of_vle (hX6o 64 (Or.inr (Nat.le_refl _))) o5.cnt, pub_of_vle (hX6o 65 (Or.inr (by decide))) o5.posn⟩

end TJ.MiniC.Hoare
