import TJ.Proofs.PbkdfBe
namespace TJ.MiniC.Hoare
open TJ TJ.MiniC TJ.MiniC.PermC TJ.Gen.MiniC

/-- a buffer holding `data` at `off`, value-equal to `X0` outside `[off, off+32)` -/
def HasBufO (m : Array Block) (b base off sz : Nat) (data : Bytes) (X0 : Array LByte) : Prop :=
  ∃ X, m[b]? = some ⟨X, base⟩ ∧ X.size = sz ∧ BytesV X off data ∧ ∀ q, (q < off ∨ off + 32 ≤ q) → ORel VEq X[q]? X0[q]?

theorem HasBufO.eqv {m m' : Array Block} {b base off sz : Nat} {data : Bytes} {X0 : Array LByte} (h : HasBufO m b base off sz data X0) (hr : ORel BlockEqV m'[b]? m[b]?) :
    HasBufO m' b base off sz data X0 := by
  obtain ⟨X, hm, hs, hd, ho⟩ := h
  rw [hm] at hr
  obtain ⟨Z, hz, hzs, hzv⟩ := eqv_block hr
  exact ⟨Z, hz, by rw [hzs]; exact hs, bytesV_of_veq hzv hd, fun q hq => orel_trans (R := VEq) (fun _ _ _ p q => VEq.trans p q) (hzv q) (ho q hq)⟩

theorem HasBufO.buf {m : Array Block} {b base off sz : Nat} {data : Bytes} {X0 : Array LByte} (h : HasBufO m b base off sz data X0) : HasBuf m b base off sz data := by
  obtain ⟨X, hm, hs, hd, _⟩ := h; exact ⟨X, hm, hs, hd⟩

theorem orel_veq_refl {α} (x : Option (α × Lab)) : ORel VEq x x := by
  cases x with
  | none => trivial
  | some b => exact ⟨rfl, rfl⟩

/-- geometry of a `tinyjambu_pbkdf2_f` activation -/
structure PFG where
  bs : Nat
  bt : Nat
  baset : Nat
  toff : Nat
  tsz : Nat
  bu : Nat
  baseu : Nat
  uoff : Nat
  usz : Nat
  bp : Nat
  basep : Nat
  poff : Nat
  psz : Nat
  msz : Nat
  pw : Bytes
  ent : List Delivery
  hst : bs ≠ bt
  hsu : bs ≠ bu
  hsp : bs ≠ bp
  htu : bt ≠ bu
  htp : bt ≠ bp
  hup : bu ≠ bp
  hltT : baset + tsz < ptrBase
  hltU : baseu + usz < ptrBase
  hltP : basep + psz < ptrBase
  hTin : toff + 32 ≤ tsz
  hUin : uoff + 32 ≤ usz
  hsz : msz + 5 < 2 ^ 30

/-- the state of `tinyjambu_pbkdf2_f` between iterations: `T = t`, `U = u`, `count = c` -/
structure PFI (G : PFG) (XT0 XU0 : Array LByte) (mem0 : Array Block) (t u : Bytes) (c : Nat) (env : Env) (s : St) : Prop where
  esz : env.size = 31
  e0 : env[0]? = some (mkPtr G.bs 0, .pub)
  e1 : env[1]? = some (mkPtr G.bt (G.baset + G.toff), .pub)
  e2 : env[2]? = some (mkPtr G.bu (G.baseu + G.uoff), .pub)
  e3 : env[3]? = some (mkPtr G.bp (G.basep + G.poff), .pub)
  e4 : env[4]? = some (G.pw.length, .pub)
  e7 : env[7]? = some (c, .pub)
  ent : s.ent = G.ent
  msz : s.mem.size = G.msz
  hS : ∃ X, s.mem[G.bs]? = some ⟨X, 0⟩ ∧ X.size = 56
  hT : HasBufO s.mem G.bt G.baset G.toff G.tsz t XT0
  hU : HasBufO s.mem G.bu G.baseu G.uoff G.usz u XU0
  hP : HasBuf s.mem G.bp G.basep G.poff G.psz G.pw
  tl : t.length = 32
  ul : u.length = 32
  oth : ∀ j, j ≠ G.bs → j ≠ G.bt → j ≠ G.bu → ORel BlockEqV s.mem[j]? mem0[j]?

/-- `hmac_reinit; hmac_update(in, 32); hmac_finalize(U)` then `T ^= U` (temporaries from `a`): one more `U_j` folded into `T` -/
theorem pf_step (G : PFG) (XT0 XU0 : Array LByte) (mem0 : Array Block) (a : Nat) (ha : 8 ≤ a) (ha2 : a + 8 ≤ 31) (t : Bytes) (c : Nat) (env : Env) (s : St)
    (bi basei ioff isz : Nat) (din : Bytes) (hdl : din.length = 32) (ei : Expr) (hei : evalE env ei = .ok (mkPtr bi (basei + ioff), .pub))
    (hI : HasBuf s.mem bi basei ioff isz din) (hni : bi ≠ G.bs) (hlti : basei + isz < ptrBase)
    (esz : env.size = 31) (e0 : env[0]? = some (mkPtr G.bs 0, .pub)) (e1 : env[1]? = some (mkPtr G.bt (G.baset + G.toff), .pub))
    (e2 : env[2]? = some (mkPtr G.bu (G.baseu + G.uoff), .pub)) (e3 : env[3]? = some (mkPtr G.bp (G.basep + G.poff), .pub)) (e4 : env[4]? = some (G.pw.length, .pub))
    (e7 : env[7]? = some (c, .pub)) (hent : s.ent = G.ent) (hmsz : s.mem.size = G.msz) (hS : ∃ X, s.mem[G.bs]? = some ⟨X, 0⟩ ∧ X.size = 56)
    (hT : HasBufO s.mem G.bt G.baset G.toff G.tsz t XT0) (hU : ∃ XU, s.mem[G.bu]? = some ⟨XU, G.baseu⟩ ∧ XU.size = G.usz ∧ ∀ q, (q < G.uoff ∨ G.uoff + 32 ≤ q) → ORel VEq XU[q]? XU0[q]?)
    (hP : HasBuf s.mem G.bp G.basep G.poff G.psz G.pw) (tl : t.length = 32)
    (oth : ∀ j, j ≠ G.bs → j ≠ G.bt → j ≠ G.bu → ORel BlockEqV s.mem[j]? mem0[j]?)
    (more : Stmt) {Q : Sig → Env → St → Prop}
    (hQ : ∀ e' s', PFI G XT0 XU0 mem0 (xorBytes t (hmac G.pw din)) (hmac G.pw din) c e' s' → (∀ y, y < a → e'[y]? = env[y]?) → RunsTo prog more e' s' Q) :
    RunsTo prog (.seq (.call none idx_tinyjambu_hmac_reinit [.var 0, .var 3, .var 4]) (.seq (.call none idx_tinyjambu_hmac_update [.var 0, ei, .cast .u64 .i32 (.lit 32)])
      (.seq (.call none idx_tinyjambu_hmac_finalize [.var 0, .var 3, .var 4, .var 2]) (.seq (xor32Stmt a) more)))) env s Q := by
  obtain ⟨XU, hUm, hUs, hUo⟩ := hU
  refine mac1_run idx_tinyjambu_hmac_reinit (Or.inr rfl) env s
    ⟨G.bs, 0, G.bp, G.basep, G.poff, G.psz, G.pw, hS, hP, fun e => G.hsp e.symm, rfl, by simp [ptrBase], G.hltP, by rw [hmsz]; exact G.hsz⟩
    (.var 0) (.var 3) (.var 4) ei (.cast .u64 .i32 (.lit 32)) (.var 2) bi basei ioff isz din G.bu G.baseu G.uoff XU
    (by simp only [evalE, e0, reduceCtorEq, if_false]) (by simp only [evalE, e3, reduceCtorEq, if_false]) (by simp only [evalE, e4, reduceCtorEq, if_false])
    hei (by simp only [evalE, castVal_u64_i32_lit 32 (by decide), hdl]) (by simp only [evalE, e2, reduceCtorEq, if_false])
    hI hUm hni (fun e => G.hsu e.symm) hlti (by rw [hUs]; exact G.hltU) (by rw [hUs]; exact G.hUin) _ ?_
  intro s1 hent1 hsz1 hS1 ⟨XU1, hU1m, hU1s, hU1d, hU1o⟩ hoth1
  have hT1 : HasBufO s1.mem G.bt G.baset G.toff G.tsz t XT0 := hT.eqv (hoth1 G.bt (fun e => G.hst e.symm) G.htu)
  have hP1 : HasBuf s1.mem G.bp G.basep G.poff G.psz G.pw := hP.eqv (hoth1 G.bp (fun e => G.hsp e.symm) (fun e => G.hup e.symm))
  obtain ⟨XT1, hT1m, hT1s, hT1d, hT1o⟩ := hT1
  have hbt : G.bt < G.msz := by rw [← hmsz, ← hsz1]; exact mem_lt hT1m
  have hbu : G.bu < G.msz := by rw [← hmsz, ← hsz1]; exact mem_lt hU1m
  have hG := G.hsz
  refine runs_seq (xor32_run a 31 ha2 (by omega) env s1 G.bt G.baset G.toff G.bu G.baseu G.uoff XT1 XU1 t (hmac G.pw din) esz e1 e2 hT1m hU1m G.htu (by omega) (by omega)
    hT1d hU1d tl (hmac_length _ _) (by rw [hT1s]; exact G.hltT) (by rw [hU1s, hUs]; exact G.hltU)) ?_
  intro e2' s2 ⟨he2s, hfr, hent2, hsz2, hoth2, XT2, hT2m, hT2s, hT2d, hT2o⟩
  refine hQ e2' s2 ⟨he2s, by rw [hfr 0 (by omega)]; exact e0, by rw [hfr 1 (by omega)]; exact e1, by rw [hfr 2 (by omega)]; exact e2, by rw [hfr 3 (by omega)]; exact e3,
    by rw [hfr 4 (by omega)]; exact e4, by rw [hfr 7 (by omega)]; exact e7, by rw [hent2, hent1]; exact hent, by rw [hsz2, hsz1]; exact hmsz,
    by rw [hoth2 G.bs G.hst]; exact hS1,
    ⟨XT2, hT2m, by rw [hT2s]; exact hT1s, hT2d, fun q hq => by rw [hT2o q hq]; exact hT1o q hq⟩,
    ⟨XU1, by rw [hoth2 G.bu (fun e => G.htu e.symm)]; exact hU1m, by rw [hU1s]; exact hUs, hU1d, fun q hq => orel_trans (R := VEq) (fun _ _ _ p q => VEq.trans p q) (hU1o q hq) (hUo q hq)⟩,
    by exact hP1.eq (hoth2 G.bp (fun e => G.htp e.symm)), xorBytes_length _ _ tl (hmac_length _ _), hmac_length _ _,
    fun j h1 h2 h3 => by rw [hoth2 j h2]; exact orel_trans (R := BlockEqV) (fun _ _ _ p q => BlockEqV.trans p q) (hoth1 j h1 h3) (oth j h1 h2 h3)⟩ hfr

end TJ.MiniC.Hoare
