import TJ.Proofs.PbkdfStep
namespace TJ.MiniC.Hoare
open TJ TJ.MiniC TJ.MiniC.PermC TJ.Gen.MiniC

theorem pfIter_eq : pfIterBody = .ite (.bin .gt .u64 (.var 7) (.cast .u64 .i32 (.lit 2)))
    (.seq (.call none idx_tinyjambu_hmac_reinit [.var 0, .var 3, .var 4]) (.seq (.call none idx_tinyjambu_hmac_update [.var 0, .var 2, .cast .u64 .i32 (.lit 32)])
      (.seq (.call none idx_tinyjambu_hmac_finalize [.var 0, .var 3, .var 4, .var 2]) (.seq (xor32Stmt 23) (.assign 7 (.bin .sub .u64 (.var 7) (.lit 1))))))) .brk := rfl

theorem pf_iter (G : PFG) (XT0 XU0 : Array LByte) (mem0 : Array Block) (t u : Bytes) (c : Nat) (hc : 2 < c) (hc64 : c < 18446744073709551616) {env : Env} {s : St}
    (x : PFI G XT0 XU0 mem0 t u c env s) :
    RunsTo prog pfIterBody env s (fun sig e' s' => sig = .normal ∧ PFI G XT0 XU0 mem0 (xorBytes t (hmac G.pw u)) (hmac G.pw u) (c - 1) e' s') := by
  rw [pfIter_eq]
  refine runs_ite_true 1 ?_ (by decide) ?_
  · simp only [evalE, x.e7, reduceCtorEq, if_false, castVal_u64_i32_lit 2 (by decide), BinOp.needsPub2, BinOp.needsPub1, Bool.false_and, Bool.or_self,
      Bool.false_eq_true, binVal, Ty.signed, gt_iff_lt, hc, decide_true, b2n, if_true, Lab.join_pub_pub]
  obtain ⟨XU, hUm, hUs, hUd, hUo⟩ := x.hU
  refine pf_step G XT0 XU0 mem0 23 (by decide) (by decide) t c env { s with leak := .br true :: s.leak } G.bu G.baseu G.uoff G.usz u x.ul (.var 2) (by simp only [evalE, x.e2, reduceCtorEq, if_false])
    x.hU.buf (fun e => G.hsu e.symm) G.hltU x.esz x.e0 x.e1 x.e2 x.e3 x.e4 x.e7 x.ent x.msz x.hS x.hT ⟨XU, hUm, hUs, hUo⟩ x.hP x.tl x.oth _ ?_
  intro e' s' x' hfr
  refine runs_assign (c - 1, .pub) (by
    simp only [evalE, x'.e7, reduceCtorEq, if_false, BinOp.needsPub2, BinOp.needsPub1, Bool.false_and, Bool.or_self, Bool.false_eq_true, binVal, Ty.modulus, Lab.join_pub_pub,
      sub64 c 1 (by omega) hc64 (by decide)]
    ) ?_
  exact ⟨rfl, by rw [size_setVar]; exact x'.esz, by rw [get_set_ne _ _ _ _ (by decide)]; exact x'.e0, by rw [get_set_ne _ _ _ _ (by decide)]; exact x'.e1,
    by rw [get_set_ne _ _ _ _ (by decide)]; exact x'.e2, by rw [get_set_ne _ _ _ _ (by decide)]; exact x'.e3, by rw [get_set_ne _ _ _ _ (by decide)]; exact x'.e4,
    get_set_eq _ _ _ (by rw [x'.esz]; decide), x'.ent, x'.msz, x'.hS, x'.hT, x'.hU, x'.hP, x'.tl, x'.ul, x'.oth⟩

theorem pf_exit (G : PFG) (XT0 XU0 : Array LByte) (mem0 : Array Block) (t u : Bytes) (c : Nat) (hc : c ≤ 2) {env : Env} {s : St}
    (x : PFI G XT0 XU0 mem0 t u c env s) :
    RunsTo prog pfIterBody env s (fun sig e' s' => sig = .brk ∧ PFI G XT0 XU0 mem0 t u c e' s') := by
  rw [pfIter_eq]
  refine runs_ite_false ?_ (runs_brk ⟨rfl, ⟨x.esz, x.e0, x.e1, x.e2, x.e3, x.e4, x.e7, x.ent, x.msz, x.hS, x.hT, x.hU, x.hP, x.tl, x.ul, x.oth⟩⟩)
  simp only [evalE, x.e7, reduceCtorEq, if_false, castVal_u64_i32_lit 2 (by decide), BinOp.needsPub2, BinOp.needsPub1, Bool.false_and, Bool.or_self,
    Bool.false_eq_true, binVal, Ty.signed, gt_iff_lt, show ¬ 2 < c from by omega, decide_false, b2n, Lab.join_pub_pub]

/-- the `while (count > 2)` loop computes `pbkdf2Iter` -/
theorem pf_loop (G : PFG) (XT0 XU0 : Array LByte) (mem0 : Array Block) :
    ∀ (k : Nat) (t u : Bytes) (c : Nat), c = k + 2 → c < 18446744073709551616 → ∀ (env : Env) (s : St), PFI G XT0 XU0 mem0 t u c env s →
    RunsTo prog (.loop pfIterBody) env s (fun sig e' s' => sig = .normal ∧ ∃ u', PFI G XT0 XU0 mem0 (pbkdf2Iter G.pw k t u) u' 2 e' s')
  | 0, t, u, c, hck, _, env, s, x => by
    subst hck
    exact runs_loop_break ((pf_exit G XT0 XU0 mem0 t u _ (by omega) x).weaken fun _ _ _ ⟨h, b⟩ => ⟨h, rfl, u, b⟩)
  | k + 1, t, u, c, hck, hc64, env, s, x => by
    refine runs_loop_continue (pf_iter G XT0 XU0 mem0 t u c (by omega) hc64 x) ?_
    intro e s' x'
    exact pf_loop G XT0 XU0 mem0 k _ _ (c - 1) (by omega) (by omega) e s' x'

end TJ.MiniC.Hoare
