/-
  TJ.Proofs.AeadEncLoop — one iteration of the message word loop of tinyjambu_*_aead_encrypt on the regenerated term.
-/
import TJ.Proofs.AeadEncCore
namespace TJ.MiniC.Hoare
open TJ TJ.MiniC TJ.MiniC.PermC TJ.Gen.MiniC

theorem notin_loads {vs : List (Nat × Nat)} (h3 : ∀ xv ∈ vs, xv.1 ≤ 3) (loads : List (Nat × Nat)) (hl : ∀ yo ∈ loads, 9 ≤ yo.1) :
    ∀ xv ∈ vs, xv.1 ∉ loads.map Prod.fst := by
  intro xv hxv hmem
  obtain ⟨yo, hyo, hy0⟩ := List.mem_map.mp hmem
  have := hl yo hyo; have := h3 xv hxv
  omega

theorem evalD_rc80 (e : Env) : EvalD e (rc 80) (0x50 : UInt32).toNat := evalD_small e 80 (by decide)

/-- `c += 4; m += 4; mlen -= 4` style pointer bumps -/
theorem bump3 {prog : Program} {env : Env} {st : St} (x y z : Nat) (bx offx by' offy n kx ky kz : Nat)
    (hx : env[x]? = some (mkPtr bx offx, .pub)) (hy : env[y]? = some (mkPtr by' offy, .pub)) (hz : env[z]? = some (n, .pub))
    (hxy : x ≠ y) (hxz : x ≠ z) (hyz : y ≠ z) (hsz : x < env.size ∧ y < env.size ∧ z < env.size)
    (hbx : bx < 2 ^ 30) (hby : by' < 2 ^ 30) (hox : offx + kx < ptrBase) (hoy : offy + ky < ptrBase) (hn : kz ≤ n) (hn64 : n < 18446744073709551616) (hkz : kz < 256)
    {Q : Sig → Env → St → Prop}
    (hQ : ∀ e', e'.size = env.size → (∀ w, w ≠ x → w ≠ y → w ≠ z → e'[w]? = env[w]?) → e'[x]? = some (mkPtr bx (offx + kx), .pub) →
      e'[y]? = some (mkPtr by' (offy + ky), .pub) → e'[z]? = some (n - kz, .pub) → Q .normal e' st) :
    RunsTo prog (.seq (.assign x (.bin .add .u64 (.var x) (.lit kx))) (.seq (.assign y (.bin .add .u64 (.var y) (.lit ky)))
      (.assign z (.bin .sub .u64 (.var z) (.cast .u64 .i32 (.lit kz)))))) env st Q := by
  refine runs_seq (Q := fun e' s' => e' = setVar env x (mkPtr bx (offx + kx), .pub) ∧ s' = st) (runs_assign _ (by
    simp only [evalE, hx, reduceCtorEq, if_false, BinOp.needsPub2, BinOp.needsPub1, Bool.false_and, Bool.or_self, Bool.false_eq_true, binVal, Ty.modulus,
      Lab.join_pub_pub, ptr_off bx offx kx hbx hox]) ⟨rfl, rfl, rfl⟩) ?_
  intro e1 s1 ⟨he1, hs1⟩; rw [he1, hs1]
  refine runs_seq (Q := fun e' s' => e' = setVar (setVar env x (mkPtr bx (offx + kx), .pub)) y (mkPtr by' (offy + ky), .pub) ∧ s' = st) (runs_assign _ (by
    simp only [evalE, get_set_ne _ _ _ _ hxy, hy, reduceCtorEq, if_false, BinOp.needsPub2, BinOp.needsPub1, Bool.false_and, Bool.or_self, Bool.false_eq_true, binVal, Ty.modulus,
      Lab.join_pub_pub, ptr_off by' offy ky hby hoy]) ⟨rfl, rfl, rfl⟩) ?_
  intro e2 s2 ⟨he2, hs2⟩; rw [he2, hs2]
  refine runs_assign (n - kz, .pub) (by
    simp only [evalE, get_set_ne _ _ _ _ hyz, get_set_ne _ _ _ _ hxz, hz, reduceCtorEq, if_false, castVal_u64_i32_lit kz hkz, BinOp.needsPub2,
      BinOp.needsPub1, Bool.false_and, Bool.or_self, Bool.false_eq_true, binVal, Ty.modulus, Lab.join_pub_pub, sub64 n kz hn hn64 (by omega)]) ?_
  refine hQ _ (by simp only [size_setVar]) (fun w h1 h2 h3 => by
      rw [get_set_ne _ _ _ _ (fun e => h3 e.symm), get_set_ne _ _ _ _ (fun e => h2 e.symm), get_set_ne _ _ _ _ (fun e => h1 e.symm)]) ?_ ?_ ?_
  · rw [get_set_ne _ _ _ _ (fun e => hxz e.symm), get_set_ne _ _ _ _ (fun e => hxy e.symm), get_set_eq _ _ _ hsz.1]
  · rw [get_set_ne _ _ _ _ (fun e => hyz e.symm), get_set_eq _ _ _ (by rw [size_setVar]; exact hsz.2.1)]
  · rw [get_set_eq _ _ _ (by simp only [size_setVar]; exact hsz.2.2)]


/-- one iteration of the word loop of `tinyjambu_*_aead_encrypt` -/
theorem enc_iter {g : AGeo} (eg : EGeo g) {M : Array Block} {v : Nat} (hv : 11 ≤ v) (pk : Nat) (hpk : pk < 256) {env : Env} {st : St} {s : W4} {kws : List UInt32} {ct : Bytes}
    (b0 b1 b2 b3 : UInt8) (rest : Bytes) (ei : EI g eg M (v + 47) env st s kws ct (b0 :: b1 :: b2 :: b3 :: rest)) :
    RunsTo g.prog (encLoopBody g.pidx pk v) env st (fun sig e' s' => sig = .normal ∧ ∃ M',
      EI g eg M' (v + 47) e' s' (absorbW (g.P kws pk (addDomain s 0x50)) (load32 b0 b1 b2 b3)) kws
        (ct ++ store32 (load32 b0 b1 b2 b3 ^^^ (g.P kws pk (addDomain s 0x50)).c)) rest) := by
  obtain ⟨XM, hMm, hXMs, hdm⟩ := ei.hm
  obtain ⟨XO, hMo, hXOs, hdo, hout⟩ := ei.ho
  have room := ei.room
  have hltm := eg.hltm; have hlto := eg.hlto
  have hlen : (b0 :: b1 :: b2 :: b3 :: rest).length < 18446744073709551616 := by have := hdm.1; simp only [ptrBase] at *; omega
  let dg : DGeo g M := ⟨eg.bm, eg.basem, XM, eg.hbm, eg.hbm30, by rw [hXMs]; exact eg.hltm, hMm⟩
  let vs : List (Nat × Nat) := [(0, mkPtr eg.bo (eg.baseo + (eg.oo + ct.length))), (2, mkPtr eg.bm (eg.basem + (eg.moff + ct.length))), (3, (b0 :: b1 :: b2 :: b3 :: rest).length)]
  have vs3 : ∀ xv ∈ vs, xv.1 ≤ 3 := pv3_le
  have vsn : ∀ t, 9 ≤ t → ∀ xv ∈ vs, xv.1 ≠ t := fun t ht xv hxv => by have := vs3 xv hxv; omega
  have pv0 : PubVars vs env := pv3_mk ei.e0 ei.e2 ei.e3
  generalize hs1 : g.P kws pk (addDomain s 0x50) = s1
  generalize hdata : load32 b0 b1 b2 b3 = data
  unfold encLoopBody
  refine runs_ite_true 1 ?_ (by decide) ?_
  · simp only [evalE, ei.e3, reduceCtorEq, if_false, castVal_u64_i32_lit 4 (by decide), BinOp.needsPub2, BinOp.needsPub1, Bool.false_and, Bool.or_self,
      Bool.false_eq_true, binVal, Ty.signed, ge_iff_le, List.length_cons, show 4 ≤ rest.length + 1 + 1 + 1 + 1 from by omega, decide_true, b2n, if_true, Lab.join_pub_pub]
  simp only [seqs]
  refine xp_step (ei.ai.frame (s' := { st with leak := Ev.br true :: st.leak }) ei.ai.esz rfl rfl rfl) vs pv0 v (v + 1) _ (rc pk) 0x50 pk ⟨by omega, by omega⟩ ⟨by omega, by omega⟩ (by omega)
    (fun xv hxv => ⟨vsn _ (by omega) xv hxv, vsn _ (by omega) xv hxv⟩) (fun e' _ => evalD_rc80 e') (fun e' => evalE_rc e' pk (by omega)) (by omega) _ ?_
  intro e1 st1 ai1 pv1
  rw [hs1] at ai1
  -- data = le_load_word32(m)
  refine runs_seq (Q := fun e' s' => AI g M (v + 47) e' s' s1 kws 8 ∧ PubVars vs e' ∧ EnvHas e' 9 data.toNat) ?_ ?_
  · refine load_data dg ai1 (eg.moff + ct.length) _ hdm (pv3 pv1).2.1 9 [(v + 2, 3), (v + 3, 2), (v + 4, 1), (v + 5, 0)] _ data ⟨by omega, by omega⟩ (by simp) ?_ ?_ ?_ ?_
    · intro yo hyo
      simp only [List.mem_cons, List.mem_nil_iff, or_false] at hyo
      rcases hyo with h | h | h | h <;> rw [h] <;> simp only [List.length_cons] <;> omega
    · simp only [List.map_cons, List.map_nil, List.nodup_cons, List.mem_cons, List.mem_nil_iff, or_false, not_false_eq_true, List.nodup_nil, and_true]; omega
    · intro e' hh
      rw [← hdata]
      exact evalD_e32 (b0 := b0) (b1 := b1) (b2 := b2) (b3 := b3) (hh (v + 2, 3) (by simp)) (hh (v + 3, 2) (by simp)) (hh (v + 4, 1) (by simp)) (hh (v + 5, 0) (by simp))
    · intro e' s' _ hfr h9 ai'
      refine ⟨rfl, ai', pv1.frame (fun xv hxv => hfr xv.1 (vsn 9 (by omega) xv hxv) (notin_loads vs3 _ ?_ xv hxv)), h9⟩
      intro yo hyo
      simp only [List.mem_cons, List.mem_nil_iff, or_false] at hyo
      rcases hyo with h | h | h | h <;> rw [h] <;> simp only [] <;> omega
  intro e2 st2 ⟨ai2, pv2, h92⟩
  -- s[3] ^= data
  refine runs_seq (Q := fun e' s' => AI g M (v + 47) e' s' (absorbW s1 data) kws 8 ∧ PubVars vs e' ∧ EnvHas e' 9 data.toNat) ?_ ?_
  · refine ai_xor ai2 3 (v + 6) (v + 7) (.var 9) data (by decide) ⟨by omega, by omega⟩ ⟨by omega, by omega⟩ (by omega) ?_ ?_
    · intro e' hfr
      exact EvalD.var (h92.frame (hfr 9 (by omega) (by omega)))
    · intro e' s' _ hfr ai'
      exact ⟨rfl, ai', pv2.frame (fun xv hxv => hfr xv.1 (vsn _ (by omega) xv hxv) (vsn _ (by omega) xv hxv)), h92.frame (hfr 9 (by omega) (by omega))⟩
  intro e3 st3 ⟨ai3, pv3', h93⟩
  -- data ^= s[2]
  refine runs_seq (Q := fun e' s' => AI g M (v + 47) e' s' (absorbW s1 data) kws 8 ∧ PubVars vs e' ∧ EnvHas e' 9 (data ^^^ s1.c).toNat) ?_ ?_
  · refine squeeze_xor ai3 (v + 8) 9 data ⟨by omega, by omega⟩ ⟨by omega, by omega⟩ (by omega) h93 ?_
    intro e' s' _ hfr h9 ai'
    exact ⟨rfl, ai', pv3'.frame (fun xv hxv => hfr xv.1 (vsn _ (by omega) xv hxv) (vsn _ (by omega) xv hxv)), h9⟩
  intro e4 st4 ⟨ai4, pv4, h94⟩
  -- le_store_word32(c, data)
  have hsz4 := ai4.esz
  refine runs_seq (Q := fun e' s' => e'.size = v + 47 ∧ PubVars vs e' ∧ ∃ XO', AI g (setBlock M eg.bo XO') (v + 47) e' s' (absorbW s1 data) kws 8 ∧ XO'.size = XO.size ∧
      (∀ j, j < 4 → BV XO' (eg.oo + ct.length + 0 + j) (byteOf (data ^^^ s1.c).toNat j)) ∧
      (∀ p, (p < eg.oo + ct.length + 0 ∨ eg.oo + ct.length + 0 + 4 ≤ p) → XO'[p]? = XO[p]?)) ?_ ?_
  · obtain ⟨l9, h9v, hl9⟩ := h94
    refine runs_seq (Q := fun e' s' => e' = setVar e4 (v + 9) ((data ^^^ s1.c).toNat, l9) ∧ s' = st4)
      (runs_assign _ (by simp only [evalE, h9v, hl9, if_false]) ⟨rfl, rfl, rfl⟩) ?_
    intro e5 st5 ⟨he5, hst5⟩; rw [he5, hst5]
    have fr5 : ∀ y, y ≠ v + 9 → (setVar e4 (v + 9) ((data ^^^ s1.c).toNat, l9))[y]? = e4[y]? := fun y hy => get_set_ne _ _ _ _ (fun e => hy e.symm)
    have ai5 : AI g M (v + 47) (setVar e4 (v + 9) ((data ^^^ s1.c).toNat, l9)) st4 (absorbW s1 data) kws 8 :=
      ai4.frame (by rw [size_setVar]; exact hsz4) (fr5 8 (by omega)) rfl rfl
    have pv5 : PubVars vs (setVar e4 (v + 9) ((data ^^^ s1.c).toNat, l9)) := pv4.frame (fun xv hxv => fr5 xv.1 (vsn _ (by omega) xv hxv))
    refine (out_word ai5 eg.bo eg.baseo (eg.oo + ct.length) 0 XO eg.hbo eg.hbo30 hMo (by rw [hXOs]; exact hlto) (by rw [hXOs]; simp only [List.length_cons] at room; omega)
      (pv3 pv5).1 (v + 10) (v + 11) (v + 12) (v + 13) (v + 9) (data ^^^ s1.c) ⟨⟨by omega, by omega, by omega⟩, ⟨by omega, by omega, by omega⟩, ⟨by omega, by omega, by omega⟩, ⟨by omega, by omega, by omega⟩⟩
      ⟨by omega, by omega, by omega, by omega⟩ ⟨l9, get_set_eq _ _ _ (by omega), hl9⟩).weaken ?_
    intro sig e' s' ⟨h1, h2, h3, h4⟩
    exact ⟨h1, h2, pv5.frame (fun xv hxv => h3 xv.1 (vsn _ (by omega) xv hxv) (vsn _ (by omega) xv hxv) (vsn _ (by omega) xv hxv) (vsn _ (by omega) xv hxv)), h4⟩
  intro e6 st6 ⟨hsz6, pv6, XO', ai6, hXO's, hbv, hkeep⟩
  -- c += 4; m += 4; mlen -= 4
  have hl4 : (ct ++ store32 (data ^^^ s1.c)).length = ct.length + 4 := by simp [store32]
  refine bump3 0 2 3 eg.bo _ eg.bm _ _ 4 4 4 (pv3 pv6).1 (pv3 pv6).2.1 (pv3 pv6).2.2 (by decide) (by decide) (by decide) (by omega) eg.hbo30 eg.hbm30
    (by simp only [List.length_cons] at room; omega) (by have := hdm.1; simp only [List.length_cons] at this; omega) (by simp) hlen (by decide) ?_
  intro e7 hsz7 hfr7 h70 h72 h73
  refine ⟨rfl, setBlock M eg.bo XO', ai6.frame (by rw [hsz7]; exact hsz6) (hfr7 8 (by decide) (by decide) (by decide)) rfl rfl, ?_, ?_, ?_, ?_, ?_, ?_, ?_⟩
  · rw [h70, hl4, Nat.add_assoc, Nat.add_assoc]
  · rw [h72, hl4, Nat.add_assoc, Nat.add_assoc]
  · rw [h73]; simp
  · obtain ⟨XM', h1, h2, h3⟩ := msg_after eg (q := ct.length) (n := 4) hMm hMo hXO's hdm (by simp) (fun p hp => hkeep p (Or.inr (by omega)))
    exact ⟨XM', h1, by rw [h2]; exact hXMs, by rw [hl4]; exact h3⟩
  · refine ⟨XO', by rw [getElem?_setBlock', if_pos rfl, hMo]; rfl, by rw [hXO's]; exact hXOs, ?_, fun p hp => ?_⟩
    · refine bytesV_snoc hdo hXO's (by simp only [List.length_cons] at room; simp [store32]; omega) (fun p hp => hkeep p (Or.inl (by omega))) ?_
      exact store32_bv (fun j hj => by have := hbv j hj; rw [Nat.add_zero] at this; exact this)
    · rw [hl4] at hp
      rw [hkeep p (by omega), hout p (by omega)]
  · intro j hj
    rw [getElem?_setBlock', if_neg hj]; exact ei.oth0 j hj
  · rw [hl4]; simp only [List.length_cons] at room; omega

end TJ.MiniC.Hoare
