import TJ.Proofs.HashLabels
namespace TJ.MiniC.Hoare
open TJ TJ.MiniC TJ.MiniC.PermC TJ.Gen.MiniC

/-- what completes from a higher (more secret) configuration completes from every lower one, with the same values -/
theorem RunsTo.lower {prog : Program} {s : Stmt} {e1 e2 : Env} {s1 s2 : St} {P : Sig → Env → St → Prop}
    (h : RunsTo prog s e2 s2 P) (he : EnvLe e1 e2) (hs : StLe s1 s2) :
    RunsTo prog s e1 s1 (fun sig e st => ∃ sig2 e' st', P sig2 e' st' ∧ SigLe sig sig2 ∧ EnvLe e e' ∧ StLe st st') := by
  obtain ⟨n, sig2, e', st', hx, hp⟩ := h
  have := exec_lower prog n s e1 e2 s1 s2 he hs
  rw [hx] at this
  obtain ⟨g1, x1, t1, h1, hg, hxe, ht⟩ := this
  exact ⟨n, g1, x1, t1, h1, sig2, e', st', hp, hg, hxe, ht⟩

theorem envLe_refl (e : Env) : EnvLe e e := ARel.refl_of VLe.refl e

/-- an environment below one whose relevant entries are public agrees with it there -/
theorem envLe_pub {e e' : Env} (h : EnvLe e e') (i v : Nat) (hv : e'[i]? = some (v, .pub)) : e[i]? = some (v, .pub) := by
  have hi := h i
  rw [hv] at hi
  cases he : e[i]? with
  | none => rw [he] at hi; exact hi.elim
  | some x =>
    rw [he] at hi
    obtain ⟨a, l⟩ := x
    have e1 : a = v := hi.1
    have e2 : l = .pub := Lab.le_pub hi.2
    rw [e1, e2]

/-- **`tinyjambu_hash_compress` on a state object with any defined labels** -/
theorem compress_objV (prog : Program) (fn : Nat) (hprog : prog[fn]? = some f_tinyjambu_hash_compress)
    (hperm : prog[idx_tinyjambu_permutation_256]? = some f_tinyjambu_permutation_256)
    (env : Env) (st : St) (ep ed : Expr) (bs : Nat) (X : Array LByte) (baseS : Nat) (d32 : UInt32) (hd8 : d32.toNat < 256)
    (hep : evalE env ep = .ok (mkPtr bs baseS, .pub)) (hed : evalE env ed = .ok (d32.toNat, .pub))
    (hb : st.mem[bs]? = some ⟨X, baseS⟩) (hal : baseS % 4 = 0) (hlt : baseS + X.size < ptrBase) (hn30 : st.mem.size + 2 < 2 ^ 30)
    (h : HState) (o : HObjV X h) :
    RunsTo prog (.call none fn [ep, ed]) env st (fun sig e s => sig = .normal ∧ EnvLe e env ∧ s.ent = st.ent ∧ s.mem.size = st.mem.size ∧
      (∀ j, j ≠ bs → ORel BlockLe s.mem[j]? st.mem[j]?) ∧
      ∃ blk', s.mem[bs]? = some blk' ∧ blk'.base = baseS ∧ blk'.bytes.size = X.size ∧ HObjV blk'.bytes (h.compress d32)) := by
  let hi : St := { st with mem := setBlock st.mem bs (raiseTo 48 X) }
  have hbh : hi.mem[bs]? = some ⟨raiseTo 48 X, baseS⟩ := by
    show (setBlock st.mem bs _)[bs]? = _; rw [getElem?_setBlock', if_pos rfl, hb]; rfl
  have hle : StLe st hi := ⟨memLe_setBlock hb (bytesLe_raiseTo 48 X), rfl, rfl⟩
  have hrun := compress_obj prog fn hprog hperm env hi ep ed bs ⟨raiseTo 48 X, baseS⟩ d32 hd8 hep hed hbh hal
    (by show baseS + (raiseTo 48 X).size < ptrBase; rw [size_raiseTo]; exact hlt)
    (by show (setBlock st.mem bs _).size + 2 < 2 ^ 30; rw [size_setBlock']; exact hn30) h o.raise
  refine (hrun.lower (envLe_refl env) hle).weaken ?_
  intro sig e s ⟨sig2, e', s', ⟨hs2, he2, hent2, bytes', hm2, ho2, hbs2, _⟩, hg, hee, hss⟩
  subst hs2 he2
  have hsig : sig = .normal := by cases sig <;> first | rfl | exact hg.elim
  have hb2 : s'.mem[bs]? = some ⟨bytes', baseS⟩ := by rw [hm2, getElem?_setBlock', if_pos rfl, hbh]; rfl
  have hrel := hss.mem bs
  rw [hb2] at hrel
  refine ⟨hsig, hee, by rw [hss.ent, hent2], ?_, ?_, ?_⟩
  · rw [hss.mem.size_eq, hm2, size_setBlock']; show (setBlock st.mem bs _).size = _; rw [size_setBlock']
  · intro j hj
    have := hss.mem j
    rw [hm2, getElem?_setBlock', if_neg hj] at this
    have e : hi.mem[j]? = st.mem[j]? := by show (setBlock st.mem bs _)[j]? = _; rw [getElem?_setBlock', if_neg hj]
    rw [e] at this
    exact this
  · cases hb1 : s.mem[bs]? with
    | none => rw [hb1] at hrel; exact hrel.elim
    | some blk' =>
      rw [hb1] at hrel
      exact ⟨blk', rfl, hrel.1, by rw [hrel.2.size_eq, hbs2]; show (raiseTo 48 X).size = _; rw [size_raiseTo], ho2.lower hrel.2⟩

theorem runs_memset_zero {prog : Program} {d v n : Expr} {env : Env} {st : St} {P : Sig → Env → St → Prop} (pd vv : Nat) (lv : Lab)
    (hd : evalE env d = .ok (pd, .pub)) (hv : evalE env v = .ok (vv, lv)) (hn : evalE env n = .ok (0, .pub))
    (h : P .normal env { st with leak := .set pd 0 :: st.leak }) : RunsTo prog (.memset d v n) env st P := by
  refine ⟨1, .normal, env, _, ?_, h⟩
  rw [exec, hd, hv, hn]
  simp

theorem runs_memset {prog : Program} {d v n : Expr} {env : Env} {st : St} {P : Sig → Env → St → Prop} (pd vv vn bd offd : Nat) (lv : Lab)
    (hd : evalE env d = .ok (pd, .pub)) (hv : evalE env v = .ok (vv, lv)) (hn : evalE env n = .ok (vn, .pub)) (hvn : vn ≠ 0)
    (hrd : resolve st.mem pd 1 = .ok (bd, offd)) (hbd : offd + vn ≤ (blockBytes st.mem bd).size)
    (h : P .normal env { st with leak := .set pd vn :: st.leak, mem := (setBlock st.mem bd (writeBytes (blockBytes st.mem bd) offd (List.replicate vn ((vv % 256).toUInt8, lv)))) }) :
    RunsTo prog (.memset d v n) env st P := by
  refine ⟨1, .normal, env, _, ?_, h⟩
  rw [exec, hd, hv, hn]
  simp only [ne_eq, not_true_eq_false, decide_false, Bool.or_self, Bool.false_eq_true, if_false, hvn, hrd]
  rw [if_neg (by omega)]

/-- writing labelled bytes into the block buffer of an object with arbitrary defined labels -/
theorem HObjV.writeBytes {X : Array LByte} {h : HState} (o : HObjV X h) (p : Nat) (chunk : List LByte) (hp : p + chunk.length ≤ 16)
    (hl : ∀ x ∈ chunk, x.2 ≠ Lab.undef) :
    HObjV (writeBytes X (32 + p) chunk) { h with block := writeAt h.block p (chunk.map Prod.fst) } := by
  have hsz := o.sz
  have hbl := o.blen
  refine ⟨by rw [size_writeBytes]; exact o.sz, fun i v hv j hj => ?_, by simp only; rw [writeAt_length _ _ _ (by simp; omega)]; exact o.blen,
    fun i b hb => ?_, ?_, o.p16⟩
  · have hi : i < 8 := by
      by_cases hi : i < 8
      · exact hi
      · rw [List.getElem?_eq_none (by simp; omega)] at hv; cases hv
    rw [getElem?_writeBytes]
    have : ¬ (32 + p ≤ 4 * i + j ∧ 4 * i + j < 32 + p + chunk.length ∧ 4 * i + j < X.size) := by omega
    simp only [this, if_false]
    exact o.words i v hv j hj
  · simp only at hb
    rw [writeAt_getElem? _ _ _ _ (by simp; omega)] at hb
    rw [getElem?_writeBytes]
    simp only [List.length_map] at hb
    by_cases hin : p ≤ i ∧ i < p + chunk.length
    · simp only [hin, and_self, if_true, List.getElem?_map] at hb
      have : 32 + p ≤ 32 + i ∧ 32 + i < 32 + p + chunk.length ∧ 32 + i < X.size := by omega
      simp only [this, and_self, if_true]
      rw [show 32 + i - (32 + p) = i - p from by omega]
      cases hc : chunk[i - p]? with
      | none => rw [hc] at hb; cases hb
      | some x =>
        rw [hc] at hb
        obtain ⟨c, l⟩ := x
        have e : c = b := by simpa using hb
        subst e
        exact ⟨l, rfl, hl _ (List.mem_of_getElem? hc)⟩
    · simp only [hin, if_false] at hb
      have : ¬ (32 + p ≤ 32 + i ∧ 32 + i < 32 + p + chunk.length ∧ 32 + i < X.size) := by omega
      simp only [this, if_false]
      exact o.blk i b hb
  · rw [← o.posn]
    apply readLE_congr
    intro j h1 h2
    rw [getElem?_writeBytes]
    have : ¬ (32 + p ≤ j ∧ j < 32 + p + chunk.length ∧ j < X.size) := by omega
    simp only [this, if_false]

theorem HObjV.setPosn {X : Array LByte} {h : HState} (o : HObjV X h) (p : Nat) (hp : p < 16) :
    HObjV (writeLE X 48 p .pub 4) { h with posn := p } := by
  have hsz := o.sz
  refine ⟨by rw [size_writeLE]; exact o.sz, fun i v hv j hj => ?_, o.blen, fun i b hb => ?_, ?_, hp⟩
  · have hi : i < 8 := by
      by_cases hi : i < 8
      · exact hi
      · rw [List.getElem?_eq_none (by simp; omega)] at hv; cases hv
    rw [getElem?_writeLE_out _ _ _ _ _ _ (by omega)]
    exact o.words i v hv j hj
  · have hi : i < 16 := by
      by_cases hi : i < 16
      · exact hi
      · rw [List.getElem?_eq_none (by rw [o.blen]; omega)] at hb; cases hb
    rw [getElem?_writeLE_out _ _ _ _ _ _ (by omega)]
    exact o.blk i b hb
  · rw [readLE_writeLE .pub (by decide) 4 X 48 p (by omega)]
    congr 2
    exact Nat.mod_eq_of_lt (by omega)

/-- every block except `bs` holds the same values as before, with equal or lower labels -/
def OthLe (bs : Nat) (m m0 : Array Block) : Prop := ∀ j, j ≠ bs → ORel BlockLe m[j]? m0[j]?

theorem OthLe.refl (bs : Nat) (m : Array Block) : OthLe bs m m := fun j _ => by
  cases m[j]? with
  | none => trivial
  | some b => exact BlockLe.refl b

theorem blockLe_trans {a b c : Block} (h1 : BlockLe a b) (h2 : BlockLe b c) : BlockLe a c := by
  refine ⟨h1.1.trans h2.1, fun j => ?_⟩
  have p := h1.2 j; have q := h2.2 j
  cases hu : a.bytes[j]? with
  | none => cases hv : b.bytes[j]? with
    | none => rw [hv] at q; cases hw : c.bytes[j]? with
      | none => trivial
      | some _ => rw [hw] at q; exact q.elim
    | some _ => rw [hu, hv] at p; exact p.elim
  | some bu => cases hv : b.bytes[j]? with
    | none => rw [hu, hv] at p; exact p.elim
    | some bv =>
      rw [hu, hv] at p; rw [hv] at q
      cases hw : c.bytes[j]? with
      | none => rw [hw] at q; exact q.elim
      | some bw => rw [hw] at q; exact ⟨p.1.trans q.1, Lab.le_trans p.2 q.2⟩

theorem OthLe.trans {bs : Nat} {a b c : Array Block} (h1 : OthLe bs a b) (h2 : OthLe bs b c) : OthLe bs a c := by
  intro j hj
  have x := h1 j hj; have y := h2 j hj
  cases ha : a[j]? with
  | none => cases hb : b[j]? with
    | none => rw [hb] at y; cases hc : c[j]? with
      | none => trivial
      | some _ => rw [hc] at y; exact y.elim
    | some _ => rw [ha, hb] at x; exact x.elim
  | some u => cases hb : b[j]? with
    | none => rw [ha, hb] at x; exact x.elim
    | some v =>
      rw [ha, hb] at x; rw [hb] at y
      cases hc : c[j]? with
      | none => rw [hc] at y; exact y.elim
      | some w => rw [hc] at y; exact blockLe_trans x y

theorem OthLe.setBlock {bs : Nat} {m m0 : Array Block} (h : OthLe bs m m0) (X : Array LByte) : OthLe bs (setBlock m bs X) m0 := by
  intro j hj
  rw [getElem?_setBlock', if_neg hj]; exact h j hj

def finPre : Stmt :=
  seqs [.assign 2 (.var 0), .assign 3 (.bin .add .u64 (.var 2) (.lit 32)),
        seqs [.load 4 .u32 (.bin .add .u64 (.var 2) (.lit 48)), .assign 5 (.bin .add .u64 (.var 3) (.cast .u64 .u32 (.var 4))),
              .store .u8 (.var 5) (.cast .u8 .i32 (.lit 1))],
        seqs [.load 6 .u32 (.bin .add .u64 (.var 2) (.lit 48)), .load 7 .u32 (.bin .add .u64 (.var 2) (.lit 48)),
              .memset (.bin .add .u64 (.bin .add .u64 (.var 3) (.cast .u64 .u32 (.var 6))) (.lit 1)) (.lit 0)
                (.cast .u64 .u32 (.bin .sub .u32 (.cast .u32 .i32 (.lit 16)) (.bin .add .u32 (.var 7) (.cast .u32 .i32 (.lit 1))))),
              .assign 8 (.bin .add .u64 (.bin .add .u64 (.var 3) (.cast .u64 .u32 (.var 6))) (.lit 1))],
        .call none 21 [.var 2, .cast .u8 .i32 (.lit 2)],
        seqs [.assign 9 (.bin .add .u64 (.var 2) (.lit 48)), .store .u32 (.var 9) (.cast .u32 .i32 (.lit 0))]]

theorem castVal_u8_i32_1 : castVal .u8 .i32 1 = 1 := by decide
theorem castVal_u8_i32_2 : castVal .u8 .i32 2 = 2 := by decide
theorem castVal_u32_i32_1' : castVal .u32 .i32 1 = 1 := by decide

/-- the padded last block of the model -/
def padBlock (h : HState) : Bytes := writeAt (writeAt h.block h.posn [0x01]) (h.posn + 1) (zeros (16 - (h.posn + 1)))

theorem writeAt_nil (dst : Bytes) (off : Nat) : writeAt dst off [] = dst := by
  unfold writeAt; simp

theorem sub32_15 (p : Nat) (hp : p < 16) :
    castVal .u64 .u32 ((16 + 4294967296 - (p + 1) % 4294967296 % 4294967296) % 4294967296) = 15 - p := by
  simp only [castVal, Ty.signed, Bool.false_eq_true, if_false, Ty.modulus]; omega

/-- padding, the final compression with domain 2, and the reset of `posn` -/
theorem fin_pre (prog : Program) (hcomp : prog[idx_tinyjambu_hash_compress]? = some f_tinyjambu_hash_compress)
    (hperm : prog[idx_tinyjambu_permutation_256]? = some f_tinyjambu_permutation_256)
    (env : Env) (st : St) (bs : Nat) (X : Array LByte) (baseS po : Nat) (h : HState)
    (esz : env.size = 58) (e0 : env[0]? = some (mkPtr bs baseS, .pub)) (e1 : env[1]? = some (po, .pub))
    (hb : st.mem[bs]? = some ⟨X, baseS⟩) (o : HObjV X h) (hal : baseS % 4 = 0) (hlt : baseS + X.size < ptrBase)
    (hbs30 : bs < 2 ^ 30) (hn30 : st.mem.size + 2 < 2 ^ 30) :
    RunsTo prog finPre env st (fun sig e s => sig = .normal ∧ e.size = 58 ∧ e[1]? = some (po, .pub) ∧ e[2]? = some (mkPtr bs baseS, .pub) ∧
      s.ent = st.ent ∧ s.mem.size = st.mem.size ∧ OthLe bs s.mem st.mem ∧
      ∃ blk', s.mem[bs]? = some blk' ∧ blk'.base = baseS ∧ blk'.bytes.size = X.size ∧
        HObjV blk'.bytes { ({ h with block := padBlock h }.compress 2) with posn := 0 }) := by
  have hsz := o.sz; have hp16 := o.p16
  unfold finPre
  simp only [seqs]
  let E1 := setVar env 2 (mkPtr bs baseS, Lab.pub)
  have hp32 : (mkPtr bs baseS + 32) % 18446744073709551616 = mkPtr bs (baseS + 32) := ptr_off bs baseS 32 hbs30 (by omega)
  have hp48 : (mkPtr bs baseS + 48) % 18446744073709551616 = mkPtr bs (baseS + 48) := ptr_off bs baseS 48 hbs30 (by omega)
  let E2 := setVar E1 3 (mkPtr bs (baseS + 32), Lab.pub)
  have e2s : E2.size = 58 := by simp only [E2, E1, size_setVar]; exact esz
  have e2_1 : E2[1]? = some (po, Lab.pub) := by
    show (setVar (setVar env 2 _) 3 _)[1]? = _; rw [get_set_ne _ _ _ _ (by decide), get_set_ne _ _ _ _ (by decide)]; exact e1
  have e2_2 : E2[2]? = some (mkPtr bs baseS, Lab.pub) := by
    show (setVar (setVar env 2 _) 3 _)[2]? = _; rw [get_set_ne _ _ _ _ (by decide)]; exact get_set_eq _ _ _ (by rw [esz]; decide)
  have e2_3 : E2[3]? = some (mkPtr bs (baseS + 32), Lab.pub) := get_set_eq _ _ _ (by simp only [E1, size_setVar, esz]; decide)
  refine runs_seq (Q := fun e s => e = E1 ∧ s = st) (runs_assign _ (by simp only [evalE, e0, reduceCtorEq, if_false]) ⟨rfl, rfl, rfl⟩) ?_
  intro e s ⟨he, hs⟩; rw [he, hs]
  have e1_2 : E1[2]? = some (mkPtr bs baseS, Lab.pub) := get_set_eq _ _ _ (by rw [esz]; decide)
  refine runs_seq (Q := fun e s => e = E2 ∧ s = st) (runs_assign _ (by
    simp only [evalE, e1_2, reduceCtorEq, if_false, BinOp.needsPub2, BinOp.needsPub1, Bool.false_and, Bool.or_self, Bool.false_eq_true, binVal,
      Ty.modulus, Lab.join_pub_pub, hp32]) ⟨rfl, rfl, rfl⟩) ?_
  intro e s ⟨he, hs⟩; rw [he, hs]
  -- a generic "load posn" step on an environment that keeps variables 1, 2, 3
  have loadPosn : ∀ (E : Env) (S : St) (Y : Array LByte) (hh : HState) (x : Nat), E[2]? = some (mkPtr bs baseS, Lab.pub) → S.mem[bs]? = some ⟨Y, baseS⟩ →
      HObjV Y hh → Y.size = X.size → ∀ {P : Sig → Env → St → Prop}, P .normal (setVar E x (hh.posn, .pub)) { S with leak := Ev.rd (mkPtr bs (baseS + 48)) 4 :: S.leak } →
      RunsTo prog (.load x .u32 (.bin .add .u64 (.var 2) (.lit 48))) E S P := by
    intro E S Y hh x hE hS hY hYs P hP
    exact runs_load (mkPtr bs (baseS + 48)) bs 48 4 (hh.posn, .pub) rfl
      (by simp only [evalE, hE, reduceCtorEq, if_false, BinOp.needsPub2, BinOp.needsPub1, Bool.false_and, Bool.or_self, Bool.false_eq_true, binVal,
        Ty.modulus, Lab.join_pub_pub, hp48])
      (resolve_word hS 48 (by omega) (by omega) (by omega)) (by rw [blockBytes_of hS]; exact hY.posn) hP
  have hcp : castVal .u64 .u32 h.posn = h.posn := by
    simp only [castVal, Ty.signed, Bool.false_eq_true, if_false, Ty.modulus]; omega
  have hpp : (mkPtr bs (baseS + 32) + h.posn) % 18446744073709551616 = mkPtr bs (baseS + 32 + h.posn) := ptr_off bs (baseS + 32) h.posn hbs30 (by omega)
  -- block[posn] = 1
  let E3 := setVar E2 4 (h.posn, Lab.pub)
  let E4 := setVar E3 5 (mkPtr bs (baseS + 32 + h.posn), Lab.pub)
  let X1 := writeBytes X (32 + h.posn) [((1 : UInt8), Lab.pub)]
  have o1 : HObjV X1 { h with block := writeAt h.block h.posn [0x01] } := o.writeBytes h.posn [(1, Lab.pub)] (by simp; omega) (by intro x hx; simp at hx; rw [hx]; decide)
  have hX1s : X1.size = X.size := size_writeBytes _ _ _
  refine runs_seq (Q := fun e s => e = E4 ∧ s.mem = setBlock st.mem bs X1 ∧ s.ent = st.ent) ?_ ?_
  · refine runs_seq (Q := fun e s => e = E3 ∧ s.mem = st.mem ∧ s.ent = st.ent) (loadPosn E2 st X h 4 e2_2 hb o rfl ⟨rfl, rfl, rfl, rfl⟩) ?_
    intro e s ⟨he, hm, hent⟩; rw [he]
    have e3_3 : E3[3]? = some (mkPtr bs (baseS + 32), Lab.pub) := by show (setVar E2 4 _)[3]? = _; rw [get_set_ne _ _ _ _ (by decide)]; exact e2_3
    have e3_4 : E3[4]? = some (h.posn, Lab.pub) := get_set_eq _ _ _ (by rw [e2s]; decide)
    refine runs_seq (Q := fun e' s' => e' = E4 ∧ s' = s) (runs_assign _ (by
      simp only [evalE, e3_3, e3_4, reduceCtorEq, if_false, hcp, BinOp.needsPub2, BinOp.needsPub1, Bool.false_and, Bool.or_self, Bool.false_eq_true,
        binVal, Ty.modulus, Lab.join_pub_pub, hpp]) ⟨rfl, rfl, rfl⟩) ?_
    intro e' s' ⟨he', hs'⟩; rw [he', hs']
    have e4_5 : E4[5]? = some (mkPtr bs (baseS + 32 + h.posn), Lab.pub) := get_set_eq _ _ _ (by simp only [E3, size_setVar, e2s]; decide)
    have hbS : s.mem[bs]? = some ⟨X, baseS⟩ := by rw [hm]; exact hb
    refine runs_store (mkPtr bs (baseS + (32 + h.posn))) 1 bs (32 + h.posn) 1 .pub rfl (by simp only [evalE, e4_5, reduceCtorEq, if_false, Nat.add_assoc])
      (by simp only [evalE, castVal_u8_i32_1]) (resolve_byte hbS (32 + h.posn) (by omega) (by omega)) ?_
    rw [blockBytes_of hbS]
    exact ⟨rfl, rfl, by rw [hm]; rfl, hent⟩
  · intro e s ⟨he, hm, hent⟩; rw [he]
    have hbS1 : s.mem[bs]? = some ⟨X1, baseS⟩ := by rw [hm, getElem?_setBlock', if_pos rfl, hb]; rfl
    have e4_2 : E4[2]? = some (mkPtr bs baseS, Lab.pub) := by
      show (setVar (setVar E2 4 _) 5 _)[2]? = _; rw [get_set_ne _ _ _ _ (by decide), get_set_ne _ _ _ _ (by decide)]; exact e2_2
    have e4s : E4.size = 58 := by simp only [E4, E3, size_setVar]; exact e2s
    -- memset(block + posn + 1, 0, 16 - (posn + 1))
    let E5 := setVar E4 6 (h.posn, Lab.pub)
    let E6 := setVar E5 7 (h.posn, Lab.pub)
    let E7 := setVar E6 8 (mkPtr bs (baseS + 32 + h.posn + 1), Lab.pub)
    let X2 := writeBytes X1 (32 + (h.posn + 1)) (List.replicate (15 - h.posn) ((0 : UInt8), Lab.pub))
    have o2 : HObjV X2 { h with block := padBlock h } := by
      have := o1.writeBytes (h.posn + 1) (List.replicate (15 - h.posn) ((0 : UInt8), Lab.pub)) (by simp; omega)
        (by intro x hx; rw [List.eq_of_mem_replicate hx]; decide)
      simp only [List.map_replicate] at this
      have e : 16 - (h.posn + 1) = 15 - h.posn := by omega
      unfold padBlock zeros
      rw [e]
      exact this
    have hX2s : X2.size = X.size := by show (writeBytes X1 _ _).size = _; rw [size_writeBytes]; exact hX1s
    have e6_3 : E6[3]? = some (mkPtr bs (baseS + 32), Lab.pub) := by
      show (setVar (setVar (setVar (setVar E2 4 _) 5 _) 6 _) 7 _)[3]? = _
      rw [get_set_ne _ _ _ _ (by decide), get_set_ne _ _ _ _ (by decide), get_set_ne _ _ _ _ (by decide), get_set_ne _ _ _ _ (by decide)]; exact e2_3
    have e6_6 : E6[6]? = some (h.posn, Lab.pub) := by
      show (setVar (setVar E4 6 _) 7 _)[6]? = _; rw [get_set_ne _ _ _ _ (by decide)]; exact get_set_eq _ _ _ (by rw [e4s]; decide)
    have e6_7 : E6[7]? = some (h.posn, Lab.pub) := get_set_eq _ _ _ (by simp only [E5, size_setVar, e4s]; decide)
    have hpp1 : (mkPtr bs (baseS + 32 + h.posn) + 1) % 18446744073709551616 = mkPtr bs (baseS + 32 + h.posn + 1) :=
      ptr_off bs (baseS + 32 + h.posn) 1 hbs30 (by omega)
    have hdst : evalE E6 (.bin .add .u64 (.bin .add .u64 (.var 3) (.cast .u64 .u32 (.var 6))) (.lit 1)) = .ok (mkPtr bs (baseS + 32 + h.posn + 1), .pub) := by
      simp only [evalE, e6_3, e6_6, reduceCtorEq, if_false, hcp, BinOp.needsPub2, BinOp.needsPub1, Bool.false_and, Bool.or_self, Bool.false_eq_true,
        binVal, Ty.modulus, Lab.join_pub_pub, hpp, hpp1]
    have hcnt : evalE E6 (.cast .u64 .u32 (.bin .sub .u32 (.cast .u32 .i32 (.lit 16)) (.bin .add .u32 (.var 7) (.cast .u32 .i32 (.lit 1))))) = .ok (15 - h.posn, .pub) := by
      simp only [evalE, e6_7, reduceCtorEq, if_false, castVal_u32_i32_16, castVal_u32_i32_1', BinOp.needsPub2, BinOp.needsPub1, Bool.false_and, Bool.or_self,
        Bool.false_eq_true, binVal, Ty.modulus, Lab.join_pub_pub, sub32_15 h.posn hp16]
    refine runs_seq (Q := fun e s' => e = E7 ∧ s'.mem = setBlock st.mem bs X2 ∧ s'.ent = st.ent) ?_ ?_
    · refine runs_seq (Q := fun e s' => e = E5 ∧ s'.mem = s.mem ∧ s'.ent = s.ent) (loadPosn E4 s X1 _ 6 e4_2 hbS1 o1 hX1s ⟨rfl, rfl, rfl, rfl⟩) ?_
      intro e s' ⟨he, hm', hent'⟩; rw [he]
      have e5_2 : E5[2]? = some (mkPtr bs baseS, Lab.pub) := by show (setVar E4 6 _)[2]? = _; rw [get_set_ne _ _ _ _ (by decide)]; exact e4_2
      refine runs_seq (Q := fun e s'' => e = E6 ∧ s''.mem = s.mem ∧ s''.ent = s.ent)
        (loadPosn E5 s' X1 _ 7 e5_2 (by rw [hm']; exact hbS1) o1 hX1s ⟨rfl, rfl, hm', hent'⟩) ?_
      intro e s'' ⟨he, hm'', hent''⟩; rw [he]
      have hbS1'' : s''.mem[bs]? = some ⟨X1, baseS⟩ := by rw [hm'']; exact hbS1
      refine runs_seq (Q := fun e s3 => e = E6 ∧ s3.mem = setBlock st.mem bs X2 ∧ s3.ent = st.ent) ?_ ?_
      · by_cases h15 : 15 - h.posn = 0
        · refine runs_memset_zero (mkPtr bs (baseS + 32 + h.posn + 1)) 0 .pub hdst (by simp only [evalE]) (by rw [hcnt, h15]) ⟨rfl, rfl, ?_, by rw [hent'', hent]⟩
          show s''.mem = _
          rw [hm'', hm]
          show _ = setBlock st.mem bs (writeBytes X1 _ (List.replicate (15 - h.posn) _))
          rw [h15]; rfl
        · refine runs_memset (mkPtr bs (baseS + (32 + (h.posn + 1)))) 0 (15 - h.posn) bs (32 + (h.posn + 1)) .pub
            (by rw [hdst]; simp only [Nat.add_assoc]) (by simp only [evalE]) hcnt h15
            (resolve_byte hbS1'' (32 + (h.posn + 1)) (by omega) (by omega)) (by rw [blockBytes_of hbS1'']; omega) ?_
          rw [blockBytes_of hbS1'']
          refine ⟨rfl, rfl, ?_, by rw [hent'', hent]⟩
          show setBlock s''.mem bs _ = _
          rw [hm'', hm, setBlock_setBlock st.mem bs _ _ ⟨X, baseS⟩ hb]
          rfl
      · intro e s3 ⟨he, hm3, hent3⟩; rw [he]
        exact runs_assign _ hdst ⟨rfl, rfl, hm3, hent3⟩
    · intro e s' ⟨he, hm', hent'⟩; rw [he]
      have hbS2 : s'.mem[bs]? = some ⟨X2, baseS⟩ := by rw [hm', getElem?_setBlock', if_pos rfl, hb]; rfl
      have e7_2 : E7[2]? = some (mkPtr bs baseS, Lab.pub) := by
        show (setVar (setVar (setVar E4 6 _) 7 _) 8 _)[2]? = _
        rw [get_set_ne _ _ _ _ (by decide), get_set_ne _ _ _ _ (by decide), get_set_ne _ _ _ _ (by decide)]; exact e4_2
      have e7_1 : E7[1]? = some (po, Lab.pub) := by
        show (setVar (setVar (setVar (setVar (setVar E2 4 _) 5 _) 6 _) 7 _) 8 _)[1]? = _
        rw [get_set_ne _ _ _ _ (by decide), get_set_ne _ _ _ _ (by decide), get_set_ne _ _ _ _ (by decide), get_set_ne _ _ _ _ (by decide),
          get_set_ne _ _ _ _ (by decide)]; exact e2_1
      have e7s : E7.size = 58 := by simp only [E7, E6, E5, size_setVar]; exact e4s
      -- compress(state, 2)
      refine runs_seq (Q := fun e s4 => e.size = 58 ∧ e[1]? = some (po, .pub) ∧ e[2]? = some (mkPtr bs baseS, .pub) ∧ s4.ent = st.ent ∧
          s4.mem.size = st.mem.size ∧ OthLe bs s4.mem st.mem ∧
          ∃ blk', s4.mem[bs]? = some blk' ∧ blk'.base = baseS ∧ blk'.bytes.size = X.size ∧ HObjV blk'.bytes ({ h with block := padBlock h }.compress 2)) ?_ ?_
      · refine (compress_objV prog 21 hcomp hperm E7 s' (.var 2) (.cast .u8 .i32 (.lit 2)) bs X2 baseS 2 (by decide)
          (by simp only [evalE, e7_2, reduceCtorEq, if_false]) (by simp only [evalE, castVal_u8_i32_2]; rfl) hbS2 hal (by rw [hX2s]; exact hlt)
          (by rw [hm', size_setBlock']; exact hn30) _ o2).weaken ?_
        intro sig e s4 ⟨hsig, hee, hent4, hsz4, hoth4, blk', hb4, hbase4, hsz4', ho4⟩
        refine ⟨hsig, by rw [hee.size_eq]; exact e7s, envLe_pub hee 1 po e7_1, envLe_pub hee 2 _ e7_2, by rw [hent4, hent'],
          by rw [hsz4, hm', size_setBlock'], ?_, blk', hb4, hbase4, by rw [hsz4', hX2s], ho4⟩
        intro j hj
        have := hoth4 j hj
        rw [hm', getElem?_setBlock', if_neg hj] at this
        exact this
      · intro e s4 ⟨hes, he1, he2, hent4, hsz4, hoth4, blk', hb4, hbase4, hbsz4, ho4⟩
        -- posn = 0
        have hb4' : s4.mem[bs]? = some ⟨blk'.bytes, baseS⟩ := by rw [hb4, ← hbase4]
        let E9 := setVar e 9 (mkPtr bs (baseS + 48), Lab.pub)
        refine runs_seq (Q := fun e' s5 => e' = E9 ∧ s5 = s4) (runs_assign _ (by
          simp only [evalE, he2, reduceCtorEq, if_false, BinOp.needsPub2, BinOp.needsPub1, Bool.false_and, Bool.or_self, Bool.false_eq_true, binVal,
            Ty.modulus, Lab.join_pub_pub, hp48]) ⟨rfl, rfl, rfl⟩) ?_
        intro e' s5 ⟨he', hs5⟩; rw [he', hs5]
        have e9_9 : E9[9]? = some (mkPtr bs (baseS + 48), Lab.pub) := get_set_eq _ _ _ (by rw [hes]; decide)
        refine runs_store (mkPtr bs (baseS + 48)) 0 bs 48 4 .pub rfl (by simp only [evalE, e9_9, reduceCtorEq, if_false])
          (by simp only [evalE, castVal_u32_i32_0']) (resolve_word hb4' 48 (by omega) (by omega) (by omega)) ?_
        rw [blockBytes_of hb4']
        refine ⟨rfl, by simp only [E9, size_setVar]; exact hes, ?_, ?_, hent4, by simp only [size_setBlock']; exact hsz4, hoth4.setBlock _, ⟨writeLE blk'.bytes 48 0 .pub 4, baseS⟩, ?_, rfl, ?_,
          ho4.setPosn 0 (by decide)⟩
        · show (setVar e 9 _)[1]? = _; rw [get_set_ne _ _ _ _ (by decide)]; exact he1
        · show (setVar e 9 _)[2]? = _; rw [get_set_ne _ _ _ _ (by decide)]; exact he2
        · show (setBlock s4.mem bs _)[bs]? = _
          rw [getElem?_setBlock', if_pos rfl, hb4']; rfl
        · show (writeLE _ _ _ _ _).size = _; rw [size_writeLE]; exact hbsz4

theorem seqs_cons2 (a b : Stmt) (t : List Stmt) : seqs (a :: b :: t) = .seq a (seqs (b :: t)) := rfl

/-- a list of statements followed by another list -/
theorem runs_seqs_append {prog : Program} {Q : Env → St → Prop} {P : Sig → Env → St → Prop} (ys : List Stmt) (hy : ys ≠ []) :
    ∀ (xs : List Stmt), xs ≠ [] → ∀ (env : Env) (st : St), RunsTo prog (seqs xs) env st (fun sig e s => sig = .normal ∧ Q e s) →
    (∀ e s, Q e s → RunsTo prog (seqs ys) e s P) → RunsTo prog (seqs (xs ++ ys)) env st P
  | [], hx, _, _, _, _ => absurd rfl hx
  | [a], _, env, st, ha, hb => by
    obtain ⟨y, ys', rfl⟩ : ∃ y ys', ys = y :: ys' := by cases ys with | nil => exact absurd rfl hy | cons y t => exact ⟨y, t, rfl⟩
    show RunsTo prog (.seq a (seqs (y :: ys'))) env st P
    exact runs_seq (Q := Q) ha hb
  | a :: b :: t, _, env, st, ha, hb => by
    show RunsTo prog (.seq a (seqs ((b :: t) ++ ys))) env st P
    obtain ⟨n, sig, e, s, hx, hs, hq⟩ := ha
    subst hs
    rw [seqs_cons2] at hx
    cases n with
    | zero => simp [exec] at hx
    | succ n =>
      rw [exec] at hx
      cases hr : exec prog n a env st with
      | timeout => rw [hr] at hx; cases hx
      | fault _ _ => rw [hr] at hx; cases hx
      | ok g e1 s1 =>
        rw [hr] at hx
        cases g with
        | brk => cases hx
        | ret v => cases hx
        | normal =>
          simp only at hx
          refine runs_seq (Q := fun e' s' => e' = e1 ∧ s' = s1) ⟨n, .normal, e1, s1, hr, rfl, rfl, rfl⟩ ?_
          intro e' s' ⟨he, hs⟩
          rw [he, hs]
          exact runs_seqs_append ys hy (b :: t) (by simp) e1 s1 ⟨n, .normal, e, s, hx, rfl, hq⟩ hb

/-! ### the output phase of `tinyjambu_hash_finalize`: eight words, least significant byte first -/

def addrO (q : Nat) : Expr := if q = 0 then .var 1 else .bin .add .u64 (.var 1) (.lit q)
def addrW (i : Nat) : Expr := if i = 0 then .var 2 else .bin .add .u64 (.var 2) (.lit (4 * i))
def byteVal (w j : Nat) : Expr := if j = 0 then .cast .u8 .u32 (.var w) else .cast .u8 .u32 (.bin .shr .u32 (.var w) (.lit (8 * j)))

def byteStmt (t q w j : Nat) : Stmt := seqs [.assign t (addrO q), .store .u8 (.var t) (byteVal w j)]

def wordStmt (i : Nat) (neg : Bool) : Stmt :=
  seqs [seqs [.load (11 + 6 * i) .u32 (addrW i), .assign (10 + 6 * i) (if neg then .un .bnot .u32 (.var (11 + 6 * i)) else .var (11 + 6 * i))],
        byteStmt (12 + 6 * i) (4 * i) (10 + 6 * i) 0, byteStmt (13 + 6 * i) (4 * i + 1) (10 + 6 * i) 1,
        byteStmt (14 + 6 * i) (4 * i + 2) (10 + 6 * i) 2, byteStmt (15 + 6 * i) (4 * i + 3) (10 + 6 * i) 3]

theorem finalize_body_eq : f_tinyjambu_hash_finalize.body =
    seqs ([.assign 2 (.var 0), .assign 3 (.bin .add .u64 (.var 2) (.lit 32)),
        seqs [.load 4 .u32 (.bin .add .u64 (.var 2) (.lit 48)), .assign 5 (.bin .add .u64 (.var 3) (.cast .u64 .u32 (.var 4))),
              .store .u8 (.var 5) (.cast .u8 .i32 (.lit 1))],
        seqs [.load 6 .u32 (.bin .add .u64 (.var 2) (.lit 48)), .load 7 .u32 (.bin .add .u64 (.var 2) (.lit 48)),
              .memset (.bin .add .u64 (.bin .add .u64 (.var 3) (.cast .u64 .u32 (.var 6))) (.lit 1)) (.lit 0)
                (.cast .u64 .u32 (.bin .sub .u32 (.cast .u32 .i32 (.lit 16)) (.bin .add .u32 (.var 7) (.cast .u32 .i32 (.lit 1))))),
              .assign 8 (.bin .add .u64 (.bin .add .u64 (.var 3) (.cast .u64 .u32 (.var 6))) (.lit 1))],
        .call none 21 [.var 2, .cast .u8 .i32 (.lit 2)],
        seqs [.assign 9 (.bin .add .u64 (.var 2) (.lit 48)), .store .u32 (.var 9) (.cast .u32 .i32 (.lit 0))]] ++
      [wordStmt 0 false, wordStmt 1 false, wordStmt 2 false, wordStmt 3 false, wordStmt 4 true, wordStmt 5 true, wordStmt 6 true, wordStmt 7 true]) := rfl

/-- the eight output words of a finalized state -/
def outWords (h : HState) : List UInt32 := [h.s.a, h.s.b, h.s.c, h.s.d, ~~~ h.k0, ~~~ h.k1, ~~~ h.k2, ~~~ h.k3]

/-- four bytes with arbitrary defined labels read as a word -/
theorem readLE_of_bytesV (X : Array LByte) (off : Nat) (v : Nat) (hv : v < 4294967296)
    (h : ∀ j, j < 4 → ∃ l, X[off + j]? = some (byteOf v j, l) ∧ l ≠ Lab.undef) : ∃ l, readLE X off 4 = some (v, l) ∧ l ≠ Lab.undef := by
  obtain ⟨l0, h0, u0⟩ := h 0 (by decide); obtain ⟨l1, h1, u1⟩ := h 1 (by decide)
  obtain ⟨l2, h2, u2⟩ := h 2 (by decide); obtain ⟨l3, h3, u3⟩ := h 3 (by decide)
  simp only [Nat.add_zero] at h0
  refine ⟨l0.join (l1.join (l2.join (l3.join .pub))), ?_, by cases l0 <;> cases l1 <;> cases l2 <;> cases l3 <;> simp [Lab.join] at *⟩
  simp only [readLE, h0, h1, h2, h3, show off + 1 + 1 = off + 2 from rfl, show off + 2 + 1 = off + 3 from rfl, u0, u1, u2, u3, if_false, byteOf_toNat]
  congr 2
  simp only [Nat.pow_zero, Nat.div_one, Nat.pow_one, show (256 : Nat) ^ 2 = 65536 from rfl, show (256 : Nat) ^ 3 = 16777216 from rfl]
  omega

/-- the invariant of the output phase: `c` digest bytes written so far -/
structure FO (bs baseS bo baseo oo : Nat) (Xf XO0 : Array LByte) (dig : Bytes) (st0 : St) (c : Nat) (env : Env) (st : St) : Prop where
  esz : env.size = 58
  e1 : env[1]? = some (mkPtr bo (baseo + oo), .pub)
  e2 : env[2]? = some (mkPtr bs baseS, .pub)
  mS : st.mem[bs]? = some ⟨Xf, baseS⟩
  mO : ∃ XO, st.mem[bo]? = some ⟨XO, baseo⟩ ∧ XO.size = XO0.size ∧
        (∀ q b, q < c → dig[q]? = some b → ∃ l, XO[oo + q]? = some (b, l) ∧ l ≠ Lab.undef) ∧
        (∀ q, (q < oo ∨ oo + 32 ≤ q) → ORel VLe XO[q]? XO0[q]?)
  oth : ∀ j, j ≠ bs → j ≠ bo → ORel BlockLe st.mem[j]? st0.mem[j]?
  msz : st.mem.size = st0.mem.size
  ent : st.ent = st0.ent

theorem castVal_u8_u32 (n : Nat) : castVal .u8 .u32 n = n % 256 := by
  simp only [castVal, Ty.signed, Bool.false_eq_true, if_false, Ty.modulus]

/-- one output byte: `p = out + q; *p = (uint8_t)(w >> 8j)` -/
theorem byte_out {prog : Program} {bs baseS bo baseo oo : Nat} {Xf XO0 : Array LByte} {dig : Bytes} {st0 : St} {c : Nat} {env : Env} {st : St}
    (fo : FO bs baseS bo baseo oo Xf XO0 dig st0 c env st) (hne : bo ≠ bs) (hbo30 : bo < 2 ^ 30) (hlt : baseo + XO0.size < ptrBase) (hin : oo + 32 ≤ XO0.size)
    (t w j : Nat) (v : UInt32) (l : Lab) (hl : l ≠ .undef) (ht : 10 ≤ t ∧ t < 58) (htw : t ≠ w) (hj : j < 4) (hc : c < 32)
    (hw : env[w]? = some (v.toNat, l)) (hd : dig[c]? = some (byteOf v.toNat j)) :
    RunsTo prog (byteStmt t c w j) env st (fun sig e s => sig = .normal ∧ FO bs baseS bo baseo oo Xf XO0 dig st0 (c + 1) e s ∧ e[w]? = some (v.toNat, l)) := by
  obtain ⟨XO, hmO, hOs, hdone, hout⟩ := fo.mO
  have hes := fo.esz
  have hp : evalE env (addrO c) = .ok (mkPtr bo (baseo + oo + c), .pub) := by
    unfold addrO
    by_cases h0 : c = 0
    · subst h0; simp only [if_true, evalE, fo.e1, reduceCtorEq, if_false, Nat.add_zero]
    · simp only [h0, if_false, evalE, fo.e1, reduceCtorEq, BinOp.needsPub2, BinOp.needsPub1, Bool.false_and, Bool.or_self, Bool.false_eq_true, binVal,
        Ty.modulus, Lab.join_pub_pub]
      rw [ptr_off bo (baseo + oo) c hbo30 (by omega)]
  let E1 := setVar env t (mkPtr bo (baseo + oo + c), Lab.pub)
  have e1_t : E1[t]? = some (mkPtr bo (baseo + oo + c), Lab.pub) := get_set_eq _ _ _ (by omega)
  have e1_w : E1[w]? = some (v.toNat, l) := by show (setVar env t _)[w]? = _; rw [get_set_ne _ _ _ _ htw]; exact hw
  have hbv : evalE E1 (byteVal w j) = .ok ((byteOf v.toNat j).toNat, l) := by
    have hvlt := UInt32.toNat_lt v
    unfold byteVal
    match j, hj with
    | 0, _ =>
      simp only [if_true, evalE, e1_w, hl, if_false, castVal_u8_u32, byteOf_toNat, Nat.pow_zero, Nat.div_one]
    | 1, _ =>
      simp only [show ¬ (1 = 0) from by decide, if_false, evalE, e1_w, hl, BinOp.needsPub2, BinOp.needsPub1, Bool.true_and, Bool.false_and, Bool.or_false,
        ne_eq, not_true_eq_false, decide_false, Bool.false_eq_true, binVal, Ty.bits, Ty.signed, show ¬ (8 * 1 ≥ 32) from by decide,
        castVal_u8_u32, byteOf_toNat, Nat.shiftRight_eq_div_pow, Lab.join]
      cases l <;> first | rfl | exact absurd rfl hl
    | 2, _ =>
      simp only [show ¬ (2 = 0) from by decide, if_false, evalE, e1_w, hl, BinOp.needsPub2, BinOp.needsPub1, Bool.true_and, Bool.false_and, Bool.or_false,
        ne_eq, not_true_eq_false, decide_false, Bool.false_eq_true, binVal, Ty.bits, Ty.signed, show ¬ (8 * 2 ≥ 32) from by decide,
        castVal_u8_u32, byteOf_toNat, Nat.shiftRight_eq_div_pow, Lab.join]
      cases l <;> first | rfl | exact absurd rfl hl
    | 3, _ =>
      simp only [show ¬ (3 = 0) from by decide, if_false, evalE, e1_w, hl, BinOp.needsPub2, BinOp.needsPub1, Bool.true_and, Bool.false_and, Bool.or_false,
        ne_eq, not_true_eq_false, decide_false, Bool.false_eq_true, binVal, Ty.bits, Ty.signed, show ¬ (8 * 3 ≥ 32) from by decide,
        castVal_u8_u32, byteOf_toNat, Nat.shiftRight_eq_div_pow, Lab.join]
      cases l <;> first | rfl | exact absurd rfl hl
  unfold byteStmt
  simp only [seqs]
  refine runs_seq (Q := fun e s => e = E1 ∧ s = st) (runs_assign _ hp ⟨rfl, rfl, rfl⟩) ?_
  intro e s ⟨he, hs⟩; rw [he, hs]
  refine runs_store (mkPtr bo (baseo + (oo + c))) (byteOf v.toNat j).toNat bo (oo + c) 1 l rfl (by simp only [evalE, e1_t, reduceCtorEq, if_false, Nat.add_assoc])
    hbv (resolve_byte hmO (oo + c) (by omega) (by omega)) ?_
  rw [blockBytes_of hmO]
  have hb256 : (byteOf v.toNat j).toNat % 256 = (byteOf v.toNat j).toNat := Nat.mod_eq_of_lt (UInt8.toNat_lt _)
  have hwr : writeLE XO (oo + c) (byteOf v.toNat j).toNat l 1 = XO.setIfInBounds (oo + c) (byteOf v.toNat j, l) := by
    simp only [writeLE, hb256]
    congr 2
    exact UInt8.toNat_inj.mp (by simp [Nat.toUInt8, UInt8.toNat_ofNat'])
  rw [hwr]
  refine ⟨rfl, ⟨by simp only [E1, size_setVar]; exact hes, ?_, ?_, ?_, ⟨XO.setIfInBounds (oo + c) (byteOf v.toNat j, l), ?_, by simp only [Array.size_setIfInBounds]; exact hOs, ?_, ?_⟩, ?_, ?_, fo.ent⟩, e1_w⟩
  · show (setVar env t _)[1]? = _; rw [get_set_ne _ _ _ _ (by omega)]; exact fo.e1
  · show (setVar env t _)[2]? = _; rw [get_set_ne _ _ _ _ (by omega)]; exact fo.e2
  · show (setBlock st.mem bo _)[bs]? = _; rw [getElem?_setBlock', if_neg (fun e => hne e.symm)]; exact fo.mS
  · show (setBlock st.mem bo _)[bo]? = _; rw [getElem?_setBlock', if_pos rfl, hmO]; rfl
  · intro q b hq hb
    rw [Array.getElem?_setIfInBounds]
    by_cases hqc : q = c
    · subst hqc
      rw [hd] at hb
      have e : byteOf v.toNat j = b := by injection hb
      simp only [if_true, show oo + q < XO.size from by omega, e]
      exact ⟨l, rfl, hl⟩
    · have : ¬ oo + c = oo + q := by omega
      simp only [this, if_false]
      exact hdone q b (by omega) hb
  · intro q hq
    rw [Array.getElem?_setIfInBounds]
    have : ¬ oo + c = q := by omega
    simp only [this, if_false]
    exact hout q hq
  · intro j' h1 h2
    show ORel BlockLe (setBlock st.mem bo _)[j']? _
    rw [getElem?_setBlock', if_neg h2]; exact fo.oth j' h1 h2
  · show (setBlock st.mem bo _).size = _; rw [size_setBlock']; exact fo.msz

/-- one output word -/
theorem word_out {prog : Program} {bs baseS bo baseo oo : Nat} {Xf XO0 : Array LByte} {dig : Bytes} {st0 : St} {env : Env} {st : St} (i : Nat) (hi : i < 8)
    (fo : FO bs baseS bo baseo oo Xf XO0 dig st0 (4 * i) env st) (hne : bo ≠ bs) (hbo30 : bo < 2 ^ 30) (hbs30 : bs < 2 ^ 30)
    (hlt : baseo + XO0.size < ptrBase) (hin : oo + 32 ≤ XO0.size) (hal : baseS % 4 = 0) (hltS : baseS + Xf.size < ptrBase)
    (hf : HState) (hobj : HObjV Xf hf) (vraw : UInt32) (hraw : [hf.s.a, hf.s.b, hf.s.c, hf.s.d, hf.k0, hf.k1, hf.k2, hf.k3][i]? = some vraw) (neg : Bool)
    (hdig : ∀ j, j < 4 → dig[4 * i + j]? = some (byteOf (if neg then ~~~ vraw else vraw).toNat j)) :
    RunsTo prog (wordStmt i neg) env st (fun sig e s => sig = .normal ∧ FO bs baseS bo baseo oo Xf XO0 dig st0 (4 * i + 4) e s) := by
  have hsz := hobj.sz
  have hes := fo.esz
  obtain ⟨l, hrd, hl⟩ := readLE_of_bytesV Xf (4 * i) vraw.toNat (UInt32.toNat_lt _) (hobj.words i vraw hraw)
  have hpw : evalE env (addrW i) = .ok (mkPtr bs (baseS + 4 * i), .pub) := by
    unfold addrW
    by_cases h0 : i = 0
    · subst h0; simp only [if_true, evalE, fo.e2, reduceCtorEq, if_false, Nat.mul_zero, Nat.add_zero]
    · simp only [h0, if_false, evalE, fo.e2, reduceCtorEq, BinOp.needsPub2, BinOp.needsPub1, Bool.false_and, Bool.or_self, Bool.false_eq_true, binVal,
        Ty.modulus, Lab.join_pub_pub]
      rw [ptr_off bs baseS (4 * i) hbs30 (by omega)]
  let v' : UInt32 := if neg then ~~~ vraw else vraw
  let E1 := setVar env (11 + 6 * i) (vraw.toNat, l)
  let E2 := setVar E1 (10 + 6 * i) (v'.toNat, l)
  have e1_wt : E1[11 + 6 * i]? = some (vraw.toNat, l) := get_set_eq _ _ _ (by omega)
  have e2_w : E2[10 + 6 * i]? = some (v'.toNat, l) := get_set_eq _ _ _ (by simp only [E1, size_setVar]; omega)
  have fo2 : FO bs baseS bo baseo oo Xf XO0 dig st0 (4 * i) E2 { st with leak := Ev.rd (mkPtr bs (baseS + 4 * i)) 4 :: st.leak } :=
    ⟨by simp only [E2, E1, size_setVar]; exact hes,
     by show (setVar (setVar env _ _) _ _)[1]? = _; rw [get_set_ne _ _ _ _ (by omega), get_set_ne _ _ _ _ (by omega)]; exact fo.e1,
     by show (setVar (setVar env _ _) _ _)[2]? = _; rw [get_set_ne _ _ _ _ (by omega), get_set_ne _ _ _ _ (by omega)]; exact fo.e2,
     fo.mS, fo.mO, fo.oth, fo.msz, fo.ent⟩
  unfold wordStmt
  simp only [seqs]
  refine runs_seq (Q := fun e s => e = E2 ∧ s = { st with leak := Ev.rd (mkPtr bs (baseS + 4 * i)) 4 :: st.leak }) ?_ ?_
  · refine runs_seq (Q := fun e s => e = E1 ∧ s = { st with leak := Ev.rd (mkPtr bs (baseS + 4 * i)) 4 :: st.leak }) ?_ ?_
    · exact runs_load (mkPtr bs (baseS + 4 * i)) bs (4 * i) 4 (vraw.toNat, l) rfl hpw (resolve_word fo.mS (4 * i) (by omega) (by omega) (by omega))
        (by rw [blockBytes_of fo.mS]; exact hrd) ⟨rfl, rfl, rfl⟩
    · intro e s ⟨he, hs⟩; rw [he, hs]
      refine runs_assign (v'.toNat, l) ?_ ⟨rfl, rfl, rfl⟩
      cases neg with
      | false => simp only [Bool.false_eq_true, if_false, evalE, e1_wt, hl, v']
      | true => simp only [if_true, evalE, e1_wt, hl, if_false, unVal_bnot_u32, v']
  · intro e s ⟨he, hs⟩; rw [he, hs]
    refine runs_seq (Q := fun e s => FO bs baseS bo baseo oo Xf XO0 dig st0 (4 * i + 1) e s ∧ e[10 + 6 * i]? = some (v'.toNat, l)) ?_ ?_
    · exact byte_out (c := 4 * i) fo2 hne hbo30 hlt hin (12 + 6 * i) (10 + 6 * i) 0 v' l hl (by omega) (by omega) (by decide) (by omega) e2_w (hdig 0 (by decide))
    · intro e s ⟨fo3, hw3⟩
      refine runs_seq (Q := fun e s => FO bs baseS bo baseo oo Xf XO0 dig st0 (4 * i + 1 + 1) e s ∧ e[10 + 6 * i]? = some (v'.toNat, l)) ?_ ?_
      · exact byte_out fo3 hne hbo30 hlt hin (13 + 6 * i) (10 + 6 * i) 1 v' l hl (by omega) (by omega) (by decide) (by omega) hw3 (hdig 1 (by decide))
      · intro e s ⟨fo4, hw4⟩
        refine runs_seq (Q := fun e s => FO bs baseS bo baseo oo Xf XO0 dig st0 (4 * i + 2 + 1) e s ∧ e[10 + 6 * i]? = some (v'.toNat, l)) ?_ ?_
        · exact byte_out (c := 4 * i + 2) fo4 hne hbo30 hlt hin (14 + 6 * i) (10 + 6 * i) 2 v' l hl (by omega) (by omega) (by decide) (by omega) hw4 (hdig 2 (by decide))
        · intro e s ⟨fo5, hw5⟩
          refine (byte_out (c := 4 * i + 3) fo5 hne hbo30 hlt hin (15 + 6 * i) (10 + 6 * i) 3 v' l hl (by omega) (by omega) (by decide) (by omega) hw5 (hdig 3 (by decide))).weaken ?_
          intro sig e s ⟨hs, fo6, _⟩
          exact ⟨hs, fo6⟩

theorem store32_bytes (w : UInt32) : store32 w = [byteOf w.toNat 0, byteOf w.toNat 1, byteOf w.toNat 2, byteOf w.toNat 3] := by
  apply List.ext_getElem?
  intro j
  by_cases hj : j < 4
  · rw [store32_getElem? w j hj]
    match j, hj with
    | 0, _ => rfl
    | 1, _ => rfl
    | 2, _ => rfl
    | 3, _ => rfl
  · rw [List.getElem?_eq_none (by simp [store32]; omega), List.getElem?_eq_none (by simp; omega)]

/-- byte `k` of the digest is byte `k % 4` of word `k / 4` -/
theorem dig8 (w0 w1 w2 w3 w4 w5 w6 w7 : UInt32) (k : Nat) (hk : k < 32) :
    (store32 w0 ++ store32 w1 ++ store32 w2 ++ store32 w3 ++ store32 w4 ++ store32 w5 ++ store32 w6 ++ store32 w7)[k]? =
      some (byteOf ([w0, w1, w2, w3, w4, w5, w6, w7].getD (k / 4) 0).toNat (k % 4)) := by
  simp only [store32_bytes]
  match k, hk with
  | 0, _ => rfl
  | 1, _ => rfl
  | 2, _ => rfl
  | 3, _ => rfl
  | 4, _ => rfl
  | 5, _ => rfl
  | 6, _ => rfl
  | 7, _ => rfl
  | 8, _ => rfl
  | 9, _ => rfl
  | 10, _ => rfl
  | 11, _ => rfl
  | 12, _ => rfl
  | 13, _ => rfl
  | 14, _ => rfl
  | 15, _ => rfl
  | 16, _ => rfl
  | 17, _ => rfl
  | 18, _ => rfl
  | 19, _ => rfl
  | 20, _ => rfl
  | 21, _ => rfl
  | 22, _ => rfl
  | 23, _ => rfl
  | 24, _ => rfl
  | 25, _ => rfl
  | 26, _ => rfl
  | 27, _ => rfl
  | 28, _ => rfl
  | 29, _ => rfl
  | 30, _ => rfl
  | 31, _ => rfl
  | n + 32, h => omega

/-- the digest the model computes from the finalized state -/
def digOf (hf : HState) : Bytes :=
  store32 hf.s.a ++ store32 hf.s.b ++ store32 hf.s.c ++ store32 hf.s.d ++
    store32 (~~~ hf.k0) ++ store32 (~~~ hf.k1) ++ store32 (~~~ hf.k2) ++ store32 (~~~ hf.k3)

theorem digOf_word (hf : HState) (i j : Nat) (hi : i < 8) (hj : j < 4) :
    (digOf hf)[4 * i + j]? = some (byteOf ([hf.s.a, hf.s.b, hf.s.c, hf.s.d, ~~~ hf.k0, ~~~ hf.k1, ~~~ hf.k2, ~~~ hf.k3].getD i 0).toNat j) := by
  unfold digOf
  rw [dig8 _ _ _ _ _ _ _ _ (4 * i + j) (by omega)]
  rw [show (4 * i + j) / 4 = i from by omega, show (4 * i + j) % 4 = j from by omega]

def outStmts : List Stmt :=
  [wordStmt 0 false, wordStmt 1 false, wordStmt 2 false, wordStmt 3 false, wordStmt 4 true, wordStmt 5 true, wordStmt 6 true, wordStmt 7 true]

/-- the eight output words -/
theorem fin_out {prog : Program} {bs baseS bo baseo oo : Nat} {Xf XO0 : Array LByte} {st0 : St} {env : Env} {st : St} (hf : HState)
    (fo : FO bs baseS bo baseo oo Xf XO0 (digOf hf) st0 0 env st) (hne : bo ≠ bs) (hbo30 : bo < 2 ^ 30) (hbs30 : bs < 2 ^ 30)
    (hlt : baseo + XO0.size < ptrBase) (hin : oo + 32 ≤ XO0.size) (hal : baseS % 4 = 0) (hltS : baseS + Xf.size < ptrBase) (hobj : HObjV Xf hf) :
    RunsTo prog (seqs outStmts) env st (fun sig e s => sig = .normal ∧ FO bs baseS bo baseo oo Xf XO0 (digOf hf) st0 32 e s) := by
  unfold outStmts
  simp only [seqs]
  refine runs_seq (Q := fun e s => FO bs baseS bo baseo oo Xf XO0 (digOf hf) st0 4 e s)
    (word_out 0 (by decide) fo hne hbo30 hbs30 hlt hin hal hltS hf hobj hf.s.a rfl false (fun j hj => digOf_word hf 0 j (by decide) hj)) ?_
  intro e s f1
  refine runs_seq (Q := fun e s => FO bs baseS bo baseo oo Xf XO0 (digOf hf) st0 8 e s)
    (word_out 1 (by decide) f1 hne hbo30 hbs30 hlt hin hal hltS hf hobj hf.s.b rfl false (fun j hj => digOf_word hf 1 j (by decide) hj)) ?_
  intro e s f2
  refine runs_seq (Q := fun e s => FO bs baseS bo baseo oo Xf XO0 (digOf hf) st0 12 e s)
    (word_out 2 (by decide) f2 hne hbo30 hbs30 hlt hin hal hltS hf hobj hf.s.c rfl false (fun j hj => digOf_word hf 2 j (by decide) hj)) ?_
  intro e s f3
  refine runs_seq (Q := fun e s => FO bs baseS bo baseo oo Xf XO0 (digOf hf) st0 16 e s)
    (word_out 3 (by decide) f3 hne hbo30 hbs30 hlt hin hal hltS hf hobj hf.s.d rfl false (fun j hj => digOf_word hf 3 j (by decide) hj)) ?_
  intro e s f4
  refine runs_seq (Q := fun e s => FO bs baseS bo baseo oo Xf XO0 (digOf hf) st0 20 e s)
    (word_out 4 (by decide) f4 hne hbo30 hbs30 hlt hin hal hltS hf hobj hf.k0 rfl true (fun j hj => digOf_word hf 4 j (by decide) hj)) ?_
  intro e s f5
  refine runs_seq (Q := fun e s => FO bs baseS bo baseo oo Xf XO0 (digOf hf) st0 24 e s)
    (word_out 5 (by decide) f5 hne hbo30 hbs30 hlt hin hal hltS hf hobj hf.k1 rfl true (fun j hj => digOf_word hf 5 j (by decide) hj)) ?_
  intro e s f6
  refine runs_seq (Q := fun e s => FO bs baseS bo baseo oo Xf XO0 (digOf hf) st0 28 e s)
    (word_out 6 (by decide) f6 hne hbo30 hbs30 hlt hin hal hltS hf hobj hf.k2 rfl true (fun j hj => digOf_word hf 6 j (by decide) hj)) ?_
  intro e s f7
  exact word_out 7 (by decide) f7 hne hbo30 hbs30 hlt hin hal hltS hf hobj hf.k3 rfl true (fun j hj => digOf_word hf 7 j (by decide) hj)

theorem finalize_model (h : HState) :
    h.finalize = (digOf { ({ h with block := padBlock h }.compress 2) with posn := 0 }, { ({ h with block := padBlock h }.compress 2) with posn := 0 }) := rfl

theorem enter_finalize (ps po : Nat) (mem : Array Block) :
    (enterFun f_tinyjambu_hash_finalize [(ps, .pub), (po, .pub)] mem).2 = mem ∧
    (enterFun f_tinyjambu_hash_finalize [(ps, .pub), (po, .pub)] mem).1.size = 58 ∧
    (enterFun f_tinyjambu_hash_finalize [(ps, .pub), (po, .pub)] mem).1[0]? = some (ps, .pub) ∧
    (enterFun f_tinyjambu_hash_finalize [(ps, .pub), (po, .pub)] mem).1[1]? = some (po, .pub) := ⟨rfl, rfl, rfl, rfl⟩

theorem vle_trans {a b c : LByte} (h1 : VLe a b) (h2 : VLe b c) : VLe a c := ⟨h1.1.trans h2.1, Lab.le_trans h1.2 h2.2⟩

/-- **`tinyjambu_hash_finalize(state, out)` as a call**, for a state object and an output buffer with any defined labels: the 32 output
    bytes are the model's digest, the state object represents the model's finalized state, every other byte of memory keeps its value. -/
theorem finalize_call (prog : Program) (fn : Nat) (hprog : prog[fn]? = some f_tinyjambu_hash_finalize)
    (hcomp : prog[idx_tinyjambu_hash_compress]? = some f_tinyjambu_hash_compress)
    (hperm : prog[idx_tinyjambu_permutation_256]? = some f_tinyjambu_permutation_256)
    (env : Env) (st : St) (es eo : Expr) (bs bo : Nat) (X XO : Array LByte) (baseS baseo oo : Nat) (h : HState)
    (hes : evalE env es = .ok (mkPtr bs baseS, .pub)) (heo : evalE env eo = .ok (mkPtr bo (baseo + oo), .pub))
    (hb : st.mem[bs]? = some ⟨X, baseS⟩) (hbO : st.mem[bo]? = some ⟨XO, baseo⟩) (hne : bo ≠ bs) (o : HObjV X h)
    (hal : baseS % 4 = 0) (hlt : baseS + X.size < ptrBase) (hltO : baseo + XO.size < ptrBase) (hin : oo + 32 ≤ XO.size)
    (hbs30 : bs < 2 ^ 30) (hbo30 : bo < 2 ^ 30) (hn30 : st.mem.size + 2 < 2 ^ 30) :
    RunsTo prog (.call none fn [es, eo]) env st (fun sig e s => sig = .normal ∧ e = env ∧ s.ent = st.ent ∧ s.mem.size = st.mem.size ∧
      (∃ blkS, s.mem[bs]? = some blkS ∧ blkS.base = baseS ∧ blkS.bytes.size = X.size ∧ HObjV blkS.bytes h.finalize.2) ∧
      (∃ blkO, s.mem[bo]? = some blkO ∧ blkO.base = baseo ∧ blkO.bytes.size = XO.size ∧
        (∀ q b, h.finalize.1[q]? = some b → ∃ l, blkO.bytes[oo + q]? = some (b, l) ∧ l ≠ Lab.undef) ∧
        (∀ q, (q < oo ∨ oo + 32 ≤ q) → ORel VLe blkO.bytes[q]? XO[q]?)) ∧
      (∀ j, j ≠ bs → j ≠ bo → ORel BlockLe s.mem[j]? st.mem[j]?)) := by
  obtain ⟨em, e58, e0, e1⟩ := enter_finalize (mkPtr bs baseS) (mkPtr bo (baseo + oo)) st.mem
  refine runs_call_none f_tinyjambu_hash_finalize [(mkPtr bs baseS, .pub), (mkPtr bo (baseo + oo), .pub)] hprog (by simp only [evalArgs, hes, heo]) rfl ?_
  rw [finalize_body_eq]
  let hf : HState := { ({ h with block := padBlock h }.compress 2) with posn := 0 }
  refine runs_seqs_append (Q := fun e s => e.size = 58 ∧ e[1]? = some (mkPtr bo (baseo + oo), .pub) ∧ e[2]? = some (mkPtr bs baseS, .pub) ∧
      s.ent = st.ent ∧ s.mem.size = st.mem.size ∧ OthLe bs s.mem st.mem ∧
      ∃ blk', s.mem[bs]? = some blk' ∧ blk'.base = baseS ∧ blk'.bytes.size = X.size ∧ HObjV blk'.bytes hf) _ (by simp) _ (by simp) _ _ ?_ ?_
  · exact fin_pre prog hcomp hperm _ { st with mem := (enterFun f_tinyjambu_hash_finalize _ st.mem).2 } bs X baseS (mkPtr bo (baseo + oo)) h e58 e0 e1
      (by rw [em]; exact hb) o hal hlt hbs30 (by rw [em]; exact hn30)
  · intro e s ⟨hes58, he1, he2, hent, hmsz, hoth, blk', hbS, hbase, hbsz, hobj⟩
    have hent : s.ent = st.ent := hent
    have hmsz : s.mem.size = st.mem.size := hmsz
    have hoth : OthLe bs s.mem st.mem := hoth
    -- the output buffer after the first phase
    have hO := hoth bo hne
    rw [hbO] at hO
    cases hbO' : s.mem[bo]? with
    | none => rw [hbO'] at hO; exact hO.elim
    | some blkO' =>
      rw [hbO'] at hO
      have hbS' : s.mem[bs]? = some ⟨blk'.bytes, baseS⟩ := by rw [hbS, ← hbase]
      have hb1 : blkO'.base = baseo := hO.1
      have hbO'' : s.mem[bo]? = some ⟨blkO'.bytes, baseo⟩ := by rw [hbO', ← hb1]
      have fo : FO bs baseS bo baseo oo blk'.bytes blkO'.bytes (digOf hf) s 0 e s :=
        ⟨hes58, he1, he2, hbS', ⟨blkO'.bytes, hbO'', rfl, fun q b hq _ => absurd hq (by omega), fun q _ => by
          cases blkO'.bytes[q]? with
          | none => trivial
          | some x => exact VLe.refl x⟩, fun j _ _ => by
          cases s.mem[j]? with
          | none => trivial
          | some b => exact BlockLe.refl b, rfl, rfl⟩
      have hOsz : blkO'.bytes.size = XO.size := hO.2.size_eq
      refine (fin_out hf fo hne hbo30 hbs30 (by rw [hOsz]; exact hltO) (by rw [hOsz]; exact hin) hal (by rw [hbsz]; exact hlt) hobj).weaken ?_
      intro sig e' s' ⟨_, fo'⟩
      obtain ⟨XO', hmO', hOs', hdone, hout⟩ := fo'.mO
      have hsz' : s'.mem.size = st.mem.size := by rw [fo'.msz, hmsz]
      have hext : s'.mem.extract 0 st.mem.size = s'.mem := by rw [← hsz']; exact extract_self _
      simp only [hext]
      refine ⟨trivial, trivial, by rw [fo'.ent, hent], hsz', ⟨_, fo'.mS, rfl, hbsz, by rw [finalize_model]; exact hobj⟩,
        ⟨_, hmO', rfl, by rw [hOs', hOsz], fun q b hb => ?_, fun q hq => ?_⟩, fun j h1 h2 => ?_⟩
      · rw [finalize_model] at hb
        have hq : q < 32 := by
          by_cases hq : q < 32
          · exact hq
          · rw [List.getElem?_eq_none (by simp [digOf, store32]; omega)] at hb; cases hb
        exact hdone q b hq hb
      · have h1 := hout q hq
        have h2 := hO.2 q
        cases hx : XO'[q]? with
        | none => cases hy : blkO'.bytes[q]? with
          | none => rw [hy] at h2; exact h2
          | some _ => rw [hx, hy] at h1; exact h1.elim
        | some x => cases hy : blkO'.bytes[q]? with
          | none => rw [hx, hy] at h1; exact h1.elim
          | some y =>
            rw [hx, hy] at h1; rw [hy] at h2
            cases hz : XO[q]? with
            | none => rw [hz] at h2; exact h2.elim
            | some z => rw [hz] at h2; exact vle_trans h1 h2
      · have a := fo'.oth j h1 h2
        have b := hoth j h1
        cases hx : s'.mem[j]? with
        | none => cases hy : s.mem[j]? with
          | none => rw [hy] at b; exact b
          | some _ => rw [hx, hy] at a; exact a.elim
        | some x => cases hy : s.mem[j]? with
          | none => rw [hx, hy] at a; exact a.elim
          | some y =>
            rw [hx, hy] at a; rw [hy] at b
            cases hz : st.mem[j]? with
            | none => rw [hz] at b; exact b.elim
            | some z => rw [hz] at b; exact blockLe_trans a b


end TJ.MiniC.Hoare
