/-
  TJ.Proofs.AeadEncWords — the message word loop of tinyjambu_*_aead_encrypt as a whole; consecutive output bytes.
-/
import TJ.Proofs.AeadEncLoop
namespace TJ.MiniC.Hoare
open TJ TJ.MiniC TJ.MiniC.PermC TJ.Gen.MiniC

/-- state and ciphertext after the full words of the message -/
def encWordsS (P : Perm) (pk : Nat) : W4 → Bytes → W4
  | s, b0 :: b1 :: b2 :: b3 :: rest => encWordsS P pk (absorbW (P pk (addDomain s 0x50)) (load32 b0 b1 b2 b3)) rest
  | s, _ => s
def encWordsC (P : Perm) (pk : Nat) : W4 → Bytes → Bytes
  | s, b0 :: b1 :: b2 :: b3 :: rest =>
    store32 (load32 b0 b1 b2 b3 ^^^ (P pk (addDomain s 0x50)).c) ++ encWordsC P pk (absorbW (P pk (addDomain s 0x50)) (load32 b0 b1 b2 b3)) rest
  | _, _ => []

theorem encBody_split (P : Perm) (pk : Nat) : ∀ (s : W4) (l : Bytes),
    encBody P pk s l = ((encBody P pk (encWordsS P pk s l) (absRest l)).1, encWordsC P pk s l ++ (encBody P pk (encWordsS P pk s l) (absRest l)).2)
  | s, [] => rfl
  | s, [_] => rfl
  | s, [_, _] => rfl
  | s, [_, _, _] => rfl
  | s, b0 :: b1 :: b2 :: b3 :: rest => by
    rw [encBody, encWordsS, encWordsC, absRest]
    have ih := encBody_split P pk (absorbW (P pk (addDomain s 0x50)) (load32 b0 b1 b2 b3)) rest
    simp only [squeeze, absorbW] at *
    rw [ih]
    simp [List.append_assoc]

theorem enc_exit {g : AGeo} (eg : EGeo g) {M : Array Block} {v : Nat} (pk : Nat) {env : Env} {st : St} {s : W4} {kws : List UInt32} {ct rest : Bytes}
    (ei : EI g eg M (v + 47) env st s kws ct rest) (hl : rest.length < 4) :
    RunsTo g.prog (encLoopBody g.pidx pk v) env st (fun sig e' s' => sig = .brk ∧ EI g eg M (v + 47) e' s' s kws ct rest) := by
  unfold encLoopBody
  refine runs_ite_false ?_ (runs_brk ⟨rfl, ei.ai.frame ei.ai.esz rfl rfl rfl, ei.e0, ei.e2, ei.e3, ei.hm, ei.ho, ei.oth0, ei.room⟩)
  have : ¬ 4 ≤ rest.length := by omega
  simp only [evalE, ei.e3, reduceCtorEq, if_false, castVal_u64_i32_lit 4 (by decide), BinOp.needsPub2, BinOp.needsPub1, Bool.false_and, Bool.or_self,
    Bool.false_eq_true, binVal, Ty.signed, ge_iff_le, this, decide_false, b2n, Lab.join_pub_pub]

/-- **the word loop of `tinyjambu_*_aead_encrypt`** -/
theorem enc_loop {g : AGeo} (eg : EGeo g) {v : Nat} (hv : 11 ≤ v) (pk : Nat) (hpk : pk < 256) {kws : List UInt32} :
    ∀ (l : Bytes) (M : Array Block) (env : Env) (st : St) (s : W4) (ct : Bytes), EI g eg M (v + 47) env st s kws ct l →
    RunsTo g.prog (.loop (encLoopBody g.pidx pk v)) env st (fun sig e' s' => sig = .normal ∧
      ∃ M', EI g eg M' (v + 47) e' s' (encWordsS (g.P kws) pk s l) kws (ct ++ encWordsC (g.P kws) pk s l) (absRest l))
  | b0 :: b1 :: b2 :: b3 :: rest, M, env, st, s, ct, ei => by
    refine runs_loop_continue (Q := fun e' s' => ∃ M', EI g eg M' (v + 47) e' s' (absorbW (g.P kws pk (addDomain s 0x50)) (load32 b0 b1 b2 b3)) kws
        (ct ++ store32 (load32 b0 b1 b2 b3 ^^^ (g.P kws pk (addDomain s 0x50)).c)) rest) (enc_iter eg hv pk hpk b0 b1 b2 b3 rest ei) ?_
    intro e s' ⟨M', ei'⟩
    rw [encWordsS, encWordsC, absRest, ← List.append_assoc]
    exact enc_loop eg hv pk hpk rest M' e s' _ _ ei'
  | [], M, env, st, s, ct, ei => runs_loop_break ((enc_exit eg pk ei (by simp)).weaken fun _ _ _ ⟨h, a⟩ => ⟨h, rfl, M, by simpa [encWordsS, encWordsC, absRest] using a⟩)
  | [_], M, env, st, s, ct, ei => runs_loop_break ((enc_exit eg pk ei (by simp)).weaken fun _ _ _ ⟨h, a⟩ => ⟨h, rfl, M, by simpa [encWordsS, encWordsC, absRest] using a⟩)
  | [_, _], M, env, st, s, ct, ei => runs_loop_break ((enc_exit eg pk ei (by simp)).weaken fun _ _ _ ⟨h, a⟩ => ⟨h, rfl, M, by simpa [encWordsS, encWordsC, absRest] using a⟩)
  | [_, _, _], M, env, st, s, ct, ei => runs_loop_break ((enc_exit eg pk ei (by simp)).weaken fun _ _ _ ⟨h, a⟩ => ⟨h, rfl, M, by simpa [encWordsS, encWordsC, absRest] using a⟩)


/-- consecutive output bytes `out[j..] = (uint8_t)(w >> 8j), …` through the temporaries `ts` -/
def outBytes (ov w : Nat) : Nat → List Nat → List Stmt
  | _, [] => []
  | j, t :: ts => byteStmtV ov t j w j :: outBytes ov w (j + 1) ts

theorem out_bytes {g : AGeo} {nv sv ov w : Nat} {kws : List UInt32} {s : W4} (bo baseo oo : Nat) (hne : bo ≠ g.bs) (hbo30 : bo < 2 ^ 30) (d : UInt32) :
    ∀ (ts : List Nat) (j : Nat) (M : Array Block) (XO : Array LByte) (env : Env) (st : St),
      AI g M nv env st s kws sv → M[bo]? = some ⟨XO, baseo⟩ → baseo + XO.size < ptrBase → oo + j + ts.length ≤ XO.size → j + ts.length ≤ 4 →
      env[ov]? = some (mkPtr bo (baseo + oo), .pub) → EnvHas env w d.toNat → (∀ t ∈ ts, t ≠ sv ∧ t ≠ ov ∧ t < nv ∧ t ≠ w) → ts ≠ [] →
      RunsTo g.prog (seqs (outBytes ov w j ts)) env st (fun sig e' s' => sig = .normal ∧ e'.size = nv ∧ (∀ y, y ∉ ts → e'[y]? = env[y]?) ∧
        ∃ XO', AI g (setBlock M bo XO') nv e' s' s kws sv ∧ XO'.size = XO.size ∧ (∀ i, i < ts.length → BV XO' (oo + j + i) (byteOf d.toNat (j + i))) ∧
          (∀ p, (p < oo + j ∨ oo + j + ts.length ≤ p) → XO'[p]? = XO[p]?))
  | [], _, _, _, _, _, _, _, _, _, _, _, _, _, h => absurd rfl h
  | [t], j, M, XO, env, st, ai, hMo, hlt, hsz, hj, he, hw, hts, _ => by
    have ht := hts t (List.mem_singleton.mpr rfl)
    simp only [List.length_singleton] at hsz hj
    show RunsTo g.prog (byteStmtV ov t j w j) env st _
    refine out_byteStmt ai bo baseo oo j XO hne hbo30 hMo hlt (by omega) he t w j d ⟨ht.1, ht.2.1, ht.2.2.1⟩ ht.2.2.2 (by omega) hw ?_
    intro e' s' l hl hfr hsz' ai'
    refine ⟨rfl, hsz', fun y hy => hfr y (fun e => hy (by simp [e])), _, ai', by simp, fun i hi => ?_, fun p hp => ?_⟩
    · have : i = 0 := by simpa using hi
      subst this
      exact ⟨l, by rw [Array.getElem?_setIfInBounds]; simp; omega, hl⟩
    · rw [Array.getElem?_setIfInBounds]
      simp only [List.length_singleton] at hp
      rw [if_neg (by omega)]
  | t :: t2 :: r, j, M, XO, env, st, ai, hMo, hlt, hsz, hj, he, hw, hts, _ => by
    have ht := hts t List.mem_cons_self
    simp only [List.length_cons] at hsz hj
    show RunsTo g.prog (.seq (byteStmtV ov t j w j) (seqs (outBytes ov w (j + 1) (t2 :: r)))) env st _
    refine runs_seq (Q := fun e1 s1 => ∃ l, l ≠ Lab.undef ∧ (∀ y, y ≠ t → e1[y]? = env[y]?) ∧ e1.size = nv ∧
        AI g (setBlock M bo (XO.setIfInBounds (oo + j) (byteOf d.toNat j, l))) nv e1 s1 s kws sv) ?_ ?_
    · exact out_byteStmt ai bo baseo oo j XO hne hbo30 hMo hlt (by omega) he t w j d ⟨ht.1, ht.2.1, ht.2.2.1⟩ ht.2.2.2 (by omega) hw
        (fun e' s' l hl hfr hsz' ai' => ⟨rfl, l, hl, hfr, hsz', ai'⟩)
    · intro e1 s1 ⟨l, hl, fr1, sz1, ai1⟩
      have hM1 : (setBlock M bo (XO.setIfInBounds (oo + j) (byteOf d.toNat j, l)))[bo]? = some ⟨XO.setIfInBounds (oo + j) (byteOf d.toNat j, l), baseo⟩ := by
        rw [getElem?_setBlock', if_pos rfl, hMo]; rfl
      have z1 : (XO.setIfInBounds (oo + j) (byteOf d.toNat j, l)).size = XO.size := by simp only [Array.size_setIfInBounds]
      refine (out_bytes bo baseo oo hne hbo30 d (t2 :: r) (j + 1) _ _ e1 s1 ai1 hM1 (by rw [z1]; exact hlt) (by rw [z1]; simp only [List.length_cons]; omega)
        (by simp only [List.length_cons]; omega) (by rw [fr1 ov (fun e => ht.2.1 e.symm)]; exact he) (hw.frame (fr1 w (fun e => ht.2.2.2 e.symm)))
        (fun t' ht' => hts t' (List.mem_cons_of_mem _ ht')) (by simp)).weaken ?_
      intro sig e' s' ⟨h1, h2, h3, XO', h4, h5, h6, h7⟩
      rw [setBlock_setBlock M bo _ _ ⟨XO, baseo⟩ hMo] at h4
      refine ⟨h1, h2, fun y hy => ?_, XO', h4, by rw [h5, z1], fun i hi => ?_, fun p hp => ?_⟩
      · rw [h3 y (fun h => hy (List.mem_cons_of_mem _ h)), fr1 y (fun e => hy (by simp [e]))]
      · cases i with
        | zero =>
          refine ⟨l, ?_, hl⟩
          rw [h7 (oo + j + 0) (Or.inl (by omega)), Array.getElem?_setIfInBounds]; simp; omega
        | succ i =>
          have := h6 i (by simp only [List.length_cons] at hi ⊢; omega)
          rw [show oo + (j + 1) + i = oo + j + (i + 1) from by omega, show j + 1 + i = j + (i + 1) from by omega] at this
          exact this
      · simp only [List.length_cons] at hp
        rw [h7 p (by simp only [List.length_cons]; omega), Array.getElem?_setIfInBounds, if_neg (by omega)]

end TJ.MiniC.Hoare
