import TJ.Proofs.PrngGenOut
namespace TJ.MiniC.Hoare
open TJ TJ.MiniC TJ.MiniC.PermC TJ.Gen.MiniC

def genAdv : Stmt := .seq (.call none idx_tinyjambu_hash_prefixed [.var 5, .cast .u8 .i32 (.lit 3), .var 3]) (.seq genCarry0 (.seq carryStmt genCount))

theorem castVal_u8_i32_3 : castVal .u8 .i32 3 = 3 := by decide

/-- `H = Hash(0x03 ‖ V); V = V + H + C + reseed_counter; ++reseed_counter` -/
theorem gen_adv (G : GGeo) (mem0 : Array Block) (g : GS) (acc : Bytes) (dpos r len : Nat) {env : Env} {s : St} (gj : GJ G mem0 g acc dpos r len env s) :
    RunsTo prog genAdv env s (fun sig e' s' => sig = .normal ∧ GJ G mem0 g.block.2 acc dpos r len e' s') := by
  obtain ⟨Xp, hPm, hXps, ho, hcb⟩ := gj.hP
  obtain ⟨XH, hHm, hHs⟩ := gj.hH
  obtain ⟨XD, hDm, hDs, hDd, hDo⟩ := gj.hD
  have hG := G.hsz; have hbp := G.hbp; have hbd := G.hbd; have hx := G.hxps; have hlt := G.hltP; have hltD := G.hltD
  have hVl := ho.vl; have hCl := ho.cl; have hrcb := ho.rcb; have hal := G.hal
  have hpk : ∀ k, k ≤ 80 → (mkPtr G.bp G.baseP + k) % 18446744073709551616 = mkPtr G.bp (G.baseP + k) := fun k hk => ptr_off G.bp G.baseP k (by omega) (by omega)
  have eadd : ∀ (E : Env) (k : Nat), k ≤ 80 → E[3]? = some (mkPtr G.bp G.baseP, .pub) → evalE E (.bin .add .u64 (.var 3) (.lit k)) = .ok (mkPtr G.bp (G.baseP + k), .pub) := fun E k hk h3 => by
    simp only [evalE, h3, reduceCtorEq, if_false, BinOp.needsPub2, BinOp.needsPub1, Bool.false_and, Bool.or_self, Bool.false_eq_true, binVal, Ty.modulus, Lab.join_pub_pub, hpk k hk]
  unfold genAdv
  -- H = Hash(0x03 ‖ V)
  refine runs_seq (hash_prefixed_call env s (.var 5) (.cast .u8 .i32 (.lit 3)) (.var 3) G.n0 G.bp XH Xp 0 0 G.baseP 0 (3 : UInt8) g.V
    (by simp only [evalE, gj.e5, reduceCtorEq, if_false, Nat.add_zero]) (by simp only [evalE, castVal_u8_i32_3]; rfl) (by simp only [evalE, gj.e3, reduceCtorEq, if_false, Nat.add_zero])
    hHm hPm ho.v hVl (by rw [hHs]; simp [ptrBase]) (by rw [hXps]; exact hlt) (by rw [hHs]; omega) (by rw [gj.msz]; omega)) ?_
  intro e2 s2 ⟨he2, hent2, hsz2, ⟨XH2, hH2, hH2d⟩, K2⟩
  rw [he2]
  obtain ⟨Xp2, hP2, hXp2s, kP2⟩ := okeep_block (by have := K2 G.bp; rw [hPm] at this; exact this)
  obtain ⟨XD2, hD2, hXD2s, kD2⟩ := okeep_block (by have := K2 G.bd; rw [hDm] at this; exact this)
  have ho2 : PObjV Xp2 g.V g.C g.rc g.rl := pobj_keep kP2 ho (fun q _ h => by omega) (fun q h1 _ h => by omega)
  have hcb2 : PCb Xp2 G.ud G.cbv := pcb_keep kP2 hcb (fun q h1 _ => ⟨fun h => by omega, fun h => by omega⟩)
  have hXH2s : XH2.size = 32 := by
    obtain ⟨Z, hz, hzs, _⟩ := okeep_block (by have := K2 G.n0; rw [hHm] at this; exact this)
    rw [hH2] at hz; cases hz; rw [hzs]; exact hHs
  generalize hHp : hashPrefixed 3 g.V = H' at hH2d
  have hH'l : H'.length = 32 := by rw [← hHp]; unfold hashPrefixed hash; exact finalize_length _
  have hDd2 : BytesV XD2 G.doff acc := bytesV_keepW kD2 hDd (fun _ _ _ h => by have := h.1; omega)
  have hDo2 : ∀ q, (q < G.doff ∨ G.doff + acc.length ≤ q) → ORel VLe XD2[q]? G.XD0[q]? := fun q hq =>
    orel_trans (R := VLe) (fun _ _ _ p r => vle_trans p r) ((kD2.2.2 q (fun h => by omega)).2 (fun h => G.hpd h.1.symm)) (hDo q hq)
  have hoth2 : ∀ j, j < G.n0 → j ≠ G.bp → j ≠ G.bd → ORel (KeepW (fun _ => False) (fun _ => False)) s2.mem[j]? mem0[j]? := fun j h1 h2 h3 =>
    okeep_mono (okeep_trans (K2 j) (gj.oth j h1 h2 h3)) (fun q h => h.elim (fun x => by omega) id) (fun q h => h.elim (fun x => h2 x.1) id)
  have hsz2' : s2.mem.size = G.n0 + 1 := by rw [hsz2]; exact gj.msz
  -- carry = reseed_counter
  unfold genCarry0
  simp only [seqs]
  refine runs_seq (Q := fun e s' => e = setVar (setVar env 12 (g.rc, .pub)) 6 (g.rc, .pub) ∧ s'.ent = s.ent ∧ s'.mem = s2.mem) ?_ ?_
  · refine runs_seq (Q := fun e s' => e = setVar env 12 (g.rc, .pub) ∧ s'.ent = s.ent ∧ s'.mem = s2.mem)
      (runs_load (mkPtr G.bp (G.baseP + 64)) G.bp 64 4 (g.rc, .pub) rfl (eadd env 64 (by decide) gj.e3) (resolve_word hP2 64 (by omega) (by omega) (by omega))
        (by rw [blockBytes_of hP2]; exact ho2.hrc) ⟨rfl, rfl, hent2, rfl⟩) ?_
    intro e s' ⟨he, h1, h2⟩; rw [he]
    exact runs_assign _ (by simp only [evalE, get_set_eq _ _ _ (show 12 < env.size from by rw [gj.esz]; decide), reduceCtorEq, if_false]) ⟨rfl, rfl, h1, h2⟩
  intro e3 s3 ⟨he3, hent3, hm3⟩
  rw [he3]
  generalize hE3 : setVar (setVar env 12 (g.rc, .pub)) 6 (g.rc, .pub) = E3
  have e3s : E3.size = 20 := by rw [← hE3]; simp only [size_setVar]; exact gj.esz
  have e3k : ∀ y, y < 6 → E3[y]? = env[y]? := fun y hy => by rw [← hE3, get_set_ne _ _ _ _ (by omega), get_set_ne _ _ _ _ (by omega)]
  have e3_6 : E3[6]? = some (g.rc.toUInt32.toNat, .pub) := by
    rw [← hE3, get_set_eq _ _ _ (by rw [size_setVar, gj.esz]; decide)]
    congr 2
    simp [Nat.toUInt32]; omega
  -- the carry loop
  refine runs_seq (carry_run G.bp G.baseP G.n0 Xp2 XH2 g.V H' g.C g.rc.toUInt32 E3 s3 .pub (by omega) (by omega) (by omega) (by omega) (by rw [hXp2s, hXps]; exact hlt) hVl hH'l hCl
    ho2.v ho2.c (by rw [hm3]; exact hP2) (by rw [hm3]; exact hH2) hH2d hXH2s e3s (by rw [e3k 3 (by decide)]; exact gj.e3) (by rw [e3k 5 (by decide)]; exact gj.e5) e3_6 (by decide)) ?_
  intro e4 s4 ⟨e4s, e4fr, hent4, hsz4, hoth4, Xp4, hP4, hXp4s, hV4, hXp4hi⟩
  generalize hVn : vAdvance g.V H' g.C g.rc.toUInt32 = Vn at hV4
  have hVnl : Vn.length = 32 := by rw [← hVn, vAdvance_cstate g.V H' g.C _ hVl hH'l hCl, List.length_reverse, cstate_length]
  have e4k : ∀ y, y < 6 → e4[y]? = env[y]? := fun y hy => by rw [e4fr y (by omega) (by omega) (Or.inl (by omega))]; exact e3k y hy
  have hrc4 : readLE Xp4 64 4 = some (g.rc, .pub) := by rw [← ho2.hrc]; exact readLE_congr _ _ 4 64 (fun q h1 _ => hXp4hi q (by omega))
  have hres4 : resolve s4.mem (mkPtr G.bp (G.baseP + 64)) 4 = .ok (G.bp, 64) := resolve_word hP4 64 (by omega) (by rw [hXp4s, hXp2s, hXps]; omega) (by omega)
  -- ++reseed_counter
  unfold genCount
  simp only [seqs]
  refine runs_seq (Q := fun e s' => e = setVar e4 17 (mkPtr G.bp (G.baseP + 64), .pub) ∧ s' = s4) (runs_assign _ (eadd e4 64 (by decide) (by rw [e4k 3 (by decide)]; exact gj.e3)) ⟨rfl, rfl, rfl⟩) ?_
  intro e5 s5 ⟨he5, hs5⟩; rw [he5, hs5]
  have e5_17 : (setVar e4 17 (mkPtr G.bp (G.baseP + 64), Lab.pub))[17]? = some (mkPtr G.bp (G.baseP + 64), .pub) := get_set_eq _ _ _ (by rw [e4s]; decide)
  refine runs_seq (Q := fun e s' => e = setVar (setVar e4 17 (mkPtr G.bp (G.baseP + 64), .pub)) 18 (g.rc, .pub) ∧ s'.ent = s4.ent ∧ s'.mem = s4.mem)
    (runs_load (mkPtr G.bp (G.baseP + 64)) G.bp 64 4 (g.rc, .pub) rfl (by simp only [evalE, e5_17, reduceCtorEq, if_false]) hres4 (by rw [blockBytes_of hP4]; exact hrc4) ⟨rfl, rfl, rfl, rfl⟩) ?_
  intro e6 s6 ⟨he6, hent6, hm6⟩; rw [he6]
  generalize hE6 : setVar (setVar e4 17 (mkPtr G.bp (G.baseP + 64), .pub)) 18 (g.rc, .pub) = E6
  have e6s : E6.size = 20 := by rw [← hE6]; simp only [size_setVar]; exact e4s
  have e6k : ∀ y, y < 6 → E6[y]? = env[y]? := fun y hy => by rw [← hE6, get_set_ne _ _ _ _ (by omega), get_set_ne _ _ _ _ (by omega)]; exact e4k y hy
  have e6_17 : E6[17]? = some (mkPtr G.bp (G.baseP + 64), .pub) := by rw [← hE6, get_set_ne _ _ _ _ (by decide)]; exact e5_17
  have e6_18 : E6[18]? = some (g.rc, .pub) := by rw [← hE6]; exact get_set_eq _ _ _ (by rw [size_setVar, e4s]; decide)
  refine runs_seq (Q := fun e s' => e = E6 ∧ s'.ent = s4.ent ∧ s'.mem = setBlock s4.mem G.bp (writeLE Xp4 64 ((g.rc + 1) % 4294967296) .pub 4))
    (runs_store (mkPtr G.bp (G.baseP + 64)) ((g.rc + 1) % 4294967296) G.bp 64 4 .pub rfl (by simp only [evalE, e6_17, reduceCtorEq, if_false])
      (by simp only [evalE, e6_18, reduceCtorEq, if_false, BinOp.needsPub2, BinOp.needsPub1, Bool.false_and, Bool.or_self, Bool.false_eq_true, binVal, Ty.modulus, Lab.join_pub_pub])
      (by rw [hm6]; exact hres4) ⟨rfl, rfl, hent6, by rw [hm6, blockBytes_of hP4]⟩) ?_
  intro e7 s7 ⟨he7, hent7, hm7⟩; rw [he7]
  have hXp4sz : Xp4.size = G.xps := by rw [hXp4s, hXp2s]; exact hXps
  have hP7 : s7.mem[G.bp]? = some ⟨writeLE Xp4 64 ((g.rc + 1) % 4294967296) .pub 4, G.baseP⟩ := by rw [hm7, getElem?_setBlock', if_pos rfl, hP4]; rfl
  have hrd7 : readLE (writeLE Xp4 64 ((g.rc + 1) % 4294967296) .pub 4) 64 4 = some ((g.rc + 1) % 4294967296, .pub) := by
    rw [readLE_writeLE .pub (by decide) 4 Xp4 64 _ (by omega)]
    congr 2
    rw [show (256 : Nat) ^ 4 = 4294967296 from by decide, Nat.mod_mod]
  refine runs_load (mkPtr G.bp (G.baseP + 64)) G.bp 64 4 ((g.rc + 1) % 4294967296, .pub) rfl (by simp only [evalE, e6_17, reduceCtorEq, if_false])
    (resolve_word hP7 64 (by omega) (by rw [size_writeLE]; omega) (by omega)) (by rw [blockBytes_of hP7]; exact hrd7) ?_
  have hoth7 : ∀ j, j ≠ G.bp → s7.mem[j]? = s2.mem[j]? := fun j hj => by rw [hm7, getElem?_setBlock', if_neg hj, hoth4 j hj, hm3]
  refine ⟨rfl, by rw [size_setVar]; exact e6s, by rw [get_set_ne _ _ _ _ (by decide), e6k 0 (by decide)]; exact gj.e0, by rw [get_set_ne _ _ _ _ (by decide), e6k 1 (by decide)]; exact gj.e1,
    by rw [get_set_ne _ _ _ _ (by decide), e6k 2 (by decide)]; exact gj.e2, by rw [get_set_ne _ _ _ _ (by decide), e6k 3 (by decide)]; exact gj.e3,
    by rw [get_set_ne _ _ _ _ (by decide), e6k 4 (by decide)]; exact gj.e4, by rw [get_set_ne _ _ _ _ (by decide), e6k 5 (by decide)]; exact gj.e5,
    by show s7.ent = _; rw [hent7, hent4, hent3]; exact gj.ent, by show s7.mem.size = _; rw [hm7, size_setBlock', hsz4, hm3]; exact hsz2',
    ⟨_, hP7, by rw [size_writeLE]; exact hXp4sz, ?_, ?_⟩, ⟨XH2, by show s7.mem[G.n0]? = _; rw [hoth7 _ (by omega)]; exact hH2, hXH2s⟩,
    ⟨XD2, by show s7.mem[G.bd]? = _; rw [hoth7 _ (fun e => G.hpd e.symm)]; exact hD2, by rw [hXD2s]; exact hDs, hDd2, hDo2⟩,
    fun j h1 h2 h3 => by show ORel _ s7.mem[j]? _; rw [hoth7 j h2]; exact hoth2 j h1 h2 h3⟩
  · show PObjV _ (vAdvance g.V (hashPrefixed 3 g.V) g.C g.rc.toUInt32) g.C ((g.rc + 1) % 4294967296) g.rl
    rw [hHp, hVn]
    refine ⟨by rw [size_writeLE, hXp4sz]; exact hx, ⟨by rw [size_writeLE]; exact hV4.1, fun k b hk => ?_⟩, hVnl, ⟨by rw [size_writeLE, hXp4sz, hCl]; omega, fun k b hk => ?_⟩, hCl, hrd7,
      Nat.mod_lt _ (by decide), ?_⟩
    · have hk32 : k < 32 := by
        by_cases h : k < 32
        · exact h
        · rw [List.getElem?_eq_none (by omega)] at hk; cases hk
      exact (hV4.2 k b hk).writeLE_other 64 _ 4 .pub (Or.inl (by omega))
    · have hk32 : k < 32 := by
        by_cases h : k < 32
        · exact h
        · rw [List.getElem?_eq_none (by omega)] at hk; cases hk
      obtain ⟨l, hx', hl⟩ := ho2.c.2 k b hk
      exact (show BV Xp4 (32 + k) b from ⟨l, by rw [hXp4hi _ (by omega)]; exact hx', hl⟩).writeLE_other 64 _ 4 .pub (Or.inl (by omega))
    · rw [readLE_writeLE_ne Xp4 64 68 _ 4 4 .pub (Or.inr (by omega)), ← ho2.hrl]; exact readLE_congr _ _ 4 68 (fun q h1 _ => hXp4hi q (by omega))
  · refine ⟨?_, ?_⟩
    · rw [readLE_writeLE_ne Xp4 64 72 _ 4 8 .pub (Or.inr (by omega)), ← hcb2.cb]; exact readLE_congr _ _ 8 72 (fun q h1 _ => hXp4hi q (by omega))
    · rw [readLE_writeLE_ne Xp4 64 80 _ 4 8 .pub (Or.inr (by omega)), ← hcb2.ud]; exact readLE_congr _ _ 8 80 (fun q h1 _ => hXp4hi q (by omega))

end TJ.MiniC.Hoare
