/-
  TJ.Proofs.SpecTop — key bits, nonce words and the top-level equalities Impl = Spec for AEAD and SIV.
-/
import TJ.Proofs.SpecAead
import TJ.Proofs.AeadTop
namespace TJ
open Spec

theorem stateUpdateFrom_congr (k1 k2 : Nat → Bool) (klen : Nat) (hk : 0 < klen) (h : ∀ i, i < klen → k1 i = k2 i)
    (s : BitVec 128) (j n : Nat) :
    stateUpdateFrom k1 klen s j n = stateUpdateFrom k2 klen s j n := by
  induction n generalizing s j with
  | zero => rfl
  | succ n ih => simp only [stateUpdateFrom]; rw [h _ (Nat.mod_lt _ hk), ih]

theorem load32_append (b0 b1 b2 b3 : UInt8) :
    (load32 b0 b1 b2 b3).toBitVec = b3.toBitVec ++ b2.toBitVec ++ b1.toBitVec ++ b0.toBitVec := by
  simp only [load32, UInt32.toBitVec_or, UInt32.toBitVec_shiftLeft, UInt8.toBitVec_toUInt32]
  bv_decide

theorem load32_getLsbD (l : Bytes) (off t : Nat) (ht : t < 32) :
    (loadAt l off).toBitVec.getLsbD t = (l.getD (off + t / 8) 0).toBitVec.getLsbD (t % 8) := by
  unfold loadAt
  rw [load32_append]
  simp only [BitVec.getLsbD_append]
  have h8 : ∀ (x : UInt8) (i : Nat), 8 ≤ i → x.toBitVec.getLsbD i = false := fun x i hi => BitVec.getLsbD_of_ge _ _ hi
  by_cases h0 : t < 8
  · have e1 : t / 8 = 0 := by omega
    have e2 : t % 8 = t := by omega
    simp [h0, e1, e2]
  · by_cases h1 : t < 16
    · have e1 : t / 8 = 1 := by omega
      have e2 : t % 8 = t - 8 := by omega
      have f1 : t - 8 < 8 := by omega
      simp [h0, f1, e1, e2]
    · by_cases h2 : t < 24
      · have e1 : t / 8 = 2 := by omega
        have e2 : t % 8 = t - 16 := by omega
        have f1 : ¬ t - 8 < 8 := by omega
        have f2 : t - 8 - 8 < 8 := by omega
        have f3 : t - 8 - 8 = t - 16 := by omega
        simp [h0, f1, f2, f3, e1, e2]
        intro h; omega
      · have e1 : t / 8 = 3 := by omega
        have e2 : t % 8 = t - 24 := by omega
        have f1 : ¬ t - 8 < 8 := by omega
        have f2 : ¬ t - 8 - 8 < 8 := by omega
        have f3 : t - 8 - 8 - 8 = t - 24 := by omega
        simp [h0, f1, f2, f3, e1, e2]

theorem kw_loadKey (v : Variant) (key : Bytes) (j : Nat) (hj : j < v.nk) :
    kw (loadKey v key) j = ~~~ loadAt key (4 * j) := by
  simp [kw, loadKey, List.getD_eq_getElem?_getD, hj]

theorem keyBits_loadKey (v : Variant) (key : Bytes) (i : Nat) (hi : i < v.bits) :
    keyBits (loadKey v key) i = Spec.keyBit key i := by
  have hnk : i / 32 < v.nk := by
    cases v <;> (simp only [Variant.bits] at hi; simp only [Variant.nk]; omega)
  unfold keyBits Spec.keyBit
  rw [kw_loadKey v key _ hnk]
  have ht : i % 32 < 32 := Nat.mod_lt _ (by omega)
  simp only [UInt32.toBitVec_not, BitVec.getLsbD_not, ht, decide_true, Bool.true_and, Bool.not_not]
  rw [load32_getLsbD _ _ _ ht]
  have e1 : 4 * (i / 32) + i % 32 / 8 = i / 8 := by omega
  have e2 : i % 32 % 8 = i % 8 := by omega
  rw [e1, e2]

def Variant.params : Variant → Spec.Params
  | .v128 => Spec.p128 | .v192 => Spec.p192 | .v256 => Spec.p256

theorem params_klen (v : Variant) : v.params.klen = v.bits := by cases v <;> rfl
theorem params_pk (v : Variant) : v.params.pk = 128 * v.pk := by cases v <;> rfl

/-- the C permutation under the unpacked key = the specification's StateUpdate under the key bytes -/
theorem permC_keyed (v : Variant) (key : Bytes) (r : Nat) (s : W4) :
    pack (permC v (loadKey v key) r s) = Spec.keyed v.params key (pack s) (128 * r) := by
  rw [permC_eq_spec]
  unfold Spec.keyed Spec.stateUpdate
  rw [params_klen]
  exact stateUpdateFrom_congr _ _ _ (by cases v <;> decide) (fun i hi => keyBits_loadKey v key i hi) _ _ _

theorem frame10 : (0x10 : UInt32).toBitVec = (0x10 : BitVec 8).zeroExtend 32 := by decide
theorem frame90 : (0x90 : UInt32).toBitVec = (0x90 : BitVec 8).zeroExtend 32 := by decide
theorem frameB0 : (0xB0 : UInt32).toBitVec = (0xB0 : BitVec 8).zeroExtend 32 := by decide

theorem list12 (l : Bytes) (h : l.length = 12) :
    ∃ a0 a1 a2 a3 a4 a5 a6 a7 a8 a9 a10 a11, l = [a0, a1, a2, a3, a4, a5, a6, a7, a8, a9, a10, a11] := by
  match l, h with
  | [a0, a1, a2, a3, a4, a5, a6, a7, a8, a9, a10, a11], _ => exact ⟨_, _, _, _, _, _, _, _, _, _, _, _, rfl⟩

section
variable (Pi : Perm) (U : St → Nat → St) (hP : ∀ r s, pack (Pi r s) = U (pack s) (128 * r))
include hP

theorem setup_refines (pk : Nat) (nonce : Bytes) (hn : nonce.length = 12) (d : UInt32) (d8 : BitVec 8)
    (hd : d.toBitVec = d8.zeroExtend 32) :
    pack (setup Pi pk nonce d) = Spec.init U (128 * pk) nonce d8 := by
  obtain ⟨a0, a1, a2, a3, a4, a5, a6, a7, a8, a9, a10, a11, rfl⟩ := list12 nonce hn
  simp only [setup, Spec.init, loadAt, List.take, List.drop, List.getD_cons_zero, List.getD_cons_succ]
  simp only [pack_absorbW, hP, pack_addDomain_frame _ _ _ hd, load32_leWord, pack_zero]

theorem aeadEncrypt_refines (pk : Nat) (nonce ad m : Bytes) (hn : nonce.length = 12) :
    aeadEncryptWith Pi pk nonce ad m = Spec.aeadEncrypt U (128 * pk) nonce ad m := by
  unfold aeadEncryptWith Spec.aeadEncrypt
  simp only
  have h0 : pack (absorbData Pi 0x30 5 (setup Pi pk nonce 0x10) ad) = Spec.absorb U 0x30 640 (Spec.init U (128 * pk) nonce 0x10) ad := by
    rw [absorb_refines Pi U hP _ _ frame30, setup_refines Pi U hP pk nonce hn _ _ frame10]
  have he := encBody_refines Pi U hP pk (absorbData Pi 0x30 5 (setup Pi pk nonce 0x10) ad) m
  rw [h0] at he
  rw [he.2, genTag_refines Pi U hP, he.1]

theorem sivEncrypt_refines (pk : Nat) (nonce ad m : Bytes) (hn : nonce.length = 12) :
    sivEncryptWith Pi pk nonce ad m = Spec.sivEncrypt U (128 * pk) nonce ad m := by
  have htag : sivTag Pi pk nonce ad m = Spec.sivMac U (128 * pk) nonce ad m := by
    unfold sivTag Spec.sivMac
    simp only
    rw [genTag_refines Pi U hP, absorb_refines Pi U hP _ _ frame50, absorb_refines Pi U hP _ _ frame30,
      setup_refines Pi U hP pk nonce hn _ _ frame90]
  unfold sivEncryptWith Spec.sivEncrypt Spec.sivKeystreamXor
  simp only
  rw [htag, sivBody_refines Pi U hP]
  have hl : (sivNonce nonce (Spec.sivMac U (128 * pk) nonce ad m)).length = 12 := by
    rw [← htag]; simp [sivNonce, genTag_length, sivTag, hn]
  rw [setup_refines Pi U hP pk _ hl _ _ frameB0]
  rfl

end
end TJ
