import TJ.Proofs.PrngReseed
namespace TJ.MiniC.Hoare
open TJ TJ.MiniC TJ.MiniC.PermC TJ.Gen.MiniC

/-- **`tinyjambu_hash(out, in, inlen)`** with label bookkeeping: the 32 bytes at `out` are `hash data`; everything else keeps its value and no label
    rises outside the data window and the output window -/
theorem hash_callK (env : Env) (st : St) (eo ei el : Expr) (bo bi : Nat) (XO XI : Array LByte) (baseo basei oo off : Nat) (data : Bytes)
    (heo : evalE env eo = .ok (mkPtr bo (baseo + oo), .pub)) (hei : evalE env ei = .ok (mkPtr bi (basei + off), .pub))
    (hel : evalE env el = .ok (data.length, .pub))
    (hO : st.mem[bo]? = some ⟨XO, baseo⟩) (hI : st.mem[bi]? = some ⟨XI, basei⟩)
    (hltO : baseo + XO.size < ptrBase) (hltI : basei + XI.size < ptrBase) (hinO : oo + 32 ≤ XO.size)
    (hsz : st.mem.size + 3 < 2 ^ 30) (hd : BytesV XI off data) :
    RunsTo prog (.call none idx_tinyjambu_hash [eo, ei, el]) env st (fun sig e s => sig = .normal ∧ e = env ∧ s.ent = st.ent ∧ s.mem.size = st.mem.size ∧
      (∃ XO', s.mem[bo]? = some ⟨XO', baseo⟩ ∧ BytesV XO' oo (hash data)) ∧
      ∀ j, ORel (KeepW (fun q => j = bo ∧ oo ≤ q ∧ q < oo + 32) (fun q => j = bi ∧ off ≤ q ∧ q < off + data.length)) s.mem[j]? st.mem[j]?) := by
  have hboN := mem_lt hO; have hbiN := mem_lt hI
  obtain ⟨em, ee⟩ := enter_hash (mkPtr bo (baseo + oo)) (mkPtr bi (basei + off)) data.length st.mem
  refine runs_call_none f_tinyjambu_hash [(mkPtr bo (baseo + oo), .pub), (mkPtr bi (basei + off), .pub), (data.length, .pub)] prog_hash
    (by simp only [evalArgs, heo, hei, hel]) rfl ?_
  rw [hash_body_eq, em, ee]
  simp only [seqs]
  generalize hm1 : st.mem.push ⟨Array.replicate 56 (0, .undef), 0⟩ = mem1
  have hm1lt : ∀ j, j < st.mem.size → mem1[j]? = st.mem[j]? := by
    intro j hj; rw [← hm1, Array.getElem?_push]; simp only [show ¬ j = st.mem.size from by omega, if_false]
  have hm1n : mem1[st.mem.size]? = some ⟨Array.replicate 56 (0, .undef), 0⟩ := by rw [← hm1, Array.getElem?_push]; simp
  have hm1sz : mem1.size = st.mem.size + 1 := by rw [← hm1, Array.size_push]
  generalize hE : (#[(mkPtr bo (baseo + oo), Lab.pub), (mkPtr bi (basei + off), Lab.pub), (data.length, Lab.pub), (mkPtr st.mem.size 0, Lab.pub)] : Env) = E
  have e_0 : E[0]? = some (mkPtr bo (baseo + oo), .pub) := by rw [← hE]; rfl
  have e_1 : E[1]? = some (mkPtr bi (basei + off), .pub) := by rw [← hE]; rfl
  have e_2 : E[2]? = some (data.length, .pub) := by rw [← hE]; rfl
  have e_3 : E[3]? = some (mkPtr st.mem.size 0, .pub) := by rw [← hE]; rfl
  have ev3 : evalE E (.var 3) = .ok (mkPtr st.mem.size 0, .pub) := by simp only [evalE, e_3, reduceCtorEq, if_false]
  have hEpub : ∀ (i : Nat) (v : LVal), E[i]? = some v → v.2 = Lab.pub := by
    intro i v hv; rw [← hE] at hv
    match i, hv with
    | 0, hv => cases hv; rfl
    | 1, hv => cases hv; rfl
    | 2, hv => cases hv; rfl
    | 3, hv => cases hv; rfl
    | i + 4, hv => simp at hv
  refine runs_seq (init_call prog _ prog_init E { st with mem := mem1 } (.var 3) st.mem.size 0 _ ev3 hm1n (by simp) (by decide) (by simp [ptrBase]) (by omega)
    { (default : HState) with tail := zeros 4 }) ?_
  intro e1 s1 ⟨he1, hent1, hsz1, hoth1, X1, hX1, hX1s, ho1⟩
  rw [he1]
  have hX1s' : X1.size = 56 := by rw [hX1s]; simp
  have hsz1' : s1.mem.size = st.mem.size + 1 := by rw [hsz1]; exact hm1sz
  have hs1lt : ∀ j, j < st.mem.size → s1.mem[j]? = st.mem[j]? := fun j hj => by rw [hoth1 j (by omega)]; exact hm1lt j hj
  refine runs_seq (Q := fun e s => e = E ∧ s.ent = st.ent ∧ s.mem.size = st.mem.size + 1 ∧
      (∃ X', s.mem[st.mem.size]? = some ⟨X', 0⟩ ∧ X'.size = 56 ∧ HObjV X' (HState.fresh.update data)) ∧
      ∀ j, j < st.mem.size → ORel (KeepW (fun _ => False) (fun q => j = bi ∧ off ≤ q ∧ q < off + data.length)) s.mem[j]? st.mem[j]?) ?_ ?_
  · refine (update_callK E s1 (.var 3) (.var 1) (.var 2) st.mem.size bi X1 XI 0 basei off HState.fresh data ev3 (by simp only [evalE, e_1, reduceCtorEq, if_false])
      (by simp only [evalE, e_2, reduceCtorEq, if_false]) hX1 (by rw [hs1lt bi hbiN]; exact hI) (by omega) ho1 (by decide) (by rw [hX1s']; simp [ptrBase]) hltI (by omega) (by omega)
      (by rw [hsz1']; omega) hd).weaken ?_
    intro sig e s ⟨g1, g2, g3, g4, ⟨X', g5, g6, g7⟩, g8⟩
    refine ⟨g1, envLe_allpub hEpub g2, by rw [g3]; exact hent1, by rw [g4]; exact hsz1', ⟨X', g5, by rw [g6]; exact hX1s', g7⟩, fun j hj => ?_⟩
    have := g8 j (by omega)
    rw [hs1lt j hj] at this; exact this
  intro e2 s2 ⟨he2, hent2, hsz2, ⟨X2, hX2, hX2s, ho2⟩, hk2⟩
  rw [he2]
  obtain ⟨XO2, hO2, hXO2s, kO2⟩ := okeep_block (by have := hk2 bo hboN; rw [hO] at this; exact this)
  refine runs_seq (Q := fun e s => e = E ∧ s.ent = st.ent ∧ s.mem.size = st.mem.size + 1 ∧ (∃ X', s.mem[st.mem.size]? = some ⟨X', 0⟩ ∧ X'.size = 56) ∧
      (∃ XO', s.mem[bo]? = some ⟨XO', baseo⟩ ∧ BytesV XO' oo (hash data)) ∧
      ∀ j, j < st.mem.size → ORel (KeepW (fun q => j = bo ∧ oo ≤ q ∧ q < oo + 32) (fun q => j = bi ∧ off ≤ q ∧ q < off + data.length)) s.mem[j]? st.mem[j]?) ?_ ?_
  · refine (finalize_call prog _ prog_finalize prog_compress prog_p256 E s2 (.var 3) (.var 0) st.mem.size bo X2 XO2 0 baseo oo _ ev3 (by simp only [evalE, e_0, reduceCtorEq, if_false])
      hX2 hO2 (by omega) ho2 (by decide) (by rw [hX2s]; simp [ptrBase]) (by rw [hXO2s]; exact hltO) (by rw [hXO2s]; exact hinO) (by omega) (by omega) (by rw [hsz2]; omega)).weaken ?_
    intro sig e s ⟨g1, g2, g3, g4, ⟨blkS, g5, g6, g7, _⟩, ⟨blkO, g8, g9, g10, g11, g12⟩, g13⟩
    refine ⟨g1, g2, by rw [g3]; exact hent2, by rw [g4]; exact hsz2, ⟨blkS.bytes, by rw [g5, ← g6], by rw [g7]; exact hX2s⟩, ⟨blkO.bytes, by rw [g8, ← g9], ?_, ?_⟩, fun j hj => ?_⟩
    · rw [g10, hXO2s]; have : (hash data).length = 32 := finalize_length _
      omega
    · exact g11
    · by_cases hjo : j = bo
      · subst hjo
        rw [g8, hO]
        have kk : KeepW (fun q => oo ≤ q ∧ q < oo + 32) (fun _ => False) blkO ⟨XO2, baseo⟩ :=
          ⟨g9, g10, fun q hq => ⟨orel_vle_veq (g12 q (by omega)), fun _ => g12 q (by omega)⟩⟩
        exact KeepW.mono (KeepW.trans kk kO2) (fun q h => h.elim (fun x => ⟨rfl, x⟩) False.elim) (fun q h => h.elim False.elim id)
      · refine okeep_mono (okeep_trans (okeep_of_le (g13 j (by omega) hjo) (fun _ => False) (fun _ => False)) (hk2 j hj)) (fun q h => h.elim False.elim False.elim) (fun q h => h.elim False.elim id)
  intro e3 s3 ⟨he3, hent3, hsz3, ⟨X3, hX3, hX3s⟩, ⟨XO3, hO3, hO3d⟩, hk3⟩
  rw [he3]
  refine (free_call E s3 (.var 3) st.mem.size ⟨X3, 0⟩ ev3 hX3 rfl hX3s).weaken ?_
  intro sig e s ⟨_, _, hent4, hm4⟩
  have hszF : s.mem.size = st.mem.size + 1 := by rw [hm4, size_setBlock']; exact hsz3
  have hlk : ∀ j, j < st.mem.size → (s.mem.extract 0 st.mem.size)[j]? = s3.mem[j]? := by
    intro j hj
    rw [Array.getElem?_extract, hszF]
    have : j < min st.mem.size (st.mem.size + 1) - 0 := by omega
    simp only [this, if_true, Nat.zero_add]
    rw [hm4, getElem?_setBlock', if_neg (by omega)]
  have hexs : (s.mem.extract 0 st.mem.size).size = st.mem.size := by rw [Array.size_extract, hszF]; omega
  refine ⟨trivial, trivial, by show s.ent = st.ent; rw [hent4]; exact hent3, hexs, ⟨XO3, by show (s.mem.extract 0 st.mem.size)[bo]? = _; rw [hlk bo hboN]; exact hO3, hO3d⟩, fun j => ?_⟩
  show ORel _ (s.mem.extract 0 st.mem.size)[j]? st.mem[j]?
  by_cases hjn : j < st.mem.size
  · rw [hlk j hjn]; exact hk3 j hjn
  · rw [Array.getElem?_eq_none (by rw [hexs]; omega), Array.getElem?_eq_none (by omega)]; trivial

theorem prog_hash_prefixed : prog[idx_tinyjambu_hash_prefixed]? = some f_tinyjambu_hash_prefixed := by
  simp only [prog, idx_tinyjambu_hash_prefixed, List.getElem?_cons_succ, List.getElem?_cons_zero]

def prefixedBody : Stmt := .seq (.store .u8 (.var 3) (.var 1)) (.seq (.call none idx_tinyjambu_hash_init [.var 4]) (.seq (.call none idx_tinyjambu_hash_update [.var 4, .var 3, .lit 1])
  (.seq (.call none idx_tinyjambu_hash_update [.var 4, .var 2, .cast .u64 .i32 (.lit 32)]) (.seq (.call none idx_tinyjambu_hash_finalize [.var 4, .var 0]) (.call none idx_tinyjambu_hash_free [.var 4])))))

theorem prefixed_body_eq : f_tinyjambu_hash_prefixed.body = prefixedBody := rfl

/-- **`tinyjambu_hash_prefixed(out, prefix, V)`** on the regenerated term: `out ← Hash(prefix ‖ V)` -/
theorem hash_prefixed_call (env : Env) (st : St) (eo em ev : Expr) (bo bv : Nat) (XO XV : Array LByte) (baseo oo basev voff : Nat) (pfx : UInt8) (V : Bytes)
    (heo : evalE env eo = .ok (mkPtr bo (baseo + oo), .pub)) (hem : evalE env em = .ok (pfx.toNat, .pub)) (hev : evalE env ev = .ok (mkPtr bv (basev + voff), .pub))
    (hO : st.mem[bo]? = some ⟨XO, baseo⟩) (hV : st.mem[bv]? = some ⟨XV, basev⟩) (hVd : BytesV XV voff V) (hVl : V.length = 32)
    (hltO : baseo + XO.size < ptrBase) (hltV : basev + XV.size < ptrBase) (hinO : oo + 32 ≤ XO.size) (hsz : st.mem.size + 5 < 2 ^ 30) :
    RunsTo prog (.call none idx_tinyjambu_hash_prefixed [eo, em, ev]) env st (fun sig e s => sig = .normal ∧ e = env ∧ s.ent = st.ent ∧ s.mem.size = st.mem.size ∧
      (∃ XO', s.mem[bo]? = some ⟨XO', baseo⟩ ∧ BytesV XO' oo (hashPrefixed pfx V)) ∧
      ∀ j, ORel (KeepW (fun q => j = bo ∧ oo ≤ q ∧ q < oo + 32) (fun q => j = bv ∧ voff ≤ q ∧ q < voff + 32)) s.mem[j]? st.mem[j]?) := by
  have hboN := mem_lt hO; have hbvN := mem_lt hV
  let vs : List LVal := [(mkPtr bo (baseo + oo), .pub), (pfx.toNat, .pub), (mkPtr bv (basev + voff), .pub)]
  refine runs_call_none f_tinyjambu_hash_prefixed vs prog_hash_prefixed (by simp only [evalArgs, heo, hem, hev]; rfl) rfl ?_
  have hent : enterFun f_tinyjambu_hash_prefixed vs st.mem = (#[(mkPtr bo (baseo + oo), .pub), (pfx.toNat, .pub), (mkPtr bv (basev + voff), .pub),
      (mkPtr st.mem.size 0, .pub), (mkPtr (st.mem.size + 1) 0, .pub)],
      (st.mem.push ⟨Array.replicate 1 (0, .undef), 0⟩).push ⟨Array.replicate 56 (0, .undef), 0⟩) := by
    simp only [enterFun, allocLocals, f_tinyjambu_hash_prefixed, Array.size_push]; rfl
  rw [prefixed_body_eq, hent]
  generalize hm1 : (st.mem.push ⟨Array.replicate 1 (0, .undef), 0⟩).push ⟨Array.replicate 56 (0, .undef), 0⟩ = mem1
  have hm1sz : mem1.size = st.mem.size + 2 := by rw [← hm1]; simp only [Array.size_push]
  have hm1lt : ∀ j, j < st.mem.size → mem1[j]? = st.mem[j]? := by
    intro j hj; rw [← hm1, Array.getElem?_push, Array.getElem?_push]
    simp only [Array.size_push, show ¬ j = st.mem.size + 1 from by omega, show ¬ j = st.mem.size from by omega, if_false]
  have hm1a : mem1[st.mem.size]? = some ⟨Array.replicate 1 (0, .undef), 0⟩ := by
    rw [← hm1, Array.getElem?_push, Array.getElem?_push]
    simp only [Array.size_push, show ¬ st.mem.size = st.mem.size + 1 from by omega, if_false, if_true]
  have hm1b : mem1[st.mem.size + 1]? = some ⟨Array.replicate 56 (0, .undef), 0⟩ := by
    rw [← hm1, Array.getElem?_push, if_pos (by simp only [Array.size_push])]
  generalize hE : (#[(mkPtr bo (baseo + oo), Lab.pub), (pfx.toNat, Lab.pub), (mkPtr bv (basev + voff), Lab.pub), (mkPtr st.mem.size 0, Lab.pub), (mkPtr (st.mem.size + 1) 0, Lab.pub)] : Env) = E
  have e_0 : E[0]? = some (mkPtr bo (baseo + oo), .pub) := by rw [← hE]; rfl
  have e_1 : E[1]? = some (pfx.toNat, .pub) := by rw [← hE]; rfl
  have e_2 : E[2]? = some (mkPtr bv (basev + voff), .pub) := by rw [← hE]; rfl
  have e_3 : E[3]? = some (mkPtr st.mem.size 0, .pub) := by rw [← hE]; rfl
  have e_4 : E[4]? = some (mkPtr (st.mem.size + 1) 0, .pub) := by rw [← hE]; rfl
  have ev4 : evalE E (.var 4) = .ok (mkPtr (st.mem.size + 1) 0, .pub) := by simp only [evalE, e_4, reduceCtorEq, if_false]
  have ev3 : evalE E (.var 3) = .ok (mkPtr st.mem.size (0 + 0), .pub) := by simp only [evalE, e_3, reduceCtorEq, if_false]
  have hEpub : ∀ (i : Nat) (v : LVal), E[i]? = some v → v.2 = Lab.pub := by
    intro i v hv; rw [← hE] at hv
    match i, hv with
    | 0, hv => cases hv; rfl
    | 1, hv => cases hv; rfl
    | 2, hv => cases hv; rfl
    | 3, hv => cases hv; rfl
    | 4, hv => cases hv; rfl
    | i + 5, hv => simp at hv
  unfold prefixedBody
  -- the prefix byte
  refine runs_seq (Q := fun e s => e = E ∧ s.ent = st.ent ∧ s.mem = setBlock mem1 st.mem.size ((Array.replicate 1 ((0 : UInt8), Lab.undef)).setIfInBounds 0 (pfx, .pub)))
    (store_byte_val (env := E) (st := { st with mem := mem1 }) (.var 3) (.var 1) pfx .pub st.mem.size 0 0 _ ev3 (by simp only [evalE, e_1, reduceCtorEq, if_false]) hm1a (by simp) (by simp [ptrBase])
      ⟨rfl, rfl, rfl, rfl⟩) ?_
  intro e1 s1 ⟨he1, hent1, hm1'⟩
  rw [he1]
  have hsz1 : s1.mem.size = st.mem.size + 2 := by rw [hm1', size_setBlock']; exact hm1sz
  have hs1lt : ∀ j, j < st.mem.size → s1.mem[j]? = st.mem[j]? := fun j hj => by rw [hm1', getElem?_setBlock', if_neg (by omega)]; exact hm1lt j hj
  have hH1 : s1.mem[st.mem.size]? = some ⟨#[(pfx, .pub)], 0⟩ := by rw [hm1', getElem?_setBlock', if_pos rfl, hm1a]; rfl
  have hS1 : s1.mem[st.mem.size + 1]? = some ⟨Array.replicate 56 (0, .undef), 0⟩ := by rw [hm1', getElem?_setBlock', if_neg (by omega)]; exact hm1b
  refine runs_seq (init_call prog _ prog_init E s1 (.var 4) (st.mem.size + 1) 0 _ ev4 hS1 (by simp) (by decide) (by simp [ptrBase]) (by omega) HState.fresh) ?_
  intro e2 s2 ⟨he2, hent2, hsz2, hoth2, X2, hX2, hX2s, ho2⟩
  rw [he2]
  have hX2s' : X2.size = 56 := by rw [hX2s]; simp
  have hH2 : s2.mem[st.mem.size]? = some ⟨#[(pfx, .pub)], 0⟩ := by rw [hoth2 _ (by omega)]; exact hH1
  have hpd : BytesV #[(pfx, Lab.pub)] 0 [pfx] := ⟨by simp, fun k b hk => by
    match k, hk with
    | 0, hk => exact ⟨.pub, by simp at hk; subst hk; rfl, by decide⟩
    | k + 1, hk => simp at hk⟩
  refine runs_seq (Q := fun e s => e = E ∧ s.ent = st.ent ∧ s.mem.size = st.mem.size + 2 ∧
      (∃ X', s.mem[st.mem.size + 1]? = some ⟨X', 0⟩ ∧ X'.size = 56 ∧ HObjV X' ((HState.init HState.fresh).update [pfx])) ∧
      ∀ j, j < st.mem.size → ORel (KeepW (fun _ => False) (fun _ => False)) s.mem[j]? st.mem[j]?) ?_ ?_
  · refine (update_callK E s2 (.var 4) (.var 3) (.lit 1) (st.mem.size + 1) st.mem.size X2 _ 0 0 0 (HState.init HState.fresh) [pfx] ev4 ev3 (by simp only [evalE]; rfl) hX2 hH2 (by omega) ho2
      (by decide) (by rw [hX2s']; simp [ptrBase]) (by simp [ptrBase]) (by omega) (by omega) (by rw [hsz2, hsz1]; omega) hpd).weaken ?_
    intro sig e s ⟨g1, g2, g3, g4, ⟨X', g5, g6, g7⟩, g8⟩
    refine ⟨g1, envLe_allpub hEpub g2, by rw [g3, hent2]; exact hent1, by rw [g4, hsz2]; exact hsz1, ⟨X', g5, by rw [g6]; exact hX2s', g7⟩, fun j hj => ?_⟩
    have := g8 j (by omega)
    rw [hoth2 j (by omega), hs1lt j hj] at this
    exact okeep_mono this (fun _ h => h) (fun q h => by omega)
  intro e3 s3 ⟨he3, hent3, hsz3, ⟨X3, hX3, hX3s, ho3⟩, hk3⟩
  rw [he3]
  obtain ⟨XV3, hV3, hXV3s, kV3⟩ := okeep_block (by have := hk3 bv hbvN; rw [hV] at this; exact this)
  have hVd3 : BytesV XV3 voff V := bytesV_keepW kV3 hVd (fun _ _ _ h => h)
  refine runs_seq (Q := fun e s => e = E ∧ s.ent = st.ent ∧ s.mem.size = st.mem.size + 2 ∧
      (∃ X', s.mem[st.mem.size + 1]? = some ⟨X', 0⟩ ∧ X'.size = 56 ∧ HObjV X' (((HState.init HState.fresh).update [pfx]).update V)) ∧
      ∀ j, j < st.mem.size → ORel (KeepW (fun _ => False) (fun q => j = bv ∧ voff ≤ q ∧ q < voff + 32)) s.mem[j]? st.mem[j]?) ?_ ?_
  · refine (update_callK E s3 (.var 4) (.var 2) (.cast .u64 .i32 (.lit 32)) (st.mem.size + 1) bv X3 XV3 0 basev voff _ V ev4 (by simp only [evalE, e_2, reduceCtorEq, if_false])
      (by simp only [evalE, castVal_u64_i32_lit 32 (by decide), hVl]) hX3 hV3 (by omega) ho3 (by decide) (by rw [hX3s]; simp [ptrBase]) (by rw [hXV3s]; exact hltV) (by omega) (by omega)
      (by rw [hsz3]; omega) hVd3).weaken ?_
    intro sig e s ⟨g1, g2, g3, g4, ⟨X', g5, g6, g7⟩, g8⟩
    refine ⟨g1, envLe_allpub hEpub g2, by rw [g3]; exact hent3, by rw [g4]; exact hsz3, ⟨X', g5, by rw [g6]; exact hX3s, g7⟩, fun j hj => ?_⟩
    refine okeep_mono (okeep_trans (g8 j (by omega)) (hk3 j hj)) (fun q h => h.elim id id) (fun q h => ?_)
    rcases h with h | h
    · rw [hVl] at h; exact h
    · exact h.elim
  intro e5 s5 ⟨he5, hent5, hsz5, ⟨X5, hX5, hX5s, ho5⟩, hk5⟩
  rw [he5]
  obtain ⟨XO5, hO5, hXO5s, kO5⟩ := okeep_block (by have := hk5 bo hboN; rw [hO] at this; exact this)
  refine runs_seq (Q := fun e s => e = E ∧ s.ent = st.ent ∧ s.mem.size = st.mem.size + 2 ∧ (∃ X', s.mem[st.mem.size + 1]? = some ⟨X', 0⟩ ∧ X'.size = 56) ∧
      (∃ XO', s.mem[bo]? = some ⟨XO', baseo⟩ ∧ BytesV XO' oo (hashPrefixed pfx V)) ∧
      ∀ j, j < st.mem.size → ORel (KeepW (fun q => j = bo ∧ oo ≤ q ∧ q < oo + 32) (fun q => j = bv ∧ voff ≤ q ∧ q < voff + 32)) s.mem[j]? st.mem[j]?) ?_ ?_
  · refine (finalize_call prog _ prog_finalize prog_compress prog_p256 E s5 (.var 4) (.var 0) (st.mem.size + 1) bo X5 XO5 0 baseo oo _ ev4 (by simp only [evalE, e_0, reduceCtorEq, if_false])
      hX5 hO5 (by omega) ho5 (by decide) (by rw [hX5s]; simp [ptrBase]) (by rw [hXO5s]; exact hltO) (by rw [hXO5s]; exact hinO) (by omega) (by omega) (by rw [hsz5]; omega)).weaken ?_
    intro sig e s ⟨g1, g2, g3, g4, ⟨blkS, g5, g6, g7, _⟩, ⟨blkO, g8, g9, g10, g11, g12⟩, g13⟩
    have hdig : ((((HState.init HState.fresh).update [pfx]).update V).finalize).1 = hashPrefixed pfx V := by
      rw [init_update2_finalize]; rfl
    refine ⟨g1, g2, by rw [g3]; exact hent5, by rw [g4]; exact hsz5, ⟨blkS.bytes, by rw [g5, ← g6], by rw [g7]; exact hX5s⟩, ⟨blkO.bytes, by rw [g8, ← g9], ?_, ?_⟩, fun j hj => ?_⟩
    · rw [g10, hXO5s]; have : (hashPrefixed pfx V).length = 32 := by rw [← hdig]; exact finalize_length _
      omega
    · intro q b hq; rw [← hdig] at hq; exact g11 q b hq
    · by_cases hjo : j = bo
      · subst hjo
        rw [g8, hO]
        have kk : KeepW (fun q => oo ≤ q ∧ q < oo + 32) (fun _ => False) blkO ⟨XO5, baseo⟩ :=
          ⟨g9, g10, fun q hq => ⟨orel_vle_veq (g12 q (by omega)), fun _ => g12 q (by omega)⟩⟩
        exact KeepW.mono (KeepW.trans kk kO5) (fun q h => h.elim (fun x => ⟨rfl, x⟩) False.elim) (fun q h => h.elim False.elim id)
      · refine okeep_mono (okeep_trans (okeep_of_le (g13 j (by omega) hjo) (fun _ => False) (fun _ => False)) (hk5 j hj)) (fun q h => h.elim False.elim False.elim) (fun q h => h.elim False.elim id)
  intro e6 s6 ⟨he6, hent6, hsz6, ⟨X6, hX6, hX6s⟩, ⟨XO6, hO6, hO6d⟩, hk6⟩
  rw [he6]
  refine (free_call E s6 (.var 4) (st.mem.size + 1) ⟨X6, 0⟩ ev4 hX6 rfl hX6s).weaken ?_
  intro sig e s ⟨_, _, hent7, hm7⟩
  have hszF : s.mem.size = st.mem.size + 2 := by rw [hm7, size_setBlock']; exact hsz6
  have hlk : ∀ j, j < st.mem.size → (s.mem.extract 0 st.mem.size)[j]? = s6.mem[j]? := by
    intro j hj
    rw [Array.getElem?_extract, hszF]
    have : j < min st.mem.size (st.mem.size + 2) - 0 := by omega
    simp only [this, if_true, Nat.zero_add]
    rw [hm7, getElem?_setBlock', if_neg (by omega)]
  have hexs : (s.mem.extract 0 st.mem.size).size = st.mem.size := by rw [Array.size_extract, hszF]; omega
  refine ⟨rfl, rfl, by show s.ent = st.ent; rw [hent7]; exact hent6, hexs, ⟨XO6, by show (s.mem.extract 0 st.mem.size)[bo]? = _; rw [hlk bo hboN]; exact hO6, hO6d⟩, fun j => ?_⟩
  show ORel _ (s.mem.extract 0 st.mem.size)[j]? st.mem[j]?
  by_cases hjn : j < st.mem.size
  · rw [hlk j hjn]; exact hk6 j hjn
  · rw [Array.getElem?_eq_none (by rw [hexs]; omega), Array.getElem?_eq_none (by omega)]; trivial

end TJ.MiniC.Hoare
