/-
  TJ.Proofs.PbkdfCore — buffers under value-equality, tinyjambu_hmac_reinit as a call, and one whole MAC computation
  (init/reinit, one or two updates, finalize) as a unit.
-/
import TJ.Proofs.HkdfCore
import TJ.Props.C12
namespace TJ.MiniC.Hoare
open TJ TJ.MiniC TJ.MiniC.PermC TJ.Gen.MiniC

/-- memory `m` holds `data` at offset `off` of block `b` (base `base`, size `sz`), with defined labels -/
def HasBuf (m : Array Block) (b base off sz : Nat) (data : Bytes) : Prop := ∃ X, m[b]? = some ⟨X, base⟩ ∧ X.size = sz ∧ BytesV X off data

theorem HasBuf.eqv {m m' : Array Block} {b base off sz : Nat} {data : Bytes} (h : HasBuf m b base off sz data) (hr : ORel BlockEqV m'[b]? m[b]?) :
    HasBuf m' b base off sz data := by
  obtain ⟨X, hm, hs, hd⟩ := h
  rw [hm] at hr
  obtain ⟨Z, hz, hzs, hzv⟩ := eqv_block hr
  exact ⟨Z, hz, by rw [hzs]; exact hs, bytesV_of_veq hzv hd⟩

theorem HasBuf.eq {m m' : Array Block} {b base off sz : Nat} {data : Bytes} (h : HasBuf m b base off sz data) (hr : m'[b]? = m[b]?) :
    HasBuf m' b base off sz data := by
  obtain ⟨X, hm, hs, hd⟩ := h
  exact ⟨X, by rw [hr]; exact hm, hs, hd⟩

theorem HasBuf.lt {m : Array Block} {b base off sz : Nat} {data : Bytes} (h : HasBuf m b base off sz data) : b < m.size := by
  obtain ⟨X, hm, _, _⟩ := h; exact mem_lt hm

theorem prog_hmac_reinit : prog[idx_tinyjambu_hmac_reinit]? = some f_tinyjambu_hmac_reinit := by
  simp only [prog, idx_tinyjambu_hmac_reinit, List.getElem?_cons_succ, List.getElem?_cons_zero]

/-- **`tinyjambu_hmac_reinit(state, key, keylen)` as a call** (the same function as `hmac_init`) -/
theorem hmac_reinit_call (env : Env) (st : St) (es ek el : Expr) (bs bk : Nat) (X XK : Array LByte) (baseS basek koff : Nat) (h : HState) (key : Bytes)
    (hes : evalE env es = .ok (mkPtr bs baseS, .pub)) (hek : evalE env ek = .ok (mkPtr bk (basek + koff), .pub)) (hel : evalE env el = .ok (key.length, .pub))
    (hS : st.mem[bs]? = some ⟨X, baseS⟩) (hK : st.mem[bk]? = some ⟨XK, basek⟩) (hne : bk ≠ bs) (hXs : 52 ≤ X.size) (halS : baseS % 4 = 0)
    (hltS : baseS + X.size < ptrBase) (hltK : basek + XK.size < ptrBase) (hkd : BytesV XK koff key) (hsz : st.mem.size + 3 < 2 ^ 30) :
    RunsTo prog (.call none idx_tinyjambu_hmac_reinit [es, ek, el]) env st (fun sig e s => sig = .normal ∧ e = env ∧ s.ent = st.ent ∧ s.mem.size = st.mem.size ∧
      (∃ X', s.mem[bs]? = some ⟨X', baseS⟩ ∧ X'.size = X.size ∧ HObjV X' (hmacInit h key)) ∧ OthV bs s.mem st.mem) := by
  refine runs_call_none f_tinyjambu_hmac_reinit [(mkPtr bs baseS, .pub), (mkPtr bk (basek + koff), .pub), (key.length, .pub)] prog_hmac_reinit
    (by simp only [evalArgs, hes, hek, hel]) rfl ?_
  have hent : enterFun f_tinyjambu_hmac_reinit [(mkPtr bs baseS, .pub), (mkPtr bk (basek + koff), .pub), (key.length, .pub)] st.mem =
      (#[(mkPtr bs baseS, .pub), (mkPtr bk (basek + koff), .pub), (key.length, .pub)], st.mem) := rfl
  rw [hent]
  have hbody : f_tinyjambu_hmac_reinit.body = .call none idx_tinyjambu_hmac_set_key [.var 0, .var 1, .var 2, .cast .u8 .i32 (.lit 54)] := rfl
  rw [hbody]
  refine (set_key_call _ { st with mem := st.mem } (.var 0) (.var 1) (.var 2) (.cast .u8 .i32 (.lit 54)) bs bk X XK baseS basek koff h key 0x36 .pub (by decide)
    rfl rfl rfl (by simp only [evalE, castVal_u8_i32_small 54 (by decide)]; rfl) hS hK hne hXs halS hltS hltK hkd hsz).weaken ?_
  intro sig e s ⟨_, _, g3, g4, g5, g6⟩
  have : s.mem.extract 0 st.mem.size = s.mem := extract_same _ _ g4
  simp only [this]
  exact ⟨trivial, trivial, g3, g4, g5, g6⟩


theorem HasBuf.get {m : Array Block} {b base off sz : Nat} {data : Bytes} (h : HasBuf m b base off sz data) :
    ∃ X, m[b]? = some ⟨X, base⟩ ∧ X.size = sz ∧ BytesV X off data := h

/-- `hmac_init/reinit(state, key, keylen)` for either entry point -/
theorem hmac_start_call (ii : Nat) (hii : ii = idx_tinyjambu_hmac_init ∨ ii = idx_tinyjambu_hmac_reinit) (env : Env) (st : St) (es ek el : Expr) (bs bk : Nat) (X XK : Array LByte)
    (baseS basek koff : Nat) (h : HState) (key : Bytes)
    (hes : evalE env es = .ok (mkPtr bs baseS, .pub)) (hek : evalE env ek = .ok (mkPtr bk (basek + koff), .pub)) (hel : evalE env el = .ok (key.length, .pub))
    (hS : st.mem[bs]? = some ⟨X, baseS⟩) (hK : st.mem[bk]? = some ⟨XK, basek⟩) (hne : bk ≠ bs) (hXs : 52 ≤ X.size) (halS : baseS % 4 = 0)
    (hltS : baseS + X.size < ptrBase) (hltK : basek + XK.size < ptrBase) (hkd : BytesV XK koff key) (hsz : st.mem.size + 3 < 2 ^ 30) :
    RunsTo prog (.call none ii [es, ek, el]) env st (fun sig e s => sig = .normal ∧ e = env ∧ s.ent = st.ent ∧ s.mem.size = st.mem.size ∧
      (∃ X', s.mem[bs]? = some ⟨X', baseS⟩ ∧ X'.size = X.size ∧ HObjV X' (hmacInit h key)) ∧ OthV bs s.mem st.mem) := by
  rcases hii with h1 | h1 <;> rw [h1]
  · exact hmac_init_call env st es ek el bs bk X XK baseS basek koff h key hes hek hel hS hK hne hXs halS hltS hltK hkd hsz
  · exact hmac_reinit_call env st es ek el bs bk X XK baseS basek koff h key hes hek hel hS hK hne hXs halS hltS hltK hkd hsz

/-- what a MAC computation needs to know about the memory it runs in -/
structure MacGeo (st : St) where
  bs : Nat
  baseS : Nat
  bk : Nat
  basek : Nat
  koff : Nat
  ksz : Nat
  key : Bytes
  hS : ∃ X, st.mem[bs]? = some ⟨X, baseS⟩ ∧ X.size = 56
  hK : HasBuf st.mem bk basek koff ksz key
  hnk : bk ≠ bs
  halS : baseS % 4 = 0
  hltS : baseS + 56 < ptrBase
  hltK : basek + ksz < ptrBase
  hsz : st.mem.size + 5 < 2 ^ 30

/-- **`hmac_(re)init(state, key); hmac_update(state, a); hmac_update(state, b); hmac_finalize(state, key, out)`**: `out = hmac key (a ++ b)` -/
theorem mac2_run (ii : Nat) (hii : ii = idx_tinyjambu_hmac_init ∨ ii = idx_tinyjambu_hmac_reinit) (env : Env) (st : St) (g : MacGeo st)
    (es ek ekl ea eal eb ebl eo : Expr) (ba basea aoff asz : Nat) (da : Bytes) (bb baseb boff bsz : Nat) (db : Bytes) (bo baseo oo : Nat) (XO : Array LByte)
    (hes : evalE env es = .ok (mkPtr g.bs g.baseS, .pub)) (hek : evalE env ek = .ok (mkPtr g.bk (g.basek + g.koff), .pub)) (hekl : evalE env ekl = .ok (g.key.length, .pub))
    (hea : evalE env ea = .ok (mkPtr ba (basea + aoff), .pub)) (heal : evalE env eal = .ok (da.length, .pub))
    (heb : evalE env eb = .ok (mkPtr bb (baseb + boff), .pub)) (hebl : evalE env ebl = .ok (db.length, .pub))
    (heo : evalE env eo = .ok (mkPtr bo (baseo + oo), .pub))
    (hA : HasBuf st.mem ba basea aoff asz da) (hB : HasBuf st.mem bb baseb boff bsz db) (hO : st.mem[bo]? = some ⟨XO, baseo⟩)
    (hna : ba ≠ g.bs) (hnb : bb ≠ g.bs) (hno : bo ≠ g.bs) (hlta : basea + asz < ptrBase) (hltb : baseb + bsz < ptrBase) (hltO : baseo + XO.size < ptrBase) (hin : oo + 32 ≤ XO.size)
    (more : Stmt) {Q : Sig → Env → St → Prop}
    (hQ : ∀ s, s.ent = st.ent → s.mem.size = st.mem.size → (∃ X', s.mem[g.bs]? = some ⟨X', g.baseS⟩ ∧ X'.size = 56) →
      (∃ XO', s.mem[bo]? = some ⟨XO', baseo⟩ ∧ XO'.size = XO.size ∧ BytesV XO' oo (hmac g.key (da ++ db)) ∧ (∀ q, (q < oo ∨ oo + 32 ≤ q) → ORel VEq XO'[q]? XO[q]?)) →
      (∀ j, j ≠ g.bs → j ≠ bo → ORel BlockEqV s.mem[j]? st.mem[j]?) → RunsTo prog more env s Q) :
    RunsTo prog (.seq (.call none ii [es, ek, ekl]) (.seq (.call none idx_tinyjambu_hmac_update [es, ea, eal]) (.seq (.call none idx_tinyjambu_hmac_update [es, eb, ebl])
      (.seq (.call none idx_tinyjambu_hmac_finalize [es, ek, ekl, eo]) more)))) env st Q := by
  obtain ⟨X, hX, hXs⟩ := g.hS
  obtain ⟨XK, hK, hKs, hKd⟩ := g.hK
  have hsz := g.hsz
  have hbsN := mem_lt hX
  refine runs_seq (Q := fun e s => e = env ∧ s.ent = st.ent ∧ s.mem.size = st.mem.size ∧
      (∃ X1, s.mem[g.bs]? = some ⟨X1, g.baseS⟩ ∧ X1.size = 56 ∧ HObjV X1 (hmacInit HState.fresh g.key)) ∧ OthV g.bs s.mem st.mem) ?_ ?_
  · refine (hmac_start_call ii hii env st es ek ekl g.bs g.bk X XK g.baseS g.basek g.koff HState.fresh g.key hes hek hekl hX hK g.hnk (by omega) g.halS (by rw [hXs]; exact g.hltS)
      (by rw [hKs]; exact g.hltK) hKd (by omega)).weaken ?_
    intro sig e s ⟨g1, g2, g3, g4, ⟨X1, g5, g6, g7⟩, g8⟩
    exact ⟨g1, g2, g3, g4, ⟨X1, g5, by rw [g6]; exact hXs, g7⟩, g8⟩
  intro e1 s1 ⟨he1, hent1, hsz1, ⟨X1, hX1, hX1s, ho1⟩, hoth1⟩
  rw [he1]
  obtain ⟨XA1, hA1, hA1s, hA1d⟩ := (hA.eqv (hoth1 ba hna)).get
  refine runs_seq (Q := fun e s => e = env ∧ s.ent = st.ent ∧ s.mem.size = st.mem.size ∧ OthV g.bs s.mem s1.mem ∧
      ∃ X2, s.mem[g.bs]? = some ⟨X2, g.baseS⟩ ∧ X2.size = 56 ∧ HObjV X2 (hmacUpdate (hmacInit HState.fresh g.key) da)) ?_ ?_
  · refine (hmac_update_call env s1 es ea eal g.bs ba X1 XA1 g.baseS basea aoff (hmacInit HState.fresh g.key) da hes hea heal hX1 hA1 hna ho1 g.halS (by rw [hX1s]; exact g.hltS)
      (by rw [hA1s]; exact hlta) (by omega) (by have := mem_lt hA1; omega) (by omega) hA1d).weaken ?_
    intro sig e s ⟨g1, g2, g3, g4, g5, X2, g6, g7, g8⟩
    exact ⟨g1, g2, by rw [g3]; exact hent1, by rw [g4]; exact hsz1, g5, X2, g6, by rw [g7]; exact hX1s, g8⟩
  intro e2 s2 ⟨he2, hent2, hsz2, hoth2, X2, hX2, hX2s, ho2⟩
  rw [he2]
  have heq2 : ∀ j, j ≠ g.bs → ORel BlockEqV s2.mem[j]? st.mem[j]? := fun j hj =>
    orel_trans (R := BlockEqV) (fun _ _ _ p q => BlockEqV.trans p q) (hoth2 j hj) (hoth1 j hj)
  obtain ⟨XB2, hB2, hB2s, hB2d⟩ := (hB.eqv (heq2 bb hnb)).get
  refine runs_seq (Q := fun e s => e = env ∧ s.ent = st.ent ∧ s.mem.size = st.mem.size ∧ OthV g.bs s.mem s2.mem ∧
      ∃ X3, s.mem[g.bs]? = some ⟨X3, g.baseS⟩ ∧ X3.size = 56 ∧ HObjV X3 (hmacUpdate (hmacUpdate (hmacInit HState.fresh g.key) da) db)) ?_ ?_
  · refine (hmac_update_call env s2 es eb ebl g.bs bb X2 XB2 g.baseS baseb boff (hmacUpdate (hmacInit HState.fresh g.key) da) db hes heb hebl hX2 hB2 hnb ho2 g.halS
      (by rw [hX2s]; exact g.hltS) (by rw [hB2s]; exact hltb) (by omega) (by have := mem_lt hB2; omega) (by omega) hB2d).weaken ?_
    intro sig e s ⟨g1, g2, g3, g4, g5, X3, g6, g7, g8⟩
    exact ⟨g1, g2, by rw [g3]; exact hent2, by rw [g4]; exact hsz2, g5, X3, g6, by rw [g7]; exact hX2s, g8⟩
  intro e3 s3 ⟨he3, hent3, hsz3, hoth3, X3, hX3, hX3s, ho3⟩
  rw [he3]
  have heq3 : ∀ j, j ≠ g.bs → ORel BlockEqV s3.mem[j]? st.mem[j]? := fun j hj =>
    orel_trans (R := BlockEqV) (fun _ _ _ p q => BlockEqV.trans p q) (hoth3 j hj) (heq2 j hj)
  obtain ⟨XK3, hK3, hK3s, hK3d⟩ := (g.hK.eqv (heq3 g.bk g.hnk)).get
  obtain ⟨XO3, hO3, hO3s, hO3v⟩ := eqv_block (by have := heq3 bo hno; rw [hO] at this; exact this)
  refine runs_seq (Q := fun e s => e = env ∧ s.ent = st.ent ∧ s.mem.size = st.mem.size ∧ (∃ X', s.mem[g.bs]? = some ⟨X', g.baseS⟩ ∧ X'.size = 56) ∧
      (∃ XO', s.mem[bo]? = some ⟨XO', baseo⟩ ∧ XO'.size = XO.size ∧ BytesV XO' oo (hmac g.key (da ++ db)) ∧ (∀ q, (q < oo ∨ oo + 32 ≤ q) → ORel VEq XO'[q]? XO[q]?)) ∧
      (∀ j, j ≠ g.bs → j ≠ bo → ORel BlockEqV s.mem[j]? st.mem[j]?)) ?_ (fun e s ⟨he, h1, h2, h3, h4, h5⟩ => by rw [he]; exact hQ s h1 h2 h3 h4 h5)
  refine (hmac_finalize_call env s3 es ek ekl eo g.bs g.bk bo X3 XK3 XO3 g.baseS g.basek g.koff baseo oo (hmacUpdate (hmacUpdate (hmacInit HState.fresh g.key) da) db) g.key
    hes hek hekl heo hX3 hK3 hO3 g.hnk hno ho3 g.halS (by rw [hX3s]; exact g.hltS) (by rw [hK3s]; exact g.hltK) (by rw [hO3s]; exact hltO) hK3d (by rw [hO3s]; exact hin) (by omega)).weaken ?_
  intro sig e s ⟨g1, g2, g3, g4, ⟨X4, g5, g6, _⟩, ⟨XO4, g7, g8, g9, g10⟩, g11⟩
  have hmacv : (hmacFinalize (hmacUpdate (hmacUpdate (hmacInit HState.fresh g.key) da) db) g.key).1 = hmac g.key (da ++ db) := by
    have := TJ.Props.C12.streaming_eq_oneshot HState.fresh g.key [da, db]
    simpa using this
  refine ⟨g1, g2, by rw [g3]; exact hent3, by rw [g4]; exact hsz3, ⟨X4, g5, by rw [g6]; exact hX3s⟩, ⟨XO4, g7, by rw [g8]; exact hO3s, by rw [← hmacv]; exact g9, fun q hq => ?_⟩, fun j hj hjo => ?_⟩
  · exact orel_trans (R := VEq) (fun _ _ _ p q => VEq.trans p q) (g10 q hq) (hO3v q)
  · exact orel_trans (R := BlockEqV) (fun _ _ _ p q => BlockEqV.trans p q) (g11 j hj hjo) (heq3 j hj)

/-- **`hmac_(re)init(state, key); hmac_update(state, a); hmac_finalize(state, key, out)`**: `out = hmac key a` -/
theorem mac1_run (ii : Nat) (hii : ii = idx_tinyjambu_hmac_init ∨ ii = idx_tinyjambu_hmac_reinit) (env : Env) (st : St) (g : MacGeo st)
    (es ek ekl ea eal eo : Expr) (ba basea aoff asz : Nat) (da : Bytes) (bo baseo oo : Nat) (XO : Array LByte)
    (hes : evalE env es = .ok (mkPtr g.bs g.baseS, .pub)) (hek : evalE env ek = .ok (mkPtr g.bk (g.basek + g.koff), .pub)) (hekl : evalE env ekl = .ok (g.key.length, .pub))
    (hea : evalE env ea = .ok (mkPtr ba (basea + aoff), .pub)) (heal : evalE env eal = .ok (da.length, .pub))
    (heo : evalE env eo = .ok (mkPtr bo (baseo + oo), .pub))
    (hA : HasBuf st.mem ba basea aoff asz da) (hO : st.mem[bo]? = some ⟨XO, baseo⟩)
    (hna : ba ≠ g.bs) (hno : bo ≠ g.bs) (hlta : basea + asz < ptrBase) (hltO : baseo + XO.size < ptrBase) (hin : oo + 32 ≤ XO.size)
    (more : Stmt) {Q : Sig → Env → St → Prop}
    (hQ : ∀ s, s.ent = st.ent → s.mem.size = st.mem.size → (∃ X', s.mem[g.bs]? = some ⟨X', g.baseS⟩ ∧ X'.size = 56) →
      (∃ XO', s.mem[bo]? = some ⟨XO', baseo⟩ ∧ XO'.size = XO.size ∧ BytesV XO' oo (hmac g.key da) ∧ (∀ q, (q < oo ∨ oo + 32 ≤ q) → ORel VEq XO'[q]? XO[q]?)) →
      (∀ j, j ≠ g.bs → j ≠ bo → ORel BlockEqV s.mem[j]? st.mem[j]?) → RunsTo prog more env s Q) :
    RunsTo prog (.seq (.call none ii [es, ek, ekl]) (.seq (.call none idx_tinyjambu_hmac_update [es, ea, eal])
      (.seq (.call none idx_tinyjambu_hmac_finalize [es, ek, ekl, eo]) more))) env st Q := by
  obtain ⟨X, hX, hXs⟩ := g.hS
  obtain ⟨XK, hK, hKs, hKd⟩ := g.hK
  have hsz := g.hsz
  have hbsN := mem_lt hX
  refine runs_seq (Q := fun e s => e = env ∧ s.ent = st.ent ∧ s.mem.size = st.mem.size ∧
      (∃ X1, s.mem[g.bs]? = some ⟨X1, g.baseS⟩ ∧ X1.size = 56 ∧ HObjV X1 (hmacInit HState.fresh g.key)) ∧ OthV g.bs s.mem st.mem) ?_ ?_
  · refine (hmac_start_call ii hii env st es ek ekl g.bs g.bk X XK g.baseS g.basek g.koff HState.fresh g.key hes hek hekl hX hK g.hnk (by omega) g.halS (by rw [hXs]; exact g.hltS)
      (by rw [hKs]; exact g.hltK) hKd (by omega)).weaken ?_
    intro sig e s ⟨g1, g2, g3, g4, ⟨X1, g5, g6, g7⟩, g8⟩
    exact ⟨g1, g2, g3, g4, ⟨X1, g5, by rw [g6]; exact hXs, g7⟩, g8⟩
  intro e1 s1 ⟨he1, hent1, hsz1, ⟨X1, hX1, hX1s, ho1⟩, hoth1⟩
  rw [he1]
  obtain ⟨XA1, hA1, hA1s, hA1d⟩ := (hA.eqv (hoth1 ba hna)).get
  refine runs_seq (Q := fun e s => e = env ∧ s.ent = st.ent ∧ s.mem.size = st.mem.size ∧ OthV g.bs s.mem s1.mem ∧
      ∃ X2, s.mem[g.bs]? = some ⟨X2, g.baseS⟩ ∧ X2.size = 56 ∧ HObjV X2 (hmacUpdate (hmacInit HState.fresh g.key) da)) ?_ ?_
  · refine (hmac_update_call env s1 es ea eal g.bs ba X1 XA1 g.baseS basea aoff (hmacInit HState.fresh g.key) da hes hea heal hX1 hA1 hna ho1 g.halS (by rw [hX1s]; exact g.hltS)
      (by rw [hA1s]; exact hlta) (by omega) (by have := mem_lt hA1; omega) (by omega) hA1d).weaken ?_
    intro sig e s ⟨g1, g2, g3, g4, g5, X2, g6, g7, g8⟩
    exact ⟨g1, g2, by rw [g3]; exact hent1, by rw [g4]; exact hsz1, g5, X2, g6, by rw [g7]; exact hX1s, g8⟩
  intro e2 s2 ⟨he2, hent2, hsz2, hoth2, X2, hX2, hX2s, ho2⟩
  rw [he2]
  have heq2 : ∀ j, j ≠ g.bs → ORel BlockEqV s2.mem[j]? st.mem[j]? := fun j hj =>
    orel_trans (R := BlockEqV) (fun _ _ _ p q => BlockEqV.trans p q) (hoth2 j hj) (hoth1 j hj)
  obtain ⟨XK3, hK3, hK3s, hK3d⟩ := (g.hK.eqv (heq2 g.bk g.hnk)).get
  obtain ⟨XO3, hO3, hO3s, hO3v⟩ := eqv_block (by have := heq2 bo hno; rw [hO] at this; exact this)
  refine runs_seq (Q := fun e s => e = env ∧ s.ent = st.ent ∧ s.mem.size = st.mem.size ∧ (∃ X', s.mem[g.bs]? = some ⟨X', g.baseS⟩ ∧ X'.size = 56) ∧
      (∃ XO', s.mem[bo]? = some ⟨XO', baseo⟩ ∧ XO'.size = XO.size ∧ BytesV XO' oo (hmac g.key da) ∧ (∀ q, (q < oo ∨ oo + 32 ≤ q) → ORel VEq XO'[q]? XO[q]?)) ∧
      (∀ j, j ≠ g.bs → j ≠ bo → ORel BlockEqV s.mem[j]? st.mem[j]?)) ?_ (fun e s ⟨he, h1, h2, h3, h4, h5⟩ => by rw [he]; exact hQ s h1 h2 h3 h4 h5)
  refine (hmac_finalize_call env s2 es ek ekl eo g.bs g.bk bo X2 XK3 XO3 g.baseS g.basek g.koff baseo oo (hmacUpdate (hmacInit HState.fresh g.key) da) g.key
    hes hek hekl heo hX2 hK3 hO3 g.hnk hno ho2 g.halS (by rw [hX2s]; exact g.hltS) (by rw [hK3s]; exact g.hltK) (by rw [hO3s]; exact hltO) hK3d (by rw [hO3s]; exact hin) (by omega)).weaken ?_
  intro sig e s ⟨g1, g2, g3, g4, ⟨X4, g5, g6, _⟩, ⟨XO4, g7, g8, g9, g10⟩, g11⟩
  have hmacv : (hmacFinalize (hmacUpdate (hmacInit HState.fresh g.key) da) g.key).1 = hmac g.key da := rfl
  refine ⟨g1, g2, by rw [g3]; exact hent2, by rw [g4]; exact hsz2, ⟨X4, g5, by rw [g6]; exact hX2s⟩, ⟨XO4, g7, by rw [g8]; exact hO3s, by rw [← hmacv]; exact g9, fun q hq => ?_⟩, fun j hj hjo => ?_⟩
  · exact orel_trans (R := VEq) (fun _ _ _ p q => VEq.trans p q) (g10 q hq) (hO3v q)
  · exact orel_trans (R := BlockEqV) (fun _ _ _ p q => BlockEqV.trans p q) (g11 j hj hjo) (heq2 j hj)


end TJ.MiniC.Hoare
