/-
  TJ.Proofs.SivDecCall — tinyjambu_{128,192,256}_siv_decrypt as a call, generic in the variant: keystream pass, tag over the recovered
  plaintext, check_tag; and the short-input path.
-/
import TJ.Proofs.SivDecLoop
namespace TJ.MiniC.Hoare
open TJ TJ.MiniC TJ.MiniC.PermC TJ.Gen.MiniC

/-- `*mlen = clen - 8` -/
theorem mlen_storeV {prog : Program} {env : Env} {st : St} (t : Nat) (ht : t ≠ 3) (bl basel ol : Nat) (XL : Array LByte) (n : Nat)
    (h1 : env[1]? = some (mkPtr bl (basel + ol), .pub)) (h3 : env[3]? = some (n, .pub)) (hm : st.mem[bl]? = some ⟨XL, basel⟩)
    (hin : ol + 8 ≤ XL.size) (hal : (basel + ol) % 8 = 0) (hlt : basel + XL.size < ptrBase) (hn8 : 8 ≤ n) (hn : n < 18446744073709551616) (hsz : t < env.size)
    {Q : Sig → Env → St → Prop}
    (hQ : Q .normal (setVar env t (mkPtr bl (basel + ol), .pub))
      { st with leak := .wr (mkPtr bl (basel + ol)) 8 :: st.leak, mem := setBlock st.mem bl (writeLE XL ol (n - 8) .pub 8) }) :
    RunsTo prog (mlenStmtV t) env st Q := by
  unfold mlenStmtV
  simp only [seqs]
  refine runs_seq (Q := fun e s' => e = setVar env t (mkPtr bl (basel + ol), .pub) ∧ s' = st)
    (runs_assign _ (by simp only [evalE, h1, reduceCtorEq, if_false]) ⟨rfl, rfl, rfl⟩) ?_
  intro e1 s1 ⟨he1, hs1⟩; rw [he1, hs1]
  refine runs_store (mkPtr bl (basel + ol)) (n - 8) bl ol 8 .pub rfl (by simp only [evalE, get_set_eq _ _ _ hsz, reduceCtorEq, if_false])
    (by simp only [evalE, get_set_ne _ _ _ _ ht, h3, reduceCtorEq, if_false, castVal_u64_i32_lit 8 (by decide), BinOp.needsPub2,
      BinOp.needsPub1, Bool.false_and, Bool.or_self, Bool.false_eq_true, binVal, Ty.modulus, Lab.join_pub_pub, sub64 n 8 hn8 hn (by decide)])
    (resolve_mkPtr st.mem bl ol 8 ⟨XL, basel⟩ hm hin (show basel + ol < ptrBase from by omega) (fun _ => hal)) ?_
  rw [blockBytes_of hm]
  exact hQ


/-- `memcpy(dst, src, n)` between two blocks other than the state object: the ghost memory gets the same bytes -/
theorem mk_memcpy {g : AGeo} {M : Array Block} {st : St} {kws : List UInt32} (mi : MK g M st kws) {env : Env} (ed es en : Expr)
    (bd based offd : Nat) (XD : Array LByte) (bsr basesr offs : Nat) (XS : Array LByte) (dat : Bytes)
    (hbd : bd ≠ g.bs) (hbs : bsr ≠ g.bs) (hMd : M[bd]? = some ⟨XD, based⟩) (hMs : M[bsr]? = some ⟨XS, basesr⟩) (hd : BytesV XS offs dat) (hdl : dat.length ≠ 0)
    (hroom : offd + dat.length ≤ XD.size) (hltd : based + XD.size < ptrBase) (hlts : basesr + XS.size < ptrBase)
    (hed : evalE env ed = .ok (mkPtr bd (based + offd), .pub)) (hes : evalE env es = .ok (mkPtr bsr (basesr + offs), .pub)) (hen : evalE env en = .ok (dat.length, .pub))
    {Q : Sig → Env → St → Prop}
    (hQ : ∀ s' XD', MK g (setBlock M bd XD') s' kws → XD'.size = XD.size → BytesV XD' offd dat → (∀ p, (p < offd ∨ offd + dat.length ≤ p) → XD'[p]? = XD[p]?) → Q .normal env s') :
    RunsTo g.prog (.memcpy ed es en) env st Q := by
  obtain ⟨XDa, hDa, hDas, _⟩ := oth_data mi.oth bd hbd XD based 0 [] hMd ⟨by simp, fun k b hk => by simp at hk⟩
  obtain ⟨XSa, hSa, hSas, hSad⟩ := oth_data mi.oth bsr hbs XS basesr offs dat hMs hd
  have hDale : BytesLe XDa XD := by have := mi.oth bd hbd; rw [hDa, hMd] at this; exact this.2
  have hSale : BytesLe XSa XS := by have := mi.oth bsr hbs; rw [hSa, hMs] at this; exact this.2
  refine runs_memcpy (mkPtr bd (based + offd)) (mkPtr bsr (basesr + offs)) dat.length bsr offs bd offd hed hes hen hdl
    (resolve_byte hSa offs (by rw [hSas]; have := hd.1; omega) (by have := hd.1; omega)) (by rw [blockBytes_of hSa, hSas]; exact hd.1)
    (resolve_byte hDa offd (by rw [hDas]; omega) (by omega)) (by rw [blockBytes_of hDa, hDas]; exact hroom) ?_
  rw [blockBytes_of hDa, blockBytes_of hSa]
  obtain ⟨gl, ge⟩ := sliceBytes_getV XS dat offs hd.2
  refine hQ _ (writeBytes XD offd (sliceBytes XS offs dat.length)) ⟨mi.klen, ?_, ?_, ?_, mi.ent⟩ (size_writeBytes _ _ _) (bytesV_writeBytes XD offd _ dat gl hroom ge) (fun p hp => ?_)
  · obtain ⟨X, h1, h2, h3⟩ := mi.obj
    exact ⟨X, by show (setBlock st.mem bd _)[g.bs]? = _; rw [getElem?_setBlock', if_neg (fun e => hbd e.symm)]; exact h1, h2, h3⟩
  · intro j hj
    show ORel BlockLe (setBlock st.mem bd _)[j]? (setBlock M bd _)[j]?
    rw [getElem?_setBlock', getElem?_setBlock']
    by_cases hjd : j = bd
    · simp only [hjd, if_true, hDa, hMd, Option.map]
      exact ⟨rfl, writeBytes_le hDale offd (sliceBytes_le hSale offs dat.length)⟩
    · simp only [hjd, if_false]; exact mi.oth j hj
  · show (setBlock st.mem bd _).size = (setBlock M bd _).size
    rw [size_setBlock', size_setBlock']; exact mi.msz
  · rw [getElem?_writeBytes, if_neg (by rw [gl]; omega)]



theorem sivdecrypt_call {prog : Program} {nk pidx pk sidx aidx gidx cidx : Nat} {P : List UInt32 → Nat → W4 → W4} (ep : EncProg prog nk pidx pk sidx aidx gidx P)
    (hct : prog[cidx]? = some f_tinyjambu_aead_check_tag)
    (fn : Nat) (fd : FunDecl) (hprog : prog[fn]? = some fd) (hbody : fd.body = sivDecStmt nk pidx pk sidx aidx gidx cidx) (hp : fd.nparams = 8)
    (hv : fd.nvars = 17 + 5 * nk + 34) (ha : fd.allocs = [(9, 16 + 4 * nk), (10, 12)])
    (env : Env) (st : St) (x : Nat) (hx : x < env.size) (em el ec ecl ea eal en ek : Expr)
    (bo baseo oo : Nat) (XO : Array LByte) (bl basel ol : Nat) (XL : Array LByte) (bc basec coff : Nat) (XC : Array LByte) (ba basea aoff : Nat) (XA : Array LByte)
    (bn basen noff : Nat) (XN : Array LByte) (bk basek koff : Nat) (XK : Array LByte) (body tag2 ad nonce key : Bytes)
    (hem : evalE env em = .ok (mkPtr bo (baseo + oo), .pub)) (hel : evalE env el = .ok (mkPtr bl (basel + ol), .pub))
    (hec : evalE env ec = .ok (mkPtr bc (basec + coff), .pub)) (hecl : evalE env ecl = .ok (body.length + 8, .pub))
    (hea : evalE env ea = .ok (mkPtr ba (basea + aoff), .pub)) (heal : evalE env eal = .ok (ad.length, .pub))
    (hen : evalE env en = .ok (mkPtr bn (basen + noff), .pub)) (hek : evalE env ek = .ok (mkPtr bk (basek + koff), .pub))
    (hO : st.mem[bo]? = some ⟨XO, baseo⟩) (hltO : baseo + XO.size < ptrBase) (hroom : oo + body.length ≤ XO.size)
    (hL : st.mem[bl]? = some ⟨XL, basel⟩) (hltL : basel + XL.size < ptrBase) (hinL : ol + 8 ≤ XL.size) (halL : (basel + ol) % 8 = 0)
    (bC : Buf st.mem bc basec coff XC (body ++ tag2)) (bA : Buf st.mem ba basea aoff XA ad) (bN : Buf st.mem bn basen noff XN nonce) (bK : Buf st.mem bk basek koff XK key)
    (htl : tag2.length = 8) (hnl : nonce.length = 12) (hkl : key.length = 4 * nk)
    (hsep : bl ≠ bo ∧ bl ≠ bc ∧ bl ≠ ba ∧ bl ≠ bn ∧ bl ≠ bk) (hbon : bo ≠ bn) (hboa : bo ≠ ba) (hdisj : bc ≠ bo ∨ (bc = bo ∧ coff = oo)) (hsz : st.mem.size + 2 < 2 ^ 30) (hnk : nk ≤ 64) :
    RunsTo prog (.call (some x) fn [em, el, ec, ecl, ea, eal, en, ek]) env st (fun sig e s' => sig = .normal ∧
      (∃ l, l ≠ Lab.undef ∧ e = setVar env x
        (if sivTag (P (keyWords nk key)) pk nonce ad (sivBody (P (keyWords nk key)) pk (setup (P (keyWords nk key)) pk (sivNonce nonce tag2) 0xB0) body) = tag2
          then 0 else 4294967295, l)) ∧
      s'.ent = st.ent ∧ s'.mem.size = st.mem.size ∧
      (∃ blkO, s'.mem[bo]? = some blkO ∧ blkO.base = baseo ∧ blkO.bytes.size = XO.size ∧
        BytesV blkO.bytes oo ((sivBody (P (keyWords nk key)) pk (setup (P (keyWords nk key)) pk (sivNonce nonce tag2) 0xB0) body).map fun p =>
          if sivTag (P (keyWords nk key)) pk nonce ad (sivBody (P (keyWords nk key)) pk (setup (P (keyWords nk key)) pk (sivNonce nonce tag2) 0xB0) body) = tag2
            then p else 0) ∧
        (∀ p, (p < oo ∨ oo + body.length ≤ p) → ORel VEq blkO.bytes[p]? XO[p]?)) ∧
      ORel BlockEqV s'.mem[bl]? (some ⟨writeLE XL ol body.length .pub 8, basel⟩) ∧
      (∀ j, j ≠ bo → j ≠ bl → ORel BlockEqV s'.mem[j]? st.mem[j]?)) := by
  obtain ⟨fdS, hS1, hS2, hS3, hS4, hS5⟩ := ep.setup
  obtain ⟨fdA, hA1, hA2, hA3, hA4, hA5⟩ := ep.absorb
  obtain ⟨fdG, hG1, hG2, hG3, hG4, hG5⟩ := ep.gentag
  have hpk := ep.hpk
  have hboN := mem_lt hO; have hblN := mem_lt hL
  have hbcN := bC.lt; have hbaN := bA.lt; have hbnN := bN.lt; have hbkN := bK.lt
  have hclen : body.length + 8 < 18446744073709551616 := by have := bC.hd.1; have := bC.hlt; simp only [ptrBase, List.length_append] at *; omega
  generalize hkws : keyWords nk key = kws
  have hklen : kws.length = nk := by rw [← hkws]; exact keyWords_length nk key
  have hk : ∀ i, i < nk → kws[i]? = some (~~~ loadAt key (4 * i)) := fun i hi => by rw [← hkws]; exact keyWords_get nk key i hi
  let vs : List LVal := [(mkPtr bo (baseo + oo), .pub), (mkPtr bl (basel + ol), .pub), (mkPtr bc (basec + coff), .pub), (body.length + 8, .pub),
    (mkPtr ba (basea + aoff), .pub), (ad.length, .pub), (mkPtr bn (basen + noff), .pub), (mkPtr bk (basek + koff), .pub)]
  refine runs_call_some fd vs hprog (by simp only [evalArgs, hem, hel, hec, hecl, hea, heal, hen, hek]; rfl) (by rw [hp]; rfl) ?_
  have hent : enterFun fd vs st.mem = (setVar (setVar (vs ++ List.replicate (17 + 5 * nk + 34 - 8) (0, Lab.undef)).toArray 9 (mkPtr st.mem.size 0, .pub)) 10
        (mkPtr (st.mem.size + 1) 0, .pub),
      (st.mem.push { bytes := Array.replicate (16 + 4 * nk) (0, .undef), base := 0 }).push { bytes := Array.replicate 12 (0, .undef), base := 0 }) := by
    simp only [enterFun, ha, allocLocals, hp, hv, Array.size_push]
  rw [hbody, hent]
  obtain ⟨hE0s, hE0v, hE09, hE010⟩ := enter_env2 vs (17 + 5 * nk + 34 - 8) (mkPtr st.mem.size 0, .pub) (mkPtr (st.mem.size + 1) 0, .pub) rfl (by omega)
  generalize hE0 : setVar (setVar (vs ++ List.replicate (17 + 5 * nk + 34 - 8) (0, Lab.undef)).toArray 9 (mkPtr st.mem.size 0, .pub)) 10
    (mkPtr (st.mem.size + 1) 0, .pub) = E0 at hE0s hE0v hE09 hE010
  have e0_0 : E0[0]? = some (mkPtr bo (baseo + oo), .pub) := hE0v 0 _ rfl
  have e0_1 : E0[1]? = some (mkPtr bl (basel + ol), .pub) := hE0v 1 _ rfl
  have e0_2 : E0[2]? = some (mkPtr bc (basec + coff), .pub) := hE0v 2 _ rfl
  have e0_3 : E0[3]? = some (body.length + 8, .pub) := hE0v 3 _ rfl
  have e0_4 : E0[4]? = some (mkPtr ba (basea + aoff), .pub) := hE0v 4 _ rfl
  have e0_5 : E0[5]? = some (ad.length, .pub) := hE0v 5 _ rfl
  have e0_6 : E0[6]? = some (mkPtr bn (basen + noff), .pub) := hE0v 6 _ rfl
  have e0_7 : E0[7]? = some (mkPtr bk (basek + koff), .pub) := hE0v 7 _ rfl
  have hE0sz : E0.size = 17 + 5 * nk + 34 := by rw [hE0s]; omega
  generalize hmem1 : (st.mem.push { bytes := Array.replicate (16 + 4 * nk) (0, .undef), base := 0 }).push { bytes := Array.replicate 12 (0, .undef), base := 0 } = mem1
  have hm1lt : ∀ j, j < st.mem.size → mem1[j]? = st.mem[j]? := by
    intro j hj; rw [← hmem1, Array.getElem?_push, Array.getElem?_push]; simp only [Array.size_push, show ¬ j = st.mem.size + 1 from by omega, show ¬ j = st.mem.size from by omega, if_false]
  have hm1n : mem1[st.mem.size]? = some ⟨Array.replicate (16 + 4 * nk) (0, .undef), 0⟩ := by
    rw [← hmem1, Array.getElem?_push, Array.getElem?_push]; simp
  have hm1t : mem1[st.mem.size + 1]? = some ⟨Array.replicate 12 (0, .undef), 0⟩ := by
    rw [← hmem1, Array.getElem?_push]; simp
  have hm1sz : mem1.size = st.mem.size + 2 := by rw [← hmem1]; simp
  unfold sivDecStmt
  -- saved = m; clen ≥ 8; *mlen = clen - 8
  rw [seqs_cons_ne _ _ (by simp)]
  generalize hEa : setVar E0 8 (mkPtr bo (baseo + oo), Lab.pub) = Ea
  refine runs_seq (Q := fun e s => e = Ea ∧ s = { st with mem := mem1 }) (runs_assign _ (by simp only [evalE, e0_0, reduceCtorEq, if_false]) ⟨rfl, hEa, rfl⟩) ?_
  intro ea sa ⟨hea', hsa⟩; rw [hea', hsa]
  have eafr : ∀ y, y ≠ 8 → Ea[y]? = E0[y]? := fun y hy => by rw [← hEa]; exact get_set_ne _ _ _ _ (fun e => hy e.symm)
  have ea_8 : Ea[8]? = some (mkPtr bo (baseo + oo), .pub) := by rw [← hEa]; exact get_set_eq _ _ _ (by omega)
  have hEasz : Ea.size = 17 + 5 * nk + 34 := by rw [← hEa, size_setVar]; exact hE0sz
  rw [seqs_cons_ne _ _ (by simp)]
  refine runs_seq (Q := fun e s => e = Ea ∧ s = { st with mem := mem1, leak := Ev.br false :: st.leak }) ?_ ?_
  · refine runs_ite_false ?_ (runs_skip ⟨rfl, rfl, rfl⟩)
    have : ¬ body.length + 8 < 8 := by omega
    simp only [evalE, eafr 3 (by decide), e0_3, reduceCtorEq, if_false, castVal_u64_i32_lit 8 (by decide), BinOp.needsPub2, BinOp.needsPub1, Bool.false_and, Bool.or_self,
      Bool.false_eq_true, binVal, Ty.signed, this, decide_false, b2n, Lab.join_pub_pub]
  intro eb sb ⟨heb, hsb⟩; rw [heb, hsb]
  rw [seqs_cons_ne _ _ (by simp)]
  generalize hE1 : setVar Ea 13 (mkPtr bl (basel + ol), Lab.pub) = E1
  generalize hM0 : setBlock mem1 bl (writeLE XL ol (body.length + 8 - 8) .pub 8) = M0
  refine runs_seq (Q := fun e s => e = E1 ∧ s.mem = M0 ∧ s.ent = st.ent) (mlen_storeV 13 (by decide) bl basel ol XL (body.length + 8) (by rw [eafr 1 (by decide)]; exact e0_1)
    (by rw [eafr 3 (by decide)]; exact e0_3) (by show mem1[bl]? = _; rw [hm1lt bl hblN]; exact hL) hinL halL hltL (by omega) hclen (by omega) ⟨rfl, hE1, hM0, rfl⟩) ?_
  intro e1 st1 ⟨he1, hst1m, hst1e⟩
  rw [he1]
  have hM0lt : ∀ j, j ≠ bl → j < st.mem.size → M0[j]? = st.mem[j]? := by
    intro j hj hjn; rw [← hM0, getElem?_setBlock', if_neg hj]; exact hm1lt j hjn
  have hM0n : M0[st.mem.size]? = some ⟨Array.replicate (16 + 4 * nk) (0, .undef), 0⟩ := by rw [← hM0, getElem?_setBlock', if_neg (by omega)]; exact hm1n
  have hM0t : M0[st.mem.size + 1]? = some ⟨Array.replicate 12 (0, .undef), 0⟩ := by rw [← hM0, getElem?_setBlock', if_neg (by omega)]; exact hm1t
  have hM0l : M0[bl]? = some ⟨writeLE XL ol body.length .pub 8, basel⟩ := by
    rw [← hM0, getElem?_setBlock', if_pos rfl, hm1lt bl hblN, hL]; simp
  have hM0sz : M0.size = st.mem.size + 2 := by rw [← hM0, size_setBlock']; exact hm1sz
  have e1fr : ∀ y, y ≠ 13 → y ≠ 8 → E1[y]? = E0[y]? := fun y hy hy8 => by rw [← hE1, get_set_ne _ _ _ _ (fun e => hy e.symm)]; exact eafr y hy8
  have e1_8 : E1[8]? = some (mkPtr bo (baseo + oo), .pub) := by rw [← hE1, get_set_ne _ _ _ _ (by decide)]; exact ea_8
  have hE1sz : E1.size = 17 + 5 * nk + 34 := by rw [← hE1, size_setVar]; exact hEasz
  let g : AGeo := ⟨prog, pidx, nk, P, ep.hspec, st.mem.size, 0, st.ent, rfl, by simp only [ptrBase]; omega, by omega⟩
  have ki0 : KI g M0 (17 + 5 * nk + 34) kws E1 14 0 E1 st1 :=
    ⟨hE1sz, fun _ _ => rfl, ⟨_, by rw [hst1m]; exact hM0n, by show (Array.replicate (16 + 4 * nk) ((0 : UInt8), Lab.undef)).size = 16 + 4 * nk; simp,
      fun i v hi _ => absurd hi (by omega)⟩, by rw [hst1m]; exact OthLe.refl _ _, by rw [hst1m], hst1e⟩
  let dgK : DGeo g M0 := ⟨bk, basek, XK, by show bk ≠ st.mem.size; omega, by omega, bK.hlt, by rw [hM0lt bk (fun e => hsep.2.2.2.2 e.symm) hbkN]; exact bK.hm⟩
  let dgN : DGeo g M0 := ⟨bn, basen, XN, by show bn ≠ st.mem.size; omega, by omega, bN.hlt, by rw [hM0lt bn (fun e => hsep.2.2.2.1 e.symm) hbnN]; exact bN.hm⟩
  let dgA : DGeo g M0 := ⟨ba, basea, XA, by show ba ≠ st.mem.size; omega, by omega, bA.hlt, by rw [hM0lt ba (fun e => hsep.2.2.1 e.symm) hbaN]; exact bA.hm⟩
  refine key_words (g := g) dgK koff key bK.hd hkl hk (sv := 9) (t0 := 14) (by decide) (by decide) (by rw [e1fr 9 (by decide) (by decide)]; exact hE09)
    (by rw [e1fr 7 (by decide) (by decide)]; exact e0_7) (by show 14 + 5 * nk ≤ _; omega) _ (by simp) nk 0 (by show 0 + nk = nk; omega) E1 st1 ki0 ?_
  intro e2 st2 ki
  have hE2sz := ki.esz
  have e2fr : ∀ y, y < 13 → y ≠ 8 → e2[y]? = E0[y]? := fun y hy hy8 => by rw [ki.fr y (by omega), e1fr y (by omega) hy8]
  have e2_8 : e2[8]? = some (mkPtr bo (baseo + oo), .pub) := by rw [ki.fr 8 (by decide)]; exact e1_8
  have e2_9 : e2[9]? = some (mkPtr st.mem.size 0, .pub) := by rw [e2fr 9 (by decide) (by decide)]; exact hE09
  have e2_10 : e2[10]? = some (mkPtr (st.mem.size + 1) 0, .pub) := by rw [e2fr 10 (by decide) (by decide)]; exact hE010
  have mk : MK g M0 st2 kws := by
    obtain ⟨X, h1, h2, h3⟩ := ki.obj
    refine ⟨hklen, ⟨X, h1, h2, fun i v hv => h3 i v ?_ hv⟩, ki.oth, ki.msz, ki.ent⟩
    by_cases hi : i < nk
    · exact hi
    · rw [List.getElem?_eq_none (by omega)] at hv; cases hv
  simp only [seqs]
  have hes9 : evalE e2 (.var 9) = .ok (mkPtr g.bs g.baseS, .pub) := by
    show _ = Except.ok (mkPtr st.mem.size 0, Lab.pub); simp only [evalE, e2_9, reduceCtorEq, if_false]
  -- mlen back into variable 11
  have hbody64 : body.length < 18446744073709551616 := by omega
  obtain ⟨W, hW⟩ : ∃ W, W = writeLE XL ol body.length .pub 8 := ⟨_, rfl⟩
  have hWs : W.size = XL.size := by rw [hW, size_writeLE]
  have hM0l' : M0[bl]? = some ⟨W, basel⟩ := by rw [hW]; exact hM0l
  obtain ⟨XLa, hLa, hLas, _⟩ := oth_data (bs := st.mem.size) mk.oth bl (by omega) W basel 0 [] hM0l' ⟨by simp, fun k b hk => by simp at hk⟩
  have hLale : BytesLe XLa W := by
    have := mk.oth bl (by show bl ≠ st.mem.size; omega)
    rw [hLa, hM0l'] at this
    exact this.2
  generalize hE3 : setVar (setVar e2 (14 + 5 * nk) (body.length, Lab.pub)) 11 (body.length, Lab.pub) = E3
  refine runs_seq (Q := fun e s => e = E3 ∧ s.mem = st2.mem ∧ s.ent = st2.ent) ?_ ?_
  · refine runs_seq (Q := fun e s => e = setVar e2 (14 + 5 * nk) (body.length, .pub) ∧ s.mem = st2.mem ∧ s.ent = st2.ent) ?_ ?_
    · refine runs_load (mkPtr bl (basel + ol)) bl ol 8 (body.length, .pub) rfl (by simp only [evalE, e2fr 1 (by decide) (by decide), e0_1, reduceCtorEq, if_false])
        (resolve_mkPtr st2.mem bl ol 8 ⟨XLa, basel⟩ hLa (by show ol + 8 ≤ XLa.size; rw [hLas, hWs]; exact hinL) (show basel + ol < ptrBase from by omega) (fun _ => halL))
        (by rw [blockBytes_of hLa]; exact read_back64 ol body.length hinL hbody64 (hW ▸ hLale)) ⟨rfl, rfl, rfl, rfl⟩
    · intro e s ⟨he, hm, hen'⟩
      rw [he]
      exact runs_assign _ (by simp only [evalE, get_set_eq _ _ _ (show 14 + 5 * nk < e2.size from by omega), reduceCtorEq, if_false]) ⟨rfl, hE3, hm, hen'⟩
  intro e3 st3 ⟨he3, hm3, hent3⟩
  rw [he3]
  have e3fr : ∀ y, y ≠ 14 + 5 * nk → y ≠ 11 → E3[y]? = e2[y]? := fun y h1 h2 => by
    rw [← hE3, get_set_ne _ _ _ _ (fun e => h2 e.symm), get_set_ne _ _ _ _ (fun e => h1 e.symm)]
  have e3_11 : E3[11]? = some (body.length, .pub) := by rw [← hE3]; exact get_set_eq _ _ _ (by rw [size_setVar]; omega)
  have hE3sz : E3.size = 17 + 5 * nk + 34 := by rw [← hE3, size_setVar, size_setVar]; exact hE2sz
  have e3_9 : E3[9]? = some (mkPtr st.mem.size 0, .pub) := by rw [e3fr 9 (by omega) (by decide)]; exact e2_9
  have e3_10 : E3[10]? = some (mkPtr (st.mem.size + 1) 0, .pub) := by rw [e3fr 10 (by omega) (by decide)]; exact e2_10
  have e3_6 : E3[6]? = some (mkPtr bn (basen + noff), .pub) := by rw [e3fr 6 (by omega) (by decide), e2fr 6 (by decide) (by decide)]; exact e0_6
  have e3_2 : E3[2]? = some (mkPtr bc (basec + coff), .pub) := by rw [e3fr 2 (by omega) (by decide), e2fr 2 (by decide) (by decide)]; exact e0_2
  have mk3 : MK g M0 st3 kws := ⟨mk.klen, by rw [hm3]; exact mk.obj, by rw [hm3]; exact mk.oth, by rw [hm3]; exact mk.msz, by rw [hent3]; exact mk.ent⟩
  -- the derived nonce in the local buffer
  obtain ⟨n4, hn4⟩ : ∃ n4, n4 = nonce.take 4 := ⟨_, rfl⟩
  have hn4l : n4.length = 4 := by rw [hn4]; simp [hnl]
  have hn4d : BytesV XN noff n4 := by
    have := bN.hd; rw [← List.take_append_drop 4 nonce, ← hn4] at this; exact bytesV_prefix this
  have htag2d : BytesV XC (coff + body.length) tag2 := by
    have := bytesV_drop bC.hd body.length (by simp)
    simpa using this
  have hM0c : M0[bc]? = some ⟨XC, basec⟩ := by rw [hM0lt bc (fun e => hsep.2.1 e.symm) hbcN]; exact bC.hm
  refine runs_seq (Q := fun e s => e = setVar E3 (15 + 5 * nk) (mkPtr (st.mem.size + 1) 0, .pub) ∧ ∃ XD1, MK g (setBlock M0 (st.mem.size + 1) XD1) s kws ∧
      XD1.size = 12 ∧ BytesV XD1 0 n4) ?_ ?_
  · refine runs_seq (Q := fun e s => e = E3 ∧ ∃ XD1, MK g (setBlock M0 (st.mem.size + 1) XD1) s kws ∧ XD1.size = 12 ∧ BytesV XD1 0 n4) ?_ ?_
    · refine mk_memcpy mk3 (.var 10) (.var 6) (.cast .u64 .i32 (.lit 4)) (st.mem.size + 1) 0 0 (Array.replicate 12 (0, .undef)) bn basen noff XN n4
        (by show st.mem.size + 1 ≠ st.mem.size; omega) (by show bn ≠ st.mem.size; omega) hM0t
        (by rw [hM0lt bn (fun e => hsep.2.2.2.1 e.symm) hbnN]; exact bN.hm) hn4d (by omega) (by simp; omega) (by simp [ptrBase]) bN.hlt
        (by simp only [evalE, e3_10, reduceCtorEq, if_false, Nat.add_zero]) (by simp only [evalE, e3_6, reduceCtorEq, if_false])
        (by simp only [evalE, castVal_u64_i32_lit 4 (by decide), hn4l]) ?_
      intro s' XD' h1 h2 h3 _
      exact ⟨rfl, rfl, XD', h1, by rw [h2]; simp, h3⟩
    · intro e s ⟨he, h⟩
      rw [he]
      exact runs_assign _ (by simp only [evalE, e3_10, reduceCtorEq, if_false]) ⟨rfl, rfl, h⟩
  intro e7 st7 ⟨he7, XD1, mk7, hXD1s, hXD1d⟩
  rw [he7]
  have fr7 : ∀ y, y ≠ 15 + 5 * nk → (setVar E3 (15 + 5 * nk) (mkPtr (st.mem.size + 1) 0, Lab.pub))[y]? = E3[y]? := fun y hy => get_set_ne _ _ _ _ (fun e => hy e.symm)
  have hp104 : (mkPtr (st.mem.size + 1) 0 + 4) % 18446744073709551616 = mkPtr (st.mem.size + 1) (0 + 4) := ptr_off _ 0 4 (by omega) (by simp [ptrBase])
  have he104 : ∀ e : Env, e[10]? = some (mkPtr (st.mem.size + 1) 0, .pub) → evalE e (.bin .add .u64 (.var 10) (.lit 4)) = .ok (mkPtr (st.mem.size + 1) (0 + 4), .pub) := by
    intro e h
    simp only [evalE, h, reduceCtorEq, if_false, BinOp.needsPub2, BinOp.needsPub1, Bool.false_and, Bool.or_self, Bool.false_eq_true, binVal, Ty.modulus, Lab.join_pub_pub, hp104]
  have hptr2 : (mkPtr bc (basec + coff) + body.length) % 18446744073709551616 = mkPtr bc (basec + (coff + body.length)) := by
    rw [ptr_off bc _ body.length (by omega) (by have := bC.hd.1; have := bC.hlt; rw [List.length_append] at *; omega), Nat.add_assoc]
  have hM1t : (setBlock M0 (st.mem.size + 1) XD1)[st.mem.size + 1]? = some ⟨XD1, 0⟩ := by rw [getElem?_setBlock', if_pos rfl, hM0t]; rfl
  refine runs_seq (Q := fun e s => e = setVar (setVar E3 (15 + 5 * nk) (mkPtr (st.mem.size + 1) 0, .pub)) (16 + 5 * nk) (mkPtr (st.mem.size + 1) (0 + 4), .pub) ∧
      ∃ XD2, MK g (setBlock M0 (st.mem.size + 1) XD2) s kws ∧ XD2.size = 12 ∧ BytesV XD2 0 (sivNonce nonce tag2)) ?_ ?_
  · refine runs_seq (Q := fun e s => e = setVar E3 (15 + 5 * nk) (mkPtr (st.mem.size + 1) 0, .pub) ∧
        ∃ XD2, MK g (setBlock M0 (st.mem.size + 1) XD2) s kws ∧ XD2.size = 12 ∧ BytesV XD2 0 (sivNonce nonce tag2)) ?_ ?_
    · refine mk_memcpy mk7 (.bin .add .u64 (.var 10) (.lit 4)) (.bin .add .u64 (.var 2) (.var 11)) (.cast .u64 .i32 (.lit 8)) (st.mem.size + 1) 0 4 XD1 bc basec (coff + body.length) XC tag2
        (by show st.mem.size + 1 ≠ st.mem.size; omega) (by show bc ≠ st.mem.size; omega) hM1t
        (by rw [getElem?_setBlock', if_neg (by omega)]; exact hM0c) htag2d (by omega) (by rw [hXD1s, htl]; decide) (by rw [hXD1s]; simp [ptrBase]) bC.hlt
        (he104 _ (by rw [fr7 10 (by omega)]; exact e3_10))
        (by
          simp only [evalE, fr7 2 (by omega), fr7 11 (by omega), e3_2, e3_11, reduceCtorEq, if_false, BinOp.needsPub2, BinOp.needsPub1, Bool.false_and, Bool.or_self, Bool.false_eq_true, binVal,
            Ty.modulus, Lab.join_pub_pub, hptr2])
        (by simp only [evalE, castVal_u64_i32_lit 8 (by decide), htl]) ?_
      intro s' XD' h1 h2 h3 h4
      rw [setBlock_setBlock _ _ _ _ ⟨Array.replicate 12 (0, .undef), 0⟩ hM0t] at h1
      refine ⟨rfl, rfl, XD', h1, by rw [h2]; exact hXD1s, ?_⟩
      refine sivNonce_bytes ?_ h3 hnl
      rw [← hn4]
      refine ⟨by rw [h2, hXD1s, hn4l]; decide, fun k b hk => ?_⟩
      have hk4 : k < 4 := by
        by_cases hh : k < 4
        · exact hh
        · rw [List.getElem?_eq_none (by omega)] at hk; cases hk
      obtain ⟨l, hx, hl⟩ := hXD1d.2 k b hk
      exact ⟨l, by rw [h4 _ (Or.inl (by omega))]; exact hx, hl⟩
    · intro e s ⟨he, h⟩
      rw [he]
      exact runs_assign _ (he104 _ (by rw [fr7 10 (by omega)]; exact e3_10)) ⟨rfl, rfl, h⟩
  intro e8 st8 ⟨he8, XD2, mk8, hXD2s, hXD2d⟩
  generalize hM3 : setBlock M0 (st.mem.size + 1) XD2 = M3 at mk8
  have hM3t : M3[st.mem.size + 1]? = some ⟨XD2, 0⟩ := by rw [← hM3, getElem?_setBlock', if_pos rfl, hM0t]; rfl
  have hM3ne : ∀ j, j ≠ st.mem.size + 1 → M3[j]? = M0[j]? := fun j hj => by rw [← hM3, getElem?_setBlock', if_neg hj]
  have hM3sz : M3.size = st.mem.size + 2 := by rw [← hM3, size_setBlock']; exact hM0sz
  have fr8 : ∀ y, y ≠ 15 + 5 * nk → y ≠ 16 + 5 * nk → e8[y]? = E3[y]? := fun y h1 h2 => by
    rw [he8, get_set_ne _ _ _ _ (fun e => h2 e.symm)]; exact fr7 y h1
  have hE8sz : e8.size = 17 + 5 * nk + 34 := by rw [he8, size_setVar, size_setVar]; exact hE3sz
  have e8_9 : e8[9]? = some (mkPtr st.mem.size 0, .pub) := by rw [fr8 9 (by omega) (by omega)]; exact e3_9
  have hes9' : evalE e8 (.var 9) = .ok (mkPtr g.bs g.baseS, .pub) := by
    show _ = Except.ok (mkPtr st.mem.size 0, Lab.pub); simp only [evalE, e8_9, reduceCtorEq, if_false]
  let dgL : DGeo g M3 := ⟨st.mem.size + 1, 0, XD2, by show st.mem.size + 1 ≠ st.mem.size; omega, by omega, by rw [hXD2s]; simp [ptrBase], hM3t⟩
  -- keystream pass
  refine runs_seq (Q := fun e s => e = e8 ∧ MI g M3 s (setup (P kws) pk (sivNonce nonce tag2) 0xB0) kws) ?_ ?_
  · refine (setup_call g dgL pk hpk sidx fdS hS1 hS2 hS3 hS4 hS5 e8 st8 (.var 9) (.var 10) (.cast .u8 .i32 (.lit 176)) kws 0 (sivNonce nonce tag2) 0xB0 mk8
      hes9' (by show _ = Except.ok (mkPtr (st.mem.size + 1) (0 + 0), Lab.pub); simp only [evalE, fr8 10 (by omega) (by omega), e3_10, reduceCtorEq, if_false]) rfl hXD2d
      (by simp [sivNonce, hnl, htl])).weaken ?_
    intro sig e s ⟨h1, h2, h3⟩
    exact ⟨h1, h2, h3⟩
  intro e9 st9 ⟨he9, mi9⟩
  rw [he9]
  generalize hs0 : setup (P kws) pk (sivNonce nonce tag2) 0xB0 = s0 at mi9
  generalize hE5 : setVar e8 3 (body.length, Lab.pub) = E5
  refine runs_seq (Q := fun e s => e = E5 ∧ s = st9) (runs_assign (body.length, .pub) (by
    simp only [evalE, fr8 11 (by omega) (by omega), e3_11, reduceCtorEq, if_false]) ⟨rfl, hE5, rfl⟩) ?_
  intro e5 st5 ⟨he5, hst5⟩; rw [he5, hst5]
  have e5fr : ∀ y, y ≠ 3 → y ≠ 15 + 5 * nk → y ≠ 16 + 5 * nk → E5[y]? = E3[y]? := fun y hy h1 h2 => by rw [← hE5, get_set_ne _ _ _ _ (fun e => hy e.symm)]; exact fr8 y h1 h2
  have e5_3 : E5[3]? = some (body.length, .pub) := by rw [← hE5]; exact get_set_eq _ _ _ (by omega)
  have hE5sz : E5.size = 17 + 5 * nk + 34 := by rw [← hE5, size_setVar]; exact hE8sz
  have e5old : ∀ y, y < 11 → y ≠ 3 → y ≠ 8 → E5[y]? = E0[y]? := fun y hy h3 h8 => by rw [e5fr y h3 (by omega) (by omega), e3fr y (by omega) (by omega), e2fr y (by omega) h8]
  let eg : EGeo g := ⟨bo, baseo, oo, XO.size, bc, basec, coff, XC.size, by show bo ≠ st.mem.size; omega, by show bc ≠ st.mem.size; omega, by omega, by omega, hltO, bC.hlt, hdisj, XO, M3⟩
  have hM3o : M3[bo]? = some ⟨XO, baseo⟩ := by rw [hM3ne bo (by omega), hM0lt bo (fun e => hsep.1 e.symm) hboN]; exact hO
  have hM3c : M3[bc]? = some ⟨XC, basec⟩ := by rw [hM3ne bc (by omega)]; exact hM0c
  let kp : List (Nat × Nat) := [(1, mkPtr bl (basel + ol)), (4, mkPtr ba (basea + aoff)), (5, ad.length), (6, mkPtr bn (basen + noff)), (8, mkPtr bo (baseo + oo)),
    (10, mkPtr (st.mem.size + 1) 0), (11, body.length)]
  have hkp : KeepOk12 kp := by
    intro xv hxv
    simp only [kp, List.mem_cons, List.mem_nil_iff, or_false] at hxv
    rcases hxv with h | h | h | h | h | h | h <;> rw [h] <;> simp
  have kp5 : PubVars kp E5 := by
    intro xv hxv
    simp only [kp, List.mem_cons, List.mem_nil_iff, or_false] at hxv
    rcases hxv with h | h | h | h | h | h | h <;> rw [h]
    · rw [e5old 1 (by decide) (by decide) (by decide)]; exact e0_1
    · rw [e5old 4 (by decide) (by decide) (by decide)]; exact e0_4
    · rw [e5old 5 (by decide) (by decide) (by decide)]; exact e0_5
    · rw [e5old 6 (by decide) (by decide) (by decide)]; exact e0_6
    · rw [e5fr 8 (by decide) (by omega) (by omega), e3fr 8 (by omega) (by decide)]; exact e2_8
    · rw [e5fr 10 (by decide) (by omega) (by omega)]; exact e3_10
    · rw [e5fr 11 (by decide) (by omega) (by omega)]; exact e3_11
  have kpget : ∀ {e : Env}, PubVars kp e → e[1]? = some (mkPtr bl (basel + ol), .pub) ∧ e[4]? = some (mkPtr ba (basea + aoff), .pub) ∧ e[5]? = some (ad.length, .pub) ∧
      e[6]? = some (mkPtr bn (basen + noff), .pub) ∧ e[8]? = some (mkPtr bo (baseo + oo), .pub) ∧ e[10]? = some (mkPtr (st.mem.size + 1) 0, .pub) ∧ e[11]? = some (body.length, .pub) := fun h =>
    ⟨h (1, _) List.mem_cons_self, h (4, _) (List.mem_cons_of_mem _ List.mem_cons_self), h (5, _) (List.mem_cons_of_mem _ (List.mem_cons_of_mem _ List.mem_cons_self)),
     h (6, _) (List.mem_cons_of_mem _ (List.mem_cons_of_mem _ (List.mem_cons_of_mem _ List.mem_cons_self))),
     h (8, _) (List.mem_cons_of_mem _ (List.mem_cons_of_mem _ (List.mem_cons_of_mem _ (List.mem_cons_of_mem _ List.mem_cons_self)))),
     h (10, _) (List.mem_cons_of_mem _ (List.mem_cons_of_mem _ (List.mem_cons_of_mem _ (List.mem_cons_of_mem _ (List.mem_cons_of_mem _ List.mem_cons_self))))),
     h (11, _) (List.mem_cons_of_mem _ (List.mem_cons_of_mem _ (List.mem_cons_of_mem _ (List.mem_cons_of_mem _ (List.mem_cons_of_mem _ (List.mem_cons_of_mem _ List.mem_cons_self))))))⟩
  have di0 : DI g eg M3 (17 + 5 * nk + 34) kp E5 st9 s0 kws [] body tag2 :=
    ⟨⟨hE5sz, by rw [e5fr 9 (by decide) (by omega) (by omega)]; exact e3_9, mi9.klen, mi9.obj, mi9.oth, mi9.msz, mi9.ent⟩, by rw [e5old 0 (by decide) (by decide) (by decide)]; exact e0_0,
     by rw [e5old 2 (by decide) (by decide) (by decide)]; exact e0_2, e5_3, kp5, ⟨XC, hM3c, rfl, by simpa using bC.hd⟩,
     ⟨XO, hM3o, rfl, ⟨by show oo + 0 ≤ XO.size; omega, fun k b hk => by simp at hk⟩, fun _ _ => rfl⟩, fun _ _ => rfl, by show oo + 0 + body.length ≤ XO.size; omega⟩
  refine runs_seq (Q := fun e s => ∃ M4, DI g eg M4 (17 + 5 * nk + 34) kp e s (sivWordsS (P kws) pk s0 body) kws ([] ++ sivWordsC (P kws) pk s0 body) (absRest body) tag2)
    (sivdec_loop eg (by omega) pk hpk hkp body M3 E5 st9 s0 [] di0) ?_
  intro e6 st6 ⟨M4, di6⟩
  rw [List.nil_append] at di6
  refine runs_seq (Q := fun e s => ∃ M5 sF, DF g eg M5 (17 + 5 * nk + 34) kp e s sF kws
      (sivWordsC (P kws) pk s0 body ++ sivBody (P kws) pk (sivWordsS (P kws) pk s0 body) (absRest body)) tag2) (sivdec_tail eg (by omega) pk hpk hkp di6 (absRest_lt body)) ?_
  intro e10 st10 ⟨M5, sF, df⟩
  rw [← sivBody_split] at df
  generalize hpt : sivBody (P kws) pk s0 body = pt at df
  have hptl : pt.length = body.length := by rw [← hpt]; exact sivBody_length _ _ _ _
  obtain ⟨XO5, hM5o, hXO5s, hdo5, hout5⟩ := df.ho
  obtain ⟨XC5, hM5c, hXC5s, hdc5⟩ := df.hm
  have hoth5 : ∀ j, j ≠ bo → M5[j]? = M3[j]? := df.oth0
  have hM5t : M5[st.mem.size + 1]? = some ⟨XD2, 0⟩ := by rw [hoth5 _ (by omega)]; exact hM3t
  have hk10 := kpget df.keep
  have h109 : e10[9]? = some (mkPtr st.mem.size 0, .pub) := df.ai.e0
  have h102 : e10[2]? = some (mkPtr bc (basec + (coff + pt.length)), .pub) := df.e2
  have hes9'' : evalE e10 (.var 9) = .ok (mkPtr g.bs g.baseS, .pub) := by
    show _ = Except.ok (mkPtr st.mem.size 0, Lab.pub); simp only [evalE, h109, reduceCtorEq, if_false]
  have mk10 : MK g M5 st10 kws := (⟨df.ai.klen, df.ai.obj, df.ai.oth, df.ai.msz, df.ai.ent⟩ : MI g M5 st10 sF kws).toMK
  -- the tag over nonce, associated data and the recovered plaintext
  let dgN5 : DGeo g M5 := ⟨bn, basen, XN, by show bn ≠ st.mem.size; omega, by omega, bN.hlt,
    by rw [hoth5 bn (fun e => hbon e.symm), hM3ne bn (by omega), hM0lt bn (fun e => hsep.2.2.2.1 e.symm) hbnN]; exact bN.hm⟩
  let dgA5 : DGeo g M5 := ⟨ba, basea, XA, by show ba ≠ st.mem.size; omega, by omega, bA.hlt,
    by rw [hoth5 ba (fun e => hboa e.symm), hM3ne ba (by omega), hM0lt ba (fun e => hsep.2.2.1 e.symm) hbaN]; exact bA.hm⟩
  let dgP5 : DGeo g M5 := ⟨bo, baseo, XO5, by show bo ≠ st.mem.size; omega, by omega, by rw [hXO5s]; exact hltO, hM5o⟩
  refine runs_seq (Q := fun e s => e = e10 ∧ MI g M5 s (setup (P kws) pk nonce 0x90) kws) ?_ ?_
  · refine (setup_call g dgN5 pk hpk sidx fdS hS1 hS2 hS3 hS4 hS5 e10 st10 (.var 9) (.var 6) (.cast .u8 .i32 (.lit 144)) kws noff nonce 0x90 mk10
      hes9'' (by show _ = Except.ok (mkPtr bn (basen + noff), Lab.pub); simp only [evalE, hk10.2.2.2.1, reduceCtorEq, if_false]) rfl bN.hd hnl).weaken ?_
    intro sig e s ⟨h1, h2, h3⟩
    exact ⟨h1, h2, h3⟩
  intro e11 st11 ⟨he11, mi11⟩
  rw [he11]
  refine runs_seq (Q := fun e s => e = e10 ∧ MI g M5 s (absorbData (P kws) 0x30 5 (setup (P kws) pk nonce 0x90) ad) kws) ?_ ?_
  · refine (absorb_call g dgA5 aidx fdA hA1 hA2 hA3 hA4 hA5 e10 st11 (.var 9) (.var 4) (.var 5) (.cast .u8 .i32 (.lit 48)) (.cast .u32 .i32 (.lit 5)) _ kws aoff ad 0x30 5 mi11
      hes9'' (by show _ = Except.ok (mkPtr ba (basea + aoff), Lab.pub); simp only [evalE, hk10.2.1, reduceCtorEq, if_false])
      (by simp only [evalE, hk10.2.2.1, reduceCtorEq, if_false]) rfl rfl bA.hd (by decide)).weaken ?_
    intro sig e s ⟨h1, h2, h3⟩
    exact ⟨h1, h2, h3⟩
  intro e12 st12 ⟨he12, mi12⟩
  rw [he12]
  refine runs_seq (Q := fun e s => e = e10 ∧ MI g M5 s (absorbData (P kws) 0x50 pk (absorbData (P kws) 0x30 5 (setup (P kws) pk nonce 0x90) ad) pt) kws) ?_ ?_
  · refine (absorb_call g dgP5 aidx fdA hA1 hA2 hA3 hA4 hA5 e10 st12 (.var 9) (.var 8) (.var 11) (.cast .u8 .i32 (.lit 80)) (rc pk) _ kws oo pt 0x50 pk mi12
      hes9'' (by show _ = Except.ok (mkPtr bo (baseo + oo), Lab.pub); simp only [evalE, hk10.2.2.2.2.1, reduceCtorEq, if_false])
      (by simp only [evalE, hk10.2.2.2.2.2.2, reduceCtorEq, if_false, hptl]) rfl (evalE_rc e10 pk (by omega)) hdo5 (by omega)).weaken ?_
    intro sig e s ⟨h1, h2, h3⟩
    exact ⟨h1, h2, h3⟩
  intro e13 st13 ⟨he13, mi13⟩
  rw [he13]
  generalize hsT : absorbData (P kws) 0x50 pk (absorbData (P kws) 0x30 5 (setup (P kws) pk nonce 0x90) ad) pt = sT at mi13
  refine runs_seq (Q := fun e s => e = e10 ∧ ∃ XT sG, MI g (setBlock M5 (st.mem.size + 1) XT) s sG kws ∧ XT.size = 12 ∧ BytesV XT 0 (genTag (P kws) pk sT)) ?_ ?_
  · refine (gentag_call g pk hpk gidx fdG hG1 hG2 hG3 hG4 hG5 e10 st13 (.var 9) (.var 10) sT kws (st.mem.size + 1) 0 0 XD2
      (by show st.mem.size + 1 ≠ st.mem.size; omega) (by omega) hM5t (by rw [hXD2s]; simp [ptrBase]) (by rw [hXD2s]; decide) mi13 hes9''
      (by simp only [evalE, hk10.2.2.2.2.2.1, reduceCtorEq, if_false])).weaken ?_
    intro sig e s ⟨h1, h2, XT, h3, h4, h5, _⟩
    exact ⟨h1, h2, XT, _, h3, by rw [h4]; exact hXD2s, h5⟩
  intro e14 st14 ⟨he14, XT, sG, mi14, hXTs, htag⟩
  rw [he14]
  generalize htagv : genTag (P kws) pk sT = tag at htag
  have htagl : tag.length = 8 := by rw [← htagv]; simp [genTag, store32]
  -- the comparison, the result
  have hoth14 : ∀ j, j ≠ st.mem.size → ORel BlockLe st14.mem[j]? (setBlock M5 (st.mem.size + 1) XT)[j]? := mi14.oth
  have hM6 : ∀ j, j ≠ st.mem.size + 1 → (setBlock M5 (st.mem.size + 1) XT)[j]? = M5[j]? := fun j hj => by rw [getElem?_setBlock', if_neg hj]
  have hM6t : (setBlock M5 (st.mem.size + 1) XT)[st.mem.size + 1]? = some ⟨XT, 0⟩ := by rw [getElem?_setBlock', if_pos rfl, hM5t]; rfl
  obtain ⟨XPa, hPa, hPas, hPad⟩ := oth_data (bs := st.mem.size) (mem := st14.mem) (M := setBlock M5 (st.mem.size + 1) XT) hoth14 bo (by omega) XO5 baseo oo pt
    (by rw [hM6 bo (by omega)]; exact hM5o) hdo5
  obtain ⟨XTa, hTa, hTas, hTad⟩ := oth_data (bs := st.mem.size) (mem := st14.mem) (M := setBlock M5 (st.mem.size + 1) XT) hoth14 (st.mem.size + 1) (by omega) XT 0 0 tag hM6t htag
  obtain ⟨XCa, hCa, hCas, hCad⟩ := oth_data (bs := st.mem.size) (mem := st14.mem) (M := setBlock M5 (st.mem.size + 1) XT) hoth14 bc (by omega) XC5 basec (coff + pt.length) tag2
    (by rw [hM6 bc (by omega)]; exact hM5c) hdc5
  have hmsz14 : st14.mem.size = st.mem.size + 2 := by
    rw [mi14.msz, size_setBlock']
    have h1 := hoth5 (st.mem.size + 1) (by omega)
    have h2 := hoth5 (st.mem.size + 2) (by omega)
    rw [hM3t] at h1
    rw [Array.getElem?_eq_none (show M3.size ≤ st.mem.size + 2 by omega)] at h2
    have a : st.mem.size + 1 < M5.size := mem_lt h1
    have b : M5.size ≤ st.mem.size + 2 := by
      by_cases h : M5.size ≤ st.mem.size + 2
      · exact h
      · rw [Array.getElem?_eq_getElem (show st.mem.size + 2 < M5.size by omega)] at h2; cases h2
    omega
  have hsz10 : e10.size = 17 + 5 * nk + 34 := df.ai.esz
  refine runs_seq (Q := fun e s => ∃ l, l ≠ Lab.undef ∧ e[17 + 5 * nk + 33]? = some (if tag = tag2 then 0 else 4294967295, l) ∧ s.ent = st.ent ∧ s.mem.size = st.mem.size + 2 ∧
      (∃ blk', s.mem[bo]? = some blk' ∧ blk'.base = baseo ∧ blk'.bytes.size = XPa.size ∧ BytesV blk'.bytes oo (pt.map fun p => if tag = tag2 then p else 0) ∧
        (∀ q, (q < oo ∨ oo + pt.length ≤ q) → ORel VEq blk'.bytes[q]? XPa[q]?)) ∧
      (∀ j, j ≠ bo → ORel BlockEqV s.mem[j]? st14.mem[j]?)) ?_ ?_
  · refine (check_tag_callV prog cidx hct e10 st14 (17 + 5 * nk + 33) (by rw [hsz10]; omega) (.var 8) (.var 11) (.var 10) (.var 2) (.cast .u64 .i32 (.lit 8))
      pt tag tag2 (by rw [htagl, htl]) bo oo (st.mem.size + 1) 0 bc (coff + pt.length) XPa XTa XCa baseo 0 basec hPa hTa hCa
      hPad hTad hCad (by rw [hPas, hXO5s]; exact hltO) (by rw [hTas, hXTs]; simp [ptrBase]) (by rw [hCas, hXC5s]; exact bC.hlt) (by rw [hmsz14]; omega)
      (by simp only [evalE, hk10.2.2.2.2.1, reduceCtorEq, if_false])
      (by simp only [evalE, hk10.2.2.2.2.2.2, reduceCtorEq, if_false, hptl])
      (by simp only [evalE, hk10.2.2.2.2.2.1, reduceCtorEq, if_false, Nat.add_zero])
      (by simp only [evalE, h102, reduceCtorEq, if_false])
      (by simp only [evalE, castVal_u64_i32_lit 8 (by decide), htagl])).weaken ?_
    intro sig e s ⟨h1, ⟨l, hl, he⟩, h3, h4, h5, h6⟩
    exact ⟨h1, l, hl, by rw [he]; exact get_set_eq _ _ _ (by rw [hsz10]; omega), by rw [h3, mi14.ent], by rw [h4, hmsz14], h5, h6⟩
  intro e15 st15 ⟨l, hl, he15, hent15, hmsz15, ⟨blkO, hbO, hbOb, hbOs, hbOd, hbOo⟩, hoth15⟩
  refine runs_ret_some (if tag = tag2 then 0 else 4294967295, l) (by simp only [evalE, he15, hl, if_false]) ?_
  -- back in the caller
  have hlk : ∀ j, j < st.mem.size → (st15.mem.extract 0 st.mem.size)[j]? = st15.mem[j]? := by
    intro j hj
    rw [Array.getElem?_extract, hmsz15]
    have : j < min st.mem.size (st.mem.size + 2) - 0 := by omega
    simp only [this, if_true, Nat.zero_add]
  have hexs : (st15.mem.extract 0 st.mem.size).size = st.mem.size := by rw [Array.size_extract, hmsz15]; omega
  have hout5' : ∀ p, p < oo ∨ oo + pt.length ≤ p → XO5[p]? = XO[p]? := hout5
  have hPale : BytesLe XPa XO5 := by
    have := hoth14 bo (by omega)
    rw [hPa, hM6 bo (by omega), hM5o] at this
    exact this.2
  have htagm : sivTag (P kws) pk nonce ad pt = tag := by
    unfold sivTag
    simp only []
    rw [hsT, htagv]
  refine ⟨_, rfl, trivial, ⟨l, hl, ?_⟩, hent15, hexs, ⟨blkO, by show (st15.mem.extract 0 st.mem.size)[bo]? = _; rw [hlk bo hboN]; exact hbO, hbOb, by rw [hbOs, hPas, hXO5s], ?_, fun q hq => ?_⟩, ?_, fun j hjo hjl => ?_⟩
  · rw [htagm]
  · rw [htagm]; exact hbOd
  · rw [← hptl] at hq
    have h1 := hbOo q hq
    have h2 : ORel VEq XPa[q]? XO5[q]? := orel_map (R := VLe) (S := VEq) (fun _ _ h => VLe.toVEq h) (hPale q)
    rw [hout5' q hq] at h2
    exact orel_trans (R := VEq) (fun _ _ _ p q => VEq.trans p q) h1 h2
  · show ORel BlockEqV (st15.mem.extract 0 st.mem.size)[bl]? _
    rw [hlk bl hblN]
    rw [← hW]
    have h1 := hoth15 bl (fun e => hsep.1 e)
    have h2 : ORel BlockLe st14.mem[bl]? (some ⟨W, basel⟩) := by
      have := hoth14 bl (by omega)
      rw [hM6 bl (by omega), hoth5 bl hsep.1, hM3ne bl (by omega), hM0l'] at this; exact this
    exact orel_trans (R := BlockEqV) (fun _ _ _ p q => BlockEqV.trans p q) h1 (orel_map (R := BlockLe) (S := BlockEqV) (fun _ _ h => BlockLe.toEqV h) h2)
  · show ORel BlockEqV (st15.mem.extract 0 st.mem.size)[j]? st.mem[j]?
    by_cases hjn : j < st.mem.size
    · rw [hlk j hjn]
      have h1 := hoth15 j hjo
      have h2 : ORel BlockLe st14.mem[j]? st.mem[j]? := by
        have := hoth14 j (by omega)
        rw [hM6 j (by omega), hoth5 j hjo, hM3ne j (by omega), hM0lt j hjl hjn] at this; exact this
      exact orel_trans (R := BlockEqV) (fun _ _ _ p q => BlockEqV.trans p q) h1 (orel_map (R := BlockLe) (S := BlockEqV) (fun _ _ h => BlockLe.toEqV h) h2)
    · rw [Array.getElem?_eq_none (by rw [hexs]; omega), Array.getElem?_eq_none (by omega)]
      trivial

/-- **`tinyjambu_*_siv_decrypt` with `clen < 8`**: the result is -1 and memory is untouched (nothing is written, not even `*mlen`). -/
theorem sivdecrypt_call_short {prog : Program} {nk pidx pk sidx aidx gidx cidx : Nat}
    (fn : Nat) (fd : FunDecl) (hprog : prog[fn]? = some fd) (hbody : fd.body = sivDecStmt nk pidx pk sidx aidx gidx cidx) (hp : fd.nparams = 8)
    (hv : fd.nvars = 17 + 5 * nk + 34) (ha : fd.allocs = [(9, 16 + 4 * nk), (10, 12)])
    (env : Env) (st : St) (x : Nat) (args : List Expr) (vs : List LVal) (hargs : evalArgs env args = .ok vs) (hlen : vs.length = 8)
    (p0 : Nat) (l0 : Lab) (hl0 : l0 ≠ Lab.undef) (h0 : vs[0]? = some (p0, l0)) (clen : Nat) (h3 : vs[3]? = some (clen, .pub)) (hclen : clen < 8) :
    RunsTo prog (.call (some x) fn args) env st (fun sig e s' => sig = .normal ∧ e = setVar env x (4294967295, .pub) ∧ s'.mem = st.mem ∧ s'.ent = st.ent) := by
  refine runs_call_some fd vs hprog hargs (by rw [hp]; exact hlen) ?_
  have hent : enterFun fd vs st.mem = (setVar (setVar (vs ++ List.replicate (17 + 5 * nk + 34 - 8) (0, Lab.undef)).toArray 9 (mkPtr st.mem.size 0, .pub)) 10
        (mkPtr (st.mem.size + 1) 0, .pub),
      (st.mem.push { bytes := Array.replicate (16 + 4 * nk) (0, .undef), base := 0 }).push { bytes := Array.replicate 12 (0, .undef), base := 0 }) := by
    simp only [enterFun, ha, allocLocals, hp, hv, Array.size_push]
  rw [hbody, hent]
  obtain ⟨hE0s, hE0v, _, _⟩ := enter_env2 vs (17 + 5 * nk + 34 - 8) (mkPtr st.mem.size 0, .pub) (mkPtr (st.mem.size + 1) 0, .pub) hlen (by omega)
  generalize setVar (setVar (vs ++ List.replicate (17 + 5 * nk + 34 - 8) (0, Lab.undef)).toArray 9 (mkPtr st.mem.size 0, .pub)) 10
    (mkPtr (st.mem.size + 1) 0, .pub) = E0 at hE0s hE0v
  generalize hmem1 : (st.mem.push { bytes := Array.replicate (16 + 4 * nk) (0, .undef), base := 0 }).push { bytes := Array.replicate 12 (0, .undef), base := 0 } = mem1
  unfold sivDecStmt
  rw [seqs_cons_ne _ _ (by simp)]
  refine runs_seq (Q := fun e s => e = setVar E0 8 (p0, l0) ∧ s = { st with mem := mem1 }) (runs_assign _ (by simp only [evalE, hE0v 0 _ h0, hl0, if_false]) ⟨rfl, rfl, rfl⟩) ?_
  intro ea sa ⟨hea, hsa⟩; rw [hea, hsa]
  rw [seqs_cons_ne _ _ (by simp)]
  refine runs_seq_abort ?_
  refine runs_ite_true 1 ?_ (by decide) (runs_ret_some (4294967295, .pub) rfl ⟨by simp, _, rfl, rfl, rfl, ?_, rfl⟩)
  · simp only [evalE, get_set_ne _ _ _ _ (show ¬ 8 = 3 from by decide), hE0v 3 _ h3, reduceCtorEq, if_false, castVal_u64_i32_lit 8 (by decide), BinOp.needsPub2, BinOp.needsPub1,
      Bool.false_and, Bool.or_self, Bool.false_eq_true, binVal, Ty.signed, hclen, decide_true, b2n, if_true, Lab.join_pub_pub]
  · show mem1.extract 0 st.mem.size = st.mem; rw [← hmem1]; exact extract_push2 _ _ _


end TJ.MiniC.Hoare
