/-
  TJ.Proofs.AeadDecLoop — the invariant of the message phase of tinyjambu_*_aead_decrypt and one iteration of its word loop.
-/
import TJ.Proofs.AeadDecCore
namespace TJ.MiniC.Hoare
open TJ TJ.MiniC TJ.MiniC.PermC TJ.Gen.MiniC

theorem pubVars_append {a b : List (Nat × Nat)} {e : Env} : PubVars (a ++ b) e ↔ PubVars a e ∧ PubVars b e := by
  constructor
  · intro h; exact ⟨fun xv hx => h xv (List.mem_append_left _ hx), fun xv hx => h xv (List.mem_append_right _ hx)⟩
  · intro ⟨h1, h2⟩ xv hx
    rcases List.mem_append.mp hx with h | h
    · exact h1 xv h
    · exact h2 xv h

/-- the kept public variables of the decrypt body: below the temporaries, none of the variables the message phase assigns -/
def KeepOk (kp : List (Nat × Nat)) : Prop := ∀ xv ∈ kp, xv.1 < 13 ∧ xv.1 ≠ 0 ∧ xv.1 ≠ 2 ∧ xv.1 ≠ 3 ∧ xv.1 ≠ 11

/-- the invariant of the message phase of decryption: `pt` is the plaintext written so far, `rest` the ciphertext body still to be read,
    `tag2` the tag that follows it -/
structure DI (g : AGeo) (eg : EGeo g) (M : Array Block) (nv : Nat) (kp : List (Nat × Nat)) (env : Env) (st : St) (s : W4) (kws : List UInt32) (pt rest tag2 : Bytes) : Prop where
  ai : AI g M nv env st s kws 9
  e0 : env[0]? = some (mkPtr eg.bo (eg.baseo + (eg.oo + pt.length)), .pub)
  e2 : env[2]? = some (mkPtr eg.bm (eg.basem + (eg.moff + pt.length)), .pub)
  e3 : env[3]? = some (rest.length, .pub)
  keep : PubVars kp env
  hm : ∃ XM, M[eg.bm]? = some ⟨XM, eg.basem⟩ ∧ XM.size = eg.msz ∧ BytesV XM (eg.moff + pt.length) (rest ++ tag2)
  ho : ∃ XO, M[eg.bo]? = some ⟨XO, eg.baseo⟩ ∧ XO.size = eg.osz ∧ BytesV XO eg.oo pt ∧ (∀ p, p < eg.oo ∨ eg.oo + pt.length ≤ p → XO[p]? = eg.XO0[p]?)
  oth0 : ∀ j, j ≠ eg.bo → M[j]? = eg.M0[j]?
  room : eg.oo + pt.length + rest.length ≤ eg.osz

theorem bytesV_prefix {X : Array LByte} {off : Nat} {a b : Bytes} (h : BytesV X off (a ++ b)) : BytesV X off a :=
  ⟨by have := h.1; rw [List.length_append] at this; omega, fun k c hk => h.2 k c (by
    have hka : k < a.length := by
      by_cases hh : k < a.length
      · exact hh
      · rw [List.getElem?_eq_none (by omega)] at hk; cases hk
    rw [List.getElem?_append_left hka]; exact hk)⟩

/-- one iteration of the word loop of `tinyjambu_*_aead_decrypt` -/
theorem dec_iter {g : AGeo} (eg : EGeo g) {M : Array Block} {v : Nat} (hv : 13 ≤ v) (pk : Nat) (hpk : pk < 256) {kp : List (Nat × Nat)} (hkp : KeepOk kp)
    {env : Env} {st : St} {s : W4} {kws : List UInt32} {pt tag2 : Bytes}
    (b0 b1 b2 b3 : UInt8) (rest : Bytes) (di : DI g eg M (v + 49) kp env st s kws pt (b0 :: b1 :: b2 :: b3 :: rest) tag2) :
    RunsTo g.prog (decLoopBody g.pidx pk v) env st (fun sig e' s' => sig = .normal ∧ ∃ M',
      DI g eg M' (v + 49) kp e' s' (absorbW (g.P kws pk (addDomain s 0x50)) (load32 b0 b1 b2 b3 ^^^ (g.P kws pk (addDomain s 0x50)).c)) kws
        (pt ++ store32 (load32 b0 b1 b2 b3 ^^^ (g.P kws pk (addDomain s 0x50)).c)) rest tag2) := by
  obtain ⟨XM, hMm, hXMs, hdm⟩ := di.hm
  obtain ⟨XO, hMo, hXOs, hdo, hout⟩ := di.ho
  have room := di.room
  have hltm := eg.hltm; have hlto := eg.hlto
  have hdmb : BytesV XM (eg.moff + pt.length) (b0 :: b1 :: b2 :: b3 :: rest) := bytesV_prefix hdm
  have hlen : (b0 :: b1 :: b2 :: b3 :: rest).length < 18446744073709551616 := by have := hdmb.1; simp only [ptrBase] at *; omega
  let dg : DGeo g M := ⟨eg.bm, eg.basem, XM, eg.hbm, eg.hbm30, by rw [hXMs]; exact eg.hltm, hMm⟩
  let vs : List (Nat × Nat) := [(0, mkPtr eg.bo (eg.baseo + (eg.oo + pt.length))), (2, mkPtr eg.bm (eg.basem + (eg.moff + pt.length))), (3, (b0 :: b1 :: b2 :: b3 :: rest).length)]
  have vs3 : ∀ xv ∈ vs, xv.1 ≤ 3 := pv3_le
  have vsn : ∀ t, (13 ≤ t ∨ t = 11) → ∀ xv ∈ vs ++ kp, xv.1 ≠ t := fun t ht xv hxv => by
    rcases List.mem_append.mp hxv with h | h
    · have := vs3 xv h; omega
    · have := hkp xv h; omega
  have pv0 : PubVars (vs ++ kp) env := pubVars_append.mpr ⟨pv3_mk di.e0 di.e2 di.e3, di.keep⟩
  have p3 : ∀ {e : Env}, PubVars (vs ++ kp) e → PubVars vs e := fun h => (pubVars_append.mp h).1
  generalize hs1 : g.P kws pk (addDomain s 0x50) = s1
  generalize hdata : load32 b0 b1 b2 b3 = cw
  unfold decLoopBody
  refine runs_ite_true 1 ?_ (by decide) ?_
  · simp only [evalE, di.e3, reduceCtorEq, if_false, castVal_u64_i32_lit 4 (by decide), BinOp.needsPub2, BinOp.needsPub1, Bool.false_and, Bool.or_self,
      Bool.false_eq_true, binVal, Ty.signed, ge_iff_le, List.length_cons, show 4 ≤ rest.length + 1 + 1 + 1 + 1 from by omega, decide_true, b2n, if_true, Lab.join_pub_pub]
  simp only [seqs]
  refine xp_step (di.ai.frame (s' := { st with leak := Ev.br true :: st.leak }) di.ai.esz rfl rfl rfl) (vs ++ kp) pv0 v (v + 1) _ (rc pk) 0x50 pk ⟨by omega, by omega⟩ ⟨by omega, by omega⟩ (by omega)
    (fun xv hxv => ⟨vsn _ (by omega) xv hxv, vsn _ (by omega) xv hxv⟩) (fun e' _ => evalD_rc80 e') (fun e' => evalE_rc e' pk (by omega)) (by omega) _ ?_
  intro e1 st1 ai1 pv1
  rw [hs1] at ai1
  -- data = le_load_word32(c) ^ s[2]
  refine runs_seq (Q := fun e' s' => AI g M (v + 49) e' s' s1 kws 9 ∧ PubVars (vs ++ kp) e' ∧ EnvHas e' 11 (cw ^^^ s1.c).toNat) ?_ ?_
  · refine load_data_sq dg ai1 (eg.moff + pt.length) _ hdmb (pv3 (p3 pv1)).2.1 (v + 6) 11 [(v + 2, 3), (v + 3, 2), (v + 4, 1), (v + 5, 0)] _ (cw ^^^ s1.c)
      ⟨by omega, by omega, by omega, by simp only [List.map_cons, List.map_nil, List.mem_cons, List.mem_nil_iff, or_false]; omega⟩ ⟨by omega, by omega⟩ (by simp) ?_ ?_ ?_ ?_
    · intro yo hyo
      simp only [List.mem_cons, List.mem_nil_iff, or_false] at hyo
      rcases hyo with h | h | h | h <;> rw [h] <;> simp only [List.length_cons] <;> omega
    · simp only [List.map_cons, List.map_nil, List.nodup_cons, List.mem_cons, List.mem_nil_iff, or_false, not_false_eq_true, List.nodup_nil, and_true]; omega
    · intro e' hh hx
      have hc := evalD_e32 (b0 := b0) (b1 := b1) (b2 := b2) (b3 := b3) (hh (v + 2, 3) (by simp)) (hh (v + 3, 2) (by simp)) (hh (v + 4, 1) (by simp)) (hh (v + 5, 0) (by simp))
      rw [hdata] at hc
      exact hc.bitop (EvalD.var hx) .bxor .u32 (cw ^^^ s1.c).toNat ⟨rfl, rfl⟩ (binVal_bxor_u32 cw s1.c)
    · intro e' s' _ hfr h11 ai'
      refine ⟨rfl, ai', pv1.frame (fun xv hxv => hfr xv.1 (vsn _ (by omega) xv hxv) (vsn 11 (by omega) xv hxv) ?_), h11⟩
      intro hmem
      obtain ⟨yo, hyo, hy0⟩ := List.mem_map.mp hmem
      simp only [List.mem_cons, List.mem_nil_iff, or_false] at hyo
      rcases hyo with h | h | h | h <;> rw [h] at hy0 <;> exact vsn _ (by omega) xv hxv hy0.symm
  intro e2 st2 ⟨ai2, pv2, h112⟩
  generalize hpw : cw ^^^ s1.c = pw at h112
  -- s[3] ^= data
  refine runs_seq (Q := fun e' s' => AI g M (v + 49) e' s' (absorbW s1 pw) kws 9 ∧ PubVars (vs ++ kp) e' ∧ EnvHas e' 11 pw.toNat) ?_ ?_
  · refine ai_xor ai2 3 (v + 7) (v + 8) (.var 11) pw (by decide) ⟨by omega, by omega⟩ ⟨by omega, by omega⟩ (by omega) ?_ ?_
    · intro e' hfr
      exact EvalD.var (h112.frame (hfr 11 (by omega) (by omega)))
    · intro e' s' _ hfr ai'
      exact ⟨rfl, ai', pv2.frame (fun xv hxv => hfr xv.1 (vsn _ (by omega) xv hxv) (vsn _ (by omega) xv hxv)), h112.frame (hfr 11 (by omega) (by omega))⟩
  intro e4 st4 ⟨ai4, pv4, h114⟩
  -- le_store_word32(m, data)
  have hsz4 := ai4.esz
  refine runs_seq (Q := fun e' s' => e'.size = v + 49 ∧ PubVars (vs ++ kp) e' ∧ ∃ XO', AI g (setBlock M eg.bo XO') (v + 49) e' s' (absorbW s1 pw) kws 9 ∧ XO'.size = XO.size ∧
      (∀ j, j < 4 → BV XO' (eg.oo + pt.length + 0 + j) (byteOf pw.toNat j)) ∧
      (∀ p, (p < eg.oo + pt.length + 0 ∨ eg.oo + pt.length + 0 + 4 ≤ p) → XO'[p]? = XO[p]?)) ?_ ?_
  · obtain ⟨l9, h9v, hl9⟩ := h114
    refine runs_seq (Q := fun e' s' => e' = setVar e4 (v + 9) (pw.toNat, l9) ∧ s' = st4)
      (runs_assign _ (by simp only [evalE, h9v, hl9, if_false]) ⟨rfl, rfl, rfl⟩) ?_
    intro e5 st5 ⟨he5, hst5⟩; rw [he5, hst5]
    have fr5 : ∀ y, y ≠ v + 9 → (setVar e4 (v + 9) (pw.toNat, l9))[y]? = e4[y]? := fun y hy => get_set_ne _ _ _ _ (fun e => hy e.symm)
    have ai5 : AI g M (v + 49) (setVar e4 (v + 9) (pw.toNat, l9)) st4 (absorbW s1 pw) kws 9 :=
      ai4.frame (by rw [size_setVar]; exact hsz4) (fr5 9 (by omega)) rfl rfl
    have pv5 : PubVars (vs ++ kp) (setVar e4 (v + 9) (pw.toNat, l9)) := pv4.frame (fun xv hxv => fr5 xv.1 (vsn _ (by omega) xv hxv))
    refine (out_word ai5 eg.bo eg.baseo (eg.oo + pt.length) 0 XO eg.hbo eg.hbo30 hMo (by rw [hXOs]; exact hlto) (by rw [hXOs]; simp only [List.length_cons] at room; omega)
      (pv3 (p3 pv5)).1 (v + 10) (v + 11) (v + 12) (v + 13) (v + 9) pw ⟨⟨by omega, by omega, by omega⟩, ⟨by omega, by omega, by omega⟩, ⟨by omega, by omega, by omega⟩, ⟨by omega, by omega, by omega⟩⟩
      ⟨by omega, by omega, by omega, by omega⟩ ⟨l9, get_set_eq _ _ _ (by omega), hl9⟩).weaken ?_
    intro sig e' s' ⟨h1, h2, h3, h4⟩
    exact ⟨h1, h2, pv5.frame (fun xv hxv => h3 xv.1 (vsn _ (by omega) xv hxv) (vsn _ (by omega) xv hxv) (vsn _ (by omega) xv hxv) (vsn _ (by omega) xv hxv)), h4⟩
  intro e6 st6 ⟨hsz6, pv6, XO', ai6, hXO's, hbv, hkeep⟩
  -- c += 4; m += 4; clen -= 4
  have hl4 : (pt ++ store32 pw).length = pt.length + 4 := by simp [store32]
  refine bump3 2 0 3 eg.bm _ eg.bo _ _ 4 4 4 (pv3 (p3 pv6)).2.1 (pv3 (p3 pv6)).1 (pv3 (p3 pv6)).2.2 (by decide) (by decide) (by decide) (by omega) eg.hbm30 eg.hbo30
    (by have := hdmb.1; simp only [List.length_cons] at this; omega) (by simp only [List.length_cons] at room; omega) (by simp) hlen (by decide) ?_
  intro e7 hsz7 hfr7 h72 h70 h73
  refine ⟨rfl, setBlock M eg.bo XO', ai6.frame (by rw [hsz7]; exact hsz6) (hfr7 9 (by decide) (by decide) (by decide)) rfl rfl, ?_, ?_, ?_, ?_, ?_, ?_, ?_, ?_⟩
  · rw [h70, hl4, Nat.add_assoc, Nat.add_assoc]
  · rw [h72, hl4, Nat.add_assoc, Nat.add_assoc]
  · rw [h73]; simp
  · exact (pubVars_append.mp pv6).2.frame (fun xv hxv => by have := hkp xv hxv; exact hfr7 xv.1 (by omega) (by omega) (by omega))
  · obtain ⟨XM', h1, h2, h3⟩ := msg_after eg (q := pt.length) (n := 4) hMm hMo hXO's hdm (by simp) (fun p hp => hkeep p (Or.inr (by omega)))
    exact ⟨XM', h1, by rw [h2]; exact hXMs, by rw [hl4]; exact h3⟩
  · refine ⟨XO', by rw [getElem?_setBlock', if_pos rfl, hMo]; rfl, by rw [hXO's]; exact hXOs, ?_, fun p hp => ?_⟩
    · refine bytesV_snoc hdo hXO's (by simp only [List.length_cons] at room; simp [store32]; omega) (fun p hp => hkeep p (Or.inl (by omega))) ?_
      exact store32_bv (fun j hj => by have := hbv j hj; rw [Nat.add_zero] at this; exact this)
    · rw [hl4] at hp
      rw [hkeep p (by omega), hout p (by omega)]
  · intro j hj
    rw [getElem?_setBlock', if_neg hj]; exact di.oth0 j hj
  · rw [hl4]; simp only [List.length_cons] at room; omega

end TJ.MiniC.Hoare
