/-
  TJ.Proofs.Hoare — postcondition-style reasoning over the MiniC semantics: `RunsTo prog s env st P` says the statement completes
  (for some fuel) in a final configuration satisfying `P`.  Fuel is existential (TJ.MiniC.Fuel.exec_mono), so rules compose
  without bookkeeping.
-/
import TJ.MiniC.Fuel
import TJ.MiniC.Local
import TJ.Proofs.PermCBody
namespace TJ.MiniC.Hoare
open TJ TJ.MiniC TJ.MiniC.PermC TJ.Gen.MiniC

def RunsTo (prog : Program) (s : Stmt) (env : Env) (st : St) (P : Sig → Env → St → Prop) : Prop :=
  ∃ n sig env' st', exec prog n s env st = .ok sig env' st' ∧ P sig env' st'

theorem RunsTo.weaken {prog : Program} {s : Stmt} {env : Env} {st : St} {P Q : Sig → Env → St → Prop}
    (h : RunsTo prog s env st P) (hpq : ∀ sig e s, P sig e s → Q sig e s) : RunsTo prog s env st Q := by
  obtain ⟨n, sig, e, s', hx, hp⟩ := h
  exact ⟨n, sig, e, s', hx, hpq _ _ _ hp⟩

theorem runs_seq {prog : Program} {a b : Stmt} {env : Env} {st : St} {Q : Env → St → Prop} {P : Sig → Env → St → Prop}
    (ha : RunsTo prog a env st (fun sig e s => sig = .normal ∧ Q e s))
    (hb : ∀ e s, Q e s → RunsTo prog b e s P) : RunsTo prog (.seq a b) env st P := by
  obtain ⟨n1, sig1, e1, s1, h1, hs, hq⟩ := ha
  subst hs
  obtain ⟨n2, sig2, e2, s2, h2, hp⟩ := hb e1 s1 hq
  refine ⟨max n1 n2 + 1, sig2, e2, s2, ?_, hp⟩
  rw [exec]
  rw [exec_mono prog n1 a env st _ _ _ h1 (max n1 n2) (Nat.le_max_left _ _)]
  exact exec_mono prog n2 b e1 s1 _ _ _ h2 (max n1 n2) (Nat.le_max_right _ _)

theorem runs_skip {prog : Program} {env : Env} {st : St} {P : Sig → Env → St → Prop} (h : P .normal env st) : RunsTo prog .skip env st P :=
  ⟨1, .normal, env, st, by rw [exec], h⟩

theorem runs_assign {prog : Program} {x : Nat} {e : Expr} {env : Env} {st : St} {P : Sig → Env → St → Prop} (v : LVal)
    (hv : evalE env e = .ok v) (h : P .normal (setVar env x v) st) : RunsTo prog (.assign x e) env st P :=
  ⟨1, .normal, setVar env x v, st, by rw [exec, hv], h⟩

theorem runs_load {prog : Program} {x : Nat} {t : Ty} {addr : Expr} {env : Env} {st : St} {P : Sig → Env → St → Prop}
    (p b off n : Nat) (v : LVal) (hn : t.bytes = n)
    (ha : evalE env addr = .ok (p, .pub)) (hr : resolve st.mem p n = .ok (b, off)) (hrd : readLE (blockBytes st.mem b) off n = some v)
    (h : P .normal (setVar env x v) { st with leak := .rd p n :: st.leak }) : RunsTo prog (.load x t addr) env st P :=
  ⟨1, .normal, _, _, exec_load_ok' prog (f' := 0) rfl x t addr env st p b off n v hn ha hr hrd, h⟩

theorem runs_store {prog : Program} {t : Ty} {addr e : Expr} {env : Env} {st : St} {P : Sig → Env → St → Prop}
    (p v b off n : Nat) (lv : Lab) (hn : t.bytes = n)
    (ha : evalE env addr = .ok (p, .pub)) (hv : evalE env e = .ok (v, lv)) (hr : resolve st.mem p n = .ok (b, off))
    (h : P .normal env { st with leak := .wr p n :: st.leak, mem := setBlock st.mem b (writeLE (blockBytes st.mem b) off v lv n) }) :
    RunsTo prog (.store t addr e) env st P :=
  ⟨1, .normal, _, _, exec_store_ok' prog (f' := 0) rfl t addr e env st p v b off n lv _ hn ha hv hr rfl, h⟩


theorem runs_brk {prog : Program} {env : Env} {st : St} {P : Sig → Env → St → Prop} (h : P .brk env st) : RunsTo prog .brk env st P :=
  ⟨1, .brk, env, st, by rw [exec], h⟩

theorem runs_ret_none {prog : Program} {env : Env} {st : St} {P : Sig → Env → St → Prop} (h : P (.ret none) env st) :
    RunsTo prog (.ret none) env st P :=
  ⟨1, .ret none, env, st, by rw [exec], h⟩

theorem runs_seq_abort {prog : Program} {a b : Stmt} {env : Env} {st : St} {P : Sig → Env → St → Prop}
    (ha : RunsTo prog a env st (fun sig e s => sig ≠ .normal ∧ P sig e s)) : RunsTo prog (.seq a b) env st P := by
  obtain ⟨n, sig, e, s, h, hs, hp⟩ := ha
  refine ⟨n + 1, sig, e, s, ?_, hp⟩
  rw [exec, h]
  cases sig with
  | normal => exact absurd rfl hs
  | brk => rfl
  | ret v => rfl

theorem runs_ite_true {prog : Program} {c : Expr} {a b : Stmt} {env : Env} {st : St} {P : Sig → Env → St → Prop} (v : Nat)
    (hc : evalE env c = .ok (v, .pub)) (hv : v ≠ 0) (h : RunsTo prog a env { st with leak := .br true :: st.leak } P) :
    RunsTo prog (.ite c a b) env st P := by
  obtain ⟨n, sig, e, s, hx, hp⟩ := h
  refine ⟨n + 1, sig, e, s, ?_, hp⟩
  have : (v != 0) = true := by simpa using hv
  rw [exec, hc]
  simp only [ne_eq, not_true_eq_false, if_false, this, if_true]
  exact hx

theorem runs_ite_false {prog : Program} {c : Expr} {a b : Stmt} {env : Env} {st : St} {P : Sig → Env → St → Prop}
    (hc : evalE env c = .ok (0, .pub)) (h : RunsTo prog b env { st with leak := .br false :: st.leak } P) :
    RunsTo prog (.ite c a b) env st P := by
  obtain ⟨n, sig, e, s, hx, hp⟩ := h
  refine ⟨n + 1, sig, e, s, ?_, hp⟩
  rw [exec, hc]
  simp only [ne_eq, not_true_eq_false, if_false, show ((0 : Nat) != 0) = false from rfl, Bool.false_eq_true]
  exact hx

theorem runs_loop_continue {prog : Program} {body : Stmt} {env : Env} {st : St} {Q : Env → St → Prop} {P : Sig → Env → St → Prop}
    (hb : RunsTo prog body env st (fun sig e s => sig = .normal ∧ Q e s))
    (hk : ∀ e s, Q e s → RunsTo prog (.loop body) e s P) : RunsTo prog (.loop body) env st P := by
  obtain ⟨n1, sig1, e1, s1, h1, hs, hq⟩ := hb
  subst hs
  obtain ⟨n2, sig2, e2, s2, h2, hp⟩ := hk e1 s1 hq
  refine ⟨max n1 n2 + 1, sig2, e2, s2, ?_, hp⟩
  rw [exec]
  rw [exec_mono prog n1 body env st _ _ _ h1 (max n1 n2) (Nat.le_max_left _ _)]
  exact exec_mono prog n2 (.loop body) e1 s1 _ _ _ h2 (max n1 n2) (Nat.le_max_right _ _)

theorem runs_loop_break {prog : Program} {body : Stmt} {env : Env} {st : St} {P : Sig → Env → St → Prop}
    (hb : RunsTo prog body env st (fun sig e s => sig = .brk ∧ P .normal e s)) : RunsTo prog (.loop body) env st P := by
  obtain ⟨n, sig, e, s, h, hs, hp⟩ := hb
  subst hs
  exact ⟨n + 1, .normal, e, s, by rw [exec, h], hp⟩

theorem runs_memcpy_zero {prog : Program} {d s n : Expr} {env : Env} {st : St} {P : Sig → Env → St → Prop} (pd ps : Nat)
    (hd : evalE env d = .ok (pd, .pub)) (hs : evalE env s = .ok (ps, .pub)) (hn : evalE env n = .ok (0, .pub))
    (h : P .normal env { st with leak := .cp pd ps 0 :: st.leak }) : RunsTo prog (.memcpy d s n) env st P := by
  refine ⟨1, .normal, env, _, ?_, h⟩
  rw [exec, hd, hs, hn]
  simp

theorem runs_memcpy {prog : Program} {d s n : Expr} {env : Env} {st : St} {P : Sig → Env → St → Prop} (pd ps vn bsrc offs bd offd : Nat)
    (hd : evalE env d = .ok (pd, .pub)) (hs : evalE env s = .ok (ps, .pub)) (hn : evalE env n = .ok (vn, .pub)) (hvn : vn ≠ 0)
    (hrs : resolve st.mem ps 1 = .ok (bsrc, offs)) (hbs : offs + vn ≤ (blockBytes st.mem bsrc).size)
    (hrd : resolve st.mem pd 1 = .ok (bd, offd)) (hbd : offd + vn ≤ (blockBytes st.mem bd).size)
    (h : P .normal env { st with leak := .cp pd ps vn :: st.leak, mem := (setBlock st.mem bd (writeBytes (blockBytes st.mem bd) offd (sliceBytes (blockBytes st.mem bsrc) offs vn))) }) :
    RunsTo prog (.memcpy d s n) env st P := by
  refine ⟨1, .normal, env, _, ?_, h⟩
  rw [exec, hd, hs, hn]
  simp only [ne_eq, not_true_eq_false, decide_false, Bool.or_self, Bool.false_eq_true, if_false, hvn, hrs, hrd]
  rw [if_neg (by omega), if_neg (by omega)]


/-! ### word-sized accesses to a block described by its bytes and base -/

theorem blockBytes_of {mem : Array Block} {b : Nat} {X : Array LByte} {base : Nat} (h : mem[b]? = some ⟨X, base⟩) : blockBytes mem b = X := by
  simp [blockBytes, h]

theorem resolve_word {mem : Array Block} {b : Nat} {X : Array LByte} {base : Nat} (h : mem[b]? = some ⟨X, base⟩) (off : Nat)
    (hal : (base + off) % 4 = 0) (hin : off + 4 ≤ X.size) (hlt : base + off < ptrBase) :
    resolve mem (mkPtr b (base + off)) 4 = .ok (b, off) :=
  resolve_mkPtr mem b off 4 ⟨X, base⟩ h hin hlt (fun _ => hal)

/-! ### 32-bit arithmetic of the semantics on `UInt32.toNat` values -/

theorem unVal_bnot_u32 (a : UInt32) : unVal .bnot .u32 a.toNat = (~~~ a).toNat := by
  have h := UInt32.toNat_lt a
  simp only [unVal, Ty.modulus, UInt32.toNat_not]
  rw [Nat.mod_eq_of_lt (by omega)]

theorem binVal_bxor_u32 (a b : UInt32) : binVal .bxor .u32 a.toNat b.toNat = some (a ^^^ b).toNat := by
  simp only [binVal, UInt32.toNat_xor]

theorem castVal_u32_u8 (d : Nat) (h : d < 256) : castVal .u32 .u8 d = d := by
  simp only [castVal, Ty.signed, Bool.false_eq_true, if_false, Ty.modulus]
  omega

theorem castVal_u32_i32_one : castVal .u32 .i32 1 = 1 := by decide

/-! ### reading words back from written bytes -/

theorem readLE_writeLE_u32 (bytes : Array LByte) (off : Nat) (w : UInt32) (h : off + 4 ≤ bytes.size) :
    readLE (writeLE bytes off w.toNat .sec 4) off 4 = some (w.toNat, .sec) :=
  readLE_word bytes off w.toNat (UInt32.toNat_lt w) h

theorem readLE_writeLE_ne (bytes : Array LByte) (off off' v n n' : Nat) (l : Lab) (h : off' + n' ≤ off ∨ off + n ≤ off') :
    readLE (writeLE bytes off v l n) off' n' = readLE bytes off' n' :=
  readLE_congr _ _ n' off' (fun j h1 h2 => getElem?_writeLE_out l n bytes off v j (by omega))


/-! ### a block seen as an array of 32-bit words -/


/-- byte `j` of a little-endian word -/
def byteOf (v j : Nat) : UInt8 := (v / 256 ^ j % 256).toUInt8

theorem byteOf_toNat (v j : Nat) : (byteOf v j).toNat = v / 256 ^ j % 256 := by
  simp [byteOf, Nat.toUInt8, UInt8.toNat_ofNat']

theorem getElem?_writeLE_in (l : Lab) : ∀ (n : Nat) (bs : Array LByte) (off v j : Nat), j < n → off + n ≤ bs.size →
    (writeLE bs off v l n)[off + j]? = some (byteOf v j, l)
  | 0, _, _, _, _, h, _ => by omega
  | n + 1, bs, off, v, j, hj, hs => by
    rw [writeLE]
    cases j with
    | zero =>
      rw [getElem?_writeLE_out l n _ _ _ (off + 0) (by omega), Array.getElem?_setIfInBounds]
      simp only [Nat.add_zero, if_true, show off < bs.size from by omega, byteOf, Nat.pow_zero, Nat.div_one]
    | succ j =>
      have := getElem?_writeLE_in l n (bs.setIfInBounds off ((v % 256).toUInt8, l)) (off + 1) (v / 256) j (by omega)
        (by simp only [Array.size_setIfInBounds]; omega)
      rw [show off + (j + 1) = off + 1 + j from by omega, this]
      simp only [byteOf, Nat.pow_succ, Nat.div_div_eq_div_mul, Nat.mul_comm]

/-- four bytes read as a word -/
theorem readLE_of_bytes (X : Array LByte) (off : Nat) (v : Nat) (hv : v < 4294967296)
    (h : ∀ j, j < 4 → X[off + j]? = some (byteOf v j, Lab.sec)) : readLE X off 4 = some (v, .sec) := by
  have h0 := h 0 (by decide); have h1 := h 1 (by decide); have h2 := h 2 (by decide); have h3 := h 3 (by decide)
  simp only [Nat.add_zero] at h0
  simp only [readLE, h0, h1, h2, h3, show off + 1 + 1 = off + 2 from rfl, show off + 2 + 1 = off + 3 from rfl, reduceCtorEq, if_false,
    byteOf_toNat, Lab.join]
  congr 2
  simp only [Nat.pow_zero, Nat.div_one, Nat.pow_one, show (256 : Nat) ^ 2 = 65536 from rfl, show (256 : Nat) ^ 3 = 16777216 from rfl]
  omega


/-- `X` is `X0` with some of its first `n` words overwritten; `w[i] = some v` records that word `i` currently holds `v`
    (four secret bytes, little-endian) -/
structure Wd (X X0 : Array LByte) (n : Nat) (w : List (Option UInt32)) : Prop where
  size : X.size = X0.size
  big : 4 * n ≤ X0.size
  rdb : ∀ i v, i < n → w[i]? = some (some v) → ∀ j, j < 4 → X[4 * i + j]? = some (byteOf v.toNat j, Lab.sec)
  tail : ∀ j, 4 * n ≤ j → X[j]? = X0[j]?

theorem Wd.rd {X X0 : Array LByte} {n : Nat} {w : List (Option UInt32)} (h : Wd X X0 n w) (i : Nat) (v : UInt32) (hi : i < n)
    (hv : w[i]? = some (some v)) : readLE X (4 * i) 4 = some (v.toNat, .sec) :=
  readLE_of_bytes X (4 * i) v.toNat (UInt32.toNat_lt v) (h.rdb i v hi hv)

theorem Wd.set {X X0 : Array LByte} {n : Nat} {w : List (Option UInt32)} (h : Wd X X0 n w) (i : Nat) (hi : i < n) (v : UInt32) :
    Wd (writeLE X (4 * i) v.toNat .sec 4) X0 n (w.set i (some v)) := by
  have hb := h.big
  have hs := h.size
  refine ⟨by rw [size_writeLE]; exact h.size, h.big, fun j u hj hu k hk => ?_, fun j hj => ?_⟩
  · by_cases hji : j = i
    · subst hji
      by_cases hlen : j < w.length
      · rw [List.getElem?_set_self hlen] at hu
        have huv : v = u := by injection hu with h1; injection h1
        rw [← huv]
        exact getElem?_writeLE_in .sec 4 X (4 * j) v.toNat k hk (by omega)
      · rw [List.getElem?_eq_none (by rw [List.length_set]; omega)] at hu; cases hu
    · rw [List.getElem?_set_ne (fun e => hji e.symm)] at hu
      rw [getElem?_writeLE_out _ _ _ _ _ _ (by omega)]
      exact h.rdb j u hj hu k hk
  · rw [getElem?_writeLE_out _ _ _ _ _ j (by omega)]
    exact h.tail j hj

theorem Wd.refl (X0 : Array LByte) (n : Nat) (hb : 4 * n ≤ X0.size) (w : List (Option UInt32))
    (h : ∀ i v, i < n → w[i]? = some (some v) → ∀ j, j < 4 → X0[4 * i + j]? = some (byteOf v.toNat j, Lab.sec)) : Wd X0 X0 n w :=
  ⟨rfl, hb, h, fun _ _ => rfl⟩

/-- `p = &dst; x = *src; *p = val(x)` -/
theorem grp1 {prog : Program} {env : Env} {st : St} (t x : Nat) (ad la val : Expr)
    (bd based od : Nat) (Xd : Array LByte) (bl basel ol : Nat) (Xl : Array LByte) (v r : UInt32)
    (ht : t < env.size) (hx : x < env.size) (htx : t ≠ x)
    (had : evalE env ad = .ok (mkPtr bd (based + od), .pub))
    (hla : ∀ e' : Env, (∀ y, y ≠ t → y ≠ x → e'[y]? = env[y]?) → e'[t]? = some (mkPtr bd (based + od), .pub) →
      evalE e' la = .ok (mkPtr bl (basel + ol), .pub))
    (hmd : st.mem[bd]? = some ⟨Xd, based⟩) (hml : st.mem[bl]? = some ⟨Xl, basel⟩)
    (hald : (based + od) % 4 = 0) (hind : od + 4 ≤ Xd.size) (hltd : based + od < ptrBase)
    (hall : (basel + ol) % 4 = 0) (hinl : ol + 4 ≤ Xl.size) (hltl : basel + ol < ptrBase)
    (hrd : readLE Xl ol 4 = some (v.toNat, .sec))
    (hval : ∀ e' : Env, (∀ y, y ≠ t → y ≠ x → e'[y]? = env[y]?) → e'[x]? = some (v.toNat, .sec) → evalE e' val = .ok (r.toNat, .sec))
    {P : Sig → Env → St → Prop}
    (hP : ∀ (e' : Env) (new : List Ev), e'.size = env.size → (∀ y, y ≠ t → y ≠ x → e'[y]? = env[y]?) →
      P .normal e' { st with leak := new ++ st.leak, mem := setBlock st.mem bd (writeLE Xd od r.toNat .sec 4) }) :
    RunsTo prog (seqs [.assign t ad, .load x .u32 la, .store .u32 (.var t) val]) env st P := by
  simp only [seqs]
  have fr1 : ∀ y, y ≠ t → y ≠ x → (setVar env t (mkPtr bd (based + od), Lab.pub))[y]? = env[y]? :=
    fun y h1 _ => get_set_ne _ _ _ _ (fun e => h1 e.symm)
  have fr2 : ∀ y, y ≠ t → y ≠ x → (setVar (setVar env t (mkPtr bd (based + od), Lab.pub)) x (v.toNat, Lab.sec))[y]? = env[y]? :=
    fun y h1 h2 => by rw [get_set_ne _ _ _ _ (fun e => h2 e.symm)]; exact fr1 y h1 h2
  have gt1 : (setVar env t (mkPtr bd (based + od), Lab.pub))[t]? = some (mkPtr bd (based + od), Lab.pub) := get_set_eq _ _ _ ht
  have gt2 : (setVar (setVar env t (mkPtr bd (based + od), Lab.pub)) x (v.toNat, Lab.sec))[t]? = some (mkPtr bd (based + od), Lab.pub) := by
    rw [get_set_ne _ _ _ _ (fun e => htx e.symm)]; exact gt1
  have gx2 : (setVar (setVar env t (mkPtr bd (based + od), Lab.pub)) x (v.toNat, Lab.sec))[x]? = some (v.toNat, Lab.sec) :=
    get_set_eq _ _ _ (by rw [size_setVar]; exact hx)
  apply runs_seq (Q := fun e s => e = setVar env t (mkPtr bd (based + od), .pub) ∧ s = st)
  · exact runs_assign _ had ⟨rfl, rfl, rfl⟩
  · intro e s ⟨he, hs⟩
    rw [he, hs]
    apply runs_seq (Q := fun e s => e = setVar (setVar env t (mkPtr bd (based + od), .pub)) x (v.toNat, .sec) ∧
        s = { st with leak := Ev.rd (mkPtr bl (basel + ol)) 4 :: st.leak })
    · exact runs_load (mkPtr bl (basel + ol)) bl ol 4 (v.toNat, .sec) rfl (hla _ fr1 gt1) (resolve_word hml ol hall hinl hltl)
        (by rw [blockBytes_of hml]; exact hrd) ⟨rfl, rfl, rfl⟩
    · intro e s ⟨he, hs⟩
      rw [he, hs]
      refine runs_store (mkPtr bd (based + od)) r.toNat bd od 4 .sec rfl (by simp only [evalE, gt2, reduceCtorEq, if_false])
        (hval _ fr2 gx2) (resolve_word hmd od hald hind hltd) ?_
      rw [blockBytes_of hmd]
      exact hP _ [Ev.wr (mkPtr bd (based + od)) 4, Ev.rd (mkPtr bl (basel + ol)) 4] (by simp only [size_setVar]) fr2

/-- `p = &dst; x = *src1; y = *src2; *p = val(x, y)` -/
theorem grp2 {prog : Program} {env : Env} {st : St} (t x y : Nat) (ad la1 la2 val : Expr)
    (bd based od : Nat) (Xd : Array LByte) (b1 base1 o1 : Nat) (X1 : Array LByte) (b2 base2 o2 : Nat) (X2 : Array LByte) (v1 v2 r : UInt32)
    (ht : t < env.size) (hx : x < env.size) (hy : y < env.size) (htx : t ≠ x) (hty : t ≠ y) (hxy : x ≠ y)
    (had : evalE env ad = .ok (mkPtr bd (based + od), .pub))
    (hla1 : ∀ e' : Env, (∀ z, z ≠ t → z ≠ x → z ≠ y → e'[z]? = env[z]?) → evalE e' la1 = .ok (mkPtr b1 (base1 + o1), .pub))
    (hla2 : ∀ e' : Env, (∀ z, z ≠ t → z ≠ x → z ≠ y → e'[z]? = env[z]?) → evalE e' la2 = .ok (mkPtr b2 (base2 + o2), .pub))
    (hmd : st.mem[bd]? = some ⟨Xd, based⟩) (hm1 : st.mem[b1]? = some ⟨X1, base1⟩) (hm2 : st.mem[b2]? = some ⟨X2, base2⟩)
    (hald : (based + od) % 4 = 0) (hind : od + 4 ≤ Xd.size) (hltd : based + od < ptrBase)
    (hal1 : (base1 + o1) % 4 = 0) (hin1 : o1 + 4 ≤ X1.size) (hlt1 : base1 + o1 < ptrBase)
    (hal2 : (base2 + o2) % 4 = 0) (hin2 : o2 + 4 ≤ X2.size) (hlt2 : base2 + o2 < ptrBase)
    (hr1 : readLE X1 o1 4 = some (v1.toNat, .sec)) (hr2 : readLE X2 o2 4 = some (v2.toNat, .sec))
    (hval : ∀ e' : Env, e'[x]? = some (v1.toNat, .sec) → e'[y]? = some (v2.toNat, .sec) → evalE e' val = .ok (r.toNat, .sec))
    {P : Sig → Env → St → Prop}
    (hP : ∀ (e' : Env) (new : List Ev), e'.size = env.size → (∀ z, z ≠ t → z ≠ x → z ≠ y → e'[z]? = env[z]?) →
      P .normal e' { st with leak := new ++ st.leak, mem := setBlock st.mem bd (writeLE Xd od r.toNat .sec 4) }) :
    RunsTo prog (seqs [.assign t ad, .load x .u32 la1, .load y .u32 la2, .store .u32 (.var t) val]) env st P := by
  simp only [seqs]
  let E1 := setVar env t (mkPtr bd (based + od), Lab.pub)
  let E2 := setVar E1 x (v1.toNat, Lab.sec)
  let E3 := setVar E2 y (v2.toNat, Lab.sec)
  have fr1 : ∀ z, z ≠ t → z ≠ x → z ≠ y → E1[z]? = env[z]? := fun z h1 _ _ => get_set_ne _ _ _ _ (fun e => h1 e.symm)
  have fr2 : ∀ z, z ≠ t → z ≠ x → z ≠ y → E2[z]? = env[z]? := fun z h1 h2 h3 => by
    show (setVar E1 x _)[z]? = _
    rw [get_set_ne _ _ _ _ (fun e => h2 e.symm)]; exact fr1 z h1 h2 h3
  have fr3 : ∀ z, z ≠ t → z ≠ x → z ≠ y → E3[z]? = env[z]? := fun z h1 h2 h3 => by
    show (setVar E2 y _)[z]? = _
    rw [get_set_ne _ _ _ _ (fun e => h3 e.symm)]; exact fr2 z h1 h2 h3
  have s1 : E1.size = env.size := size_setVar _ _ _
  have s2 : E2.size = env.size := by show (setVar E1 x _).size = _; rw [size_setVar]; exact s1
  have s3 : E3.size = env.size := by show (setVar E2 y _).size = _; rw [size_setVar]; exact s2
  have gt3 : E3[t]? = some (mkPtr bd (based + od), Lab.pub) := by
    show (setVar (setVar (setVar env t _) x _) y _)[t]? = _
    rw [get_set_ne _ _ _ _ (fun e => hty e.symm), get_set_ne _ _ _ _ (fun e => htx e.symm)]; exact get_set_eq _ _ _ ht
  have gx3 : E3[x]? = some (v1.toNat, Lab.sec) := by
    show (setVar (setVar E1 x _) y _)[x]? = _
    rw [get_set_ne _ _ _ _ (fun e => hxy e.symm)]; exact get_set_eq _ _ _ (by rw [s1]; exact hx)
  have gy3 : E3[y]? = some (v2.toNat, Lab.sec) := get_set_eq _ _ _ (by rw [s2]; exact hy)
  apply runs_seq (Q := fun e s => e = E1 ∧ s = st)
  · exact runs_assign _ had ⟨rfl, rfl, rfl⟩
  · intro e s ⟨he, hs⟩
    rw [he, hs]
    apply runs_seq (Q := fun e s => e = E2 ∧ s = { st with leak := Ev.rd (mkPtr b1 (base1 + o1)) 4 :: st.leak })
    · exact runs_load (mkPtr b1 (base1 + o1)) b1 o1 4 (v1.toNat, .sec) rfl (hla1 _ fr1) (resolve_word hm1 o1 hal1 hin1 hlt1)
        (by rw [blockBytes_of hm1]; exact hr1) ⟨rfl, rfl, rfl⟩
    · intro e s ⟨he, hs⟩
      rw [he, hs]
      apply runs_seq (Q := fun e s => e = E3 ∧ s = { st with leak := Ev.rd (mkPtr b2 (base2 + o2)) 4 :: Ev.rd (mkPtr b1 (base1 + o1)) 4 :: st.leak })
      · exact runs_load (mkPtr b2 (base2 + o2)) b2 o2 4 (v2.toNat, .sec) rfl (hla2 _ fr2) (resolve_word hm2 o2 hal2 hin2 hlt2)
          (by rw [blockBytes_of hm2]; exact hr2) ⟨rfl, rfl, rfl⟩
      · intro e s ⟨he, hs⟩
        rw [he, hs]
        refine runs_store (mkPtr bd (based + od)) r.toNat bd od 4 .sec rfl (by simp only [evalE, gt3, reduceCtorEq, if_false])
          (hval _ gx3 gy3) (resolve_word hmd od hald hind hltd) ?_
        rw [blockBytes_of hmd]
        exact hP _ [Ev.wr (mkPtr bd (based + od)) 4, Ev.rd (mkPtr b2 (base2 + o2)) 4, Ev.rd (mkPtr b1 (base1 + o1)) 4] s3 fr3

end TJ.MiniC.Hoare
